import MosnVerif.Lemmas.StreamTable
import MosnVerif.Model.H2ClientTable
import MosnVerif.Model.H2ClientTableSpec
/-! C02, HTTP/2 client stream table: the invariant of `Model/H2ClientTable` for the shape `goodShape`, for every
operation list. Core Lean only. -/
namespace MosnVerif.Model.H2ClientTable
open MosnVerif.Model.StreamTable (Table lookup erase insert lookup_erase lookup_insert lookup_nil keys_erase_nodup keys_insert_nodup)

abbrev G := goodShape

/-- every piece of a delivery came in a frame with stream id `id`, and there is a header -/
def Own (id : Int) (d : Delivery) : Prop :=
  (∃ t, d.hdr = some ⟨id, t⟩) ∧ (∀ p ∈ d.body, p.fid = id) ∧ (∀ p, d.trailer = some p → p.fid = id)

/-- what a stream object has collected so far came in frames with its own id -/
def PartsOwn (x : Str) : Prop :=
  (∀ p, x.header = some p → p.fid = x.id) ∧ (∀ p ∈ x.body, p.fid = x.id) ∧ (∀ p, x.trailer = some p → p.fid = x.id)

structure HInv (s : Conn) : Prop where
  tkeys : (s.tbl.map (·.1)).Nodup
  tentry : ∀ k w, lookup s.tbl k = some w → w < s.nW ∧ (s.str w).id = k ∧ (s.str w).got = [] ∧ k ≠ 0
  mentry : ∀ k w, lookup s.mod k = some w → lookup s.tbl k = some w ∧ (s.str w).live = true ∧ (s.str w).hasCs = true ∧
      ((s.str w).pastHeaders = true → ∃ t, (s.str w).header = some ⟨k, t⟩)
  liveOk : ∀ w, (s.str w).live = true → (s.str w).got = [] ∧ (s.str w).resets = []
  once : ∀ w, (s.str w).got.length + (s.str w).resets.length ≤ 1
  own : ∀ w, (∀ d ∈ (s.str w).got, Own (s.str w).id d) ∧ PartsOwn (s.str w)
  noCs : ∀ w, (s.str w).hasCs = false → (s.str w).id = 0

theorem hinv_init (first : Int) : HInv (init first) := by
  constructor <;> simp [init, lookup_nil, PartsOwn]

@[simp] theorem updW_str (s : Conn) (w : Nat) (f : Str → Str) (k : Nat) :
    (s.updW w f).str k = if k = w then f (s.str w) else s.str k := rfl
@[simp] theorem updW_tbl (s : Conn) (w : Nat) (f : Str → Str) : (s.updW w f).tbl = s.tbl := rfl
@[simp] theorem updW_mod (s : Conn) (w : Nat) (f : Str → Str) : (s.updW w f).mod = s.mod := rfl
@[simp] theorem updW_nW (s : Conn) (w : Nat) (f : Str → Str) : (s.updW w f).nW = s.nW := rfl
@[simp] theorem updW_next (s : Conn) (w : Nat) (f : Str → Str) : (s.updW w f).next = s.next := rfl
@[simp] theorem updW_last (s : Conn) (w : Nat) (f : Str → Str) : (s.updW w f).last = s.last := rfl
@[simp] theorem updW_closed (s : Conn) (w : Nat) (f : Str → Str) : (s.updW w f).closed = s.closed := rfl

/-- `streamByID` with the good shape: the lookup result, and the state with the entry possibly erased from `mod` only -/
theorem streamByID_good (s : Conn) (id : Int) (r : Bool) :
    (streamByID G s id r).1 = lookup s.mod id ∧
    (streamByID G s id r).2 = (if r = true ∧ (lookup s.mod id).isSome then { s with mod := erase s.mod id } else s) := by
  unfold streamByID
  simp only [G, goodShape]
  cases h : lookup s.mod id <;> cases r <;> simp

/-- entries may leave `mod`; counters, the RST log and the closed flag are not part of the invariant -/
theorem hinv_of_sub (s s' : Conn) (h : HInv s) (ht : s'.tbl = s.tbl) (hn : s'.nW = s.nW) (hs : s'.str = s.str)
    (hm : ∀ k w, lookup s'.mod k = some w → lookup s.mod k = some w) : HInv s' := by
  obtain ⟨h1, h2, h3, h4, h5, h6, h7⟩ := h
  constructor <;> simp only [ht, hn, hs] <;> first | assumption | skip
  intro k w hl; exact h3 k w (hm k w hl)

theorem lookup_erase_sub (t : Table) (k k' : Int) (w : Nat) (h : lookup (erase t k) k' = some w) : lookup t k' = some w := by
  rw [lookup_erase] at h; split at h <;> simp_all

theorem hinv_streamByID (s : Conn) (h : HInv s) (id : Int) (r : Bool) : HInv (streamByID G s id r).2 := by
  rw [(streamByID_good s id r).2]
  split
  · exact hinv_of_sub s _ h rfl rfl rfl (fun k w hl => lookup_erase_sub _ _ _ _ hl)
  · exact h

/-- `modReset`: the key is gone from `mod`, nothing else of the invariant's concern changes -/
theorem modReset_good (s : Conn) (id : Int) :
    (modReset G s id).tbl = s.tbl ∧ (modReset G s id).nW = s.nW ∧ (modReset G s id).str = s.str ∧
    (modReset G s id).last = s.last ∧ (modReset G s id).closed = s.closed ∧ (modReset G s id).next = s.next ∧
    (modReset G s id).goaways = s.goaways ∧ (modReset G s id).mod = erase s.mod id := by
  unfold modReset
  have hb := streamByID_good s (G.modResetKey id) (G.modResetRemove false)
  have e1 : G.modResetKey id = id := rfl
  have e2 : G.modResetRemove false = true := rfl
  rw [e1, e2] at hb
  cases hl : lookup s.mod id with
  | none =>
    have : erase s.mod id = s.mod := by
      unfold erase
      rw [List.filter_eq_self]
      intro e he
      by_cases hk : e.1 = id
      · exfalso
        have : lookup s.mod id ≠ none := by
          unfold lookup
          rw [Ne, Option.map_eq_none_iff, List.find?_eq_none]
          intro hh; exact hh e he (by simp [hk])
        exact this hl
      · simp [hk]
    rw [e1, e2]
    generalize hsb : streamByID G s id true = p at hb
    obtain ⟨a, s1⟩ := p
    simp only [hl, Option.isSome_none, Bool.false_eq_true, and_false, if_false] at hb
    obtain ⟨ha, hs1⟩ := hb
    subst ha; subst hs1
    simp [this]
  | some w =>
    rw [e1, e2]
    generalize hsb : streamByID G s id true = p at hb
    obtain ⟨a, s1⟩ := p
    simp only [hl, Option.isSome_some, and_self, if_true] at hb
    obtain ⟨ha, hs1⟩ := hb
    subst ha; subst hs1
    simp only []
    split <;> simp

theorem hinv_modReset (s : Conn) (h : HInv s) (id : Int) : HInv (modReset G s id) := by
  have g := modReset_good s id
  exact hinv_of_sub s _ h g.1 g.2.1 g.2.2.1 (fun k w hl => by rw [g.2.2.2.2.2.2.2] at hl; exact lookup_erase_sub _ _ _ _ hl)

theorem hinv_tblErase (s : Conn) (h : HInv s) (k : Int) (hk : lookup s.mod k = none) :
    HInv { s with tbl := erase s.tbl k } := by
  obtain ⟨h1, h2, h3, h4, h5, h6, h7⟩ := h
  refine ⟨keys_erase_nodup _ _ h1, ?_, ?_, h4, h5, h6, h7⟩
  · intro k' w hl
    exact h2 k' w (lookup_erase_sub _ _ _ _ hl)
  · intro k' w hl
    have := h3 k' w hl
    refine ⟨?_, this.2⟩
    show lookup (erase s.tbl k) k' = some w
    rw [lookup_erase]
    by_cases hkk : k' = k
    · subst hkk; simp [hk] at hl
    · simp [hkk, this.1]

theorem hinv_baseReset (s : Conn) (h : HInv s) (w : Nat) (r : Reason) (hw : ∀ k, lookup s.mod k ≠ some w) :
    HInv (baseReset s w r) := by
  unfold baseReset
  split
  · rename_i hlive
    obtain ⟨h1, h2, h3, h4, h5, h6, h7⟩ := h
    have hl := h4 w hlive
    constructor <;> simp only [updW_str, updW_tbl, updW_mod, updW_nW, apply_ite Str.id, apply_ite Str.got, apply_ite Str.live,
      apply_ite Str.hasCs, apply_ite Str.resets, apply_ite Str.pastHeaders, apply_ite Str.header, PartsOwn, apply_ite Str.body,
      apply_ite Str.trailer] at * <;> grind
  · exact h

/-- updating fields the invariant does not mention -/
theorem hinv_updW_neutral (s : Conn) (h : HInv s) (w : Nat) (f : Str → Str)
    (hf : ∀ x, (f x).id = x.id ∧ (f x).got = x.got ∧ (f x).resets = x.resets ∧ (f x).live = x.live ∧ (f x).hasCs = x.hasCs ∧
      (f x).pastHeaders = x.pastHeaders ∧ (f x).header = x.header ∧ (f x).body = x.body ∧ (f x).trailer = x.trailer) :
    HInv (s.updW w f) := by
  obtain ⟨h1, h2, h3, h4, h5, h6, h7⟩ := h
  have hf' := hf (s.str w)
  constructor <;> simp only [updW_str, updW_tbl, updW_mod, updW_nW, apply_ite Str.id, apply_ite Str.got, apply_ite Str.live,
      apply_ite Str.hasCs, apply_ite Str.resets, apply_ite Str.pastHeaders, apply_ite Str.header, PartsOwn, apply_ite Str.body,
      apply_ite Str.trailer] at * <;> grind

theorem lookup_erase_self (t : Table) (k : Int) : lookup (erase t k) k = none := by rw [lookup_erase]; simp

theorem hinv_resetStream (s : Conn) (h : HInv s) (w : Nat) (r : Reason) : HInv (resetStream G s w r) := by
  unfold resetStream
  simp only []
  have hg := modReset_good s (s.str w).id
  -- the module part
  have hA : HInv (if ((s.str w).hasCs || !G.ownResetNeedsCs) = true then
        (streamByID G (modReset G s (s.str w).id) (G.modOwnResetKey (s.str w).id) (G.modOwnResetRemove false)).2 else s) ∧
      (∀ k, lookup (if ((s.str w).hasCs || !G.ownResetNeedsCs) = true then
        (streamByID G (modReset G s (s.str w).id) (G.modOwnResetKey (s.str w).id) (G.modOwnResetRemove false)).2 else s).mod k ≠ some w) ∧
      lookup (if ((s.str w).hasCs || !G.ownResetNeedsCs) = true then
        (streamByID G (modReset G s (s.str w).id) (G.modOwnResetKey (s.str w).id) (G.modOwnResetRemove false)).2 else s).mod (s.str w).id = none ∧
      (if ((s.str w).hasCs || !G.ownResetNeedsCs) = true then
        (streamByID G (modReset G s (s.str w).id) (G.modOwnResetKey (s.str w).id) (G.modOwnResetRemove false)).2 else s).str = s.str := by
    have e1 : G.ownResetNeedsCs = true := rfl
    have e2 : G.modOwnResetKey (s.str w).id = (s.str w).id := rfl
    have e3 : G.modOwnResetRemove false = true := rfl
    simp only [e1, e2, e3, Bool.not_true, Bool.or_false]
    cases hcs : (s.str w).hasCs with
    | true =>
      simp only [if_true]
      have hb := streamByID_good (modReset G s (s.str w).id) (s.str w).id true
      rw [hb.2, hg.2.2.2.2.2.2.2, lookup_erase_self]
      simp only [Option.isSome_none, Bool.false_eq_true, and_false, if_false]
      refine ⟨hinv_modReset s h _, ?_, ?_, hg.2.2.1⟩
      · intro k hl
        rw [hg.2.2.2.2.2.2.2, lookup_erase] at hl
        split at hl
        · simp at hl
        · rename_i hne
          have := (h.tentry k w (h.mentry k w hl).1).2.1
          exact hne this.symm
      · rw [hg.2.2.2.2.2.2.2, lookup_erase_self]
    | false =>
      simp only [Bool.false_eq_true, if_false]
      refine ⟨h, ?_, ?_, trivial⟩
      · intro k hl
        have := (h.mentry k w hl).2.2.1
        rw [hcs] at this; simp at this
      · cases hl : lookup s.mod (s.str w).id with
        | none => rfl
        | some w' =>
          have h0 := h.noCs w hcs
          have := (h.tentry _ w' (h.mentry _ w' hl).1).2.2.2
          exact absurd h0 this
  generalize (if ((s.str w).hasCs || !G.ownResetNeedsCs) = true then
        (streamByID G (modReset G s (s.str w).id) (G.modOwnResetKey (s.str w).id) (G.modOwnResetRemove false)).2 else s) = sA at hA
  obtain ⟨hAi, hAw, hAk, hAs⟩ := hA
  have e4 : G.resetDeleteKey (s.str w).id = (s.str w).id := rfl
  rw [e4]
  apply hinv_baseReset
  · split
    · exact hinv_tblErase sA hAi _ hAk
    · exact hAi
  · intro k; split <;> exact hAw k

theorem hinv_resetAll (l : List (Int × Nat)) (s : Conn) (h : HInv s) (r : Reason) : HInv (resetAll G s r l) := by
  induction l generalizing s with
  | nil => exact h
  | cons e l ih =>
    obtain ⟨k, w⟩ := e
    simp only [resetAll]
    exact ih _ (hinv_resetStream _ (hinv_updW_neutral s h w _ (fun x => by simp)) w r)

theorem hinv_connClose (s : Conn) (h : HInv s) : HInv (connClose G s) := by
  unfold connClose
  exact hinv_resetAll _ { s with closed := true } (hinv_of_sub s _ h rfl rfl rfl (fun _ _ hl => hl)) _

theorem hinv_streamError (s : Conn) (h : HInv s) (id : Int) : HInv (streamError G s id) := by
  unfold streamError
  split
  · exact hinv_resetStream s h _ _
  · exact h

theorem hinv_open (s : Conn) (h : HInv s) (oneway : Bool) : HInv (openStream G s oneway) := by
  unfold openStream
  simp only [G, goodShape, Bool.not_true, Bool.or_false]
  split
  · rename_i hv
    simp only [Bool.and_eq_true, decide_eq_true_eq] at hv
    obtain ⟨h1, h2, h3, h4, h5, h6, h7⟩ := h
    refine ⟨keys_insert_nodup _ _ _ h1, ?_, ?_, ?_, ?_, ?_, ?_⟩
    · intro k w hl
      simp only [lookup_insert] at hl
      have := h2 k w
      grind
    · intro k w hl
      simp only [lookup_insert] at hl ⊢
      have := h3 k w
      have := h2 k w
      grind
    · intro w; have := h4 w; grind
    · intro w; have := h5 w; grind
    · intro w; have := h6 w; simp only [PartsOwn] at *; grind
    · intro w; have := h7 w; grind
  · -- the id was refused: the new stream object is reset, the tables are untouched
    apply hinv_resetStream
    obtain ⟨h1, h2, h3, h4, h5, h6, h7⟩ := h
    refine ⟨h1, ?_, ?_, ?_, ?_, ?_, ?_⟩
    · intro k w hl; have := h2 k w hl; grind
    · intro k w hl; have := h3 k w hl; have := h2 k w this.1; grind
    · intro w; have := h4 w; grind
    · intro w; have := h5 w; grind
    · intro w; have := h6 w; simp only [PartsOwn] at *; grind
    · intro w; have := h7 w; grind

macro "hinv_fields" : tactic => `(tactic|
  (constructor <;> simp only [updW_str, updW_tbl, updW_mod, updW_nW, apply_ite Str.id, apply_ite Str.got, apply_ite Str.live,
      apply_ite Str.hasCs, apply_ite Str.resets, apply_ite Str.pastHeaders, apply_ite Str.header, PartsOwn, apply_ite Str.body,
      apply_ite Str.trailer, deliver, lookup_erase] at * <;> grind))

theorem hinv_setPast (s : Conn) (h : HInv s) (w : Nat) (hw : ∀ k, lookup s.mod k ≠ some w) (pt : Bool) :
    HInv (s.updW w (fun x => { x with pastHeaders := true, pastTrailers := pt })) := by
  obtain ⟨h1, h2, h3, h4, h5, h6, h7⟩ := h
  hinv_fields

theorem hinv_setPastTrailers (s : Conn) (h : HInv s) (w : Nat) :
    HInv (s.updW w (fun x => { x with pastTrailers := true })) :=
  hinv_updW_neutral s h w _ (fun x => by simp)

/-- the first (not final) response HEADERS: remembered by the module stream and kept by the stream object -/
theorem hinv_setHeader (s : Conn) (h : HInv s) (id : Int) (w : Nat) (tok : Nat) (hm : lookup s.mod id = some w) :
    HInv ((s.updW w (fun x => { x with pastHeaders := true })).updW w (fun x => { x with header := some ⟨id, tok⟩, trailer := none })) := by
  obtain ⟨h1, h2, h3, h4, h5, h6, h7⟩ := h
  have a := h3 id w hm
  have b := h2 id w a.1
  have c : ∀ k, lookup s.mod k = some w → k = id := fun k hk => by
    have := (h2 k w (h3 k w hk).1).2.1; rw [b.2.1] at this; exact this.symm
  refine ⟨h1, ?_, ?_, ?_, ?_, ?_, ?_⟩
  · intro k w' hl; have := h2 k w' hl
    simp only [updW_str, updW_tbl, updW_nW, apply_ite Str.id, apply_ite Str.got] at *; grind
  · intro k w' hl
    have hh := h3 k w' hl
    simp only [updW_mod] at hl
    by_cases e : w' = w
    · subst e
      have hk := c k hl
      subst hk
      simp only [updW_str, updW_tbl, if_true]
      exact ⟨hh.1, hh.2.1, hh.2.2.1, fun _ => ⟨tok, rfl⟩⟩
    · simp only [updW_str, updW_tbl, e, if_false]; exact hh
  · intro w'; have := h4 w'
    simp only [updW_str, apply_ite Str.live, apply_ite Str.got, apply_ite Str.resets] at *; grind
  · intro w'; have := h5 w'
    simp only [updW_str, apply_ite Str.got, apply_ite Str.resets] at *; grind
  · intro w'; have := h6 w'
    simp only [updW_str, apply_ite Str.id, apply_ite Str.got, apply_ite Str.header, PartsOwn, apply_ite Str.body,
      apply_ite Str.trailer] at *; grind
  · intro w'; have := h7 w'
    simp only [updW_str, apply_ite Str.id, apply_ite Str.hasCs] at *; grind

theorem hinv_addBody (s : Conn) (h : HInv s) (id : Int) (w : Nat) (ps : List Part) (hp : ∀ p ∈ ps, p.fid = id)
    (ht : lookup s.tbl id = some w) : HInv (s.updW w (fun x => { x with body := x.body ++ ps })) := by
  obtain ⟨h1, h2, h3, h4, h5, h6, h7⟩ := h
  have b := h2 id w ht
  hinv_fields

theorem hinv_setTrailer (s : Conn) (h : HInv s) (id : Int) (w : Nat) (tok : Nat)
    (ht : lookup s.tbl id = some w) : HInv (s.updW w (fun x => { x with trailer := some ⟨id, tok⟩ })) := by
  obtain ⟨h1, h2, h3, h4, h5, h6, h7⟩ := h
  have b := h2 id w ht
  hinv_fields

/-- the hand-over: the wrapper destroys the stream, the receiver is notified, the entry leaves the table -/
theorem hinv_deliver_erase (s : Conn) (h : HInv s) (id : Int) (w : Nat) (d : Delivery) (ht : lookup s.tbl id = some w)
    (hm : lookup s.mod id = none) (hlive : (s.str w).live = true) (hd : Own id d) :
    HInv { deliver s w d with tbl := erase (deliver s w d).tbl id } := by
  obtain ⟨h1, h2, h3, h4, h5, h6, h7⟩ := h
  have b := h2 id w ht
  have l := h4 w hlive
  have c : ∀ k, lookup s.mod k = some w → k = id := fun k hk => by
    have := (h2 k w (h3 k w hk).1).2.1; rw [b.2.1] at this; exact this.symm
  have c2 : ∀ k, lookup s.tbl k = some w → k = id := fun k hk => by
    have := (h2 k w hk).2.1; rw [b.2.1] at this; exact this.symm
  refine ⟨keys_erase_nodup _ _ h1, ?_, ?_, ?_, ?_, ?_, ?_⟩ <;>
    simp only [updW_str, updW_tbl, updW_mod, updW_nW, apply_ite Str.id, apply_ite Str.got, apply_ite Str.live,
      apply_ite Str.hasCs, apply_ite Str.resets, apply_ite Str.pastHeaders, apply_ite Str.header, PartsOwn, apply_ite Str.body,
      apply_ite Str.trailer, deliver, lookup_erase] at * <;> grind

/-- `streamByID` as a case split: nothing found, or `mw` found and the entry erased iff `r` -/
theorem sb_cases (s : Conn) (id : Int) (r : Bool) :
    (lookup s.mod id = none ∧ streamByID G s id r = (none, s)) ∨
    (∃ mw, lookup s.mod id = some mw ∧ streamByID G s id r = (some mw, if r then { s with mod := erase s.mod id } else s)) := by
  unfold streamByID
  simp only [G, goodShape]
  cases h : lookup s.mod id with
  | none => left; simp
  | some mw => right; refine ⟨mw, rfl, ?_⟩; cases r <;> simp

theorem hinv_finish (s : Conn) (h : HInv s) (id : Int) (w : Nat) (ht : lookup s.tbl id = some w)
    (hm : lookup s.mod id = none) (hlive : (s.str w).live = true) (hh : ∃ t, (s.str w).header = some ⟨id, t⟩) :
    HInv (finish G s w id) := by
  unfold finish
  have e : G.endDeleteKey id = id := rfl
  simp only [e]
  split
  · apply hinv_deliver_erase s h id w _ ht hm hlive
    have b := h.tentry id w ht
    have o := (h.own w).2
    simp only [PartsOwn, b.2.1] at o
    exact ⟨hh, o.2.1, o.2.2⟩
  · exact hinv_tblErase s h id hm

/-- facts about the stream found in `mod` before its entry is (possibly) erased -/
theorem found_facts (s : Conn) (h : HInv s) (id : Int) (mw : Nat) (hl : lookup s.mod id = some mw) (r : Bool) :
    let s1 : Conn := if r then { s with mod := erase s.mod id } else s
    HInv s1 ∧ lookup s1.tbl id = some mw ∧ s1.str = s.str ∧ s1.tbl = s.tbl ∧ s1.nW = s.nW ∧ (s.str mw).live = true ∧
      (r = true → lookup s1.mod id = none) ∧ (r = false → lookup s1.mod id = some mw) ∧
      (∀ k, k ≠ id → lookup s1.mod k ≠ some mw) := by
  intro s1
  have a := h.mentry id mw hl
  have b := h.tentry id mw a.1
  have hi : HInv s1 := by
    cases r
    · exact h
    · exact hinv_of_sub s _ h rfl rfl rfl (fun k w hk => lookup_erase_sub _ _ _ _ hk)
  refine ⟨hi, ?_, ?_, ?_, ?_, a.2.1, ?_, ?_, ?_⟩
  · cases r <;> exact a.1
  · cases r <;> rfl
  · cases r <;> rfl
  · cases r <;> rfl
  · intro hr; subst hr; exact lookup_erase_self _ _
  · intro hr; subst hr; exact hl
  · intro k hk hc
    have hc' : lookup s.mod k = some mw := by
      cases r
      · exact hc
      · exact lookup_erase_sub _ _ _ _ hc
    have := (h.tentry k mw (h.mentry k mw hc').1).2.1
    rw [b.2.1] at this; exact hk this.symm

theorem found_facts_true (s : Conn) (h : HInv s) (id : Int) (mw : Nat) (hl : lookup s.mod id = some mw) :
    let s1 : Conn := { s with mod := erase s.mod id }
    HInv s1 ∧ lookup s1.tbl id = some mw ∧ s1.str = s.str ∧ (s.str mw).live = true ∧ lookup s1.mod id = none ∧
      (∀ k, lookup s1.mod k ≠ some mw) := by
  intro s1
  have ff := found_facts s h id mw hl true
  have hm : lookup s1.mod id = none := ff.2.2.2.2.2.2.1 rfl
  refine ⟨ff.1, ff.2.1, rfl, ff.2.2.2.2.2.1, hm, ?_⟩
  intro k hk
  by_cases e : k = id
  · subst e; rw [hm] at hk; simp at hk
  · exact ff.2.2.2.2.2.2.2.2 k e hk

theorem hinv_onHeaders (s : Conn) (h : HInv s) (id : Int) (tok : Nat) (ended : Bool) : HInv (onHeaders G s id tok ended) := by
  unfold onHeaders
  split
  · exact hinv_connClose s h
  · have e1 : G.modHeadersKey id = id := rfl
    have e2 : G.modHeadersRemove ended = ended := rfl
    have e3 : G.frameLookupKey id = id := rfl
    have e4 : G.hdrEndDeleteKey id = id := rfl
    simp only [e1, e2, e3, e4]
    rcases sb_cases s id ended with ⟨_, hsb⟩ | ⟨mw, hl, hsb⟩
    · rw [hsb]; exact h
    · rw [hsb]
      simp only []
      have ff := found_facts s h id mw hl ended
      generalize (if ended = true then { s with mod := erase s.mod id } else s) = s1 at ff ⊢
      obtain ⟨hi, ht, hs, htb, hn, hlive, hre, hrk, hoth⟩ := ff
      split
      · -- first HEADERS
        rename_i hp
        rw [updW_tbl, ht]
        simp only []
        cases ended with
        | true =>
          simp only [if_true]
          have hm := hre rfl
          have hi2 : HInv (s1.updW mw fun x => { x with pastHeaders := true }) := by
            have := hinv_setPast s1 hi mw (fun k hk => by
              by_cases e : k = id
              · subst e; rw [hm] at hk; simp at hk
              · exact hoth k e hk) (s1.str mw).pastTrailers
            exact this
          split
          · apply hinv_deliver_erase _ hi2 id mw _ (by rw [updW_tbl]; exact ht) (by rw [updW_mod]; exact hm)
              (by simp only [updW_str, if_true]; rw [hs]; exact hlive)
            exact ⟨⟨tok, rfl⟩, by simp, by simp⟩
          · exact hi2
        | false =>
          simp only [Bool.false_eq_true, if_false]
          exact hinv_setHeader s1 hi id mw tok (hrk rfl)
      · -- a second HEADERS with :status
        exact hinv_connClose _ (hinv_setPastTrailers s1 hi mw)

theorem hinv_onData (s : Conn) (h : HInv s) (id : Int) (tok : Nat) (ended empty : Bool) : HInv (onData G s id tok ended empty) := by
  unfold onData
  split
  · exact hinv_connClose s h
  · have e1 : G.modDataKey id = id := rfl
    have e2 : G.modDataRemove ended = ended := rfl
    have e3 : G.frameLookupKey id = id := rfl
    have e5 : G.dataBeforeHeadersErr = true := rfl
    simp only [e1, e2, e3, e5, Bool.and_true]
    rcases sb_cases s id ended with ⟨_, hsb⟩ | ⟨mw, hl, hsb⟩
    · rw [hsb]
      simp only []
      split
      · exact hinv_connClose s h
      · exact hinv_streamError _ (hinv_modReset s h id) id
    · rw [hsb]
      simp only []
      have a := h.mentry id mw hl
      have ff := found_facts s h id mw hl ended
      generalize (if ended = true then { s with mod := erase s.mod id } else s) = s1 at ff ⊢
      obtain ⟨hi, ht, hs, htb, hn, hlive, hre, hrk, hoth⟩ := ff
      split
      · exact hinv_streamError _ (hinv_modReset s1 hi id) id
      · rename_i hp
        rw [ht]
        simp only []
        have hph : (s.str mw).pastHeaders = true := by
          rw [hs] at hp; simpa using hp
        have hhdr := a.2.2.2 hph
        have hb : HInv (s1.updW mw fun x => { x with body := x.body ++ if empty = true then [] else [⟨id, tok⟩] }) :=
          hinv_addBody s1 hi id mw _ (by intro p hp; split at hp <;> simp_all) ht
        split
        · rename_i he
          apply hinv_finish _ hb id mw (by rw [updW_tbl]; exact ht) (by rw [updW_mod]; exact hre he)
            (by simp only [updW_str, if_true]; rw [hs]; exact hlive)
          obtain ⟨t, ht'⟩ := hhdr
          exact ⟨t, by simp only [updW_str, if_true]; rw [hs]; exact ht'⟩
        · exact hb

theorem hinv_onTrailers (s : Conn) (h : HInv s) (id : Int) (tok : Nat) : HInv (onTrailers G s id tok) := by
  unfold onTrailers
  split
  · exact hinv_connClose s h
  · have e1 : G.modHeadersKey id = id := rfl
    have e2 : G.modHeadersRemove true = true := rfl
    have e3 : G.frameLookupKey id = id := rfl
    simp only [e1, e2, e3]
    rcases sb_cases s id true with ⟨_, hsb⟩ | ⟨mw, hl, hsb⟩
    · rw [hsb]; exact h
    · rw [hsb]
      simp only [if_true]
      have a := h.mentry id mw hl
      have ff := found_facts_true s h id mw hl
      generalize ({ s with mod := erase s.mod id } : Conn) = s1 at ff ⊢
      obtain ⟨hi, ht, hs, hlive, hm, hnot⟩ := ff
      split
      · exact hinv_connClose _ (hinv_setPast s1 hi mw hnot (s1.str mw).pastTrailers)
      · rename_i hp
        split
        · exact hinv_connClose s1 hi
        · rw [updW_tbl, ht]
          simp only []
          have hph : (s.str mw).pastHeaders = true := by
            simpa using hp
          obtain ⟨t, ht'⟩ := a.2.2.2 hph
          have h2 := hinv_setTrailer _ (hinv_setPastTrailers s1 hi mw) id mw tok (by rw [updW_tbl]; exact ht)
          apply hinv_finish _ h2 id mw (by simp only [updW_tbl]; exact ht) (by simp only [updW_mod]; exact hm)
            (by simp only [updW_str, if_true]; rw [hs]; exact hlive)
          exact ⟨t, by simp only [updW_str, if_true]; rw [hs]; exact ht'⟩

theorem hinv_step (s : Conn) (h : HInv s) (op : Op) : HInv (step G s op) := by
  unfold step
  split
  · exact h
  · cases op with
    | open_ oneway => exact hinv_open s h oneway
    | headers id tok ended => exact hinv_onHeaders s h id tok ended
    | data id tok ended empty => exact hinv_onData s h id tok ended empty
    | trailers id tok => exact hinv_onTrailers s h id tok
    | rst id =>
      simp only [onRst]
      split
      · exact hinv_connClose s h
      · exact hinv_streamError _ (hinv_modReset _ (hinv_streamByID s h _ _) id) id
    | window id => exact hinv_streamByID s h _ _
    | goaway last code =>
      simp only [onGoAway]
      split
      · exact hinv_of_sub s _ h rfl rfl rfl (fun _ _ hl => hl)
      · exact h
    | reset w =>
      simp only []
      split
      · exact hinv_resetStream s h w _
      · exact h
    | connReset => exact hinv_resetAll _ s h _
    | connError => exact hinv_connClose s h
    | noise => exact h

theorem hinv_run (s : Conn) (h : HInv s) (ops : List Op) : HInv (run G s ops) := by
  induction ops generalizing s with
  | nil => exact h
  | cons op r ih => exact ih _ (hinv_step s h op)

/-! ### what only `open_` changes: the counter, the number of stream objects, their ids; and what only a hand-over changes: `got` -/
/-- `s'` has the counter, the stream objects' ids / registration in the module of `s`; `g`: also their deliveries -/
def Same (g : Bool) (s s' : Conn) : Prop :=
  s'.next = s.next ∧ s'.nW = s.nW ∧
  (∀ w, (s'.str w).id = (s.str w).id ∧ (s'.str w).hasCs = (s.str w).hasCs ∧ (g = true → (s'.str w).got = (s.str w).got)) ∧
  (∀ k w, lookup s'.mod k = some w → lookup s.mod k = some w)

theorem Same.refl (g : Bool) (s : Conn) : Same g s s := ⟨rfl, rfl, fun _ => ⟨rfl, rfl, fun _ => rfl⟩, fun _ _ h => h⟩
theorem Same.trans {g : Bool} {a b c : Conn} (h1 : Same g a b) (h2 : Same g b c) : Same g a c :=
  ⟨h2.1.trans h1.1, h2.2.1.trans h1.2.1, fun w =>
    ⟨(h2.2.2.1 w).1.trans (h1.2.2.1 w).1, (h2.2.2.1 w).2.1.trans (h1.2.2.1 w).2.1,
      fun hg => ((h2.2.2.1 w).2.2 hg).trans ((h1.2.2.1 w).2.2 hg)⟩, fun k w h => h1.2.2.2 k w (h2.2.2.2 k w h)⟩
theorem Same.weaken {a b : Conn} (h : Same true a b) (g : Bool) : Same g a b :=
  ⟨h.1, h.2.1, fun w => ⟨(h.2.2.1 w).1, (h.2.2.1 w).2.1, fun _ => (h.2.2.1 w).2.2 rfl⟩, h.2.2.2⟩

theorem same_of_str (g : Bool) (s s' : Conn) (hn : s'.next = s.next) (hw : s'.nW = s.nW) (hs : s'.str = s.str)
    (hm : ∀ k w, lookup s'.mod k = some w → lookup s.mod k = some w := by
      first | exact fun _ _ h => h | exact fun _ _ h => lookup_erase_sub _ _ _ _ h) : Same g s s' :=
  ⟨hn, hw, fun w => by rw [hs]; exact ⟨rfl, rfl, fun _ => rfl⟩, hm⟩

theorem same_updW (g : Bool) (s : Conn) (w : Nat) (f : Str → Str)
    (hf : ∀ x, (f x).id = x.id ∧ (f x).hasCs = x.hasCs ∧ (g = true → (f x).got = x.got)) : Same g s (s.updW w f) := by
  refine ⟨rfl, rfl, fun k => ?_, fun _ _ h => h⟩
  simp only [updW_str]
  split
  · rename_i e; subst e; exact hf _
  · exact ⟨rfl, rfl, fun _ => rfl⟩

theorem same_streamByID (g : Bool) (s : Conn) (id : Int) (r : Bool) : Same g s (streamByID G s id r).2 := by
  rw [(streamByID_good s id r).2]; split
  · exact same_of_str g s _ rfl rfl rfl
  · exact Same.refl g s

theorem same_modReset (g : Bool) (s : Conn) (id : Int) : Same g s (modReset G s id) := by
  have h := modReset_good s id
  exact same_of_str g s _ h.2.2.2.2.2.1 h.2.1 h.2.2.1 (fun k w hl => by rw [h.2.2.2.2.2.2.2] at hl; exact lookup_erase_sub _ _ _ _ hl)

theorem same_baseReset (g : Bool) (s : Conn) (w : Nat) (r : Reason) : Same g s (baseReset s w r) := by
  unfold baseReset; split
  · exact same_updW g s w (fun x => { x with resets := x.resets ++ [r], live := false }) (fun x => ⟨rfl, rfl, fun _ => rfl⟩)
  · exact Same.refl g s

theorem same_resetStream (g : Bool) (s : Conn) (w : Nat) (r : Reason) : Same g s (resetStream G s w r) := by
  unfold resetStream
  simp only []
  refine Same.trans ?_ (same_baseReset g _ w _)
  have hA : Same g s (if ((s.str w).hasCs || !G.ownResetNeedsCs) = true then
        (streamByID G (modReset G s (s.str w).id) (G.modOwnResetKey (s.str w).id) (G.modOwnResetRemove false)).2 else s) := by
    split
    · exact (same_modReset g s _).trans (same_streamByID g _ _ _)
    · exact Same.refl g s
  split
  · exact hA.trans (same_of_str g _ _ rfl rfl rfl)
  · exact hA

theorem same_resetAll (g : Bool) (l : List (Int × Nat)) (s : Conn) (r : Reason) : Same g s (resetAll G s r l) := by
  induction l generalizing s with
  | nil => exact Same.refl g s
  | cons e l ih =>
    obtain ⟨k, w⟩ := e
    simp only [resetAll]
    exact ((same_updW g s w (fun x => { x with connReset := true }) (fun x => ⟨rfl, rfl, fun _ => rfl⟩)).trans
      (same_resetStream g _ w r)).trans (ih _)

theorem same_connClose (g : Bool) (s : Conn) : Same g s (connClose G s) := by
  unfold connClose
  exact (same_of_str g s { s with closed := true } rfl rfl rfl).trans (same_resetAll g _ _ _)

theorem same_streamError (g : Bool) (s : Conn) (id : Int) : Same g s (streamError G s id) := by
  unfold streamError; split
  · exact same_resetStream g s _ _
  · exact Same.refl g s

/-- a state built from `s` by field updates of stream objects that keep `id` / `hasCs`, and table updates -/
macro "same_leaf" : tactic => `(tactic|
  (refine ⟨rfl, rfl, fun k => ?_, fun _ _ h => h⟩ <;> simp only [updW_str, deliver, finish] <;> (repeat' split) <;> simp_all))

theorem same_finish (s : Conn) (w : Nat) (id : Int) : Same false s (finish G s w id) := by
  unfold finish
  simp only []
  split <;> same_leaf

/-- every operation but `open_` leaves the counter, the number of stream objects and their ids alone -/
theorem same_step (s : Conn) (op : Op) (hop : ∀ o, op ≠ .open_ o) : Same false s (step G s op) := by
  unfold step
  split
  · exact Same.refl _ s
  · cases op with
    | open_ oneway => exact absurd rfl (hop oneway)
    | headers id tok ended =>
      simp only [onHeaders]
      split
      · exact same_connClose _ s
      · rcases sb_cases s (G.modHeadersKey id) (G.modHeadersRemove ended) with ⟨_, hsb⟩ | ⟨mw, hl, hsb⟩
        · rw [hsb]; exact Same.refl _ s
        · rw [hsb]
          simp only []
          have h1 : Same false s (if G.modHeadersRemove ended = true then { s with mod := erase s.mod (G.modHeadersKey id) } else s) := by
            split
            · exact same_of_str _ _ _ rfl rfl rfl
            · exact Same.refl _ s
          generalize (if G.modHeadersRemove ended = true then { s with mod := erase s.mod (G.modHeadersKey id) } else s) = s1 at h1 ⊢
          refine h1.trans ?_
          split
          · split
            · same_leaf
            · split
              · split <;> same_leaf
              · same_leaf
          · exact (same_updW false s1 mw (fun x => { x with pastTrailers := true }) (fun x => ⟨rfl, rfl, fun h => by simp at h⟩)).trans
              (same_connClose _ _)
    | data id tok ended empty =>
      simp only [onData]
      split
      · exact same_connClose _ s
      · rcases sb_cases s (G.modDataKey id) (G.modDataRemove ended) with ⟨_, hsb⟩ | ⟨mw, hl, hsb⟩
        · rw [hsb]
          simp only []
          split
          · exact same_connClose _ s
          · exact (same_modReset _ s id).trans (same_streamError _ _ id)
        · rw [hsb]
          simp only []
          have h1 : Same false s (if G.modDataRemove ended = true then { s with mod := erase s.mod (G.modDataKey id) } else s) := by
            split
            · exact same_of_str _ _ _ rfl rfl rfl
            · exact Same.refl _ s
          generalize (if G.modDataRemove ended = true then { s with mod := erase s.mod (G.modDataKey id) } else s) = s1 at h1 ⊢
          refine h1.trans ?_
          split
          · exact (same_modReset _ s1 id).trans (same_streamError _ _ id)
          · split
            · exact Same.refl _ _
            · rename_i w _
              have h2 := same_updW false s1 w (fun x => { x with body := x.body ++ if empty = true then [] else [⟨id, tok⟩] })
                (fun x => ⟨rfl, rfl, fun h => by simp at h⟩)
              split
              · exact h2.trans (same_finish _ _ _)
              · exact h2
    | trailers id tok =>
      simp only [onTrailers]
      split
      · exact same_connClose _ s
      · rcases sb_cases s (G.modHeadersKey id) (G.modHeadersRemove true) with ⟨_, hsb⟩ | ⟨mw, hl, hsb⟩
        · rw [hsb]; exact Same.refl _ s
        · rw [hsb]
          simp only []
          have h1 : Same false s (if G.modHeadersRemove true = true then { s with mod := erase s.mod (G.modHeadersKey id) } else s) := by
            split
            · exact same_of_str _ _ _ rfl rfl rfl
            · exact Same.refl _ s
          generalize (if G.modHeadersRemove true = true then { s with mod := erase s.mod (G.modHeadersKey id) } else s) = s1 at h1 ⊢
          refine h1.trans ?_
          split
          · exact (same_updW false s1 mw (fun x => { x with pastHeaders := true }) (fun x => ⟨rfl, rfl, fun h => by simp at h⟩)).trans
              (same_connClose _ _)
          · split
            · exact same_connClose _ _
            · have h2 := same_updW false s1 mw (fun x => { x with pastTrailers := true }) (fun x => ⟨rfl, rfl, fun h => by simp at h⟩)
              refine h2.trans ?_
              split
              · exact Same.refl _ _
              · rename_i w _
                exact (same_updW false _ w (fun x => { x with trailer := some ⟨id, tok⟩ }) (fun x => ⟨rfl, rfl, fun h => by simp at h⟩)).trans
                  (same_finish _ _ _)
    | rst id =>
      simp only [onRst]
      split
      · exact same_connClose _ s
      · exact ((same_streamByID _ s _ _).trans (same_modReset _ _ id)).trans (same_streamError _ _ id)
    | window id => exact same_streamByID _ s _ _
    | goaway last code =>
      simp only [onGoAway]
      split
      · exact same_of_str _ _ _ rfl rfl rfl
      · exact Same.refl _ s
    | reset w =>
      simp only []
      split
      · exact same_resetStream _ s w _
      · exact Same.refl _ s
    | connReset => exact same_resetAll _ _ s _
    | connError => exact same_connClose _ s
    | noise => exact Same.refl _ s

/-! ### ids -/
/-- the id `MClientConn.newStream` hands to the n-th stream object of a connection whose counter started at `first` -/
def idAt (first : Int) (n : Nat) : Int := (first % 4294967296 + 2 * (n : Int)) % 4294967296

structure IdInv (s : Conn) (first : Int) : Prop where
  next : s.next = idAt first s.nW
  ids : ∀ w, w < s.nW → (s.str w).hasCs = G.valid (idAt first w) ∧
      (s.str w).id = if G.valid (idAt first w) = true then idAt first w else 0

theorem idinv_init (first : Int) : IdInv (init first) first := by
  constructor
  · simp only [init, idAt, MosnVerif.Gen.H2ClientTable.u32]; omega
  · intro w hw; simp [init] at hw

theorem idinv_of_same (s s' : Conn) (first : Int) (h : IdInv s first) (hs : Same false s s') : IdInv s' first := by
  refine ⟨by rw [hs.1, hs.2.1]; exact h.next, fun w hw => ?_⟩
  rw [(hs.2.2.1 w).1, (hs.2.2.1 w).2.1]
  exact h.ids w (hs.2.1 ▸ hw)

theorem idinv_open (s : Conn) (first : Int) (h : IdInv s first) (o : Bool) : IdInv (step G s (.open_ o)) first := by
  unfold step
  split
  · exact h
  · simp only []
    unfold openStream
    have hid : (G.newId s.next).1 = idAt first s.nW := by simp only [G, goodShape]; exact h.next
    have hnx : (G.newId s.next).2 = idAt first (s.nW + 1) := by
      simp only [G, goodShape, h.next, idAt]; push_cast; omega
    have e : G.writeRefuses = true := rfl
    simp only [e, Bool.not_true, Bool.or_false]
    split
    · rename_i hv
      refine ⟨hnx, fun w hw => ?_⟩
      simp only [] at hw ⊢
      by_cases hwn : w = s.nW
      · subst hwn; simp only [if_true]; rw [hid] at hv ⊢; simp [hv]
      · simp only [hwn, if_false]; exact h.ids w (by omega)
    · rename_i hv
      apply idinv_of_same _ _ first _ (same_resetStream false _ _ _)
      refine ⟨hnx, fun w hw => ?_⟩
      simp only [] at hw ⊢
      by_cases hwn : w = s.nW
      · subst hwn; simp only [if_true]; rw [hid] at hv; simp [hv]
      · simp only [hwn, if_false]; exact h.ids w (by omega)

theorem idinv_step (s : Conn) (first : Int) (h : IdInv s first) (op : Op) : IdInv (step G s op) first := by
  cases op with
  | open_ o => exact idinv_open s first h o
  | headers a b c => exact idinv_of_same s _ first h (same_step s _ (fun o => by simp))
  | data a b c d => exact idinv_of_same s _ first h (same_step s _ (fun o => by simp))
  | trailers a b => exact idinv_of_same s _ first h (same_step s _ (fun o => by simp))
  | rst a => exact idinv_of_same s _ first h (same_step s _ (fun o => by simp))
  | window a => exact idinv_of_same s _ first h (same_step s _ (fun o => by simp))
  | goaway a b => exact idinv_of_same s _ first h (same_step s _ (fun o => by simp))
  | reset a => exact idinv_of_same s _ first h (same_step s _ (fun o => by simp))
  | connReset => exact idinv_of_same s _ first h (same_step s _ (fun o => by simp))
  | connError => exact idinv_of_same s _ first h (same_step s _ (fun o => by simp))
  | noise => exact idinv_of_same s _ first h (same_step s _ (fun o => by simp))

theorem idinv_run (s : Conn) (first : Int) (h : IdInv s first) (ops : List Op) : IdInv (run G s ops) first := by
  induction ops generalizing s with
  | nil => exact h
  | cons op r ih => exact ih _ (idinv_step s first h op)

theorem idAt_range (first : Int) (n : Nat) : 0 ≤ idAt first n ∧ idAt first n < 4294967296 := by
  unfold idAt; omega

theorem valid_range (x : Int) (hx : 0 ≤ x ∧ x < 4294967296) (hv : G.valid x = true) : 0 < x ∧ x < 2147483648 := by
  simp only [G, goodShape, Bool.and_eq_true, decide_eq_true_eq] at hv
  omega

theorem idAt_distinct (first : Int) (v w : Nat) (hvw : v < w) (hd : w - v < 2147483648) : idAt first v ≠ idAt first w := by
  unfold idAt; omega

theorem idAt_odd (first : Int) (n : Nat) (ho : first % 2 = 1) : idAt first n % 2 = 1 := by
  unfold idAt; omega

/-! ### a frame for an id the module table does not hold delivers nothing -/
def Op.frameOn (id : Int) : Op → Prop
  | .headers i _ _ => i = id
  | .data i _ _ _ => i = id
  | .trailers i _ => i = id
  | .rst i => i = id
  | _ => False

theorem frame_no_entry (s : Conn) (id : Int) (hn : lookup s.mod id = none) (op : Op) (hop : op.frameOn id) :
    Same true s (step G s op) := by
  unfold step
  split
  · exact Same.refl _ s
  · cases op with
    | headers i tok ended =>
      simp only [Op.frameOn] at hop; subst hop
      simp only [onHeaders]
      split
      · exact same_connClose _ s
      · rcases sb_cases s (G.modHeadersKey i) (G.modHeadersRemove ended) with ⟨_, hsb⟩ | ⟨mw, hl, _⟩
        · rw [hsb]; exact Same.refl _ s
        · have : G.modHeadersKey i = i := rfl
          rw [this, hn] at hl; simp at hl
    | data i tok ended empty =>
      simp only [Op.frameOn] at hop; subst hop
      simp only [onData]
      split
      · exact same_connClose _ s
      · rcases sb_cases s (G.modDataKey i) (G.modDataRemove ended) with ⟨_, hsb⟩ | ⟨mw, hl, _⟩
        · rw [hsb]
          simp only []
          split
          · exact same_connClose _ s
          · exact (same_modReset _ s i).trans (same_streamError _ _ i)
        · have : G.modDataKey i = i := rfl
          rw [this, hn] at hl; simp at hl
    | trailers i tok =>
      simp only [Op.frameOn] at hop; subst hop
      simp only [onTrailers]
      split
      · exact same_connClose _ s
      · rcases sb_cases s (G.modHeadersKey i) (G.modHeadersRemove true) with ⟨_, hsb⟩ | ⟨mw, hl, _⟩
        · rw [hsb]; exact Same.refl _ s
        · have : G.modHeadersKey i = i := rfl
          rw [this, hn] at hl; simp at hl
    | rst i =>
      simp only [onRst]
      split
      · exact same_connClose _ s
      · exact ((same_streamByID _ s _ _).trans (same_modReset _ _ i)).trans (same_streamError _ _ i)
    | open_ o => simp [Op.frameOn] at hop
    | window i => simp [Op.frameOn] at hop
    | goaway l c => simp [Op.frameOn] at hop
    | reset w => simp [Op.frameOn] at hop
    | connReset => simp [Op.frameOn] at hop
    | connError => simp [Op.frameOn] at hop
    | noise => simp [Op.frameOn] at hop

/-- after `ResetStream` of a stream whose request went out its id is in the module table no more -/
theorem resetStream_mod_none (s : Conn) (w : Nat) (r : Reason) (hcs : (s.str w).hasCs = true) :
    lookup (resetStream G s w r).mod (s.str w).id = none := by
  have hb : ∀ (t : Conn) (w' : Nat) (r' : Reason), (baseReset t w' r').mod = t.mod := by
    intro t w' r'; unfold baseReset; split <;> rfl
  unfold resetStream
  simp only [hb, hcs, Bool.true_or, if_true]
  have hg := modReset_good s (s.str w).id
  have hsb := streamByID_good (modReset G s (s.str w).id) (G.modOwnResetKey (s.str w).id) (G.modOwnResetRemove false)
  have e2 : G.modOwnResetKey (s.str w).id = (s.str w).id := rfl
  rw [e2] at hsb
  have hm : lookup (streamByID G (modReset G s (s.str w).id) (s.str w).id (G.modOwnResetRemove false)).2.mod (s.str w).id = none := by
    rw [hsb.2, hg.2.2.2.2.2.2.2, lookup_erase_self]
    simp only [Option.isSome_none, Bool.false_eq_true, and_false, if_false]
    rw [hg.2.2.2.2.2.2.2, lookup_erase_self]
  rw [e2]
  split <;> exact hm

/-- operations other than `open_` never add to the module table -/
theorem mod_none_run (s : Conn) (id : Int) (hn : lookup s.mod id = none) (ops : List Op) (hops : ∀ op ∈ ops, ∀ o, op ≠ .open_ o) :
    lookup (run G s ops).mod id = none := by
  induction ops generalizing s with
  | nil => exact hn
  | cons op r ih =>
    apply ih _ _ (fun o ho => hops o (by simp [ho]))
    cases hl : lookup (step G s op).mod id with
    | none => rfl
    | some w => have := (same_step s op (hops op (by simp))).2.2.2 id w hl; rw [hn] at this; simp at this

/-- what `ResetStream(r)` tells the listeners of a stream that is not destroyed yet: `r`, or ConnectionFailed iff a GOAWAY
was seen and the stream's id is above its last-stream-id -/
theorem resetStream_reason (s : Conn) (w : Nat) (r : Reason) (hl : (s.str w).live = true) :
    ((resetStream G s w r).str w).resets =
      (s.str w).resets ++ [if 0 < s.last ∧ s.last < (s.str w).id then Reason.connFailed else r] ∧
    ∀ k, k ≠ w → (resetStream G s w r).str k = s.str k := by
  unfold resetStream
  simp only []
  have hA : (if ((s.str w).hasCs || !G.ownResetNeedsCs) = true then
        (streamByID G (modReset G s (s.str w).id) (G.modOwnResetKey (s.str w).id) (G.modOwnResetRemove false)).2 else s).str = s.str := by
    split
    · rw [(streamByID_good _ _ _).2]; split <;> exact (modReset_good s _).2.2.1
    · rfl
  generalize (if ((s.str w).hasCs || !G.ownResetNeedsCs) = true then
        (streamByID G (modReset G s (s.str w).id) (G.modOwnResetKey (s.str w).id) (G.modOwnResetRemove false)).2 else s) = sA at hA
  have hB : (if G.resetDeletes (s.str w).connReset = true then { sA with tbl := erase sA.tbl (G.resetDeleteKey (s.str w).id) } else sA).str = s.str := by
    split <;> exact hA
  generalize (if G.resetDeletes (s.str w).connReset = true then { sA with tbl := erase sA.tbl (G.resetDeleteKey (s.str w).id) } else sA) = sB at hB
  unfold baseReset
  rw [hB, hl]
  simp only [if_true, updW_str, hB]
  refine ⟨?_, fun k hk => by simp [hk]⟩
  simp only [G, goodShape, Bool.and_eq_true, decide_eq_true_eq, gt_iff_lt]

theorem lookup_of_mem_nodup (t : Table) (e : Int × Nat) (he : e ∈ t) (hk : (t.map (·.1)).Nodup) : lookup t e.1 = some e.2 := by
  induction t with
  | nil => simp at he
  | cons a r ih =>
    rw [MosnVerif.Model.StreamTable.lookup_cons]
    rw [List.map_cons, List.nodup_cons] at hk
    rw [List.mem_cons] at he
    rcases he with he | he
    · subst he; simp
    · have hne : a.1 ≠ e.1 := by
        intro heq; apply hk.1; rw [heq]; exact List.mem_map.mpr ⟨e, he, rfl⟩
      simp only [hne, if_false]
      exact ih he hk.2

/-! ### the executable predicate holds of every model state -/
open MosnVerif.Model.H2ClientTableSpec in
theorem obsSpec_of_hinv (s : Conn) (h : HInv s) : obsSpec (obsOf s) = true := by
  unfold obsSpec
  simp only [Bool.and_eq_true, List.all_eq_true, decide_eq_true_eq, List.any_eq_true, beq_iff_eq]
  refine ⟨⟨?_, ?_⟩, ?_⟩
  · intro ox hox
    simp only [obsOf, List.mem_map, List.mem_range] at hox
    obtain ⟨w, _, rfl⟩ := hox
    refine ⟨by simpa using h.once w, ?_⟩
    intro od hod
    simp only [List.mem_map] at hod
    obtain ⟨d, hd, rfl⟩ := hod
    obtain ⟨⟨t, ht⟩, hb, htr⟩ := (h.own w).1 d hd
    simp only [delOwn, Bool.and_eq_true, beq_iff_eq, List.all_eq_true, Bool.or_eq_true, List.mem_map, partLabel]
    refine ⟨⟨by rw [ht]; rfl, ?_⟩, ?_⟩
    · rintro x ⟨p, hp, rfl⟩; exact hb p hp
    · cases htl : d.trailer with
      | none => left; rfl
      | some p => right; simp [partLabel, htr p htl]
  · have : (obsOf s).tbl = s.tbl.map (·.1) := rfl
    rw [this]; exact h.tkeys
  · intro k hk
    simp only [obsOf, List.mem_map] at hk
    obtain ⟨e, he, rfl⟩ := hk
    have hl : lookup s.tbl e.1 = some e.2 := by
      -- keys are distinct: the entry found for e.1 is e
      exact lookup_of_mem_nodup s.tbl e he h.tkeys
    have ⟨h1, h2, h3, _⟩ := h.tentry e.1 e.2 hl
    refine ⟨_, List.mem_map.mpr ⟨e.2, List.mem_range.mpr h1, rfl⟩, ?_⟩
    simp [h2, h3]

/-! ### a frame touches only the stream objects registered under its id (unless it closes the connection) -/
/-- stream objects whose id is not `id` keep their deliveries and reset notifications -/
def Untouched (id : Int) (s s' : Conn) : Prop :=
  Same false s s' ∧ s'.closed = s.closed ∧
  ∀ w, (s.str w).id ≠ id → (s'.str w).got = (s.str w).got ∧ (s'.str w).resets = (s.str w).resets

theorem Untouched.refl (id : Int) (s : Conn) : Untouched id s s := ⟨Same.refl _ s, rfl, fun _ _ => ⟨rfl, rfl⟩⟩
theorem Untouched.trans {id : Int} {a b c : Conn} (h1 : Untouched id a b) (h2 : Untouched id b c) : Untouched id a c := by
  refine ⟨h1.1.trans h2.1, h2.2.1.trans h1.2.1, fun w hw => ?_⟩
  have e := (h1.1.2.2.1 w).1
  have x := h1.2.2 w hw
  have y := h2.2.2 w (by rw [e]; exact hw)
  exact ⟨y.1.trans x.1, y.2.trans x.2⟩

theorem untouched_of_str (id : Int) (s s' : Conn) (hn : s'.next = s.next) (hw : s'.nW = s.nW) (hs : s'.str = s.str)
    (hc : s'.closed = s.closed)
    (hm : ∀ k w, lookup s'.mod k = some w → lookup s.mod k = some w := by
      first | exact fun _ _ h => h | exact fun _ _ h => lookup_erase_sub _ _ _ _ h) : Untouched id s s' :=
  ⟨same_of_str false s s' hn hw hs hm, hc, fun w _ => by rw [hs]; exact ⟨rfl, rfl⟩⟩

/-- an update of stream object `w` that keeps id / hasCs, and keeps got / resets unless `w` is registered under `id` -/
theorem untouched_updW (id : Int) (s : Conn) (w : Nat) (f : Str → Str)
    (hf : ∀ x, (f x).id = x.id ∧ (f x).hasCs = x.hasCs) (hg : (s.str w).id = id ∨ ((f (s.str w)).got = (s.str w).got ∧ (f (s.str w)).resets = (s.str w).resets)) :
    Untouched id s (s.updW w f) := by
  refine ⟨same_updW false s w f (fun x => ⟨(hf x).1, (hf x).2, fun h => by simp at h⟩), rfl, fun k hk => ?_⟩
  simp only [updW_str]
  split
  · rename_i e; subst e
    rcases hg with hg | hg
    · exact absurd hg hk
    · exact hg
  · exact ⟨rfl, rfl⟩

theorem untouched_streamByID (id : Int) (s : Conn) (k : Int) (r : Bool) : Untouched id s (streamByID G s k r).2 := by
  rw [(streamByID_good s k r).2]; split
  · exact untouched_of_str id s _ rfl rfl rfl rfl
  · exact Untouched.refl id s

theorem untouched_modReset (id : Int) (s : Conn) (k : Int) : Untouched id s (modReset G s k) := by
  have h := modReset_good s k
  exact untouched_of_str id s _ h.2.2.2.2.2.1 h.2.1 h.2.2.1 h.2.2.2.2.1
    (fun a w hl => by rw [h.2.2.2.2.2.2.2] at hl; exact lookup_erase_sub _ _ _ _ hl)

theorem untouched_resetStream (id : Int) (s : Conn) (w : Nat) (r : Reason) (hw : (s.str w).id = id) :
    Untouched id s (resetStream G s w r) := by
  unfold resetStream
  simp only []
  have hA : Untouched id s (if ((s.str w).hasCs || !G.ownResetNeedsCs) = true then
        (streamByID G (modReset G s (s.str w).id) (G.modOwnResetKey (s.str w).id) (G.modOwnResetRemove false)).2 else s) := by
    split
    · exact (untouched_modReset id s _).trans (untouched_streamByID id _ _ _)
    · exact Untouched.refl id s
  generalize (if ((s.str w).hasCs || !G.ownResetNeedsCs) = true then
        (streamByID G (modReset G s (s.str w).id) (G.modOwnResetKey (s.str w).id) (G.modOwnResetRemove false)).2 else s) = sA at hA
  have hB : Untouched id s (if G.resetDeletes (s.str w).connReset = true then { sA with tbl := erase sA.tbl (G.resetDeleteKey (s.str w).id) } else sA) := by
    split
    · exact hA.trans (untouched_of_str id _ _ rfl rfl rfl rfl)
    · exact hA
  generalize (if G.resetDeletes (s.str w).connReset = true then { sA with tbl := erase sA.tbl (G.resetDeleteKey (s.str w).id) } else sA) = sB at hB
  refine hB.trans ?_
  unfold baseReset
  split
  · exact untouched_updW id sB w _ (fun x => ⟨rfl, rfl⟩) (Or.inl (by rw [(hB.1.2.2.1 w).1]; exact hw))
  · exact Untouched.refl id sB

theorem untouched_streamError (s : Conn) (h : HInv s) (id : Int) : Untouched id s (streamError G s id) := by
  unfold streamError
  have e : G.errLookupKey id = id := rfl
  rw [e]
  cases hl : lookup s.tbl id with
  | none => exact Untouched.refl id s
  | some w => exact untouched_resetStream id s w _ (h.tentry id w hl).2.1

theorem untouched_finish (s : Conn) (id : Int) (w : Nat) (hw : (s.str w).id = id) : Untouched id s (finish G s w id) := by
  unfold finish
  simp only []
  split
  · exact (untouched_updW id s w (fun x => { x with live := false, got := x.got ++ [⟨(s.str w).header, (s.str w).body, (s.str w).trailer⟩] })
      (fun x => ⟨rfl, rfl⟩) (Or.inl hw)).trans (untouched_of_str id _ _ rfl rfl rfl rfl)
  · exact untouched_of_str id _ _ rfl rfl rfl rfl

theorem resetAll_closed (l : List (Int × Nat)) (s : Conn) (r : Reason) : (resetAll G s r l).closed = s.closed := by
  induction l generalizing s with
  | nil => rfl
  | cons e l ih =>
    obtain ⟨k, w⟩ := e
    simp only [resetAll]
    rw [ih]
    exact ((untouched_resetStream _ (s.updW w fun x => { x with connReset := true }) w r rfl).2.1)

theorem connClose_closed (s : Conn) : (connClose G s).closed = true := by
  unfold connClose; rw [resetAll_closed]

/-- **a frame touches only its own id**: a HEADERS / DATA / trailers / RST_STREAM frame with stream id `id` that does not
close the connection changes the deliveries and reset notifications of no stream object registered under another id -/
theorem frame_touches_only_its_id (s : Conn) (h : HInv s) (id : Int) (op : Op) (hop : op.frameOn id)
    (hc : (step G s op).closed = false) : Untouched id s (step G s op) := by
  unfold step at hc ⊢
  split
  · exact Untouched.refl id s
  · rename_i hcl
    simp only [hcl, Bool.false_eq_true, if_false] at hc
    have ccl : ∀ t : Conn, (connClose G t).closed = false → False := fun t ht => by rw [connClose_closed] at ht; simp at ht
    cases op with
    | headers i tok ended =>
      simp only [Op.frameOn] at hop; subst hop
      simp only [onHeaders] at hc ⊢
      split
      · rename_i h0; simp only [h0, if_true] at hc; exact (ccl _ hc).elim
      · rename_i h0
        simp only [h0, if_false] at hc
        have e1 : G.modHeadersKey i = i := rfl
        have e3 : G.frameLookupKey i = i := rfl
        have e4 : G.hdrEndDeleteKey i = i := rfl
        rw [e1, e3, e4] at hc ⊢
        rcases sb_cases s i (G.modHeadersRemove ended) with ⟨_, hsb⟩ | ⟨mw, hl, hsb⟩
        · rw [hsb]; exact Untouched.refl _ s
        · rw [hsb] at hc ⊢
          simp only [] at hc ⊢
          have ff := found_facts s h i mw hl (G.modHeadersRemove ended)
          have h1 : Untouched i s (if G.modHeadersRemove ended = true then { s with mod := erase s.mod i } else s) := by
            split
            · exact untouched_of_str _ _ _ rfl rfl rfl rfl
            · exact Untouched.refl _ s
          generalize (if G.modHeadersRemove ended = true then { s with mod := erase s.mod i } else s) = s1 at ff h1 hc ⊢
          obtain ⟨hi, ht, hs, htb, hn, hlive, hre, hrk, hoth⟩ := ff
          have hmid : (s1.str mw).id = i := by rw [hs]; exact (h.tentry i mw (h.mentry i mw hl).1).2.1
          refine h1.trans ?_
          split
          · rw [updW_tbl, ht]
            simp only []
            have h2 := untouched_updW i s1 mw (fun x => { x with pastHeaders := true }) (fun x => ⟨rfl, rfl⟩) (Or.inl hmid)
            refine h2.trans ?_
            have hmid2 : ((s1.updW mw fun x => { x with pastHeaders := true }).str mw).id = i := by simp [hmid]
            split
            · split
              · exact (untouched_updW i _ mw (fun x => { x with live := false, got := x.got ++ [⟨some ⟨i, tok⟩, [], none⟩] })
                  (fun x => ⟨rfl, rfl⟩) (Or.inl hmid2)).trans (untouched_of_str i _ _ rfl rfl rfl rfl)
              · exact Untouched.refl _ _
            · exact untouched_updW i _ mw (fun x => { x with header := some ⟨i, tok⟩, trailer := none }) (fun x => ⟨rfl, rfl⟩) (Or.inl hmid2)
          · rename_i hp
            simp only [hp, Bool.false_eq_true, if_false] at hc
            exact (ccl _ hc).elim
    | data i tok ended empty =>
      simp only [Op.frameOn] at hop; subst hop
      simp only [onData] at hc ⊢
      split
      · rename_i h0; simp only [h0, if_true] at hc; exact (ccl _ hc).elim
      · rename_i h0
        simp only [h0, if_false] at hc
        have e1 : G.modDataKey i = i := rfl
        have e3 : G.frameLookupKey i = i := rfl
        rw [e1, e3] at hc ⊢
        rcases sb_cases s i (G.modDataRemove ended) with ⟨_, hsb⟩ | ⟨mw, hl, hsb⟩
        · rw [hsb] at hc ⊢
          simp only [] at hc ⊢
          split
          · rename_i hu; simp only [hu, if_true] at hc; exact (ccl _ hc).elim
          · exact (untouched_modReset i s i).trans (untouched_streamError _ (hinv_modReset s h i) i)
        · rw [hsb] at hc ⊢
          simp only [] at hc ⊢
          have ff := found_facts s h i mw hl (G.modDataRemove ended)
          have h1 : Untouched i s (if G.modDataRemove ended = true then { s with mod := erase s.mod i } else s) := by
            split
            · exact untouched_of_str _ _ _ rfl rfl rfl rfl
            · exact Untouched.refl _ s
          generalize (if G.modDataRemove ended = true then { s with mod := erase s.mod i } else s) = s1 at ff h1 hc ⊢
          obtain ⟨hi, ht, hs, htb, hn, hlive, hre, hrk, hoth⟩ := ff
          have hmid : (s1.str mw).id = i := by rw [hs]; exact (h.tentry i mw (h.mentry i mw hl).1).2.1
          refine h1.trans ?_
          split
          · exact (untouched_modReset i s1 i).trans (untouched_streamError _ (hinv_modReset s1 hi i) i)
          · rw [ht]
            simp only []
            have h2 := untouched_updW i s1 mw (fun x => { x with body := x.body ++ if empty = true then [] else [⟨i, tok⟩] })
              (fun x => ⟨rfl, rfl⟩) (Or.inl hmid)
            split
            · exact h2.trans (untouched_finish _ i mw (by simp [hmid]))
            · exact h2
    | trailers i tok =>
      simp only [Op.frameOn] at hop; subst hop
      simp only [onTrailers] at hc ⊢
      split
      · rename_i h0; simp only [h0, if_true] at hc; exact (ccl _ hc).elim
      · rename_i h0
        simp only [h0, if_false] at hc
        have e1 : G.modHeadersKey i = i := rfl
        have e3 : G.frameLookupKey i = i := rfl
        rw [e1, e3] at hc ⊢
        rcases sb_cases s i (G.modHeadersRemove true) with ⟨_, hsb⟩ | ⟨mw, hl, hsb⟩
        · rw [hsb]; exact Untouched.refl _ s
        · rw [hsb] at hc ⊢
          simp only [] at hc ⊢
          have ff := found_facts s h i mw hl (G.modHeadersRemove true)
          have h1 : Untouched i s (if G.modHeadersRemove true = true then { s with mod := erase s.mod i } else s) := by
            split
            · exact untouched_of_str _ _ _ rfl rfl rfl rfl
            · exact Untouched.refl _ s
          generalize (if G.modHeadersRemove true = true then { s with mod := erase s.mod i } else s) = s1 at ff h1 hc ⊢
          obtain ⟨hi, ht, hs, htb, hn, hlive, hre, hrk, hoth⟩ := ff
          have hmid : (s1.str mw).id = i := by rw [hs]; exact (h.tentry i mw (h.mentry i mw hl).1).2.1
          refine h1.trans ?_
          split
          · rename_i hp; simp only [hp, if_true] at hc; exact (ccl _ hc).elim
          · rename_i hp
            simp only [hp, Bool.false_eq_true, if_false] at hc
            split
            · rename_i hq; simp only [hq, if_true] at hc; exact (ccl _ hc).elim
            · rw [updW_tbl, ht]
              simp only []
              have h2 := untouched_updW i s1 mw (fun x => { x with pastTrailers := true }) (fun x => ⟨rfl, rfl⟩) (Or.inl hmid)
              have h3 := untouched_updW i (s1.updW mw fun x => { x with pastTrailers := true }) mw
                (fun x => { x with trailer := some ⟨i, tok⟩ }) (fun x => ⟨rfl, rfl⟩) (Or.inl (by simp [hmid]))
              exact (h2.trans h3).trans (untouched_finish _ i mw (by simp [hmid]))
    | rst i =>
      simp only [Op.frameOn] at hop; subst hop
      simp only [onRst] at hc ⊢
      split
      · rename_i h0; simp only [h0, if_true] at hc; exact (ccl _ hc).elim
      · exact ((untouched_streamByID i s _ _).trans (untouched_modReset i _ i)).trans
          (untouched_streamError _ (hinv_modReset _ (hinv_streamByID s h _ _) i) i)
    | open_ o => simp [Op.frameOn] at hop
    | window i => simp [Op.frameOn] at hop
    | goaway l c => simp [Op.frameOn] at hop
    | reset w => simp [Op.frameOn] at hop
    | connReset => simp [Op.frameOn] at hop
    | connError => simp [Op.frameOn] at hop
    | noise => simp [Op.frameOn] at hop

/-- `ResetStream` of stream object `w` changes no other stream object -/
theorem resetStream_others (s : Conn) (w : Nat) (r : Reason) (k : Nat) (hk : k ≠ w) : (resetStream G s w r).str k = s.str k := by
  unfold resetStream
  simp only []
  have hA : (if ((s.str w).hasCs || !G.ownResetNeedsCs) = true then
        (streamByID G (modReset G s (s.str w).id) (G.modOwnResetKey (s.str w).id) (G.modOwnResetRemove false)).2 else s).str = s.str := by
    split
    · rw [(streamByID_good _ _ _).2]; split <;> exact (modReset_good s _).2.2.1
    · rfl
  generalize (if ((s.str w).hasCs || !G.ownResetNeedsCs) = true then
        (streamByID G (modReset G s (s.str w).id) (G.modOwnResetKey (s.str w).id) (G.modOwnResetRemove false)).2 else s) = sA at hA
  have hB : (if G.resetDeletes (s.str w).connReset = true then { sA with tbl := erase sA.tbl (G.resetDeleteKey (s.str w).id) } else sA).str = s.str := by
    split <;> exact hA
  generalize (if G.resetDeletes (s.str w).connReset = true then { sA with tbl := erase sA.tbl (G.resetDeleteKey (s.str w).id) } else sA) = sB at hB
  unfold baseReset
  split
  · simp only [updW_str, hk, if_false, hB]
  · rw [hB]

theorem open_nW (s : Conn) (o : Bool) : s.nW ≤ (openStream G s o).nW := by
  unfold openStream
  simp only []
  split
  · simp
  · rw [(same_resetStream false _ _ _).2.1]; simp

theorem open_others (s : Conn) (o : Bool) (k : Nat) (hk : k < s.nW) : (openStream G s o).str k = s.str k := by
  unfold openStream
  simp only []
  have hne : k ≠ s.nW := Nat.ne_of_lt hk
  split
  · simp [hne]
  · rw [resetStream_others _ _ _ _ hne]; simp [hne]

/-! ### the step predicates hold between consecutive model states -/
open MosnVerif.Model.H2ClientTableSpec in
theorem strsKeep_of (p : Nat → OStr → OStr → Bool) (s s' : Conn) (hn : s.nW ≤ s'.nW)
    (h : ∀ w, w < s.nW → p w ((obsOf s).strs[w]?.getD ⟨0, 0, [], 0⟩) ((obsOf s').strs[w]?.getD ⟨0, 0, [], 0⟩) = true) :
    strsKeep p (obsOf s) (obsOf s') = true := by
  unfold strsKeep
  rw [List.all_eq_true]
  intro i hi
  have hlen : (obsOf s).strs.length = s.nW := by simp [obsOf]
  have hlen' : (obsOf s').strs.length = s'.nW := by simp [obsOf]
  rw [List.mem_range, hlen] at hi
  have h1 : i < (obsOf s).strs.length := by rw [hlen]; exact hi
  have h2 : i < (obsOf s').strs.length := by rw [hlen']; omega
  have := h i hi
  rw [List.getElem?_eq_getElem h1, List.getElem?_eq_getElem h2] at this ⊢
  simpa using this

open MosnVerif.Model.H2ClientTableSpec in
theorem obs_str (s : Conn) (w : Nat) (hw : w < s.nW) :
    (obsOf s).strs[w]?.getD ⟨0, 0, [], 0⟩ = OStr.mk (s.str w).id (s.str w).id
      ((s.str w).got.map (fun d => ODel.mk (d.hdr.map partLabel) (d.body.map partLabel) (d.trailer.map partLabel)))
      (s.str w).resets.length := by
  simp [obsOf, hw]

open MosnVerif.Model.H2ClientTableSpec in
theorem frameStepSpec_of (s : Conn) (h : HInv s) (id : Int) (op : Op) (hop : op.frameOn id)
    (hc : (step G s op).closed = false) : frameStepSpec id (obsOf s) (obsOf (step G s op)) = true := by
  have u := frame_touches_only_its_id s h id op hop hc
  apply strsKeep_of _ s _ (by rw [u.1.2.1]; exact Nat.le_refl _)
  intro w hw
  rw [obs_str s w hw, obs_str _ w (by rw [u.1.2.1]; exact hw)]
  by_cases e : (s.str w).id = id
  · simp [e]
  · have := u.2.2 w e
    simp [sameOutcome, this.1, this.2]

open MosnVerif.Model.H2ClientTableSpec in
/-- GOAWAY, WINDOW_UPDATE, SETTINGS, a new request -/
theorem quietStepSpec_of (s : Conn) (op : Op)
    (hop : (∃ l c, op = .goaway l c) ∨ (∃ i, op = .window i) ∨ op = .noise ∨ (∃ o, op = .open_ o)) :
    quietStepSpec (obsOf s) (obsOf (step G s op)) = true := by
  have key : s.nW ≤ (step G s op).nW ∧ ∀ w, w < s.nW → (step G s op).str w = s.str w := by
    unfold step
    split
    · exact ⟨Nat.le_refl _, fun _ _ => rfl⟩
    · rcases hop with ⟨l, c, rfl⟩ | ⟨i, rfl⟩ | rfl | ⟨o, rfl⟩
      · simp only [onGoAway]; split <;> exact ⟨Nat.le_refl _, fun _ _ => rfl⟩
      · simp only []
        rw [(streamByID_good s _ _).2]; split <;> exact ⟨Nat.le_refl _, fun _ _ => rfl⟩
      · exact ⟨Nat.le_refl _, fun _ _ => rfl⟩
      · exact ⟨open_nW s o, fun w hw => open_others s o w hw⟩
  apply strsKeep_of _ s _ key.1
  intro w hw
  rw [obs_str s w hw, obs_str _ w (by omega), key.2 w hw]
  simp [sameOutcome]

open MosnVerif.Model.H2ClientTableSpec in
/-- ResetStream of one stream object; connection reset / connection error -/
theorem resetStepSpec_of (s : Conn) :
    (∀ w, resetStepSpec (some w) (obsOf s) (obsOf (step G s (.reset w))) = true) ∧
    resetStepSpec none (obsOf s) (obsOf (step G s .connReset)) = true ∧
    resetStepSpec none (obsOf s) (obsOf (step G s .connError)) = true := by
  refine ⟨fun w => ?_, ?_, ?_⟩
  · have key : (step G s (.reset w)).nW = s.nW ∧ ∀ k, k ≠ w → (step G s (.reset w)).str k = s.str k := by
      unfold step
      split
      · exact ⟨rfl, fun _ _ => rfl⟩
      · simp only []
        split
        · exact ⟨(same_resetStream false s w _).2.1, fun k hk => resetStream_others s w _ k hk⟩
        · exact ⟨rfl, fun _ _ => rfl⟩
    have hg : ∀ k, ((step G s (.reset w)).str k).got = (s.str k).got := by
      intro k
      unfold step
      split
      · rfl
      · simp only []
        split
        · exact ((same_resetStream true s w _).2.2.1 k).2.2 rfl
        · rfl
    apply strsKeep_of _ s _ (by rw [key.1]; exact Nat.le_refl _)
    intro k hk
    rw [obs_str s k hk, obs_str _ k (by rw [key.1]; exact hk)]
    by_cases e : k = w
    · subst e; simp [hg k]
    · rw [key.2 k e]; simp
  · have hs : Same true s (step G s .connReset) := by
      unfold step; split
      · exact Same.refl _ s
      · exact same_resetAll true _ s _
    apply strsKeep_of _ s _ (by rw [hs.2.1]; exact Nat.le_refl _)
    intro k hk
    rw [obs_str s k hk, obs_str _ k (by rw [hs.2.1]; exact hk)]
    simp [(hs.2.2.1 k).2.2 rfl]
  · have hs : Same true s (step G s .connError) := by
      unfold step; split
      · exact Same.refl _ s
      · exact same_connClose true s
    apply strsKeep_of _ s _ (by rw [hs.2.1]; exact Nat.le_refl _)
    intro k hk
    rw [obs_str s k hk, obs_str _ k (by rw [hs.2.1]; exact hk)]
    simp [(hs.2.2.1 k).2.2 rfl]

open MosnVerif.Model.H2ClientTableSpec in
/-- ids of the streams whose request went out: in range, odd for an odd start, pairwise distinct below 2^31 stream objects -/
theorem obsSpecIds_of_idinv (s : Conn) (first : Int) (h : IdInv s first) (hn : s.nW ≤ 2147483648) :
    obsSpecIds (first % 2 == 1) ((List.range s.nW).map (fun w => (s.str w).id)) = true := by
  unfold obsSpecIds
  simp only [Bool.and_eq_true, List.all_eq_true, decide_eq_true_eq, Bool.or_eq_true, Bool.not_eq_true', beq_iff_eq,
    List.mem_filter, List.mem_map, List.mem_range, bne_iff_ne, ne_eq, beq_eq_false_iff_ne]
  have key : ∀ w, w < s.nW → (s.str w).id ≠ 0 → (s.str w).id = idAt first w ∧ 0 < idAt first w ∧ idAt first w < 2147483648 := by
    intro w hw hne
    have hi := (h.ids w hw).2
    by_cases hv : G.valid (idAt first w) = true
    · rw [if_pos hv] at hi
      exact ⟨hi, valid_range _ (idAt_range first w) hv⟩
    · rw [if_neg hv] at hi; exact absurd hi hne
  refine ⟨?_, ?_⟩
  · rintro i ⟨⟨w, hw, rfl⟩, hne⟩
    obtain ⟨e, h1, h2⟩ := key w hw hne
    refine ⟨by rw [e]; exact ⟨h1, h2⟩, ?_⟩
    by_cases ho : first % 2 = 1
    · right; rw [e]; exact idAt_odd first w ho
    · left; exact ho
  · rw [List.filter_map, List.Nodup, List.pairwise_map, List.pairwise_filter]
    refine List.Pairwise.imp_of_mem ?_ (List.pairwise_lt_range (n := s.nW))
    intro a b ha hb hab pa pb
    simp only [Function.comp, bne_iff_ne, ne_eq] at pa pb
    rw [List.mem_range] at ha hb
    rw [(key a ha pa).1, (key b hb pb).1]
    exact idAt_distinct first a b hab (by omega)

end MosnVerif.Model.H2ClientTable
