import MosnVerif.Model.H2Trailers
/-! [c08l9] invariant: a registered stream that is still open has its trailer object -/
namespace MosnVerif.Lemmas.H2Trailers
open MosnVerif.Model.H2Trailers

/-- the configuration facts the proof needs -/
structure Cfg.Safe (c : Cfg) : Prop where
  check : c.stateCheck = true
  obj : c.objWhenOpen = true

def Inv (s : St) : Prop := s.panicked = false ∧ (s.reg = true → s.ms = .open → s.tobj = true)

theorem streamErr_inv (s : St) (h : Inv s) : Inv (streamErr s) := by
  unfold streamErr
  split
  · exact ⟨h.1, by simp⟩
  · exact h

theorem connErr_inv (s : St) (h : Inv s) : Inv (connErr s) := ⟨h.1, h.2⟩
theorem gotT_inv (s : St) (h : Inv s) : Inv { s with gotT := true } := ⟨h.1, h.2⟩

theorem step_inv (c : Cfg) (hc : Cfg.Safe c) (s : St) (e : Ev) (h : Inv s) : Inv (step c s e) := by
  obtain ⟨hp, ht⟩ := h
  cases e with
  | headers b decl es =>
    cases hms : s.ms <;> simp only [step, hms]
    · -- idle
      cases es <;> simp [Inv, deliver, hp, hc.obj]
    · -- open
      simp only [hc.check, Bool.true_and]
      have hne : (MS.open == MS.hcr) = false := by decide
      simp only [hne, Bool.false_eq_true, if_false]
      split
      · exact connErr_inv _ ⟨hp, ht⟩
      · split
        · exact streamErr_inv _ ⟨hp, fun hr _ => ht hr hms⟩
        · split
          · exact streamErr_inv _ ⟨hp, fun hr _ => ht hr hms⟩
          · split
            · exact streamErr_inv _ ⟨hp, fun hr _ => ht hr hms⟩
            · split
              · exact ⟨hp, by simp⟩
              · rename_i hreg
                have hr : s.reg = true := by simpa using hreg
                have hto : s.tobj = true := ht hr hms
                simp [hto, Inv, deliver, hp]
    · -- half-closed (remote): refused before any trailer processing
      simp only [hc.check, Bool.true_and]
      have he : (MS.hcr == MS.hcr) = true := by decide
      simp only [he, if_true]
      exact streamErr_inv _ ⟨hp, ht⟩
    · -- closed
      exact connErr_inv _ ⟨hp, ht⟩
  | data es =>
    cases hms : s.ms <;> simp only [step, hms]
    · exact connErr_inv _ ⟨hp, ht⟩
    · split
      · exact streamErr_inv _ ⟨hp, ht⟩
      · split
        · refine ⟨hp, ?_⟩
          rename_i hreg
          intro hr; simp at hreg; simp [hreg] at hr
        · rename_i hreg
          have hr : s.reg = true := by simpa using hreg
          have hto : s.tobj = true := ht hr hms
          cases es <;> simp [Inv, deliver, hp, hto]
    · exact streamErr_inv _ ⟨hp, ht⟩
    · exact streamErr_inv _ ⟨hp, ht⟩

theorem run_inv (c : Cfg) (hc : Cfg.Safe c) (evs : List Ev) (s : St) (h : Inv s) : Inv (run c s evs) := by
  induction evs generalizing s with
  | nil => exact h
  | cons e r ih =>
    simp only [run]
    have h' := step_inv c hc s e h
    split
    · exact h'
    · exact ih _ h'

end MosnVerif.Lemmas.H2Trailers
