import MosnVerif.Model.H2Frame
/-! Lemmas for the frame-header and DATA/HEADERS payload model. -/
namespace MosnVerif.Lemmas.H2Frame
open MosnVerif.Model.H2Frame MosnVerif.Gen.H2Frame

theorem ofNat_toNat (x : Nat) (h : x < 256) : (UInt8.ofNat x).toNat = x := by
  simp [Nat.mod_eq_of_lt h]

theorem data_roundtrip_padded (flags : Nat) (data : Bytes) (k : Nat) (hk : k < 256)
    (hf : hasFlag flags flagDataPadded = true) : parseData flags (encodeData data (some k)) = .ok data := by
  simp only [parseData, hf, if_true, encodeData, dataPadTooBig, ofNat_toNat k hk, List.length_append, List.length_replicate]
  have h1 : ¬ ((k : Int) > ((data.length + k : Nat) : Int)) := by omega
  simp only [decide_eq_true_eq, h1, if_false, Nat.add_sub_cancel, List.take_left']

theorem data_roundtrip_plain (flags : Nat) (data : Bytes)
    (hf : hasFlag flags flagDataPadded = false) : parseData flags (encodeData data none) = .ok data := by
  simp only [parseData, hf, encodeData, dataPadTooBig]
  simp

theorem prio_roundtrip (pr : Priority) (hd : pr.streamDep < 2 ^ 31) (hw : pr.weight < 256) (r : Bytes) :
    ∃ a b c d w, encodePrio pr ++ r = a :: b :: c :: d :: w :: r ∧ decodePrio a b c d w = pr := by
  refine ⟨_, _, _, _, _, rfl, ?_⟩
  obtain ⟨dep, e, w⟩ := pr
  simp only at hd hw
  simp only [decodePrio, UInt8.toNat_ofNat', Priority.mk.injEq]
  cases e <;> simp <;> omega

theorem pad_tail (pr : Option Priority) (frag : Bytes) (pl : Nat) :
    (if headersPadTooBig ((frag ++ List.replicate pl (0:UInt8)).length) pl then
        (Except.error PErr.protocol : Except PErr (Option Priority × Bytes))
      else .ok (pr, (frag ++ List.replicate pl 0).take ((frag ++ List.replicate pl (0:UInt8)).length - pl))) = .ok (pr, frag) := by
  have hc : headersPadTooBig ((frag ++ List.replicate pl (0:UInt8)).length) pl = false := by
    simp only [headersPadTooBig, List.length_append, List.length_replicate, decide_eq_false_iff_not]
    omega
  rw [hc]
  simp

theorem headers_roundtrip' (flags : Nat) (frag : Bytes) (padLength : Nat) (prio : Option Priority)
    (hp : padLength < 256)
    (hpr : ∀ pr, prio = some pr → pr.streamDep < 2 ^ 31 ∧ pr.weight < 256)
    (hf1 : hasFlag flags flagHeadersPadded = decide (padLength ≠ 0))
    (hf2 : hasFlag flags flagHeadersPriority = prio.isSome) :
    parseHeaders flags (encodeHeaders frag padLength prio) = .ok (prio, frag) := by
  unfold parseHeaders encodeHeaders
  by_cases hpad : padLength = 0
  · subst hpad
    have hf1' : hasFlag flags flagHeadersPadded = false := by simpa using hf1
    cases prio with
    | none =>
      have hf2' : hasFlag flags flagHeadersPriority = false := by simpa using hf2
      simp only [hf1', hf2', ne_eq, not_true_eq_false, if_false, List.nil_append, Bool.false_eq_true]
      exact pad_tail none frag 0
    | some pr =>
      have hf2' : hasFlag flags flagHeadersPriority = true := by simpa using hf2
      obtain ⟨hd, hw⟩ := hpr pr rfl
      obtain ⟨a, b, c, d, w, he, hdec⟩ := prio_roundtrip pr hd hw (frag ++ List.replicate 0 0)
      simp only [hf1', hf2', ne_eq, not_true_eq_false, if_false, if_true, List.nil_append, Bool.false_eq_true,
        List.append_assoc, he, hdec]
      exact pad_tail (some pr) frag 0
  · have hf1' : hasFlag flags flagHeadersPadded = true := by simpa [hpad] using hf1
    cases prio with
    | none =>
      have hf2' : hasFlag flags flagHeadersPriority = false := by simpa using hf2
      simp only [hf1', hf2', ne_eq, hpad, not_false_eq_true, if_true, List.cons_append, List.nil_append,
        List.append_assoc, Bool.false_eq_true, if_false, ofNat_toNat _ hp]
      exact pad_tail none frag padLength
    | some pr =>
      have hf2' : hasFlag flags flagHeadersPriority = true := by simpa using hf2
      obtain ⟨hd, hw⟩ := hpr pr rfl
      obtain ⟨a, b, c, d, w, he, hdec⟩ := prio_roundtrip pr hd hw (frag ++ List.replicate padLength 0)
      simp only [hf1', hf2', ne_eq, hpad, not_false_eq_true, if_true, List.cons_append, List.nil_append,
        List.append_assoc, ofNat_toNat _ hp, he, hdec]
      exact pad_tail (some pr) frag padLength

theorem frame_header_roundtrip' (h : FrameHeader) (hl : h.length < 2 ^ 24) (ht : h.type < 256) (hf : h.flags < 256)
    (hs : h.streamID < 2 ^ 32) :
    (encodeHeader h).bind parseHeader = some { h with streamID := h.streamID % 2 ^ 31 } := by
  obtain ⟨L, T, F, S⟩ := h
  simp only at hl ht hf hs
  have hl' : ¬ (16777216 ≤ L) := by omega
  simp only [encodeHeader, writeTooLarge, hl', if_false, writeLayout, writeLengthLayout, List.map, fieldVal, List.foldl,
    List.set, Option.bind, parseHeader, frameHeaderLen, List.length, readLengthLayout, readTypeIdx, readFlagsIdx,
    readStreamIdx, readStreamMask, byteAt, List.getD, List.getElem?_cons_zero, List.getElem?_cons_succ, Option.getD,
    List.sum_cons, List.sum_nil, UInt8.toNat_ofNat']
  simp
  refine ⟨?_, ?_, ?_, ?_⟩ <;> omega

end MosnVerif.Lemmas.H2Frame
