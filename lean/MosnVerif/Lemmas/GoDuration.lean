import MosnVerif.Model.GoDuration
/-! `time.ParseDuration (d.String()) = d` for the digit-level model (C19, `DurLaw`). -/
namespace MosnVerif.Model.GoDuration

/-- the rest of the input after a term: nothing, or the next term (which starts with a digit) -/
def RestOK (rest : List Char) : Prop := rest = [] ∨ ∃ c r, rest = c :: r ∧ isDig c = true

/-- the input after a run of digits: nothing, or a non-digit -/
def StopsDigits (rest : List Char) : Prop := rest = [] ∨ ∃ c r, rest = c :: r ∧ isDig c = false

theorem spanDigits_append : (ds rest : List Char) → (∀ c ∈ ds, isDig c = true) → StopsDigits rest →
    spanDigits (ds ++ rest) = (ds, rest)
  | [], rest, _, hr => by
    rcases hr with rfl | ⟨c, r, rfl, hc⟩
    · simp [spanDigits]
    · simp [spanDigits, hc]
  | c :: ds, rest, hd, hr => by
    have hc : isDig c = true := hd c (by simp)
    have ih := spanDigits_append ds rest (fun x hx => hd x (by simp [hx])) hr
    simp [spanDigits, hc, ih]

theorem spanUnit_append : (us rest : List Char) → (∀ c ∈ us, (isDig c || c == '.') = false) → RestOK rest →
    spanUnit (us ++ rest) = (us, rest)
  | [], rest, _, hr => by
    rcases hr with rfl | ⟨c, r, rfl, hc⟩
    · simp [spanUnit]
    · simp [spanUnit, hc]
  | c :: us, rest, hu, hr => by
    have hc := hu c (by simp)
    have ih := spanUnit_append us rest (fun x hx => hu x (by simp [hx])) hr
    simp only [List.cons_append, spanUnit, hc, ih]
    simp

theorem toDigits_isDig (n : Nat) : ∀ c ∈ Nat.toDigits 10 n, isDig c = true := by
  intro c hc
  exact Nat.isDigit_of_mem_toDigits (by decide) (by decide) hc

theorem toDigits_ne_nil (n : Nat) : Nat.toDigits 10 n ≠ [] := Nat.toDigits_ne_nil

theorem digitsVal_toDigits (n : Nat) : digitsVal (Nat.toDigits 10 n) = n := by
  simp [digitsVal]

/-! ### fractions -/

theorem fracTrim_spec : (prec v : Nat) → v < 10 ^ prec →
    (fracTrim prec v).1 * 10 ^ (prec - (fracTrim prec v).2) = v ∧ (fracTrim prec v).2 ≤ prec ∧
    (fracTrim prec v).1 < 10 ^ (fracTrim prec v).2
  | 0, v, h => by simp [fracTrim] at h ⊢; omega
  | p + 1, v, h => by
    simp only [fracTrim]
    split
    · rename_i h0
      have h0' : v % 10 = 0 := by simpa using h0
      have hlt : v / 10 < 10 ^ p := by
        rw [Nat.pow_succ] at h; omega
      obtain ⟨i1, i2, i3⟩ := fracTrim_spec p (v / 10) hlt
      refine ⟨?_, by omega, i3⟩
      have : p + 1 - (fracTrim p (v / 10)).2 = (p - (fracTrim p (v / 10)).2) + 1 := by omega
      rw [this, Nat.pow_succ, ← Nat.mul_assoc, i1]
      omega
    · simp
      exact h

theorem isDig_zero : isDig '0' = true := by decide

theorem pad_isDig (p v : Nat) : ∀ c ∈ pad p v, isDig c = true := by
  intro c hc
  simp only [pad, List.mem_append, List.mem_replicate] at hc
  rcases hc with ⟨_, rfl⟩ | hc
  · exact isDig_zero
  · exact toDigits_isDig v c hc

theorem digitsVal_pad (p v : Nat) : digitsVal (pad p v) = v := by
  simp [digitsVal, pad, Nat.ofDigitChars_append]

theorem length_pad (p v : Nat) (hp : 0 < p) (hv : v < 10 ^ p) : (pad p v).length = p := by
  have := (Nat.length_toDigits_le_iff (b := 10) (n := v) (k := p) (by decide) hp).mpr hv
  simp only [pad, List.length_append, List.length_replicate]
  omega

/-- the digits printed after the point (none when the fraction is zero) -/
def fracDigits (v prec : Nat) : List Char :=
  if (fracTrim prec v).2 == 0 then [] else pad (fracTrim prec v).2 (fracTrim prec v).1

theorem fracChars_eq (v prec : Nat) :
    fracChars v prec = (if fracDigits v prec = [] then [] else '.' :: fracDigits v prec) := by
  unfold fracChars fracDigits
  by_cases h : ((fracTrim prec v).2 == 0) = true
  · simp [h]
  · have hne : pad (fracTrim prec v).2 (fracTrim prec v).1 ≠ [] := by
      simp [pad]
    simp [h, hne]

theorem fracDigits_isDig (v prec : Nat) : ∀ c ∈ fracDigits v prec, isDig c = true := by
  unfold fracDigits
  split
  · simp
  · exact pad_isDig _ _

/-- the value `time.ParseDuration` gives to the printed fraction: exactly the fraction that was printed -/
theorem fracValue (v prec : Nat) (h : v < 10 ^ prec) :
    digitsVal (fracDigits v prec) * 10 ^ prec / 10 ^ (fracDigits v prec).length = v := by
  obtain ⟨i1, i2, i3⟩ := fracTrim_spec prec v h
  unfold fracDigits
  by_cases h0 : ((fracTrim prec v).2 == 0) = true
  · have h0' : (fracTrim prec v).2 = 0 := by simpa using h0
    simp only [h0, if_true, digitsVal, Nat.ofDigitChars_nil, List.length_nil, Nat.zero_mul, Nat.pow_zero, Nat.div_one]
    rw [h0'] at i3 i1
    have : (fracTrim prec v).1 = 0 := by simpa using i3
    rw [this] at i1; omega
  · have hp : 0 < (fracTrim prec v).2 := by
      have : (fracTrim prec v).2 ≠ 0 := by simpa using h0
      omega
    simp only [h0, Bool.false_eq_true, if_false]
    rw [digitsVal_pad, length_pad _ _ hp i3]
    have hsplit : 10 ^ prec = 10 ^ (fracTrim prec v).2 * 10 ^ (prec - (fracTrim prec v).2) := by
      rw [← Nat.pow_add]; congr 1; omega
    rw [hsplit, ← Nat.mul_assoc, Nat.mul_comm (fracTrim prec v).1, Nat.mul_assoc,
      Nat.mul_div_cancel_left _ (Nat.pow_pos (by decide))]
    exact i1

/-! ### one term of the loop -/

/-- the characters of a unit: not empty, no digit, no point -/
def UnitOK (unit : List Char) : Prop := unit ≠ [] ∧ ∀ c ∈ unit, (isDig c || c == '.') = false

theorem unitOK_head {unit : List Char} (h : UnitOK unit) (rest : List Char) :
    ∃ c r, unit ++ rest = c :: r ∧ isDig c = false ∧ (c == '.') = false := by
  obtain ⟨hne, hall⟩ := h
  cases unit with
  | nil => exact absurd rfl hne
  | cons c r =>
    have := hall c (by simp)
    simp only [Bool.or_eq_false_iff] at this
    exact ⟨c, r ++ rest, rfl, this.1, this.2⟩

theorem term_step (fuel n : Nat) (fp unit rest : List Char) (U d : Nat)
    (hfp : ∀ c ∈ fp, isDig c = true) (hunit : unitNs unit = some U) (huc : UnitOK unit) (hrest : RestOK rest)
    (h1 : n ≤ two63) (h2 : n ≤ two63 / U)
    (h3 : n * U + digitsVal fp * U / 10 ^ fp.length ≤ two63)
    (h4 : d + (n * U + digitsVal fp * U / 10 ^ fp.length) ≤ two63) :
    parseLoop (fuel + 1) (Nat.toDigits 10 n ++ ((if fp = [] then [] else '.' :: fp) ++ (unit ++ rest))) d =
      parseLoop fuel rest (d + (n * U + digitsVal fp * U / 10 ^ fp.length)) := by
  obtain ⟨uc, ur, hue, hud, hup⟩ := unitOK_head huc rest
  -- the head of the input is a digit
  obtain ⟨c0, t0, hd0⟩ : ∃ c t, Nat.toDigits 10 n = c :: t := by
    cases h : Nat.toDigits 10 n with
    | nil => exact absurd h (toDigits_ne_nil n)
    | cons c t => exact ⟨c, t, rfl⟩
  have hc0 : isDig c0 = true := toDigits_isDig n c0 (by simp [hd0])
  -- integer part
  have hstop : StopsDigits ((if fp = [] then [] else '.' :: fp) ++ (unit ++ rest)) := by
    right
    by_cases hf : fp = []
    · simp only [hf, if_true, List.nil_append]
      exact ⟨uc, ur, hue, hud⟩
    · simp only [hf, if_false, List.cons_append]
      exact ⟨'.', _, rfl, by decide⟩
  have hsp := spanDigits_append (Nat.toDigits 10 n) _ (toDigits_isDig n) hstop
  -- fraction part
  have hfrac : splitFrac ((if fp = [] then [] else '.' :: fp) ++ (unit ++ rest)) = (fp, unit ++ rest) := by
    by_cases hf : fp = []
    · subst hf
      simp only [if_true, List.nil_append]
      rw [hue]
      have : uc ≠ '.' := by simpa using hup
      unfold splitFrac
      split
      · rename_i heq; cases heq; exact absurd rfl this
      · rfl
    · simp only [hf, if_false, List.cons_append]
      simp [splitFrac, spanDigits_append fp (unit ++ rest) hfp (Or.inr ⟨uc, ur, hue, hud⟩)]
  have hsu := spanUnit_append unit rest huc.2 hrest
  have hne : (Nat.toDigits 10 n).isEmpty = false := by simp [hd0]
  have hune : unit.isEmpty = false := by
    cases unit with
    | nil => exact absurd rfl huc.1
    | cons _ _ => rfl
  -- expose the head of the input, unfold one iteration, fold the input back
  generalize hL : Nat.toDigits 10 n ++ ((if fp = [] then [] else '.' :: fp) ++ (unit ++ rest)) = L at hsp
  have hLc : L = c0 :: (t0 ++ ((if fp = [] then [] else '.' :: fp) ++ (unit ++ rest))) := by rw [← hL, hd0]; rfl
  rw [hLc, parseLoop]
  simp only [← hLc]
  simp only [hsp, hfrac, hsu, digitsVal_toDigits, hne, hune, hunit, hc0, Bool.or_true, Bool.not_true,
    Bool.false_eq_true, if_false, Bool.false_and]
  have e1 : ¬ (n > two63) := by omega
  have e2 : ¬ (n > two63 / U) := by omega
  have e3 : ¬ (n * U + digitsVal fp * U / 10 ^ fp.length > two63) := by omega
  have e4 : ¬ (d + (n * U + digitsVal fp * U / 10 ^ fp.length) > two63) := by omega
  simp only [e1, e2, e3, e4, if_false]

/-! ### the units `String` prints -/

theorem unit_ns : unitNs ['n', 's'] = some 1 ∧ UnitOK ['n', 's'] := by
  refine ⟨by decide, by decide, ?_⟩; intro c hc; simp at hc; rcases hc with rfl | rfl <;> decide
theorem unit_us : unitNs ['µ', 's'] = some 1000 ∧ UnitOK ['µ', 's'] := by
  refine ⟨by decide, by decide, ?_⟩; intro c hc; simp at hc; rcases hc with rfl | rfl <;> decide
theorem unit_ms : unitNs ['m', 's'] = some 1000000 ∧ UnitOK ['m', 's'] := by
  refine ⟨by decide, by decide, ?_⟩; intro c hc; simp at hc; rcases hc with rfl | rfl <;> decide
theorem unit_s : unitNs ['s'] = some 1000000000 ∧ UnitOK ['s'] := by
  refine ⟨by decide, by decide, ?_⟩; intro c hc; simp at hc; subst hc; decide
theorem unit_m : unitNs ['m'] = some 60000000000 ∧ UnitOK ['m'] := by
  refine ⟨by decide, by decide, ?_⟩; intro c hc; simp at hc; subst hc; decide
theorem unit_h : unitNs ['h'] = some 3600000000000 ∧ UnitOK ['h'] := by
  refine ⟨by decide, by decide, ?_⟩; intro c hc; simp at hc; subst hc; decide

theorem parseLoop_nil (fuel d : Nat) : parseLoop (fuel + 1) [] d = some d := by simp [parseLoop]

theorem restOK_toDigits (n : Nat) (t : List Char) : RestOK (Nat.toDigits 10 n ++ t) := by
  right
  cases h : Nat.toDigits 10 n with
  | nil => exact absurd h (toDigits_ne_nil n)
  | cons c r => exact ⟨c, r ++ t, rfl, toDigits_isDig n c (by simp [h])⟩

/-- number of terms `String` prints for the magnitude `u` -/
def terms (u : Nat) : Nat :=
  if u < 1000000000 then 1 else if u / 1000000000 / 60 == 0 then 1 else if u / 1000000000 / 60 / 60 == 0 then 2 else 3

/-- a sub-second magnitude: one term -/
theorem parse_small (k u : Nat) (h : u < 1000000000) : parseLoop (k + 2) (bodyChars u) 0 = some u := by
  unfold bodyChars
  by_cases h0 : u = 0
  · subst h0
    have := term_step (k + 1) 0 [] ['s'] [] 1000000000 0 (by simp) unit_s.1 unit_s.2 (Or.inl rfl)
      (by simp [two63]) (by simp [two63]) (by simp [two63, digitsVal]) (by simp [two63, digitsVal])
    simpa [parseLoop_nil, digitsVal] using this
  · have h0' : (u == 0) = false := by simpa using h0
    simp only [h0', Bool.false_eq_true, if_false]
    by_cases h1 : u < 1000
    · simp only [h1, if_true]
      have := term_step (k + 1) u [] ['n', 's'] [] 1 0 (by simp) unit_ns.1 unit_ns.2 (Or.inl rfl)
        (by simp [two63]; omega) (by simp [two63]; omega) (by simp [two63, digitsVal]; omega) (by simp [two63, digitsVal]; omega)
      simpa [parseLoop_nil, digitsVal] using this
    · simp only [h1, if_false]
      by_cases h2 : u < 1000000
      · simp only [h2, if_true, fracChars_eq]
        have hv := fracValue (u % 1000) 3 (by omega)
        have e : (10 : Nat) ^ 3 = 1000 := by decide
        rw [e] at hv
        have := term_step (k + 1) (u / 1000) (fracDigits (u % 1000) 3) ['µ', 's'] [] 1000 0 (fracDigits_isDig _ _)
          unit_us.1 unit_us.2 (Or.inl rfl) (by simp [two63]; omega) (by simp [two63]; omega)
          (by rw [hv]; simp [two63]; omega) (by rw [hv]; simp [two63]; omega)
        rw [hv] at this
        have hu : u / 1000 * 1000 + u % 1000 = u := by omega
        simpa [parseLoop_nil, hu] using this
      · simp only [h2, if_false, h, if_true, fracChars_eq]
        have hv := fracValue (u % 1000000) 6 (by omega)
        have e : (10 : Nat) ^ 6 = 1000000 := by decide
        rw [e] at hv
        have := term_step (k + 1) (u / 1000000) (fracDigits (u % 1000000) 6) ['m', 's'] [] 1000000 0 (fracDigits_isDig _ _)
          unit_ms.1 unit_ms.2 (Or.inl rfl) (by simp [two63]; omega) (by simp [two63]; omega)
          (by rw [hv]; simp [two63]; omega) (by rw [hv]; simp [two63]; omega)
        rw [hv] at this
        have hu : u / 1000000 * 1000000 + u % 1000000 = u := by omega
        simpa [parseLoop_nil, hu] using this

/-- the seconds term `S[.fffffffff]s` at the end of the string -/
theorem s_term (fuel sec f d : Nat) (hf : f < 1000000000) (hs : sec < 60) (hd : d + (sec * 1000000000 + f) ≤ two63) :
    parseLoop (fuel + 2) (Nat.toDigits 10 sec ++ fracChars f 9 ++ ['s']) d = some (d + (sec * 1000000000 + f)) := by
  have hv := fracValue f 9 (by simpa using hf)
  have e : (10 : Nat) ^ 9 = 1000000000 := by decide
  rw [e] at hv
  have := term_step (fuel + 1) sec (fracDigits f 9) ['s'] [] 1000000000 d (fracDigits_isDig _ _)
    unit_s.1 unit_s.2 (Or.inl rfl) (by simp [two63]; omega) (by simp [two63]; omega)
    (by rw [hv]; simp [two63] at hd ⊢; omega) (by rw [hv]; exact hd)
  rw [hv] at this
  simpa [parseLoop_nil, fracChars_eq] using this

/-- a magnitude of one second or more: up to three terms -/
theorem parse_large (k u : Nat) (h : ¬ u < 1000000000) (hu : u ≤ two63) :
    parseLoop (k + terms u + 1) (bodyChars u) 0 = some u := by
  have hu' : u ≤ 9223372036854775808 := by simpa [two63] using hu
  unfold bodyChars terms
  have h0 : (u == 0) = false := by
    have : u ≠ 0 := by omega
    simpa using this
  have h1 : ¬ u < 1000 := by omega
  have h2 : ¬ u < 1000000 := by omega
  simp only [h0, h1, h2, h, Bool.false_eq_true, if_false]
  by_cases hm : (u / 1000000000 / 60 == 0) = true
  · -- S.s
    have hm' : u / 1000000000 / 60 = 0 := by simpa using hm
    simp only [hm, if_true]
    have := s_term k (u / 1000000000 % 60) (u % 1000000000) 0 (by omega) (by omega) (by simp [two63]; omega)
    have e : 0 + (u / 1000000000 % 60 * 1000000000 + u % 1000000000) = u := by omega
    rw [e] at this
    simpa using this
  · simp only [hm, Bool.false_eq_true, if_false]
    by_cases hh : (u / 1000000000 / 60 / 60 == 0) = true
    · -- MmS.s
      have hh' : u / 1000000000 / 60 / 60 = 0 := by simpa using hh
      simp only [hh, if_true]
      have t1 := term_step (k + 2) (u / 1000000000 / 60 % 60) [] ['m']
        (Nat.toDigits 10 (u / 1000000000 % 60) ++ fracChars (u % 1000000000) 9 ++ ['s']) 60000000000 0 (by simp)
        unit_m.1 unit_m.2 (by rw [List.append_assoc]; exact restOK_toDigits _ _)
        (by simp [two63]; omega) (by simp [two63]; omega) (by simp [two63, digitsVal]; omega) (by simp [two63, digitsVal]; omega)
      have t2 := s_term k (u / 1000000000 % 60) (u % 1000000000) (0 + (u / 1000000000 / 60 % 60 * 60000000000 + 0))
        (by omega) (by omega) (by simp [two63]; omega)
      have e : 0 + (u / 1000000000 / 60 % 60 * 60000000000 + 0) + (u / 1000000000 % 60 * 1000000000 + u % 1000000000) = u := by omega
      rw [e] at t2
      simp only [digitsVal, Nat.ofDigitChars_nil, List.length_nil, Nat.zero_mul, Nat.pow_zero, Nat.div_one, if_true,
        List.nil_append, List.cons_append, List.append_assoc, Nat.zero_add, Nat.add_zero, Nat.add_assoc, Nat.reduceAdd] at t1 t2 ⊢
      rw [t1, t2]
    · -- HhMmS.s
      simp only [hh, Bool.false_eq_true, if_false]
      have t0 := term_step (k + 3) (u / 1000000000 / 60 / 60) [] ['h']
        (Nat.toDigits 10 (u / 1000000000 / 60 % 60) ++ 'm' :: (Nat.toDigits 10 (u / 1000000000 % 60) ++ fracChars (u % 1000000000) 9 ++ ['s']))
        3600000000000 0 (by simp) unit_h.1 unit_h.2 (restOK_toDigits _ _)
        (by simp [two63]; omega) (by simp [two63]; omega) (by simp [two63, digitsVal]; omega) (by simp [two63, digitsVal]; omega)
      have t1 := term_step (k + 2) (u / 1000000000 / 60 % 60) [] ['m']
        (Nat.toDigits 10 (u / 1000000000 % 60) ++ fracChars (u % 1000000000) 9 ++ ['s']) 60000000000
        (0 + (u / 1000000000 / 60 / 60 * 3600000000000 + 0)) (by simp)
        unit_m.1 unit_m.2 (by rw [List.append_assoc]; exact restOK_toDigits _ _)
        (by simp [two63]; omega) (by simp [two63]; omega) (by simp [two63, digitsVal]; omega) (by simp [two63, digitsVal]; omega)
      have t2 := s_term k (u / 1000000000 % 60) (u % 1000000000)
        (0 + (u / 1000000000 / 60 / 60 * 3600000000000 + 0) + (u / 1000000000 / 60 % 60 * 60000000000 + 0))
        (by omega) (by omega) (by simp [two63]; omega)
      have e : 0 + (u / 1000000000 / 60 / 60 * 3600000000000 + 0) + (u / 1000000000 / 60 % 60 * 60000000000 + 0) +
          (u / 1000000000 % 60 * 1000000000 + u % 1000000000) = u := by omega
      rw [e] at t2
      simp only [digitsVal, Nat.ofDigitChars_nil, List.length_nil, Nat.zero_mul, Nat.pow_zero, Nat.div_one, if_true,
        List.nil_append, List.cons_append, List.append_assoc, Nat.zero_add, Nat.add_zero, Nat.add_assoc, Nat.reduceAdd] at t0 t1 t2 ⊢
      rw [t0, t1, t2]

/-! ### the whole string -/

theorem len_toDigits_pos (n : Nat) : 1 ≤ (Nat.toDigits 10 n).length := Nat.length_toDigits_pos

theorem bodyChars_len (u : Nat) : 2 ≤ (bodyChars u).length ∧ terms u ≤ (bodyChars u).length := by
  unfold bodyChars terms
  have l1 := len_toDigits_pos u
  have l2 := len_toDigits_pos (u / 1000)
  have l3 := len_toDigits_pos (u / 1000000)
  have l4 := len_toDigits_pos (u / 1000000000 % 60)
  have l5 := len_toDigits_pos (u / 1000000000 / 60 % 60)
  have l6 := len_toDigits_pos (u / 1000000000 / 60 / 60)
  by_cases h0 : (u == 0) = true
  · have : u = 0 := by simpa using h0
    subst this; simp
  · simp only [h0, Bool.false_eq_true, if_false]
    by_cases h1 : u < 1000
    · have : u < 1000000000 := by omega
      simp only [h1, this, if_true, List.length_append, List.length_cons, List.length_nil]; omega
    · by_cases h2 : u < 1000000
      · have : u < 1000000000 := by omega
        simp only [h1, h2, this, if_true, if_false, List.length_append, List.length_cons, List.length_nil]; omega
      · by_cases h3 : u < 1000000000
        · simp only [h1, h2, h3, if_true, if_false, List.length_append, List.length_cons, List.length_nil]; omega
        · simp only [h1, h2, h3, if_false]
          by_cases hm : (u / 1000000000 / 60 == 0) = true
          · simp only [hm, if_true, List.length_append, List.length_cons, List.length_nil]; omega
          · by_cases hh : (u / 1000000000 / 60 / 60 == 0) = true
            · simp only [hm, hh, if_true, Bool.false_eq_true, if_false, List.length_append, List.length_cons, List.length_nil]; omega
            · simp only [hm, hh, Bool.false_eq_true, if_false, List.length_append, List.length_cons, List.length_nil]; omega

theorem bodyChars_head (u : Nat) : ∃ c t, bodyChars u = c :: t ∧ isDig c = true := by
  have key : ∀ n (t : List Char), ∃ c t', Nat.toDigits 10 n ++ t = c :: t' ∧ isDig c = true := by
    intro n t
    cases h : Nat.toDigits 10 n with
    | nil => exact absurd h (toDigits_ne_nil n)
    | cons c r => exact ⟨c, r ++ t, rfl, toDigits_isDig n c (by simp [h])⟩
  unfold bodyChars
  split
  · exact ⟨'0', ['s'], rfl, by decide⟩
  · split
    · exact key _ _
    · split
      · rw [List.append_assoc]; exact key _ _
      · split
        · rw [List.append_assoc]; exact key _ _
        · simp only []
          split
          · rw [List.append_assoc]; exact key _ _
          · split
            · exact key _ _
            · exact key _ _

theorem parse_body (u : Nat) (hu : u ≤ two63) : parseLoop ((bodyChars u).length + 1) (bodyChars u) 0 = some u := by
  obtain ⟨hl2, hlt⟩ := bodyChars_len u
  by_cases h : u < 1000000000
  · obtain ⟨k, hk⟩ : ∃ k, (bodyChars u).length + 1 = k + 2 := ⟨(bodyChars u).length - 1, by omega⟩
    rw [hk]; exact parse_small k u h
  · obtain ⟨k, hk⟩ : ∃ k, (bodyChars u).length + 1 = k + terms u + 1 := ⟨(bodyChars u).length - terms u, by omega⟩
    rw [hk]; exact parse_large k u h hu

/-- **`time.ParseDuration (d.String()) = d`** for every int64 duration -/
theorem parse_fmt (d : Int) (hlo : -(two63 : Int) ≤ d) (hhi : d < (two63 : Int)) : parseChars (fmtChars d) = some d := by
  obtain ⟨c, t, hb, hc⟩ := bodyChars_head d.natAbs
  obtain ⟨hl2, _⟩ := bodyChars_len d.natAbs
  have hne0 : (bodyChars d.natAbs == ['0']) = false := by
    rw [Bool.eq_false_iff]; intro h
    have : bodyChars d.natAbs = ['0'] := by simpa using h
    rw [this] at hl2; simp at hl2
  have hnemp : (bodyChars d.natAbs).isEmpty = false := by rw [hb]; rfl
  have hcm : c ≠ '-' := by intro h; subst h; simp [isDig] at hc
  have hcp : c ≠ '+' := by intro h; subst h; simp [isDig] at hc
  have hu : d.natAbs ≤ two63 := by simp only [two63] at hlo hhi ⊢; omega
  have hp := parse_body d.natAbs hu
  unfold fmtChars parseChars
  by_cases hneg : d < 0
  · simp only [hneg, if_true, isNeg, stripSign, hne0, hnemp, Bool.false_eq_true, if_false, hp]
    congr 1
    omega
  · simp only [hneg, if_false]
    have hm1 : isNeg (bodyChars d.natAbs) = false := by
      rw [hb]; unfold isNeg; split
      · rename_i heq; cases heq; exact absurd rfl hcm
      · rfl
    have hm2 : stripSign (bodyChars d.natAbs) = bodyChars d.natAbs := by
      rw [hb]; unfold stripSign; split
      · rename_i heq; cases heq; exact absurd rfl hcm
      · rename_i heq; cases heq; exact absurd rfl hcp
      · rfl
    have hle : ¬ (d.natAbs > two63 - 1) := by simp only [two63] at hhi ⊢; omega
    simp only [hm1, hm2, hne0, hnemp, Bool.false_eq_true, if_false, hp, hle]
    congr 1
    omega

/-! ### what `ParseDuration` returns is an int64 -/

theorem parseLoop_le : (fuel : Nat) → (cs : List Char) → (d0 d : Nat) → d0 ≤ two63 → parseLoop fuel cs d0 = some d → d ≤ two63
  | 0, _, _, _, _, h => by simp [parseLoop] at h
  | fuel + 1, [], d0, d, h0, h => by simp [parseLoop] at h; omega
  | fuel + 1, c :: r, d0, d, h0, h => by
    rw [parseLoop] at h
    simp only [] at h
    split at h
    · simp at h
    · split at h
      · simp at h
      · split at h
        · simp at h
        · split at h
          · simp at h
          · split at h
            · simp at h
            · split at h
              · simp at h
              · split at h
                · simp at h
                · split at h
                  · simp at h
                  · exact parseLoop_le fuel _ _ d (by omega) h

theorem parseChars_range (cs : List Char) (d : Int) (h : parseChars cs = some d) :
    -(two63 : Int) ≤ d ∧ d < (two63 : Int) := by
  unfold parseChars at h
  simp only [] at h
  split at h
  · simp at h; subst h; simp [two63]
  · split at h
    · simp at h
    · split at h
      · simp at h
      · rename_i n hn
        have hle := parseLoop_le _ _ 0 n (by simp [two63]) hn
        split at h
        · simp at h; subst h
          simp only [two63] at hle ⊢; omega
        · split at h
          · simp at h
          · rename_i hgt
            simp at h; subst h
            simp only [two63] at hgt hle ⊢; omega

theorem parseDur_fmtDur (d : Int) (hlo : -(two63 : Int) ≤ d) (hhi : d < (two63 : Int)) : parseDur (fmtDur d) = some d := by
  simp [parseDur, fmtDur, parse_fmt d hlo hhi]

end MosnVerif.Model.GoDuration
