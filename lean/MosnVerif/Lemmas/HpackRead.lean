import MosnVerif.Lemmas.CheckedGo
import MosnVerif.Gen.C08HpackRead
/-! [c08p10] C08: HPACK `readVarInt` REGENERATED as a checked-access program (Gen/C08HpackRead; the continuation loop is a
`whileLoop` over the state (p, i, m)): for every prefix size 1..8 and EVERY byte string it makes no access outside the
bytes it was given (its `panic("bad n")` and the loop's fuel bound are unreachable), consumes at least one byte when it
succeeds, never more than it was given, and nothing when it fails. -/
namespace MosnVerif.Lemmas.HpackRead
open MosnVerif.Model.CheckedGo MosnVerif.Gen.C08HpackRead
set_option linter.unusedSimpArgs false

/-- what `readVarInt` answers: without error at least one byte was consumed and never more than were given; with an
error nothing is consumed (`remain = p`) -/
def VarIntSpec (p : Bytes) (r : Int × Bytes × Err) : Prop :=
  (r.2.2 = Err.nil → len r.2.1 < len p) ∧ (r.2.2 ≠ Err.nil → r.2.1 = p)

macro "vi_post" : tactic => `(tactic| (
  unfold VarIntSpec; dsimp only [] at *
  refine ⟨fun h => ?_, fun h => ?_⟩
  · first | (cases h; done) | chk_side
  · first | rfl | (exact absurd rfl h)))

theorem readVarInt_spec (n : Int) (p : Bytes) (h1 : 1 ≤ n) (h8 : n ≤ 8) : (hpk_readVarInt n p).Safe (VarIntSpec p) := by
  unfold hpk_readVarInt
  chk_auto
  · exfalso; chk_side
  · vi_post
  · vi_post
  · refine Safe.whileLoop (fun cs => len cs.1 < len p) (fun cs => cs.1.length) ?_ ?_ _ _ ?_ ?_
    · intro s next hI hc hnext
      try dsimp only [] at *
      chk_auto
      all_goals first | vi_post | (apply hnext <;> chk_side)
    · intro s hI hc
      chk_auto
      vi_post
    · chk_side
    · chk_side
  · vi_post
  · refine Safe.whileLoop (fun cs => len cs.1 < len p) (fun cs => cs.1.length) ?_ ?_ _ _ ?_ ?_
    · intro s next hI hc hnext
      try dsimp only [] at *
      chk_auto
      all_goals first | vi_post | (apply hnext <;> chk_side)
    · intro s hI hc
      chk_auto
      vi_post
    · chk_side
    · chk_side

end MosnVerif.Lemmas.HpackRead
