import MosnVerif.Model.Retry
/-! Lemmas about the attempt machine (`Model/Retry.lean`): the regenerated retry decision equals the declarative `retryable`,
the budget computation equals `max 3 num_retries`, and one invariant (`Good`) preserved by every step. Core Lean only. -/
namespace MosnVerif.Model.Retry
open MosnVerif.Gen.RetryState MosnVerif.Gen.RouteAction

/-! ### the regenerated decision functions -/

theorem initialBudget_eq (n : Nat) : initialBudget (n : Int) = ((max 3 n : Nat) : Int) := by
  unfold initialBudget
  simp only [Nat.max_def]
  by_cases h : (n : Int) > 3
  · simp [h]; split <;> omega
  · simp [h]; split <;> omega

theorem any_codes (l : List Nat) (c : Nat) :
    (l.map Int.ofNat).any (fun it => decide ((c : Int) = it)) = l.contains c := by
  induction l with
  | nil => simp
  | cons a r ih =>
    simp only [List.map_cons, List.any_cons, ih, List.contains_cons]
    congr 1
    simp only [Int.ofNat_eq_natCast, Int.natCast_inj]
    rw [Bool.eq_iff_iff]; simp

/-- response headers: the regenerated `doRetryCheck` on the status just received is the declarative condition -/
theorem check_resp (p : Policy) (c : Nat) :
    doRetryCheck true p.disable p.retryOn false (c : Int) (codesInt p) "" = retryable p (.resp c) := by
  unfold doRetryCheck retryable codesInt
  simp only [any_codes]
  cases hd : p.disable <;> cases hr : p.retryOn <;> simp [streamOverflow, streamConnectionFailed, httpInternalServerError]
  cases hc : p.codes with
  | nil => simp; omega
  | cons a r => simp

/-- any other outcome: the regenerated `doRetryCheck` is the declarative condition WHATEVER the status variable holds
(this is what fails on the code before the `fix:` commit: a stale status of a retried attempt was consulted) -/
theorem check_reset (p : Policy) (o : Outcome) (se : Bool) (code : Int) (ho : ∀ c, o ≠ .resp c) :
    doRetryCheck true p.disable p.retryOn se code (codesInt p) (reasonOf o) = retryable p o := by
  cases o with
  | resp c => exact absurd rfl (ho c)
  | _ =>
    unfold doRetryCheck retryable reasonOf
    cases hd : p.disable <;> cases hr : p.retryOn <;>
      simp [poolFailReason, streamOverflow, streamConnectionFailed, streamConnectionTermination, streamRemoteReset, streamLocalReset,
        upstreamPerTryTimeout, upstreamGlobalTimeout]

theorem shouldRetry_snd_le (rem : Int) (chk cc : Bool) : (shouldRetry rem chk cc).2 ≤ rem := by
  unfold shouldRetry; split
  · simp
  · split
    · simp; omega
    · split <;> (simp; omega)

theorem shouldRetry_nonneg (rem : Int) (chk cc : Bool) (h : 0 ≤ rem) : 0 ≤ (shouldRetry rem chk cc).2 := by
  unfold shouldRetry; split
  · simpa using h
  · rename_i h0
    have : rem ≠ 0 := by simpa using h0
    split
    · simp; omega
    · split <;> (simp; omega)

theorem retry_should (rem : Int) (chk cc : Bool) (h : retry (shouldRetry rem chk cc).1 = rcShouldRetry) :
    rem ≠ 0 ∧ chk = true ∧ cc = true ∧ (shouldRetry rem chk cc).2 = rem - 1 := by
  unfold shouldRetry retry at *
  by_cases h0 : rem = 0
  · simp [h0, rcNoRetry, rcShouldRetry] at h
  · cases chk <;> cases cc <;> simp_all [rcNoRetry, rcShouldRetry, rcRetryOverflow]

/-! ### the trace acceptor -/

theorem scan_append (p : Policy) (c : Scan) (t1 t2 : List Ev) :
    scan p c (t1 ++ t2) = (scan p c t1).bind (fun c' => scan p c' t2) := by
  induction t1 generalizing c with
  | nil => simp [scan]
  | cons e r ih =>
    simp only [List.cons_append, scan]
    cases scanStep p c e with
    | none => simp
    | some c' => simpa using ih c'

theorem scan_snoc (p : Policy) (c c' : Scan) (t : List Ev) (e : Ev) (h : scan p c t = some c') :
    scan p c (t ++ [e]) = scanStep p c' e := by
  rw [scan_append, h]; simp only [Option.bind_some, scan]
  cases scanStep p c' e <;> rfl

theorem attemptCount_snoc (t : List Ev) (e : Ev) : attemptCount (t ++ [e]) = attemptCount t + (if isAttempt e then 1 else 0) := by
  unfold attemptCount
  rw [List.filter_append, List.length_append]
  cases h : isAttempt e <;> simp [h]

/-! ### the invariant -/

/-- numeric part + accepted trace -/
structure Good (p : Policy) (s : St) : Prop where
  rem_nonneg : 0 ≤ s.remaining
  bound : (s.attempts : Int) + s.remaining ≤ 1 + ((budget p : Nat) : Int)
  count : attemptCount s.trace = s.attempts
  acc : ∃ c, scan p scanInit s.trace = some c ∧ c.n = s.attempts ∧ c.chosen = false ∧ (s.live = true → c.dead = false)

/-- appending one accepted event to an accepted trace -/
theorem acc_snoc (p : Policy) (t : List Ev) (e : Ev) (c c' : Scan) (h : scan p scanInit t = some c) (he : scanStep p c e = some c') :
    scan p scanInit (t ++ [e]) = some c' := by
  rw [scan_snoc p _ _ _ _ h, he]

theorem hijack_good (p : Policy) (s : St) (code : Int) (c : Scan)
    (h1 : 0 ≤ s.remaining) (h2 : (s.attempts : Int) + s.remaining ≤ 1 + ((budget p : Nat) : Int))
    (h3 : attemptCount s.trace = s.attempts) (h4 : scan p scanInit s.trace = some c) (h5 : c.n = s.attempts) :
    Good p (hijack s code) := by
  unfold hijack
  split
  · refine ⟨h1, h2, ?_, ?_⟩
    · simp [attemptCount_snoc, isAttempt, h3]
    · exact ⟨{ c with dead := true, permit := false, chosen := false }, acc_snoc p _ _ _ _ h4 rfl, h5, rfl, by simp⟩
  · refine ⟨h1, h2, ?_, ?_⟩
    · simp [attemptCount_snoc, isAttempt, h3]
    · exact ⟨{ c with dead := true, permit := false, chosen := false }, acc_snoc p _ _ _ _ h4 rfl, h5, rfl, by simp⟩

theorem forward_good (p : Policy) (s : St) (code : Int) (c : Scan)
    (h1 : 0 ≤ s.remaining) (h2 : (s.attempts : Int) + s.remaining ≤ 1 + ((budget p : Nat) : Int))
    (h3 : attemptCount s.trace = s.attempts) (h4 : scan p scanInit s.trace = some c) (h5 : c.n = s.attempts) :
    Good p (forward s code) := by
  unfold forward
  refine ⟨h1, h2, ?_, ?_⟩
  · simp [attemptCount_snoc, isAttempt, h3]
  · exact ⟨{ c with dead := true, permit := false, chosen := false }, acc_snoc p _ _ _ _ h4 rfl, h5, rfl, by simp⟩

theorem doRetry_good (p : Policy) (s : St) (host : Option Nat) (c : Scan)
    (h1 : 0 ≤ s.remaining) (h2 : (s.attempts : Int) + 1 + s.remaining ≤ 1 + ((budget p : Nat) : Int))
    (h3 : attemptCount s.trace = s.attempts) (h4 : scan p scanInit s.trace = some c) (h5 : c.n = s.attempts)
    (h6 : c.permit = true) (h7 : c.dead = false) (h8 : c.chosen = false) :
    Good p (doRetry s host) := by
  unfold doRetry
  split
  · refine ⟨h1, ?_, ?_, ?_⟩
    · show (s.attempts : Int) + s.remaining ≤ _; omega
    · simp [attemptCount_snoc, isAttempt, h3]
    · exact ⟨{ c with dead := true, permit := false, chosen := false }, acc_snoc p _ _ _ _ h4 rfl, h5, rfl, by simp⟩
  · have hch : scan p scanInit (s.trace ++ [Ev.choose s.attempts]) = some { c with chosen := true, permit := false } := by
      apply acc_snoc p _ _ _ _ h4; simp [scanStep, h5, h6, h7, h8]
    cases host with
    | none =>
      simp only []
      refine hijack_good p _ _ _ ?_ ?_ ?_ hch ?_
      · exact h1
      · show (s.attempts : Int) + s.remaining ≤ _; omega
      · simp [attemptCount_snoc, isAttempt, h3]
      · exact h5
    | some h =>
      simp only []
      refine ⟨h1, ?_, ?_, ?_⟩
      · show ((s.attempts + 1 : Nat) : Int) + s.remaining ≤ _; omega
      · show attemptCount ((s.trace ++ [Ev.choose s.attempts]) ++ [Ev.attempt s.attempts h]) = s.attempts + 1
        rw [attemptCount_snoc, attemptCount_snoc, h3]; simp [isAttempt]
      · refine ⟨{ c with n := c.n + 1, chosen := false, permit := false }, ?_, ?_, rfl, ?_⟩
        · apply acc_snoc p _ _ _ _ hch; simp [scanStep, h5]
        · simp [h5]
        · intro _; exact h7

theorem retryCall_snd_le (p : Policy) (s : St) (reason : String) (cc : Bool) : (retryCall p s reason cc).2 ≤ s.remaining := by
  unfold retryCall; exact shouldRetry_snd_le _ _ _

theorem retryCall_nonneg (p : Policy) (s : St) (reason : String) (cc : Bool) (h : 0 ≤ s.remaining) : 0 ≤ (retryCall p s reason cc).2 := by
  unfold retryCall; exact shouldRetry_nonneg _ _ _ h

/-- an accepted retry decision: budget was left, it is consumed, and the regenerated check said yes -/
theorem retryCall_should (p : Policy) (s : St) (reason : String) (cc : Bool) (h : (retryCall p s reason cc).1 = rcShouldRetry) :
    s.remaining ≠ 0 ∧ cc = true ∧ (retryCall p s reason cc).2 = s.remaining - 1 ∧
    doRetryCheck true p.disable p.retryOn s.lastStatus.isNone (s.lastStatus.getD 0) (codesInt p) reason = true := by
  unfold retryCall at *
  have := retry_should _ _ _ h
  exact ⟨this.1, this.2.2.1, this.2.2.2, this.2.1⟩

theorem stepResp_good (p : Policy) (s : St) (k : Nat) (l : Label) (c : Scan)
    (h1 : 0 ≤ s.remaining) (h2 : (s.attempts : Int) + s.remaining ≤ 1 + ((budget p : Nat) : Int))
    (h3 : attemptCount s.trace = s.attempts) (h4 : scan p scanInit s.trace = some c) (h5 : c.n = s.attempts)
    (h6 : c.permit = retryable p (.resp k)) (h7 : c.dead = false) (h8 : c.chosen = false) :
    Good p (stepResp p s k l) := by
  unfold stepResp
  simp only []
  split
  · split
    · rename_i hc
      have hs : (retryCall p { s with lastStatus := some (k : Int) } "" l.canCreate).1 = rcShouldRetry := by
        simp [headersRetryCond] at hc; exact hc.1
      obtain ⟨hr0, _, hr2, hr3⟩ := retryCall_should p _ _ _ hs
      have hr3' : retryable p (.resp k) = true := by
        rw [← check_resp]; simpa using hr3
      refine doRetry_good p _ _ c ?_ ?_ h3 h4 h5 (by rw [h6, hr3']) h7 h8
      · show 0 ≤ (retryCall p { s with lastStatus := some (k : Int) } "" l.canCreate).2
        rw [hr2]; show 0 ≤ s.remaining - 1
        have : s.remaining ≠ 0 := hr0
        omega
      · show (s.attempts : Int) + 1 + (retryCall p { s with lastStatus := some (k : Int) } "" l.canCreate).2 ≤ _
        rw [hr2]; show (s.attempts : Int) + 1 + (s.remaining - 1) ≤ _
        omega
    · refine forward_good p _ _ c ?_ ?_ h3 h4 h5
      · exact retryCall_nonneg p _ _ _ h1
      · have := retryCall_snd_le p { s with lastStatus := some (k : Int) } "" l.canCreate
        show (s.attempts : Int) + (retryCall p { s with lastStatus := some (k : Int) } "" l.canCreate).2 ≤ _
        have h' : ({ s with lastStatus := some (k : Int) } : St).remaining = s.remaining := rfl
        omega
  · exact forward_good p _ _ c h1 h2 h3 h4 h5

theorem resetGuard_not_global (o : Outcome) (st rs : Bool) (h : resetGuard (reasonOf o) st rs = true) : o ≠ .global := by
  intro ho; subst ho
  simp [resetGuard, reasonOf] at h

theorem stepReset_good (p : Policy) (s : St) (o : Outcome) (l : Label) (c : Scan) (ho : ∀ k, o ≠ .resp k)
    (h1 : 0 ≤ s.remaining) (h2 : (s.attempts : Int) + s.remaining ≤ 1 + ((budget p : Nat) : Int))
    (h3 : attemptCount s.trace = s.attempts) (h4 : scan p scanInit s.trace = some c) (h5 : c.n = s.attempts)
    (h6 : c.permit = retryable p o) (h7 : c.dead = decide (o = .global)) (h8 : c.chosen = false) :
    Good p (stepReset p s o l) := by
  unfold stepReset
  simp only []
  split
  · rename_i hg
    have hng := resetGuard_not_global _ _ _ hg
    split
    · rename_i hc
      have hs : (retryCall p s (reasonOf o) l.canCreate).1 = rcShouldRetry := by
        simp [resetRetryCond] at hc; exact hc.1
      obtain ⟨hr0, _, hr2, hr3⟩ := retryCall_should p _ _ _ hs
      have hr3' : retryable p o = true := by
        rw [← check_reset p o _ _ ho]; exact hr3
      refine doRetry_good p _ _ c ?_ ?_ h3 h4 h5 (by rw [h6, hr3']) (by rw [h7]; simpa using hng) h8
      · show 0 ≤ (retryCall p s (reasonOf o) l.canCreate).2
        rw [hr2]; omega
      · show (s.attempts : Int) + 1 + (retryCall p s (reasonOf o) l.canCreate).2 ≤ _
        rw [hr2]; omega
    · refine hijack_good p _ _ c ?_ ?_ h3 h4 h5
      · exact retryCall_nonneg p _ _ _ h1
      · have := retryCall_snd_le p s (reasonOf o) l.canCreate
        show (s.attempts : Int) + (retryCall p s (reasonOf o) l.canCreate).2 ≤ _
        omega
  · exact hijack_good p _ _ c h1 h2 h3 h4 h5

/-- once the downstream response has started the regenerated guard of `onUpstreamReset` refuses every retry -/
theorem resetGuard_started (reason : String) (rs : Bool) : resetGuard reason true rs = false := by
  simp [resetGuard]

theorem step_good (p : Policy) (s : St) (l : Label) (h : Good p s) : Good p (step p s l) := by
  unfold step
  split
  · split
    · rename_i hc
      rw [hc.1, resetGuard_started] at hc
      simp at hc
    · exact h
  · split
    · exact h
    · rename_i hlive _
      obtain ⟨h1, h2, h3, c, h4, h5, h8, h9⟩ := h
      have hd : c.dead = false := h9 (by simpa using hlive)
      have hacc : scan p scanInit (s.trace ++ [Ev.outcome l.o]) =
          some { c with permit := retryable p l.o && !c.dead, dead := c.dead || decide (l.o = .global) } := by
        apply acc_snoc p _ _ _ _ h4; simp [scanStep, h8]
      have hcount : attemptCount (s.trace ++ [Ev.outcome l.o]) = s.attempts := by
        rw [attemptCount_snoc, h3]; simp [isAttempt]
      simp only []
      split
      · rename_i k hk
        refine stepResp_good p _ k l _ h1 h2 hcount hacc h5 ?_ ?_ h8
        · simp [hd, hk]
        · simp [hd, hk]
      · rename_i hk
        refine stepReset_good p _ l.o l _ (fun k hk' => hk k hk') h1 h2 hcount hacc h5 ?_ ?_ h8
        · simp [hd]
        · simp [hd]

theorem start_good (p : Policy) (host0 : Option Nat) : Good p (start p host0) := by
  unfold start
  have hch : scan p scanInit [Ev.choose 0] = some { scanInit with chosen := true, permit := false } := by
    simp [scan, scanStep, scanInit]
  cases host0 with
  | none =>
    simp only []
    refine hijack_good p _ _ _ ?_ ?_ ?_ hch rfl
    · show (0 : Int) ≤ 0; omega
    · show ((0 : Nat) : Int) + 0 ≤ _; omega
    · simp [attemptCount, isAttempt]
  | some h =>
    simp only []
    refine ⟨?_, ?_, ?_, ?_⟩
    · show 0 ≤ initialBudget (p.numRetries : Int); rw [initialBudget_eq]; omega
    · show ((1 : Nat) : Int) + initialBudget (p.numRetries : Int) ≤ _; rw [initialBudget_eq]; unfold budget; omega
    · simp [attemptCount, isAttempt, List.filter]
    · refine ⟨{ scanInit with n := 1, permit := false }, ?_, rfl, rfl, fun _ => rfl⟩
      show scan p scanInit ([Ev.choose 0] ++ [Ev.attempt 0 h]) = _
      apply acc_snoc p _ _ _ _ hch; simp [scanStep, scanInit]

theorem run_good (p : Policy) (host0 : Option Nat) (ls : List Label) : Good p (run p host0 ls) := by
  unfold run
  generalize hs : start p host0 = s0
  have h0 : Good p s0 := hs ▸ start_good p host0
  clear hs
  induction ls generalizing s0 with
  | nil => exact h0
  | cons l r ih => exact ih _ (step_good p s0 l h0)

/-! ### the other direction: configured retries happen -/

theorem shouldRetry_yes (rem : Int) (h : rem ≠ 0) : shouldRetry rem true true = (rcShouldRetry, rem - 1) := by
  unfold shouldRetry; simp [h]

theorem resetGuard_of_retryable (p : Policy) (o : Outcome) (h : retryable p o = true) : resetGuard (reasonOf o) false true = true := by
  cases o <;> simp [retryable] at h <;>
    simp [resetGuard, reasonOf, poolFailReason, streamConnectionFailed, streamConnectionTermination, upstreamPerTryTimeout, upstreamGlobalTimeout]

/-- the other direction: a retryable outcome with budget left, an admitting breaker, a healthy host and a worker pass left IS retried -/
theorem step_retries (p : Policy) (s : St) (l : Label) (h : Nat)
    (hlive : s.live = true) (hrs : s.hasRS = true) (hst : s.started = false) (hrem : s.remaining ≠ 0) (hloops : s.loops ≠ 0)
    (hret : retryable p l.o = true) (hcc : l.canCreate = true) (hh : l.host = some h)
    (hpt : l.o = .perTry → p.tryTimeout = true) :
    (step p s l).trace = s.trace ++ [.outcome l.o, .choose s.attempts, .attempt s.attempts h] ∧
    (step p s l).attempts = s.attempts + 1 ∧ (step p s l).remaining = s.remaining - 1 := by
  obtain ⟨rem, rs, st, lv, lo, att, ls, tr⟩ := s
  obtain ⟨o, cc, host⟩ := l
  simp only at hlive hrs hst hrem hloops hret hcc hh hpt
  subst hlive hrs hst hcc hh
  unfold step
  have hpt' : ¬ (o = .perTry ∧ p.tryTimeout = false) := by
    intro ⟨a, b⟩; rw [hpt a] at b; simp at b
  simp only [hpt', if_false, Bool.true_eq_false]
  by_cases hr : ∃ c, o = .resp c
  · obtain ⟨c, rfl⟩ := hr
    have hchk := check_resp p c
    simp [stepResp, headersGuard, retryCall, hchk, hret, shouldRetry_yes _ hrem, retry, headersRetryCond, setupRetryResult,
      rcShouldRetry, doRetry, hloops]
  · have ho : ∀ c, o ≠ .resp c := fun c hc => hr ⟨c, hc⟩
    have hchk := check_reset p o ls.isNone (ls.getD 0) ho
    have hg := resetGuard_of_retryable p o hret
    simp [stepReset, hg, retryCall, hchk, hret, shouldRetry_yes _ hrem, retry, resetRetryCond, setupRetryResult,
      rcShouldRetry, doRetry, hloops]

/-! ### what an accepted trace means (facts about the acceptor alone) -/

theorem scan_n (p : Policy) (c0 c : Scan) (t : List Ev) (h : scan p c0 t = some c) : c.n = c0.n + attemptCount t := by
  induction t generalizing c0 with
  | nil => simp [scan] at h; simp [← h, attemptCount]
  | cons e r ih =>
    simp only [scan] at h
    cases hs : scanStep p c0 e with
    | none => simp [hs] at h
    | some c1 =>
      rw [hs] at h
      have := ih c1 h
      have hc : attemptCount (e :: r) = (if isAttempt e then 1 else 0) + attemptCount r := by
        unfold attemptCount; cases hi : isAttempt e <;> simp [hi]; omega
      rw [this, hc]
      cases e <;> simp [scanStep] at hs <;> (try split at hs) <;> simp_all [isAttempt] <;> (try (obtain ⟨_, rfl⟩ := hs; simp)) <;> (try (subst hs; simp)) <;> omega

/-- the acceptor never leaves `dead`; while it is not dead no ending event has been seen -/
theorem scan_alive (p : Policy) (c0 c : Scan) (t : List Ev) (h : scan p c0 t = some c) (hd : c.dead = false) :
    c0.dead = false ∧ ∀ e ∈ t, ends e = false := by
  induction t generalizing c0 with
  | nil => simp [scan] at h; subst h; exact ⟨hd, by simp⟩
  | cons e r ih =>
    simp only [scan] at h
    cases hs : scanStep p c0 e with
    | none => simp [hs] at h
    | some c1 =>
      rw [hs] at h
      obtain ⟨h1, h2⟩ := ih c1 h
      have : c0.dead = false ∧ ends e = false := by
        cases e with
        | choose k => simp [scanStep] at hs; obtain ⟨_, rfl⟩ := hs; exact ⟨h1, rfl⟩
        | attempt k x => simp [scanStep] at hs; obtain ⟨_, rfl⟩ := hs; exact ⟨h1, rfl⟩
        | outcome o =>
          simp [scanStep] at hs; obtain ⟨_, rfl⟩ := hs
          simp at h1
          refine ⟨h1.1, ?_⟩
          cases o <;> simp_all [ends]
        | reply k => simp [scanStep] at hs; subst hs; simp at h1
        | stuck => simp [scanStep] at hs; subst hs; simp at h1
      exact ⟨this.1, by intro e' he'; cases he' with | head => exact this.2 | tail _ hm => exact h2 _ hm⟩

/-- a permit after a non-empty accepted trace comes from a retryable outcome as the very last event, seen while not dead -/
theorem scan_permit (p : Policy) (c0 c : Scan) (t : List Ev) (h : scan p c0 t = some c) (hp : c.permit = true) :
    (t = [] ∧ c0.permit = true) ∨ ∃ t' o c', t = t' ++ [.outcome o] ∧ retryable p o = true ∧ scan p c0 t' = some c' ∧ c'.dead = false := by
  rcases List.eq_nil_or_concat t with rfl | ⟨t', e, rfl⟩
  · left; simp [scan] at h; subst h; exact ⟨rfl, hp⟩
  · right
    simp only [List.concat_eq_append] at h ⊢
    rw [scan_append] at h
    cases h' : scan p c0 t' with
    | none => simp [h'] at h
    | some c' =>
      simp only [h', Option.bind_some, scan] at h
      cases hs : scanStep p c' e with
      | none => simp [hs] at h
      | some c2 =>
        simp only [hs] at h
        have : c2 = c := by simpa using h
        subst this
        cases e with
        | choose k => simp [scanStep] at hs; obtain ⟨_, rfl⟩ := hs; simp at hp
        | attempt k x => simp [scanStep] at hs; obtain ⟨_, rfl⟩ := hs; simp at hp
        | outcome o =>
          simp [scanStep] at hs; obtain ⟨_, rfl⟩ := hs
          simp at hp
          exact ⟨t', o, c', rfl, hp.1, h', hp.2⟩
        | reply k => simp [scanStep] at hs; subst hs; simp at hp
        | stuck => simp [scanStep] at hs; subst hs; simp at hp

/-- `chosen` after an accepted trace comes from a host selection for the next attempt index as the very last event -/
theorem scan_chosen (p : Policy) (c0 c : Scan) (t : List Ev) (h : scan p c0 t = some c) (hc : c.chosen = true) :
    (t = [] ∧ c0.chosen = true) ∨ ∃ t', t = t' ++ [.choose c.n] := by
  rcases List.eq_nil_or_concat t with rfl | ⟨t', e, rfl⟩
  · left; simp [scan] at h; subst h; exact ⟨rfl, hc⟩
  · right
    simp only [List.concat_eq_append] at h ⊢
    rw [scan_append] at h
    cases h' : scan p c0 t' with
    | none => simp [h'] at h
    | some c' =>
      simp only [h', Option.bind_some, scan] at h
      cases hs : scanStep p c' e with
      | none => simp [hs] at h
      | some c2 =>
        simp only [hs] at h
        have : c2 = c := by simpa using h
        subst this
        cases e with
        | choose k => simp [scanStep] at hs; obtain ⟨⟨rfl, _⟩, rfl⟩ := hs; exact ⟨t', rfl⟩
        | attempt k x => simp [scanStep] at hs; obtain ⟨_, rfl⟩ := hs; simp at hc
        | outcome o => simp [scanStep] at hs; obtain ⟨h8, rfl⟩ := hs; simp [h8] at hc
        | reply k => simp [scanStep] at hs; subst hs; simp at hc
        | stuck => simp [scanStep] at hs; subst hs; simp at hc

/-- splitting an accepted trace at an event -/
theorem scan_split (p : Policy) (c0 c : Scan) (pre post : List Ev) (e : Ev) (h : scan p c0 (pre ++ [e] ++ post) = some c) :
    ∃ c1 c2, scan p c0 pre = some c1 ∧ scanStep p c1 e = some c2 := by
  rw [List.append_assoc, scan_append] at h
  cases h1 : scan p c0 pre with
  | none => simp [h1] at h
  | some c1 =>
    simp only [h1, Option.bind_some, List.cons_append, List.nil_append, scan] at h
    cases h2 : scanStep p c1 e with
    | none => simp [h2] at h
    | some c2 => exact ⟨c1, c2, rfl, h2⟩

end MosnVerif.Model.Retry
