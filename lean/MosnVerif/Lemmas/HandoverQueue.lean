import MosnVerif.Model.HandoverQueue
namespace MosnVerif.Model.HandoverQueue
open MosnVerif.Gen.HandoverQueue

/-- nothing is lost, nothing reordered: what was forwarded, what is queued and what the writer still has to write is
the writer's sequence -/
def Inv {α} (ws : List α) (s : Q α) : Prop := s.forwarded ++ s.queue ++ s.pending = ws ∧ s.dropped = []

theorem step_inv {α} (mode : EnqueueMode) (hm : mode ≠ .dropWhenFull) (cap : Nat) (ws : List α) (s : Q α) (e : Ev)
    (h : Inv ws s) : Inv ws (step mode cap s e) := by
  obtain ⟨h1, h2⟩ := h
  cases e with
  | w =>
    unfold step
    cases hp : s.pending with
    | nil => simp only []; exact ⟨by rw [hp] at h1; simpa [hp] using h1, h2⟩
    | cons x rest =>
      simp only []
      split
      · refine ⟨?_, h2⟩
        rw [hp] at h1
        simpa [List.append_assoc] using h1
      · cases mode with
        | dropWhenFull => exact absurd rfl hm
        | blocking => exact ⟨by simpa [hp] using h1, h2⟩
        | blockingTimeout => exact ⟨by simpa [hp] using h1, h2⟩
  | d =>
    unfold step
    cases hq : s.queue with
    | nil => simp only []; exact ⟨by simpa [hq] using h1, h2⟩
    | cons x q =>
      simp only []
      refine ⟨?_, h2⟩
      rw [hq] at h1
      simpa [List.append_assoc] using h1

theorem run_inv {α} (mode : EnqueueMode) (hm : mode ≠ .dropWhenFull) (cap : Nat) (ws : List α) (sched : List Ev)
    (s : Q α) (h : Inv ws s) : Inv ws (run mode cap s sched) := by
  induction sched generalizing s with
  | nil => exact h
  | cons e r ih => exact ih _ (step_inv mode hm cap ws s e h)

end MosnVerif.Model.HandoverQueue
