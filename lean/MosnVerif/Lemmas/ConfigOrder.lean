import MosnVerif.Model.ConfigOrder
/-!
Lemmas of the order model of the dump (C19): a start leaves distinct keys; loading a list with distinct keys is the
identity (so reloading a dump changes nothing beyond what the dump did); a sort is a permutation.
-/
namespace MosnVerif.Lemmas.ConfigOrder
open MosnVerif.Model.OrderTypes MosnVerif.Model.ConfigOrder

set_option linter.unusedSectionVars false
variable {κ : Type} [DecidableEq κ]

theorem put_of_not_mem (e : Elem κ) (t : Table κ) (h : e.key ∉ keys t) : put e t = t ++ [e] := by
  induction t with
  | nil => rfl
  | cons x r ih =>
    simp only [keys, List.map_cons, List.mem_cons, not_or] at h
    have hne : ¬ x.key = e.key := fun hh => h.1 hh.symm
    simp only [put, hne, if_false, List.cons_append]
    rw [ih (by simpa [keys] using h.2)]

theorem keys_put_of_mem (e : Elem κ) (t : Table κ) (h : e.key ∈ keys t) : keys (put e t) = keys t := by
  induction t with
  | nil => simp [keys] at h
  | cons x r ih =>
    by_cases hx : x.key = e.key
    · simp [put, hx, keys]
    · have hr : e.key ∈ keys r := by
        simp only [keys, List.map_cons, List.mem_cons] at h
        rcases h with h | h
        · exact absurd h.symm hx
        · simpa [keys] using h
      have := ih hr
      simp only [put, hx, if_false]
      simp only [keys, List.map_cons] at this ⊢
      rw [this]

theorem put_keys_nodup (e : Elem κ) (t : Table κ) (h : (keys t).Nodup) : (keys (put e t)).Nodup := by
  by_cases hm : e.key ∈ keys t
  · rw [keys_put_of_mem e t hm]; exact h
  · rw [put_of_not_mem e t hm]
    simp only [keys, List.map_append, List.map_cons, List.map_nil]
    rw [List.nodup_append]
    refine ⟨h, by simp, ?_⟩
    intro a ha b hb
    simp only [List.mem_singleton] at hb
    subst hb
    intro hab; subst hab
    exact hm ha

theorem foldl_put_keys_nodup (l : List (Elem κ)) (acc : Table κ) (h : (keys acc).Nodup) :
    (keys (l.foldl (fun t e => put e t) acc)).Nodup := by
  induction l generalizing acc with
  | nil => exact h
  | cons e r ih => exact ih _ (put_keys_nodup e acc h)

/-- the effective tables of a start have pairwise distinct keys, whatever the configuration repeats -/
theorem loadTable_keys_nodup (l : List (Elem κ)) : (keys (loadTable l)).Nodup :=
  foldl_put_keys_nodup l [] (by simp [keys])

theorem foldl_put_of_nodup (l : List (Elem κ)) (acc : Table κ) (h : (keys (acc ++ l)).Nodup) :
    l.foldl (fun t e => put e t) acc = acc ++ l := by
  induction l generalizing acc with
  | nil => simp
  | cons e r ih =>
    have hnot : e.key ∉ keys acc := by
      simp only [keys, List.map_append, List.map_cons] at h
      rw [List.nodup_append] at h
      intro hm
      exact h.2.2 _ (by simpa [keys] using hm) _ (List.mem_cons_self) rfl
    simp only [List.foldl_cons]
    rw [put_of_not_mem e acc hnot, ih (acc ++ [e]) (by simpa [List.append_assoc] using h)]
    simp [List.append_assoc]

/-- loading a list whose keys are distinct yields that list, in that order -/
theorem loadTable_of_nodup (l : List (Elem κ)) (h : (keys l).Nodup) : loadTable l = l := by
  have := foldl_put_of_nodup l [] (by simpa using h)
  simpa [loadTable] using this

theorem insBy_perm {α : Type} (le : α → α → Bool) (a : α) (l : List α) : (insBy le a l).Perm (a :: l) := by
  induction l with
  | nil => exact List.Perm.refl _
  | cons b r ih =>
    simp only [insBy]
    split
    · exact List.Perm.refl _
    · exact ((List.Perm.cons b ih).trans (List.Perm.swap a b r))

theorem isort_perm {α : Type} (le : α → α → Bool) (l : List α) : (isort le l).Perm l := by
  induction l with
  | nil => exact List.Perm.refl _
  | cons a r ih => exact (insBy_perm le a _).trans (List.Perm.cons a ih)

theorem keys_nodup_of_perm {t u : Table κ} (h : t.Perm u) (hu : (keys u).Nodup) : (keys t).Nodup :=
  ((h.map (fun e : Elem κ => e.key)).nodup_iff).2 hu

/-- a name-keyed list of the dump (rebuilt from a map, possibly sorted, no element edited) is a permutation of the table -/
theorem dumpList_keyed_perm (le : κ → κ → Bool) (lp : ListPlan) (m : String) (hs : lp.src = .fromMap m)
    (it : Table κ → Table κ) (hit : ∀ t, (it t).Perm t) (t : Table κ) :
    (dumpList le lp [] it t).Perm t := by
  simp only [dumpList, hs, List.filter_nil, List.foldl_nil]
  split
  · exact (isort_perm _ _).trans (hit t)
  · exact hit t

/-- an in-order, unsorted, unedited list of the dump IS the effective slice -/
theorem dumpList_ordered_eq (le : κ → κ → Bool) (lp : ListPlan) (s : String) (hs : lp.src = .inOrder s) (h0 : lp.sorts = 0)
    (it : Table κ → Table κ) (t : Table κ) : dumpList le lp [] it t = t := by
  simp [dumpList, hs, h0]

/-- reloading a permutation of a table with distinct keys gives that permutation -/
theorem reload_perm {t u : Table κ} (h : u.Perm t) (ht : (keys t).Nodup) : (loadTable u).Perm t := by
  rw [loadTable_of_nodup u (keys_nodup_of_perm h ht)]; exact h

/-- lookup by key in tables with distinct keys does not depend on the order -/
theorem find_perm {t u : Table κ} (h : u.Perm t) (ht : (keys t).Nodup) (k : κ) :
    u.find? (fun e => e.key = k) = t.find? (fun e => e.key = k) := by
  induction h with
  | nil => rfl
  | cons x _ ih =>
    simp only [keys, List.map_cons, List.nodup_cons] at ht
    simp only [List.find?_cons]
    split
    · rfl
    · exact ih (by simpa [keys] using ht.2)
  | swap x y l =>
    simp only [keys, List.map_cons, List.nodup_cons, List.mem_cons, not_or] at ht
    simp only [List.find?_cons]
    by_cases hx : x.key = k
    · by_cases hy : y.key = k
      · exact absurd (hx.trans hy.symm) ht.1.1
      · simp [hx, hy]
    · by_cases hy : y.key = k <;> simp [hx, hy]
  | trans h1 h2 ih1 ih2 =>
    exact (ih1 (keys_nodup_of_perm h2 ht)).trans (ih2 ht)

end MosnVerif.Lemmas.ConfigOrder
