import MosnVerif.Model.VhostTable
/-!
The invariant of every schedule of `Model/VhostTable.lean` (property C12): under the lock discipline `safe` every lookup made
under the read lock (or through a valid header copy) answers from ONE published view of the table, and the published views are
those of the writer calls run one after the other.
-/
namespace MosnVerif.Model.VhostTable
open MosnVerif.Gen.VhostLocks

variable {α K : Type}

/-! ### arrays, views -/

theorem setAt_same {β : Type} (m : Nat → β) (k : Nat) (v : β) : setAt m k v k = v := by simp [setAt]
theorem setAt_other {β : Type} (m : Nat → β) (k j : Nat) (v : β) (h : j ≠ k) : setAt m k v j = m j := by simp [setAt, h]

theorem take_set_succ (a : List α) (n : Nat) (r : α) (h : n < a.length) : (a.set n r).take (n + 1) = a.take n ++ [r] := by
  induction a generalizing n with
  | nil => simp at h
  | cons x t ih =>
    cases n with
    | zero => simp
    | succ k =>
      simp only [List.length_cons, Nat.add_lt_add_iff_right] at h
      simp [List.set_cons_succ, List.take_succ_cons, ih k h]

theorem take_cells_succ (cells pad : List α) (r : α) : (cells ++ r :: pad).take (cells.length + 1) = cells ++ [r] := by
  rw [List.take_append, List.take_of_length_le (Nat.le_succ _)]
  simp

theorem tableOf_appendRoute (s : Shared α K) (r : α) : tableOf (appendRoute s r) = tableOf s ++ [r] := by
  by_cases h : s.hdr.len < (s.heap s.hdr.ptr).length
  · simp only [appendRoute, tableOf, h, if_true, setAt_same]
    exact take_set_succ _ _ _ h
  · simp only [appendRoute, tableOf, h, if_false, setAt_same]
    exact take_cells_succ _ _ _

theorem view_appendRoute (s : Shared α K) (r : α) : view (appendRoute s r) = ((view s).1 ++ [r], (view s).2) := by
  have h1 := tableOf_appendRoute s r
  have h2 : (appendRoute s r).maps = s.maps ∧ (appendRoute s r).idx = s.idx := by
    by_cases h : s.hdr.len < (s.heap s.hdr.ptr).length <;> simp [appendRoute, h]
  simp only [view, h1, h2.1, h2.2]

theorem view_resetRoutes (s : Shared α K) : view (resetRoutes s) = ([], (view s).2) := by
  simp [view, resetRoutes, tableOf]

theorem view_freshRoutes (s : Shared α K) : view (freshRoutes s) = ([], (view s).2) := by
  simp [view, freshRoutes, tableOf]

theorem view_freshIndex (s : Shared α K) : view (freshIndex s) = ((view s).1, []) := by
  simp [view, freshIndex, tableOf, setAt]

theorem view_putAt [DecidableEq K] (s : Shared α K) (k : K) (r : α) :
    view (putAt s s.idx k r) = ((view s).1, upsert k r (view s).2) := by
  simp [view, putAt, tableOf, setAt]

/-- a header `(p, n)` some thread may still walk: its array is not the next one to be allocated, and while it is the current one
the current length is not below `n` -/
def Frozen (s : Shared α K) (h : Hdr) : Prop := h.ptr < s.fresh ∧ (h.ptr = s.hdr.ptr → h.len ≤ s.hdr.len)

theorem frozen_appendRoute (s : Shared α K) (r : α) (h : Hdr) (hz : Frozen s h) :
    Frozen (appendRoute s r) h ∧ ((appendRoute s r).heap h.ptr).take h.len = (s.heap h.ptr).take h.len := by
  by_cases hc : s.hdr.len < (s.heap s.hdr.ptr).length
  · simp only [appendRoute, Frozen, hc, if_true]
    refine ⟨⟨hz.1, fun e => Nat.le_succ_of_le (hz.2 e)⟩, ?_⟩
    by_cases e : h.ptr = s.hdr.ptr
    · rw [e, setAt_same, List.take_set_of_le (hz.2 e)]
    · rw [setAt_other _ _ _ _ e]
  · simp only [appendRoute, Frozen, hc, if_false]
    have hne : h.ptr ≠ s.fresh := Nat.ne_of_lt hz.1
    refine ⟨⟨Nat.lt_succ_of_lt hz.1, fun e => absurd e hne⟩, ?_⟩
    rw [setAt_other _ _ _ _ hne]

theorem frozen_freshRoutes (s : Shared α K) (h : Hdr) (hz : Frozen s h) :
    Frozen (freshRoutes s) h ∧ ((freshRoutes s).heap h.ptr).take h.len = (s.heap h.ptr).take h.len := by
  unfold freshRoutes Frozen
  have hne : h.ptr ≠ s.fresh := Nat.ne_of_lt hz.1
  exact ⟨⟨Nat.lt_succ_of_lt hz.1, fun e => absurd e hne⟩, by simp [setAt_other _ _ _ _ hne]⟩

theorem fresh_appendRoute (s : Shared α K) (r : α) (hf : s.hdr.ptr < s.fresh) :
    (appendRoute s r).hdr.ptr < (appendRoute s r).fresh := by
  by_cases hc : s.hdr.len < (s.heap s.hdr.ptr).length <;> simp [appendRoute, hc, hf]

/-! ### lookups -/

theorem lim_nil (b : Bool) : lim b ([] : List α) = [] := by cases b <;> rfl

/-- one more cell of a walk -/
theorem lim_filter_step (first : Bool) (mt : α → Bool) (l : List α) (i : Nat) (x : α) (hx : l[i]? = some x)
    (hgo : (first && !(lim first ((l.take i).filter mt)).isEmpty) = false) :
    lim first ((l.take (i + 1)).filter mt) =
      if mt x then lim first ((l.take i).filter mt) ++ [x] else lim first ((l.take i).filter mt) := by
  rw [List.take_add_one, hx, Option.toList_some, List.filter_append]
  cases first with
  | false => by_cases hm : mt x <;> simp [lim, hm]
  | true =>
    simp only [Bool.true_and, Bool.not_eq_false', lim, if_true] at hgo ⊢
    have he : (l.take i).filter mt = [] := by
      cases hf : (l.take i).filter mt with
      | nil => rfl
      | cons a t => rw [hf] at hgo; simp at hgo
    rw [he]
    by_cases hm : mt x <;> simp [hm]

/-- a walk that stops — past the end, or at the first match — has the answer of the whole table -/
theorem lim_filter_done (first : Bool) (mt : α → Bool) (l : List α) (i : Nat)
    (hstop : l.length ≤ i ∨ (first && !(lim first ((l.take i).filter mt)).isEmpty) = true) :
    lim first ((l.take i).filter mt) = lim first (l.filter mt) := by
  rcases hstop with h | h
  · rw [List.take_of_length_le h]
  · cases first with
    | false => simp at h
    | true =>
      simp only [Bool.true_and, lim, if_true] at h ⊢
      have hsplit : l.filter mt = (l.take i).filter mt ++ (l.drop i).filter mt := by
        rw [← List.filter_append, List.take_append_drop]
      cases hf : (l.take i).filter mt with
      | nil => rw [hf] at h; simp at h
      | cons a t => rw [hsplit, hf]; simp

/-! ### effects -/

section eff
variable [DecidableEq K]

theorem upsert_idem (k : K) (r : α) (m : List (K × α)) : upsert k r (upsert k r m) = upsert k r m := by
  simp [upsert, List.filter_filter]

omit [DecidableEq K] in
theorem serialPubs_append (eff : Nat → View α K → View α K) (o : List Nat) (t : Nat) (v : View α K) :
    serialPubs eff (o ++ [t]) v =
      serialPubs eff o v ++ [eff t ((serialPubs eff o v).getLast?.getD v)] := by
  induction o generalizing v with
  | nil => simp [serialPubs]
  | cons u r ih =>
    simp only [List.cons_append, serialPubs, ih]
    cases hs : serialPubs eff r (eff u v) with
    | nil => cases r <;> simp [serialPubs] at hs
    | cons a b =>
      cases hl : (a :: b).getLast? with
      | none => simp at hl
      | some x => simp [List.getLast?_cons_cons, hl]

omit [DecidableEq K] in
theorem serialPubs_ne_nil (eff : Nat → View α K → View α K) (o : List Nat) (v : View α K) : serialPubs eff o v ≠ [] := by
  cases o <;> simp [serialPubs]

/-- once a call has been through its write section (or never takes it again) the rest of its program changes nothing -/
theorem effect_id_of_safe (esc : Bool) (arg : Arg α K) (p : List Step) (m : Mode) (av iav : Bool) (hm : m ≠ .w)
    (h : safe esc m true av iav p = true) (v : View α K) : effect p arg v = v := by
  induction p generalizing m av iav v with
  | nil => rfl
  | cons a r ih =>
    cases a <;> simp only [safe, Bool.and_eq_true, Bool.not_true, Bool.false_eq_true, and_false, false_and, beq_iff_eq, bne_iff_ne] at h <;>
      simp only [effect, stepEffect]
    all_goals first
      | exact absurd h.1 hm
      | exact absurd h.1.1 hm
      | exact ih _ _ _ hm h.2 v
      | exact ih _ _ _ hm h v
      | exact ih _ _ _ (by decide) h.2 v

end eff

/-! ### the invariant -/
set_option linter.unusedSectionVars false

section inv
variable [DecidableEq K]

def modeOf (g : Glob α K) (t : Nat) : Mode :=
  if g.writer = some t then .w else if t ∈ g.readers then .r else .n

/-- header `h` held by thread `t` (as its copy, or as the header of its walk) denotes the route list of the view that was
current when `t` took the read lock: the cells below its length still hold that list -/
def AliasOk (esc : Bool) (g : Glob α K) (t : Nat) (lin : Nat) (h : Hdr) : Prop :=
  ∃ v, g.pubs[lin]? = some v ∧ (g.sh.heap h.ptr).take h.len = v.1 ∧ modeOf g t ≠ .w ∧
    (esc = false → t ∈ g.readers) ∧ (esc = true → Frozen g.sh h)

structure TInv (esc : Bool) (args : Nat → Arg α K) (progs : Nat → List Step) (g : Glob α K) (t : Nat) (th : Thread α) : Prop where
  suffix : ∃ pre, progs t = pre ++ th.todo
  safe_ : safe esc (modeOf g t) th.wrote th.av th.iav th.todo = true
  wr : g.writer = some t → th.wrote = true
  wlock : th.wrote = true → Step.lock ∈ progs t
  dw : t ∈ g.done → th.wrote = true
  rd : t ∈ g.readers → th.lin + 1 = g.pubs.length
  iav_ : th.iav = true → modeOf g t ≠ .n ∧ th.iali = g.sh.idx
  av_ : th.av = true → AliasOk esc g t th.lin th.ali
  walkHead : ∀ w, th.walk = some w → ∃ r, th.todo = .walkRoutes :: r ∨ th.todo = .walkAlias :: r
  walk_ : ∀ w, th.walk = some w → w.ok = true → AliasOk esc g t th.lin w.h ∧
    ∀ v, g.pubs[th.lin]? = some v → w.acc = lim (args t).first ((v.1.take w.i).filter (args t).mt)
  walkOk : th.wrote = false → ∀ w, th.walk = some w → w.ok = true
  obs_ : ∀ o ∈ th.obs, o.ok = true → ∃ v, g.pubs[o.at_]? = some v ∧ o.res = answer (args t) o.kv v
  obsOk : th.wrote = false → ∀ o ∈ th.obs, o.ok = true
  obsKv : ∀ o ∈ th.obs, o.kv = true → Step.readIndex ∈ progs t ∨ Step.readAlias ∈ progs t
  eff_ : th.wrote = false → ∀ v, effect th.todo (args t) v = effect (progs t) (args t) v
  crit : g.writer = some t → t ∉ g.done ∧
    ∀ last, g.pubs.getLast? = some last → effect th.todo (args t) (view g.sh) = effect (progs t) (args t) last

structure GInv (esc : Bool) (args : Nat → Arg α K) (progs : Nat → List Step) (v0 : View α K) (g : Glob α K) : Prop where
  idle : g.writer = none → g.pubs.getLast? = some (view g.sh)
  excl : ∀ w, g.writer = some w → g.readers = []
  nodupR : g.readers.Nodup
  freshOk : esc = true → g.sh.hdr.ptr < g.sh.fresh
  nodupD : g.done.Nodup
  ser : g.pubs = serialPubs (fun t => effect (progs t) (args t)) g.done v0

structure Inv (esc : Bool) (args : Nat → Arg α K) (progs : Nat → List Step) (v0 : View α K) (c : Conf α K) : Prop where
  glob : GInv esc args progs v0 c.g
  thr : ∀ t, TInv esc args progs c.g t (c.th t)

theorem setThread_same (th : Nat → Thread α) (t : Nat) (v : Thread α) : setThread th t v t = v := by simp [setThread]
theorem setThread_other (th : Nat → Thread α) (t u : Nat) (v : Thread α) (h : u ≠ t) : setThread th t v u = th u := by
  simp [setThread, h]

variable {esc : Bool} {args : Nat → Arg α K} {progs : Nat → List Step} {v0 : View α K}

theorem modeOf_w {g : Glob α K} {t : Nat} : modeOf g t = .w ↔ g.writer = some t := by
  unfold modeOf
  by_cases h : g.writer = some t
  · simp [h]
  · by_cases h2 : t ∈ g.readers <;> simp [h, h2]

theorem modeOf_eq {g g' : Glob α K} {u : Nat} (hw : g'.writer = some u ↔ g.writer = some u) (hr : u ∈ g'.readers ↔ u ∈ g.readers) :
    modeOf g' u = modeOf g u := by
  unfold modeOf
  by_cases h1 : g.writer = some u
  · simp [h1, hw.2 h1]
  · have h2 : ¬ g'.writer = some u := fun h => h1 (hw.1 h)
    by_cases h3 : u ∈ g.readers
    · simp [h1, h2, h3, hr.2 h3]
    · have h4 : ¬ u ∈ g'.readers := fun h => h3 (hr.1 h)
      simp [h1, h2, h3, h4]

/-- thread `u` does not notice a change of the globals made by another thread -/
theorem TInv.frame {g g' : Glob α K} {u : Nat} {th : Thread α} (h : TInv esc args progs g u th)
    (hw : g'.writer = some u ↔ g.writer = some u) (hr : u ∈ g'.readers ↔ u ∈ g.readers) (hd : u ∈ g'.done ↔ u ∈ g.done)
    (hlen : u ∈ g.readers → g'.pubs.length = g.pubs.length) (hidx : modeOf g u ≠ .n → g'.sh.idx = g.sh.idx)
    (halias : ∀ lin hh, AliasOk esc g u lin hh → AliasOk esc g' u lin hh)
    (hpub : ∀ (i : Nat) v, g.pubs[i]? = some v → g'.pubs[i]? = some v)
    (hcrit : g.writer = some u → g'.sh = g.sh ∧ g'.pubs = g.pubs) : TInv esc args progs g' u th := by
  have hm := modeOf_eq hw hr
  refine
    { suffix := h.suffix, safe_ := by rw [hm]; exact h.safe_, wr := fun e => h.wr (hw.1 e), wlock := h.wlock,
      dw := fun e => h.dw (hd.1 e), rd := fun e => by rw [hlen (hr.1 e)]; exact h.rd (hr.1 e),
      iav_ := fun e => by rw [hm]; exact ⟨(h.iav_ e).1, by rw [hidx (h.iav_ e).1]; exact (h.iav_ e).2⟩,
      av_ := fun e => halias _ _ (h.av_ e), walkHead := h.walkHead,
      walk_ := ?_, walkOk := h.walkOk, obs_ := ?_, obsOk := h.obsOk, obsKv := h.obsKv, eff_ := h.eff_, crit := ?_ }
  · intro w hw' hok
    obtain ⟨ha, hacc⟩ := h.walk_ w hw' hok
    refine ⟨halias _ _ ha, fun v hv => ?_⟩
    obtain ⟨v1, hv1, _⟩ := ha
    have := hpub _ _ hv1
    rw [hv] at this
    cases this
    exact hacc _ hv1
  · intro o ho hok
    obtain ⟨v, hv, hres⟩ := h.obs_ o ho hok
    exact ⟨v, hpub _ _ hv, hres⟩
  · intro e
    obtain ⟨h1, h2⟩ := h.crit (hw.1 e)
    obtain ⟨hs, hp⟩ := hcrit (hw.1 e)
    exact ⟨fun x => h1 (hd.1 x), by rw [hs, hp]; exact h2⟩

theorem inv_upd {c : Conf α K} (hI : Inv esc args progs v0 c) (t : Nat) (th' : Thread α)
    (h : TInv esc args progs c.g t th') : Inv esc args progs v0 (upd c t th') := by
  refine ⟨hI.glob, fun u => ?_⟩
  by_cases e : u = t
  · subst e; simp only [upd, setThread_same]; exact h
  · simp only [upd, setThread_other _ _ _ _ e]; exact hI.thr u

theorem inv_mk {c : Conf α K} (hI : Inv esc args progs v0 c) (t : Nat) (g' : Glob α K) (th' : Thread α)
    (hg : GInv esc args progs v0 g') (ht : TInv esc args progs g' t th')
    (hframe : ∀ u, u ≠ t → TInv esc args progs c.g u (c.th u) → TInv esc args progs g' u (c.th u)) :
    Inv esc args progs v0 ⟨g', setThread c.th t th'⟩ := by
  refine ⟨hg, fun u => ?_⟩
  by_cases e : u = t
  · subst e; simp only [setThread_same]; exact ht
  · simp only [setThread_other _ _ _ _ e]; exact hframe u e (hI.thr u)

/-! ### facts read off the invariant -/

theorem suffix_tail {p : List Step} {todo : List Step} {a : Step} {r : List Step} (h : ∃ pre, p = pre ++ todo) (e : todo = a :: r) :
    (∃ pre, p = pre ++ r) ∧ a ∈ p := by
  obtain ⟨pre, hp⟩ := h
  subst e
  exact ⟨⟨pre ++ [a], by simp [hp]⟩, by simp [hp]⟩

/-- a reader excludes every writer -/
theorem GInv.reader_idle {g : Glob α K} (hg : GInv esc args progs v0 g) {t : Nat} (h : t ∈ g.readers) : g.writer = none := by
  cases hw : g.writer with
  | none => rfl
  | some w => have := hg.excl w hw; rw [this] at h; simp at h

theorem modeOf_r {g : Glob α K} (hg : GInv esc args progs v0 g) {t : Nat} : modeOf g t = .r ↔ t ∈ g.readers := by
  unfold modeOf
  constructor
  · intro h
    by_cases h1 : g.writer = some t
    · simp [h1] at h
    · by_cases h2 : t ∈ g.readers
      · exact h2
      · simp [h1, h2] at h
  · intro h
    have := hg.reader_idle h
    simp [this, h]

theorem modeOf_n {g : Glob α K} {t : Nat} : modeOf g t = .n ↔ g.writer ≠ some t ∧ t ∉ g.readers := by
  unfold modeOf
  by_cases h1 : g.writer = some t
  · simp [h1]
  · by_cases h2 : t ∈ g.readers <;> simp [h1, h2]

/-- under the read lock the current view is the published view the reader is linearised at -/
theorem cur_pub {g : Glob α K} (hg : GInv esc args progs v0 g) {t : Nat} {th : Thread α} (ht : TInv esc args progs g t th)
    (h : t ∈ g.readers) : g.pubs[th.lin]? = some (view g.sh) := by
  have h1 := hg.idle (hg.reader_idle h)
  rw [List.getLast?_eq_getElem?] at h1
  have h2 := ht.rd h
  have : g.pubs.length - 1 = th.lin := by omega
  rw [this] at h1
  exact h1

theorem aliasOk_cur {g : Glob α K} (hg : GInv esc args progs v0 g) {t : Nat} {th : Thread α} (ht : TInv esc args progs g t th)
    (h : t ∈ g.readers) : AliasOk esc g t th.lin g.sh.hdr := by
  refine ⟨view g.sh, cur_pub hg ht h, rfl, ?_, fun _ => h, fun e => ⟨hg.freshOk e, fun _ => Nat.le_refl _⟩⟩
  rw [(modeOf_r hg).2 h]; decide

/-! ### steps that change only the thread -/

/-- the head step is done: it changed nothing shared, and possibly recorded one observation -/
theorem TInv.advance {g : Glob α K} (_hg : GInv esc args progs v0 g) {t : Nat} {th : Thread α} (h : TInv esc args progs g t th)
    {a : Step} {r : List Step} (htodo : th.todo = a :: r)
    (hsafe : safe esc (modeOf g t) th.wrote th.av th.iav r = true)
    (heff : ∀ v, stepEffect a (args t) v = v) (hwalk : th.walk = none) (obs' : List (Obs α))
    (hobs : obs' = th.obs ∨ ∃ o, obs' = th.obs ++ [o] ∧ (th.wrote = false → o.ok = true) ∧
      (o.ok = true → ∃ v, g.pubs[o.at_]? = some v ∧ o.res = answer (args t) o.kv v) ∧ (a = .readIndex ∨ a = .readAlias)) :
    TInv esc args progs g t { th with todo := r, obs := obs' } := by
  have hsuf := suffix_tail h.suffix htodo
  refine
    { suffix := hsuf.1, safe_ := hsafe, wr := h.wr, wlock := h.wlock, dw := h.dw, rd := h.rd, iav_ := h.iav_, av_ := h.av_,
      walkHead := fun w hw => by simp [hwalk] at hw, walk_ := fun w hw => by simp [hwalk] at hw,
      walkOk := fun _ w hw => by simp [hwalk] at hw, obs_ := ?_, obsOk := ?_, obsKv := ?_, eff_ := ?_, crit := ?_ }
  · intro o ho hok
    rcases hobs with e | ⟨o', e, _, h2, _⟩
    · rw [e] at ho; exact h.obs_ o ho hok
    · rw [e] at ho
      rcases List.mem_append.1 ho with ho | ho
      · exact h.obs_ o ho hok
      · simp at ho; subst ho; exact h2 hok
  · intro hw o ho
    rcases hobs with e | ⟨o', e, h1, _⟩
    · rw [e] at ho; exact h.obsOk hw o ho
    · rw [e] at ho
      rcases List.mem_append.1 ho with ho | ho
      · exact h.obsOk hw o ho
      · simp at ho; subst ho; exact h1 hw
  · intro o ho hkv
    rcases hobs with e | ⟨o', e, _, _, h3⟩
    · rw [e] at ho; exact h.obsKv o ho hkv
    · rw [e] at ho
      rcases List.mem_append.1 ho with ho | ho
      · exact h.obsKv o ho hkv
      · rcases h3 with e3 | e3
        · left; rw [← e3]; exact hsuf.2
        · right; rw [← e3]; exact hsuf.2
  · intro hw v
    have := h.eff_ hw v
    rw [htodo] at this
    simpa [effect, heff] using this
  · intro e
    obtain ⟨h1, h2⟩ := h.crit e
    refine ⟨h1, fun last hl => ?_⟩
    have := h2 last hl
    rw [htodo] at this
    simpa [effect, heff] using this

/-- the head step is done: it changed nothing shared, and took copies -/
theorem TInv.advanceA {g : Glob α K} {t : Nat} {th : Thread α} (h : TInv esc args progs g t th)
    {a : Step} {r : List Step} (htodo : th.todo = a :: r) (ali' : Hdr) (av' : Bool) (iali' : Nat) (iav' : Bool)
    (hsafe : safe esc (modeOf g t) th.wrote av' iav' r = true)
    (heff : ∀ v, stepEffect a (args t) v = v) (hwalk : th.walk = none)
    (hav : av' = true → AliasOk esc g t th.lin ali') (hiav : iav' = true → modeOf g t ≠ .n ∧ iali' = g.sh.idx) :
    TInv esc args progs g t { th with todo := r, ali := ali', av := av', iali := iali', iav := iav' } := by
  have hsuf := suffix_tail h.suffix htodo
  refine
    { suffix := hsuf.1, safe_ := hsafe, wr := h.wr, wlock := h.wlock, dw := h.dw, rd := h.rd, iav_ := hiav, av_ := hav,
      walkHead := fun w hw => by simp [hwalk] at hw, walk_ := fun w hw => by simp [hwalk] at hw,
      walkOk := fun _ w hw => by simp [hwalk] at hw, obs_ := h.obs_, obsOk := h.obsOk, obsKv := h.obsKv, eff_ := ?_, crit := ?_ }
  · intro hw v
    have := h.eff_ hw v
    rw [htodo] at this
    simpa [effect, heff] using this
  · intro e
    obtain ⟨h1, h2⟩ := h.crit e
    refine ⟨h1, fun last hl => ?_⟩
    have := h2 last hl
    rw [htodo] at this
    simpa [effect, heff] using this

/-- a walk finishes: its result is recorded, the head step is done -/
theorem TInv.finishWalk {g : Glob α K} {t : Nat} {th : Thread α} (h : TInv esc args progs g t th)
    {a : Step} {r : List Step} (htodo : th.todo = a :: r)
    (hsafe : safe esc (modeOf g t) th.wrote th.av th.iav r = true)
    (heff : ∀ v, stepEffect a (args t) v = v) (o : Obs α) (hkv : o.kv = false) (hok : th.wrote = false → o.ok = true)
    (hres : o.ok = true → ∃ v, g.pubs[o.at_]? = some v ∧ o.res = answer (args t) o.kv v) :
    TInv esc args progs g t { th with todo := r, walk := none, obs := th.obs ++ [o] } := by
  have hsuf := suffix_tail h.suffix htodo
  refine
    { suffix := hsuf.1, safe_ := hsafe, wr := h.wr, wlock := h.wlock, dw := h.dw, rd := h.rd, iav_ := h.iav_, av_ := h.av_,
      walkHead := fun w hw => by simp at hw, walk_ := fun w hw => by simp at hw,
      walkOk := fun _ w hw => by simp at hw, obs_ := ?_, obsOk := ?_, obsKv := ?_, eff_ := ?_, crit := ?_ }
  · intro o' ho hok'
    rcases List.mem_append.1 ho with ho | ho
    · exact h.obs_ o' ho hok'
    · simp at ho; subst ho; exact hres hok'
  · intro hw o' ho
    rcases List.mem_append.1 ho with ho | ho
    · exact h.obsOk hw o' ho
    · simp at ho; subst ho; exact hok hw
  · intro o' ho hkv'
    rcases List.mem_append.1 ho with ho | ho
    · exact h.obsKv o' ho hkv'
    · simp at ho; subst ho; rw [hkv] at hkv'; cases hkv'
  · intro hw v
    have := h.eff_ hw v
    rw [htodo] at this
    simpa [effect, heff] using this
  · intro e
    obtain ⟨h1, h2⟩ := h.crit e
    refine ⟨h1, fun last hl => ?_⟩
    have := h2 last hl
    rw [htodo] at this
    simpa [effect, heff] using this

theorem walk_none_of_head {g : Glob α K} {t : Nat} {th : Thread α} (h : TInv esc args progs g t th) {a : Step} {r : List Step}
    (htodo : th.todo = a :: r) (h1 : a ≠ .walkRoutes) (h2 : a ≠ .walkAlias) : th.walk = none := by
  cases hw : th.walk with
  | none => rfl
  | some w =>
    obtain ⟨r', hr⟩ := h.walkHead w hw
    rw [htodo] at hr
    rcases hr with hr | hr <;> (simp only [List.cons.injEq] at hr; first | exact absurd hr.1 h1 | exact absurd hr.1 h2)

section steps
variable {c : Conf α K} {t : Nat} {r : List Step}

theorem step_other (hI : Inv esc args progs v0 c) (htodo : (c.th t).todo = .other :: r) :
    Inv esc args progs v0 (stepHead esc args c t .other r) := by
  have ht := hI.thr t
  have hs := ht.safe_
  rw [htodo] at hs
  simp only [safe] at hs
  exact inv_upd hI t _ (ht.advance hI.glob htodo hs (fun _ => rfl) (walk_none_of_head ht htodo (by decide) (by decide)) _ (Or.inl rfl))

/-- the steps the discipline rejects never run -/
theorem step_rejected (hI : Inv esc args progs v0 c) {a : Step} (htodo : (c.th t).todo = a :: r)
    (ha : a = .storeRoutes ∨ a = .inplaceRoutes ∨ a = .escape) : False := by
  have hs := (hI.thr t).safe_
  rw [htodo] at hs
  rcases ha with e | e | e <;> subst e <;> simp [safe] at hs

theorem step_readIndex (hI : Inv esc args progs v0 c) (htodo : (c.th t).todo = .readIndex :: r) :
    Inv esc args progs v0 (stepHead esc args c t .readIndex r) := by
  have ht := hI.thr t
  have hs := ht.safe_
  rw [htodo] at hs
  simp only [safe, Bool.and_eq_true, bne_iff_ne, ne_eq] at hs
  refine inv_upd hI t _ (ht.advance hI.glob htodo hs.2 (fun _ => rfl) (walk_none_of_head ht htodo (by decide) (by decide)) _
    (Or.inr ⟨_, rfl, ?_, ?_, Or.inl rfl⟩))
  · intro hw
    -- never been a writer: the mode is `r`
    have hnw : c.g.writer ≠ some t := fun e => by have := ht.wr e; rw [hw] at this; cases this
    have : t ∈ c.g.readers := by
      by_cases hr : t ∈ c.g.readers
      · exact hr
      · exact absurd (modeOf_n.2 ⟨hnw, hr⟩) hs.1
    simp [this]
  · intro hok
    simp only [decide_eq_true_eq] at hok
    exact ⟨view c.g.sh, cur_pub hI.glob ht hok, by simp [answer, view]⟩

theorem step_readAlias (hI : Inv esc args progs v0 c) (htodo : (c.th t).todo = .readAlias :: r) :
    Inv esc args progs v0 (stepHead esc args c t .readAlias r) := by
  have ht := hI.thr t
  have hs := ht.safe_
  rw [htodo] at hs
  simp only [safe, Bool.and_eq_true, bne_iff_ne, ne_eq] at hs
  have hia := (ht.iav_ hs.1.2).2
  refine inv_upd hI t _ (ht.advance hI.glob htodo hs.2 (fun _ => rfl) (walk_none_of_head ht htodo (by decide) (by decide)) _
    (Or.inr ⟨_, rfl, ?_, ?_, Or.inr rfl⟩))
  · intro hw
    have hnw : c.g.writer ≠ some t := fun e => by have := ht.wr e; rw [hw] at this; cases this
    have : t ∈ c.g.readers := by
      by_cases hr : t ∈ c.g.readers
      · exact hr
      · exact absurd (modeOf_n.2 ⟨hnw, hr⟩) hs.1.1
    simp [this, hs.1.2]
  · intro hok
    simp only [Bool.and_eq_true, decide_eq_true_eq] at hok
    exact ⟨view c.g.sh, cur_pub hI.glob ht hok.2, by simp [answer, view, hia]⟩

theorem step_aliasRoutes (hI : Inv esc args progs v0 c) (htodo : (c.th t).todo = .aliasRoutes :: r) :
    Inv esc args progs v0 (stepHead esc args c t .aliasRoutes r) := by
  have ht := hI.thr t
  have hs := ht.safe_
  rw [htodo] at hs
  simp only [safe, Bool.and_eq_true, beq_iff_eq] at hs
  have hr : t ∈ c.g.readers := (modeOf_r hI.glob).1 hs.1
  have hd : decide (t ∈ c.g.readers) = true := by simp [hr]
  refine inv_upd hI t _ ?_
  have := ht.advanceA htodo c.g.sh.hdr (decide (t ∈ c.g.readers)) (c.th t).iali (c.th t).iav (by rw [hd]; exact hs.2) (fun _ => rfl)
    (walk_none_of_head ht htodo (by decide) (by decide)) (fun _ => aliasOk_cur hI.glob ht hr) ht.iav_
  exact this

theorem step_aliasIndex (hI : Inv esc args progs v0 c) (htodo : (c.th t).todo = .aliasIndex :: r) :
    Inv esc args progs v0 (stepHead esc args c t .aliasIndex r) := by
  have ht := hI.thr t
  have hs := ht.safe_
  rw [htodo] at hs
  simp only [safe, Bool.and_eq_true, bne_iff_ne, ne_eq] at hs
  have hd : (decide (t ∈ c.g.readers) || decide (c.g.writer = some t)) = true := by
    by_cases h1 : c.g.writer = some t
    · simp [h1]
    · by_cases h2 : t ∈ c.g.readers
      · simp [h2]
      · exact absurd (modeOf_n.2 ⟨h1, h2⟩) hs.1
  refine inv_upd hI t _ ?_
  have := ht.advanceA htodo (c.th t).ali (c.th t).av c.g.sh.idx (decide (t ∈ c.g.readers) || decide (c.g.writer = some t))
    (by rw [hd]; exact hs.2) (fun _ => rfl) (walk_none_of_head ht htodo (by decide) (by decide)) ht.av_ (fun _ => ⟨hs.1, rfl⟩)
  exact this

/-- one step of a walk (start, one cell, finish) over a header that — when claimed valid — denotes the reader's view -/
theorem step_walk (hI : Inv esc args progs v0 c) {a : Step} (htodo : (c.th t).todo = a :: r)
    (ha : a = .walkRoutes ∨ a = .walkAlias) (src : Hdr) (valid : Bool)
    (hsafe : safe esc (modeOf c.g t) (c.th t).wrote (c.th t).av (c.th t).iav r = true)
    (hstart : valid = true → AliasOk esc c.g t (c.th t).lin src) (hvalid : (c.th t).wrote = false → valid = true) :
    Inv esc args progs v0 (walkStep args c t r src valid) := by
  have ht := hI.thr t
  have heff : ∀ v, stepEffect a (args t) v = v := by rcases ha with e | e <;> subst e <;> intro v <;> rfl
  cases hw : (c.th t).walk with
  | none =>
    simp only [walkStep, hw]
    refine inv_upd hI t _ ?_
    refine
      { suffix := ht.suffix, safe_ := ht.safe_, wr := ht.wr, wlock := ht.wlock, dw := ht.dw, rd := ht.rd, iav_ := ht.iav_,
        av_ := ht.av_, walkHead := fun w _ => ⟨r, by rcases ha with e | e <;> subst e <;> simp [htodo]⟩,
        walk_ := ?_, walkOk := ?_, obs_ := ht.obs_, obsOk := ht.obsOk, obsKv := ht.obsKv, eff_ := ht.eff_, crit := ht.crit }
    · intro w hw' hok
      simp only [Option.some.injEq] at hw'
      subst hw'
      exact ⟨hstart hok, fun v _ => by simp [lim_nil]⟩
    · intro hwr w hw'
      simp only [Option.some.injEq] at hw'
      subst hw'
      exact hvalid hwr
  | some w =>
    simp only [walkStep, hw]
    -- the walk finishes
    have hfin : ∀ (hstop : w.ok = true → ∀ v, c.g.pubs[(c.th t).lin]? = some v →
          v.1.length ≤ w.i ∨ ((args t).first && !(lim (args t).first ((v.1.take w.i).filter (args t).mt)).isEmpty) = true),
        Inv esc args progs v0
          (upd c t { c.th t with todo := r, walk := none, obs := (c.th t).obs ++ [⟨w.acc, false, w.ok, (c.th t).lin⟩] }) := by
      intro hstop
      refine inv_upd hI t _ (ht.finishWalk htodo hsafe heff _ rfl (fun hwr => ht.walkOk hwr w hw) ?_)
      intro hok
      obtain ⟨⟨v, hv, _⟩, hacc⟩ := ht.walk_ w hw hok
      refine ⟨v, hv, ?_⟩
      simp only [answer, Bool.false_eq_true, if_false]
      rw [hacc v hv]
      exact lim_filter_done _ _ _ _ (hstop hok v hv)
    by_cases hc : (decide (w.i < w.h.len) && !((args t).first && !w.acc.isEmpty)) = true
    · rw [if_pos hc]
      simp only [Bool.and_eq_true, decide_eq_true_eq, Bool.not_eq_true'] at hc
      cases hx : (c.g.sh.heap w.h.ptr)[w.i]? with
      | some x =>
        simp only
        refine inv_upd hI t _ ?_
        refine
          { suffix := ht.suffix, safe_ := ht.safe_, wr := ht.wr, wlock := ht.wlock, dw := ht.dw, rd := ht.rd, iav_ := ht.iav_,
            av_ := ht.av_, walkHead := fun w' _ => ⟨r, by rcases ha with e | e <;> subst e <;> simp [htodo]⟩,
            walk_ := ?_, walkOk := ?_, obs_ := ht.obs_, obsOk := ht.obsOk, obsKv := ht.obsKv, eff_ := ht.eff_, crit := ht.crit }
        · intro w' hw' hok
          simp only [Option.some.injEq] at hw'
          subst hw'
          simp only at hok
          obtain ⟨hal, hacc⟩ := ht.walk_ w hw hok
          refine ⟨hal, fun v hv => ?_⟩
          obtain ⟨v1, hv1, htk, _⟩ := hal
          rw [hv] at hv1
          cases hv1
          have hcell : v.1[w.i]? = some x := by
            rw [← htk, List.getElem?_take, if_pos hc.1]; exact hx
          have hgo : ((args t).first && !(lim (args t).first ((v.1.take w.i).filter (args t).mt)).isEmpty) = false := by
            rw [← hacc v hv]; exact hc.2
          simp only
          rw [lim_filter_step _ _ _ _ _ hcell hgo, ← hacc v hv]
        · intro hwr w' hw'
          simp only [Option.some.injEq] at hw'
          subst hw'
          exact ht.walkOk hwr w hw
      | none =>
        simp only
        refine hfin (fun hok v hv => Or.inl ?_)
        obtain ⟨⟨v1, hv1, htk, _⟩, _⟩ := ht.walk_ w hw hok
        rw [hv] at hv1
        cases hv1
        rw [← htk]
        have := List.getElem?_eq_none_iff.1 hx
        exact Nat.le_trans (List.length_take_le' _ _) this
    · rw [if_neg hc]
      refine hfin (fun hok v hv => ?_)
      obtain ⟨⟨v1, hv1, htk, _⟩, hacc⟩ := ht.walk_ w hw hok
      rw [hv] at hv1
      cases hv1
      simp only [Bool.and_eq_true, decide_eq_true_eq, Bool.not_eq_true', not_and, Bool.not_eq_false] at hc
      by_cases hlt : w.i < w.h.len
      · right
        rw [← hacc v hv]
        simpa using hc hlt
      · left
        rw [← htk]
        exact Nat.le_trans (List.length_take_le _ _) (Nat.le_of_not_lt hlt)

theorem step_walkRoutes (hI : Inv esc args progs v0 c) (htodo : (c.th t).todo = .walkRoutes :: r) :
    Inv esc args progs v0 (stepHead esc args c t .walkRoutes r) := by
  have ht := hI.thr t
  have hs := ht.safe_
  rw [htodo] at hs
  simp only [safe, Bool.and_eq_true, bne_iff_ne, ne_eq] at hs
  refine step_walk hI htodo (Or.inl rfl) _ _ hs.2 (fun hv => aliasOk_cur hI.glob ht (by simpa using hv)) (fun hwr => ?_)
  have hnw : c.g.writer ≠ some t := fun e => by have := ht.wr e; rw [hwr] at this; cases this
  by_cases hr : t ∈ c.g.readers
  · simp [hr]
  · exact absurd (modeOf_n.2 ⟨hnw, hr⟩) hs.1

theorem step_walkAlias (hI : Inv esc args progs v0 c) (htodo : (c.th t).todo = .walkAlias :: r) :
    Inv esc args progs v0 (stepHead esc args c t .walkAlias r) := by
  have ht := hI.thr t
  have hs := ht.safe_
  rw [htodo] at hs
  simp only [safe, Bool.and_eq_true] at hs
  exact step_walk hI htodo (Or.inr rfl) _ _ hs.2 ht.av_ (fun _ => hs.1)

/-- a write by the holder of the write lock -/
theorem step_write (hI : Inv esc args progs v0 c) {a : Step} (htodo : (c.th t).todo = a :: r)
    (ha1 : a ≠ .walkRoutes) (ha2 : a ≠ .walkAlias) (hw : c.g.writer = some t) (sh' : Shared α K) (iav' : Bool)
    (hview : view sh' = stepEffect a (args t) (view c.g.sh))
    (hsafe : safe esc .w (c.th t).wrote (c.th t).av iav' r = true)
    (hiav : iav' = true → (c.th t).iav = true ∧ sh'.idx = c.g.sh.idx)
    (hfro : esc = true → sh'.hdr.ptr < sh'.fresh ∧
      ∀ h, Frozen c.g.sh h → Frozen sh' h ∧ (sh'.heap h.ptr).take h.len = (c.g.sh.heap h.ptr).take h.len) :
    Inv esc args progs v0 ⟨{ c.g with sh := sh' }, setThread c.th t { c.th t with todo := r, iav := iav' }⟩ := by
  have ht := hI.thr t
  have hg := hI.glob
  have hrd : c.g.readers = [] := hg.excl t hw
  have hmw : modeOf c.g t = .w := modeOf_w.2 hw
  refine inv_mk hI t _ _ ?_ ?_ ?_
  · exact { idle := fun e => by simp [hw] at e, excl := hg.excl, nodupR := hg.nodupR, freshOk := fun e => (hfro e).1,
            nodupD := hg.nodupD, ser := hg.ser }
  · have hsuf := suffix_tail ht.suffix htodo
    have hwalk := walk_none_of_head ht htodo ha1 ha2
    have hm' : modeOf ({ c.g with sh := sh' } : Glob α K) t = .w := modeOf_w.2 hw
    refine
      { suffix := hsuf.1, safe_ := by rw [hm']; exact hsafe, wr := ht.wr, wlock := ht.wlock, dw := ht.dw, rd := ht.rd,
        iav_ := fun e => ⟨by rw [hm']; decide, by rw [(ht.iav_ (hiav e).1).2]; exact (hiav e).2.symm⟩,
        av_ := fun e => by obtain ⟨_, _, _, h3, _⟩ := ht.av_ e; exact absurd hmw h3,
        walkHead := fun w hw' => by simp [hwalk] at hw', walk_ := fun w hw' => by simp [hwalk] at hw',
        walkOk := fun _ w hw' => by simp [hwalk] at hw', obs_ := ht.obs_, obsOk := ht.obsOk, obsKv := ht.obsKv,
        eff_ := fun e => (by have := ht.wr hw; rw [e] at this; cases this), crit := ?_ }
    intro _
    obtain ⟨h1, h2⟩ := ht.crit hw
    refine ⟨h1, fun last hl => ?_⟩
    have := h2 last hl
    rw [htodo] at this
    simp only [effect] at this
    show effect r (args t) (view sh') = _
    rw [hview]; exact this
  · intro u hu hu'
    have hnu : c.g.writer ≠ some u := by rw [hw]; intro e; cases e; exact hu rfl
    have hmu : modeOf c.g u = .n := modeOf_n.2 ⟨hnu, by rw [hrd]; simp⟩
    refine hu'.frame Iff.rfl Iff.rfl Iff.rfl (fun _ => rfl) (fun e => absurd hmu e) ?_ (fun _ _ e => e) (fun e => absurd e hnu)
    intro lin hh ⟨v, hv, htk, hm, h1, h2⟩
    cases hesc : esc with
    | false => have := h1 hesc; rw [hrd] at this; simp at this
    | true =>
      obtain ⟨_, hf⟩ := hfro hesc
      obtain ⟨hf1, hf2⟩ := hf hh (h2 hesc)
      exact ⟨v, hv, (by show (sh'.heap hh.ptr).take hh.len = v.1; rw [hf2]; exact htk), hm, fun e => (by cases e), fun _ => hf1⟩

theorem step_resetRoutes (hI : Inv esc args progs v0 c) (htodo : (c.th t).todo = .resetRoutes :: r) :
    Inv esc args progs v0 (stepHead esc args c t .resetRoutes r) := by
  have hs := (hI.thr t).safe_
  rw [htodo] at hs
  simp only [safe, Bool.and_eq_true, beq_iff_eq, Bool.not_eq_true'] at hs
  have hm : modeOf c.g t = .w := hs.1.1
  rw [hm] at hs
  exact step_write hI htodo (by decide) (by decide) (modeOf_w.1 hm) (resetRoutes c.g.sh) (c.th t).iav
    (view_resetRoutes _) hs.2 (fun e => ⟨e, rfl⟩) (fun e => by rw [hs.1.2] at e; cases e)

theorem step_freshRoutes (hI : Inv esc args progs v0 c) (htodo : (c.th t).todo = .freshRoutes :: r) :
    Inv esc args progs v0 (stepHead esc args c t .freshRoutes r) := by
  have hs := (hI.thr t).safe_
  rw [htodo] at hs
  simp only [safe, Bool.and_eq_true, beq_iff_eq] at hs
  have hm : modeOf c.g t = .w := hs.1
  rw [hm] at hs
  exact step_write hI htodo (by decide) (by decide) (modeOf_w.1 hm) (freshRoutes c.g.sh) (c.th t).iav
    (view_freshRoutes _) hs.2 (fun e => ⟨e, rfl⟩)
    (fun _ => ⟨by simp [freshRoutes], fun h hz => frozen_freshRoutes _ h hz⟩)

theorem step_appendRoutes (hI : Inv esc args progs v0 c) (htodo : (c.th t).todo = .appendRoutes :: r) :
    Inv esc args progs v0 (stepHead esc args c t .appendRoutes r) := by
  have ht := hI.thr t
  have hs := ht.safe_
  rw [htodo] at hs
  simp only [safe, Bool.and_eq_true, beq_iff_eq] at hs
  have hm : modeOf c.g t = .w := hs.1
  cases hx : (args t).route with
  | none =>
    simp only [stepHead, hx]
    exact inv_upd hI t _ (ht.advance hI.glob htodo hs.2 (fun v => by simp [stepEffect, hx])
      (walk_none_of_head ht htodo (by decide) (by decide)) _ (Or.inl rfl))
  | some x =>
    simp only [stepHead, hx]
    rw [hm] at hs
    exact step_write hI htodo (by decide) (by decide) (modeOf_w.1 hm) (appendRoute c.g.sh x) (c.th t).iav
      (by rw [view_appendRoute]; simp [stepEffect, hx]) hs.2
      (fun e => ⟨e, by by_cases hc : c.g.sh.hdr.len < (c.g.sh.heap c.g.sh.hdr.ptr).length <;> simp [appendRoute, hc]⟩)
      (fun e => ⟨fresh_appendRoute _ _ (hI.glob.freshOk e), fun h hz => frozen_appendRoute _ _ h hz⟩)

theorem step_freshIndex (hI : Inv esc args progs v0 c) (htodo : (c.th t).todo = .freshIndex :: r) :
    Inv esc args progs v0 (stepHead esc args c t .freshIndex r) := by
  have hs := (hI.thr t).safe_
  rw [htodo] at hs
  simp only [safe, Bool.and_eq_true, beq_iff_eq] at hs
  have hm : modeOf c.g t = .w := hs.1
  rw [hm] at hs
  exact step_write hI htodo (by decide) (by decide) (modeOf_w.1 hm) (freshIndex c.g.sh) false
    (view_freshIndex _) hs.2 (fun e => by cases e)
    (fun e => ⟨hI.glob.freshOk e, fun h hz => ⟨hz, rfl⟩⟩)

/-- `m[k] = r` on the current map object -/
theorem step_put (hI : Inv esc args progs v0 c) {a : Step} (htodo : (c.th t).todo = a :: r) (ha : a = .putIndex ∨ a = .putAlias)
    (hm : modeOf c.g t = .w) (hsafe : safe esc .w (c.th t).wrote (c.th t).av (c.th t).iav r = true) (x : α) (k : K)
    (hx : (args t).route = some x) (hk : (args t).key = some k) :
    Inv esc args progs v0 ⟨{ c.g with sh := putAt c.g.sh c.g.sh.idx k x }, setThread c.th t { c.th t with todo := r }⟩ := by
  refine step_write hI htodo (by rcases ha with e | e <;> subst e <;> decide) (by rcases ha with e | e <;> subst e <;> decide)
    (modeOf_w.1 hm) (putAt c.g.sh c.g.sh.idx k x) (c.th t).iav ?_ hsafe (fun e => ⟨e, rfl⟩)
    (fun e => ⟨hI.glob.freshOk e, fun h hz => ⟨hz, rfl⟩⟩)
  rw [view_putAt]
  rcases ha with e | e <;> subst e <;> simp [stepEffect, hx, hk]

theorem step_putIndex (hI : Inv esc args progs v0 c) (htodo : (c.th t).todo = .putIndex :: r) :
    Inv esc args progs v0 (stepHead esc args c t .putIndex r) := by
  have ht := hI.thr t
  have hs := ht.safe_
  rw [htodo] at hs
  simp only [safe, Bool.and_eq_true, beq_iff_eq] at hs
  have hm : modeOf c.g t = .w := hs.1
  cases hx : (args t).route with
  | none =>
    simp only [stepHead, hx]
    exact inv_upd hI t _ (ht.advance hI.glob htodo hs.2 (fun v => by simp [stepEffect, hx])
      (walk_none_of_head ht htodo (by decide) (by decide)) _ (Or.inl rfl))
  | some x =>
    cases hk : (args t).key with
    | none =>
      simp only [stepHead, hx, hk]
      exact inv_upd hI t _ (ht.advance hI.glob htodo hs.2 (fun v => by simp [stepEffect, hx, hk])
        (walk_none_of_head ht htodo (by decide) (by decide)) _ (Or.inl rfl))
    | some k =>
      simp only [stepHead, hx, hk]
      rw [hm] at hs
      exact step_put hI htodo (Or.inl rfl) hm hs.2 x k hx hk

theorem step_putAlias (hI : Inv esc args progs v0 c) (htodo : (c.th t).todo = .putAlias :: r) :
    Inv esc args progs v0 (stepHead esc args c t .putAlias r) := by
  have ht := hI.thr t
  have hs := ht.safe_
  rw [htodo] at hs
  simp only [safe, Bool.and_eq_true, beq_iff_eq] at hs
  have hm : modeOf c.g t = .w := hs.1.1
  cases hx : (args t).route with
  | none =>
    simp only [stepHead, hx]
    exact inv_upd hI t _ (ht.advance hI.glob htodo hs.2 (fun v => by simp [stepEffect, hx])
      (walk_none_of_head ht htodo (by decide) (by decide)) _ (Or.inl rfl))
  | some x =>
    cases hk : (args t).key with
    | none =>
      simp only [stepHead, hx, hk]
      exact inv_upd hI t _ (ht.advance hI.glob htodo hs.2 (fun v => by simp [stepEffect, hx, hk])
        (walk_none_of_head ht htodo (by decide) (by decide)) _ (Or.inl rfl))
    | some k =>
      simp only [stepHead, hx, hk]
      have e : putAt c.g.sh (c.th t).iali k x = putAt c.g.sh c.g.sh.idx k x := by rw [(ht.iav_ hs.1.2).2]
      rw [e]
      rw [hm] at hs
      exact step_put hI htodo (Or.inr rfl) hm hs.2 x k hx hk

/-- `AliasOk` survives a change of the globals that keeps the shared state, the published views, the thread's mode and its
membership in the readers -/
theorem AliasOk.frame {g g' : Glob α K} {u : Nat} {lin : Nat} {hh : Hdr} (h : AliasOk esc g u lin hh)
    (hsh : g'.sh = g.sh) (hpub : ∀ (i : Nat) v, g.pubs[i]? = some v → g'.pubs[i]? = some v)
    (hm : modeOf g' u ≠ .w) (hr : u ∈ g.readers → u ∈ g'.readers) : AliasOk esc g' u lin hh := by
  obtain ⟨v, hv, htk, _, h1, h2⟩ := h
  exact ⟨v, hpub _ _ hv, by rw [hsh]; exact htk, hm, fun e => hr (h1 e), fun e => by rw [hsh]; exact h2 e⟩

theorem pubs_mono (l : List (View α K)) (x : View α K) (i : Nat) (v : View α K) (h : l[i]? = some v) : (l ++ [x])[i]? = some v := by
  have hi : i < l.length := by
    rcases List.getElem?_eq_some_iff.1 h with ⟨hi, _⟩
    exact hi
  rw [List.getElem?_append_left hi]; exact h

theorem step_lock (hI : Inv esc args progs v0 c) (htodo : (c.th t).todo = .lock :: r) :
    Inv esc args progs v0 (stepHead esc args c t .lock r) := by
  have ht := hI.thr t
  have hg := hI.glob
  have hs := ht.safe_
  rw [htodo] at hs
  simp only [safe, Bool.and_eq_true, beq_iff_eq, Bool.not_eq_true'] at hs
  by_cases hc : c.g.writer = none ∧ c.g.readers = []
  · simp only [stepHead]
    rw [if_pos hc]
    have hsuf := suffix_tail ht.suffix htodo
    have hwalk := walk_none_of_head ht htodo (by decide) (by decide)
    refine inv_mk hI t _ _ ?_ ?_ ?_
    · exact { idle := fun e => by simp at e, excl := fun _ _ => hc.2, nodupR := hg.nodupR, freshOk := hg.freshOk,
              nodupD := hg.nodupD, ser := hg.ser }
    · have hm' : modeOf ({ c.g with writer := some t } : Glob α K) t = .w := modeOf_w.2 rfl
      refine
        { suffix := hsuf.1, safe_ := by rw [hm']; exact hs.2, wr := fun _ => rfl, wlock := fun _ => hsuf.2, dw := fun _ => rfl,
          rd := fun e => by rw [hc.2] at e; simp at e, iav_ := fun e => by simp at e, av_ := fun e => by simp at e,
          walkHead := fun w hw' => by simp [hwalk] at hw', walk_ := fun w hw' => by simp [hwalk] at hw',
          walkOk := fun _ w hw' => by simp [hwalk] at hw', obs_ := ht.obs_, obsOk := fun e => by simp at e, obsKv := ht.obsKv,
          eff_ := fun e => by simp at e, crit := ?_ }
      intro _
      refine ⟨fun e => (by have := ht.dw e; rw [hs.1.2] at this; cases this), fun last hl => ?_⟩
      have hid := hg.idle hc.1
      rw [hid] at hl
      cases hl
      have := ht.eff_ hs.1.2 (view c.g.sh)
      rw [htodo] at this
      simpa [effect, stepEffect] using this
    · intro u hu hu'
      have hwu : (some t = some u) ↔ c.g.writer = some u := by
        rw [hc.1]; constructor
        · intro e; cases e; exact absurd rfl hu
        · intro e; cases e
      refine hu'.frame hwu Iff.rfl Iff.rfl (fun _ => rfl) (fun _ => rfl) ?_ (fun _ _ e => e) (fun e => by rw [hc.1] at e; cases e)
      intro lin hh ha
      refine ha.frame rfl (fun _ _ e => e) (fun e => ?_) (fun e => e)
      have := modeOf_w.1 e
      simp only [Option.some.injEq] at this
      exact hu this.symm
  · simp only [stepHead]
    rw [if_neg hc]
    exact hI

theorem step_unlock (hI : Inv esc args progs v0 c) (htodo : (c.th t).todo = .unlock :: r) :
    Inv esc args progs v0 (stepHead esc args c t .unlock r) := by
  have ht := hI.thr t
  have hg := hI.glob
  have hs := ht.safe_
  rw [htodo] at hs
  simp only [safe, Bool.and_eq_true, beq_iff_eq] at hs
  have hw : c.g.writer = some t := modeOf_w.1 hs.1
  have hrd : c.g.readers = [] := hg.excl t hw
  simp only [stepHead]
  rw [if_pos hw]
  have hsuf := suffix_tail ht.suffix htodo
  have hwalk := walk_none_of_head ht htodo (by decide) (by decide)
  have hwr := ht.wr hw
  obtain ⟨hnd, hcr⟩ := ht.crit hw
  refine inv_mk hI t _ _ ?_ ?_ ?_
  · refine { idle := fun _ => List.getLast?_concat, excl := fun w e => by simp at e, nodupR := hg.nodupR, freshOk := hg.freshOk,
             nodupD := ?_, ser := ?_ }
    · exact List.nodup_append.2 ⟨hg.nodupD, by simp, fun a ha b hb => by simp at hb; subst hb; intro e; subst e; exact hnd ha⟩
    · show c.g.pubs ++ [view c.g.sh] = _
      rw [serialPubs_append, ← hg.ser]
      congr 2
      cases hl : c.g.pubs.getLast? with
      | none =>
        rw [List.getLast?_eq_none_iff] at hl
        exact absurd (hg.ser ▸ hl) (serialPubs_ne_nil _ _ _)
      | some last =>
        have := hcr last hl
        rw [htodo] at this
        simp only [effect, stepEffect] at this
        rw [effect_id_of_safe esc (args t) r .n false false (by decide) (hwr ▸ hs.2)] at this
        simpa using this
  · have hm' : modeOf ({ c.g with writer := none, pubs := c.g.pubs ++ [view c.g.sh], done := c.g.done ++ [t] } : Glob α K) t = .n :=
      modeOf_n.2 ⟨by simp, by simp [hrd]⟩
    refine
      { suffix := hsuf.1, safe_ := by rw [hm']; exact hs.2, wr := fun e => by simp at e, wlock := ht.wlock, dw := fun _ => hwr,
        rd := fun e => by simp [hrd] at e, iav_ := fun e => by simp at e, av_ := fun e => by simp at e,
        walkHead := fun w hw' => by simp [hwalk] at hw', walk_ := fun w hw' => by simp [hwalk] at hw',
        walkOk := fun _ w hw' => by simp [hwalk] at hw', obs_ := ?_, obsOk := fun e => by simp [hwr] at e, obsKv := ht.obsKv,
        eff_ := fun e => by simp [hwr] at e, crit := fun e => by simp at e }
    intro o ho hok
    obtain ⟨v, hv, hres⟩ := ht.obs_ o ho hok
    exact ⟨v, pubs_mono _ _ _ _ hv, hres⟩
  · intro u hu hu'
    have hwu : (none = some u) ↔ c.g.writer = some u := by
      rw [hw]; constructor
      · intro e; cases e
      · intro e; cases e; exact absurd rfl hu
    refine hu'.frame hwu Iff.rfl ?_ (fun e => by rw [hrd] at e; simp at e) (fun _ => rfl) ?_ (pubs_mono _ _)
      (fun e => by rw [hw] at e; cases e; exact absurd rfl hu)
    · simp [hu]
    · intro lin hh ha
      refine ha.frame rfl (pubs_mono _ _) (fun e => ?_) (fun e => e)
      have := modeOf_w.1 e
      simp at this

theorem step_rlock (hI : Inv esc args progs v0 c) (htodo : (c.th t).todo = .rlock :: r) :
    Inv esc args progs v0 (stepHead esc args c t .rlock r) := by
  have ht := hI.thr t
  have hg := hI.glob
  have hs := ht.safe_
  rw [htodo] at hs
  simp only [safe, Bool.and_eq_true, beq_iff_eq] at hs
  have hmn := modeOf_n.1 hs.1
  by_cases hc : c.g.writer = none
  · simp only [stepHead]
    rw [if_pos hc]
    have hsuf := suffix_tail ht.suffix htodo
    have hwalk := walk_none_of_head ht htodo (by decide) (by decide)
    refine inv_mk hI t _ _ ?_ ?_ ?_
    · exact { idle := hg.idle, excl := fun w e => (by rw [hc] at e; cases e), nodupR := List.nodup_cons.2 ⟨hmn.2, hg.nodupR⟩,
              freshOk := hg.freshOk, nodupD := hg.nodupD, ser := hg.ser }
    · have hg' : GInv esc args progs v0 ({ c.g with readers := t :: c.g.readers } : Glob α K) :=
        { idle := hg.idle, excl := fun w e => (by rw [hc] at e; cases e), nodupR := List.nodup_cons.2 ⟨hmn.2, hg.nodupR⟩,
          freshOk := hg.freshOk, nodupD := hg.nodupD, ser := hg.ser }
      have hm' : modeOf ({ c.g with readers := t :: c.g.readers } : Glob α K) t = .r := (modeOf_r hg').2 (by simp)
      have hne : c.g.pubs ≠ [] := by
        intro e
        have := hg.idle hc
        rw [e] at this
        simp at this
      refine
        { suffix := hsuf.1, safe_ := by rw [hm']; exact hs.2, wr := fun e => absurd e hmn.1, wlock := ht.wlock, dw := ht.dw,
          rd := fun _ => ?_, iav_ := fun e => by simp at e, av_ := fun e => by simp at e,
          walkHead := fun w hw' => by simp [hwalk] at hw', walk_ := fun w hw' => by simp [hwalk] at hw',
          walkOk := fun _ w hw' => by simp [hwalk] at hw', obs_ := ht.obs_, obsOk := ht.obsOk, obsKv := ht.obsKv, eff_ := ?_,
          crit := fun e => absurd e hmn.1 }
      · show c.g.pubs.length - 1 + 1 = c.g.pubs.length
        have := List.length_pos_iff.2 hne
        omega
      · intro hw v
        have := ht.eff_ hw v
        rw [htodo] at this
        simpa [effect, stepEffect] using this
    · intro u hu hu'
      have hru : u ∈ t :: c.g.readers ↔ u ∈ c.g.readers := by simp [hu]
      refine hu'.frame Iff.rfl hru Iff.rfl (fun _ => rfl) (fun _ => rfl) ?_ (fun _ _ e => e) (fun _ => ⟨rfl, rfl⟩)
      intro lin hh ha
      refine ha.frame rfl (fun _ _ e => e) (fun e => ?_) (fun e => hru.2 e)
      have h1 := modeOf_w.1 e
      obtain ⟨_, _, _, h3, _⟩ := ha
      exact h3 (modeOf_w.2 h1)
  · simp only [stepHead]
    rw [if_neg hc]
    exact hI

theorem step_runlock (hI : Inv esc args progs v0 c) (htodo : (c.th t).todo = .runlock :: r) :
    Inv esc args progs v0 (stepHead esc args c t .runlock r) := by
  have ht := hI.thr t
  have hg := hI.glob
  have hs := ht.safe_
  rw [htodo] at hs
  simp only [safe, Bool.and_eq_true, beq_iff_eq] at hs
  have hr : t ∈ c.g.readers := (modeOf_r hg).1 hs.1
  have hwn : c.g.writer = none := hg.reader_idle hr
  simp only [stepHead]
  have hsuf := suffix_tail ht.suffix htodo
  have hwalk := walk_none_of_head ht htodo (by decide) (by decide)
  have hnot : t ∉ c.g.readers.erase t := hg.nodupR.not_mem_erase
  have hm' : modeOf ({ c.g with readers := c.g.readers.erase t } : Glob α K) t = .n :=
    modeOf_n.2 ⟨by rw [hwn]; simp, hnot⟩
  refine inv_mk hI t _ _ ?_ ?_ ?_
  · exact { idle := hg.idle, excl := fun w e => (by rw [hwn] at e; cases e), nodupR := hg.nodupR.erase t,
            freshOk := hg.freshOk, nodupD := hg.nodupD, ser := hg.ser }
  · refine
      { suffix := hsuf.1, safe_ := by rw [hm']; exact hs.2, wr := fun e => (by rw [hwn] at e; cases e), wlock := ht.wlock, dw := ht.dw,
        rd := fun e => absurd e hnot, iav_ := fun e => by simp at e, av_ := ?_,
        walkHead := fun w hw' => by simp [hwalk] at hw', walk_ := fun w hw' => by simp [hwalk] at hw',
        walkOk := fun _ w hw' => by simp [hwalk] at hw', obs_ := ht.obs_, obsOk := ht.obsOk, obsKv := ht.obsKv, eff_ := ?_,
        crit := fun e => by rw [hwn] at e; cases e }
    · intro e
      simp only [Bool.and_eq_true] at e
      obtain ⟨v, hv, htk, _, _, h2⟩ := ht.av_ e.2
      exact ⟨v, hv, htk, by rw [hm']; decide, fun e' => (by rw [e.1] at e'; cases e'), h2⟩
    · intro hw v
      have := ht.eff_ hw v
      rw [htodo] at this
      simpa [effect, stepEffect] using this
  · intro u hu hu'
    have hru : u ∈ c.g.readers.erase t ↔ u ∈ c.g.readers := List.mem_erase_of_ne hu
    refine hu'.frame Iff.rfl hru Iff.rfl (fun _ => rfl) (fun _ => rfl) ?_ (fun _ _ e => e) (fun _ => ⟨rfl, rfl⟩)
    intro lin hh ha
    refine ha.frame rfl (fun _ _ e => e) (fun e => ?_) (fun e => hru.2 e)
    have h1 := modeOf_w.1 e
    obtain ⟨_, _, _, h3, _⟩ := ha
    exact h3 (modeOf_w.2 h1)

end steps

/-- **every step of every thread preserves the invariant** -/
theorem inv_step {c : Conf α K} (hI : Inv esc args progs v0 c) (t : Nat) : Inv esc args progs v0 (stepThread esc args c t) := by
  unfold stepThread
  cases htodo : (c.th t).todo with
  | nil => exact hI
  | cons a r =>
    simp only
    cases a with
    | lock => exact step_lock hI htodo
    | unlock => exact step_unlock hI htodo
    | rlock => exact step_rlock hI htodo
    | runlock => exact step_runlock hI htodo
    | walkRoutes => exact step_walkRoutes hI htodo
    | aliasRoutes => exact step_aliasRoutes hI htodo
    | walkAlias => exact step_walkAlias hI htodo
    | resetRoutes => exact step_resetRoutes hI htodo
    | appendRoutes => exact step_appendRoutes hI htodo
    | storeRoutes => exact (step_rejected hI htodo (Or.inl rfl)).elim
    | inplaceRoutes => exact (step_rejected hI htodo (Or.inr (Or.inl rfl))).elim
    | freshRoutes => exact step_freshRoutes hI htodo
    | readIndex => exact step_readIndex hI htodo
    | aliasIndex => exact step_aliasIndex hI htodo
    | readAlias => exact step_readAlias hI htodo
    | putIndex => exact step_putIndex hI htodo
    | putAlias => exact step_putAlias hI htodo
    | freshIndex => exact step_freshIndex hI htodo
    | escape => exact (step_rejected hI htodo (Or.inr (Or.inr rfl))).elim
    | other => exact step_other hI htodo

theorem inv_run {c : Conf α K} (hI : Inv esc args progs v0 c) (sched : List Nat) :
    Inv esc args progs v0 (runSched esc args c sched) := by
  induction sched generalizing c with
  | nil => exact hI
  | cons t r ih => exact ih (inv_step hI t)

/-- the start: every program has the discipline -/
theorem inv_init (s0 : Shared α K) (hsafe : ∀ t, safe esc .n false false false (progs t) = true)
    (hfresh : esc = true → s0.hdr.ptr < s0.fresh) : Inv esc args progs (view s0) (initConf progs s0) := by
  refine ⟨?_, fun t => ?_⟩
  · exact { idle := fun _ => rfl, excl := fun w e => by simp [initConf] at e, nodupR := by simp [initConf],
            freshOk := hfresh, nodupD := by simp [initConf], ser := rfl }
  · have hm : modeOf (initConf (α := α) (K := K) progs s0).g t = .n := modeOf_n.2 ⟨by simp [initConf], by simp [initConf]⟩
    exact
      { suffix := ⟨[], rfl⟩, safe_ := by rw [hm]; exact hsafe t, wr := fun e => by simp [initConf] at e,
        wlock := fun e => by simp [initConf] at e, dw := fun e => by simp [initConf] at e,
        rd := fun e => by simp [initConf] at e, iav_ := fun e => by simp [initConf] at e, av_ := fun e => by simp [initConf] at e,
        walkHead := fun w e => by simp [initConf] at e, walk_ := fun w e => by simp [initConf] at e,
        walkOk := fun _ w e => by simp [initConf] at e, obs_ := fun o e => by simp [initConf] at e,
        obsOk := fun _ o e => by simp [initConf] at e, obsKv := fun o e => by simp [initConf] at e, eff_ := fun _ _ => rfl, crit := fun e => by simp [initConf] at e }

/-! ### the theorems about every schedule -/

/-- what a lookup that never takes the write lock observes, and how the published views arise -/
theorem schedule_facts (esc : Bool) (args : Nat → Arg α K) (progs : Nat → List Step) (s0 : Shared α K)
    (hsafe : ∀ t, safe esc .n false false false (progs t) = true) (hfresh : esc = true → s0.hdr.ptr < s0.fresh)
    (sched : List Nat) :
    let c := runSched esc args (initConf progs s0) sched
    c.g.done.Nodup ∧ c.g.pubs = serialPubs (fun t => effect (progs t) (args t)) c.g.done (view s0) ∧
    (c.g.writer = none → c.g.pubs.getLast? = some (view c.g.sh)) ∧
    (∀ t, Step.lock ∉ progs t → ∀ o ∈ (c.th t).obs, ∃ v, c.g.pubs[o.at_]? = some v ∧ o.res = answer (args t) o.kv v) ∧
    (∀ t, Step.readIndex ∉ progs t → Step.readAlias ∉ progs t → ∀ o ∈ (c.th t).obs, o.kv = false) := by
  intro c
  have hI : Inv esc args progs (view s0) c := inv_run (inv_init s0 hsafe hfresh) sched
  refine ⟨hI.glob.nodupD, hI.glob.ser, hI.glob.idle, fun t hl o ho => ?_, fun t h1 h2 o ho => ?_⟩
  · have ht := hI.thr t
    have hw : (c.th t).wrote = false := by
      cases h : (c.th t).wrote with
      | false => rfl
      | true => exact absurd (ht.wlock h) hl
    exact ht.obs_ o ho (ht.obsOk hw o ho)
  · cases hk : o.kv with
    | false => rfl
    | true =>
      rcases (hI.thr t).obsKv o ho hk with h | h
      · exact absurd h h1
      · exact absurd h h2

/-- the regenerated programs do to the view what the declarative reference says -/
theorem effect_progOf (cl : Call α K) (v : View α K) : effect (progOf cl) (argOf cl) v = specOf cl v := by
  cases cl with
  | entries mt => rfl
  | all mt => rfl
  | kv k => rfl
  | removeAll => rfl
  | add r key =>
    cases key with
    | none => rfl
    | some k => simp [progOf, argOf, specOf, addRoute, effect, stepEffect, addRouteSpec, upsert_idem]

theorem disciplined_progOf (cl : Call α K) : disciplined (progOf cl) = true := by
  cases cl <;> simp only [progOf] <;> decide

theorem lock_notMem_progOf (cl : Call α K) (h : isLookup cl = true) : Step.lock ∉ progOf cl := by
  cases cl <;> simp only [progOf] <;> first | (simp [isLookup] at h; done) | decide

end inv

end MosnVerif.Model.VhostTable
