import MosnVerif.Lemmas.Flow
import MosnVerif.Model.FlowWake
/-! Lemmas for the wake-up discipline of C18 flow control: the invariant "a sender that sleeps in `cond.Wait()` without
a pending Broadcast has no positive available window", preserved by every label under every policy that is `Ok`; the
refinement of `Model/Flow.lean` by the model with explicit parking; the regenerated policy of the code is `Ok`. -/
namespace MosnVerif.Lemmas.FlowWake
open MosnVerif.Gen.Flow MosnVerif.Gen.FlowWake MosnVerif.Model.Flow MosnVerif.Model.FlowWake MosnVerif.Lemmas.Flow

/-- the regenerated Broadcast conditions of both connections meet the obligation -/
theorem codePolicy_ok (side : Side) : (codePolicy side).Ok := by
  cases side
  · constructor
    · intro old inc h1 h2 h3 h4 h5
      have e1 : wrap32 inc = inc := wrap32_id inc (by omega)
      have e2 : wrap32 (old + inc) = old + inc := wrap32_id _ (by omega)
      simp [codePolicy, clientWuBroadcast, e1, e2] <;> omega
    · intro delta h
      simp [codePolicy, clientSettingsInitBroadcast] <;> omega
  · constructor
    · intro old inc h1 h2 h3 h4 h5
      have e1 : wrap32 inc = inc := wrap32_id inc (by omega)
      have e2 : wrap32 (old + inc) = old + inc := wrap32_id _ (by omega)
      simp [codePolicy, serverWuBroadcast, e1, e2] <;> omega
    · intro delta h
      simp [codePolicy, serverSettingsBroadcast] <;> omega

/-- "wake only when an empty window re-opens" does not: −5 + 10 is positive and no Broadcast happens -/
theorem lazyPolicy_not_ok : ¬ lazyPolicy.Ok := by
  intro h
  have := h.wu (-5) 10 (by decide) (by decide) (by decide) (by decide) (by decide)
  simp [lazyPolicy] at this

/-! ### facts about one step of the base model -/

theorem closed_mono (s : St) (l : Label) (h : s.closed = true) : step s l = s := by
  cases l <;> simp [step, sendStep, h]

theorem step_closed_false (s : St) (l : Label) (h : (step s l).closed = false) : s.closed = false := by
  cases hc : s.closed
  · rfl
  · rw [closed_mono s l hc] at h; rw [hc] at h; exact h

theorem sendStep_count (s : St) (i : Nat) : (sendStep s i).count = s.count := by
  unfold sendStep
  split
  · rfl
  · simp only []
    split
    · rfl
    · split
      · rfl
      · split <;> try rfl
        split <;> rfl

theorem step_count_le (s : St) (l : Label) : s.count ≤ (step s l).count := by
  cases l with
  | send i => simp only [step, sendStep_count]; exact Nat.le_refl _
  | openStream len => simp only [step]; split <;> first | exact Nat.le_refl _ | exact Nat.le_succ _
  | wuStream i inc => simp only [step]; (repeat' split) <;> exact Nat.le_refl _
  | wuConn inc => simp only [step]; (repeat' split) <;> exact Nat.le_refl _
  | setInit v => simp only [step]; (repeat' split) <;> exact Nat.le_refl _
  | setMaxFrame v => simp only [step]; (repeat' split) <;> exact Nat.le_refl _

/-- a peer frame that executes no Broadcast leaves every non-positive available window non-positive -/
theorem quiet_step (pol : Policy) (hok : pol.Ok) (s : St) (l : Label) (hw : l.wf = true) (h : Inv s)
    (hns : ∀ i, l ≠ .send i) (hb : signals pol s l = false) (j : Nat) (hj : j < s.count)
    (hq : min (s.strm j).n s.cn ≤ 0) (hc' : (step s l).closed = false) :
    min ((step s l).strm j).n (step s l).cn ≤ 0 := by
  have hc : s.closed = false := step_closed_false s l hc'
  have L := h.live hc
  have hp := h.nopanic
  cases l with
  | send i => exact absurd rfl (hns i)
  | openStream len =>
    simp only [step, hc, hp, Bool.or_false, Bool.false_eq_true, if_false, upd]
    rw [if_neg (by omega)]; exact hq
  | wuStream i inc =>
    simp only [Label.wf, Bool.and_eq_true, decide_eq_true_eq] at hw
    simp only [step, hc, hp, Bool.or_false, Bool.false_eq_true, if_false] at hc' ⊢
    by_cases hi : s.count ≤ i
    · simp only [hi, if_true]; exact hq
    · simp only [hi, if_false] at hc' ⊢
      by_cases htr : tracked s i = true
      · simp only [htr, Bool.not_true, Bool.false_eq_true, if_false] at hc' ⊢
        obtain ⟨_, h2, h3, _⟩ := L.strm i htr
        have hwi : wrap32 (inc : Int) = inc := wrap32_id _ (by omega)
        have A := add_spec (s.strm i).n inc ⟨h2, h3⟩ (by omega)
        rw [hwi] at hc' ⊢
        cases hr : (add (s.strm i).n (inc : Int)).2
        · simp [hr] at hc'
        · simp only [if_true]
          have hv := A.2.1 hr
          by_cases hji : j = i
          · subst hji
            simp only [upd, if_true, hv]
            have hpw : pol.wu (s.strm j).n inc = false := by
              simp only [signals, hc, hp, Bool.or_false, Bool.not_false, Bool.true_and, htr, hwi, hr] at hb
              exact hb
            by_cases hcn : s.cn ≤ 0
            · omega
            · have hn0 : (s.strm j).n ≤ 0 := by omega
              by_cases hpos : 0 < (s.strm j).n + inc
              · have := hok.wu (s.strm j).n inc h2 hn0 (by omega) (by omega) hpos
                rw [this] at hpw; exact Bool.noConfusion hpw
              · omega
          · simp only [upd, hji, if_false]; exact hq
      · have htr' : tracked s i = false := by simpa using htr
        simp only [htr', Bool.not_false, if_true]; exact hq
  | wuConn inc =>
    simp only [Label.wf, Bool.and_eq_true, decide_eq_true_eq] at hw
    simp only [step, hc, hp, Bool.or_false, Bool.false_eq_true, if_false] at hc' ⊢
    have hwi : wrap32 (inc : Int) = inc := wrap32_id _ (by omega)
    have A := add_spec s.cn inc L.cn_range (by omega)
    rw [hwi] at hc' ⊢
    cases hr : (add s.cn (inc : Int)).2
    · simp [hr] at hc'
    · simp only [if_true]
      have hv := A.2.1 hr
      simp only [hv]
      have hpw : pol.wu s.cn inc = false := by
        simp only [signals, hc, hp, Bool.or_false, Bool.not_false, Bool.true_and, hwi, hr] at hb
        exact hb
      by_cases hn0 : (s.strm j).n ≤ 0
      · omega
      · have hcn : s.cn ≤ 0 := by omega
        by_cases hpos : 0 < s.cn + inc
        · have := hok.wu s.cn inc L.cn_range.1 hcn (by omega) (by omega) hpos
          rw [this] at hpw; exact Bool.noConfusion hpw
        · omega
  | setInit v =>
    simp only [step, hc, hp, Bool.or_false, Bool.false_eq_true, if_false] at hc' ⊢
    by_cases hv : maxInt32 < (v : Int)
    · simp [hv] at hc'
    · simp only [hv, if_false] at hc' ⊢
      -- the delta is not positive: otherwise the site would have broadcast
      have key : pol.setInit (wrap32 (wrap32 (v : Int) - wrap32 s.init)) = false →
          wrap32 (wrap32 (v : Int) - wrap32 s.init) ≤ 0 := by
        intro hps
        by_cases hpos : 0 < wrap32 (wrap32 (v : Int) - wrap32 s.init)
        · rw [hok.setInit _ hpos] at hps; exact Bool.noConfusion hps
        · omega
      have shrink : ∀ (hd : wrap32 (wrap32 (v : Int) - wrap32 s.init) ≤ 0),
          min (if tracked s j = true then ({ s.strm j with n := (add (s.strm j).n (wrap32 (wrap32 (v : Int) - wrap32 s.init))).1 } : Strm)
               else s.strm j).n s.cn ≤ 0 := by
        intro hd
        by_cases htr : tracked s j = true
        · simp only [htr, if_true]
          obtain ⟨_, h2, h3, _⟩ := L.strm j htr
          have A := add_spec (s.strm j).n _ ⟨h2, h3⟩ (wrap32_range (wrap32 (v : Int) - wrap32 s.init))
          cases hr : (add (s.strm j).n (wrap32 (wrap32 (v : Int) - wrap32 s.init))).2
          · rw [A.2.2 hr]; exact hq
          · rw [A.2.1 hr]; omega
        · simp only [htr, Bool.false_eq_true, if_false]; exact hq
      cases hs : s.side
      · simp only [hs] at hc' ⊢
        apply shrink; apply key
        simpa [signals, hc, hp, hv, hs] using hb
      · simp only [hs] at hc' ⊢
        split
        · rename_i hany; simp [hany] at hc'
        · rename_i hany
          apply shrink; apply key
          simp only [signals, hc, hp, Bool.or_false, Bool.not_false, Bool.true_and, hv, decide_false, hs] at hb
          simpa [hany] using hb
  | setMaxFrame v =>
    simp only [step, hc, hp, Bool.or_false, Bool.false_eq_true, if_false] at hc' ⊢
    cases hs : s.side
    · simp only [hs] at hc' ⊢   -- [c08l9] the client validates too
      split
      · rename_i hbad; simp [hbad] at hc'
      · exact hq
    · simp only [hs] at hc' ⊢
      split
      · rename_i hbad; simp [hbad] at hc'
      · exact hq

/-! ### the invariant of the model with explicit parking -/

structure WInv (w : WSt) : Prop where
  base : Inv w.base
  lt : ∀ i, w.parked i = true → i < w.base.count
  /-- a sender asleep in `cond.Wait()` (no Broadcast pending) cannot take anything -/
  quiet : ∀ i, asleep w i = true → w.base.closed = false → min (w.base.strm i).n w.base.cn ≤ 0

theorem winv_initial (side : Side) : WInv (WSt.initial side) :=
  ⟨inv_initial side, fun _ h => by simp [WSt.initial] at h, fun _ h => by simp [WSt.initial, asleep] at h⟩

theorem not_enabled (side : Side) (n cn : Int) (h : enabled side (available n true cn) = false) : min n cn ≤ 0 := by
  rw [available_eq] at h
  by_cases hp : 0 < min n cn
  · rw [(enabled_iff side _).2 hp] at h; exact Bool.noConfusion h
  · omega

theorem winv_send (pol : Policy) (w : WSt) (i : Nat) (h : WInv w) : WInv (wstep pol w (.send i)) := by
  simp only [wstep]
  split
  · exact h
  rename_i hgo
  simp only [Bool.or_eq_true, decide_eq_true_eq, not_or, Bool.not_eq_true] at hgo
  obtain ⟨⟨⟨hc, hp⟩, hi⟩, hr⟩ := hgo
  split
  · exact h
  rename_i hawake
  split
  · -- the guard holds: take and write
    rename_i hen
    rw [available_eq, enabled_iff] at hen
    have hfire := sendStep_fire w.base i h.base hc (by omega) (by omega) hen
    refine ⟨inv_send _ _ h.base, ?_, ?_⟩
    · intro j hj
      simp only [updB] at hj
      rw [sendStep_count]
      by_cases hji : j = i
      · simp [hji] at hj
      · simp only [hji, if_false] at hj; exact h.lt j hj
    · intro j hj hcl
      simp only [asleep, updB] at hj
      by_cases hji : j = i
      · simp [hji] at hj
      · simp only [hji, if_false] at hj
        split at hj
        · simp at hj
        have hq := h.quiet j (by simpa [asleep] using hj) hc
        simp only []
        rw [hfire]
        simp only [upd, hji, if_false]
        omega
  · -- the guard fails: park
    rename_i hen
    have hen' : enabled w.base.side (available (w.base.strm i).n true w.base.cn) = false := by simpa using hen
    refine ⟨h.base, ?_, ?_⟩
    · intro j hj
      simp only [updB] at hj
      by_cases hji : j = i
      · subst hji; show j < w.base.count; omega
      · simp only [hji, if_false] at hj; exact h.lt j hj
    · intro j hj hcl
      by_cases hji : j = i
      · subst hji; exact not_enabled _ _ _ hen'
      · simp only [asleep, updB, hji, if_false] at hj
        exact h.quiet j (by simpa [asleep] using hj) hcl

theorem winv_peer (pol : Policy) (hok : pol.Ok) (w : WSt) (l : Label) (hw : l.wf = true) (hns : ∀ i, l ≠ .send i)
    (h : WInv w) : WInv (wstep pol w l) := by
  have e : wstep pol w l = WSt.mk (step w.base l) w.parked (fun j => w.signalled j || signals pol w.base l) := by
    cases l <;> first | rfl | exact absurd rfl (hns _)
  rw [e]
  refine ⟨inv_step _ _ hw h.base, ?_, ?_⟩
  · intro j hj
    exact Nat.lt_of_lt_of_le (h.lt j hj) (step_count_le _ _)
  · intro j hj hcl
    simp only [asleep, Bool.and_eq_true, Bool.not_eq_true', Bool.or_eq_false_iff] at hj
    obtain ⟨hpk, hsg, hb⟩ := hj
    have hc : w.base.closed = false := step_closed_false _ _ hcl
    exact quiet_step pol hok w.base l hw h.base hns hb j (h.lt j hpk)
      (h.quiet j (by simp [asleep, hpk, hsg]) hc) hcl

theorem winv_step (pol : Policy) (hok : pol.Ok) (w : WSt) (l : Label) (hw : l.wf = true) (h : WInv w) :
    WInv (wstep pol w l) := by
  cases l with
  | send i => exact winv_send pol w i h
  | openStream len => exact winv_peer pol hok w _ hw (fun _ e => Label.noConfusion e) h
  | wuStream i inc => exact winv_peer pol hok w _ hw (fun _ e => Label.noConfusion e) h
  | wuConn inc => exact winv_peer pol hok w _ hw (fun _ e => Label.noConfusion e) h
  | setInit v => exact winv_peer pol hok w _ hw (fun _ e => Label.noConfusion e) h
  | setMaxFrame v => exact winv_peer pol hok w _ hw (fun _ e => Label.noConfusion e) h

theorem winv_run (pol : Policy) (hok : pol.Ok) (w : WSt) (sched : List Label) (hw : ∀ l ∈ sched, l.wf = true)
    (h : WInv w) : WInv (wrun pol w sched) := by
  induction sched generalizing w with
  | nil => exact h
  | cons l r ih =>
    simp only [wrun, List.foldl_cons]
    exact ih (wstep pol w l) (fun x hx => hw x (List.mem_cons_of_mem _ hx))
      (winv_step pol hok w l (hw l (List.mem_cons_self ..)) h)

/-- parking changes nothing that is sent: one step of the model with parking is one step of `Model/Flow.lean` -/
theorem wstep_base (pol : Policy) (w : WSt) (l : Label) (h : WInv w) : (wstep pol w l).base = step w.base l := by
  cases l with
  | send i =>
    simp only [wstep, step]
    split
    · rename_i hstop
      simp only [Bool.or_eq_true, decide_eq_true_eq] at hstop
      symm; apply sendStep_idle _ _ h.base.nopanic
      rcases hstop with ((hc | hp) | hi) | hr
      · exact Or.inl hc
      · rw [h.base.nopanic] at hp; exact Bool.noConfusion hp
      · exact Or.inr (Or.inl hi)
      · exact Or.inr (Or.inr (Or.inl hr))
    rename_i hgo
    simp only [Bool.or_eq_true, decide_eq_true_eq, not_or, Bool.not_eq_true] at hgo
    obtain ⟨⟨⟨hc, hp⟩, hi⟩, hr⟩ := hgo
    split
    · rename_i hsl
      symm; apply sendStep_idle _ _ h.base.nopanic
      exact Or.inr (Or.inr (Or.inr (h.quiet i hsl hc)))
    · split
      · rfl
      · rename_i hen
        symm; apply sendStep_idle _ _ h.base.nopanic
        exact Or.inr (Or.inr (Or.inr (not_enabled _ _ _ (by simpa using hen))))
  | openStream len => rfl
  | wuStream i inc => rfl
  | wuConn inc => rfl
  | setInit v => rfl
  | setMaxFrame v => rfl

theorem wrun_base (pol : Policy) (hok : pol.Ok) (w : WSt) (sched : List Label) (hw : ∀ l ∈ sched, l.wf = true)
    (h : WInv w) : (wrun pol w sched).base = run w.base sched := by
  induction sched generalizing w with
  | nil => rfl
  | cons l r ih =>
    simp only [wrun, run, List.foldl_cons]
    have hl := hw l (List.mem_cons_self ..)
    have := ih (wstep pol w l) (fun x hx => hw x (List.mem_cons_of_mem _ hx)) (winv_step pol hok w l hl h)
    simp only [wrun, run] at this
    rw [this, wstep_base pol w l h]

end MosnVerif.Lemmas.FlowWake
