import MosnVerif.Model.EDF
/-! EDF scheduler: the invariant `deadline − 1/weight ≤ now ≤ deadline`, its preservation by every pick, and the
window (lag) bound it implies. Core Lean only. -/
namespace MosnVerif.Model.EDF
open MosnVerif.Gen

theorem one_div_pos {w : Rat} (h : 0 < w) : 0 < 1 / w := by
  rw [Rat.div_def, Rat.one_mul]; exact Rat.inv_pos.mpr h

theorem less_true_le {a b : Entry} (h : less a b = true) : a.deadline ≤ b.deadline := by
  unfold less Edf.edfEntryLess at h
  split at h
  · rename_i he; simp at he; rw [he]; exact Rat.le_refl
  · simp at h; exact Rat.le_of_lt h

theorem less_false_le {a b : Entry} (h : less a b = false) : b.deadline ≤ a.deadline := by
  unfold less Edf.edfEntryLess at h
  split at h
  · rename_i he; simp at he; rw [he]; exact Rat.le_refl
  · simp at h; exact Rat.not_lt.mp h

/-- the running minimum of the heap order is an element with a minimal deadline. -/
theorem foldl_min (r : List Entry) (best : Entry) :
    let m := r.foldl (fun best x => if less x best then x else best) best
    (m = best ∨ m ∈ r) ∧ m.deadline ≤ best.deadline ∧ ∀ f ∈ r, m.deadline ≤ f.deadline := by
  induction r generalizing best with
  | nil => simp
  | cons x r ih =>
    simp only [List.foldl_cons]
    cases hl : less x best
    · simp only [Bool.false_eq_true, if_false]
      obtain ⟨h1, h2, h3⟩ := ih best
      refine ⟨?_, h2, ?_⟩
      · rcases h1 with h | h
        · exact Or.inl h
        · exact Or.inr (List.mem_cons_of_mem _ h)
      · intro f hf
        simp only [List.mem_cons] at hf
        rcases hf with rfl | hf
        · exact Rat.le_trans h2 (less_false_le hl)
        · exact h3 f hf
    · simp only [if_true]
      obtain ⟨h1, h2, h3⟩ := ih x
      refine ⟨?_, Rat.le_trans h2 (less_true_le hl), ?_⟩
      · rcases h1 with h | h
        · exact Or.inr (by rw [h]; exact List.mem_cons_self)
        · exact Or.inr (List.mem_cons_of_mem _ h)
      · intro f hf
        simp only [List.mem_cons] at hf
        rcases hf with rfl | hf
        · exact h2
        · exact h3 f hf

theorem minEntry_mem_min {l : List Entry} {e : Entry} (h : minEntry l = some e) :
    e ∈ l ∧ ∀ f ∈ l, e.deadline ≤ f.deadline := by
  cases l with
  | nil => simp [minEntry] at h
  | cons x r =>
    simp only [minEntry, Option.some.injEq] at h
    obtain ⟨h1, h2, h3⟩ := foldl_min r x
    rw [h] at h1 h2 h3
    constructor
    · rcases h1 with h | h
      · rw [h]; exact List.mem_cons_self
      · exact List.mem_cons_of_mem _ h
    · intro f hf
      simp only [List.mem_cons] at hf
      rcases hf with rfl | hf
      · exact h2
      · exact h3 f hf

theorem minEntry_isSome {l : List Entry} (h : l ≠ []) : (minEntry l).isSome = true := by
  cases l with
  | nil => exact absurd rfl h
  | cons x r => simp [minEntry]

/-- whatever the hint, the served entry is in the queue and holds a minimal deadline. -/
theorem pick_mem_min {s : Sched} {hint : Option Nat} {e : Entry} (h : s.pick hint = some e) :
    e ∈ s.entries ∧ ∀ f ∈ s.entries, e.deadline ≤ f.deadline := by
  unfold Sched.pick at h
  split at h
  · rename_i e' he
    simp only [Option.some.injEq] at h; subst h
    cases hint with
    | none => simp at he
    | some hv =>
      simp only [Option.bind_some] at he
      have hm := List.mem_of_find?_eq_some he
      have hp := List.find?_some he
      simp only [Bool.and_eq_true, isMinDeadline, List.all_eq_true, decide_eq_true_eq] at hp
      exact ⟨hm, hp.2⟩
  · exact minEntry_mem_min h

/-- the pick without hint is the minimum of the heap order (deterministic scheduler). -/
theorem pick_none (s : Sched) : s.pick none = minEntry s.entries := by
  unfold Sched.pick; simp

/-- **the invariant**: every queued entry was pushed with a positive weight and satisfies
`deadline − 1/weight ≤ currentTime ≤ deadline`; items are distinct. -/
def Inv (s : Sched) : Prop :=
  (∀ e ∈ s.entries, 0 < e.weight ∧ e.deadline - 1 / e.weight ≤ s.now ∧ s.now ≤ e.deadline) ∧
  (s.entries.map (·.item)).Nodup

/-- hence the pairwise form of DESIGN.md: `dᵢ − 1/wᵢ ≤ dⱼ` for all queued `i, j`. -/
theorem Inv.pairwise {s : Sched} (h : Inv s) {e f : Entry} (he : e ∈ s.entries) (hf : f ∈ s.entries) :
    e.deadline - 1 / e.weight ≤ f.deadline :=
  Rat.le_trans (h.1 e he).2.1 (h.1 f hf).2.2

theorem inv_empty : Inv {} := ⟨by simp, by simp⟩

theorem inv_add {s : Sched} (h : Inv s) {item : Nat} {w : Rat} (hw : 0 < w)
    (hn : item ∉ s.entries.map (·.item)) : Inv (s.add item w) := by
  unfold Sched.add
  constructor
  · intro e he
    simp only [List.mem_append, List.mem_singleton] at he
    rcases he with he | rfl
    · exact h.1 e he
    · simp only [Edf.addDeadline]
      have := one_div_pos hw
      refine ⟨hw, ?_, ?_⟩ <;> grind
  · simp only [List.map_append, List.map_cons, List.map_nil]
    rw [List.nodup_append]
    refine ⟨h.2, by simp, ?_⟩
    intro a ha b hb
    simp at hb; subst hb
    intro hab; subst hab; exact hn ha

theorem map_item_replace (l : List Entry) (k : Nat) (e' : Entry) (hk : e'.item = k) :
    (l.map (fun f => if f.item = k then e' else f)).map (·.item) = l.map (·.item) := by
  induction l with
  | nil => rfl
  | cons x r ih =>
    simp only [List.map_cons, ih, List.cons.injEq, and_true]
    split
    · rename_i h; rw [hk, h]
    · rfl

theorem inv_next {s s' : Sched} {wf : Nat → Rat} {hint : Option Nat} {i : Nat} (h : Inv s)
    (hwf : ∀ k, 0 < wf k) (hn : s.nextAndPush wf hint = some (i, s')) : Inv s' := by
  unfold Sched.nextAndPush at hn
  split at hn
  · simp at hn
  · rename_i e hp
    simp only [Option.some.injEq, Prod.mk.injEq] at hn
    obtain ⟨_, rfl⟩ := hn
    obtain ⟨hm, hmin⟩ := pick_mem_min hp
    have he := h.1 e hm
    have hpos := one_div_pos (hwf e.item)
    constructor
    · intro f' hf'
      simp only [List.mem_map] at hf'
      obtain ⟨f, hf, rfl⟩ := hf'
      simp only [Edf.nextTime]
      split
      · simp only [repush, Edf.nextDeadline]
        refine ⟨hwf e.item, ?_, ?_⟩ <;> grind
      · have hf1 := h.1 f hf
        have := hmin f hf
        refine ⟨hf1.1, ?_, this⟩
        grind
    · simp only
      rw [map_item_replace _ _ _ (by simp [repush])]
      exact h.2

/-- entries with the same item are the same entry (items are distinct). -/
theorem eq_of_item_eq {l : List Entry} (hnd : (l.map (·.item)).Nodup) {e f : Entry} (he : e ∈ l) (hf : f ∈ l)
    (h : e.item = f.item) : e = f := by
  induction l with
  | nil => simp at he
  | cons x r ih =>
    simp only [List.map_cons, List.nodup_cons, List.mem_map, not_exists, not_and] at hnd
    simp only [List.mem_cons] at he hf
    rcases he with rfl | he <;> rcases hf with rfl | hf
    · rfl
    · exact absurd h.symm (hnd.1 f hf)
    · exact absurd h (hnd.1 e he)
    · exact ih hnd.2 he hf

/-- weights are a fixed function of the item (weighted round robin: `fixHostWeight(host.Weight())`). -/
def StaticW (s : Sched) (wf : Nat → Rat) : Prop := ∀ e ∈ s.entries, e.weight = wf e.item

theorem static_next {s s' : Sched} {wf : Nat → Rat} {hint : Option Nat} {i : Nat} (h : StaticW s wf)
    (hn : s.nextAndPush wf hint = some (i, s')) : StaticW s' wf := by
  unfold Sched.nextAndPush at hn
  split at hn
  · simp at hn
  · rename_i e hp
    simp only [Option.some.injEq, Prod.mk.injEq] at hn
    obtain ⟨_, rfl⟩ := hn
    intro f' hf'
    simp only [List.mem_map] at hf'
    obtain ⟨f, hf, rfl⟩ := hf'
    split
    · simp [repush]
    · exact h f hf

/-- one pick: the served item is queued; every entry keeps its item, the served one gains `1/wf item`. -/
theorem next_deadlines {s s' : Sched} {wf : Nat → Rat} {hint : Option Nat} {i : Nat} (h : Inv s)
    (hn : s.nextAndPush wf hint = some (i, s')) :
    i ∈ s.entries.map (·.item) ∧ s'.entries.map (·.item) = s.entries.map (·.item) ∧
    ∀ e ∈ s.entries, ∃ e' ∈ s'.entries, e'.item = e.item ∧
      e'.deadline = e.deadline + (if e.item = i then 1 / wf i else 0) := by
  unfold Sched.nextAndPush at hn
  split at hn
  · simp at hn
  · rename_i pe hp
    simp only [Option.some.injEq, Prod.mk.injEq] at hn
    obtain ⟨rfl, rfl⟩ := hn
    obtain ⟨hm, _⟩ := pick_mem_min hp
    refine ⟨List.mem_map.mpr ⟨pe, hm, rfl⟩, map_item_replace _ _ _ (by simp [repush]), ?_⟩
    intro e he
    by_cases hc : e.item = pe.item
    · have : e = pe := eq_of_item_eq h.2 he hm hc
      subst this
      refine ⟨repush e (wf e.item) (s.clock + 1), ?_, by simp [repush], ?_⟩
      · exact List.mem_map.mpr ⟨e, he, by simp⟩
      · simp [repush, Edf.nextDeadline]
    · refine ⟨e, ?_, rfl, ?_⟩
      · exact List.mem_map.mpr ⟨e, he, by simp [hc]⟩
      · simp only [hc, if_false]; grind

theorem run_nil (s : Sched) (wf : Nat → Rat) : s.run wf [] = ([], s) := rfl

/-- a run preserves the invariant and static weights, keeps the items, serves only queued items, and every entry's
deadline advances by (number of times served)/weight. -/
theorem run_facts (wf : Nat → Rat) (hwf : ∀ k, 0 < wf k) (hints : List (Option Nat)) (s : Sched)
    (h : Inv s) (hs : StaticW s wf) :
    Inv (s.run wf hints).2 ∧ StaticW (s.run wf hints).2 wf ∧
    (s.run wf hints).2.entries.map (·.item) = s.entries.map (·.item) ∧
    (∀ x ∈ (s.run wf hints).1, x ∈ s.entries.map (·.item)) ∧
    ∀ e ∈ s.entries, ∃ e' ∈ (s.run wf hints).2.entries, e'.item = e.item ∧
      e'.deadline = e.deadline + (((s.run wf hints).1.count e.item : Nat) : Rat) / wf e.item := by
  induction hints generalizing s with
  | nil =>
    refine ⟨h, hs, rfl, by simp [Sched.run], ?_⟩
    intro e he
    exact ⟨e, he, rfl, by simp [Sched.run]; grind⟩
  | cons hd tl ih =>
    unfold Sched.run
    cases hn : s.nextAndPush wf hd with
    | none =>
      refine ⟨h, hs, rfl, by simp, ?_⟩
      intro e he
      exact ⟨e, he, rfl, by simp; grind⟩
    | some p =>
      obtain ⟨i, s1⟩ := p
      have h1 := inv_next h hwf hn
      have hs1 := static_next hs hn
      obtain ⟨hi, hitems, hdl⟩ := next_deadlines h hn
      obtain ⟨r1, r2, r3, r4, r5⟩ := ih s1 h1 hs1
      simp only
      refine ⟨r1, r2, r3.trans hitems, ?_, ?_⟩
      · intro x hx
        simp only [List.mem_cons] at hx
        rcases hx with rfl | hx
        · exact hi
        · rw [← hitems]; exact r4 x hx
      · intro e he
        obtain ⟨e1, he1, hi1, hd1⟩ := hdl e he
        obtain ⟨e2, he2, hi2, hd2⟩ := r5 e1 he1
        refine ⟨e2, he2, hi2.trans hi1, ?_⟩
        rw [hd2, hd1, hi1]
        by_cases hc : e.item = i
        · subst hc
          simp only [if_true, List.count_cons_self]
          rw [Rat.natCast_add]
          grind
        · have : (i == e.item) = false := by simp; exact fun h => hc h.symm
          simp only [hc, if_false, List.count_cons, this]
          grind


/-- **window bound (one direction; swap `i`, `j` for the other)**: from any state satisfying the invariant, with
item-determined positive weights, for ANY number of picks and ANY resolution of ties:
`nᵢ/wᵢ − nⱼ/wⱼ ≤ 1/wᵢ + 1/wⱼ`. -/
theorem window_bound (wf : Nat → Rat) (hwf : ∀ k, 0 < wf k) (hints : List (Option Nat)) (s : Sched)
    (h : Inv s) (hs : StaticW s wf) {ei ej : Entry} (hi : ei ∈ s.entries) (hj : ej ∈ s.entries) :
    (((s.run wf hints).1.count ei.item : Nat) : Rat) / wf ei.item -
      (((s.run wf hints).1.count ej.item : Nat) : Rat) / wf ej.item ≤ 1 / wf ei.item + 1 / wf ej.item := by
  obtain ⟨r1, r2, _, _, r5⟩ := run_facts wf hwf hints s h hs
  obtain ⟨ei', hi', hii, hdi⟩ := r5 ei hi
  obtain ⟨ej', hj', hji, hdj⟩ := r5 ej hj
  have a1 := (r1.1 ei' hi').2.1
  have a2 := (r1.1 ej' hj').2.2
  have b1 := (h.1 ej hj).2.1
  have b2 := (h.1 ei hi).2.2
  have w1 := r2 ei' hi'
  have w2 := hs ej hj
  rw [hii] at w1
  rw [w1] at a1
  rw [w2] at b1
  grind

/-! ### the scheduler built by `refresh` -/

theorem initWith_succ (wf : Nat → Rat) (n : Nat) : initWith wf (n + 1) = (initWith wf n).add n (wf n) := by
  unfold initWith
  rw [List.range_succ, List.foldl_append]
  rfl

theorem initWith_facts (wf : Nat → Rat) (hwf : ∀ k, 0 < wf k) (n : Nat) :
    Inv (initWith wf n) ∧ StaticW (initWith wf n) wf ∧ (initWith wf n).entries.map (·.item) = List.range n := by
  induction n with
  | zero => exact ⟨inv_empty, by intro e he; simp [initWith] at he, by simp [initWith]⟩
  | succ n ih =>
    obtain ⟨h1, h2, h3⟩ := ih
    rw [initWith_succ]
    refine ⟨inv_add h1 (hwf n) (by rw [h3]; simp), ?_, ?_⟩
    · intro e he
      simp only [Sched.add, List.mem_append, List.mem_singleton] at he
      rcases he with he | rfl
      · exact h2 e he
      · rfl
    · simp only [Sched.add, List.map_append, h3, List.map_cons, List.map_nil, List.range_succ]

/-- the balancer's scheduler as constructed (any warm-up) and after any further picks satisfies everything. -/
theorem refresh_facts (wf : Nat → Rat) (hwf : ∀ k, 0 < wf k) (n : Nat) (pre : List (Option Nat)) :
    Inv (refresh wf n pre) ∧ StaticW (refresh wf n pre) wf ∧ (refresh wf n pre).entries.map (·.item) = List.range n := by
  obtain ⟨h1, h2, h3⟩ := initWith_facts wf hwf n
  obtain ⟨r1, r2, r3, _, _⟩ := run_facts wf hwf pre _ h1 h2
  exact ⟨r1, r2, r3.trans h3⟩

theorem mem_of_item_mem {l : List Entry} {i : Nat} (h : i ∈ l.map (·.item)) : ∃ e ∈ l, e.item = i := by
  simpa using h

/-! ### the executable predicate `windowsOk` holds of every run -/

/-- `g p = nᵢ(p)·wⱼ − nⱼ(p)·wᵢ` -/
def lagVal (wi wj : Int) (i j : Nat) (p : List Nat) : Int := (p.count i : Int) * wj - (p.count j : Int) * wi

theorem lagRange_bounds (wi wj : Int) (i j : Nat) (hij : i ≠ j) (L U : Rat) (seq : List Nat) (g0 mn mx : Int)
    (hmn : L ≤ (mn : Rat)) (hmx : ((mx : Int) : Rat) ≤ U)
    (hb : ∀ p, p <+: seq → L ≤ ((g0 + lagVal wi wj i j p : Int) : Rat) ∧ ((g0 + lagVal wi wj i j p : Int) : Rat) ≤ U) :
    let r := seq.foldl (fun (acc : Int × Int × Int) x =>
      let g := if x = i then acc.1 + wj else if x = j then acc.1 - wi else acc.1
      (g, min acc.2.1 g, max acc.2.2 g)) (g0, mn, mx)
    L ≤ (r.2.1 : Rat) ∧ (r.2.2 : Rat) ≤ U := by
  induction seq generalizing g0 mn mx with
  | nil => exact ⟨hmn, hmx⟩
  | cons x r ih =>
    simp only [List.foldl_cons]
    have hx := hb [x] (by simp)
    have hstep : (if x = i then g0 + wj else if x = j then g0 - wi else g0) = g0 + lagVal wi wj i j [x] := by
      unfold lagVal
      by_cases h1 : x = i
      · subst h1; simp [hij]
      · by_cases h2 : x = j
        · subst h2; simp [h1]; omega
        · have e1 : (x == i) = false := by simpa using h1
          have e2 : (x == j) = false := by simpa using h2
          simp [h1, h2]
    rw [hstep]
    apply ih
    · rcases Int.le_total mn (g0 + lagVal wi wj i j [x]) with hle | hle
      · rw [Int.min_eq_left hle]; exact hmn
      · rw [Int.min_eq_right hle]; exact hx.1
    · rcases Int.le_total mx (g0 + lagVal wi wj i j [x]) with hle | hle
      · rw [Int.max_eq_right hle]; exact hx.2
      · rw [Int.max_eq_left hle]; exact hmx
    · intro p hp
      have := hb (x :: p) (by simpa using hp)
      have e : g0 + lagVal wi wj i j [x] + lagVal wi wj i j p = g0 + lagVal wi wj i j (x :: p) := by
        unfold lagVal
        simp only [List.count_cons, List.count_nil]
        split <;> split <;> grind
      rw [e]; exact this

/-- a prefix of the picks of a run is the picks of a run. -/
theorem prefix_of_run (wf : Nat → Rat) (hints : List (Option Nat)) (s : Sched) (p : List Nat)
    (hp : p <+: (s.run wf hints).1) : ∃ h', p = (s.run wf h').1 := by
  induction hints generalizing s p with
  | nil =>
    simp only [Sched.run, List.prefix_nil] at hp
    exact ⟨[], by simp [hp, Sched.run]⟩
  | cons hd tl ih =>
    unfold Sched.run at hp
    cases hn : s.nextAndPush wf hd with
    | none =>
      simp only [hn, List.prefix_nil] at hp
      exact ⟨[], by simp [hp, Sched.run]⟩
    | some q =>
      obtain ⟨i, s1⟩ := q
      simp only [hn] at hp
      cases p with
      | nil => exact ⟨[], by simp [Sched.run]⟩
      | cons x p' =>
        rw [List.cons_prefix_cons] at hp
        obtain ⟨rfl, hp'⟩ := hp
        obtain ⟨h'', rfl⟩ := ih s1 p' hp'
        exact ⟨hd :: h'', by simp [Sched.run, hn]⟩


theorem lag_arith (di dj a b x y : Rat) (hx : 0 < x) (hy : 0 < y)
    (a1 : di + a / x - 1 / x ≤ dj + b / y) (a2 : dj + b / y - 1 / y ≤ di + a / x) :
    - x - (di - dj) * x * y ≤ a * y - b * x ∧ a * y - b * x ≤ y - (di - dj) * x * y := by
  have hx0 : x ≠ 0 := by grind
  have hy0 : y ≠ 0 := by grind
  have hxy : 0 ≤ x * y := Rat.le_of_lt (Rat.mul_pos hx hy)
  have m1 := Rat.mul_le_mul_of_nonneg_left a1 hxy
  have m2 := Rat.mul_le_mul_of_nonneg_left a2 hxy
  have e1 : x * y * (di + a / x - 1 / x) = di * x * y + a * y - y := by grind
  have e2 : x * y * (dj + b / y) = dj * x * y + b * x := by grind
  have e3 : x * y * (dj + b / y - 1 / y) = dj * x * y + b * x - x := by grind
  have e4 : x * y * (di + a / x) = di * x * y + a * y := by grind
  rw [e1, e2] at m1
  rw [e3, e4] at m2
  constructor <;> grind

theorem range_arith (L U : Rat) (x y mn mx : Int) (hLU : U - L = ((x + y : Int) : Rat))
    (l1 : L ≤ (mn : Rat)) (l2 : (mx : Rat) ≤ U) : mx - mn ≤ x + y := by
  have : ((mx - mn : Int) : Rat) ≤ ((x + y : Int) : Rat) := by
    rw [Rat.intCast_sub, ← hLU]
    grind
  exact Rat.intCast_le_intCast.mp this

/-- prefix values of the lag `nᵢ·wⱼ − nⱼ·wᵢ` stay inside a fixed interval of width `wᵢ + wⱼ`. -/
theorem lag_interval (w : Nat → Int) (hw : ∀ k, 0 < w k) (hints : List (Option Nat)) (s : Sched)
    (h : Inv s) (hs : StaticW s (fun k => ((w k : Int) : Rat))) {ei ej : Entry} (hi : ei ∈ s.entries) (hj : ej ∈ s.entries) :
    - ((w ei.item : Int) : Rat) - (ei.deadline - ej.deadline) * ((w ei.item : Int) : Rat) * ((w ej.item : Int) : Rat)
      ≤ ((lagVal (w ei.item) (w ej.item) ei.item ej.item (s.run (fun k => ((w k : Int) : Rat)) hints).1 : Int) : Rat) ∧
    ((lagVal (w ei.item) (w ej.item) ei.item ej.item (s.run (fun k => ((w k : Int) : Rat)) hints).1 : Int) : Rat)
      ≤ ((w ej.item : Int) : Rat) - (ei.deadline - ej.deadline) * ((w ei.item : Int) : Rat) * ((w ej.item : Int) : Rat) := by
  have hwf : ∀ k, (0 : Rat) < ((w k : Int) : Rat) := fun k => Rat.intCast_pos.mpr (hw k)
  obtain ⟨r1, r2, _, _, r5⟩ := run_facts _ hwf hints s h hs
  obtain ⟨ei', hi', hii, hdi⟩ := r5 ei hi
  obtain ⟨ej', hj', hji, hdj⟩ := r5 ej hj
  have a1 := r1.pairwise hi' hj'
  have a2 := r1.pairwise hj' hi'
  have w1 := r2 ei' hi'
  have w2 := r2 ej' hj'
  simp only at w1 w2
  rw [hii] at w1
  rw [hji] at w2
  rw [w1, hdi, hdj] at a1
  rw [w2, hdi, hdj] at a2
  have := lag_arith ei.deadline ej.deadline _ _ _ _ (hwf ei.item) (hwf ej.item) a1 a2
  simp only [lagVal, Rat.intCast_sub, Rat.intCast_mul, Rat.intCast_natCast]
  exact this

theorem pairOk_of_run (w : Nat → Int) (hw : ∀ k, 0 < w k) (hints : List (Option Nat)) (s : Sched)
    (h : Inv s) (hs : StaticW s (fun k => ((w k : Int) : Rat))) {i j : Nat}
    (hi : i ∈ s.entries.map (·.item)) (hj : j ∈ s.entries.map (·.item)) (hij : i ≠ j) :
    pairOk w (s.run (fun k => ((w k : Int) : Rat)) hints).1 i j = true := by
  obtain ⟨ei, hei, rfl⟩ := mem_of_item_mem hi
  obtain ⟨ej, hej, rfl⟩ := mem_of_item_mem hj
  have hb : ∀ p, p <+: (s.run (fun k => ((w k : Int) : Rat)) hints).1 →
      - ((w ei.item : Int) : Rat) - (ei.deadline - ej.deadline) * ((w ei.item : Int) : Rat) * ((w ej.item : Int) : Rat)
        ≤ ((0 + lagVal (w ei.item) (w ej.item) ei.item ej.item p : Int) : Rat) ∧
      ((0 + lagVal (w ei.item) (w ej.item) ei.item ej.item p : Int) : Rat)
        ≤ ((w ej.item : Int) : Rat) - (ei.deadline - ej.deadline) * ((w ei.item : Int) : Rat) * ((w ej.item : Int) : Rat) := by
    intro p hp
    obtain ⟨h', rfl⟩ := prefix_of_run _ hints s p hp
    rw [Int.zero_add]
    exact lag_interval w hw h' s h hs hei hej
  have h0 := hb [] List.nil_prefix
  have h0' : ((0 + lagVal (w ei.item) (w ej.item) ei.item ej.item [] : Int) : Rat) = ((0 : Int) : Rat) := by
    simp [lagVal]
  rw [h0'] at h0
  have hmain := lagRange_bounds (w ei.item) (w ej.item) ei.item ej.item hij _ _
    (s.run (fun k => ((w k : Int) : Rat)) hints).1 0 0 0 h0.1 h0.2 hb
  unfold pairOk lagRange
  simp only [decide_eq_true_eq]
  exact range_arith _ _ _ _ _ _ (by rw [Rat.intCast_add]; grind) hmain.1 hmain.2

/-- **the executable predicate holds of every run**: all windows of the served sequence respect the lag bound. -/
theorem windowsOk_of_run (w : Nat → Int) (hw : ∀ k, 0 < w k) (n : Nat) (hints : List (Option Nat)) (s : Sched)
    (h : Inv s) (hs : StaticW s (fun k => ((w k : Int) : Rat))) (hitems : s.entries.map (·.item) = List.range n) :
    windowsOk w n (s.run (fun k => ((w k : Int) : Rat)) hints).1 = true := by
  unfold windowsOk
  simp only [List.all_eq_true, List.mem_range, Bool.or_eq_true, decide_eq_true_eq]
  intro i hi j hj
  by_cases hji : j ≤ i
  · exact Or.inl hji
  · right
    apply pairOk_of_run w hw hints s h hs
    · rw [hitems]; simpa using hi
    · rw [hitems]; simpa using hj
    · omega


theorem fixHostWeight_range (x : Int) : 1 ≤ Edf.fixHostWeight x ∧ Edf.fixHostWeight x ≤ 128 := by
  unfold Edf.fixHostWeight Edf.minHostWeight Edf.maxHostWeight
  simp only [decide_eq_true_eq, ge_iff_le]
  split
  · omega
  · split <;> omega

theorem wrrWeight_eq (ws : List Nat) : wrrWeight ws = fun k => ((wrrW ws k : Int) : Rat) := rfl

theorem wrrW_pos (ws : List Nat) (k : Nat) : 0 < wrrW ws k := by
  have := (fixHostWeight_range ((ws.getD k 0 : Nat) : Int)).1
  unfold wrrW; omega

end MosnVerif.Model.EDF
