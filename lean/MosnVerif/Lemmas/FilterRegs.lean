import MosnVerif.Model.FilterRegs
import MosnVerif.Lemmas.FilterMachine
/-! lemmas about the registration side of the stream-filter chain (Model/FilterRegs.lean) -/
namespace MosnVerif.Model.FilterRegs
open MosnVerif.Gen.FilterPhase MosnVerif.Model.FilterChain MosnVerif.Model.FilterMachine
open MosnVerif.Gen.FilterRegs (Chain addStreamReceiverFilter addStreamSenderFilter onDestroy)

/-! ### registration is append-only (regenerated `Add…` bodies) -/

theorem foldl_recv (regs : List Reg) (d : Chain) :
    regs.foldl (fun d r => addStreamReceiverFilter d r.obj (phaseNum r.phase)) d =
      { d with receiverFilters := d.receiverFilters ++ regs.map (·.obj),
               receiverFiltersPhase := d.receiverFiltersPhase ++ regs.map (fun r => phaseNum r.phase) } := by
  induction regs generalizing d with
  | nil => simp
  | cons r rest ih => rw [List.foldl_cons, ih]; simp [addStreamReceiverFilter, List.append_assoc]

theorem foldl_send (sobjs : List Nat) (d : Chain) :
    sobjs.foldl (fun d o => addStreamSenderFilter d o Gen.FilterRegs.BeforeSend) d =
      { d with senderFilters := d.senderFilters ++ sobjs,
               senderFiltersPhase := d.senderFiltersPhase ++ sobjs.map (fun _ => Gen.FilterRegs.BeforeSend) } := by
  induction sobjs generalizing d with
  | nil => simp
  | cons r rest ih => rw [List.foldl_cons, ih]; simp [addStreamSenderFilter, List.append_assoc]

theorem build_eq (regs : List Reg) (sobjs : List Nat) :
    build regs sobjs =
      { receiverFilters := regs.map (·.obj), receiverFiltersPhase := regs.map (fun r => phaseNum r.phase),
        senderFilters := sobjs, senderFiltersPhase := sobjs.map (fun _ => Gen.FilterRegs.BeforeSend) } := by
  simp [build, foldl_recv, foldl_send]

theorem regsOf_build (regs : List Reg) (sobjs : List Nat) :
    regsOf (build regs sobjs) = regs.map (fun r => (r.obj, phaseNum r.phase)) := by
  rw [build_eq]
  simp only [regsOf]
  induction regs with
  | nil => rfl
  | cons r rest ih => simp [ih]

theorem destroy_count (regs : List Reg) (sobjs : List Nat) (o : Nat) :
    (onDestroy (build regs sobjs)).count o = destroyCount regs sobjs o := by
  rw [build_eq]; simp [onDestroy, destroyCount, List.count_append]

theorem phaseNum_inj (a b : RPhase) (h : phaseNum a = phaseNum b) : a = b := by
  cases a <;> cases b <;> first | rfl | (exact absurd h (by decide))

/-! ### the chain of a registration list -/

theorem toChain_length (regs : List Reg) (sc : Nat → List Verdict) : (toChain regs sc).length = regs.length := by
  simp [toChain]

theorem toChain_getElem? (regs : List Reg) (sc : Nat → List Verdict) (i : Nat) :
    (toChain regs sc)[i]? = (regs[i]?).map (fun r => (⟨r.phase, sc i⟩ : RFilter)) := by
  simp only [toChain, List.getElem?_map, List.getElem?_zipIdx]
  cases regs[i]? <;> simp

/-! ### one pass runs exactly the registrations of its phase -/

theorem recvSwitch_next_iff (st : FStatus) : recvSwitch st = .next ↔ continues st = true := by
  cases st <;> simp [recvSwitch, continues]

theorem applyHandler_rcalls (e : HEffect) (p : RPhase) (t : FState) : (applyHandler e p t).rcalls = t.rcalls := by
  cases e <;> simp [applyHandler, cleanStream] <;> split <;> rfl

theorem applyAct_rcalls (t : FState) (a : Act) : (applyAct t a).rcalls = t.rcalls := by
  cases a <;> simp [applyAct, sendHijack] <;> split <;> rfl

theorem ofPhase_ge (p : RPhase) (fs : List RFilter) (idx : Nat) : ∀ x ∈ ofPhase p fs idx, idx ≤ x.1 := by
  induction fs generalizing idx with
  | nil => intro x h; simp [ofPhase] at h
  | cons f r ih =>
    intro x h
    simp only [ofPhase] at h
    split at h
    · rcases List.mem_cons.mp h with rfl | h
      · exact Nat.le_refl _
      · exact Nat.le_trans (Nat.le_succ _) (ih _ x h)
    · exact Nat.le_trans (Nat.le_succ _) (ih _ x h)

theorem cutAfter_congr (c1 c2 : Nat → Nat) (l : List (Nat × RFilter)) (h : ∀ x ∈ l, c1 x.1 = c2 x.1) :
    cutAfter c1 l = cutAfter c2 l := by
  induction l with
  | nil => rfl
  | cons x r ih =>
    obtain ⟨i, f⟩ := x
    have hi : c1 i = c2 i := h (i, f) (by simp)
    simp only [cutAfter, hi]
    rw [ih (fun y hy => h y (List.mem_cons_of_mem _ hy))]

/-- the loop of `RunReceiverFilter` from index `idx` on invokes exactly the filters registered for the phase of the pass, in
chain order, each once, up to and including the first whose status does not let the chain go on — whatever the handler
calls of the filters do to the stream -/
theorem recvLoop_invs (p : RPhase) (fs : List RFilter) (idx : Nat) (s : FState) :
    (recvLoop p fs idx s).2 = cutAfter s.rcalls (ofPhase p fs idx) := by
  induction fs generalizing idx s with
  | nil => simp [recvLoop, ofPhase, cutAfter]
  | cons f rest ih =>
    simp only [recvLoop, ofPhase]
    by_cases hp : f.phase = p
    · simp only [hp, ne_eq, not_true_eq_false, if_false, if_true, cutAfter]
      generalize hv : f.verdictAt (s.rcalls idx) = v
      have hcong : ∀ t : FState, t.rcalls = bump s.rcalls idx →
          cutAfter t.rcalls (ofPhase p rest (idx + 1)) = cutAfter s.rcalls (ofPhase p rest (idx + 1)) := by
        intro t ht
        apply cutAfter_congr
        intro x hx
        have := ofPhase_ge p rest (idx + 1) x hx
        have hne : x.1 ≠ idx := by omega
        simp [ht, bump, hne]
      cases hsw : recvSwitch v.status with
      | next =>
        have hc : continues v.status = true := (recvSwitch_next_iff _).mp hsw
        simp only [hc, if_true]
        rw [ih]
        rw [hcong _ (by simp [applyHandler_rcalls, applyAct_rcalls])]
      | resetReturn =>
        have hc : continues v.status = false := by
          cases h : continues v.status
          · rfl
          · rw [(recvSwitch_next_iff _).mpr h] at hsw; cases hsw
        simp [hc]
      | keepReturn =>
        have hc : continues v.status = false := by
          cases h : continues v.status
          · rfl
          · rw [(recvSwitch_next_iff _).mpr h] at hsw; cases hsw
        simp [hc]
    · simp only [hp, ne_eq, not_false_eq_true, if_true, if_false]
      exact ih _ _

theorem runRecv_invs (chain : List RFilter) (p : RPhase) (s : FState) :
    (runRecv chain p s).2 = cutAfter s.rcalls (ofPhase p (chain.drop (startOf s p)) (startOf s p)) := by
  unfold runRecv; exact recvLoop_invs _ _ _ _

/-! ### … along the whole run of a request -/

/-- every receiver pass of the trace is the exact run of the registrations of its phase from its start cursor -/
def PassesExact (c : Cfg) (t : List Ev) : Prop :=
  ∀ p st invs, Ev.rpass p st invs ∈ t → ∃ calls, invs = cutAfter calls (ofPhase p (c.recv.drop st) st)

theorem step_PassesExact (c : Cfg) (s : St) (h : PassesExact c s.trace) : PassesExact c (step c s).trace := by
  rcases step_shape c s with ⟨⟨evs, ht, hev⟩, _⟩ | ⟨p, _, ht, _⟩
  · intro q st invs hm
    rw [ht] at hm
    rcases List.mem_append.mp hm with hm | hm
    · exact h q st invs hm
    · have := hev _ hm; simp [isRpass] at this
  · intro q st invs hm
    rw [ht] at hm
    rcases List.mem_append.mp hm with hm | hm
    · exact h q st invs hm
    · simp at hm
      obtain ⟨rfl, rfl, rfl⟩ := hm
      exact ⟨s.toFState.rcalls, runRecv_invs _ _ _⟩

theorem run_PassesExact (c : Cfg) (n : Nat) (s : St) (h : PassesExact c s.trace) : PassesExact c (run c n s).trace := by
  induction n generalizing s with
  | zero => exact h
  | succ n ih => exact ih _ (step_PassesExact c s h)

theorem init_PassesExact (c : Cfg) : PassesExact c init.trace := by
  intro p st invs hm; simp [init] at hm

end MosnVerif.Model.FilterRegs
