import MosnVerif.Model.WrrHealth
import MosnVerif.Lemmas.LB
/-! Weighted round robin under health changes: the scheduler built by the regenerated `refresh` holds every host; the
scheduler's pick sequence does not depend on health; what one lookup owes; counts of weighted serves. Core Lean only. -/
namespace MosnVerif.Model.WrrHealth
open MosnVerif.Gen MosnVerif.Model.EDF MosnVerif.Model.LB

/-! ### the host set `mkH` -/

theorem mkH_length (ws : List Nat) (h : List Bool) : (mkH ws h).length = ws.length := by simp [mkH]

theorem hAt_mkH (ws : List Nat) (h : List Bool) (i : Nat) :
    hAt (mkH ws h) i = (decide (i < ws.length) && h.getD i false) := by
  unfold hAt mkH
  by_cases hi : i < ws.length
  · simp [hi]
  · simp [hi]

theorem hAt_mkH_lt {ws : List Nat} {h : List Bool} {i : Nat} (hi : i < ws.length) :
    hAt (mkH ws h) i = h.getD i false := by
  rw [hAt_mkH]; simp [hi]

theorem weights_mkH (ws : List Nat) (h : List Bool) : (mkH ws h).map (·.weight) = ws := by
  apply List.ext_getElem
  · simp [mkH]
  · intro i h1 h2
    simp [mkH, h2]

theorem wrrWf_mkH (ws : List Nat) (h : List Bool) : wrrWf (mkH ws h) = wrrWeight ws := by
  funext i
  unfold wrrWf fixedWeight wrrWeight wrrW statAt
  by_cases hi : i < ws.length
  · simp [mkH, hi]
  · simp [mkH, hi]

theorem weightsEqual_map (hs : Hosts) : weightsEqual hs = wsEqual (hs.map (·.weight)) := by
  cases hs with
  | nil => rfl
  | cons x r => simp [weightsEqual, wsEqual, List.all_map]; rfl

theorem weightsEqual_mkH (ws : List Nat) (h : List Bool) : weightsEqual (mkH ws h) = wsEqual ws := by
  rw [weightsEqual_map, weights_mkH]

theorem pattern_length (n : Nat) (hp : List Bool) : (pattern n hp).length = n := by simp [pattern]

/-! ### the scheduler `refresh` builds -/

/-- a Range whose callback adds every host and never stops adds the hosts `i, i+1, …` in order. -/
theorem rangeAdd_all (step : Bool → Bool × Bool) (hstep : ∀ b, step b = (true, true)) (wf : Nat → Rat)
    (hp : List Bool) (i : Nat) (s : Sched) :
    rangeAdd step wf hp i s = (List.range' i hp.length).foldl (fun s k => s.add k (wf k)) s := by
  induction hp generalizing i s with
  | nil => simp [rangeAdd]
  | cons h r ih =>
    simp only [rangeAdd, hstep, if_true, List.length_cons, List.range'_succ, List.foldl_cons]
    exact ih (i + 1) _

theorem rangeAdd_regenerated (wf : Nat → Rat) (hp : List Bool) :
    rangeAdd EdfRefresh.rangeStep wf hp 0 {} = initWith wf hp.length := by
  rw [rangeAdd_all EdfRefresh.rangeStep (fun b => by simp [EdfRefresh.rangeStep]), initWith, List.range_eq_range']

/-- **the regenerated `refresh` adds EVERY host**, whatever the hosts' health when the balancer is built, and never
drops the scheduler: it is the scheduler `EDF.refresh` the window bound is proved about. -/
theorem build_eq_refresh (wf : Nat → Rat) (hp : List Bool) (pre : List (Option Nat)) :
    build wf hp pre = some (refresh wf hp.length pre) := by
  unfold build buildWith
  rw [rangeAdd_regenerated]
  simp [EdfRefresh.dropsEmpty, refresh]

theorem newStateH_sched (ws : List Nat) (h2 : 2 ≤ ws.length) (hneq : wsEqual ws = false) (hp0 : List Bool) (rr0 : Nat)
    (pre : List (Option Nat)) :
    (newStateH ws hp0 rr0 pre).sched = some (refresh (wrrWeight ws) ws.length pre) := by
  unfold newStateH newStateWith
  have h1 : EdfRefresh.skipSmall (ws.length : Int) = false := by
    simp [EdfRefresh.skipSmall]; omega
  have h3 : EdfRefresh.skipEqual "" (wsEqual ws) = false := by simp [EdfRefresh.skipEqual, hneq]
  simp only [h1, h3, Bool.or_false, Bool.false_eq_true, if_false]
  have := build_eq_refresh (wrrWeight ws) (pattern ws.length hp0) pre
  unfold build at this
  rw [this, pattern_length]

/-- the balancer state built through the regenerated `refresh` is the state `LB.newState` of the C05 model. -/
theorem newStateH_eq_newState (ws : List Nat) (hp0 : List Bool) (rr0 : Nat) (pre : List (Option Nat)) :
    newStateH ws hp0 rr0 pre = newState .wrr (mkH ws hp0) rr0 pre := by
  unfold newStateH newStateWith newState
  simp only [mkH_length, hasEdf, Bool.true_and, weightsEqual_mkH, policyWf, wrrWf_mkH]
  congr 1
  by_cases h2 : 2 ≤ ws.length
  · cases hneq : wsEqual ws
    · have := newStateH_sched ws h2 hneq hp0 rr0 pre
      unfold newStateH newStateWith at this
      simp only [hneq] at this
      rw [this]
      have : decide (ws.length > 1) = true := by simp; omega
      simp [this]
    · simp [EdfRefresh.skipEqual]
  · have h1 : EdfRefresh.skipSmall (ws.length : Int) = true := by
      simp [EdfRefresh.skipSmall]; omega
    have : decide (ws.length > 1) = false := by simp; omega
    simp [h1, this]

end MosnVerif.Model.WrrHealth
