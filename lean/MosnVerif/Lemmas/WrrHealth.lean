import MosnVerif.Model.WrrHealth
import MosnVerif.Lemmas.LB
/-! Weighted round robin under health changes: the scheduler built by the regenerated `refresh` holds every host; the
scheduler's pick sequence does not depend on health; what one lookup owes; counts of weighted serves. Core Lean only. -/
namespace MosnVerif.Model.WrrHealth
open MosnVerif.Gen MosnVerif.Model.EDF MosnVerif.Model.LB

/-! ### the host set `mkH` -/

theorem mkH_length (ws : List Nat) (h : List Bool) : (mkH ws h).length = ws.length := by simp [mkH]

theorem hAt_mkH (ws : List Nat) (h : List Bool) (i : Nat) :
    hAt (mkH ws h) i = (decide (i < ws.length) && h.getD i false) := by
  unfold hAt mkH
  by_cases hi : i < ws.length
  · simp [hi]
  · simp [hi]

theorem hAt_mkH_lt {ws : List Nat} {h : List Bool} {i : Nat} (hi : i < ws.length) :
    hAt (mkH ws h) i = h.getD i false := by
  rw [hAt_mkH]; simp [hi]

theorem weights_mkH (ws : List Nat) (h : List Bool) : (mkH ws h).map (·.weight) = ws := by
  apply List.ext_getElem
  · simp [mkH]
  · intro i h1 h2
    simp [mkH, h2]

theorem wrrWf_mkH (ws : List Nat) (h : List Bool) : wrrWf (mkH ws h) = wrrWeight ws := by
  funext i
  unfold wrrWf fixedWeight wrrWeight wrrW statAt
  by_cases hi : i < ws.length
  · simp [mkH, hi]
  · simp [mkH, hi]

theorem weightsEqual_map (hs : Hosts) : weightsEqual hs = wsEqual (hs.map (·.weight)) := by
  cases hs with
  | nil => rfl
  | cons x r => simp [weightsEqual, wsEqual, List.all_map]; rfl

theorem weightsEqual_mkH (ws : List Nat) (h : List Bool) : weightsEqual (mkH ws h) = wsEqual ws := by
  rw [weightsEqual_map, weights_mkH]

theorem pattern_length (n : Nat) (hp : List Bool) : (pattern n hp).length = n := by simp [pattern]

/-! ### the scheduler `refresh` builds -/

/-- a Range whose callback adds every host and never stops adds the hosts `i, i+1, …` in order. -/
theorem rangeAdd_all (step : Bool → Bool × Bool) (hstep : ∀ b, step b = (true, true)) (wf : Nat → Rat)
    (hp : List Bool) (i : Nat) (s : Sched) :
    rangeAdd step wf hp i s = (List.range' i hp.length).foldl (fun s k => s.add k (wf k)) s := by
  induction hp generalizing i s with
  | nil => simp [rangeAdd]
  | cons h r ih =>
    simp only [rangeAdd, hstep, if_true, List.length_cons, List.range'_succ, List.foldl_cons]
    exact ih (i + 1) _

theorem rangeAdd_regenerated (wf : Nat → Rat) (hp : List Bool) :
    rangeAdd EdfRefresh.rangeStep wf hp 0 {} = initWith wf hp.length := by
  rw [rangeAdd_all EdfRefresh.rangeStep (fun b => by simp [EdfRefresh.rangeStep]), initWith, List.range_eq_range']

/-- **the regenerated `refresh` adds EVERY host**, whatever the hosts' health when the balancer is built, and never
drops the scheduler: it is the scheduler `EDF.refresh` the window bound is proved about. -/
theorem build_eq_refresh (wf : Nat → Rat) (hp : List Bool) (pre : List (Option Nat)) :
    build wf hp pre = some (refresh wf hp.length pre) := by
  unfold build buildWith
  rw [rangeAdd_regenerated]
  simp [EdfRefresh.dropsEmpty, refresh]

theorem newStateH_sched (ws : List Nat) (h2 : 2 ≤ ws.length) (hneq : wsEqual ws = false) (hp0 : List Bool) (rr0 : Nat)
    (pre : List (Option Nat)) :
    (newStateH ws hp0 rr0 pre).sched = some (refresh (wrrWeight ws) ws.length pre) := by
  unfold newStateH newStateWith
  have h1 : EdfRefresh.skipSmall (ws.length : Int) = false := by
    simp [EdfRefresh.skipSmall]; omega
  have h3 : EdfRefresh.skipEqual "" (wsEqual ws) = false := by simp [EdfRefresh.skipEqual, hneq]
  simp only [h1, h3, Bool.or_false, Bool.false_eq_true, if_false]
  have := build_eq_refresh (wrrWeight ws) (pattern ws.length hp0) pre
  unfold build at this
  rw [this, pattern_length]

/-- the balancer state built through the regenerated `refresh` is the state `LB.newState` of the C05 model. -/
theorem newStateH_eq_newState (ws : List Nat) (hp0 : List Bool) (rr0 : Nat) (pre : List (Option Nat)) :
    newStateH ws hp0 rr0 pre = newState .wrr (mkH ws hp0) rr0 pre := by
  unfold newStateH newStateWith newState
  simp only [mkH_length, hasEdf, Bool.true_and, weightsEqual_mkH, policyWf, wrrWf_mkH]
  congr 1
  by_cases h2 : 2 ≤ ws.length
  · cases hneq : wsEqual ws
    · have := newStateH_sched ws h2 hneq hp0 rr0 pre
      unfold newStateH newStateWith at this
      simp only [hneq] at this
      rw [this]
      have : decide (ws.length > 1) = true := by simp; omega
      simp [this]
    · simp [EdfRefresh.skipEqual]
  · have h1 : EdfRefresh.skipSmall (ws.length : Int) = true := by
      simp [EdfRefresh.skipSmall]; omega
    have : decide (ws.length > 1) = false := by simp; omega
    simp [h1, this]

/-! ### the scheduler under lookups: its picks do not depend on health -/

/-- the scheduler of a balancer over `ws`: invariant, item-determined weights, one entry per host. -/
def SchedOK (ws : List Nat) (s : Sched) : Prop :=
  Inv s ∧ StaticW s (wrrWeight ws) ∧ s.entries.map (·.item) = List.range ws.length

theorem wrrWeight_pos (ws : List Nat) (k : Nat) : 0 < wrrWeight ws k := Rat.intCast_pos.mpr (wrrW_pos ws k)

theorem refresh_ok (ws : List Nat) (pre : List (Option Nat)) : SchedOK ws (refresh (wrrWeight ws) ws.length pre) :=
  refresh_facts _ (wrrWeight_pos ws) _ _

theorem next_some {ws : List Nat} {s : Sched} (hok : SchedOK ws s) (hn : 0 < ws.length) (wf : Nat → Rat)
    (hint : Option Nat) : ∃ i s', s.nextAndPush wf hint = some (i, s') := by
  have hne : s.entries ≠ [] := by
    intro h
    have := hok.2.2
    rw [h] at this
    simp at this
    rw [this] at hn
    simp at hn
  have hpick : ∃ e, s.pick hint = some e := by
    unfold Sched.pick
    split
    · rename_i e _; exact ⟨e, rfl⟩
    · have := minEntry_isSome hne
      cases hm : minEntry s.entries with
      | none => rw [hm] at this; simp at this
      | some e => exact ⟨e, rfl⟩
  obtain ⟨e, he⟩ := hpick
  unfold Sched.nextAndPush; rw [he]; exact ⟨_, _, rfl⟩

theorem next_ok {ws : List Nat} {s s' : Sched} {i : Nat} {hint : Option Nat} (hok : SchedOK ws s)
    (hn : s.nextAndPush (wrrWeight ws) hint = some (i, s')) : SchedOK ws s' ∧ i < ws.length := by
  obtain ⟨h1, h2, h3⟩ := hok
  obtain ⟨hi, hitems, _⟩ := next_deadlines h1 hn
  refine ⟨⟨inv_next h1 (wrrWeight_pos ws) hn, static_next h2 hn, hitems.trans h3⟩, ?_⟩
  rw [h3] at hi
  simpa using hi

theorem run_cons_some {s s' : Sched} {wf : Nat → Rat} {h : Option Nat} {i : Nat} (t : List (Option Nat))
    (hn : s.nextAndPush wf h = some (i, s')) : s.run wf (h :: t) = (i :: (s'.run wf t).1, (s'.run wf t).2) := by
  rw [Sched.run]
  simp only [hn]

/-- runs compose (when the first one is not cut short by an empty queue). -/
theorem run_append (wf : Nat → Rat) (H1 H2 : List (Option Nat)) (s : Sched)
    (hl : (s.run wf H1).1.length = H1.length) :
    s.run wf (H1 ++ H2) = ((s.run wf H1).1 ++ ((s.run wf H1).2.run wf H2).1, ((s.run wf H1).2.run wf H2).2) := by
  induction H1 generalizing s with
  | nil => simp [Sched.run]
  | cons h t ih =>
    cases hn : s.nextAndPush wf h with
    | none =>
      rw [Sched.run] at hl
      simp [hn] at hl
    | some p =>
      obtain ⟨i, s'⟩ := p
      rw [run_cons_some t hn] at hl ⊢
      simp only [List.length_cons, Nat.add_right_cancel_iff] at hl
      rw [List.cons_append, run_cons_some (t ++ H2) hn, ih s' hl]
      simp

theorem loopH_edfLoop (hs : Hosts) (wf : Nat → Rat) (k : Nat) (s : Sched) (hints : List (Option Nat)) :
    (loopH hs wf k s hints).2 = edfLoop hs wf k s hints := by
  induction k generalizing s hints with
  | zero => rfl
  | succ k ih =>
    unfold loopH edfLoop
    cases hn : s.nextAndPush wf (hints.headD none) with
    | none => rfl
    | some p =>
      obtain ⟨i, s'⟩ := p
      simp only
      split
      · rfl
      · exact ih s' hints.tail

/-- the picks of one weighted loop are a run of the scheduler (whatever the health pattern). -/
theorem loopH_run (ws : List Nat) (hs : Hosts) (hn : 0 < ws.length) (k : Nat) (s : Sched) (hok : SchedOK ws s)
    (hints : List (Option Nat)) :
    ∃ H, s.run (wrrWeight ws) H = ((loopH hs (wrrWeight ws) k s hints).1, (loopH hs (wrrWeight ws) k s hints).2.2.1) ∧
      H.length = (loopH hs (wrrWeight ws) k s hints).1.length ∧ SchedOK ws (loopH hs (wrrWeight ws) k s hints).2.2.1 := by
  induction k generalizing s hints with
  | zero => exact ⟨[], by simp [loopH, Sched.run], by simp [loopH], by simpa [loopH] using hok⟩
  | succ k ih =>
    obtain ⟨i, s', hnp⟩ := next_some hok hn (wrrWeight ws) (hints.headD none)
    obtain ⟨hok', _⟩ := next_ok hok hnp
    unfold loopH
    simp only [hnp]
    split
    · exact ⟨[hints.headD none], by rw [run_cons_some [] hnp]; simp [Sched.run], by simp, hok'⟩
    · obtain ⟨H, h1, h2, h3⟩ := ih s' hok' hints.tail
      refine ⟨hints.headD none :: H, ?_, by simp [h2], h3⟩
      rw [run_cons_some H hnp, h1]

/-- what the weighted loop guarantees: picks are hosts of the set; every pick but the last one was unhealthy; a result is
the last pick and healthy; without result all `k` picks were unhealthy. -/
theorem loopH_facts (ws : List Nat) (hs : Hosts) (hn : 0 < ws.length) (k : Nat) (s : Sched) (hok : SchedOK ws s)
    (hints : List (Option Nat)) :
    (∀ x ∈ (loopH hs (wrrWeight ws) k s hints).1, x < ws.length) ∧
    (∀ x ∈ (loopH hs (wrrWeight ws) k s hints).1.dropLast, hAt hs x = false) ∧
    (∀ i, (loopH hs (wrrWeight ws) k s hints).2.1 = some i →
      (loopH hs (wrrWeight ws) k s hints).1.getLast? = some i ∧ hAt hs i = true) ∧
    ((loopH hs (wrrWeight ws) k s hints).2.1 = none →
      (loopH hs (wrrWeight ws) k s hints).1.length = k ∧ ∀ x ∈ (loopH hs (wrrWeight ws) k s hints).1, hAt hs x = false) := by
  induction k generalizing s hints with
  | zero => simp [loopH]
  | succ k ih =>
    obtain ⟨i, s', hnp⟩ := next_some hok hn (wrrWeight ws) (hints.headD none)
    obtain ⟨hok', hi⟩ := next_ok hok hnp
    unfold loopH
    simp only [hnp]
    split
    · rename_i hh
      refine ⟨by simpa using hi, by simp, ?_, by simp⟩
      intro j hj
      simp only [Option.some.injEq] at hj
      subst hj
      exact ⟨by simp, hh⟩
    · rename_i hh
      simp only [Bool.not_eq_true] at hh
      obtain ⟨f1, f2, f3, f4⟩ := ih s' hok' hints.tail
      generalize loopH hs (wrrWeight ws) k s' hints.tail = r at f1 f2 f3 f4
      obtain ⟨picks, res, s2, h2⟩ := r
      simp only at f1 f2 f3 f4 ⊢
      refine ⟨?_, ?_, ?_, ?_⟩
      · intro x hx
        simp only [List.mem_cons] at hx
        rcases hx with rfl | hx
        · exact hi
        · exact f1 x hx
      · cases picks with
        | nil => simp
        | cons y ys =>
          intro x hx
          simp only [List.dropLast_cons_cons, List.mem_cons] at hx
          rcases hx with rfl | hx
          · exact hh
          · exact f2 x hx
      · intro j hj
        obtain ⟨g1, g2⟩ := f3 j hj
        refine ⟨?_, g2⟩
        cases picks with
        | nil => simp at g1
        | cons y ys => simpa using g1
      · intro hnone
        obtain ⟨g1, g2⟩ := f4 hnone
        refine ⟨by simp [g1], ?_⟩
        intro x hx
        simp only [List.mem_cons] at hx
        rcases hx with rfl | hx
        · exact hh
        · exact g2 x hx

theorem loopH_nonempty (ws : List Nat) (hs : Hosts) (hn : 0 < ws.length) (k : Nat) (s : Sched) (hok : SchedOK ws s)
    (hints : List (Option Nat)) : (loopH hs (wrrWeight ws) (k + 1) s hints).1 ≠ [] := by
  obtain ⟨i, s', hnp⟩ := next_some hok hn (wrrWeight ws) (hints.headD none)
  unfold loopH
  simp only [hnp]
  split <;> simp

/-! ### one lookup -/

theorem good_specChoice {hs : Hosts} {r : Option Nat} (g : Good hs r) : specChoice hs r = true := by
  unfold specChoice
  split
  · rename_i i
    have := g.1 i rfl
    simp [this, hAt_lt this]
  · have := g.2 rfl
    cases ha : anyHealthy hs
    · rfl
    · obtain ⟨i, hi⟩ := (anyHealthy_iff hs).mp ha
      rw [this i] at hi; simp at hi

theorem weighted_of_last {r : Rec} {l : Nat} (h : r.picks.getLast? = some l) : r.weighted = r.healthyAt l := by
  unfold Rec.weighted; rw [h]

/-- one `ChooseHost` of a balancer with a scheduler over ≥ 2 hosts, in terms of the traced loop. -/
theorem look_step (ws : List Nat) (h2 : 2 ≤ ws.length) (health : List Bool) (st : LBState) (s : Sched)
    (hst : st.sched = some s) (hints : List (Option Nat)) :
    (wrrChoose (mkH ws health) st { hints := hints }).st.sched =
        some (loopH (mkH ws health) (wrrWeight ws) ws.length s hints).2.2.1 ∧
    picksOf (mkH ws health) st hints = (loopH (mkH ws health) (wrrWeight ws) ws.length s hints).1 ∧
    (∀ i, (loopH (mkH ws health) (wrrWeight ws) ws.length s hints).2.1 = some i →
      (wrrChoose (mkH ws health) st { hints := hints }).result = some i) ∧
    ((loopH (mkH ws health) (wrrWeight ws) ws.length s hints).2.1 = none →
      Good (mkH ws health) (wrrChoose (mkH ws health) st { hints := hints }).result) := by
  have e := loopH_edfLoop (mkH ws health) (wrrWeight ws) ws.length s hints
  have h0 : ¬ ws.length = 0 := by omega
  have h1 : ¬ ws.length = 1 := by omega
  have hle : ¬ ws.length ≤ 1 := by omega
  have hp : picksOf (mkH ws health) st hints = (loopH (mkH ws health) (wrrWeight ws) ws.length s hints).1 := by
    unfold picksOf
    simp only [mkH_length, hle, if_false, hst, wrrWf_mkH]
  refine ⟨?_, hp, ?_, ?_⟩
  all_goals
    unfold wrrChoose edfFront
    simp only [mkH_length, h0, h1, if_false, hst, wrrWf_mkH, ← e]
    generalize loopH (mkH ws health) (wrrWeight ws) ws.length s hints = r
    obtain ⟨picks, res, s2, hl⟩ := r
    cases res with
    | none => first | (simp; done) | (simp; exact rrChoose_good _ _)
    | some j => simp

/-- the record of a model lookup satisfies the per-lookup predicate. -/
theorem look_lookupOk (ws : List Nat) (h2 : 2 ≤ ws.length) (health : List Bool) (st : LBState) (s : Sched)
    (hst : st.sched = some s) (hok : SchedOK ws s) (hints : List (Option Nat)) :
    lookupOk ws { health := health, picks := picksOf (mkH ws health) st hints,
                  result := (wrrChoose (mkH ws health) st { hints := hints }).result } = true := by
  have hn : 0 < ws.length := by omega
  obtain ⟨_, hp, hsome, hnone⟩ := look_step ws h2 health st s hst hints
  obtain ⟨f1, f2, f3, f4⟩ := loopH_facts ws (mkH ws health) hn ws.length s hok hints
  have hne : (loopH (mkH ws health) (wrrWeight ws) ws.length s hints).1 ≠ [] := by
    obtain ⟨k, hk⟩ : ∃ k, ws.length = k + 1 := ⟨ws.length - 1, by omega⟩
    rw [hk]; rw [hk] at hn
    have := loopH_nonempty ws (mkH ws health) (by omega) k s hok hints
    exact this
  rw [hp]
  generalize hr : (wrrChoose (mkH ws health) st { hints := hints }).result = res at hsome hnone
  generalize hl : loopH (mkH ws health) (wrrWeight ws) ws.length s hints = lp at f1 f2 f3 f4 hne hsome hnone
  obtain ⟨picks, lres, s2, hleft⟩ := lp
  simp only at f1 f2 f3 f4 hne hsome hnone
  unfold lookupOk
  simp only [Bool.and_eq_true, List.all_eq_true, decide_eq_true_eq, Bool.or_eq_true, Bool.not_eq_true']
  refine ⟨⟨⟨f1, ?_⟩, ?_⟩, ?_⟩
  · intro x hx
    have hm := List.dropLast_subset _ hx
    have := f2 x hx
    rw [hAt_mkH_lt (f1 x hm)] at this
    simpa [Rec.healthyAt] using this
  · right
    cases picks with
    | nil => exact absurd rfl hne
    | cons y ys => rfl
  · cases lres with
    | some i =>
      obtain ⟨g1, g2⟩ := f3 i rfl
      have hi := f1 i (List.mem_of_getLast? g1)
      rw [hAt_mkH_lt hi] at g2
      have hw : ({ health := health, picks := picks, result := res } : Rec).weighted = true := by
        rw [weighted_of_last (l := i) g1]; exact g2
      rw [hw]
      simp only [if_true]
      rw [hsome i rfl, g1]
      simp
    | none =>
      obtain ⟨g1, g2⟩ := f4 rfl
      have hw : ({ health := health, picks := picks, result := res } : Rec).weighted = false := by
        cases hlast : picks.getLast? with
        | none => simp [Rec.weighted, hlast]
        | some l =>
          rw [weighted_of_last (l := l) hlast]
          have hm := List.mem_of_getLast? hlast
          have := g2 l hm
          rw [hAt_mkH_lt (f1 l hm)] at this
          exact this
      rw [hw]
      simp only [Bool.false_eq_true, if_false, Bool.and_eq_true, Bool.or_eq_true, Bool.not_eq_true', beq_iff_eq]
      exact ⟨Or.inr g1, good_specChoice (hnone rfl)⟩

/-! ### sequences of health flips and lookups -/

/-- all scheduler picks of a sequence of lookups, in order. -/
def allPicks (recs : List Rec) : List Nat := recs.flatMap (·.picks)

/-- **the scheduler does not see health**: over any sequence of health flips and lookups the scheduler picks made by
the lookups (skipped and served ones), concatenated, are ONE run of the scheduler the sequence started with; the
balancer keeps a scheduler over all hosts; and every lookup satisfies the per-lookup predicate. -/
theorem runEv_facts (ws : List Nat) (h2 : 2 ≤ ws.length) (evs : List Ev) (health : List Bool) (st : LBState) (s : Sched)
    (hst : st.sched = some s) (hok : SchedOK ws s) :
    ∃ H s', (runEv ws health st evs).2.2.sched = some s' ∧ SchedOK ws s' ∧
      s.run (wrrWeight ws) H = (allPicks (runEv ws health st evs).1, s') ∧
      H.length = (allPicks (runEv ws health st evs).1).length ∧
      ∀ r ∈ (runEv ws health st evs).1, lookupOk ws r = true := by
  induction evs generalizing health st s with
  | nil => exact ⟨[], s, by simpa [runEv] using hst, hok, by simp [runEv, allPicks, Sched.run], by simp [runEv, allPicks], by simp [runEv]⟩
  | cons e r ih =>
    cases e with
    | flip i b =>
      simp only [runEv, stepEv]
      exact ih (health.set i b) st s hst hok
    | look hints =>
      have hn : 0 < ws.length := by omega
      obtain ⟨q1, q2, _, _⟩ := look_step ws h2 health st s hst hints
      obtain ⟨H1, r1, r2, r3⟩ := loopH_run ws (mkH ws health) hn ws.length s hok hints
      have hl := look_lookupOk ws h2 health st s hst hok hints
      obtain ⟨H2, s', i1, i2, i3, i4, i5⟩ := ih health (wrrChoose (mkH ws health) st { hints := hints }).st _ q1 r3
      simp only [runEv, stepEv]
      refine ⟨H1 ++ H2, s', i1, i2, ?_, ?_, ?_⟩
      · rw [run_append _ _ _ _ (by rw [r1]; exact r2.symm), r1]
        simp only [i3, allPicks, List.flatMap_cons, q2]
      · simp only [allPicks, List.flatMap_cons, List.length_append, q2] at i4 ⊢
        rw [r2, i4]
      · intro x hx
        simp only [List.mem_cons] at hx
        rcases hx with rfl | hx
        · exact hl
        · exact i5 x hx

/-! ### counting weighted serves -/

theorem lookupOk_parts {ws : List Nat} {r : Rec} (h : lookupOk ws r = true) :
    (∀ x ∈ r.picks, x < ws.length) ∧ (∀ x ∈ r.picks.dropLast, r.healthyAt x = false) ∧
    (expectSched ws = true → r.picks ≠ []) ∧
    (r.weighted = true → r.result = r.picks.getLast?) := by
  unfold lookupOk at h
  simp only [Bool.and_eq_true, List.all_eq_true, decide_eq_true_eq, Bool.or_eq_true, Bool.not_eq_true'] at h
  obtain ⟨⟨⟨a, b⟩, c⟩, d⟩ := h
  refine ⟨a, b, ?_, ?_⟩
  · intro he
    rcases c with c | c
    · rw [he] at c; simp at c
    · intro hnil; rw [hnil] at c; simp at c
  · intro hw
    rw [hw] at d
    simpa using d

/-- a lookup that sees host `i` healthy picks `i` exactly when it serves `i` by a weighted pick. -/
theorem count_picks_of_ok {ws : List Nat} {r : Rec} (hok : lookupOk ws r = true) {i : Nat}
    (hi : r.healthyAt i = true) : r.picks.count i = if (r.weighted && r.result == some i) then 1 else 0 := by
  obtain ⟨_, b, _, d⟩ := lookupOk_parts hok
  cases hlast : r.picks.getLast? with
  | none =>
    have : r.picks = [] := List.getLast?_eq_none_iff.mp hlast
    simp [this, Rec.weighted]
  | some l =>
    obtain ⟨ys, hys⟩ := List.getLast?_eq_some_iff.mp hlast
    have hd : r.picks.dropLast = ys := by rw [hys]; simp
    have hnot : i ∉ ys := by
      intro hm
      have := b i (by rw [hd]; exact hm)
      rw [hi] at this; simp at this
    rw [hys, List.count_append, List.count_eq_zero_of_not_mem hnot, weighted_of_last hlast]
    by_cases hli : l = i
    · subst hli
      have hres := d (by rw [weighted_of_last hlast]; exact hi)
      rw [hlast] at hres
      simp [hi, hres]
    · have hil : i ≠ l := fun h => hli h.symm
      have h0 : List.count i [l] = 0 := by simp [hli]
      rw [h0]
      cases hw : r.healthyAt l
      · simp
      · have hres := d (by rw [weighted_of_last hlast]; exact hw)
        rw [hlast] at hres
        simp [hres, hli]

theorem count_allPicks {ws : List Nat} {recs : List Rec} (hok : ∀ r ∈ recs, lookupOk ws r = true) {i : Nat}
    (hi : healthyThroughout recs i = true) : (allPicks recs).count i = served recs i := by
  induction recs with
  | nil => rfl
  | cons r rs ih =>
    simp only [healthyThroughout, List.all_cons, Bool.and_eq_true] at hi
    have h1 := count_picks_of_ok (hok r List.mem_cons_self) hi.1
    have h2 := ih (fun x hx => hok x (List.mem_cons_of_mem _ hx)) hi.2
    simp only [allPicks, List.flatMap_cons, List.count_append, served, List.countP_cons] at h2 ⊢
    rw [h1, h2]
    omega

theorem length_allPicks {ws : List Nat} {recs : List Rec} (he : expectSched ws = true)
    (hok : ∀ r ∈ recs, lookupOk ws r = true) : recs.length ≤ (allPicks recs).length := by
  induction recs with
  | nil => simp
  | cons r rs ih =>
    have h1 := (lookupOk_parts (hok r List.mem_cons_self)).2.2.1 he
    have h2 := ih (fun x hx => hok x (List.mem_cons_of_mem _ hx))
    have : 0 < r.picks.length := List.length_pos_iff.mpr h1
    simp only [allPicks, List.flatMap_cons, List.length_append, List.length_cons] at h2 ⊢
    omega

theorem allPicks_lt {ws : List Nat} {recs : List Rec} (hok : ∀ r ∈ recs, lookupOk ws r = true) :
    ∀ x ∈ allPicks recs, x < ws.length := by
  intro x hx
  simp only [allPicks, List.mem_flatMap] at hx
  obtain ⟨r, hr, hxr⟩ := hx
  exact (lookupOk_parts (hok r hr)).1 x hxr

/-! ### the lag bound on scheduler runs, integer form -/

theorem run_lag_int (ws : List Nat) (s : Sched) (hok : SchedOK ws s) (H : List (Option Nat)) (i j : Nat)
    (hi : i < ws.length) (hj : j < ws.length) :
    (((s.run (wrrWeight ws) H).1.count i : Nat) : Int) * wrrW ws j -
      (((s.run (wrrWeight ws) H).1.count j : Nat) : Int) * wrrW ws i ≤ wrrW ws i + wrrW ws j := by
  obtain ⟨h1, h2, h3⟩ := hok
  obtain ⟨ei, hei, rfl⟩ := mem_of_item_mem (l := s.entries) (i := i) (by rw [h3]; simpa using hi)
  obtain ⟨ej, hej, rfl⟩ := mem_of_item_mem (l := s.entries) (i := j) (by rw [h3]; simpa using hj)
  have a := lag_interval (wrrW ws) (wrrW_pos ws) H s h1 h2 hei hej
  have b := lag_interval (wrrW ws) (wrrW_pos ws) [] s h1 h2 hei hej
  simp only [Sched.run, lagVal, List.count_nil, Int.natCast_zero, Int.zero_mul, Int.sub_self] at b
  have hle : ((lagVal (wrrW ws ei.item) (wrrW ws ej.item) ei.item ej.item
      (s.run (fun k => ((wrrW ws k : Int) : Rat)) H).1 : Int) : Rat) ≤ ((wrrW ws ei.item + wrrW ws ej.item : Int) : Rat) := by
    rw [Rat.intCast_add]
    have b1 := b.1
    have a2 := a.2
    simp only [Rat.intCast_zero] at b1
    grind
  have := Rat.intCast_le_intCast.mp hle
  unfold lagVal at this
  exact this

/-! ### a host that waits: how many picks can pass -/

theorem sum_map_le {l : List Nat} {f g : Nat → Nat} (h : ∀ j ∈ l, f j ≤ g j) : (l.map f).sum ≤ (l.map g).sum := by
  induction l with
  | nil => simp
  | cons a r ih =>
    have h1 := h a List.mem_cons_self
    have h2 := ih (fun j hj => h j (List.mem_cons_of_mem _ hj))
    simp only [List.map_cons, List.sum_cons]
    omega

theorem sum_map_mul (l : List Nat) (f : Nat → Nat) (c : Nat) : (l.map f).sum * c = (l.map (fun j => f j * c)).sum := by
  induction l with
  | nil => simp
  | cons a r ih => simp only [List.map_cons, List.sum_cons, Nat.add_mul, ih]

theorem sum_map_add (l : List Nat) (f g : Nat → Nat) :
    (l.map (fun j => f j + g j)).sum = (l.map f).sum + (l.map g).sum := by
  induction l with
  | nil => simp
  | cons a r ih => simp only [List.map_cons, List.sum_cons, ih]; omega

theorem sum_map_const (l : List Nat) (c : Nat) : (l.map (fun _ => c)).sum = l.length * c := by
  induction l with
  | nil => simp
  | cons a r ih => simp only [List.map_cons, List.sum_cons, ih, List.length_cons, Nat.add_mul]; omega

theorem sum_indicator (n x : Nat) :
    ((List.range n).map (fun j => if x = j then 1 else 0)).sum = if x < n then 1 else 0 := by
  induction n with
  | zero => simp
  | succ n ih =>
    rw [List.range_succ, List.map_append, List.sum_append, ih]
    simp only [List.map_cons, List.map_nil, List.sum_cons, List.sum_nil]
    by_cases h1 : x < n
    · have : ¬ x = n := by omega
      have h2 : x < n + 1 := by omega
      simp [h1, this, h2]
    · by_cases h2 : x = n
      · subst h2; simp
      · have : ¬ x < n + 1 := by omega
        simp [h1, h2, this]

/-- every pick is a host below `n`: the per-host counts add up to the number of picks. -/
theorem length_eq_sum_count (n : Nat) (p : List Nat) (h : ∀ x ∈ p, x < n) :
    ((List.range n).map (fun j => p.count j)).sum = p.length := by
  induction p with
  | nil => simp [sum_map_const]
  | cons x r ih =>
    have hx := h x List.mem_cons_self
    have := ih (fun y hy => h y (List.mem_cons_of_mem _ hy))
    have e : (fun j => (x :: r).count j) = (fun j => r.count j + (if x = j then 1 else 0)) := by
      funext j
      rw [List.count_cons]
      by_cases hxj : x = j <;> simp [hxj]
    rw [e, sum_map_add, this, sum_indicator]
    simp [hx]

/-- effective weights as naturals. -/
def wN (ws : List Nat) (k : Nat) : Nat := (wrrW ws k).toNat

theorem wN_cast (ws : List Nat) (k : Nat) : ((wN ws k : Nat) : Int) = wrrW ws k := by
  unfold wN
  exact Int.toNat_of_nonneg (Int.le_of_lt (wrrW_pos ws k))

theorem wN_pos (ws : List Nat) (k : Nat) : 0 < wN ws k := by
  have := wrrW_pos ws k
  have := wN_cast ws k
  omega

/-- **a waiting host bounds the run**: in a run of the scheduler that never picks host `i`, host `j` is picked at most
`wⱼ/wᵢ + 1` times, so the run is shorter than `⌊Σw/wᵢ⌋ + n + 1`. -/
theorem serve_gap (ws : List Nat) (s : Sched) (hok : SchedOK ws s) (H : List (Option Nat)) (i : Nat) (hi : i < ws.length)
    (hc : (s.run (wrrWeight ws) H).1.count i = 0) (hlt : ∀ x ∈ (s.run (wrrWeight ws) H).1, x < ws.length) :
    (s.run (wrrWeight ws) H).1.length < serveWindow ws i := by
  generalize hp : (s.run (wrrWeight ws) H).1 = picks at hc hlt
  have hj : ∀ j ∈ List.range ws.length, picks.count j * wN ws i ≤ wN ws i + wN ws j := by
    intro j hj
    have hj' : j < ws.length := by simpa using hj
    have := run_lag_int ws s hok H j i hj' hi
    rw [hp, hc, ← wN_cast ws i, ← wN_cast ws j] at this
    simp only [Int.natCast_zero, Int.zero_mul, Int.sub_zero] at this
    have h2 : ((picks.count j * wN ws i : Nat) : Int) ≤ ((wN ws i + wN ws j : Nat) : Int) := by
      rw [Int.natCast_mul, Int.natCast_add]; omega
    exact Int.ofNat_le.mp h2
  have hsum := sum_map_le hj
  rw [← sum_map_mul, length_eq_sum_count ws.length picks hlt, sum_map_add, sum_map_const, List.length_range] at hsum
  unfold serveWindow effW
  have hw := wN_pos ws i
  generalize hT : ((List.range ws.length).map (fun j => wN ws j)).sum = T at hsum
  have hT' : ((List.range ws.length).map (fun j => (wrrW ws j).toNat)).sum = T := hT
  rw [hT']
  show picks.length < T / wN ws i + ws.length + 1
  have h3 := Nat.lt_mul_div_succ T hw
  apply Nat.lt_of_not_le
  intro hge
  have h4 := Nat.mul_le_mul_right (wN ws i) hge
  have h5 : (T / wN ws i + ws.length + 1) * wN ws i = wN ws i * (T / wN ws i + 1) + ws.length * wN ws i := by
    rw [Nat.mul_comm (wN ws i)]
    simp only [Nat.add_mul]
    omega
  omega

/-! ### windows of consecutive lookups -/

/-- the lookups `recs` were made one after the other on a balancer whose scheduler was `s` before the first of them:
their picks, concatenated, are a run of `s`, and each of them satisfies the per-lookup predicate. -/
def IsRun (ws : List Nat) (s : Sched) (recs : List Rec) : Prop :=
  ∃ H s', s.run (wrrWeight ws) H = (allPicks recs, s') ∧ H.length = (allPicks recs).length ∧
    ∀ r ∈ recs, lookupOk ws r = true

theorem run_prefix_full (wf : Nat → Rat) (H1 H2 : List (Option Nat)) (s : Sched)
    (hl : (s.run wf (H1 ++ H2)).1.length = (H1 ++ H2).length) : (s.run wf H1).1.length = H1.length := by
  induction H1 generalizing s with
  | nil => simp [Sched.run]
  | cons h t ih =>
    cases hn : s.nextAndPush wf h with
    | none =>
      rw [List.cons_append, Sched.run] at hl
      simp [hn] at hl
    | some p =>
      obtain ⟨i, s'⟩ := p
      rw [List.cons_append, run_cons_some (t ++ H2) hn] at hl
      rw [run_cons_some t hn]
      simp only [List.length_cons, Nat.add_right_cancel_iff] at hl ⊢
      exact ih s' hl

theorem allPicks_append (A B : List Rec) : allPicks (A ++ B) = allPicks A ++ allPicks B := by
  simp [allPicks]

/-- a run of lookups splits: the later lookups are a run from the (reachable) scheduler the earlier ones leave. -/
theorem isRun_split (ws : List Nat) (s : Sched) (hok : SchedOK ws s) (A B : List Rec) (h : IsRun ws s (A ++ B)) :
    IsRun ws s A ∧ ∃ s1, SchedOK ws s1 ∧ IsRun ws s1 B := by
  obtain ⟨H, s', h1, h2, h3⟩ := h
  rw [allPicks_append] at h1 h2
  rw [List.length_append] at h2
  have hH : H = H.take (allPicks A).length ++ H.drop (allPicks A).length := (List.take_append_drop _ _).symm
  have hlen1 : (H.take (allPicks A).length).length = (allPicks A).length := by
    rw [List.length_take]; omega
  have hfull : (s.run (wrrWeight ws) (H.take (allPicks A).length ++ H.drop (allPicks A).length)).1.length =
      (H.take (allPicks A).length ++ H.drop (allPicks A).length).length := by
    rw [← hH, h1]; simp [h2]
  have hpre := run_prefix_full _ _ _ _ hfull
  have happ := run_append (wrrWeight ws) _ (H.drop (allPicks A).length) s hpre
  rw [← hH, h1] at happ
  have hfst := congrArg Prod.fst happ
  have hsnd := congrArg Prod.snd happ
  simp only at hfst hsnd
  have hinj := List.append_inj hfst (by rw [hpre, hlen1])
  obtain ⟨r1, r2, r3, _, _⟩ := run_facts (wrrWeight ws) (wrrWeight_pos ws) (H.take (allPicks A).length) s hok.1 hok.2.1
  refine ⟨⟨H.take (allPicks A).length, (s.run (wrrWeight ws) (H.take (allPicks A).length)).2, ?_, hlen1,
    fun r hr => h3 r (List.mem_append_left _ hr)⟩, (s.run (wrrWeight ws) (H.take (allPicks A).length)).2,
    ⟨r1, r2, r3.trans hok.2.2⟩, ⟨H.drop (allPicks A).length, s', ?_, ?_, fun r hr => h3 r (List.mem_append_right _ hr)⟩⟩
  · rw [Prod.ext_iff]; exact ⟨hinj.1.symm, rfl⟩
  · rw [Prod.ext_iff]; exact ⟨hinj.2.symm, hsnd.symm⟩
  · rw [List.length_drop]; omega

/-- every window (start `a`, length `len`) of a run of lookups is a run of lookups from a reachable scheduler. -/
theorem isRun_window (ws : List Nat) (s : Sched) (hok : SchedOK ws s) (recs : List Rec) (h : IsRun ws s recs)
    (a len : Nat) : ∃ s1, SchedOK ws s1 ∧ IsRun ws s1 ((recs.drop a).take len) := by
  rw [← List.take_append_drop a recs] at h
  obtain ⟨_, s1, ok1, run1⟩ := isRun_split ws s hok _ _ h
  rw [← List.take_append_drop len (recs.drop a)] at run1
  obtain ⟨run2, _⟩ := isRun_split ws s1 ok1 _ _ run1
  exact ⟨s1, ok1, run2⟩

/-- **served within the window**: a host healthy throughout a window of at least `serveWindow` lookups is served by a
weighted pick in it. -/
theorem isRun_serves (ws : List Nat) (he : expectSched ws = true) (s : Sched) (hok : SchedOK ws s) (recs : List Rec)
    (h : IsRun ws s recs) (i : Nat) (hi : i < ws.length) (hh : healthyThroughout recs i = true)
    (hw : serveWindow ws i ≤ recs.length) : 0 < served recs i := by
  obtain ⟨H, s', h1, _, h3⟩ := h
  apply Nat.pos_of_ne_zero
  intro h0
  have hc : (s.run (wrrWeight ws) H).1.count i = 0 := by rw [h1]; simp only; rw [count_allPicks h3 hh, h0]
  have hlt : ∀ x ∈ (s.run (wrrWeight ws) H).1, x < ws.length := by rw [h1]; exact allPicks_lt h3
  have := serve_gap ws s hok H i hi hc hlt
  rw [h1] at this
  have := length_allPicks he h3
  simp only at *
  omega

/-- **the lag bound over hosts healthy throughout the window** (integer form: multiplied by `wᵢ·wⱼ`). -/
theorem isRun_pair_int (ws : List Nat) (s : Sched) (hok : SchedOK ws s) (recs : List Rec) (h : IsRun ws s recs)
    (i j : Nat) (hi : i < ws.length) (hj : j < ws.length) (hhi : healthyThroughout recs i = true)
    (hhj : healthyThroughout recs j = true) :
    ((served recs i : Nat) : Int) * wrrW ws j - ((served recs j : Nat) : Int) * wrrW ws i ≤ wrrW ws i + wrrW ws j := by
  obtain ⟨H, s', h1, _, h3⟩ := h
  have := run_lag_int ws s hok H i j hi hj
  rw [h1] at this
  simp only at this
  rw [count_allPicks h3 hhi, count_allPicks h3 hhj] at this
  exact this

/-- … and in the statement's form `nᵢ/wᵢ − nⱼ/wⱼ ≤ 1/wᵢ + 1/wⱼ`. -/
theorem isRun_pair_rat (ws : List Nat) (s : Sched) (hok : SchedOK ws s) (recs : List Rec) (h : IsRun ws s recs)
    (i j : Nat) (hi : i < ws.length) (hj : j < ws.length) (hhi : healthyThroughout recs i = true)
    (hhj : healthyThroughout recs j = true) :
    ((served recs i : Nat) : Rat) / wrrWeight ws i - ((served recs j : Nat) : Rat) / wrrWeight ws j
      ≤ 1 / wrrWeight ws i + 1 / wrrWeight ws j := by
  obtain ⟨H, s', h1, _, h3⟩ := h
  obtain ⟨o1, o2, o3⟩ := hok
  obtain ⟨ei, hei, rfl⟩ := mem_of_item_mem (l := s.entries) (i := i) (by rw [o3]; simpa using hi)
  obtain ⟨ej, hej, rfl⟩ := mem_of_item_mem (l := s.entries) (i := j) (by rw [o3]; simpa using hj)
  have := window_bound (wrrWeight ws) (wrrWeight_pos ws) H s o1 o2 hei hej
  rw [h1] at this
  simp only at this
  rw [count_allPicks h3 hhi, count_allPicks h3 hhj] at this
  exact this

theorem isRun_windowOk (ws : List Nat) (he : expectSched ws = true) (s : Sched) (hok : SchedOK ws s) (recs : List Rec)
    (h : IsRun ws s recs) : windowOk ws recs = true := by
  unfold windowOk
  simp only [List.all_eq_true, List.mem_range, Bool.or_eq_true, Bool.not_eq_true', Bool.and_eq_true,
    decide_eq_true_eq]
  intro i hi
  cases hhi : healthyThroughout recs i
  · exact Or.inl rfl
  · right
    refine ⟨?_, ?_⟩
    · by_cases hw : recs.length < serveWindow ws i
      · exact Or.inl hw
      · exact Or.inr (isRun_serves ws he s hok recs h i hi hhi (by omega))
    · intro j hj
      cases hhj : healthyThroughout recs j
      · exact Or.inl rfl
      · right
        unfold pairBound effW
        simp only [decide_eq_true_eq]
        exact isRun_pair_int ws s hok recs h i j hi hj hhi hhj

theorem mem_windows {recs w : List Rec} (h : w ∈ windows recs) : ∃ a len, w = (recs.drop a).take len := by
  unfold windows at h
  simp only [List.mem_flatMap, List.mem_map] at h
  obtain ⟨a, _, len, _, rfl⟩ := h
  exact ⟨a, len, rfl⟩

/-- the executable predicate holds of every run of lookups on a weighted balancer. -/
theorem isRun_specH (ws : List Nat) (he : expectSched ws = true) (s : Sched) (hok : SchedOK ws s) (recs : List Rec)
    (h : IsRun ws s recs) : specH ws recs = true := by
  unfold specH
  simp only [Bool.and_eq_true, List.all_eq_true, Bool.or_eq_true]
  refine ⟨h.choose_spec.choose_spec.2.2, Or.inr ?_⟩
  intro w hw
  obtain ⟨a, len, rfl⟩ := mem_windows hw
  obtain ⟨s1, ok1, run1⟩ := isRun_window ws s hok recs h a len
  exact isRun_windowOk ws he s1 ok1 _ run1

/-- events on a weighted balancer: the records are a run of lookups and the balancer keeps a scheduler. -/
theorem runEv_isRun (ws : List Nat) (h2 : 2 ≤ ws.length) (evs : List Ev) (health : List Bool) (st : LBState) (s : Sched)
    (hst : st.sched = some s) (hok : SchedOK ws s) :
    IsRun ws s (runEv ws health st evs).1 ∧
      ∃ s', (runEv ws health st evs).2.2.sched = some s' ∧ SchedOK ws s' := by
  obtain ⟨H, s', a, b, c, d, e⟩ := runEv_facts ws h2 evs health st s hst hok
  exact ⟨⟨H, s', c, d, e⟩, s', a, b⟩

theorem expectSched_iff (ws : List Nat) : expectSched ws = true ↔ 2 ≤ ws.length ∧ wsEqual ws = false := by
  unfold expectSched
  simp

/-! ### a balancer without scheduler (fewer than two hosts, or equal configured weights) -/

theorem runEv_nosched (ws : List Nat) (he : expectSched ws = false) (evs : List Ev) (health : List Bool) (st : LBState)
    (hst : st.sched = none) :
    (runEv ws health st evs).2.2.sched = none ∧ ∀ r ∈ (runEv ws health st evs).1, lookupOk ws r = true := by
  induction evs generalizing health st with
  | nil => simpa [runEv] using hst
  | cons e r ih =>
    cases e with
    | flip i b =>
      simp only [runEv, stepEv]
      exact ih (health.set i b) st hst
    | look hints =>
      simp only [runEv, stepEv]
      have hp : picksOf (mkH ws health) st hints = [] := by
        unfold picksOf; simp [hst]
      have hst' : (wrrChoose (mkH ws health) st { hints := hints }).st.sched = none := by
        unfold wrrChoose edfFront
        simp only [hst]
        split <;> rename_i heq
        · split at heq <;> first | (split at heq <;> simp at heq <;> (obtain ⟨_, rfl, _⟩ := heq; exact hst)) | skip
          all_goals simp at heq; obtain ⟨_, rfl, _⟩ := heq; exact hst
        · split at heq <;> first | (split at heq <;> simp at heq <;> (obtain ⟨rfl, _⟩ := heq; simpa using hst)) | skip
          all_goals simp at heq
      obtain ⟨i1, i2⟩ := ih health _ hst'
      refine ⟨i1, ?_⟩
      intro x hx
      simp only [List.mem_cons] at hx
      rcases hx with rfl | hx
      · unfold lookupOk
        simp only [hp, he, Rec.weighted]
        have := good_specChoice (wrrChoose_good (mkH ws health) st { hints := hints })
        simp [this]
      · exact i2 x hx

theorem newStateH_nosched (ws : List Nat) (he : expectSched ws = false) (hp0 : List Bool) (rr0 : Nat)
    (pre : List (Option Nat)) : (newStateH ws hp0 rr0 pre).sched = none := by
  unfold newStateH newStateWith
  unfold expectSched at he
  simp only [Bool.and_eq_false_iff, decide_eq_false_iff_not, Bool.not_eq_false'] at he
  rcases he with he | he
  · have : EdfRefresh.skipSmall (ws.length : Int) = true := by simp [EdfRefresh.skipSmall]; omega
    simp [this]
  · simp [EdfRefresh.skipEqual, he]

/-- C05 for a lookup that satisfies the per-lookup predicate: a member of the set; healthy when some host is healthy;
no host only when none is. -/
theorem lookupOk_specChoice {ws : List Nat} {r : Rec} (h : lookupOk ws r = true) :
    specChoice (mkH ws r.health) r.result = true := by
  obtain ⟨a, _, _, d⟩ := lookupOk_parts h
  cases hw : r.weighted
  · unfold lookupOk at h
    simp only [hw, Bool.false_eq_true, if_false, Bool.and_eq_true] at h
    exact h.2.2
  · have hres := d hw
    unfold Rec.weighted at hw
    cases hl : r.picks.getLast? with
    | none => rw [hl] at hw; simp at hw
    | some l =>
      rw [hl] at hw hres
      have hlt := a l (List.mem_of_getLast? hl)
      have hh : hAt (mkH ws r.health) l = true := by rw [hAt_mkH_lt hlt]; exact hw
      rw [hres]
      unfold specChoice
      simp [hh, mkH_length, hlt]

/-- the executable predicate holds of the lookups of EVERY sequence of health flips and lookups, from every state
reachable after the balancer was built over ANY build-time health pattern — all weight vectors (weighted or not). -/
theorem specH_model (ws : List Nat) (hp0 : List Bool) (rr0 : Nat) (pre : List (Option Nat)) (before window : List Ev) :
    specH ws (runEv ws (runEv ws hp0 (newStateH ws hp0 rr0 pre) before).2.1
      (runEv ws hp0 (newStateH ws hp0 rr0 pre) before).2.2 window).1 = true := by
  cases he : expectSched ws
  · have h0 := newStateH_nosched ws he hp0 rr0 pre
    obtain ⟨h1, _⟩ := runEv_nosched ws he before hp0 _ h0
    obtain ⟨_, h2⟩ := runEv_nosched ws he window _ _ h1
    unfold specH
    simp only [he, Bool.not_false, Bool.true_or, Bool.and_true, List.all_eq_true]
    exact h2
  · obtain ⟨h2, hneq⟩ := (expectSched_iff ws).mp he
    have h0 := newStateH_sched ws h2 hneq hp0 rr0 pre
    obtain ⟨_, s1, hs1, ok1⟩ := runEv_isRun ws h2 before hp0 _ _ h0 (refresh_ok ws pre)
    obtain ⟨run2, _⟩ := runEv_isRun ws h2 window _ _ s1 hs1 ok1
    exact isRun_specH ws he s1 ok1 _ run2

end MosnVerif.Model.WrrHealth
