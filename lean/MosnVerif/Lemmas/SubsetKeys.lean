import MosnVerif.Gen.SubsetKeys
import MosnVerif.Lemmas.Subset
/-!
C15, selector keys: the regenerated `GenerateSubsetKeys` (`Gen.SubsetKeys`, translated statement by statement from
subset_loadbalancer.go) is the model's `generateSubsetKeys`; its result holds every normalised selector exactly once.
Core Lean only.
-/
namespace MosnVerif.Model.Subset
open MosnVerif

/-- the inner loop of `GenerateSubsetKeys` (`if reflect.DeepEqual(sortedStringSet.Keys(), subset.Keys()) { dup = true }`
over the result so far) computes membership -/
theorem dupLoop_eq (s : List Key) (acc : List (List Key)) (d : Bool) :
    acc.foldl (fun dup subset => if (s == subset) then true else dup) d = (d || acc.contains s) := by
  induction acc generalizing d with
  | nil => simp
  | cons x r ih =>
    rw [List.foldl_cons, ih]
    by_cases h : s = x
    · subst h; simp
    · have hx : (s == x) = false := by simpa using h
      simp [hx, h]

/-- one regenerated iteration is one iteration of the model -/
theorem genStep_eq (acc : List (List Key)) (ks : List Key) :
    Gen.SubsetKeys.step initSet acc ks = (if acc.contains (initSet ks) then acc else acc ++ [initSet ks]) := by
  unfold Gen.SubsetKeys.step
  simp only [dupLoop_eq, Bool.false_or]
  cases acc.contains (initSet ks) <;> simp

/-- **the regenerated `GenerateSubsetKeys` is the model's** -/
theorem genKeys_eq (raw : List (List Key)) :
    Gen.SubsetKeys.generateSubsetKeys initSet raw = generateSubsetKeys raw := by
  unfold Gen.SubsetKeys.generateSubsetKeys generateSubsetKeys
  congr 1
  funext acc ks
  exact genStep_eq acc ks

theorem generateSubsetKeys_nodup (raw : List (List Key)) : (generateSubsetKeys raw).Nodup := by
  unfold generateSubsetKeys
  suffices h : ∀ acc : List (List Key), acc.Nodup →
      (raw.foldl (fun acc ks => let s := initSet ks; if acc.contains s then acc else acc ++ [s]) acc).Nodup from
    h [] List.nodup_nil
  induction raw with
  | nil => intro acc h; exact h
  | cons x r ih =>
    intro acc h
    rw [List.foldl_cons]
    apply ih
    by_cases hx : initSet x ∈ acc
    · have : acc.contains (initSet x) = true := List.contains_iff_mem.mpr hx
      simp only [this, if_true]; exact h
    · have : acc.contains (initSet x) = false := by
        cases hc : acc.contains (initSet x) with
        | false => rfl
        | true => exact absurd (List.contains_iff_mem.mp hc) hx
      simp only [this, Bool.false_eq_true, if_false]
      rw [List.nodup_append]
      refine ⟨h, by simp, ?_⟩
      intro a ha b hb e
      rw [List.mem_singleton] at hb
      subst hb; subst e
      exact hx ha

theorem count_eq_one_of_nodup {α : Type} [BEq α] [LawfulBEq α] (l : List α) (a : α) (hn : l.Nodup) (ha : a ∈ l) :
    l.count a = 1 := by
  induction l with
  | nil => cases ha
  | cons x r ih =>
    rw [List.nodup_cons] at hn
    rw [List.count_cons]
    by_cases e : x = a
    · subst e
      simp [List.count_eq_zero_of_not_mem hn.1]
    · have : a ∈ r := by
        cases ha with
        | head => exact absurd rfl e
        | tail _ h => exact h
      simp [e, ih hn.2 this]

end MosnVerif.Model.Subset
