import MosnVerif.Lemmas.H2Msg
/-! The forwarding theorems of `Model/H2Msg.lean`, instantiated with the regenerated decisions (`Gen/C01H2Map`). -/
namespace MosnVerif.Lemmas.H2Fwd
open MosnVerif.Model.H2Msg MosnVerif.Gen MosnVerif.Lemmas.H2Msg

/-! regenerated facts, closed by `decide`: a changed guard / delivery / name list changes these or no longer compiles -/
theorem srvPassesTrailers_true : srvPassesTrailers = true := by decide
theorem cliPassesTrailers_true : cliPassesTrailers = true := by decide
theorem cliSendsTrailers_true : cliSendsTrailers = true := by decide
theorem srvSendsTrailers_true : srvSendsTrailers = true := by decide
theorem endStreamAsModelled_true : endStreamAsModelled = true := by decide
theorem srvHeaderOnly_true : srvHeaderOnly = true := by decide
theorem cliHeaderOnly_true : cliHeaderOnly = true := by decide
theorem srvEmptyBuf : C01H2Map.serverEmptyBodyBuffer = true := by decide
theorem cliEmptyBuf : C01H2Map.clientEmptyBodyBuffer = true := by decide
theorem respContentType_nil : C01H2Map.respContentType = [] := by decide
theorem reqKeepsAll_true : reqKeepsAll = true := by decide
set_option maxRecDepth 20000 in
theorem respKeepsAll_true : respKeepsAll = true := by decide
theorem reqTrailerKeepsAll_true : reqTrailerKeepsAll = true := by decide
theorem respTrailerKeepsAll_true : respTrailerKeepsAll = true := by decide
theorem cookieSeparator_eq : C01H2Map.cookieSeparator = semiSp := by decide
theorem reqDeletesTrailerField_true : C01H2Map.reqDeletesTrailerField = true := by decide
theorem collectFields_true (fs : List Field) : collectFields true fs = ofFields fs := rfl
theorem joinCookies_eq (h : HMap) :
    joinCookies h = if (h.vals nCookie).length > 1 then h.setVals nCookie [joinWith semiSp (h.vals nCookie)] else h := by
  unfold joinCookies; rw [cookieSeparator_eq]

theorem srvDecode_hdr (w : Wire) : (srvDecode w).hdr = (joinCookies (ofFields w.fields)).del nTrailer := by
  unfold srvDecode
  split <;> simp only [srvHdr, reqKeepsAll_true, collectFields_true, reqDeletesTrailerField_true, if_true]

theorem distinct_srvHdr (w : Wire) : Distinct (srvDecode w).hdr := by
  rw [srvDecode_hdr]
  exact distinct_del _ _ (distinct_joinCookies _ (distinct_ofFields _))

theorem contains_false_of_not_mem {l : List Bytes} {n : Bytes} (h : n ∉ l) : l.contains n = false := by
  simpa using h

theorem reqEntry_key (e e' : Bytes × List Bytes) (h : reqEntry e = some e') : e'.1 = e.1 := by
  unfold reqEntry at h
  split at h
  · cases h
  · split at h
    · split at h
      · cases h
      · cases h; rfl
    · cases h; rfl

theorem reqEntry_vals_sub (e e' : Bytes × List Bytes) (h : reqEntry e = some e') : ∀ v ∈ e'.2, v ∈ e.2 := by
  unfold reqEntry at h
  split at h
  · cases h
  · split at h
    · split at h
      · cases h
      · cases h
        intro v hv
        simp only [uaVals] at hv
        split at hv
        · exact List.mem_of_mem_take hv
        · exact hv
    · cases h; intro v hv; exact hv

theorem valuesAt_reqFieldsOf (h : HMap) (hd : Distinct h) (n : Bytes)
    (hown : n ∉ C01H2Map.reqOwnFields) (hconn : n ∉ C01H2Map.reqConnSpecific) (hua : n ≠ nUA) :
    valuesAt n (reqFieldsOf h) = h.vals n := by
  unfold reqFieldsOf
  rw [valuesAt_toFields _ (distinct_filterMap _ _ reqEntry_key hd)]
  apply vals_filterMap _ _ reqEntry_key
  intro e he
  unfold reqEntry
  rw [he, contains_false_of_not_mem hown, contains_false_of_not_mem hconn]
  simp [hua]

theorem valuesAt_clField (n : Bytes) (hcl : n ≠ nCL) (x : Option Nat) : valuesAt n (clField x) = [] := by
  cases x <;> simp [clField, valuesAt, Ne.symm hcl]

/-- **every regular request field reaches the upstream**: for every name outside the encoder's own fields (host,
content-length), the connection-specific ones, user-agent (first value only), cookie (crumbs joined) and the trailer
announcement (consumed), the values written upstream under the lower-cased name are exactly the values received under that
name up to case — same values, same multiplicity, same relative order; for every target, every DATA framing, every window
schedule, every trailer block. -/
theorem req_fields_preserved (O : Oracles) (remote : Bytes) (win : List Nat) (w : Wire) (n : Bytes)
    (hown : n ∉ C01H2Map.reqOwnFields) (hconn : n ∉ C01H2Map.reqConnSpecific)
    (hua : n ≠ nUA) (hck : n ≠ nCookie) (htr : n ≠ nTrailer) (hcl : n ≠ nCL) :
    valuesAt n (fwdReqH2 O remote win w).fields = valuesOf n w.fields := by
  unfold fwdReqH2 cliEncode
  simp only [valuesAt_append]
  rw [valuesAt_reqFieldsOf _ (distinct_srvHdr w) n hown hconn hua, srvDecode_hdr, vals_del,
    vals_joinCookies_ne _ _ (Ne.symm hck), vals_ofFields]
  rw [valuesAt_clField n hcl]
  simp [Ne.symm htr]


/-! ### responses -/
theorem cliDecode_hdr (w : Wire) : (cliDecode w).hdr = (ofFields w.fields).del nTrailer := by
  unfold cliDecode
  simp only [respKeepsAll_true, collectFields_true]
  split <;> rfl

theorem distinct_cliHdr (w : Wire) : Distinct (cliDecode w).hdr := by
  rw [cliDecode_hdr]; exact distinct_del _ _ (distinct_ofFields _)

theorem respEntry_key (e : Bytes × List Bytes) : (respEntry e).1 = e.1 := by
  unfold respEntry; split <;> rfl

theorem valuesAt_respFieldsOf (h : HMap) (hd : Distinct h) (n : Bytes)
    (hdrop : n ∉ C01H2Map.respDropped) (hte : n ≠ C01H2Map.respTEName) :
    valuesAt n (respFieldsOf h) = h.vals n := by
  unfold respFieldsOf
  rw [valuesAt_toFields _ (distinct_map _ _ respEntry_key (distinct_filter _ _ hd)),
    vals_map _ _ respEntry_key n, vals_filter]
  · intro e he; unfold respKeep; rw [he, contains_false_of_not_mem hdrop]; rfl
  · intro e he; unfold respEntry; rw [he]; simp [hte]

theorem valuesAt_optField_ne (n k v : Bytes) (h : n ≠ k) : valuesAt n (optField k v) = [] := by
  unfold optField; split <;> simp [valuesAt, Ne.symm h]

/-- **every regular response field reaches the client**: names outside the dropped connection-specific ones,
transfer-encoding, the trailer announcement, content-length (rewritten, see `resp_content_length`) keep their values,
multiplicity and relative order, lower-cased names on the wire. -/
theorem resp_fields_preserved (isHead : Bool) (win : List Nat) (w : Wire) (n : Bytes)
    (hdrop : n ∉ C01H2Map.respDropped) (hte : n ≠ C01H2Map.respTEName) (htr : n ≠ nTrailer) (hcl : n ≠ nCL) (hct : n ≠ nCT) :
    valuesAt n (fwdRespH2 isHead win w).fields = valuesOf n w.fields := by
  unfold fwdRespH2 srvEncode
  simp only [valuesAt_append]
  rw [valuesAt_optField_ne n nCL _ hcl, valuesAt_optField_ne n nCT _ hct,
    valuesAt_respFieldsOf _ (distinct_del _ _ (distinct_cliHdr w)) n hdrop hte, vals_del, cliDecode_hdr, vals_del, vals_ofFields]
  simp [Ne.symm htr, Ne.symm hcl]

/-! ### nothing is invented -/
theorem mem_vals_srvHdr (w : Wire) (n v : Bytes) (hck : n ≠ nCookie) (h : v ∈ (srvDecode w).hdr.vals n) :
    v ∈ valuesOf n w.fields := by
  rw [srvDecode_hdr, vals_del] at h
  split at h
  · cases h
  · rwa [vals_joinCookies_ne _ _ (Ne.symm hck), vals_ofFields] at h

/-- **no invented request field**: whatever the upstream receives under a name other than content-length (computed from
the body, `reqSendsCL`) and cookie (crumbs joined) was sent by the client under that name. -/
theorem req_no_invented_field (O : Oracles) (remote : Bytes) (win : List Nat) (w : Wire) (n v : Bytes)
    (hcl : n ≠ nCL) (hck : n ≠ nCookie) (h : v ∈ valuesAt n (fwdReqH2 O remote win w).fields) :
    v ∈ valuesOf n w.fields := by
  unfold fwdReqH2 cliEncode at h
  simp only [valuesAt_append, valuesAt_clField n hcl, List.append_nil] at h
  unfold reqFieldsOf at h
  rw [mem_valuesAt_toFields] at h
  obtain ⟨e', he', hk, hv⟩ := h
  rw [List.mem_filterMap] at he'
  obtain ⟨e, he, hge⟩ := he'
  have hk' := reqEntry_key _ _ hge
  have hv' := reqEntry_vals_sub _ _ hge v hv
  have := vals_of_mem _ (distinct_srvHdr w) e he
  apply mem_vals_srvHdr w n v hck
  rw [← hk, hk', this]; exact hv'

theorem respEntry_vals_sub (e : Bytes × List Bytes) : ∀ v ∈ (respEntry e).2, v ∈ e.2 := by
  unfold respEntry; split
  · intro v hv; exact (List.mem_filter.mp hv).1
  · intro v hv; exact hv

/-- **no invented response field** (no Content-Type sniffing: `respContentType = []` is regenerated from
`MStream.WriteHeader`; a Date added to a response without one is the only other addition and is made by the write side
outside this map) -/
theorem resp_no_invented_field (isHead : Bool) (win : List Nat) (w : Wire) (n v : Bytes)
    (hcl : n ≠ nCL) (h : v ∈ valuesAt n (fwdRespH2 isHead win w).fields) : v ∈ valuesOf n w.fields := by
  unfold fwdRespH2 srvEncode at h
  simp only [valuesAt_append, valuesAt_optField_ne n nCL _ hcl, respContentType_nil, List.append_nil] at h
  have h0 : valuesAt n (optField nCT []) = [] := by simp [optField, valuesAt]
  rw [h0, List.append_nil] at h
  unfold respFieldsOf at h
  rw [mem_valuesAt_toFields] at h
  obtain ⟨e', he', hk, hv⟩ := h
  rw [List.mem_map] at he'
  obtain ⟨e, he, rfl⟩ := he'
  have he2 : e ∈ (cliDecode w).hdr.del nCL := (List.mem_filter.mp he).1
  have hd : Distinct ((cliDecode w).hdr.del nCL) := distinct_del _ _ (distinct_cliHdr w)
  have hvals := vals_of_mem _ hd e he2
  rw [respEntry_key] at hk
  have hv' := respEntry_vals_sub e v hv
  rw [← hvals, hk, vals_del, cliDecode_hdr, vals_del, vals_ofFields] at hv'
  split at hv'
  · cases hv'
  · split at hv'
    · cases hv'
    · exact hv'

/-! ### bodies -/
/-- **body = concatenation of the DATA payloads, whatever the DATA framing on either side**: for every chunking of the
request (`w.chunks`) and every window schedule of the upstream connection (`win`) -/
theorem req_body_preserved (O : Oracles) (remote : Bytes) (win : List Nat) (w : Wire)
    (hwf : w.endOnHeaders = true → w.chunks = []) : (fwdReqH2 O remote win w).body = w.body := by
  unfold fwdReqH2 cliEncode srvDecode Wire.body
  simp only [srvHeaderOnly_true, srvEmptyBuf, Bool.and_true, Bool.true_or, if_true]
  cases he : w.endOnHeaders
  · simp [flatten_splitBy, Wire.body]
  · simp [hwf he]

theorem resp_body_preserved (win : List Nat) (w : Wire)
    (hwf : w.endOnHeaders = true → w.chunks = []) : (fwdRespH2 false win w).body = w.body := by
  unfold fwdRespH2 srvEncode cliDecode Wire.body
  simp only [cliHeaderOnly_true, cliEmptyBuf, Bool.and_true, Bool.true_or, if_true]
  cases he : w.endOnHeaders
  · simp [flatten_splitBy, Wire.body, C01H2Map.respEndOnHeaders, endStreamAsModelled_true]
  · simp [hwf he, C01H2Map.respEndOnHeaders, endStreamAsModelled_true]


/-! ### pseudo fields -/
theorem splitTarget_join (t : Bytes) :
    (splitTarget t).1 ++ (if (splitTarget t).2.1 then qmark :: (splitTarget t).2.2 else []) = t := by
  simp only [splitTarget]
  induction t with
  | nil => simp
  | cons a r ih =>
    by_cases ha : a = qmark
    · subst ha; simp [List.takeWhile, List.dropWhile]
    · simp only [List.takeWhile_cons, List.dropWhile_cons, ne_eq, ha, not_false_eq_true, decide_true, if_true,
        List.cons_append]
      exact congrArg (a :: ·) ih

theorem pseudo4_authority (a m p s : Bytes) :
    pseudoGet [(nAuthority, a), (nMethod, m), (nPath, p), (nScheme, s)] nAuthority = a := by
  simp [pseudoGet, List.find?]
theorem pseudo4_method (a m p s : Bytes) :
    pseudoGet [(nAuthority, a), (nMethod, m), (nPath, p), (nScheme, s)] nMethod = m := by
  simp [pseudoGet, List.find?, nAuthority, nMethod]
theorem pseudo4_path (a m p s : Bytes) :
    pseudoGet [(nAuthority, a), (nMethod, m), (nPath, p), (nScheme, s)] nPath = p := by
  simp [pseudoGet, List.find?, nAuthority, nMethod, nPath]
theorem pseudo4_scheme (a m p s : Bytes) :
    pseudoGet [(nAuthority, a), (nMethod, m), (nPath, p), (nScheme, s)] nScheme = s := by
  simp [pseudoGet, List.find?, nAuthority, nMethod, nPath, nScheme]

theorem fwdReqH2_pseudo (O : Oracles) (remote : Bytes) (win : List Nat) (w : Wire) :
    (fwdReqH2 O remote win w).pseudo =
      [(nAuthority, (srvDecode w).b), (nMethod, pseudoGet w.pseudo nMethod),
       (nPath, let s := splitTarget (pseudoGet w.pseudo nPath)
               (O.escaped s.1).getD [] ++ (if s.2.1 then qmark :: s.2.2 else [])),
       (nScheme, sHTTP)] := by
  have ha : (srvDecode w).a = pseudoGet w.pseudo nMethod := by unfold srvDecode; split <;> rfl
  have hc : (srvDecode w).c = pseudoGet w.pseudo nPath := by unfold srvDecode; split <;> rfl
  unfold fwdReqH2 cliEncode
  simp only [C01H2Map.clientAppendHeaders, ha, hc]
  simp [sHTTP]
  split <;> simp

/-- **method, path + query, authority round trip** (HTTP/2 → HTTP/2): for every request, the upstream receives the same
`:method`, the same `:authority` (or the Host field when the client sent none), scheme `http`, and the same `:path` byte for
byte — path and query, including an empty query's `?` — whenever net/url's parse-and-print of the path part is the identity
(`O.escaped p = some p`: every path without the characters net/url re-escapes). -/
theorem req_pseudo_roundtrip (O : Oracles) (remote : Bytes) (win : List Nat) (w : Wire)
    (hesc : O.escaped (splitTarget (pseudoGet w.pseudo nPath)).1 = some (splitTarget (pseudoGet w.pseudo nPath)).1) :
    let out := fwdReqH2 O remote win w
    pseudoGet out.pseudo nMethod = pseudoGet w.pseudo nMethod ∧
    pseudoGet out.pseudo nPath = pseudoGet w.pseudo nPath ∧
    pseudoGet out.pseudo nScheme = sHTTP ∧
    pseudoGet out.pseudo nAuthority =
      (if pseudoGet w.pseudo nAuthority = [] then (valuesOf nHost w.fields).headD [] else pseudoGet w.pseudo nAuthority) := by
  intro out
  have hp : out.pseudo = _ := fwdReqH2_pseudo O remote win w
  have hb : (srvDecode w).b =
      (if pseudoGet w.pseudo nAuthority = [] then (valuesOf nHost w.fields).headD [] else pseudoGet w.pseudo nAuthority) := by
    unfold srvDecode; split <;> simp [srvHost, reqKeepsAll_true, collectFields_true, vals_ofFields]
  have hj := splitTarget_join (pseudoGet w.pseudo nPath)
  refine ⟨?_, ?_, ?_, ?_⟩
  · rw [hp, pseudo4_method]
  · rw [hp, pseudo4_path]
    simp only [hesc, Option.getD_some]
    exact hj
  · rw [hp, pseudo4_scheme]
  · rw [hp, pseudo4_authority, hb]

/-! ### trailers -/
theorem valuesOf_eq_of_toFields_empty (fs : List Field) (n : Bytes) (h : (toFields (ofFields fs)).isEmpty = true) :
    valuesOf n fs = [] := by
  rw [← vals_ofFields, ← valuesAt_toFields _ (distinct_ofFields fs)]
  simp [List.isEmpty_iff.mp h, valuesAt]

theorem trailerBlock_values (t : Option (List Field)) (n : Bytes) :
    valuesAt n ((trailerBlock true (some (decodeTrailers true true t))).getD []) = valuesOf n (t.getD []) := by
  cases t with
  | none => simp [trailerBlock, decodeTrailers, toFields, valuesAt, valuesOf]
  | some fs =>
    simp only [trailerBlock, decodeTrailers, collectFields_true, if_true, endStreamAsModelled_true, Bool.true_and, Option.getD_some]
    by_cases he : (toFields (ofFields fs)).isEmpty = true
    · simp [he, valuesOf_eq_of_toFields_empty fs n he, valuesAt]
    · simp only [he]
      simp only [Bool.not_false, if_true, Option.getD_some]
      rw [valuesAt_toFields _ (distinct_ofFields fs), vals_ofFields]

/-- **request trailers are preserved**: every trailer field reaches the upstream with the same name up to case, value,
multiplicity and relative order — announced or not, after a body of any length **including the empty body and no DATA frame
at all**; an empty trailer block is forwarded as END_STREAM on a DATA frame. -/
theorem req_trailers_preserved (O : Oracles) (remote : Bytes) (win : List Nat) (w : Wire) (n : Bytes)
    (hopen : w.endOnHeaders = false) :
    valuesAt n ((fwdReqH2 O remote win w).trailers.getD []) = valuesOf n (w.trailers.getD []) := by
  unfold fwdReqH2 cliEncode srvDecode
  simp only [hopen, Bool.false_and, cliSendsTrailers_true, srvPassesTrailers_true, reqTrailerKeepsAll_true]
  exact trailerBlock_values w.trailers n

/-- **response trailers are preserved** (any status that has a body, any body length including none) -/
theorem resp_trailers_preserved (win : List Nat) (w : Wire) (n : Bytes) (hopen : w.endOnHeaders = false) :
    valuesAt n ((fwdRespH2 false win w).trailers.getD []) = valuesOf n (w.trailers.getD []) := by
  unfold fwdRespH2 srvEncode cliDecode
  simp only [hopen, Bool.false_and, srvSendsTrailers_true, cliPassesTrailers_true, respTrailerKeepsAll_true, cliEmptyBuf, Bool.true_or, if_true]
  simp only [C01H2Map.respEndOnHeaders, Option.isNone_some, Bool.false_and, Bool.or_false, Bool.false_eq_true, if_false]
  exact trailerBlock_values w.trailers n


/-! ### cookie crumbs -/
theorem vals_setVals_self (m : HMap) (k : Bytes) (ws : List Bytes) (h : m.vals k ≠ []) : (m.setVals k ws).vals k = ws := by
  induction m with
  | nil => simp [HMap.vals] at h
  | cons e r ih =>
    obtain ⟨k', vs⟩ := e
    by_cases hk : k' = k
    · simp [HMap.setVals, HMap.vals, hk]
    · simp only [HMap.vals, hk, if_false] at h
      simp [HMap.setVals, HMap.vals, hk, ih h]

/-- **cookie crumbs** (RFC 7540 8.1.2.5): several `cookie` fields reach the upstream as ONE field, the crumbs joined with
"; " in their order; a single one unchanged -/
theorem req_cookie_crumbs (O : Oracles) (remote : Bytes) (win : List Nat) (w : Wire) :
    valuesAt nCookie (fwdReqH2 O remote win w).fields =
      (if (valuesOf nCookie w.fields).length > 1 then [joinWith semiSp (valuesOf nCookie w.fields)] else valuesOf nCookie w.fields) := by
  unfold fwdReqH2 cliEncode
  simp only [valuesAt_append]
  rw [valuesAt_clField nCookie (by decide), valuesAt_reqFieldsOf _ (distinct_srvHdr w) nCookie (by decide) (by decide) (by decide),
    srvDecode_hdr, vals_del]
  simp only [show ¬ nTrailer = nCookie by decide, if_false, List.append_nil]
  rw [joinCookies_eq]
  rw [vals_ofFields]
  split
  · rename_i h
    rw [vals_setVals_self]
    rw [vals_ofFields]
    intro h0; rw [h0] at h; simp at h
  · rw [vals_ofFields]

/-! ### cross protocol -/
theorem transcoders_keep_all :
    transcoderKeepsAll "httpTohttp2.TranscodingRequest" = true ∧ transcoderKeepsAll "httpTohttp2.TranscodingResponse" = true ∧
    transcoderKeepsAll "http2Tohttp.TranscodingRequest" = true ∧ transcoderKeepsAll "http2Tohttp.TranscodingResponse" = true := by
  decide

theorem convert_true (h : HMap) : convert true h = h := rfl

def special : List Bytes := [nUA, nCT, nServer]

theorem keepSpecial_of_not_special (e : Bytes × List Bytes) (h : e.1 ∉ special) : keepSpecial e = true := by
  unfold keepSpecial
  simp only [special, List.mem_cons, List.not_mem_nil, or_false, not_or] at h
  simp [h.1, h.2.1, h.2.2]

theorem vals_dropEmptySpecial (h : HMap) (n : Bytes) (hn : n ∉ special) : (dropEmptySpecial h).vals n = h.vals n := by
  unfold dropEmptySpecial
  apply vals_filter
  intro e he
  exact keepSpecial_of_not_special e (he ▸ hn)

theorem distinct_dropEmptySpecial (h : HMap) (hd : Distinct h) : Distinct (dropEmptySpecial h) := distinct_filter _ _ hd

/-- **HTTP/1.1 → HTTP/2, request fields**: every field of the HTTP/1 request outside the exact exception list — the encoder's
own fields (host → `:authority`, content-length recomputed), the connection-specific fields `reqConnSpecific` (connection,
proxy-connection, transfer-encoding, upgrade, keep-alive: regenerated), user-agent / content-type / server (fasthttp's
single-valued special headers), cookie (joined) — reaches the HTTP/2 upstream under its lower-cased name with the same
values, multiplicity and order. -/
theorem x12_req_fields (O : Oracles) (remote : Bytes) (win : List Nat) (w : Wire) (n : Bytes)
    (hown : n ∉ C01H2Map.reqOwnFields) (hconn : n ∉ C01H2Map.reqConnSpecific) (hsp : n ∉ special)
    (hck : n ≠ nCookie) (hcl : n ≠ nCL) :
    valuesAt n (x12Req O remote win w).fields = valuesOf n w.fields := by
  have hua : n ≠ nUA := by intro h; apply hsp; simp [special, h]
  unfold x12Req cliEncode
  simp only [valuesAt_append, valuesAt_clField n hcl, List.append_nil, transcoders_keep_all.1, convert_true]
  rw [valuesAt_reqFieldsOf _ (distinct_dropEmptySpecial _ (distinct_joinCookies _ (distinct_ofFields _))) n hown hconn hua,
    vals_dropEmptySpecial _ _ hsp, vals_joinCookies_ne _ _ (Ne.symm hck), vals_ofFields]

theorem mem_clField (x : Option Nat) (f : Field) (h : f ∈ clField x) : f.1 = nCL := by
  cases x with
  | none => simp [clField] at h
  | some k => simp [clField] at h; rw [h]

theorem mem_optField (k v : Bytes) (f : Field) (h : f ∈ optField k v) : f.1 = k := by
  unfold optField at h
  split at h
  · simp at h
  · simp at h; rw [h]

theorem valuesAt_cons_ne (n k v : Bytes) (rest : List Field) (h : n ≠ k) : valuesAt n ((k, v) :: rest) = valuesAt n rest := by
  simp [valuesAt, Ne.symm h]

/-- connection-specific fields never reach the HTTP/2 side of a request (same-protocol and converted alike) -/
theorem reqFieldsOf_no_connSpecific (h : HMap) (f : Field) (hf : f ∈ reqFieldsOf h) :
    f.1 ∉ C01H2Map.reqConnSpecific ∧ f.1 ∉ C01H2Map.reqOwnFields := by
  unfold reqFieldsOf toFields at hf
  rw [List.mem_flatMap] at hf
  obtain ⟨e', he', hfe⟩ := hf
  rw [List.mem_map] at hfe
  obtain ⟨v, _, rfl⟩ := hfe
  rw [List.mem_filterMap] at he'
  obtain ⟨e, _, hge⟩ := he'
  have hk := reqEntry_key _ _ hge
  simp only
  rw [hk]
  unfold reqEntry at hge
  split at hge
  · cases hge
  · rename_i hc
    simp only [Bool.or_eq_true, not_or, Bool.not_eq_true] at hc
    constructor
    · intro hm; have := hc.2; simp [hm] at this
    · intro hm; have := hc.1; simp [hm] at this

theorem x12_req_no_connection_specific (O : Oracles) (remote : Bytes) (win : List Nat) (w : Wire) (f : Field)
    (hf : f ∈ (x12Req O remote win w).fields) : f.1 ∉ C01H2Map.reqConnSpecific := by
  unfold x12Req cliEncode at hf
  simp only [List.mem_append] at hf
  cases hf with
  | inl h => exact (reqFieldsOf_no_connSpecific _ f h).1
  | inr h =>
    have := mem_clField _ _ h
    rw [this]; decide

/-- **HTTP/1.1 → HTTP/2, response fields** -/
theorem x21_resp_fields (isHead : Bool) (win : List Nat) (w : Wire) (n : Bytes)
    (hdrop : n ∉ C01H2Map.respDropped) (hte : n ≠ C01H2Map.respTEName) (hsp : n ∉ special) (hcl : n ≠ nCL) :
    valuesAt n (x21Resp isHead win w).fields = valuesOf n w.fields := by
  have hct : n ≠ nCT := by intro h; apply hsp; simp [special, h]
  unfold x21Resp srvEncode
  simp only [valuesAt_append, transcoders_keep_all.2.2.2, convert_true]
  rw [valuesAt_optField_ne n nCL _ hcl, valuesAt_optField_ne n nCT _ hct,
    valuesAt_respFieldsOf _ (distinct_del _ _ (distinct_dropEmptySpecial _ (distinct_ofFields _))) n hdrop hte, vals_del,
    vals_dropEmptySpecial _ _ hsp, vals_ofFields]
  simp [Ne.symm hcl]

theorem respFieldsOf_no_dropped (h : HMap) (f : Field) (hf : f ∈ respFieldsOf h) : f.1 ∉ C01H2Map.respDropped := by
  unfold respFieldsOf toFields at hf
  rw [List.mem_flatMap] at hf
  obtain ⟨e', he', hfe⟩ := hf
  rw [List.mem_map] at hfe
  obtain ⟨v, _, rfl⟩ := hfe
  rw [List.mem_map] at he'
  obtain ⟨e, he, rfl⟩ := he'
  have hk := (List.mem_filter.mp he).2
  simp only [respEntry_key]
  unfold respKeep at hk
  intro hm
  simp [hm] at hk

theorem x21_resp_no_connection_specific (isHead : Bool) (win : List Nat) (w : Wire) (f : Field)
    (hf : f ∈ (x21Resp isHead win w).fields) : f.1 ∉ C01H2Map.respDropped := by
  unfold x21Resp srvEncode at hf
  simp only [List.mem_append] at hf
  rcases hf with (h | h) | h
  · exact respFieldsOf_no_dropped _ f h
  · rw [mem_optField _ _ f h]; decide
  · rw [respContentType_nil] at h; simp [optField] at h

/-- **HTTP/2 → HTTP/1.1, response and request fields**: every value of every field is copied (the transcoders use Add:
regenerated), the `trailer` announcement is consumed by the HTTP/2 codec, fasthttp's special headers aside -/
theorem x12_resp_fields (w : Wire) (n : Bytes) (hsp : n ∉ special) (htr : n ≠ nTrailer) :
    valuesAt n (x12Resp w).fields = valuesOf n w.fields := by
  unfold x12Resp
  simp only [transcoders_keep_all.2.1, convert_true]
  rw [valuesAt_toFields _ (distinct_dropEmptySpecial _ (distinct_cliHdr w)), vals_dropEmptySpecial _ _ hsp, cliDecode_hdr, vals_del,
    vals_ofFields]
  simp [Ne.symm htr]

theorem x21_req_fields (O : Oracles) (w : Wire) (n : Bytes) (hsp : n ∉ special) (htr : n ≠ nTrailer) (hck : n ≠ nCookie)
    (hh : n ≠ nHost) : valuesAt n (x21Req O w).fields = valuesOf n w.fields := by
  unfold x21Req
  simp only [transcoders_keep_all.2.2.1, convert_true]
  rw [valuesAt_cons_ne n nHost _ _ hh, valuesAt_toFields _ (distinct_del _ _ (distinct_dropEmptySpecial _ (distinct_srvHdr w))), vals_del,
    vals_dropEmptySpecial _ _ hsp, srvDecode_hdr, vals_del, vals_joinCookies_ne _ _ (Ne.symm hck), vals_ofFields]
  simp [Ne.symm htr, Ne.symm hh]


/-! ### HTTP/1.1 → HTTP/2: the request line -/
/-- the path `clientStream.AppendHeaders` puts into the URL for a converted request: the unescaped original path when the
path variable still is its normalisation, else the path variable -/
def x12PathUsed (O : Oracles) (p : Bytes) : Bytes := (O.unescape p).getD (O.fhNorm p)

theorem pathUsed_eq (u : Option Bytes) (f : Bytes) :
    (if u.isSome = true ∧ ¬ u.getD [] = f then u.getD [] else f) = u.getD f := by
  cases u with
  | none => simp
  | some x => by_cases h : x = f <;> simp [h]

theorem splitTarget_hadQ (t : Bytes) (h : (splitTarget t).2.2 ≠ []) : (splitTarget t).2.1 = true := by
  unfold splitTarget at *
  simp only at *
  generalize List.dropWhile (fun x => decide (x ≠ qmark)) t = r at *
  cases r <;> simp_all

theorem x12_req_pseudo_eq (O : Oracles) (remote : Bytes) (win : List Nat) (w : Wire)
    (hm : pseudoGet w.pseudo nMethod ≠ []) (hh : lower ((valuesOf nHost w.fields).headD []) ≠ []) :
    (x12Req O remote win w).pseudo =
      [(nAuthority, lower ((valuesOf nHost w.fields).headD [])), (nMethod, pseudoGet w.pseudo nMethod),
       (nPath, let s := splitTarget (pseudoGet w.pseudo nPath)
               O.escapedOf (x12PathUsed O s.1) s.1 ++ (if s.2.2 = [] then [] else qmark :: s.2.2)),
       (nScheme, sHTTP)] := by
  unfold x12Req cliEncode x12PathUsed
  simp only [C01H2Map.clientAppendHeaders, vals_ofFields]
  simp [sHTTP, hm, hh, pathUsed_eq]
  by_cases hq : (splitTarget (pseudoGet w.pseudo nPath)).2.2 = [] <;> simp [hq] <;> intro h <;> simp_all

/-- **HTTP/1.1 → HTTP/2: method, authority, path and query**: the method token and the (case-folded) Host arrive as
`:method` / `:authority`; `:path` is the request target byte for byte — path AND query — whenever net/url prints the
original path (`escapedOf … p = p`) and the query is not the empty one (`/a?`, see the finding). -/
theorem x12_req_pseudo_roundtrip (O : Oracles) (remote : Bytes) (win : List Nat) (w : Wire)
    (hm : pseudoGet w.pseudo nMethod ≠ []) (hh : lower ((valuesOf nHost w.fields).headD []) ≠ [])
    (hesc : O.escapedOf (x12PathUsed O (splitTarget (pseudoGet w.pseudo nPath)).1) (splitTarget (pseudoGet w.pseudo nPath)).1 =
      (splitTarget (pseudoGet w.pseudo nPath)).1)
    (hq : (splitTarget (pseudoGet w.pseudo nPath)).2.1 = true → (splitTarget (pseudoGet w.pseudo nPath)).2.2 ≠ []) :
    let out := x12Req O remote win w
    pseudoGet out.pseudo nMethod = pseudoGet w.pseudo nMethod ∧
    pseudoGet out.pseudo nPath = pseudoGet w.pseudo nPath ∧
    pseudoGet out.pseudo nAuthority = lower ((valuesOf nHost w.fields).headD []) := by
  intro out
  have hp : out.pseudo = _ := x12_req_pseudo_eq O remote win w hm hh
  have hj := splitTarget_join (pseudoGet w.pseudo nPath)
  refine ⟨?_, ?_, ?_⟩
  · rw [hp, pseudo4_method]
  · rw [hp, pseudo4_path]
    simp only [hesc]
    by_cases hq2 : (splitTarget (pseudoGet w.pseudo nPath)).2.2 = []
    · have : (splitTarget (pseudoGet w.pseudo nPath)).2.1 = false := by
        cases hb : (splitTarget (pseudoGet w.pseudo nPath)).2.1
        · rfl
        · exact absurd hq2 (hq hb)
      rw [this] at hj
      simpa [hq2] using hj
    · have : (splitTarget (pseudoGet w.pseudo nPath)).2.1 = true := splitTarget_hadQ _ hq2
      rw [this] at hj
      simpa [hq2] using hj
  · rw [hp, pseudo4_authority]

/-! ### status and content-length of a forwarded response -/
theorem resp_status (isHead : Bool) (win : List Nat) (w : Wire) :
    (fwdRespH2 isHead win w).pseudo = [(nStatus, pseudoGet w.pseudo nStatus)] := by
  have : (cliDecode w).a = pseudoGet w.pseudo nStatus := by unfold cliDecode; split <;> rfl
  unfold fwdRespH2 srvEncode; simp [this]

/-- the Content-Length the HTTP/2 server stream writes (`MStream.WriteHeader`, regenerated): HEAD / 304 keep the upstream's,
1xx / 204 have none, a response that may have a body and has none gets 0, otherwise the upstream's (when valid) -/
theorem resp_content_length_rule (isHead : Bool) (status : Nat) (dataEmpty upValid : Bool) (up : Option Bytes) :
    C01H2Map.respContentLength isHead status bodyAllowed dataEmpty upValid up =
      (let kept := if upValid then up.getD [] else []
       if isHead || status == 304 then kept
       else if !bodyAllowed status then [] else if dataEmpty then [48] else kept) := by
  unfold C01H2Map.respContentLength
  cases isHead <;> cases dataEmpty <;> cases upValid <;> cases hb : bodyAllowed status <;> by_cases h3 : status = 304 <;>
    cases up <;> simp_all

end MosnVerif.Lemmas.H2Fwd
