import MosnVerif.Lemmas.Downstream.Worker7
/-!
# The invariant of the downstream machine holds in every reachable state

`Inv c ar aq` (Model/DownstreamSpec.lean) holds initially and is preserved by every label, for every configuration and
every ambient load: by induction on the schedule it holds after every schedule.
-/
namespace MosnVerif.Model.Downstream
open MosnVerif.Gen.ProxyPhase MosnVerif.Gen.ProxyReason MosnVerif.Gen.ProxyRetry

/-- the worker label preserves the invariant -/
theorem inv_work (c : Cfg) (ar aq : Nat) (s : S) (h : Inv c ar aq s) : Inv c ar aq (work c s) := by
  unfold work
  by_cases hrun : s.running = true
  · rw [if_neg (by simp [hrun])]
    by_cases hbw : bodyWait s = true
    · rw [if_pos hbw]; exact h
    rw [if_neg hbw]
    simp only [Bool.not_eq_true] at hbw
    split
    · rename_i hp; exact inv_work_init c ar aq s h hp
    · rename_i hp; exact inv_work_pre c ar aq s h hrun (Or.inl hp)
    · rename_i hp; exact inv_work_pre c ar aq s h hrun (Or.inr (Or.inl hp))
    · rename_i hp; exact inv_work_pre c ar aq s h hrun (Or.inr (Or.inr hp))
    · rename_i hp; exact inv_work_chooseHost c ar aq s h hrun hp
    · rename_i hp; exact inv_work_dfach c ar aq s h hrun hp
    · rename_i hp; exact inv_work_drh c ar aq s h hrun hp _ rfl
    · rename_i hp; exact inv_work_drd c ar aq s h hrun hp
    · rename_i hp; exact inv_work_drt c ar aq s h hrun hp
    · rename_i hp; exact inv_work_oneway c ar aq s h hrun hp
    · rename_i hp; exact inv_work_retry c ar aq s h hrun hp
    · rename_i hp; exact inv_work_wait c ar aq s h hrun hp
    · rename_i hp; exact inv_work_upfilter c ar aq s h hrun hp
    · rename_i hp; exact inv_work_urh c ar aq s h hrun hp
    · rename_i hp; exact inv_work_urd c ar aq s h hrun hp hbw
    · rename_i hp; exact inv_work_urt c ar aq s h hrun hp hbw
    · rename_i hp; exact inv_work_end c ar aq s h hrun hp
  · rw [if_pos (by simpa using hrun)]
    exact h

/-- every label preserves the invariant -/
theorem inv_step (c : Cfg) (ar aq : Nat) (s : S) (l : Label) (h : Inv c ar aq s) : Inv c ar aq (step c s l) := by
  by_cases hl : l = .work
  · subst hl; exact inv_work c ar aq s h
  · exact inv_async c ar aq s l hl h

/-- the initial state (stream created, worker scheduled) satisfies the invariant -/
theorem inv_init (c : Cfg) (ar aq : Nat) : Inv c ar aq (init ar aq) := by
  refine ⟨?_, ?_, ?_, ?_, ?_, ?_, ?_, ?_, ?_, ?_, ?_, ?_, ?_, ?_, ?_, ?_, ?_, ?_, ?_, ?_, ?_, ?_, ?_, ?_, ?_, ?_, ?_, ?_, ?_, ?_, ?_, ?_, ?_, ?_⟩ <;>
    simp [init, K0, K1, K2, K3, K4, K5, K6, K7, K8, K9, K10, K11, K12, K13, K14, K15, K16, K17, K18, K19, K20, K21, K22, K23,
      K24, K25, K26, K27, K28, K29, K30, K31, K32, K33, snd, Snd.init, nLog, heldRetry, heldRequests, rsHeld, liveCount, streamsOk,
      allDead, upPhase, prePhase, fwdPhase]

/-- **the invariant holds after every schedule** -/
theorem inv_run (c : Cfg) (ar aq : Nat) (l : List Label) : Inv c ar aq (run c (init ar aq) l) := by
  unfold run
  have : ∀ (s : S), Inv c ar aq s → Inv c ar aq (l.foldl (step c) s) := by
    induction l with
    | nil => intro s h; exact h
    | cons a r ih => intro s h; exact ih _ (inv_step c ar aq s a h)
  exact this _ (inv_init c ar aq)

end MosnVerif.Model.Downstream
