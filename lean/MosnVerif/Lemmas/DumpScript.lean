import MosnVerif.Lemmas.DumpProto
/-!
C12, dump protocol: the scripts the driver runs (`runScript`: whole updates between rounds, rounds with one update injected
before / after the snapshot, failing writes) are schedules of the machine, every round of a script ends between two rounds with
all mutators idle, and the model's observations satisfy `Spec.dumpHolds`.
-/
namespace MosnVerif.Model.DumpProto
open MosnVerif.Gen.DumpProto

theorem run_append (c : Conf) (a b : List Ev) : run c (a ++ b) = run (run c a) b := by
  simp [run, List.foldl_append]

theorem setM_setM (m : Nat → MState) (t : Nat) (v w : MState) : setM (setM m t v) t w = setM m t w := by
  funext u; simp only [setM]; split <;> rfl

theorem setM_idle_self (m : Nat → MState) (t : Nat) (h : m t = .idle) : setM m t .idle = m := by
  funext u; simp only [setM]; split
  · rename_i e; rw [e, h]
  · rfl

/-- what the actions of a request run alone do (up to its last action; the step back to idle follows) -/
def ReqSpec (p : Prog) (c c' : Conf) : Prop :=
  c'.m = setM c.m 1 (.run .done) ∧ c'.d = c.d ∧ c'.file = c.file ∧ c'.live = c.live ∧ c'.flag = reqFlag p c.flag ∧
  c'.prog = c.prog ∧ c'.setp = c.setp

theorem run_req (p : Prog) : ∀ (c : Conf), c.m 1 = .run p →
    ReqSpec p c (run c (List.replicate (reqLen p c.flag) (.upd 1))) := by
  induction p with
  | done =>
    intro c hm
    simp only [reqLen, List.replicate_zero, run, List.foldl_nil, ReqSpec, reqFlag, and_true]
    funext u; simp only [setM]; split
    · rename_i e; rw [e, hm]
    · rfl
  | cas o n a b iha ihb =>
    intro c hm
    simp only [reqLen, List.replicate_succ, run_cons, step, stepMut, hm]
    by_cases hfo : c.flag = o
    · simp only [hfo, if_true]
      have := iha { c with flag := n, m := setM c.m 1 (.run a) } (by simp [setM])
      simpa only [ReqSpec, reqFlag, hfo, if_true, setM_setM] using this
    · simp only [hfo, if_false]
      have := ihb { c with m := setM c.m 1 (.run b) } (by simp [setM])
      simpa only [ReqSpec, reqFlag, hfo, if_false, setM_setM] using this
  | load v a b iha ihb =>
    intro c hm
    simp only [reqLen, List.replicate_succ, run_cons, step, stepMut, hm]
    by_cases hfo : c.flag = v
    · simp only [hfo, if_true]
      have := iha { c with m := setM c.m 1 (.run a) } (by simp [setM])
      simpa only [ReqSpec, reqFlag, hfo, if_true, setM_setM] using this
    · simp only [hfo, if_false]
      have := ihb { c with m := setM c.m 1 (.run b) } (by simp [setM])
      simpa only [ReqSpec, reqFlag, hfo, if_false, setM_setM] using this
  | store v k ih =>
    intro c hm
    simp only [reqLen, List.replicate_succ, run_cons, step, stepMut, hm]
    have := ih { c with flag := v, m := setM c.m 1 (.run k) } (by simp [setM])
    simpa only [ReqSpec, reqFlag, setM_setM] using this
  | snapshot k ih =>
    intro c hm
    simp only [reqLen, List.replicate_succ, run_cons, step, stepMut, hm]
    have := ih { c with m := setM c.m 1 (.run k) } (by simp [setM])
    simpa only [ReqSpec, reqFlag, setM_setM] using this
  | write a b iha _ =>
    intro c hm
    simp only [reqLen, List.replicate_succ, run_cons, step, stepMut, hm]
    have := iha { c with m := setM c.m 1 (.run a) } (by simp [setM])
    simpa only [ReqSpec, reqFlag, setM_setM] using this

/-- a whole update from an idle mutator 1: the config version grows by one, the request has run, nothing else moved -/
theorem run_update (c : Conf) (hm : c.m 1 = .idle) :
    (run c (updateSched c.setp c.flag)).m = c.m ∧ (run c (updateSched c.setp c.flag)).d = c.d ∧
    (run c (updateSched c.setp c.flag)).file = c.file ∧ (run c (updateSched c.setp c.flag)).live = c.live + 1 ∧
    (run c (updateSched c.setp c.flag)).flag = reqFlag c.setp c.flag ∧
    (run c (updateSched c.setp c.flag)).prog = c.prog ∧ (run c (updateSched c.setp c.flag)).setp = c.setp := by
  unfold updateSched
  rw [show reqLen c.setp c.flag + 2 = (reqLen c.setp c.flag + 1) + 1 from rfl, List.replicate_succ, run_cons,
    List.replicate_succ', run_append]
  have hs : step c (.upd 1) = { c with live := c.live + 1, m := setM c.m 1 (.run c.setp) } := by
    simp only [step, stepMut, hm]
  rw [hs]
  obtain ⟨h1, h2, h3, h4, h5, h6, h7⟩ :=
    run_req c.setp { c with live := c.live + 1, m := setM c.m 1 (.run c.setp) } (by simp [setM])
  generalize run { c with live := c.live + 1, m := setM c.m 1 (.run c.setp) } (List.replicate (reqLen c.setp c.flag) (.upd 1)) = c1
    at h1 h2 h3 h4 h5 h6 h7
  have hm1 : c1.m 1 = .run .done := by rw [h1]; simp [setM]
  simp only [run, List.foldl_cons, List.foldl_nil, step, stepMut, hm1]
  refine ⟨?_, h2, h3, h4, h5, h6, h7⟩
  show setM c1.m 1 .idle = c.m
  rw [h1]; simp only [setM_setM]; exact setM_idle_self _ _ hm

/-- the dumper is between two rounds and no mutator is inside a request -/
structure Idle (c : Conf) : Prop where
  rest : c.d.rest = .done
  muts : ∀ t, c.m t = .idle

/-- the rest of a round, run by `roundSched`, ends between two rounds with all mutators idle -/
theorem run_round (pt : Point) (w : Bool) (p : Prog) : ∀ (c : Conf) (inj : Bool), c.d.rest = p → (∀ t, c.m t = .idle) →
    (run c (roundSched pt w c.setp p c.flag inj)).d.rest = .done ∧
    (∀ t, (run c (roundSched pt w c.setp p c.flag inj)).m t = .idle) ∧
    (run c (roundSched pt w c.setp p c.flag inj)).prog = c.prog ∧
    (run c (roundSched pt w c.setp p c.flag inj)).setp = c.setp := by
  induction p with
  | done =>
    intro c inj hr hm
    exact ⟨hr, hm, rfl, rfl⟩
  | cas o n t f iht ihf =>
    intro c inj hr hm
    simp only [roundSched, run_cons, step, stepDump, hr]
    by_cases hfo : c.flag = o
    · simp only [if_pos hfo]
      exact iht { c with flag := n, d := { c.d with rest := t } } inj rfl hm
    · simp only [if_neg hfo]
      exact ihf { c with d := { c.d with rest := f } } inj rfl hm
  | load v t f iht ihf =>
    intro c inj hr hm
    simp only [roundSched, run_cons, step, stepDump, hr]
    by_cases hfo : c.flag = v
    · simp only [if_pos hfo]
      exact iht { c with d := { c.d with rest := t } } inj rfl hm
    · simp only [if_neg hfo]
      exact ihf { c with d := { c.d with rest := f } } inj rfl hm
  | store v k ih =>
    intro c inj hr hm
    simp only [roundSched, run_cons, step, stepDump, hr]
    exact ih { c with flag := v, d := { c.d with rest := k } } inj rfl hm
  | snapshot k ih =>
    intro c inj hr hm
    obtain ⟨u1, u2, _, _, u5, u6, u7⟩ := run_update c (hm 1)
    unfold roundSched
    split
    · -- the update lands right before the snapshot
      rw [run_append, run_cons]
      generalize run c (updateSched c.setp c.flag) = c1 at u1 u2 u5 u6 u7
      simp only [step, stepDump, u2, hr]
      have := ih { c1 with d := ⟨k, some c1.live⟩ } true rfl (by intro t; show c1.m t = .idle; rw [u1]; exact hm t)
      simp only [u5, u6, u7] at this ⊢
      exact this
    · split
      · -- the update lands right after the snapshot
        rw [run_cons]
        simp only [step, stepDump, hr]
        rw [run_append]
        obtain ⟨v1, v2, _, _, v5, v6, v7⟩ := run_update { c with d := ⟨k, some c.live⟩ } (hm 1)
        generalize run { c with d := ⟨k, some c.live⟩ } (updateSched c.setp c.flag) = c1 at v1 v2 v5 v6 v7
        have := ih c1 true (by rw [v2]) (by intro t; rw [v1]; exact hm t)
        simp only [v5, v6, v7] at this ⊢
        exact this
      · rw [run_cons]
        simp only [step, stepDump, hr]
        exact ih { c with d := ⟨k, some c.live⟩ } inj rfl hm
  | write t f iht ihf =>
    intro c inj hr hm
    simp only [roundSched, run_cons, step, stepDump, hr]
    cases w
    · simp only [Bool.false_eq_true, if_false]
      exact ihf { c with d := { c.d with rest := f } } inj rfl hm
    · simp only [if_true]
      exact iht { c with file := c.d.content.getD c.file, d := { c.d with rest := t } } inj rfl hm

/-- a round without an injected update and with successful writes is the quiet round -/
theorem roundSched_quiet (setp p : Prog) (fl : Int) (inj : Bool) :
    roundSched .none true setp p fl inj = List.replicate (quietLen p fl) (.dump true) := by
  induction p generalizing fl inj with
  | done => rfl
  | cas o n t f iht ihf =>
    simp only [roundSched, quietLen, List.replicate_succ]
    split
    · rw [iht]
    · rw [ihf]
  | load v t f iht ihf =>
    simp only [roundSched, quietLen, List.replicate_succ]
    split
    · rw [iht]
    · rw [ihf]
  | store v k ih => simp only [roundSched, quietLen, List.replicate_succ]; rw [ih]
  | snapshot k ih =>
    unfold roundSched
    rw [if_neg (by intro h; cases h.1), if_neg (by intro h; cases h.1)]
    simp only [quietLen, List.replicate_succ]; rw [ih]
  | write t f iht _ => simp only [roundSched, quietLen, List.replicate_succ, if_true]; rw [iht]

/-- every item of a script ends idle and keeps the programs -/
theorem item_idle (c : Conf) (hidle : Idle c) (it : Item) :
    Idle (run c (itemSched c it)) ∧ (run c (itemSched c it)).prog = c.prog ∧ (run c (itemSched c it)).setp = c.setp := by
  cases it with
  | update =>
    obtain ⟨u1, u2, _, _, _, u6, u7⟩ := run_update c (hidle.muts 1)
    exact ⟨⟨by show (run c (updateSched c.setp c.flag)).d.rest = _; rw [u2]; exact hidle.rest,
            by intro t; show (run c (updateSched c.setp c.flag)).m t = _; rw [u1]; exact hidle.muts t⟩, u6, u7⟩
  | round pt w =>
    simp only [itemSched, fullRound, run_cons, step, stepDump, hidle.rest]
    obtain ⟨h1, h2, h3, h4⟩ := run_round pt w c.prog { c with d := ⟨c.prog, none⟩ } false rfl hidle.muts
    exact ⟨⟨h1, h2⟩, h3, h4⟩

/-- the model's observations of every script satisfy the predicate -/
theorem dumpHolds_runScript (items : List Item) : ∀ (c : Conf), Inv c → quietOk c.prog = true → Idle c →
    Spec.dumpHolds items (runScript c items) = true := by
  induction items with
  | nil => intro c _ _ _; rfl
  | cons it r ih =>
    intro c hI hq hidle
    obtain ⟨hid', hp, _⟩ := item_idle c hidle it
    have hI' : Inv (run c (itemSched c it)) := inv_run hI _
    cases it with
    | update =>
      simp only [runScript, Spec.dumpHolds]
      exact ih _ hI' (by rw [hp]; exact hq) hid'
    | round pt w =>
      simp only [runScript, Spec.dumpHolds, Bool.and_eq_true]
      refine ⟨⟨?_, ?_⟩, ih _ hI' (by rw [hp]; exact hq) hid'⟩
      · rcases behind_flag hI' hid'.rest hid'.muts with h | h
        · simp [h]
        · simp [h]
      · by_cases hq' : pt = .none ∧ w = true
        · obtain ⟨rfl, rfl⟩ := hq'
          have := (quiet_round_current hI hq hidle.rest hidle.muts).1
          simp only [itemSched, fullRound, roundSched_quiet]
          simp [this]
        · have : (pt == Point.none && w) = false := by
            cases pt <;> cases w <;> simp_all
          simp [this]

end MosnVerif.Model.DumpProto
