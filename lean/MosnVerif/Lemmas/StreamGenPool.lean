import MosnVerif.Lemmas.StreamGen
/-!
The pool half of the stream-generation invariant (C02 `no_foreign_answer`, for EVERY schedule).

`Lemmas/StreamGen.Inv` says what a wrapper's DestroyStream acts on. What is still needed for "nobody is handed someone
else's answer" is the POOL HYPOTHESIS, stated here explicitly (`PoolHyp`) in the vocabulary of C09
(`Props/C09`: `partition`, `exclusive`, `idle_clean_always`, `lease_never_dirty`):

* `idleFree`   an idle connection is leased to nobody            (C09 `partition`: ¬(Leased ∧ Idle))
* `excl`       a connection is leased to one exchange at a time  (C09 `exclusive`)
* `idleClean`  an idle (or not yet dialled) connection has no request in flight on it (C09 `idle_clean_always` /
               `lease_never_dirty`: what is leased again carries nothing of an earlier exchange)

and it is DISCHARGED for the pool as Model/StreamGen has it (LIFO idle list, lease at `take`, give-back by the
DestroyStream of the generation the pool client listens on) by induction over the schedule, together with the wire
facts (`WireInv`): the requests written on a connection and not answered yet are at most the one of its lease holder,
and `conn.stream` points at that holder.
-/
namespace MosnVerif.Lemmas.StreamGen
open MosnVerif.Model.StreamGen MosnVerif.Gen.RecvOrder

/-- exchange `e` holds its connection: leased at `take`, its wrapper has not run DestroyStream yet -/
def holds (e : Ex) : Prop := e.taken = true ∧ (e.pc = none ∨ e.pc = some [.destroy, .deliver])

/-- the pool hypothesis (what C09 proves of the real pools, in this model's vocabulary) -/
structure PoolHyp (s : St) : Prop where
  availNodup : s.avail.Nodup
  availLt : ∀ c ∈ s.avail, c < s.nconn
  connLt : ∀ k, (s.ex k).taken = true → (s.ex k).conn < s.nconn
  idleFree : ∀ c ∈ s.avail, ∀ k, holds (s.ex k) → (s.ex k).conn ≠ c
  excl : ∀ k k', holds (s.ex k) → holds (s.ex k') → (s.ex k).conn = (s.ex k').conn → k = k'
  idleClean : ∀ c, (c ∈ s.avail ∨ s.nconn ≤ c) → s.wire c = []

/-- what is on the wire of a connection belongs to its lease holder -/
structure WireInv (s : St) : Prop where
  sentTaken : ∀ k, (s.ex k).sent = true → (s.ex k).taken = true
  wireOk : ∀ c j, j ∈ s.wire c → s.wire c = [j] ∧ s.slot c = some j
  unsent : ∀ k, (s.ex k).taken = true → (s.ex k).sent = false → s.wire (s.ex k).conn = [] ∧ s.slot (s.ex k).conn = some k
  running : ∀ k, (s.ex k).pc = some [.destroy, .deliver] → s.wire (s.ex k).conn = []
  rtokOk : ∀ k p, (s.ex k).pc = some p → (s.ex k).rtok = k

structure Full (s : St) : Prop where
  inv : Inv s
  pool : PoolHyp s
  wire : WireInv s

theorem full_init : Full ({} : St) := by
  refine ⟨inv_init, ?_, ?_⟩ <;> constructor <;> simp [holds]


theorem full_send (s : St) (h : Full s) (k : Nat) : Full (step goodProg s (.send k)) := by
  refine ⟨inv_send s h.inv k, ?_, ?_⟩
  all_goals
    obtain ⟨hi, ⟨p1, p2, p3, p4, p5, p6⟩, ⟨w1, w2, w3, w4, w5⟩⟩ := h
    have hs := hi.slotOk
    simp only [step]
    split
    · first | exact ⟨p1, p2, p3, p4, p5, p6⟩ | exact ⟨w1, w2, w3, w4, w5⟩
    · rename_i hc
      simp only [Bool.or_eq_true, not_or, Bool.not_eq_true, Bool.not_eq_eq_eq_not, Bool.not_true,
        Bool.not_eq_false] at hc
      obtain ⟨⟨ht, hsent⟩, hd⟩ := hc
      have hw := w3 k ht hsent
      have hpc := hs _ _ hw.2
      have hx := fun k' => p5 k' k
      have hpo := hi.pcOk
      constructor <;> simp only [holds, upd_apply, apply_ite Ex.pc, apply_ite Ex.conn, apply_ite Ex.taken,
        apply_ite Ex.sent, apply_ite Ex.rtok] at * <;> grind

theorem full_take (s : St) (h : Full s) (k o : Nat) : Full (step goodProg s (.take k o)) := by
  refine ⟨inv_take s h.inv k o, ?_, ?_⟩
  all_goals
    obtain ⟨hi, ⟨p1, p2, p3, p4, p5, p6⟩, ⟨w1, w2, w3, w4, w5⟩⟩ := h
    have hs := hi.slotOk
    have hpo := hi.pcOk
    simp only [step]
    split
    · first | exact ⟨p1, p2, p3, p4, p5, p6⟩ | exact ⟨w1, w2, w3, w4, w5⟩
    · rename_i hc
      simp only [Bool.or_eq_true, not_or, Bool.not_eq_true, Option.isSome_eq_false_iff, Option.isNone_iff_eq_none] at hc
      obtain ⟨ht, ho⟩ := hc
      have hsent : (s.ex k).sent = false := by
        cases hh : (s.ex k).sent with
        | false => rfl
        | true => have := w1 k hh; simp [ht] at this
      have hpc : (s.ex k).pc = none := by
        cases hp : (s.ex k).pc with
        | none => rfl
        | some p => have := (hpo k p hp).2; simp [ht] at this
      cases ha : s.avail with
      | nil =>
        simp only [lease, ha]
        rw [ha] at p1 p2 p4 p6
        constructor <;> simp only [holds, upd_apply, apply_ite Ex.pc, apply_ite Ex.conn, apply_ite Ex.taken,
          apply_ite Ex.sent, apply_ite Ex.rtok] at * <;> grind
      | cons c r =>
        simp only [lease, ha]
        rw [ha] at p1 p2 p4 p6
        have hn := List.nodup_cons.mp p1
        constructor <;> simp only [holds, upd_apply, apply_ite Ex.pc, apply_ite Ex.conn, apply_ite Ex.taken,
          apply_ite Ex.sent, apply_ite Ex.rtok] at * <;> grind

theorem full_read (s : St) (h : Full s) (c : Nat) : Full (step goodProg s (.read c)) := by
  refine ⟨inv_read s h.inv c, ?_, ?_⟩
  all_goals
    obtain ⟨hi, ⟨p1, p2, p3, p4, p5, p6⟩, ⟨w1, w2, w3, w4, w5⟩⟩ := h
    have hs := hi.slotOk
    have hpo := hi.pcOk
    simp only [step]
    split
    · first | exact ⟨p1, p2, p3, p4, p5, p6⟩ | exact ⟨w1, w2, w3, w4, w5⟩
    · rename_i j r hw
      have hj := w2 c j (by rw [hw]; simp)
      rw [hw] at hj
      simp only [List.cons.injEq, true_and] at hj
      obtain ⟨hr, hsl⟩ := hj
      subst hr
      simp only [hsl]
      have hk := hs c j hsl
      constructor <;> simp only [holds, goodProg, upd_apply, apply_ite Ex.pc, apply_ite Ex.conn, apply_ite Ex.taken,
        apply_ite Ex.sent, apply_ite Ex.rtok] at * <;> grind

theorem full_finish (s : St) (h : Full s) (k : Nat) : Full (step goodProg s (.finish k)) := by
  refine ⟨inv_finish s h.inv k, ?_, ?_⟩
  all_goals
    obtain ⟨hi, ⟨p1, p2, p3, p4, p5, p6⟩, ⟨w1, w2, w3, w4, w5⟩⟩ := h
    simp only [step]
    split
    · first | exact ⟨p1, p2, p3, p4, p5, p6⟩ | exact ⟨w1, w2, w3, w4, w5⟩
    · constructor <;> simp only [holds, upd_apply, apply_ite Ex.pc, apply_ite Ex.conn, apply_ite Ex.taken,
        apply_ite Ex.sent, apply_ite Ex.rtok] at * <;> grind

theorem full_io (s : St) (h : Full s) (k : Nat) : Full (step goodProg s (.io k)) := by
  refine ⟨inv_io s h.inv k, ?_, ?_⟩
  all_goals
    obtain ⟨hi, ⟨p1, p2, p3, p4, p5, p6⟩, ⟨w1, w2, w3, w4, w5⟩⟩ := h
    have hs := hi.slotOk
    have hpo := hi.pcOk
    simp only [step]
    split
    · rename_i a p hp
      obtain ⟨hgot, hdone, htaken⟩ := got_nil_of_pc s hi k a p hp
      have hshape := (hpo k _ hp).1
      have hown := hi.own k htaken hdone
      rcases hshape with hh | hh | hh
      · simp only [List.cons.injEq] at hh
        obtain ⟨ha, hp'⟩ := hh
        subst ha; subst hp'
        have hrun := w4 k hp
        simp only [doDestroy, upd_apply, if_true, hown.2.2.2, hown.2.2.1]
        split
        · have hni : (s.ex k).conn ∉ s.avail := fun hm => p4 _ hm k ⟨htaken, Or.inr hp⟩ rfl
          have hnd : ((s.ex k).conn :: s.avail).Nodup := List.nodup_cons.mpr ⟨hni, p1⟩
          have hx := fun k' => p5 k' k
          constructor <;> simp only [holds, upd_apply, apply_ite Ex.pc, apply_ite Ex.conn, apply_ite Ex.taken,
            apply_ite Ex.sent, apply_ite Ex.rtok, List.mem_cons] at * <;> grind
        · constructor <;> simp only [holds, upd_apply, apply_ite Ex.pc, apply_ite Ex.conn, apply_ite Ex.taken,
            apply_ite Ex.sent, apply_ite Ex.rtok] at * <;> grind
      · simp only [List.cons.injEq] at hh
        obtain ⟨ha, hp'⟩ := hh
        subst ha; subst hp'
        constructor <;> simp only [holds, upd_apply, apply_ite Ex.pc, apply_ite Ex.conn, apply_ite Ex.taken,
          apply_ite Ex.sent, apply_ite Ex.rtok] at * <;> grind
      · simp at hh
    · first | exact ⟨p1, p2, p3, p4, p5, p6⟩ | exact ⟨w1, w2, w3, w4, w5⟩

theorem full_step (s : St) (h : Full s) (e : Ev) : Full (step goodProg s e) := by
  cases e with
  | take k o => exact full_take s h k o
  | send k => exact full_send s h k
  | read c => exact full_read s h c
  | io k => exact full_io s h k
  | finish k => exact full_finish s h k

theorem full_run (evs : List Ev) (s : St) (h : Full s) : Full (run goodProg s evs) := by
  induction evs generalizing s with
  | nil => exact h
  | cons e r ih => exact ih _ (full_step s h e)

/-- whatever an exchange is handed is the answer to ITS OWN request -/
theorem got_own (s : St) (h : Full s) (k j : Nat) (hg : (s.ex k).got = [j]) : j = k := by
  have hne : (s.ex k).got ≠ [] := by rw [hg]; simp
  have h1 := h.inv.gotOk k hne
  have h2 := h.wire.rtokOk k [] h1.1
  rw [h1.2, h2] at hg
  simpa using hg.symm

end MosnVerif.Lemmas.StreamGen
