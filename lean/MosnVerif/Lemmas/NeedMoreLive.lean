import MosnVerif.Lemmas.FrameSteps
import MosnVerif.Model.NeedMoreLive
/-! [c08l9] a "need more data" answer of a decoder is honest: some continuation of the buffer ends the wait -/
namespace MosnVerif.Lemmas.NeedMoreLive
open MosnVerif.Model.Framing MosnVerif.Model.FrameBytes MosnVerif.Model.FrameSteps MosnVerif.Model.NeedMoreLive
open MosnVerif.Gen.FrameLen MosnVerif.Gen.FrameConsts

def zeros (n : Nat) : Bytes := List.replicate n 0

/-- `h` never waits for ever: a buffer it answers needMore on has a continuation it answers a length or an error on -/
def HdrLive (h : Bytes → Hdr) : Prop := ∀ p, h p = .needMore → ∃ e, h (p ++ e) ≠ .needMore

theorem tarsHdr_live : HdrLive tarsHdr := by
  intro p _
  have hF : tars_packageErrorFails = true := by decide
  refine ⟨zeros (tars_lenFieldSize + tars_maxPackageLength), ?_⟩
  unfold tarsHdr
  have hl : (p ++ zeros (tars_lenFieldSize + tars_maxPackageLength)).length = p.length + (tars_lenFieldSize + tars_maxPackageLength) := by
    simp [zeros]
  rw [hl]
  have h1 : ¬ (p.length + (tars_lenFieldSize + tars_maxPackageLength) < tars_lenFieldSize) := by omega
  simp only [h1, if_false, hF, if_true]
  split
  · simp
  · rename_i h2
    have : ¬ (p.length + (tars_lenFieldSize + tars_maxPackageLength) < be (p ++ zeros (tars_lenFieldSize + tars_maxPackageLength)) 0 tars_lenFieldSize) := by omega
    simp [this]

theorem tarsHdr_needMore_not_hopeless (b : Bytes) (h : tarsHdr b = .needMore) : hopeless "tars" b = false := by
  have hF : tars_packageErrorFails = true := by decide
  unfold tarsHdr at h
  simp only [hF, if_true] at h
  simp only [hopeless, beq_self_eq_true, Bool.true_and, Bool.and_eq_false_iff, Bool.or_eq_false_iff, decide_eq_false_iff_not]
  by_cases h1 : b.length < tars_lenFieldSize
  · left; revert h1; frame_consts_defs; omega
  · simp only [h1, if_false] at h
    split at h
    · cases h
    · rename_i h2
      right
      revert h2; frame_consts_defs; omega

theorem dubboHdr_live : HdrLive dubboHdr := by
  intro p _
  let p1 := p ++ zeros 16
  refine ⟨zeros 16 ++ zeros (fld p1 dubbo_payLoadLen), ?_⟩
  have ha : p ++ (zeros 16 ++ zeros (fld p1 dubbo_payLoadLen)) = p1 ++ zeros (fld p1 dubbo_payLoadLen) := by
    simp [p1]
  rw [ha]
  have hl1 : 16 ≤ p1.length := by simp [p1, zeros]
  unfold dubboHdr
  rw [fld_append p1 _ dubbo_payLoadLen (by frame_len_defs; exact hl1)]
  have e1 : dubbo_enough1 (p1 ++ zeros (fld p1 dubbo_payLoadLen)).length = true := by
    frame_len_defs; simp [zeros]; omega
  have e2 : dubbo_enough2 (p1 ++ zeros (fld p1 dubbo_payLoadLen)).length (fld p1 dubbo_payLoadLen) = true := by
    frame_len_defs; simp [zeros]; omega
  rw [e1, e2]; simp

theorem thriftHdr_live : HdrLive thriftHdr := by
  intro p _
  let p1 := p ++ zeros 6
  refine ⟨zeros 6 ++ zeros (fld p1 thrift_sizeField + 4), ?_⟩
  have ha : p ++ (zeros 6 ++ zeros (fld p1 thrift_sizeField + 4)) = p1 ++ zeros (fld p1 thrift_sizeField + 4) := by
    simp [p1]
  rw [ha]
  have hl1 : 6 ≤ p1.length := by simp [p1, zeros]
  unfold thriftHdr
  rw [fld_append p1 _ thrift_sizeField (by frame_len_defs <;> omega)]
  have e1 : thrift_enough1 (p1 ++ zeros (fld p1 thrift_sizeField + 4)).length = true := by
    frame_len_defs; simp [zeros]; omega
  have e2 : thrift_enough2 (p1 ++ zeros (fld p1 thrift_sizeField + 4)).length (fld p1 thrift_sizeField) = true := by
    frame_len_defs; simp [zeros]
  rw [e1, e2]; simp

/-- liveness passes through the envelope: the decoder then yields a frame or an error -/
theorem envelope_live (h : Bytes → Hdr) (ok : Bytes → Bool) (hl : HdrLive h) (p : Bytes)
    (hp : envelope h ok p = .needMore) : ∃ e, envelope h ok (p ++ e) ≠ .needMore := by
  have hn : h p = .needMore := by
    unfold envelope at hp
    split at hp
    · assumption
    · cases hp
    · split at hp <;> cases hp
  obtain ⟨e, he⟩ := hl p hn
  refine ⟨e, ?_⟩
  unfold envelope
  split
  · rename_i h'; exact absurd h' he
  · simp
  · split <;> simp

end MosnVerif.Lemmas.NeedMoreLive
