import MosnVerif.Model.Dubbo
import MosnVerif.Model.EnvelopeRef
import MosnVerif.Lemmas.Bytes
/-! lemmas about the dubbo envelope model (core only) -/
namespace MosnVerif.Model.Dubbo
open MosnVerif.Model MosnVerif.Model.Bytes
open Gen.C01Dubbo

/-- what `decode` fixes about a frame it returns -/
theorem decode_frame {svcOK : Bytes → Bool} {b : Bytes} {f : Frame} {n : Nat} (h : decode svcOK b = .frame f n) :
    n = 16 + getBE b 12 16 ∧ n ≤ b.length ∧ 16 ≤ n ∧ f.raw = some (b.take n) ∧
    f.dataLen = getBE b 12 16 ∧ f.payload = (b.take n).drop 16 ∧ f.flag = getBE b 2 3 ∧ f.status = getBE b 3 4 ∧
    f.id = getBE b 4 12 ∧ f.magic0 = byteAt b 0 ∧ f.magic1 = byteAt b 1 ∧
    ((!isEvent f.flag && isRequest f.flag) = true → serializationId f.flag = 2 ∧ svcOK f.payload = true) := by
  unfold decode at h
  simp only [HeaderLen, DataLenIdx, DataLenSize, show 12 + 4 = 16 by rfl] at h
  by_cases h1 : b.length ≥ 16
  · simp only [h1, if_true] at h
    by_cases h2 : b.length ≥ 16 + getBE b 12 16
    · simp only [h2, if_true] at h
      unfold decodeFrame at h
      simp only [frameLen, HeaderLen, dec_DataLen, dec_Flag, dec_Status, dec_Id, dec_Magic] at h
      have hlt : getBE b 12 16 < 4294967296 := by have := getBE_lt b 12 16; simpa using this
      have hmod : (16 + getBE b 12 16) % 2 ^ 32 = 16 + getBE b 12 16 ∨ (16 + getBE b 12 16) % 2 ^ 32 < 16 := by
        by_cases hw : 16 + getBE b 12 16 < 2 ^ 32
        · exact Or.inl (Nat.mod_eq_of_lt hw)
        · right
          have : (16 + getBE b 12 16) % 2 ^ 32 = 16 + getBE b 12 16 - 2 ^ 32 := by
            rw [Nat.mod_eq_sub_mod (by omega), Nat.mod_eq_of_lt (by omega)]
          omega
      rcases hmod with hmod | hmod
      · simp only [hmod] at h
        have h3 : ¬ (16 + getBE b 12 16 < 16) := by omega
        simp only [h3, if_false] at h
        by_cases h4 : (!isEvent (getBE b 2 3) && isRequest (getBE b 2 3) &&
            (serializationId (getBE b 2 3) != 2 || !svcOK ((b.take (16 + getBE b 12 16)).drop 16))) = true
        · simp only [h4, if_true] at h; cases h
        · simp only [h4, if_false] at h
          injection h with hf hn
          subst hf; subst hn
          refine ⟨rfl, by omega, by omega, rfl, rfl, rfl, rfl, rfl, rfl, rfl, rfl, ?_⟩
          intro hreq
          simp only [hreq, Bool.true_and, Bool.or_eq_true, bne_iff_ne, ne_eq, Bool.not_eq_eq_eq_not, Bool.not_true, not_or,
            Decidable.not_not, Bool.not_eq_false] at h4
          exact h4
      · simp only [hmod, if_true] at h; cases h
    · simp only [h2, if_false] at h; cases h
  · simp only [h1, if_false] at h; cases h

/-- **fast path** -/
theorem encode_fast {svcOK : Bytes → Bool} {b : Bytes} {f : Frame} {n : Nat} (h : decode svcOK b = .frame f n) (i : Nat) :
    encode (setId f i) = patch (b.take n) 4 (be 8 i) := by
  obtain ⟨_, _, _, hraw, _⟩ := decode_frame h
  unfold encode setId
  simp only [hraw, patchIndex, patchWidth]
  have := be_mod 8 i
  simp only [show (256 : Nat) ^ 8 = 2 ^ 64 by decide] at this
  rw [this]

private theorem be1 (n : Nat) (h : n < 256) : toNat (be 1 n) = n := by rw [toNat_be]; omega
private theorem be4 (n : Nat) (h : n < 4294967296) : toNat (be 4 n) = n := by rw [toNat_be]; omega
private theorem be8 (n : Nat) (h : n < 18446744073709551616) : toNat (be 8 n) = n := by rw [toNat_be]; omega

theorem byteAt_lt (b : Bytes) (i : Nat) : byteAt b i < 256 := by
  unfold byteAt; exact UInt8.toNat_lt _

/-- reading back a header written by the slow path -/
theorem header_read (m0 m1 fl st id dl : Nat) (rest : Bytes)
    (h0 : m0 < 256) (h1 : m1 < 256) (h2 : fl < 256) (h3 : st < 256) (h4 : id < 18446744073709551616) (h5 : dl < 4294967296) :
    let H := encodeHeader m0 m1 fl st id dl
    H.length = 16 ∧ getBE (H ++ rest) 12 16 = dl ∧ getBE (H ++ rest) 2 3 = fl ∧ getBE (H ++ rest) 3 4 = st ∧
    getBE (H ++ rest) 4 12 = id ∧ byteAt (H ++ rest) 0 = m0 ∧ byteAt (H ++ rest) 1 = m1 := by
  intro H
  have e1 : slice (H ++ rest) 12 16 = be 4 dl := by simp [H, encodeHeader, be, slice]
  have e2 : slice (H ++ rest) 2 3 = be 1 fl := by simp [H, encodeHeader, be, slice]
  have e3 : slice (H ++ rest) 3 4 = be 1 st := by simp [H, encodeHeader, be, slice]
  have e4 : slice (H ++ rest) 4 12 = be 8 id := by simp [H, encodeHeader, be, slice]
  refine ⟨by simp [H, encodeHeader], ?_, ?_, ?_, ?_, ?_, ?_⟩
  · show toNat (slice _ 12 16) = dl; rw [e1, be4 _ h5]
  · show toNat (slice _ 2 3) = fl; rw [e2, be1 _ h2]
  · show toNat (slice _ 3 4) = st; rw [e3, be1 _ h3]
  · show toNat (slice _ 4 12) = id; rw [e4, be8 _ h4]
  · simp [H, encodeHeader, be, byteAt]; omega
  · simp [H, encodeHeader, be, byteAt]; omega

/-- **body replaced**: after `SetData d` on a decoded frame the encoder writes a frame that decodes to the same
magic / flag / status, the new id, `DataLen = |d|` and payload `d`, consuming everything -/
theorem setData_roundtrip {svcOK svcOK' : Bytes → Bool} {b : Bytes} {f : Frame} {n : Nat}
    (h : decode svcOK b = .frame f n) (d : Bytes) (i : Nat) (hd : 16 + d.length < 4294967296)
    (hsvc : (!isEvent f.flag && isRequest f.flag) = true → svcOK' d = true) :
    let out := encode (setId (setData f d) i)
    decode svcOK' out = .frame { f with id := i % 2 ^ 64, dataLen := d.length, payload := d, raw := some out } out.length := by
  obtain ⟨_, _, _, _, _, _, hfl, hst, _, hm0, hm1, hreq⟩ := decode_frame h
  have b0 : f.magic0 < 256 := hm0 ▸ byteAt_lt b 0
  have b1 : f.magic1 < 256 := hm1 ▸ byteAt_lt b 1
  have b2 : f.flag < 256 := by rw [hfl]; have := getBE_lt b 2 3; simpa using this
  have b3 : f.status < 256 := by rw [hst]; have := getBE_lt b 3 4; simpa using this
  have b4 : i % 2 ^ 64 < 18446744073709551616 := Nat.mod_lt _ (by decide)
  have hdm : d.length % 2 ^ 32 = d.length := Nat.mod_eq_of_lt (by omega)
  intro out
  have hout : out = encodeHeader f.magic0 f.magic1 f.flag f.status (i % 2 ^ 64) d.length ++ d := by
    simp [out, encode, setId, setData, hdm]
  obtain ⟨hl, r1, r2, r3, r4, r5, r6⟩ := header_read f.magic0 f.magic1 f.flag f.status (i % 2 ^ 64) d.length d b0 b1 b2 b3 b4 (by omega)
  rw [← hout] at r1 r2 r3 r4 r5 r6
  have holen : out.length = 16 + d.length := by rw [hout, List.length_append, hl]
  unfold decode
  simp only [HeaderLen, DataLenIdx, DataLenSize, show 12 + 4 = 16 by rfl, r1, holen]
  have g1 : 16 + d.length ≥ 16 := by omega
  have g2 : 16 + d.length ≥ 16 + d.length := Nat.le_refl _
  simp only [g1, g2, if_true]
  unfold decodeFrame
  simp only [frameLen, HeaderLen, dec_DataLen, dec_Flag, dec_Status, dec_Id, dec_Magic, r1, r2, r3, r4, r5,
    show (0 : Nat) + 1 = 1 by rfl, r6]
  have hmod : (16 + d.length) % 2 ^ 32 = 16 + d.length := Nat.mod_eq_of_lt (by omega)
  have g3 : ¬ (16 + d.length < 16) := by omega
  have htake : out.take (16 + d.length) = out := by rw [← holen]; exact List.take_length
  have hdrop : out.drop 16 = d := by rw [hout, ← hl]; simp
  simp only [hmod, g3, if_false, htake, hdrop]
  by_cases hr : (!isEvent f.flag && isRequest f.flag) = true
  · have hs := (hreq hr).1
    have hv := hsvc hr
    simp [hr, hs, hv]
  · simp [hr]

theorem getBE_one (b : Bytes) (i : Nat) (h : i < b.length) : getBE b i (i + 1) = byteAt b i := by
  unfold getBE slice byteAt
  rw [List.drop_take, Nat.add_sub_cancel_left]
  have : (b.drop i).take 1 = [b[i]] := by
    rw [List.drop_eq_getElem_cons h]; rfl
  rw [this]
  simp [toNat, List.getD_eq_getElem?_getD, List.getElem?_eq_getElem h]

theorem take4 (b : Bytes) (h : 4 ≤ b.length) :
    b.take 4 = be 1 (byteAt b 0) ++ be 1 (byteAt b 1) ++ be 1 (byteAt b 2) ++ be 1 (byteAt b 3) := by
  match b, h with
  | x0 :: x1 :: x2 :: x3 :: r, _ => simp [byteAt, be]

/-- what the reference calls a well-formed frame is exactly what the model's `Decode` accepts -/
theorem wellFormed_of_decode {ok : Bool} {b : Bytes} {f : Frame} {n : Nat} (h : decode (fun _ => ok) b = .frame f n) :
    EnvelopeRef.Dubbo.wellFormed b ok = some n := by
  obtain ⟨hn, hle, h16, _, _, _, hfl, _, _, _, _, hreq⟩ := decode_frame h
  have hflag : byteAt b 2 = f.flag := by rw [hfl]; exact (getBE_one b 2 (by omega)).symm
  have hwrap : 16 + getBE b 12 16 < 4294967296 := by
    -- otherwise decodeFrame panics on the wrapped uint32 frame length
    by_cases hw : 16 + getBE b 12 16 < 4294967296
    · exact hw
    · exfalso
      have hlt : getBE b 12 16 < 4294967296 := by have := getBE_lt b 12 16; simpa using this
      unfold decode at h
      have k1 : b.length ≥ 16 := by omega
      have k2 : b.length ≥ 16 + getBE b 12 16 := by omega
      simp only [HeaderLen, DataLenIdx, DataLenSize, show 12 + 4 = 16 by rfl, k1, k2, if_true] at h
      unfold decodeFrame at h
      simp only [frameLen, HeaderLen, dec_DataLen] at h
      have : (16 + getBE b 12 16) % 2 ^ 32 < 16 := by
        have : (16 + getBE b 12 16) % 2 ^ 32 = 16 + getBE b 12 16 - 2 ^ 32 := by
          rw [Nat.mod_eq_sub_mod (by omega), Nat.mod_eq_of_lt (by omega)]
        omega
      simp only [this, if_true] at h
      cases h
  unfold EnvelopeRef.Dubbo.wellFormed
  have g1 : ¬ (b.length < 16) := by omega
  have g2 : ¬ (b.length < 16 + getBE b 12 16) := by omega
  have g2' : ¬ (16 + getBE b 12 16 ≥ 4294967296) := by omega
  simp only [g1, g2, g2', if_false, hflag]
  by_cases hr : (!isEvent f.flag && isRequest f.flag) = true
  · obtain ⟨hs, hv⟩ := hreq hr
    simp only [Bool.and_eq_true, Bool.not_eq_eq_eq_not, Bool.not_true] at hr
    simp only [isEvent, isRequest, serializationId] at hr hs
    simp [hr.1, hr.2, hs, hv, hn]
  · simp only [isEvent, isRequest, Bool.and_eq_true, Bool.not_eq_eq_eq_not, Bool.not_true, not_and, Bool.not_eq_true] at hr
    by_cases he : (f.flag / 32 % 2 == 1) = true
    · simp [he, hn]
    · have := hr (by simpa using he)
      simp [this, hn]

theorem decode_of_wellFormed {ok : Bool} {b : Bytes} {n : Nat} (h : EnvelopeRef.Dubbo.wellFormed b ok = some n) :
    ∃ f, decode (fun _ => ok) b = .frame f n := by
  unfold EnvelopeRef.Dubbo.wellFormed at h
  by_cases g1 : b.length < 16
  · simp only [g1, if_true] at h; cases h
  · by_cases g2 : b.length < 16 + getBE b 12 16
    · simp only [g1, g2, if_true, if_false] at h; cases h
    · by_cases g2' : 16 + getBE b 12 16 ≥ 4294967296
      · simp only [g1, g2, g2', if_true, if_false] at h; cases h
      · simp only [g1, g2, g2', if_false] at h
        have hflag : byteAt b 2 = getBE b 2 3 := (getBE_one b 2 (by omega)).symm
        unfold decode
        have k1 : b.length ≥ 16 := by omega
        have k2 : b.length ≥ 16 + getBE b 12 16 := by omega
        simp only [HeaderLen, DataLenIdx, DataLenSize, show 12 + 4 = 16 by rfl, k1, k2, if_true]
        unfold decodeFrame
        simp only [frameLen, HeaderLen, dec_DataLen, dec_Flag, dec_Status, dec_Id, dec_Magic]
        have hmod : (16 + getBE b 12 16) % 2 ^ 32 = 16 + getBE b 12 16 := Nat.mod_eq_of_lt (by omega)
        have g3 : ¬ (16 + getBE b 12 16 < 16) := by omega
        simp only [hmod, g3, if_false]
        rw [hflag] at h
        by_cases hc : ((getBE b 2 3 / 128 % 2 == 1) && !(getBE b 2 3 / 32 % 2 == 1) && !(getBE b 2 3 % 32 == 2 && ok)) = true
        · simp only [hc, if_true] at h; cases h
        · simp only [hc, if_false] at h
          injection h with h
          have hc' : (!isEvent (getBE b 2 3) && isRequest (getBE b 2 3) &&
              (serializationId (getBE b 2 3) != 2 || !ok)) = false := by
            simp only [isEvent, isRequest, serializationId]
            cases h1 : (getBE b 2 3 / 128 % 2 == 1) <;> cases h2 : (getBE b 2 3 / 32 % 2 == 1) <;>
              cases h3 : (getBE b 2 3 % 32 == 2) <;> cases ok <;> simp_all
          simp only [hc', Bool.false_eq_true, if_false]
          exact ⟨_, by rw [h]⟩

/-- the frame handed to `Encode`: body replaced or not -/
def withBody (f : Frame) : Option Bytes → Frame
  | none => f
  | some d => setData f d

/-- the model satisfies the dubbo reference predicate (header-map operations excluded: see the finding) -/
theorem holds_frame (ok : Bool) (inp : Bytes) (body : Option Bytes) (id : Nat)
    (hbody : ∀ d, body = some d → 16 + d.length < 4294967296)
    (f : Frame) (n : Nat) (h : decode (fun _ => ok) inp = .frame f n) :
    EnvelopeRef.Dubbo.holds inp ok { hdrOps := false, body := body } id true n
      (some (encode (setId (withBody f body) id))) = true := by
  have hwf := wellFormed_of_decode h
  obtain ⟨hn, hle, h16, _, _, _, hfl, hst, _, hm0, hm1, _⟩ := decode_frame h
  unfold EnvelopeRef.Dubbo.holds
  rw [hwf]
  simp only [Bool.true_and, beq_self_eq_true, Bool.false_eq_true, if_false]
  cases body with
  | none =>
    simp only [withBody]
    rw [encode_fast h id]
    simp
  | some d =>
    have hd := hbody d rfl
    have hd' : d.length < 4294967296 := by omega
    simp only [withBody, hd', if_true]
    have hdm : d.length % 2 ^ 32 = d.length := Nat.mod_eq_of_lt (by omega)
    have e8 : be 8 (id % 2 ^ 64) = be 8 id := by
      have := be_mod 8 id
      simpa only [show (256 : Nat) ^ 8 = 2 ^ 64 by decide] using this
    have hout : encode (setId (setData f d) id) = inp.take 4 ++ be 8 id ++ be 4 d.length ++ d := by
      rw [take4 inp (by omega)]
      simp only [encode, setId, setData, encodeHeader, hdm, e8, hm0, hm1, hfl, hst,
        getBE_one inp 2 (by omega), getBE_one inp 3 (by omega), List.append_assoc]
    rw [hout]
    simp

theorem holds_noframe (ok : Bool) (inp : Bytes) (m : EnvelopeRef.Mods) (id : Nat)
    (h : ∀ f n, decode (fun _ => ok) inp ≠ .frame f n) (acc : Bool) (k : Nat) (out : Option Bytes) :
    EnvelopeRef.Dubbo.holds inp ok m id acc k out = true := by
  unfold EnvelopeRef.Dubbo.holds
  cases hw : EnvelopeRef.Dubbo.wellFormed inp ok with
  | none => rfl
  | some n =>
    obtain ⟨f, hf⟩ := decode_of_wellFormed hw
    exact absurd hf (h f n)

end MosnVerif.Model.Dubbo
