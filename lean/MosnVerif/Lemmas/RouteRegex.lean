import MosnVerif.Model.RouteRegex
/-!
Lemmas about the reference regex matcher (C04): a meta-free pattern parses to the sequence of its characters, and that
sequence matches a text iff the pattern is a contiguous sub-string of it.  Core Lean only.
-/
namespace MosnVerif.Model.RouteRegex

theorem ends_lit (n : Nat) (p t : Txt) :
    ends n (lit p) t = if p.isPrefixOf t then [t.drop p.length] else [] := by
  induction p generalizing t with
  | nil => simp [lit, ends]
  | cons c r ih =>
    cases t with
    | nil => simp [lit, ends]
    | cons d t' =>
      simp only [lit, ends]
      by_cases h : d = c
      · subst h; simp [ih]
      · have hcd : (c == d) = false := by simp; exact fun e => h e.symm
        simp [h, List.isPrefixOf, hcd]

theorem mem_sufs {t v : Txt} : t ∈ sufs v ↔ t <:+ v := by
  induction v with
  | nil => simp [sufs]
  | cons c r ih => simp [sufs, List.suffix_cons_iff, ih]

/-- the literal expression matches exactly the texts that contain the literal -/
theorem matches_lit (p v : Txt) : matchesRe (lit p) v = true ↔ p <:+: v := by
  simp only [matchesRe, List.any_eq_true, ends_lit]
  rw [List.infix_iff_prefix_suffix]
  constructor
  · rintro ⟨t, ht, h⟩
    refine ⟨t, ?_, mem_sufs.mp ht⟩
    by_cases hp : p.isPrefixOf t = true
    · exact List.isPrefixOf_iff_prefix.mp hp
    · simp [hp] at h
  · rintro ⟨t, hp, hs⟩
    exact ⟨t, mem_sufs.mpr hs, by simp [List.isPrefixOf_iff_prefix.mpr hp]⟩

theorem postOp_nonmeta (a : Re) (r : Txt) (h : ∀ c ∈ r, isMeta c = false) : postOp a r = some (a, r) := by
  cases r with
  | nil => rfl
  | cons c r' => simp [postOp, h c (by simp)]

theorem parse_atom_nonmeta (f : Nat) (c : Char) (r : Txt) (hc : isMeta c = false) :
    parse (f + 1) .atom (c :: r) = some (.chr c, r) := by
  simp [parse, hc]

theorem parse_seq_cons (f : Nat) (c : Char) (r : Txt) (b : Re) (r3 : Txt) (hc : isMeta c = false)
    (hr : ∀ x ∈ r, isMeta x = false) (hat : parse f .atom (c :: r) = some (.chr c, r))
    (hs : parse f .seq r = some (b, r3)) :
    parse (f + 1) .seq (c :: r) = some (.cat (.chr c) b, r3) := by
  simp only [parse, hc, hat, postOp_nonmeta _ _ hr, hs]
  simp

theorem parse_seq_lit (p : Txt) (h : ∀ c ∈ p, isMeta c = false) :
    ∀ f, p.length + 1 ≤ f → parse f .seq p = some (lit p, []) := by
  induction p with
  | nil =>
    intro f hf
    obtain ⟨f1, rfl⟩ : ∃ f1, f = f1 + 1 := ⟨f - 1, by omega⟩
    simp [parse, lit]
  | cons c r ih =>
    intro f hf
    have hc := h c (by simp)
    have hr : ∀ x ∈ r, isMeta x = false := fun x hx => h x (by simp [hx])
    simp only [List.length_cons] at hf
    obtain ⟨f2, rfl⟩ : ∃ f2, f = f2 + 1 + 1 := ⟨f - 2, by omega⟩
    have ih' := ih hr (f2 + 1) (by omega)
    exact parse_seq_cons (f2 + 1) c r (lit r) [] hc hr (parse_atom_nonmeta f2 c r hc) ih'

/-- a pattern without meta characters is inside the subset and denotes the sequence of its characters -/
theorem parse_alt_of_seq (f : Nat) (s : Txt) (a : Re) (h : parse f .seq s = some (a, [])) :
    parse (f + 1) .alt s = some (a, []) := by
  simp only [parse]
  rw [h]

theorem parseRe_literal (p : Txt) (h : ∀ c ∈ p, isMeta c = false) : parseRe p = some (lit p) := by
  have hs := parse_seq_lit p h (3 * p.length + 2) (by omega)
  have ha := parse_alt_of_seq _ _ _ hs
  unfold parseRe
  rw [ha]

theorem isLiteral_iff (p : Txt) : isLiteral p = true ↔ ∀ c ∈ p, isMeta c = false := by
  simp [isLiteral]

end MosnVerif.Model.RouteRegex
