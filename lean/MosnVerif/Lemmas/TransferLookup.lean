import MosnVerif.Model.TransferLookup
/-! Lemmas about the listener look-up of a handed-over connection (core Lean only). -/
namespace MosnVerif.Lemmas.TransferLookup
open MosnVerif.Model.TransferLookup MosnVerif.Gen.TransferLookup

theorem findMatches_iff (ln la n a : String) : findMatches ln la n a = true ↔ ln = n ∧ la = a := by
  simp [findMatches]

/-- a listener with that network and address exists: the look-up by address finds one with the same network and address -/
theorem findByAddress_of_mem (ls : List Lst) (L : Lst) (hm : L ∈ ls) :
    ∃ R, findByAddress ls L.network L.addr = some R := by
  unfold findByAddress
  have h : (ls.find? (fun l => findMatches l.network l.addr L.network L.addr)).isSome = true := by
    rw [List.find?_isSome]
    exact ⟨L, hm, (findMatches_iff _ _ _ _).2 ⟨rfl, rfl⟩⟩
  exact Option.isSome_iff_exists.1 h

theorem findByAddress_some (ls : List Lst) (n a : String) (R : Lst) (h : findByAddress ls n a = some R) :
    R ∈ ls ∧ R.network = n ∧ R.addr = a := by
  unfold findByAddress at h
  refine ⟨List.mem_of_find?_eq_some h, ?_⟩
  have := List.find?_some h
  exact (findMatches_iff _ _ _ _).1 this

/-- whatever the rule: a found listener is a member, has the connection's network and one of the rule's addresses -/
theorem findWith_some (rule : Rule) (ls : List Lst) (a : Local) (R : Lst) (h : findWith rule ls a = some R) :
    R ∈ ls ∧ R.network = a.network ∧ R.addr ∈ rule a := by
  unfold findWith at h
  obtain ⟨s, hs, hf⟩ := List.exists_of_findSome?_eq_some h
  obtain ⟨h1, h2, h3⟩ := findByAddress_some ls a.network s R hf
  exact ⟨h1, h2, h3 ▸ hs⟩

/-- whatever the rule: if one of its addresses is the address of a listener of the connection's network, something is found -/
theorem findWith_isSome (rule : Rule) (ls : List Lst) (a : Local) (L : Lst) (hm : L ∈ ls) (hn : L.network = a.network)
    (hc : L.addr ∈ rule a) : ∃ R, findWith rule ls a = some R := by
  unfold findWith
  have h : ((rule a).findSome? (fun s => findByAddress ls a.network s)).isSome = true := by
    rw [List.findSome?_isSome_iff]
    obtain ⟨R, hR⟩ := findByAddress_of_mem ls L hm
    exact ⟨L.addr, hc, by rw [← hn, hR]; rfl⟩
  exact Option.isSome_iff_exists.1 h

/-- the regenerated rule tries the address of every listener that can have accepted the connection -/
theorem accepted_addr_mem_candidates (L : Lst) (a : Local) (h : accepted L a) : L.addr ∈ candidates a := by
  obtain ⟨_, h⟩ := h
  unfold candidates
  rcases h with h | ⟨hu, h⟩
  · by_cases hu : a.unix = true
    · simp [hu, unixCandidates, h]
    · simp [hu, tcpCandidates, h]
  · rcases h with h | h
    · cases hv : a.v4 <;> simp [hu, tcpCandidates, h, v4wild, hv]
    · cases hv : a.v4 <;> simp [hu, tcpCandidates, h, v6wild, hv]

/-- and only addresses a listener that accepts such a connection can have -/
theorem candidates_serve (a : Local) (s : String) (h : s ∈ candidates a) :
    s = a.str ∨ (a.unix = false ∧ (s = v4wild a ∨ s = v6wild a)) := by
  unfold candidates at h
  by_cases hu : a.unix = true
  · simp [hu, unixCandidates] at h; exact Or.inl h
  · have hu' : a.unix = false := by cases hx : a.unix <;> simp_all
    simp only [hu', Bool.false_eq_true, ↓reduceIte, tcpCandidates, List.mem_cons, List.not_mem_nil, or_false] at h
    simp only [v4wild, v6wild, true_and]
    grind

/-- the connection's own address is the FIRST address tried -/
theorem candidates_head (a : Local) : ∃ tl, candidates a = a.str :: tl := by
  unfold candidates
  cases a.unix <;> simp [unixCandidates, tcpCandidates]

/-- so a listener configured on exactly the connection's address is preferred to any wildcard listener -/
theorem find_prefers_exact (ls : List Lst) (L : Lst) (a : Local) (hm : L ∈ ls) (hn : L.network = a.network)
    (he : L.addr = a.str) : ∃ R, find ls a = some R ∧ R ∈ ls ∧ R.network = a.network ∧ R.addr = a.str := by
  obtain ⟨tl, htl⟩ := candidates_head a
  obtain ⟨R, hR⟩ := findByAddress_of_mem ls L hm
  rw [hn, he] at hR
  refine ⟨R, ?_, findByAddress_some ls a.network a.str R hR⟩
  simp [find, findWith, htl, List.findSome?_cons, hR]

end MosnVerif.Lemmas.TransferLookup
