import MosnVerif.Lemmas.FrameSteps
import MosnVerif.Lemmas.Framing
/-! bolt v1 frames on a boltv2 connection (and v2 frames on a bolt connection): `Decode` looks at the first byte and hands
the buffer to the sibling codec BEFORE it applies its own minimum length — over the regenerated guard (`*_nonEmpty`),
first-byte test (`*_isOther`, `*_codeIdx`) and minimum lengths (`bolt_enough`, `boltv2_enough`) of Gen/FrameLen. -/
namespace MosnVerif.Lemmas.BoltHandover
open MosnVerif.Model.Framing MosnVerif.Model.FrameBytes MosnVerif.Model.FrameSteps
open MosnVerif.Gen.FrameLen MosnVerif.Gen.FrameConsts

theorem boltSel_v1_on_v2 (b : Bytes) (hb : 0 < b.length) (h1 : u8 b 0 = 1) :
    boltSel selFuel true b = boltSel selFuel false b := by
  have h0 : b.length > 0 := hb
  simp only [selFuel, boltSel]
  frame_len_defs
  simp [h0, h1]

theorem boltSel_v2_on_v1 (b : Bytes) (hb : 0 < b.length) (h2 : u8 b 0 = 2) :
    boltSel selFuel false b = boltSel selFuel true b := by
  have h0 : b.length > 0 := hb
  simp only [selFuel, boltSel]
  frame_len_defs
  simp [h0, h2]

theorem frameStep_sibling (v2 : Bool) (b : Bytes) (hb : 0 < b.length) (c : Nat) (h1 : u8 b 0 = c)
    (hs : ∀ q : Bytes, 0 < q.length → u8 q 0 = c → boltSel selFuel v2 q = boltSel selFuel (!v2) q) :
    envelope (boltHdr v2) (boltOk v2) b = envelope (boltHdr !v2) (boltOk !v2) b := by
  unfold envelope
  have hh : boltHdr v2 b = boltHdr (!v2) b := by unfold boltHdr; rw [hs b hb h1]
  rw [hh]
  split
  · rfl
  · rfl
  · rename_i n hn
    have ⟨n0, nl⟩ := (boltHdr_stable (!v2)).pos b n hn
    have hl : (b.take n).length = n := by simp [List.length_take]; omega
    have hu : u8 (b.take n) 0 = c := by
      have := u8_append (b.take n) (b.drop n) 0 (by omega)
      rw [List.take_append_drop] at this
      rw [← this]; exact h1
    have : boltOk v2 (b.take n) = boltOk (!v2) (b.take n) := by
      unfold boltOk
      rw [hs (b.take n) (by omega) hu]
    rw [this]

theorem frameStep_v1_on_v2 (b : Bytes) (hb : 0 < b.length) (h1 : u8 b 0 = 1) : frameStep_boltv2 b = frameStep_bolt b :=
  frameStep_sibling true b hb 1 h1 boltSel_v1_on_v2

theorem frameStep_v2_on_v1 (b : Bytes) (hb : 0 < b.length) (h2 : u8 b 0 = 2) : frameStep_bolt b = frameStep_boltv2 b :=
  frameStep_sibling false b hb 2 h2 boltSel_v2_on_v1

end MosnVerif.Lemmas.BoltHandover
