import MosnVerif.Model.ProxyGen
/-! Invariant of the pooled-object machine (Model/ProxyGen) for guarded callback shapes. Core Lean only. -/
namespace MosnVerif.Lemmas.ProxyGen
open MosnVerif.Model.ProxyGen
open MosnVerif.Gen.ProxyGen (Step)

/-- what is known about one callback, relative to the object's generation / reuse flag and the counter -/
structure CbOk (gen : Nat) (reuse : Bool) (ctr : Nat) (c : Cb) : Prop where
  capArm : c.fresh = false → c.cap = c.own ∧ 1 ≤ c.cap ∧ c.cap ≤ ctr
  nrOk : c.nr = true → c.fresh = false → gen = c.cap → reuse = false
  pgOk : c.pg = true → gen = c.cap ∧ c.fresh = false ∧ c.nr = true
  safe : ∀ p, c.pc = some p → safeProg p c.nr c.fresh c.pg = true
  idle : c.pc = none → c.nr = false ∧ c.fresh = false ∧ c.pg = false

structure Inv (s : St) : Prop where
  genLe : s.o.gen ≤ s.ctr
  pool : s.o.held = false → s.o.gen = 0
  heldPos : s.o.held = true → 1 ≤ s.o.gen
  cbs : ∀ c ∈ s.cbs, CbOk s.o.gen s.o.reuse s.ctr c
  hits : ∀ h ∈ s.hits, h.hit = h.own ∧ h.held = true
  touched : ∀ t ∈ s.touched, t.2 = t.1
  replies : ∀ r ∈ s.replies, r.2 = r.1

theorem mem_updAt {l : List Cb} {i : Nat} {f : Cb → Cb} {c' : Cb} (h : c' ∈ updAt l i f) :
    c' ∈ l ∨ ∃ c, l[i]? = some c ∧ c' = f c := by
  induction l generalizing i with
  | nil => simp [updAt] at h
  | cons a r ih =>
    cases i with
    | zero =>
      simp only [updAt, List.mem_cons] at h
      rcases h with h | h
      · exact Or.inr ⟨a, by simp, h⟩
      · exact Or.inl (List.mem_cons_of_mem _ h)
    | succ j =>
      simp only [updAt, List.mem_cons] at h
      rcases h with h | h
      · exact Or.inl (by simp [h])
      · rcases ih h with h' | ⟨c, hc, he⟩
        · exact Or.inl (List.mem_cons_of_mem _ h')
        · exact Or.inr ⟨c, by simpa using hc, he⟩

theorem CbOk.mono {gen : Nat} {reuse : Bool} {ctr ctr' : Nat} {c : Cb} (h : CbOk gen reuse ctr c) (hc : ctr ≤ ctr') :
    CbOk gen reuse ctr' c :=
  ⟨fun hf => ⟨(h.capArm hf).1, (h.capArm hf).2.1, Nat.le_trans (h.capArm hf).2.2 hc⟩, h.nrOk, h.pgOk, h.safe, h.idle⟩

/-- the reuse flag is cleared (or kept) -/
theorem CbOk.clear {gen : Nat} {reuse reuse' : Bool} {ctr : Nat} {c : Cb} (h : CbOk gen reuse ctr c)
    (hr : reuse' = false ∨ reuse' = reuse) : CbOk gen reuse' ctr c :=
  ⟨h.capArm, fun a b d => by rcases hr with hr | hr <;> simp [hr, h.nrOk a b d], h.pgOk, h.safe, h.idle⟩

/-- the object gets a generation no armed callback can hold (0, or above the counter), and `c` had not passed its test -/
theorem CbOk.regen {gen gen' : Nat} {reuse reuse' : Bool} {ctr ctr' : Nat} {c : Cb} (h : CbOk gen reuse ctr c)
    (hpg : c.pg = false) (hg : gen' = 0 ∨ ctr < gen') (hc : ctr ≤ ctr') : CbOk gen' reuse' ctr' c :=
  ⟨fun hf => ⟨(h.capArm hf).1, (h.capArm hf).2.1, Nat.le_trans (h.capArm hf).2.2 hc⟩,
   fun _ b d => by have := h.capArm b; omega,
   fun a => by simp [hpg] at a, h.safe, h.idle⟩

/-- a callback that passed its test pins the object: held, generation = own, never reusable -/
theorem pinned {s : St} (inv : Inv s) {c : Cb} (hc : c ∈ s.cbs) (hpg : c.pg = true) :
    s.o.held = true ∧ s.o.reuse = false ∧ s.o.gen = c.own := by
  have h := inv.cbs c hc
  obtain ⟨hg, hf, hn⟩ := h.pgOk hpg
  have ha := h.capArm hf
  refine ⟨?_, h.nrOk hn hf hg, by omega⟩
  cases hh : s.o.held with
  | true => rfl
  | false => have := inv.pool hh; omega

theorem safeProg_guard {a : Step} {p : List Step} {nr fresh pg : Bool} (h : safeProg (a :: p) nr fresh pg = true)
    (ha : a = .act ∨ a = .casResp ∨ a = .markExpired) : pg = true ∧ safeProg p nr fresh pg = true := by
  rcases ha with ha | ha | ha <;> subst ha <;> simpa [safeProg] using h

/-- one statement of a started callback keeps the callback's facts, leaves generation / held alone, can only clear the
reuse flag, and whatever it hits or touches is its own exchange -/
theorem stmt_ok {s : St} (inv : Inv s) {c : Cb} (hc : c ∈ s.cbs) {a : Step} {p : List Step} (hpc : c.pc = some (a :: p)) :
    (stmt s.o c a p).1.gen = s.o.gen ∧ (stmt s.o c a p).1.held = s.o.held ∧
    ((stmt s.o c a p).1.reuse = false ∨ (stmt s.o c a p).1.reuse = s.o.reuse) ∧
    CbOk s.o.gen (stmt s.o c a p).1.reuse s.ctr (stmt s.o c a p).2.1 ∧
    (∀ h ∈ (stmt s.o c a p).2.2.1, h.hit = h.own ∧ h.held = true) ∧
    (∀ t ∈ (stmt s.o c a p).2.2.2, t.2 = t.1) := by
  have h0 := inv.cbs c hc
  have hs := h0.safe _ hpc
  have nil1 : ∀ h ∈ ([] : List Hit), h.hit = h.own ∧ h.held = true := fun _ x => by simp at x
  have nil2 : ∀ t ∈ ([] : List (Nat × Nat)), t.2 = t.1 := fun _ x => by simp at x
  have ret : CbOk s.o.gen s.o.reuse s.ctr { c with pc := some [] } :=
    ⟨h0.capArm, h0.nrOk, h0.pgOk, fun q hq => by simp only [Option.some.injEq] at hq; subst hq; rfl, fun x => by simp at x⟩
  have adv : safeProg p c.nr c.fresh c.pg = true → CbOk s.o.gen s.o.reuse s.ctr { c with pc := some p } := fun hs' =>
    ⟨h0.capArm, h0.nrOk, h0.pgOk, fun q hq => by simp only [Option.some.injEq] at hq; subst hq; exact hs', fun x => by simp at x⟩
  cases a with
  | noReuse =>
    have e : stmt s.o c .noReuse p = ({ s.o with reuse := false }, { c with pc := some p, nr := true }, [], []) := rfl
    rw [e]
    refine ⟨rfl, rfl, Or.inl rfl, ⟨h0.capArm, fun _ _ _ => rfl, fun x => ⟨(h0.pgOk x).1, (h0.pgOk x).2.1, rfl⟩, fun q hq => ?_, fun x => by simp at x⟩, nil1, nil2⟩
    simp only [Option.some.injEq] at hq; subst hq; simpa [safeProg] using hs
  | loadGen =>
    have e : stmt s.o c .loadGen p = (s.o, { c with pc := some p, cap := s.o.gen, fresh := true, pg := false }, [], []) := rfl
    rw [e]
    refine ⟨rfl, rfl, Or.inr rfl, ⟨fun x => by simp at x, fun _ x => by simp at x, fun x => by simp at x, fun q hq => ?_, fun x => by simp at x⟩, nil1, nil2⟩
    simp only [Option.some.injEq] at hq; subst hq; simpa [safeProg] using hs
  | testCleaned =>
    have hs' : safeProg p c.nr c.fresh c.pg = true := by simpa [safeProg] using hs
    by_cases hcl : s.o.cleaned = true
    · have e : stmt s.o c .testCleaned p = (s.o, { c with pc := some [] }, [], []) := by simp [stmt, hcl]
      rw [e]; exact ⟨rfl, rfl, Or.inr rfl, ret, nil1, nil2⟩
    · have e : stmt s.o c .testCleaned p = (s.o, { c with pc := some p }, [], []) := by simp [stmt, hcl]
      rw [e]; exact ⟨rfl, rfl, Or.inr rfl, adv hs', nil1, nil2⟩
  | testGen =>
    by_cases heq : c.cap = s.o.gen
    · have e : stmt s.o c .testGen p = (s.o, { c with pc := some p, pg := c.pg || (c.nr && !c.fresh) }, [], []) := by simp [stmt, heq]
      rw [e]
      refine ⟨rfl, rfl, Or.inr rfl, ⟨h0.capArm, h0.nrOk, fun x => ?_, fun q hq => ?_, fun x => by simp at x⟩, nil1, nil2⟩
      · simp only [Bool.or_eq_true, Bool.and_eq_true, Bool.not_eq_true'] at x
        rcases x with x | x
        · exact h0.pgOk x
        · exact ⟨heq.symm, x.2, x.1⟩
      · simp only [Option.some.injEq] at hq; subst hq; simpa [safeProg] using hs
    · have e : stmt s.o c .testGen p = (s.o, { c with pc := some [] }, [], []) := by simp [stmt, heq]
      rw [e]; exact ⟨rfl, rfl, Or.inr rfl, ret, nil1, nil2⟩
  | markExpired =>
    obtain ⟨hpg, hs'⟩ := safeProg_guard hs (Or.inr (Or.inr rfl))
    have hpin := pinned inv hc hpg
    refine ⟨rfl, rfl, Or.inr rfl, adv hs', nil1, fun t ht => ?_⟩
    have := List.mem_singleton.mp ht; subst this; exact hpin.2.2
  | casResp =>
    obtain ⟨hpg, hs'⟩ := safeProg_guard hs (Or.inr (Or.inl rfl))
    have hpin := pinned inv hc hpg
    by_cases hr : s.o.resp = true
    · have e : stmt s.o c .casResp p = (s.o, { c with pc := some [] }, [], []) := by simp [stmt, hr]
      rw [e]; exact ⟨rfl, rfl, Or.inr rfl, ret, nil1, nil2⟩
    · have e : stmt s.o c .casResp p = ({ s.o with resp := true }, { c with pc := some p }, [], [(c.own, s.o.gen)]) := by simp [stmt, hr]
      rw [e]
      refine ⟨rfl, rfl, Or.inr rfl, adv hs', nil1, fun t ht => ?_⟩
      have := List.mem_singleton.mp ht; subst this; exact hpin.2.2
  | act =>
    obtain ⟨hpg, hs'⟩ := safeProg_guard hs (Or.inl rfl)
    have hpin := pinned inv hc hpg
    refine ⟨rfl, rfl, Or.inr rfl, adv hs', fun h hh => ?_, nil2⟩
    have := List.mem_singleton.mp hh; subst this; exact ⟨hpin.2.2, hpin.1⟩

theorem step_inv (progs : Nat → Bool × List Step) (hp : ∀ k, guarded (progs k).1 (progs k).2 = true)
    (s : St) (inv : Inv s) (e : Ev) : Inv (step progs s e) := by
  cases e with
  | tick =>
    exact ⟨Nat.le_succ_of_le inv.genLe, inv.pool, inv.heldPos, fun c hc => (inv.cbs c hc).mono (Nat.le_succ _), inv.hits, inv.touched, inv.replies⟩
  | take =>
    simp only [step]
    split
    · exact inv
    · rename_i hh
      have hh : s.o.held = false := by simpa using hh
      refine ⟨Nat.le_refl _, by simp, by simp, fun c hc => ?_, inv.hits, inv.touched, inv.replies⟩
      have hpg : c.pg = false := by
        cases hpg : c.pg with
        | false => rfl
        | true => have := (pinned inv hc hpg).1; simp [hh] at this
      exact (inv.cbs c hc).regen hpg (Or.inr (Nat.lt_succ_self _)) (Nat.le_succ _)
  | arm k =>
    simp only [step]
    split
    · exact inv
    · rename_i hh
      have hh : s.o.held = true := by
        cases h1 : s.o.held <;> simp [h1] at hh ⊢
      refine ⟨inv.genLe, inv.pool, inv.heldPos, fun c hc => ?_, inv.hits, inv.touched, inv.replies⟩
      rcases List.mem_append.mp hc with hc | hc
      · exact inv.cbs c hc
      · have hc : c = _ := List.mem_singleton.mp hc
        have hk := hp k
        simp only [guarded, Bool.and_eq_true] at hk
        have hgen := inv.heldPos hh
        have hle := inv.genLe
        subst hc
        exact ⟨fun _ => by simp [hk.1]; omega, fun a => by simp at a, fun a => by simp at a, fun p a => by simp at a, fun _ => by simp [hk.1]⟩
  | fire i =>
    simp only [step]
    refine ⟨inv.genLe, inv.pool, inv.heldPos, fun c hc => ?_, inv.hits, inv.touched, inv.replies⟩
    rcases mem_updAt hc with hc | ⟨c0, hc0, he⟩
    · exact inv.cbs c hc
    · have h0 := inv.cbs c0 (List.mem_of_getElem? hc0)
      subst he
      split
      · exact h0
      · rename_i hcond
        have hnone : c0.pc = none := by
          cases hpc : c0.pc <;> simp [hpc] at hcond ⊢
        obtain ⟨i1, i2, i3⟩ := h0.idle hnone
        refine ⟨h0.capArm, h0.nrOk, h0.pgOk, fun p hpeq => ?_, fun a => by simp at a⟩
        simp only [Option.some.injEq] at hpeq
        subst hpeq
        have hk := hp c0.kind
        simp only [guarded, Bool.and_eq_true] at hk
        simp only [i1, i2, i3]
        exact hk.2
  | respond =>
    simp only [step]
    split
    · exact inv
    · refine ⟨inv.genLe, inv.pool, inv.heldPos, inv.cbs, inv.hits, inv.touched, fun r hr => ?_⟩
      rcases List.mem_append.mp hr with hr | hr
      · exact inv.replies r hr
      · have := List.mem_singleton.mp hr; subst this; rfl
  | clean =>
    simp only [step]
    split
    · exact inv
    · refine ⟨inv.genLe, inv.pool, inv.heldPos, fun c hc => ?_, inv.hits, inv.touched, inv.replies⟩
      obtain ⟨c0, hc0, he⟩ := List.mem_map.mp hc
      have h0 := inv.cbs c0 hc0
      subst he
      split
      · exact ⟨h0.capArm, h0.nrOk, h0.pgOk, h0.safe, h0.idle⟩
      · exact h0
  | give =>
    simp only [step]
    split
    · rename_i hh
      simp only [Bool.and_eq_true] at hh
      refine ⟨Nat.zero_le _, by simp, by simp, fun c hc => ?_, inv.hits, inv.touched, inv.replies⟩
      have hpg : c.pg = false := by
        cases hpg : c.pg with
        | false => rfl
        | true => have := (pinned inv hc hpg).2.1; simp [hh.2] at this
      exact (inv.cbs c hc).regen hpg (Or.inl rfl) (Nat.le_refl _)
    · exact inv
  | step i =>
    simp only [step]
    split
    · exact inv
    · rename_i c0 hget
      have hc0 := List.mem_of_getElem? hget
      split
      · rename_i a p hpc
        obtain ⟨hg, hh, hr, hcb, hhit, htou⟩ := stmt_ok inv hc0 hpc
        refine ⟨by rw [hg]; exact inv.genLe, by rw [hg, hh]; exact inv.pool, by rw [hg, hh]; exact inv.heldPos,
          fun c hc => ?_, fun h hm => ?_, fun t hm => ?_, fun r hm => ?_⟩
        · rw [hg]
          rcases mem_updAt hc with hc | ⟨_, _, he⟩
          · exact (inv.cbs c hc).clear hr
          · subst he; exact hcb
        · rcases List.mem_append.mp hm with hm | hm
          · exact inv.hits h hm
          · exact hhit h hm
        · rcases List.mem_append.mp hm with hm | hm
          · exact inv.touched t hm
          · exact htou t hm
        · rcases List.mem_append.mp hm with hm | hm
          · exact inv.replies r hm
          · obtain ⟨h, hh', he⟩ := List.mem_map.mp hm
            subst he; exact (hhit h hh').1
      · exact inv

end MosnVerif.Lemmas.ProxyGen
