import MosnVerif.Model.H2ReadLoop
/-! helper lemmas of C08 `h2_readframe_no_overread` / `h2_dispatch_terminates` -/
namespace MosnVerif.Lemmas.H2ReadLoop
open MosnVerif.Model.H2ReadLoop MosnVerif.Gen.FrameLen MosnVerif.Gen.FrameConsts MosnVerif.Gen.C08H2Loop

theorem hdrOf_ok (buf : Bytes) (h : 9 ≤ buf.length) : ∃ fh, hdrOf buf = .ok fh := by
  unfold hdrOf
  have hall : (h2c_hdrIdx.all (fun k => decide (k < buf.length)) &&
      h2c_hdrU32.all (fun k => decide (k + 4 ≤ buf.length))) = true := by
    simp [h2c_hdrIdx, h2c_hdrU32]; omega
  rw [if_pos hall]
  exact ⟨_, rfl⟩

/-- the header read never leaves the buffered bytes; a header that was read lies inside them -/
theorem readHdr_spec (b : Bytes) (off : Nat) :
    readHdr b off ≠ .oob ∧ ∀ h, readHdr b off = .ok h → off + 9 ≤ b.length := by
  unfold readHdr
  simp only [h2_hdrShort, h2c_hdrSliceLo]
  by_cases h1 : b.length < off + 9
  · simp [h1]
  · have h2 : ¬ b.length < off := by omega
    simp only [h1, decide_false, h2, if_false, Bool.false_eq_true]
    obtain ⟨fh, hf⟩ := hdrOf_ok (b.drop off) (by rw [List.length_drop]; omega)
    rw [hf]
    refine ⟨by simp, ?_⟩
    intro h _
    omega

theorem one_spec (mx : Nat) (o : Orc) (b : Bytes) (off : Nat) :
    one mx o b off ≠ .oob ∧
    (∀ h, (one mx o b off = .ok h ∨ one mx o b off = .stream h) → off + h2_size h.len ≤ b.length) := by
  unfold one
  have hs := readHdr_spec b off
  cases hr : readHdr b off with
  | again => simp
  | oob => exact absurd hr hs.1
  | ok h =>
    have hb := hs.2 h hr
    simp only [h2_tooLarge, h2_incomplete, h2c_payHi, h2c_payLo, h2_size]
    by_cases h1 : h.len > mx
    · simp [h1]
    · by_cases h2 : h.len > b.length - (off + 9)
      · simp [h1, h2]
      · have h3 : ¬ (off + 9 + h.len < off + 9) := by omega
        have h4 : ¬ (b.length < off + 9 + h.len) := by omega
        simp only [h1, h2, h3, h4, decide_false, if_false, Bool.false_eq_true, Bool.or_self]
        by_cases h5 : h.ty = http2_FrameHeaders ∧ h.sid = 0
        · simp [h5]
        · rw [if_neg h5]
          cases o.parse (List.drop off (List.take (off + 9 + h.len) b)) with
          | conn => simp
          | stream =>
            refine ⟨by simp, ?_⟩
            intro h' hh
            rcases hh with hh | hh
            · cases hh
            · cases hh; omega
          | ok =>
            refine ⟨by simp, ?_⟩
            intro h' hh
            rcases hh with hh | hh
            · cases hh; omega
            · cases hh

theorem contLoop_spec (mx : Nat) (o : Orc) (b : Bytes) (off0 sid : Nat) :
    ∀ (fuel ms : Nat), contLoop mx o b off0 sid fuel ms ≠ .oob ∧
      (∀ ms', contLoop mx o b off0 sid fuel ms = .ok ms' → ms ≤ ms' ∧ off0 + ms' ≤ b.length) ∧
      (∀ ms', contLoop mx o b off0 sid fuel ms = .stream ms' → ms' = 0) := by
  intro fuel
  induction fuel with
  | zero => intro ms; simp [contLoop]
  | succ f ih =>
    intro ms
    unfold contLoop
    have hs := one_spec mx o b (h2c_contOff off0 ms)
    cases ho : one mx o b (h2c_contOff off0 ms) with
    | again => simp
    | oob => exact absurd ho hs.1
    | conn => simp
    | stream h => simp
    | ok h =>
      have hb := hs.2 h (Or.inl ho)
      simp only [h2c_contOff] at hb
      simp only
      by_cases h1 : h.ty ≠ http2_FrameContinuation ∨ h.sid ≠ sid
      · simp [h1]
      · rw [if_neg h1]
        by_cases h2 : endHeaders h = true
        · rw [if_pos h2]
          refine ⟨by simp, ?_, by simp⟩
          intro ms' hm
          cases hm
          omega
        · rw [if_neg h2]
          obtain ⟨i1, i2, i3⟩ := ih (ms + h2_size h.len)
          refine ⟨i1, ?_, i3⟩
          intro ms' hm
          have := i2 ms' hm
          omega

theorem size_ge (n : Nat) : 9 ≤ h2_size n := by simp [h2_size]

/-- a top-level ReadFrame never reads out of range; a frame and a stream error consumed ≥ 9 buffered bytes -/
theorem readFrame_spec (mx : Nat) (o : Orc) (b : Bytes) :
    readFrame mx o b ≠ .oob ∧
    (∀ k, (readFrame mx o b = .frame k ∨ readFrame mx o b = .stream k) → 9 ≤ k ∧ k ≤ b.length) := by
  unfold readFrame
  have hs := one_spec mx o b 0
  have hsd : ∀ n, streamDrain n = n := by intro n; simp [streamDrain, h2_streamErrDrains]
  cases ho : one mx o b 0 with
  | again => simp
  | oob => exact absurd ho hs.1
  | conn => simp
  | stream h =>
    have hb := hs.2 h (Or.inr ho)
    have := size_ge h.len
    refine ⟨by simp, ?_⟩
    intro k hk
    rcases hk with hk | hk
    · cases hk
    · simp only [hsd] at hk
      cases hk
      omega
  | ok h =>
    have hb := hs.2 h (Or.inl ho)
    have h9 := size_ge h.len
    simp only
    by_cases h1 : h.ty = http2_FrameContinuation
    · simp [h1]
    · rw [if_neg h1]
      by_cases h2 : h.ty = http2_FrameHeaders
      · rw [if_pos h2]
        -- the header block
        have hm : ∀ m : MR, m = (if endHeaders h = true then MR.ok 0 else
              contLoop mx o b (h2c_metaOff 0 (h2_size h.len)) h.sid b.length 0) →
            m ≠ .oob ∧ (∀ ms, m = .ok ms → h2_size h.len + ms ≤ b.length) ∧ (∀ ms, m = .stream ms → ms = 0) := by
          intro m hm
          by_cases he : endHeaders h = true
          · rw [if_pos he] at hm
            subst hm
            refine ⟨by simp, ?_, by simp⟩
            intro ms h'
            cases h'
            omega
          · rw [if_neg he] at hm
            obtain ⟨c1, c2, c3⟩ := contLoop_spec mx o b (h2c_metaOff 0 (h2_size h.len)) h.sid b.length 0
            subst hm
            refine ⟨c1, ?_, c3⟩
            intro ms h'
            have := (c2 ms h').2
            simp only [h2c_metaOff] at this
            omega
        generalize hmd : (if endHeaders h = true then MR.ok 0 else
              contLoop mx o b (h2c_metaOff 0 (h2_size h.len)) h.sid b.length 0) = m
        obtain ⟨m1, m2, m3⟩ := hm m hmd.symm
        cases m with
        | again => simp
        | oob => exact absurd rfl m1
        | conn => simp
        | stream ms =>
          have := m3 ms rfl
          subst this
          refine ⟨by simp, ?_⟩
          intro k hk
          rcases hk with hk | hk
          · cases hk
          · simp only [hsd, h2_drain] at hk
            cases hk
            omega
        | ok ms =>
          have hle := m2 ms rfl
          simp only
          cases o.group (List.take (h2_size h.len + ms) b) with
          | conn => simp
          | stream =>
            refine ⟨by simp, ?_⟩
            intro k hk
            rcases hk with hk | hk
            · cases hk
            · simp only [hsd, h2_drain] at hk
              cases hk
              omega
          | ok =>
            refine ⟨by simp, ?_⟩
            intro k hk
            rcases hk with hk | hk
            · simp only [h2_drain] at hk
              cases hk
              omega
            · cases hk
      · rw [if_neg h2]
        have hd : h2_drains h.ty = true := by
          simp only [h2_drains, decide_eq_true_eq]
          simpa [http2_FrameContinuation] using h1
        rw [if_pos hd]
        refine ⟨by simp, ?_⟩
        intro k hk
        rcases hk with hk | hk
        · simp only [h2_drain] at hk
          cases hk
          omega
        · cases hk

/-! ## the loop -/

theorem run_sound (p : Policy) (dec : Nat → Bytes → DStep) :
    ∀ (fuel : Nat) (c c' : Cfg), run p dec fuel c = some c' → Returns p dec c c' := by
  intro fuel
  induction fuel with
  | zero => intro c c' h; simp [run] at h
  | succ f ih =>
    intro c c' h
    simp only [run] at h
    by_cases ht : (turn p dec c).2 = true
    · rw [if_pos ht] at h
      exact Returns.more ht (ih _ _ h)
    · rw [if_neg ht] at h
      have hf : (turn p dec c).2 = false := by simpa using ht
      have : (turn p dec c).1 = c' := by simpa using h
      subst this
      exact Returns.done hf

/-- the variant: a turn that goes round again drained ≥ 9 bytes that were buffered -/
theorem turn_measure (p : Policy) (dec : Nat → Bytes → DStep) (hp : p.Safe) (hd : Progress dec) (c : Cfg)
    (ha : (turn p dec c).2 = true) :
    (turn p dec c).1.buf.length + 9 ≤ c.buf.length ∧ 9 ≤ (dec c.calls c.buf).drained := by
  obtain ⟨h1, h2⟩ := hp
  have hpr := hd c.calls c.buf _ rfl
  unfold turn at ha ⊢
  simp only at ha ⊢
  cases hs : dec c.calls c.buf with
  | again k => simp [hs, Policy.again, h1] at ha
  | conn k => simp [hs, Policy.again, h2] at ha
  | stream k =>
    have := hpr k (Or.inr hs)
    simp [DStep.drained, List.length_drop]
    omega
  | frame k =>
    have := hpr k (Or.inl hs)
    simp [DStep.drained, List.length_drop]
    omega

theorem turn_calls (p : Policy) (dec : Nat → Bytes → DStep) (c : Cfg) :
    (turn p dec c).1.calls = c.calls + 1 ∧ (turn p dec c).1.buf.length ≤ c.buf.length := by
  simp [turn, List.length_drop]

/-- Dispatch returns within `|buf|/9 + 1` turns (= Decode calls) and never enlarges the buffer -/
theorem run_terminates (p : Policy) (dec : Nat → Bytes → DStep) (hp : p.Safe) (hd : Progress dec) :
    ∀ (n : Nat) (c : Cfg), c.buf.length < 9 * (n + 1) →
      ∃ c', run p dec (n + 1) c = some c' ∧ c'.calls ≤ c.calls + n + 1 ∧ c'.calls ≤ c.calls + c.buf.length / 9 + 1 ∧
        c'.buf.length ≤ c.buf.length := by
  intro n
  induction n with
  | zero =>
    intro c hc
    have hf : (turn p dec c).2 = false := by
      by_cases ht : (turn p dec c).2 = true
      · have := (turn_measure p dec hp hd c ht).1
        omega
      · simpa using ht
    refine ⟨(turn p dec c).1, ?_, ?_, ?_, (turn_calls p dec c).2⟩
    · simp [run, hf]
    · have := (turn_calls p dec c).1; omega
    · have := (turn_calls p dec c).1; omega
  | succ n ih =>
    intro c hc
    by_cases ht : (turn p dec c).2 = true
    · obtain ⟨hlt, _⟩ := turn_measure p dec hp hd c ht
      obtain ⟨c', hr, hb1, hb2, hl⟩ := ih (turn p dec c).1 (by omega)
      have hcalls := (turn_calls p dec c).1
      refine ⟨c', ?_, by omega, ?_, by omega⟩
      · simp only [run]
        rw [if_pos ht]
        exact hr
      · have : (turn p dec c).1.buf.length / 9 + 1 ≤ c.buf.length / 9 := by omega
        omega
    · refine ⟨(turn p dec c).1, ?_, ?_, ?_, (turn_calls p dec c).2⟩
      · simp only [run]
        rw [if_neg ht]
      · have := (turn_calls p dec c).1; omega
      · have := (turn_calls p dec c).1; omega

/-- a configuration that a turn reproduces (apart from the call counter) with "again" is never left -/
theorem fixed_point_diverges (p : Policy) (dec : Nat → Bytes → DStep) (buf : Bytes)
    (hfix : ∀ k, (turn p dec ⟨buf, k⟩) = (⟨buf, k + 1⟩, true)) :
    ∀ c0 c', Returns p dec c0 c' → c0.buf = buf → False := by
  intro c0 c' h
  induction h with
  | @done c1 hf =>
    intro hb
    obtain ⟨b, k⟩ := c1
    have hb' : b = buf := hb
    rw [hb', hfix k] at hf
    exact Bool.noConfusion hf
  | @more c1 c2 ha _ ih =>
    intro hb
    obtain ⟨b, k⟩ := c1
    have hb' : b = buf := hb
    apply ih
    rw [hb', hfix k]

/-- the frame decoder (every read limit, every behaviour of the parsers / header validation) makes progress -/
theorem frameDec_progress (mx : Nat) (o : Orc) : Progress (frameDec mx o) := by
  intro i b s hs k hk
  have hsp := readFrame_spec mx o b
  unfold frameDec at hs
  cases hr : readFrame mx o b with
  | again => rw [hr] at hs; subst hs; rcases hk with hk | hk <;> cases hk
  | oob => exact absurd hr hsp.1
  | conn => rw [hr] at hs; subst hs; rcases hk with hk | hk <;> cases hk
  | stream k' =>
    rw [hr] at hs; subst hs
    rcases hk with hk | hk
    · cases hk
    · cases hk; exact hsp.2 k (Or.inr hr)
  | frame k' =>
    rw [hr] at hs; subst hs
    rcases hk with hk | hk
    · cases hk; exact hsp.2 k (Or.inl hr)
    · cases hk

end MosnVerif.Lemmas.H2ReadLoop
