import MosnVerif.Model.LB
import MosnVerif.Lemmas.EDF
/-! helper lemmas for C05: every policy's result passed a health check; the traversals cover every index -/
namespace MosnVerif.Model.LB
open MosnVerif.Gen

theorem getIdx_lt {n : Nat} (i : Nat) (h : 0 < n) : getIdx n i < n := by
  unfold getIdx LB.getIndex
  simp only [decide_eq_true_eq, ge_iff_le]
  split <;> split <;> omega

theorem getIdx_of_lt {n i : Nat} (h : i < n) : getIdx n i = i := by
  unfold getIdx LB.getIndex
  simp only [decide_eq_true_eq, ge_iff_le]
  split <;> split <;> omega

theorem hAt_lt {hs : Hosts} {i : Nat} (h : hAt hs i = true) : i < hs.length := by
  unfold hAt at h
  split at h
  · rename_i x hx
    exact (List.getElem?_eq_some_iff.mp hx).1
  · simp at h

theorem hAt_ge {hs : Hosts} {i : Nat} (h : hs.length ≤ i) : hAt hs i = false := by
  cases hh : hAt hs i
  · rfl
  · have := hAt_lt hh; omega

theorem firstHealthy_some {hs : Hosts} {l : List Nat} {i : Nat} (h : firstHealthy hs l = some i) :
    hAt hs i = true ∧ i ∈ l := by
  unfold firstHealthy at h
  exact ⟨List.find?_some h, List.mem_of_find?_eq_some h⟩

theorem firstHealthy_none {hs : Hosts} {l : List Nat} (h : firstHealthy hs l = none) :
    ∀ i ∈ l, hAt hs i = false := by
  unfold firstHealthy at h
  intro i hi
  have := List.find?_eq_none.mp h i hi
  simpa using this

/-- a traversal `(start + i) % total, i < total` visits every index. -/
theorem scanIdxs_covers {total start j : Nat} (hj : j < total) : j ∈ scanIdxs total start := by
  unfold scanIdxs
  have ht : 0 < total := by omega
  have hs : start % total < total := Nat.mod_lt _ ht
  simp only [List.mem_map, List.mem_range]
  by_cases hc : start % total ≤ j
  · refine ⟨j - start % total, by omega, ?_⟩
    have : (start + (j - start % total)) % total = j := by
      rw [Nat.add_mod, Nat.mod_eq_of_lt (a := j - start % total) (by omega)]
      rw [Nat.mod_eq_of_lt (by omega)]; omega
    rw [this]; exact getIdx_of_lt hj
  · refine ⟨j + total - start % total, by omega, ?_⟩
    have : (start + (j + total - start % total)) % total = j := by
      rw [Nat.add_mod, Nat.mod_eq_of_lt (a := j + total - start % total) (by omega)]
      have : start % total + (j + total - start % total) = j + total := by omega
      rw [this, Nat.add_mod_right, Nat.mod_eq_of_lt hj]
    rw [this]; exact getIdx_of_lt hj

/-- what C05 asks of one lookup result. -/
def Good (hs : Hosts) (r : Option Nat) : Prop :=
  (∀ i, r = some i → hAt hs i = true) ∧ (r = none → ∀ i, hAt hs i = false)

theorem good_nil (r : Option Nat) (h : ∀ i, r = some i → hAt ([] : Hosts) i = true) : Good [] r :=
  ⟨h, fun _ i => hAt_ge (by simp)⟩

theorem good_scan (hs : Hosts) (start : Nat) : Good hs (firstHealthy hs (scanIdxs hs.length start)) := by
  constructor
  · intro i h; exact (firstHealthy_some h).1
  · intro h i
    by_cases hi : i < hs.length
    · exact firstHealthy_none h i (scanIdxs_covers hi)
    · exact hAt_ge (by omega)

theorem rrChoose_good (hs : Hosts) (c : Nat) : Good hs (rrChoose hs c).1 := by
  unfold rrChoose
  simp only
  split
  · rename_i h0
    have : hs = [] := List.eq_nil_of_length_eq_zero h0
    subst this; exact good_nil _ (by simp)
  · split
    · rename_i cv hcv
      have := List.find?_some hcv
      exact ⟨fun i hi => by simp at hi; subst hi; simpa using this, by simp⟩
    · exact good_scan hs _

theorem p2c_fold_some (hs : Hosts) (stat : Host → Nat) (ds : List Nat) (cand : Option Nat)
    (hc : ∀ c, cand = some c → hAt hs c = true) :
    ∀ c, ds.foldl (p2cStep hs stat) cand = some c → hAt hs c = true := by
  induction ds generalizing cand with
  | nil => simpa using hc
  | cons d r ih =>
    simp only [List.foldl_cons]
    apply ih
    intro c hcc
    unfold p2cStep at hcc
    simp only at hcc
    split at hcc
    · exact hc c hcc
    · rename_i hh
      split at hcc
      · simp at hcc; subst hcc; simpa using hh
      · split at hcc
        · simp at hcc; subst hcc; simpa using hh
        · exact hc c hcc

theorem p2c_good (hs : Hosts) (stat : Host → Nat) (choice : Nat) (draws : List Nat) :
    Good hs (p2c hs stat choice draws).1 := by
  unfold p2c
  split
  · rename_i cnd hc
    exact ⟨fun i hi => by simp at hi; subst hi; exact p2c_fold_some hs stat _ none (by simp) _ hc, by simp⟩
  · exact good_scan hs _

theorem ewma_fold_some (hs : Hosts) (l : List Nat) (cand : Option Nat)
    (hc : ∀ c, cand = some c → hAt hs c = true) :
    ∀ c, l.foldl (ewmaStep hs) cand = some c → hAt hs c = true := by
  induction l generalizing cand with
  | nil => simpa using hc
  | cons d r ih =>
    simp only [List.foldl_cons]
    apply ih
    intro c hcc
    unfold ewmaStep at hcc
    split at hcc
    · exact hc c hcc
    · rename_i hh
      split at hcc
      · simp at hcc; subst hcc; simpa using hh
      · split at hcc
        · simp at hcc; subst hcc; simpa using hh
        · exact hc c hcc

theorem ewma_fold_none (hs : Hosts) (l : List Nat) (cand : Option Nat)
    (h : l.foldl (ewmaStep hs) cand = none) : cand = none ∧ ∀ t ∈ l, hAt hs t = false := by
  induction l generalizing cand with
  | nil => simpa using h
  | cons d r ih =>
    simp only [List.foldl_cons] at h
    obtain ⟨h1, h2⟩ := ih _ h
    unfold ewmaStep at h1
    split at h1
    · rename_i hh
      refine ⟨h1, ?_⟩
      intro t ht
      simp at ht
      rcases ht with rfl | ht
      · simpa using hh
      · exact h2 t ht
    · split at h1
      · simp at h1
      · split at h1 <;> simp at h1

theorem edfLoop_some (hs : Hosts) (wf : Nat → Rat) (k : Nat) (s : EDF.Sched) (hints : List (Option Nat))
    (i : Nat) (h : (edfLoop hs wf k s hints).1 = some i) : hAt hs i = true := by
  induction k generalizing s hints with
  | zero => simp [edfLoop] at h
  | succ k ih =>
    unfold edfLoop at h
    split at h
    · simp at h
    · rename_i j s' _
      split at h
      · rename_i hh; simp at h; subst h; exact hh
      · exact ih _ _ h

/-- a decided EDF front is good. -/
theorem edfFront_done (hs : Hosts) (st : LBState) (wf : Nat → Rat) (hints : List (Option Nat))
    (r : Option Nat) (st' : LBState) (h' : List (Option Nat))
    (h : edfFront hs st wf hints = .done r st' h') : Good hs r := by
  unfold edfFront at h
  simp only at h
  split at h
  · rename_i h0
    have : hs = [] := List.eq_nil_of_length_eq_zero h0
    injection h with h1; subst h1; subst this; exact good_nil _ (by simp)
  · split at h
    · rename_i h1
      injection h with hr; subst hr
      have g0 : getIdx hs.length 0 = 0 := getIdx_of_lt (by omega)
      rw [g0]
      constructor
      · intro i hi
        split at hi
        · rename_i hh; simp at hi; subst hi; exact hh
        · simp at hi
      · intro hn i
        split at hn
        · simp at hn
        · rename_i hh
          by_cases hi : i = 0
          · subst hi; simpa using hh
          · exact hAt_ge (by omega)
    · split at h
      · simp at h
      · split at h
        · rename_i i s' hh heq
          injection h with hr; subst hr
          have := edfLoop_some hs wf hs.length _ hints i (by rw [heq])
          exact ⟨fun j hj => by simp at hj; subst hj; exact this, by simp⟩
        · simp at h

end MosnVerif.Model.LB

namespace MosnVerif.Model.LB

theorem randomChoose_good (hs : Hosts) (st : LBState) (c : Call) : Good hs (randomChoose hs st c).result := by
  unfold randomChoose
  simp only
  split
  · rename_i h0
    have : hs = [] := List.eq_nil_of_length_eq_zero h0
    subst this; exact good_nil _ (by simp)
  · split
    · rename_i hh
      exact ⟨fun i hi => by simp at hi; subst hi; simpa using hh, by simp⟩
    · exact rrChoose_good hs st.rr

theorem reqRRChoose_good (hs : Hosts) (st : LBState) (c : Call) : Good hs (reqRRChoose hs st c).result := by
  unfold reqRRChoose
  simp only
  split
  · rename_i h0
    have : hs = [] := List.eq_nil_of_length_eq_zero h0
    subst this; exact good_nil _ (by simp)
  · exact good_scan hs _

theorem maglevChoose_good (hs : Hosts) (st : LBState) (c : Call) (hk : c.table.isSome = true) :
    Good hs (maglevChoose hs st c).result := by
  unfold maglevChoose
  simp only
  split
  · rename_i hn; rw [hn] at hk; simp at hk
  · split
    · rename_i h0
      have : hs = [] := List.eq_nil_of_length_eq_zero h0
      subst this; exact good_nil _ (by simp)
    · split <;> simp only <;> split
      all_goals first
        | exact good_scan hs _
        | (rename_i hh
           simp only [Bool.or_eq_true, Bool.not_eq_eq_eq_not, Bool.not_true, not_or, Bool.not_eq_false] at hh
           exact ⟨fun i hi => by simp at hi; subst hi; simpa using hh.1, by simp⟩)

theorem wrrChoose_good (hs : Hosts) (st : LBState) (c : Call) : Good hs (wrrChoose hs st c).result := by
  unfold wrrChoose
  split
  · rename_i r st' h' heq
    exact edfFront_done hs st _ _ r st' h' heq
  · exact rrChoose_good hs _

theorem leastChoose_good (stat : Host → Nat) (wf : Hosts → Nat → Rat) (choice : Nat) (hs : Hosts) (st : LBState)
    (c : Call) : Good hs (leastChoose stat wf choice hs st c).result := by
  unfold leastChoose
  split
  · rename_i r st' h' heq
    exact edfFront_done hs st _ _ r st' h' heq
  · exact p2c_good hs stat choice c.draws

theorem ewmaChoose_good (choice : Nat) (hs : Hosts) (st : LBState) (c : Call) :
    Good hs (ewmaChoose choice hs st c).result := by
  unfold ewmaChoose
  split
  · rename_i r st' h' heq
    exact edfFront_done hs st _ _ r st' h' heq
  · simp only
    split
    · constructor
      · intro i hi; exact ewma_fold_some hs _ none (by simp) i hi
      · intro hn i
        by_cases hi : i < hs.length
        · exact (ewma_fold_none hs _ none hn).2 i (scanIdxs_covers hi)
        · exact hAt_ge (by omega)
    · split
      · rename_i cnd hc
        exact ⟨fun i hi => by simp at hi; subst hi; exact ewma_fold_some hs _ none (by simp) _ hc, by simp⟩
      · exact rrChoose_good hs _

/-- every policy, every state, every call: the result is good (maglev: for a keyed call). -/
theorem choose_good (p : Policy) (choice : Nat) (hs : Hosts) (st : LBState) (c : Call)
    (hk : keyed p c = true) : Good hs (choose p choice hs st c).result := by
  cases p <;> simp only [choose]
  · exact rrChoose_good hs st.rr
  · exact randomChoose_good hs st c
  · exact wrrChoose_good hs st c
  · exact leastChoose_good _ _ choice hs st c
  · exact leastChoose_good _ _ choice hs st c
  · exact reqRRChoose_good hs st c
  · exact maglevChoose_good hs st c (by simpa [keyed] using hk)
  · exact ewmaChoose_good choice hs st c

/-- an un-keyed maglev lookup returns no host. -/
theorem choose_unkeyed (p : Policy) (choice : Nat) (hs : Hosts) (st : LBState) (c : Call)
    (hk : keyed p c = false) : (choose p choice hs st c).result = none := by
  cases p <;> simp [keyed] at hk
  simp [choose, maglevChoose, hk]

theorem anyHealthy_iff (hs : Hosts) : anyHealthy hs = true ↔ ∃ i, hAt hs i = true := by
  unfold anyHealthy
  rw [List.any_eq_true]
  constructor
  · rintro ⟨h, hm, hh⟩
    obtain ⟨i, hi, rfl⟩ := List.mem_iff_getElem.mp hm
    exact ⟨i, by simp [hAt, hi, hh]⟩
  · rintro ⟨i, hi⟩
    have hl := hAt_lt hi
    refine ⟨hs[i], List.getElem_mem hl, ?_⟩
    simpa [hAt, hl] using hi

end MosnVerif.Model.LB

namespace MosnVerif.Model.LB
open MosnVerif.Model.EDF

/-- over all-healthy hosts (≥ 2, scheduler built) a lookup of the weighted round-robin balancer is exactly one
`NextAndPush` of its EDF scheduler. -/
theorem wrrChoose_all_healthy (hs : Hosts) (hall : ∀ i, i < hs.length → hAt hs i = true) (h2 : 2 ≤ hs.length)
    (st : LBState) (s : Sched) (hst : st.sched = some s) (hitems : s.entries.map (·.item) = List.range hs.length)
    (hinv : Inv s) (hint : Option Nat) :
    ∃ i s', s.nextAndPush (wrrWf hs) hint = some (i, s') ∧
      (wrrChoose hs st { hints := [hint] }).result = some i ∧
      (wrrChoose hs st { hints := [hint] }).st = { st with sched := some s' } := by
  have hne : s.entries ≠ [] := by
    intro h; rw [h] at hitems; simp at hitems
    rw [hitems] at h2; simp at h2
  -- the scheduler serves something
  have hpick : ∃ e, s.pick hint = some e := by
    unfold Sched.pick
    split
    · rename_i e _; exact ⟨e, rfl⟩
    · have := minEntry_isSome hne
      cases hm : minEntry s.entries with
      | none => rw [hm] at this; simp at this
      | some e => exact ⟨e, rfl⟩
  obtain ⟨e, he⟩ := hpick
  have hnp : ∃ s', s.nextAndPush (wrrWf hs) hint = some (e.item, s') := by
    unfold Sched.nextAndPush; rw [he]; exact ⟨_, rfl⟩
  obtain ⟨s', hs'⟩ := hnp
  have hmem : e.item ∈ s.entries.map (·.item) := (next_deadlines hinv hs').1
  rw [hitems] at hmem
  have hlt : e.item < hs.length := by simpa using hmem
  refine ⟨e.item, s', hs', ?_, ?_⟩
  all_goals
    unfold wrrChoose edfFront
    have h0 : ¬ hs.length = 0 := by omega
    have h1 : ¬ hs.length = 1 := by omega
    simp only [h0, h1, if_false, hst]
    have hloop : edfLoop hs (wrrWf hs) hs.length s [hint] = (some e.item, s', []) := by
      obtain ⟨k, hk⟩ : ∃ k, hs.length = k + 1 := ⟨hs.length - 1, by omega⟩
      rw [hk]
      unfold edfLoop
      simp only [List.headD_cons, hs', hall e.item hlt, if_true, List.tail_cons]
    rw [hloop]

/-- hence the hosts served by consecutive lookups are the picks of a scheduler run (and the scheduler state follows). -/
theorem wrrServe_eq_run (hs : Hosts) (hall : ∀ i, i < hs.length → hAt hs i = true) (h2 : 2 ≤ hs.length)
    (hwf : ∀ k, 0 < wrrWf hs k) (hints : List (Option Nat)) (st : LBState) (s : Sched) (hst : st.sched = some s)
    (hitems : s.entries.map (·.item) = List.range hs.length) (hinv : Inv s) :
    wrrServe hs st hints =
      (((s.run (wrrWf hs) hints).1).map some, { st with sched := some (s.run (wrrWf hs) hints).2 }) := by
  induction hints generalizing st s with
  | nil =>
    simp only [wrrServe, Sched.run, List.map_nil]
    cases st; simp at hst; simp [hst]
  | cons h r ih =>
    obtain ⟨i, s', h1, h2', h3⟩ := wrrChoose_all_healthy hs hall h2 st s hst hitems hinv h
    unfold wrrServe Sched.run
    simp only [h1, h2', h3]
    have hinv' := inv_next hinv hwf h1
    have hitems' : s'.entries.map (·.item) = List.range hs.length := (next_deadlines hinv h1).2.1.trans hitems
    rw [ih { st with sched := some s' } s' rfl hitems' hinv']
    simp

end MosnVerif.Model.LB
