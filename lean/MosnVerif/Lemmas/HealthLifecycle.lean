import MosnVerif.Model.HealthLifecycle
import MosnVerif.Lemmas.HealthCheck
/-! Lemmas for C16 part C (life cycle of the active health checker). Core Lean only. -/
namespace MosnVerif.Model.HealthLifecycle
open MosnVerif.Gen.HealthLifecycle MosnVerif.Gen.HealthCheck
open MosnVerif.Model.HealthCheck (Result Out trail isSucc_eq_ok trail_cons)

theorem upd_apply {β : Type} (f : Nat → β) (i : Nat) (v : β) (j : Nat) : upd f i v j = if j = i then v else f j := rfl
theorem upd2_apply {β : Type} (f : Nat → Nat → β) (i j : Nat) (v : β) (i' j' : Nat) :
    upd2 f i j v i' j' = if i' = i ∧ j' = j then v else f i' j' := rfl

/-! ### the regenerated effect lists never touch a health word unless they contain a flag operation -/

def isFlagAtom : Atom → Bool
  | .flag _ => true
  | _ => false

def noFlag (p : CheckProg) : Bool := (p.pre ++ p.body ++ p.post).all (fun x => !isFlagAtom x)

theorem runAtom_words (k : Cid) (a : Addr) (w : World) (x : Atom) (h : isFlagAtom x = false) :
    (runAtom k a w x).words = w.words := by
  cases x <;> simp_all [runAtom, isFlagAtom]

theorem runAtom_hosts (k : Cid) (a : Addr) (w : World) (x : Atom) : (runAtom k a w x).hosts = w.hosts := by
  cases x <;> rfl

theorem runAtom_thr (k : Cid) (a : Addr) (w : World) (x : Atom) : (runAtom k a w x).thr = w.thr := by
  cases x <;> rfl

theorem runAtoms_words (k : Cid) (a : Addr) (l : List Atom) (w : World) (h : l.all (fun x => !isFlagAtom x) = true) :
    (runAtoms k a w l).words = w.words := by
  induction l generalizing w with
  | nil => rfl
  | cons x xs ih =>
    simp only [List.all_cons, Bool.and_eq_true, Bool.not_eq_true'] at h
    simp only [runAtoms, List.foldl_cons] at ih ⊢
    rw [ih _ h.2, runAtom_words _ _ _ _ h.1]

theorem runAtoms_hosts (k : Cid) (a : Addr) (l : List Atom) (w : World) : (runAtoms k a w l).hosts = w.hosts := by
  induction l generalizing w with
  | nil => rfl
  | cons x xs ih => simp only [runAtoms, List.foldl_cons] at ih ⊢; rw [ih, runAtom_hosts]

theorem runAtoms_thr (k : Cid) (a : Addr) (l : List Atom) (w : World) : (runAtoms k a w l).thr = w.thr := by
  induction l generalizing w with
  | nil => rfl
  | cons x xs ih => simp only [runAtoms, List.foldl_cons] at ih ⊢; rw [ih, runAtom_thr]

theorem runCheckProg_words (p : CheckProg) (k : Cid) (a : Addr) (w : World) (h : noFlag p = true) :
    (runCheckProg p k a w).words = w.words := by
  simp only [noFlag, List.all_append, Bool.and_eq_true] at h
  obtain ⟨⟨h1, h2⟩, h3⟩ := h
  simp only [runCheckProg]
  rw [runAtoms_words _ _ _ _ h3]
  split
  · rw [runAtoms_words _ _ _ _ h2, runAtoms_words _ _ _ _ h1]
  · rw [runAtoms_words _ _ _ _ h1]

theorem runCheckProg_hosts (p : CheckProg) (k : Cid) (a : Addr) (w : World) : (runCheckProg p k a w).hosts = w.hosts := by
  simp only [runCheckProg]
  rw [runAtoms_hosts]
  split
  · rw [runAtoms_hosts, runAtoms_hosts]
  · rw [runAtoms_hosts]

theorem runCheckProg_thr (p : CheckProg) (k : Cid) (a : Addr) (w : World) : (runCheckProg p k a w).thr = w.thr := by
  simp only [runCheckProg]
  rw [runAtoms_thr]
  split
  · rw [runAtoms_thr, runAtoms_thr]
  · rw [runAtoms_thr]

/-- the regenerated `startCheck` and `stopCheck` contain no flag operation -/
theorem startCheckProg_noFlag : noFlag startCheckProg = true := by decide
theorem stopCheckProg_noFlag : noFlag stopCheckProg = true := by decide

theorem startCheck_words (k : Cid) (a : Addr) (w : World) : (startCheck k a w).words = w.words :=
  runCheckProg_words _ k a w startCheckProg_noFlag
theorem stopCheck_words (k : Cid) (a : Addr) (w : World) : (stopCheck k a w).words = w.words :=
  runCheckProg_words _ k a w stopCheckProg_noFlag
theorem startCheck_hosts (k : Cid) (a : Addr) (w : World) : (startCheck k a w).hosts = w.hosts := runCheckProg_hosts _ k a w
theorem stopCheck_hosts (k : Cid) (a : Addr) (w : World) : (stopCheck k a w).hosts = w.hosts := runCheckProg_hosts _ k a w
theorem startCheck_thr (k : Cid) (a : Addr) (w : World) : (startCheck k a w).thr = w.thr := runCheckProg_thr _ k a w
theorem stopCheck_thr (k : Cid) (a : Addr) (w : World) : (stopCheck k a w).thr = w.thr := runCheckProg_thr _ k a w

theorem startAll_words (k : Cid) (l : List Addr) (w : World) : (startAll k l w).words = w.words := by
  induction l generalizing w with
  | nil => rfl
  | cons x xs ih => simp only [startAll, List.foldl_cons] at ih ⊢; rw [ih, startCheck_words]
theorem stopEach_words (k : Cid) (l : List Addr) (w : World) : (stopEach k l w).words = w.words := by
  induction l generalizing w with
  | nil => rfl
  | cons x xs ih => simp only [stopEach, List.foldl_cons] at ih ⊢; rw [ih, stopCheck_words]
theorem startAll_hosts (k : Cid) (l : List Addr) (w : World) : (startAll k l w).hosts = w.hosts := by
  induction l generalizing w with
  | nil => rfl
  | cons x xs ih => simp only [startAll, List.foldl_cons] at ih ⊢; rw [ih, startCheck_hosts]
theorem stopEach_hosts (k : Cid) (l : List Addr) (w : World) : (stopEach k l w).hosts = w.hosts := by
  induction l generalizing w with
  | nil => rfl
  | cons x xs ih => simp only [stopEach, List.foldl_cons] at ih ⊢; rw [ih, stopCheck_hosts]
theorem startAll_thr (k : Cid) (l : List Addr) (w : World) : (startAll k l w).thr = w.thr := by
  induction l generalizing w with
  | nil => rfl
  | cons x xs ih => simp only [startAll, List.foldl_cons] at ih ⊢; rw [ih, startCheck_thr]
theorem stopEach_thr (k : Cid) (l : List Addr) (w : World) : (stopEach k l w).thr = w.thr := by
  induction l generalizing w with
  | nil => rfl
  | cons x xs ih => simp only [stopEach, List.foldl_cons] at ih ⊢; rw [ih, stopCheck_thr]

theorem runHsAtom_words (k : Cid) (ad de nh : List Addr) (w : World) (x : HsAtom) : (runHsAtom k ad de nh w x).words = w.words := by
  cases x
  · exact startAll_words k ad w
  · exact stopEach_words k de w
  · rfl

theorem runHsAtom_thr (k : Cid) (ad de nh : List Addr) (w : World) (x : HsAtom) : (runHsAtom k ad de nh w x).thr = w.thr := by
  cases x
  · exact startAll_thr k ad w
  · exact stopEach_thr k de w
  · rfl

theorem runHs_words (k : Cid) (ad de nh : List Addr) (l : List HsAtom) (w : World) :
    (l.foldl (runHsAtom k ad de nh) w).words = w.words := by
  induction l generalizing w with
  | nil => rfl
  | cons x xs ih => simp only [List.foldl_cons]; rw [ih, runHsAtom_words]

theorem runHs_thr (k : Cid) (ad de nh : List Addr) (l : List HsAtom) (w : World) :
    (l.foldl (runHsAtom k ad de nh) w).thr = w.thr := by
  induction l generalizing w with
  | nil => rfl
  | cons x xs ih => simp only [List.foldl_cons]; rw [ih, runHsAtom_thr]

theorem setHosts_words (k : Cid) (hs : List Addr) (w : World) : (setHosts k hs w).words = w.words := runHs_words ..
theorem setHosts_thr (k : Cid) (hs : List Addr) (w : World) : (setHosts k hs w).thr = w.thr := runHs_thr ..
theorem stopAll_words (k : Cid) (w : World) : (stopAll k w).words = w.words := stopEach_words ..
theorem stopAll_thr (k : Cid) (w : World) : (stopAll k w).thr = w.thr := stopEach_thr ..
theorem stopAll_hosts (k : Cid) (w : World) : (stopAll k w).hosts = w.hosts := stopEach_hosts ..

/-- life-cycle operations (host-set update, stop, cluster replacement) never change a health word -/
theorem step_lifecycle_words (w : World) (op : Op) (h : op.isLifecycle = true) : (step w op).1.words = w.words := by
  cases op with
  | setHosts k hs => exact setHosts_words k hs w
  | stopAll k => exact stopAll_words k w
  | recreate k cu ch => exact stopAll_words k w
  | result => simp [Op.isLifecycle] at h
  | outlier => simp [Op.isLifecycle] at h

/-! ### what the regenerated programs do to the checker table (closed forms) -/

/-- a session checker as `startCheck` leaves it: counters zero, goroutine started, nothing handled yet -/
def fresh : Checker := ⟨0, 0, true, []⟩

def freshOr : Option Checker → Option Checker
  | none => some fresh
  | some c => some c

theorem startCheck_unfold (k : Cid) (a : Addr) (w : World) :
    startCheck k a w = if (w.chk k a).isNone then
      runAtom k a (runAtom k a (runAtom k a w .newChecker) .goStart) (.localHealthy 1) else w := rfl

theorem stopCheck_unfold (k : Cid) (a : Addr) (w : World) :
    stopCheck k a w = if (w.chk k a).isSome then
      runAtom k a (runAtom k a (runAtom k a w .stopSession) .delChecker) (.localHealthy (-1)) else w := rfl

theorem startCheck_chk (k : Cid) (a : Addr) (w : World) (k' : Cid) (a' : Addr) :
    (startCheck k a w).chk k' a' = if k' = k ∧ a' = a then freshOr (w.chk k a) else w.chk k' a' := by
  rw [startCheck_unfold]
  cases hc : w.chk k a with
  | none =>
    simp only [Option.isNone_none, if_true, runAtom, upd2_apply, freshOr, fresh]
    by_cases h : k' = k ∧ a' = a <;> simp [h]
  | some c =>
    simp only [Option.isNone_some, freshOr]
    by_cases h : k' = k ∧ a' = a
    · simp [h, hc]
    · simp [h]

theorem stopCheck_chk (k : Cid) (a : Addr) (w : World) (k' : Cid) (a' : Addr) :
    (stopCheck k a w).chk k' a' = if k' = k ∧ a' = a then none else w.chk k' a' := by
  rw [stopCheck_unfold]
  cases hc : w.chk k a with
  | none =>
    by_cases h : k' = k ∧ a' = a
    · simp [h, hc]
    · simp [h]
  | some c =>
    simp only [Option.isSome_some, if_true, runAtom, upd2_apply]
    by_cases h : k' = k ∧ a' = a <;> simp [h]

theorem startAll_chk (k : Cid) (l : List Addr) (w : World) (k' : Cid) (a' : Addr) :
    (startAll k l w).chk k' a' = if k' = k ∧ a' ∈ l then freshOr (w.chk k a') else w.chk k' a' := by
  induction l generalizing w with
  | nil => simp [startAll]
  | cons x xs ih =>
    simp only [startAll, List.foldl_cons] at ih ⊢
    rw [ih, startCheck_chk, startCheck_chk]
    by_cases hk : k' = k
    · subst hk
      by_cases hx : a' = x
      · subst hx
        cases hc : w.chk k' a' <;> simp [freshOr]
      · by_cases hm : a' ∈ xs <;> simp [hx, hm]
    · simp [hk]

theorem stopEach_chk (k : Cid) (l : List Addr) (w : World) (k' : Cid) (a' : Addr) :
    (stopEach k l w).chk k' a' = if k' = k ∧ a' ∈ l then none else w.chk k' a' := by
  induction l generalizing w with
  | nil => simp [stopEach]
  | cons x xs ih =>
    simp only [stopEach, List.foldl_cons] at ih ⊢
    rw [ih, stopCheck_chk]
    by_cases hk : k' = k
    · subst hk
      by_cases hx : a' = x
      · subst hx; simp
      · by_cases hm : a' ∈ xs <;> simp [hx, hm]
    · simp [hk]

theorem stopAll_chk (k : Cid) (w : World) (k' : Cid) (a' : Addr) :
    (stopAll k w).chk k' a' = if k' = k ∧ a' ∈ w.hosts k then none else w.chk k' a' := stopEach_chk ..

/-- `SetHealthCheckerHostSet` (regenerated phases): the host list is replaced; the checkers of deleted addresses go, new
addresses get a fresh checker unless the table already has one, everything else stays -/
theorem setHosts_hosts (k : Cid) (hs : List Addr) (w : World) (k' : Cid) :
    (setHosts k hs w).hosts k' = if k' = k then hs else w.hosts k' := by
  simp only [setHosts, hostSetProg, List.foldl_cons, List.foldl_nil, runHsAtom, upd_apply, stopEach_hosts, startAll_hosts]

theorem setHosts_chk (k : Cid) (hs : List Addr) (w : World) (k' : Cid) (a' : Addr) :
    (setHosts k hs w).chk k' a' =
      if k' = k ∧ a' ∈ w.hosts k ∧ a' ∉ hs then none
      else if k' = k ∧ a' ∈ hs ∧ a' ∉ w.hosts k then freshOr (w.chk k a')
      else w.chk k' a' := by
  simp only [setHosts, hostSetProg, List.foldl_cons, List.foldl_nil, runHsAtom]
  rw [stopEach_chk, startAll_chk]
  simp only [List.mem_filter, Bool.not_eq_true', List.contains_eq_mem, decide_eq_false_iff_not]

/-! ### a check result handed to a session checker -/

/-- explicit form of the regenerated `HandleSuccess` -/
theorem step_success (u h un hc : Int) (flag : Bool) :
    HealthCheck.step u h ⟨un, hc, flag⟩ .success =
      (⟨0, if flag then hc + 1 else hc, flag && !decide (hc + 1 = h)⟩,
       ⟨flag && decide (hc + 1 = h), true, flag && !decide (hc + 1 = h)⟩) := by
  cases flag
  · simp [HealthCheck.step, isSucc_eq_ok, Result.ok, handleSuccess, incHealthyChanged]
  · by_cases e : hc + 1 = h <;> simp [HealthCheck.step, isSucc_eq_ok, Result.ok, handleSuccess, incHealthyChanged, e]

/-- explicit form of the regenerated `HandleFailure` (answered unhealthy, or timed out) -/
theorem step_bad (u h un hc : Int) (flag : Bool) (r : Result) (hr : r.ok = false) :
    HealthCheck.step u h ⟨un, hc, flag⟩ r =
      (⟨if flag then un else un + 1, 0, flag || decide (un + 1 = u)⟩,
       ⟨!flag && decide (un + 1 = u), false, flag || decide (un + 1 = u)⟩) := by
  cases flag
  · by_cases e : un + 1 = u <;> cases r <;> simp_all [HealthCheck.step, isSucc_eq_ok, Result.ok, handleFailure, decHealthyChanged]
  · cases r <;> simp_all [HealthCheck.step, isSucc_eq_ok, Result.ok, handleFailure, decHealthyChanged]

theorem result_none (k : Cid) (a : Addr) (r : Result) (w : World) (h : w.chk k a = none) : result k a r w = (w, none) := by
  simp [result, h]

theorem result_stopped (k : Cid) (a : Addr) (r : Result) (w : World) (c : Checker) (h : w.chk k a = some c)
    (hr : c.running = false) : result k a r w = (w, none) := by
  simp [result, h, hr]

/-- the state a live session checker and its address's flag are in after the result -/
def handled (w : World) (k : Cid) (a : Addr) (c : Checker) (r : Result) : HealthCheck.St × Out :=
  HealthCheck.step ((w.thr k).1 : Int) ((w.thr k).2 : Int) ⟨c.un, c.hc, (w.words a).active⟩ r

theorem result_live (k : Cid) (a : Addr) (r : Result) (w : World) (c : Checker) (h : w.chk k a = some c)
    (hr : c.running = true) :
    (result k a r w).2 = some (handled w k a c r).2 ∧
    (result k a r w).1.words = upd w.words a { w.words a with active := (handled w k a c r).1.flag } ∧
    (result k a r w).1.chk = upd2 w.chk k a (some ⟨(handled w k a c r).1.unHealthCount, (handled w k a c r).1.healthCount, c.running, r :: c.rev⟩) ∧
    (result k a r w).1.hosts = w.hosts ∧ (result k a r w).1.thr = w.thr := by
  simp [result, h, hr, handled, incHealthyFlagOps, decHealthyFlagOps, applyFlagOps]

/-! ### invariant: every session checker in the table runs, and its counters are bounded by the run lengths of its own history -/

def Good (w : World) : Prop :=
  ∀ k a c, w.chk k a = some c →
    c.running = true ∧ c.hc ≤ (trail Result.ok c.rev : Int) ∧ c.un ≤ (trail Result.bad c.rev : Int)

theorem good_fresh : fresh.running = true ∧ fresh.hc ≤ (trail Result.ok fresh.rev : Int) ∧ fresh.un ≤ (trail Result.bad fresh.rev : Int) := by
  simp [fresh, trail]

theorem freshOr_cases (o : Option Checker) (c : Checker) (h : freshOr o = some c) : c = fresh ∨ o = some c := by
  cases o with
  | none => left; simpa [freshOr] using h.symm
  | some x => right; simpa [freshOr] using h

theorem good_step (w : World) (op : Op) (hg : Good w) : Good (step w op).1 := by
  intro k' a' c' hc'
  cases op with
  | setHosts k hs =>
    simp only [step, setHosts_chk] at hc'
    split at hc'
    · cases hc'
    · split at hc'
      · rcases freshOr_cases _ _ hc' with e | e
        · subst e; exact good_fresh
        · exact hg _ _ _ e
      · exact hg _ _ _ hc'
  | stopAll k =>
    simp only [step, stopAll_chk] at hc'
    split at hc'
    · cases hc'
    · exact hg _ _ _ hc'
  | recreate k cu ch =>
    simp only [step] at hc'
    split at hc'
    · cases hc'
    · rw [stopAll_chk] at hc'
      split at hc'
      · cases hc'
      · exact hg _ _ _ hc'
  | outlier a on => exact hg _ _ _ hc'
  | result k a r =>
    simp only [step] at hc'
    cases hk : w.chk k a with
    | none => rw [result_none _ _ _ _ hk] at hc'; exact hg _ _ _ hc'
    | some c =>
      obtain ⟨hrun, hh, hu⟩ := hg _ _ _ hk
      obtain ⟨_, _, hchk, _, _⟩ := result_live k a r w c hk hrun
      rw [hchk, upd2_apply] at hc'
      split at hc'
      · injection hc' with hc'
        subst hc'
        refine ⟨hrun, ?_, ?_⟩
        · simp only [handled]
          cases hro : r.ok with
          | true =>
            have : r = .success := by cases r <;> simp_all [Result.ok]
            subst this
            rw [step_success]
            simp only [trail_cons, Result.ok, if_true]
            split <;> omega
          | false =>
            rw [step_bad _ _ _ _ _ _ hro]
            simp only [trail_cons, hro]
            simp
        · simp only [handled]
          cases hro : r.ok with
          | true =>
            have : r = .success := by cases r <;> simp_all [Result.ok]
            subst this
            rw [step_success]
            simp [trail_cons, Result.bad, Result.ok]
          | false =>
            rw [step_bad _ _ _ _ _ _ hro]
            simp only [trail_cons, Result.bad, hro, Bool.not_false, if_true]
            split <;> omega
      · exact hg _ _ _ hc'

theorem good_init (cfg : Cid → Nat × Nat) (words0 : Addr → Word) : Good (World.init cfg words0) := by
  intro k a c h; simp [World.init] at h

theorem good_runOps (ops : List Op) (w : World) (hg : Good w) : Good (runOps w ops) := by
  induction ops generalizing w with
  | nil => exact hg
  | cons op ops ih => exact ih _ (good_step w op hg)

/-! ### the active-health-check condition changes only at a threshold-completing result -/

theorem ok_true_iff (r : Result) : r.ok = true ↔ r = .success := by cases r <;> simp [Result.ok]

theorem cleared_only_by_success (w : World) (hg : Good w) (op : Op) (a : Addr)
    (hb : (w.words a).active = true) (ha : ((step w op).1.words a).active = false) :
    ∃ k c, op = .result k a .success ∧ w.chk k a = some c ∧ c.running = true ∧
      (w.thr k).2 ≤ trail Result.ok (.success :: c.rev) := by
  cases op with
  | setHosts k hs => rw [step_lifecycle_words w _ rfl, hb] at ha; cases ha
  | stopAll k => rw [step_lifecycle_words w _ rfl, hb] at ha; cases ha
  | recreate k cu ch => rw [step_lifecycle_words w _ rfl, hb] at ha; cases ha
  | outlier a' on =>
    simp only [step, upd_apply] at ha
    split at ha <;> simp_all
  | result k a' r =>
    simp only [step] at ha
    cases hk : w.chk k a' with
    | none => rw [result_none _ _ _ _ hk, hb] at ha; cases ha
    | some c =>
      obtain ⟨hrun, hh, _⟩ := hg _ _ _ hk
      obtain ⟨_, hw, _, _, _⟩ := result_live k a' r w c hk hrun
      rw [hw, upd_apply] at ha
      split at ha
      · rename_i e
        subst e
        simp only [handled] at ha
        cases hro : r.ok with
        | true =>
          have := (ok_true_iff r).mp hro
          subst this
          rw [step_success] at ha
          simp only [hb, Bool.true_and, Bool.not_eq_eq_eq_not, Bool.not_false, decide_eq_true_eq] at ha
          refine ⟨k, c, rfl, hk, hrun, ?_⟩
          simp only [trail_cons, Result.ok, if_true]
          omega
        | false =>
          rw [step_bad _ _ _ _ _ _ hro] at ha
          simp [hb] at ha
      · rw [hb] at ha; cases ha

theorem set_only_by_failure (w : World) (hg : Good w) (op : Op) (a : Addr)
    (hb : (w.words a).active = false) (ha : ((step w op).1.words a).active = true) :
    ∃ k c r, op = .result k a r ∧ r.bad = true ∧ w.chk k a = some c ∧ c.running = true ∧
      (w.thr k).1 ≤ trail Result.bad (r :: c.rev) := by
  cases op with
  | setHosts k hs => rw [step_lifecycle_words w _ rfl, hb] at ha; cases ha
  | stopAll k => rw [step_lifecycle_words w _ rfl, hb] at ha; cases ha
  | recreate k cu ch => rw [step_lifecycle_words w _ rfl, hb] at ha; cases ha
  | outlier a' on =>
    simp only [step, upd_apply] at ha
    split at ha <;> simp_all
  | result k a' r =>
    simp only [step] at ha
    cases hk : w.chk k a' with
    | none => rw [result_none _ _ _ _ hk, hb] at ha; cases ha
    | some c =>
      obtain ⟨hrun, _, hu⟩ := hg _ _ _ hk
      obtain ⟨_, hw, _, _, _⟩ := result_live k a' r w c hk hrun
      rw [hw, upd_apply] at ha
      split at ha
      · rename_i e
        subst e
        simp only [handled] at ha
        cases hro : r.ok with
        | true =>
          have := (ok_true_iff r).mp hro
          subst this
          rw [step_success] at ha
          simp [hb] at ha
        | false =>
          rw [step_bad _ _ _ _ _ _ hro] at ha
          simp only [hb, Bool.false_or, decide_eq_true_eq] at ha
          refine ⟨k, c, r, rfl, by simp [Result.bad, hro], hk, hrun, ?_⟩
          simp only [trail_cons, Result.bad, hro, Bool.not_false, if_true]
          omega
      · rw [hb] at ha; cases ha

end MosnVerif.Model.HealthLifecycle
