import MosnVerif.Lemmas.HuffBits
import MosnVerif.Lemmas.HuffTreeCheck
/-!
The regenerated Huffman code table as a prefix code on bit strings, and the declarative decoder (`Model.Huffman.matchSym /
decodeBits`, `Model.HuffTree.decodeBitsMax`) on it: round trip, exactness of the encoded length, the three rejected paddings.
-/
namespace MosnVerif.Lemmas.HuffCode
open MosnVerif.Gen.Hpack MosnVerif.Model.Huffman MosnVerif.Model.HuffTree MosnVerif.Lemmas.HuffBits
open MosnVerif.Lemmas.HuffTreeCheck (table_len)

theorem prefix_free : prefixFree codes = true := by decide +kernel
theorem table_wf : tableWf codes = true := by decide +kernel
theorem kraft_complete : kraftComplete codes = true := by decide +kernel

/-- (code, length) of symbol `i`; `256` is EOS -/
def codeAt (i : Nat) : Nat × Nat := codes.getD i (0, 0)

def bitsAt (i : Nat) : List Bool := bitsOf (codeAt i).1 (codeAt i).2

theorem codes_length : codes.length = 257 := by
  simp [codes, List.length_zip, table_len.1, table_len.2]

theorem codes_get (i : Nat) (hi : i < 257) : codes[i]? = some (codeAt i) := by
  unfold codeAt
  rw [List.getD_eq_getElem?_getD]
  have : i < codes.length := by rw [codes_length]; exact hi
  rw [List.getElem?_eq_getElem this]; rfl

theorem codeAt_sym (s : Nat) (hs : s < 256) : codeAt s = (codeOf s, lenOf s) := by
  have h1 : s < huffmanCodes.length := by rw [table_len.1]; exact hs
  have h2 : s < huffmanCodeLen.length := by rw [table_len.2]; exact hs
  have hz : (huffmanCodes.zip huffmanCodeLen)[s]? = some (huffmanCodes[s]'h1, huffmanCodeLen[s]'h2) :=
    List.getElem?_zip_eq_some.2 ⟨List.getElem?_eq_getElem h1, List.getElem?_eq_getElem h2⟩
  have hl : s < (huffmanCodes.zip huffmanCodeLen).length := by simp [List.length_zip, table_len.1, table_len.2]; exact hs
  unfold codeAt codes codeOf lenOf
  rw [List.getD_eq_getElem?_getD, List.getElem?_append_left hl, hz, Option.getD_some,
    List.getD_eq_getElem?_getD, List.getD_eq_getElem?_getD, List.getElem?_eq_getElem h1, List.getElem?_eq_getElem h2,
    Option.getD_some, Option.getD_some]

theorem codeAt_eos : codeAt 256 = (eosCode, eosLen) := by
  have hl : (huffmanCodes.zip huffmanCodeLen).length = 256 := by simp [List.length_zip, table_len.1, table_len.2]
  unfold codeAt codes
  rw [List.getD_eq_getElem?_getD, List.getElem?_append_right (by omega), hl]
  rfl

theorem wf_at (i : Nat) (hi : i < 257) : 5 ≤ (codeAt i).2 ∧ (codeAt i).2 ≤ 30 ∧ (codeAt i).1 < 2 ^ (codeAt i).2 := by
  have h := table_wf
  simp only [tableWf, Bool.and_eq_true, List.all_eq_true, decide_eq_true_eq] at h
  have hm : codeAt i ∈ codes := List.mem_of_getElem? (codes_get i hi)
  have := h.2 _ hm
  exact ⟨this.1.1, this.1.2, this.2⟩

theorem prefix_free_at (i j : Nat) (hi : i < 257) (hj : j < 257) (hne : i ≠ j) : isPrefixCode (codeAt i) (codeAt j) = false := by
  have h := prefix_free
  simp only [prefixFree, List.all_eq_true] at h
  have hi' : (codeAt i, i) ∈ codes.zipIdx := List.mem_zipIdx_iff_getElem?.2 (codes_get i hi)
  have hj' : (codeAt j, j) ∈ codes.zipIdx := List.mem_zipIdx_iff_getElem?.2 (codes_get j hj)
  have := h _ hi' _ hj'
  simp only [Bool.or_eq_true, beq_iff_eq, Bool.not_eq_true'] at this
  rcases this with h | h
  · exact absurd h hne
  · exact h

/-- `isPrefixCode` on the numbers is the prefix relation on the bit strings -/
theorem isPrefixCode_of_prefix (ca la cb lb : Nat) (ha : ca < 2 ^ la) (hb : cb < 2 ^ lb)
    (h : bitsOf ca la <+: bitsOf cb lb) : isPrefixCode (ca, la) (cb, lb) = true := by
  have hle : la ≤ lb := by have := h.length_le; simpa using this
  obtain ⟨n, rfl⟩ : ∃ n, lb = la + n := ⟨lb - la, by omega⟩
  have := (prefix_iff ca cb la n).1 h
  rw [Nat.mod_eq_of_lt ha] at this
  have hq : cb / 2 ^ n < 2 ^ la := by
    rw [Nat.div_lt_iff_lt_mul (Nat.two_pow_pos n), ← Nat.pow_add]; exact hb
  rw [Nat.mod_eq_of_lt hq] at this
  simp [isPrefixCode, Nat.shiftRight_eq_div_pow, this]

theorem prefix_of_isPrefixCode (ca la cb lb : Nat) (h : isPrefixCode (ca, la) (cb, lb) = true) :
    bitsOf ca la <+: bitsOf cb lb := by
  simp only [isPrefixCode, Bool.and_eq_true, decide_eq_true_eq, beq_iff_eq, Nat.shiftRight_eq_div_pow] at h
  obtain ⟨n, rfl⟩ : ∃ n, lb = la + n := ⟨lb - la, by omega⟩
  rw [Nat.add_sub_cancel_left] at h
  rw [prefix_iff, h.2]

/-- two codes that are prefixes of one bit string are the same code -/
theorem code_unique (i j : Nat) (hi : i < 257) (hj : j < 257) (X : List Bool) (h1 : bitsAt i <+: X) (h2 : bitsAt j <+: X) : i = j := by
  by_cases hne : i = j
  · exact hne
  · exfalso
    have wi := wf_at i hi
    have wj := wf_at j hj
    rcases Nat.le_total (bitsAt i).length (bitsAt j).length with hl | hl
    · have := List.prefix_of_prefix_length_le h1 h2 hl
      have := isPrefixCode_of_prefix _ _ _ _ wi.2.2 wj.2.2 this
      rw [prefix_free_at i j hi hj hne] at this
      exact Bool.noConfusion this
    · have := List.prefix_of_prefix_length_le h2 h1 hl
      have := isPrefixCode_of_prefix _ _ _ _ wj.2.2 wi.2.2 this
      rw [prefix_free_at j i hj hi (Ne.symm hne)] at this
      exact Bool.noConfusion this

def codeBits (s : Nat) : List Bool := bitsOf (codeOf s) (lenOf s)

theorem bitsAt_sym (s : Nat) (hs : s < 256) : bitsAt s = codeBits s := by
  unfold bitsAt codeBits; rw [codeAt_sym s hs]

def eosBits : List Bool := bitsOf eosCode eosLen

theorem bitsAt_eos : bitsAt 256 = eosBits := by unfold bitsAt eosBits; rw [codeAt_eos]

theorem eosBits_eq : eosBits = List.replicate 30 true := by
  have := bitsOf_replicate_true 30
  unfold eosBits eosCode eosLen
  rw [← this]

theorem wf_sym (s : Nat) (hs : s < 256) : 5 ≤ lenOf s ∧ lenOf s ≤ 30 ∧ codeOf s < 2 ^ lenOf s := by
  have := wf_at s (by omega)
  rwa [codeAt_sym s hs] at this

theorem length_codeBits (s : Nat) : (codeBits s).length = lenOf s := by simp [codeBits]

/-! ### `matchSym` -/

theorem find_unique {α : Type} (p : α → Bool) (l : List α) (e : α) (he : e ∈ l) (hp : p e = true)
    (hu : ∀ x ∈ l, p x = true → x = e) : l.find? p = some e := by
  induction l with
  | nil => cases he
  | cons x r ih =>
    rw [List.find?_cons]
    cases hx : p x with
    | true => simp only; rw [hu x (List.mem_cons_self) hx]
    | false =>
      simp only
      rcases List.mem_cons.1 he with h | h
      · rw [h] at hp; rw [hp] at hx; cases hx
      · exact ih h (fun y hy => hu y (List.mem_cons_of_mem _ hy))

theorem mem_symTable (e : Nat × Nat × Nat) : e ∈ symTable ↔ e.1 < 256 ∧ e.2.1 = codeOf e.1 ∧ e.2.2 = lenOf e.1 := by
  unfold symTable
  rw [table_len.1]
  simp only [List.mem_map, List.mem_range]
  constructor
  · rintro ⟨i, hi, rfl⟩; exact ⟨hi, rfl, rfl⟩
  · rintro ⟨h1, h2, h3⟩
    refine ⟨e.1, h1, ?_⟩
    obtain ⟨a, b, c⟩ := e
    simp only at h1 h2 h3
    rw [h2, h3]; rfl

theorem matchSym_code (s : Nat) (hs : s < 256) (rest : List Bool) : matchSym (codeBits s ++ rest) = some (s, rest) := by
  unfold matchSym
  have he : (s, codeOf s, lenOf s) ∈ symTable := (mem_symTable _).2 ⟨hs, rfl, rfl⟩
  rw [find_unique _ symTable (s, codeOf s, lenOf s) he]
  · simp only [Option.map_some]
    rw [← length_codeBits s, List.drop_left]
  · simp only [List.isPrefixOf_iff_prefix]
    exact List.prefix_append _ _
  · intro x hx hp
    obtain ⟨h1, h2, h3⟩ := (mem_symTable x).1 hx
    simp only [List.isPrefixOf_iff_prefix] at hp
    rw [h2, h3] at hp
    have : x.1 = s := code_unique x.1 s (by omega) (by omega) _ (by rw [bitsAt_sym _ h1]; exact hp)
      (by rw [bitsAt_sym _ hs]; exact List.prefix_append _ _)
    obtain ⟨a, b, c⟩ := x
    simp only at this h2 h3
    subst this
    rw [h2, h3]

theorem matchSym_some (bits : List Bool) (s : Nat) (rest : List Bool) (h : matchSym bits = some (s, rest)) :
    s < 256 ∧ bits = codeBits s ++ rest := by
  unfold matchSym at h
  cases hf : symTable.find? (fun e => (bitsOf e.2.1 e.2.2).isPrefixOf bits) with
  | none => rw [hf] at h; cases h
  | some e =>
    rw [hf] at h
    simp only [Option.map_some, Option.some.injEq, Prod.mk.injEq] at h
    have hp := List.find?_some hf
    have hm := List.mem_of_find?_eq_some hf
    obtain ⟨h1, h2, h3⟩ := (mem_symTable e).1 hm
    simp only [List.isPrefixOf_iff_prefix] at hp
    rw [h2, h3] at hp
    rw [← h.1]
    refine ⟨h1, ?_⟩
    have := List.prefix_iff_eq_append.1 hp
    rw [length_bitsOf] at this
    rw [← h.2, h3]
    exact this.symm

theorem matchSym_none (bits : List Bool) (h : ∀ s, s < 256 → ¬ codeBits s <+: bits) : matchSym bits = none := by
  unfold matchSym
  rw [Option.map_eq_none_iff, List.find?_eq_none]
  intro e he hp
  obtain ⟨h1, h2, h3⟩ := (mem_symTable e).1 he
  simp only [List.isPrefixOf_iff_prefix] at hp
  rw [h2, h3] at hp
  exact h e.1 h1 hp

/-- bits that start with EOS match no symbol -/
theorem matchSym_eos (bits : List Bool) (h : eosBits <+: bits) : matchSym bits = none := by
  apply matchSym_none
  intro s hs hp
  have := code_unique s 256 (by omega) (by omega) bits (by rw [bitsAt_sym s hs]; exact hp) (by rw [bitsAt_eos]; exact h)
  omega

/-- a string of ones matches no symbol -/
theorem matchSym_ones (k : Nat) : matchSym (List.replicate k true) = none := by
  apply matchSym_none
  intro s hs hp
  have w := wf_sym s hs
  -- the code is all ones, hence a prefix of EOS
  have hlen : lenOf s ≤ k := by have := hp.length_le; simpa [length_codeBits] using this
  have hc : codeBits s = List.replicate (lenOf s) true := by
    have := List.prefix_iff_eq_take.1 hp
    rw [length_codeBits, List.take_replicate, Nat.min_eq_left hlen] at this
    exact this
  have hp2 : codeBits s <+: eosBits := by
    rw [hc, eosBits_eq]
    exact ⟨List.replicate (30 - lenOf s) true, by rw [List.replicate_append_replicate]; congr 1; omega⟩
  have := code_unique s 256 (by omega) (by omega) eosBits (by rw [bitsAt_sym s hs]; exact hp2) (by rw [bitsAt_eos]; exact List.prefix_rfl)
  omega

end MosnVerif.Lemmas.HuffCode
