import MosnVerif.Model.FilterMachine
import MosnVerif.Lemmas.FilterChain
/-! invariants of the downstream phase machine of C14 -/
set_option linter.unusedSimpArgs false
namespace MosnVerif.Model.FilterMachine
open MosnVerif.Gen.FilterPhase MosnVerif.Model.FilterChain

/-! ### `processError` on the model state, by the flag that wins -/

theorem afterPEd_cleaned (c : Cfg) (d : Bool) (s : St) (h : s.cleaned = true) : afterPEd c d s = ret s End := by
  simp [afterPEd, processError, ops, h]

theorem afterPE_cleaned (c : Cfg) (s : St) (h : s.cleaned = true) : afterPE c s = ret s End :=
  afterPEd_cleaned c _ s h

/-- the state `processError` leaves when the pending direct response wins: the local reply is taken, the again-phase
cleared — and the retry state dropped (the regenerated `s.retryState = nil`): a local reply is never retried -/
def consumeDirect (s : St) : St := { s with direct := false, again := InitPhase, rs := none }

theorem afterPE_direct (c : Cfg) (s : St) (hc : s.cleaned = false) (hr : s.upstreamReset = false)
    (hd : s.direct = true) :
    afterPE c s =
      if c.env.oneway then ret (consumeDirect s) Oneway
      else if s.phase ≠ UpFilter then ret (consumeDirect s) UpFilter
      else { consumeDirect s with phase := s.phase + 1 } := by
  simp only [afterPE, afterPEd, processError, ops, hc, hr, hd, consumeDirect]
  by_cases ho : c.env.oneway = true <;> by_cases hp : s.phase = UpFilter <;> simp [ho, hp, hc, hr, hd]

theorem afterPE_plain (c : Cfg) (s : St) (hc : s.cleaned = false) (hr : s.upstreamReset = false)
    (hd : s.direct = false) :
    afterPE c s =
      if s.again ≠ InitPhase then ret { s with again := InitPhase } s.again
      else if s.procDone then ret s End
      else { s with phase := s.phase + 1 } := by
  simp only [afterPE, afterPEd, processError, ops, hc, hr, hd]
  by_cases ha : s.again = InitPhase <;> by_cases hp : s.procDone = true <;> simp [ha, hp, hc, hr, hd]

/-- a pending upstream reset: one-way requests re-enter at `Oneway`; a two-way request is retried when the regenerated
decision on the reset reason fires (`processError` then returns the phase `Retry`), and answered with the error reply
of the reason otherwise -/
theorem afterPE_reset (c : Cfg) (s : St) (hc : s.cleaned = false) (hr : s.upstreamReset = true) :
    afterPE c s =
      if c.env.oneway then ret s Oneway
      else if resetRetry c s then
        (if s.direct then
          (if s.phase ≠ UpFilter then ret (consumeDirect (setRetry s)) UpFilter
           else { consumeDirect (setRetry s) with phase := s.phase + 1 })   -- [proxy7] fix a3a21969e: the response pass goes on
         else ret (setRetry s) Retry)
      else if s.phase ≠ UpFilter then ret (consumeDirect (onUpstreamReset c.env.resetCode s)) UpFilter
      else { consumeDirect (onUpstreamReset c.env.resetCode s) with phase := s.phase + 1 } := by
  simp only [afterPE, afterPEd, processError, ops, hc, hr, consumeDirect]
  by_cases ho : c.env.oneway = true <;> by_cases hq : resetRetry c s = true <;> by_cases hp : s.phase = UpFilter <;>
    by_cases hd : s.direct = true <;> by_cases hpd : s.procDone = true <;>
    simp [ho, hq, hp, hd, hpd, hc, hr, onUpstreamReset, setRetry, liftF, sendHijack]

/-- `processError` after `onUpstreamHeaders` decided to retry (the flag is set, nothing else is pending): the phase
`Retry` is returned -/
theorem afterPEd_retry (c : Cfg) (s : St) (hc : s.cleaned = false) (hr : s.upstreamReset = false) (hd : s.direct = false) :
    afterPEd c true s = ret s Retry := by
  simp only [afterPEd, processError, ops, hc, hr, hd]
  by_cases hp : s.procDone = true <;> simp [hp, hc, hr, hd]

/-- `processError` right after `onUpstreamHeaders` set the retry flag, in closed form -/
theorem afterPEd_true (c : Cfg) (s : St) (hr : s.upstreamReset = false) :
    afterPEd c true s =
      if s.cleaned then ret s End
      else if s.direct then
        (if c.env.oneway then ret (consumeDirect s) Oneway
         else if s.phase ≠ UpFilter then ret (consumeDirect s) UpFilter
         else { consumeDirect s with phase := s.phase + 1 })
      else ret s Retry := by
  by_cases hc : s.cleaned = true
  · rw [afterPEd_cleaned c true s hc]; simp [hc]
  · have hc : s.cleaned = false := by simpa using hc
    by_cases hd : s.direct = true
    · simp only [afterPEd, processError, ops, hc, hr, hd, consumeDirect]
      by_cases ho : c.env.oneway = true <;> by_cases hp : s.phase = UpFilter <;> simp [ho, hp, hc, hr, hd]
    · have hd : s.direct = false := by simpa using hd
      rw [afterPEd_retry c s hc hr hd]; simp [hc, hd]

theorem resetRetry_none (c : Cfg) (s : St) (h : s.rs = none) : resetRetry c s = false := by
  simp [resetRetry, h, Gen.RetryState.resetGuard]

theorem headersRetry_none (c : Cfg) (s : St) (h : s.rs = none) : headersRetry c s = false := by
  simp [headersRetry, h, Gen.RetryState.headersGuard]

/-! ### `phaseCase` by the value of the phase (the `switch phase` of `receive`, one lemma per `case`) -/

macro "phase_simp" h:term : tactic => `(tactic| simp [phaseCase, $h:term, recvPhaseOf, sendFilterPhase, InitPhase, DownFilter, MatchRoute, DownFilterAfterRoute, ChooseHost, DownFilterAfterChooseHost, DownRecvHeader, DownRecvData, DownRecvTrailer, Oneway, Retry, WaitNotify, UpFilter, UpRecvHeader, UpRecvData, UpRecvTrailer, End])

theorem pc0 (c : Cfg) (s : St) (h : s.phase = 0) : phaseCase c s = { s with phase := s.phase + 1 } := by phase_simp h
theorem pc1 (c : Cfg) (s : St) (h : s.phase = 1) : phaseCase c s = afterPE c (filterPass c .BeforeRoute s) := by phase_simp h
theorem pc2 (c : Cfg) (s : St) (h : s.phase = 2) :
    phaseCase c s = afterPE c { s with route := c.env.route s.nMatch, nMatch := s.nMatch + 1 } := by phase_simp h
theorem pc3 (c : Cfg) (s : St) (h : s.phase = 3) : phaseCase c s = afterPE c (filterPass c .AfterRoute s) := by phase_simp h
theorem pc4 (c : Cfg) (s : St) (h : s.phase = 4) : phaseCase c s = afterPE c (chooseHost c s) := by phase_simp h
theorem pc5 (c : Cfg) (s : St) (h : s.phase = 5) : phaseCase c s = afterPE c (filterPass c .AfterChooseHost s) := by phase_simp h
theorem pc6 (c : Cfg) (s : St) (h : s.phase = 6) :
    phaseCase c s = if s.upReq then afterPE c (sendUpstream c s) else { emit s (.unmodelled s.phase) with halted := true } := by
  phase_simp h
theorem pc7 (c : Cfg) (s : St) (h : s.phase = 7) :
    phaseCase c s = if c.env.reqData then afterPE c s else { s with phase := s.phase + 1 } := by phase_simp h
theorem pc8 (c : Cfg) (s : St) (h : s.phase = 8) :
    phaseCase c s = if c.env.reqTrailers then afterPE c s else { s with phase := s.phase + 1 } := by phase_simp h
theorem pc9 (c : Cfg) (s : St) (h : s.phase = 9) :
    phaseCase c s = if c.env.oneway then afterPE c (clean s) else { s with phase := WaitNotify } := by phase_simp h
theorem pc10 (c : Cfg) (s : St) (h : s.phase = 10) :
    phaseCase c s = { emit s (.unmodelled s.phase) with halted := true } := by phase_simp h
theorem pc11 (c : Cfg) (s : St) (h : s.phase = 11) :
    phaseCase c s = if (deliver c s).halted then deliver c s else afterPE c (deliver c s) := by phase_simp h
theorem pc12 (c : Cfg) (s : St) (h : s.phase = 12) : phaseCase c s = afterPE c (sendPassE c s) := by phase_simp h
theorem pc13 (c : Cfg) (s : St) (h : s.phase = 13) :
    phaseCase c s = match s.resp with
      | some r =>
        if !(s.procDone || s.upstreamReset) && headersRetry c s then afterPEd c true (setRetry s)
        else afterPE c (respHeaders s r)
      | none => { s with phase := s.phase + 1 } := by phase_simp h; cases s.resp <;> rfl
theorem pc14 (c : Cfg) (s : St) (h : s.phase = 14) :
    phaseCase c s = match s.resp with
      | some r => if r.data then afterPE c (respData s r) else { s with phase := s.phase + 1 }
      | none => { s with phase := s.phase + 1 } := by phase_simp h; cases s.resp <;> rfl
theorem pc15 (c : Cfg) (s : St) (h : s.phase = 15) :
    phaseCase c s = match s.resp with
      | some r => if r.trailers then afterPE c (respTrailers s) else { s with phase := s.phase + 1 }
      | none => { s with phase := s.phase + 1 } := by phase_simp h; cases s.resp <;> rfl
theorem pc16 (c : Cfg) (s : St) (h : s.phase = 16) : phaseCase c s = ret s End := by phase_simp h
theorem pc17 (c : Cfg) (s : St) (h : 17 ≤ s.phase) :
    phaseCase c s = { emit s (.unmodelled s.phase) with halted := true } := by
  have h0 : s.phase ≠ 0 := by omega
  have h1 : s.phase ≠ 1 := by omega
  have h2 : s.phase ≠ 2 := by omega
  have h3 : s.phase ≠ 3 := by omega
  have h4 : s.phase ≠ 4 := by omega
  have h5 : s.phase ≠ 5 := by omega
  have h6 : s.phase ≠ 6 := by omega
  have h7 : s.phase ≠ 7 := by omega
  have h8 : s.phase ≠ 8 := by omega
  have h9 : s.phase ≠ 9 := by omega
  have h11 : s.phase ≠ 11 := by omega
  have h12 : s.phase ≠ 12 := by omega
  have h13 : s.phase ≠ 13 := by omega
  have h14 : s.phase ≠ 14 := by omega
  have h15 : s.phase ≠ 15 := by omega
  have h16 : s.phase ≠ 16 := by omega
  phase_simp h0
  simp [*]

theorem phase_cases (n : Nat) : n = 0 ∨ n = 1 ∨ n = 2 ∨ n = 3 ∨ n = 4 ∨ n = 5 ∨ n = 6 ∨ n = 7 ∨ n = 8 ∨ n = 9 ∨ n = 10 ∨
    n = 11 ∨ n = 12 ∨ n = 13 ∨ n = 14 ∨ n = 15 ∨ n = 16 ∨ 17 ≤ n := by omega

/-! ### `ret` only touches the control fields -/

@[simp] theorem ret_trace (s : St) (p : Nat) : (ret s p).trace = s.trace := by unfold ret; split <;> (try split) <;> (try split) <;> rfl
@[simp] theorem ret_toFState (s : St) (p : Nat) : (ret s p).toFState = s.toFState := by unfold ret; split <;> (try split) <;> (try split) <;> rfl
@[simp] theorem ret_upstreamReset (s : St) (p : Nat) : (ret s p).upstreamReset = s.upstreamReset := by unfold ret; split <;> (try split) <;> (try split) <;> rfl
@[simp] theorem ret_procDone (s : St) (p : Nat) : (ret s p).procDone = s.procDone := by unfold ret; split <;> (try split) <;> (try split) <;> rfl
@[simp] theorem ret_upReq (s : St) (p : Nat) : (ret s p).upReq = s.upReq := by unfold ret; split <;> (try split) <;> (try split) <;> rfl
@[simp] theorem ret_route (s : St) (p : Nat) : (ret s p).route = s.route := by unfold ret; split <;> (try split) <;> (try split) <;> rfl
@[simp] theorem ret_nMatch (s : St) (p : Nat) : (ret s p).nMatch = s.nMatch := by unfold ret; split <;> (try split) <;> (try split) <;> rfl
@[simp] theorem ret_nChoose (s : St) (p : Nat) : (ret s p).nChoose = s.nChoose := by unfold ret; split <;> (try split) <;> (try split) <;> rfl
@[simp] theorem ret_phase (s : St) (p : Nat) : (ret s p).phase = p := by unfold ret; split <;> (try split) <;> (try split) <;> rfl
theorem ret_End_halted (s : St) : (ret s End).halted = true := by simp [ret]
@[simp] theorem ret_rs (s : St) (p : Nat) : (ret s p).rs = s.rs := by unfold ret; split <;> (try split) <;> (try split) <;> rfl
theorem ret_Retry (s : St) (ho : s.outer ≤ taskLoopBound) :
    ret s Retry = { s with halted := true, retried := true, phase := Retry } := by
  have : ¬ s.outer > taskLoopBound := by omega
  simp [ret, Retry, End, this]
theorem ret_Retry_halted (s : St) : (ret s Retry).halted = true := by
  unfold ret; split <;> (try split) <;> (try split) <;> first | rfl | (rename_i h; exact absurd rfl h)
theorem ret_retried (s : St) (p : Nat) (hp : p ≠ Retry) : (ret s p).retried = s.retried := by
  unfold ret
  by_cases h1 : p = End
  · simp [h1]
  · simp only [h1, hp, if_false]; split <;> rfl

/-! ### [proxy8] what follows the exhausted task loop -/

/-- the state after `sendHijackReply(exhaustCode)` of `onReentryExhausted` -/
def finHijack (s : St) : St := liftF s (sendHijack s.toFState exhaustCode false)

theorem finishStart_cases (c : Cfg) (s : St) :
    (exhaustFinishes = false ∧ finishStart c s = { s with halted := true, exhausted := true }) ∨
    (s.cleaned = true ∧ finishStart c s = { s with halted := true }) ∨
    (exhaustHijacks s.phase = false ∧ finishStart c s = { s with outer := s.outer + 1 }) ∨
    (s.cleaned = false ∧ exhaustHijacks s.phase = true ∧ finishStart c s = afterPE c (finHijack s)) := by
  unfold finishStart
  split
  · rename_i h0
    exact Or.inl ⟨by simpa using h0, rfl⟩
  · split
    · rename_i hc
      exact Or.inr (Or.inl ⟨hc, rfl⟩)
    · rename_i hc
      split
      · rename_i hh
        exact Or.inr (Or.inr (Or.inl ⟨by simpa using hh, rfl⟩))
      · rename_i hh
        exact Or.inr (Or.inr (Or.inr ⟨by simpa using hc, by simpa using hh, rfl⟩))
theorem ret_halted_of (s : St) (p : Nat) (h : s.halted = true) : (ret s p).halted = true := by
  unfold ret; split <;> (try split) <;> (try split) <;> simp [h]

/-! ### deny_not_forwarded -/

def isUp : Ev → Bool
  | .up _ => true
  | _ => false

def denyEv : Ev → Bool
  | .rpass _ _ invs => invs.any (fun iv => iv.2.isDeny)
  | _ => false

def isRpass : Ev → Bool
  | .rpass _ _ _ => true
  | _ => false

def NoUp (t : List Ev) : Prop := ∀ e ∈ t, isUp e = false
def DenyIn (t : List Ev) : Prop := ∃ e ∈ t, denyEv e = true

/-- nothing reply-related is pending (the state of a stream in the receive phases between two `case`s) -/
structure Quiet (s : St) : Prop where
  resp : s.resp = none
  upResp : s.upRespReceived = false
  direct : s.direct = false
  cleaned : s.cleaned = false
  upstreamReset : s.upstreamReset = false
  procDone : s.procDone = false

/-- the invariant behind `deny_not_forwarded`: between two iterations of `receive`, either the stream is still in the
receive phases with nothing denied, nothing forwarded and nothing pending — or it has left them for good
(phase ≥ DownRecvData, or the task returned), and then a deny in the trace excludes any `NewStream`. -/
structure Jinv (s : St) : Prop where
  again : s.halted = false → s.again = InitPhase
  region : (s.phase ≤ DownRecvHeader ∧ s.halted = false ∧ ¬ DenyIn s.trace ∧ NoUp s.trace ∧ Quiet s ∧ s.retried = false) ∨
           ((DownRecvData ≤ s.phase ∨ s.halted = true) ∧
            (DenyIn s.trace → NoUp s.trace ∧ s.retried = false ∧ (s.halted = false → s.rs = none)))

/-- the step appended only events that are neither filter passes nor `NewStream` calls -/
def Benign (t t' : List Ev) : Prop := ∃ evs, t' = t ++ evs ∧ ∀ e ∈ evs, isUp e = false ∧ isRpass e = false

theorem Benign.refl (t : List Ev) : Benign t t := ⟨[], by simp, by simp⟩
theorem Benign.trans {a b c : List Ev} (h1 : Benign a b) (h2 : Benign b c) : Benign a c := by
  obtain ⟨e1, rfl, p1⟩ := h1
  obtain ⟨e2, rfl, p2⟩ := h2
  exact ⟨e1 ++ e2, by simp, fun e he => by
    rcases List.mem_append.mp he with h | h
    · exact p1 e h
    · exact p2 e h⟩
theorem Benign.one (t : List Ev) (e : Ev) (h1 : isUp e = false) (h2 : isRpass e = false) : Benign t (t ++ [e]) :=
  ⟨[e], rfl, fun x hx => by simp at hx; subst hx; exact ⟨h1, h2⟩⟩

theorem denyEv_rpass {e : Ev} (h : denyEv e = true) : isRpass e = true := by
  cases e <;> simp [denyEv, isRpass] at h ⊢

theorem Benign.keeps {t t' : List Ev} (hb : Benign t t') (h : DenyIn t → NoUp t) : DenyIn t' → NoUp t' := by
  obtain ⟨evs, rfl, pe⟩ := hb
  intro ⟨e, he, hd⟩
  have hin : e ∈ t := by
    rcases List.mem_append.mp he with h' | h'
    · exact h'
    · have := (pe e h').2; rw [denyEv_rpass hd] at this; cases this
  intro x hx
  rcases List.mem_append.mp hx with h' | h'
  · exact h ⟨e, hin, hd⟩ x h'
  · exact (pe x h').1

/-- leaving `processError` from a state outside the receive phases: the trace is untouched, the again-phase stays
cleared, the stream stays outside the receive phases; no retry state appears, and without one nothing is retried -/
theorem afterPE_back (c : Cfg) (s : St) (ha : s.again = InitPhase) (hp : DownRecvData ≤ s.phase + 1) :
    (afterPE c s).trace = s.trace ∧ ((afterPE c s).halted = false → (afterPE c s).again = InitPhase) ∧
    (DownRecvData ≤ (afterPE c s).phase ∨ (afterPE c s).halted = true) ∧
    (s.rs = none → (afterPE c s).rs = none ∧ (afterPE c s).retried = s.retried) := by
  by_cases hc : s.cleaned = true
  · rw [afterPE_cleaned c s hc]
    refine ⟨by simp, by simp [ret_End_halted], by simp [ret_End_halted], fun h => ⟨by simpa using h, ret_retried s End (by decide)⟩⟩
  · have hc : s.cleaned = false := by simpa using hc
    by_cases hr : s.upstreamReset = true
    · rw [afterPE_reset c s hc hr]
      split
      · refine ⟨by simp, by simp [ha], Or.inl (by simp; decide), fun h => ⟨by simpa using h, ret_retried s Oneway (by decide)⟩⟩
      · split
        · rename_i hq
          refine ⟨?_, ?_, ?_, fun h => by rw [resetRetry_none c s h] at hq; cases hq⟩
          · split <;> (try split) <;> simp [consumeDirect, setRetry, liftF]
          · split
            · split <;> simp [consumeDirect, setRetry, liftF, ret_End_halted]
            · simp [ret_Retry_halted]
          · split
            · split
              · exact Or.inl (by simp; decide)
              · exact Or.inl (by simp [consumeDirect, setRetry, liftF]; omega)
            · exact Or.inr (by simp [ret_Retry_halted])
        · split
          · refine ⟨by simp [consumeDirect, onUpstreamReset, liftF, sendHijack], by simp [consumeDirect, onUpstreamReset, liftF, sendHijack],
              Or.inl (by simp; decide), fun _ => ⟨by simp [consumeDirect], ?_⟩⟩
            rw [ret_retried _ UpFilter (by decide)]; rfl
          · exact ⟨by simp [consumeDirect, onUpstreamReset, liftF, sendHijack], by simp [consumeDirect],
              Or.inl (by simp [consumeDirect, onUpstreamReset, liftF, sendHijack]; omega), fun _ => ⟨by simp [consumeDirect], rfl⟩⟩
    · have hr : s.upstreamReset = false := by simpa using hr
      by_cases hd : s.direct = true
      · rw [afterPE_direct c s hc hr hd]
        split
        · refine ⟨by simp [consumeDirect], by simp [consumeDirect], Or.inl (by simp; decide), fun _ => ⟨by simp [consumeDirect], ?_⟩⟩
          rw [ret_retried _ Oneway (by decide)]; rfl
        · split
          · refine ⟨by simp [consumeDirect], by simp [consumeDirect], Or.inl (by simp; decide), fun _ => ⟨by simp [consumeDirect], ?_⟩⟩
            rw [ret_retried _ UpFilter (by decide)]; rfl
          · exact ⟨by simp [consumeDirect], by simp [consumeDirect], Or.inl (by simp [consumeDirect]; omega), fun _ => ⟨by simp [consumeDirect], rfl⟩⟩
      · have hd : s.direct = false := by simpa using hd
        rw [afterPE_plain c s hc hr hd]
        simp only [ha, ne_eq, not_true_eq_false, if_false]
        split
        · exact ⟨by simp, by simp [ret_End_halted], Or.inr (ret_End_halted _), fun h => ⟨by simpa using h, ret_retried s End (by decide)⟩⟩
        · exact ⟨rfl, fun _ => ha, Or.inl (by simp; omega), fun h => ⟨h, rfl⟩⟩

/-- what one step outside the receive phases guarantees -/
def BackOK (s r : St) : Prop :=
  Benign s.trace r.trace ∧ (r.halted = false → r.again = InitPhase) ∧ (DownRecvData ≤ r.phase ∨ r.halted = true) ∧
  (s.rs = none → r.rs = none ∧ r.retried = s.retried)

theorem back_via (c : Cfg) (s g : St) (hga : g.again = s.again) (hgp : g.phase = s.phase)
    (hb : Benign s.trace g.trace) (ha : s.again = InitPhase) (hp : DownRecvData ≤ s.phase + 1)
    (hrs : g.rs = s.rs) (hrt : g.retried = s.retried) :
    BackOK s (afterPE c g) := by
  obtain ⟨h1, h2, h3, h4⟩ := afterPE_back c g (by rw [hga, ha]) (by rw [hgp]; exact hp)
  exact ⟨by rw [h1]; exact hb, h2, h3, fun h => by rw [← hrt]; exact h4 (by rw [hrs]; exact h)⟩

/-- the retry branch of `UpRecvHeader`: whatever `processError` then does, the stream stays outside the receive phases
and the trace is untouched; it is only reachable with a retry state -/
theorem back_retry (c : Cfg) (s : St) (ha : s.again = InitPhase) (hp : DownRecvData ≤ s.phase + 1)
    (hq : headersRetry c s = true) : BackOK s (afterPEd c true (setRetry s)) := by
  have hrs : s.rs ≠ none := fun h => by rw [headersRetry_none c s h] at hq; cases hq
  rw [afterPEd_true c (setRetry s) (by simp [setRetry, liftF])]
  refine ⟨?_, ?_, ?_, fun h => absurd h hrs⟩
  · split
    · simp [setRetry, liftF]; exact Benign.refl _
    · split
      · split <;> (try split) <;> (simp [consumeDirect, setRetry, liftF]; exact Benign.refl _)
      · simp [setRetry, liftF]; exact Benign.refl _
  · split
    · simp [ret_End_halted]
    · split
      · split <;> (try split) <;> simp [consumeDirect, setRetry, liftF]
      · simp [ret_Retry_halted]
  · split
    · exact Or.inr (ret_End_halted _)
    · split
      · split
        · exact Or.inl (by simp; decide)
        · split
          · exact Or.inl (by simp; decide)
          · exact Or.inl (by simp [consumeDirect, setRetry, liftF]; omega)
      · exact Or.inr (by simp [ret_Retry_halted])

theorem clean_again (s : St) : (clean s).again = s.again := rfl
theorem clean_phase (s : St) : (clean s).phase = s.phase := rfl
theorem clean_trace (s : St) : (clean s).trace = s.trace := rfl

theorem sendLoop_again (fs : List SFilter) (idx : Nat) (s : FState) : (sendLoop fs idx s).1.again = s.again := by
  induction fs generalizing idx s with
  | nil => rfl
  | cons f rest ih =>
    simp only [sendLoop]
    have : ∀ st : FStatus, (applyHandler (senderHandler st) .BeforeRoute { s with scalls := bump s.scalls idx }).again = s.again := by
      intro st; cases st <;> simp [senderHandler, applyHandler, cleanStream]
    split
    · simp only []; rw [ih]; exact this _
    · exact this _
    · exact this _

theorem sendPass_again (c : Cfg) (s : St) : (sendPass c s).again = s.again := by
  simp [sendPass, emit, liftF, runSend, sendLoop_again]
theorem sendPass_phase (c : Cfg) (s : St) : (sendPass c s).phase = s.phase := by
  simp [sendPass, emit, liftF]
theorem sendPass_trace (c : Cfg) (s : St) : Benign s.trace (sendPass c s).trace := by
  simp only [sendPass, emit, liftF]
  exact Benign.one _ _ rfl rfl

/-! [proxy8] the event `reset during UpFilter` only raises `upstreamReset` -/
@[simp] theorem upfEvent_trace (c : Cfg) (s : St) : (upfEvent c s).trace = s.trace := by unfold upfEvent; split <;> rfl
@[simp] theorem upfEvent_toFState (c : Cfg) (s : St) : (upfEvent c s).toFState = s.toFState := by unfold upfEvent; split <;> rfl
@[simp] theorem upfEvent_phase (c : Cfg) (s : St) : (upfEvent c s).phase = s.phase := by unfold upfEvent; split <;> rfl
@[simp] theorem upfEvent_inner (c : Cfg) (s : St) : (upfEvent c s).inner = s.inner := by unfold upfEvent; split <;> rfl
@[simp] theorem upfEvent_outer (c : Cfg) (s : St) : (upfEvent c s).outer = s.outer := by unfold upfEvent; split <;> rfl
@[simp] theorem upfEvent_halted (c : Cfg) (s : St) : (upfEvent c s).halted = s.halted := by unfold upfEvent; split <;> rfl
@[simp] theorem upfEvent_exhausted (c : Cfg) (s : St) : (upfEvent c s).exhausted = s.exhausted := by unfold upfEvent; split <;> rfl
@[simp] theorem upfEvent_blocked (c : Cfg) (s : St) : (upfEvent c s).blocked = s.blocked := by unfold upfEvent; split <;> rfl
@[simp] theorem upfEvent_procDone (c : Cfg) (s : St) : (upfEvent c s).procDone = s.procDone := by unfold upfEvent; split <;> rfl
@[simp] theorem upfEvent_upReq (c : Cfg) (s : St) : (upfEvent c s).upReq = s.upReq := by unfold upfEvent; split <;> rfl
@[simp] theorem upfEvent_rs (c : Cfg) (s : St) : (upfEvent c s).rs = s.rs := by unfold upfEvent; split <;> rfl
@[simp] theorem upfEvent_retried (c : Cfg) (s : St) : (upfEvent c s).retried = s.retried := by unfold upfEvent; split <;> rfl
@[simp] theorem upfEvent_again (c : Cfg) (s : St) : (upfEvent c s).again = s.again := by unfold upfEvent; split <;> rfl

theorem sendPassE_again (c : Cfg) (s : St) : (sendPassE c s).again = s.again := by
  simp [sendPassE, sendPass_again]
theorem sendPassE_phase (c : Cfg) (s : St) : (sendPassE c s).phase = s.phase := by
  simp [sendPassE, sendPass_phase]
theorem sendPassE_trace (c : Cfg) (s : St) : Benign s.trace (sendPassE c s).trace := by
  simp only [sendPassE, upfEvent_trace]; exact sendPass_trace c s

theorem respHeaders_again (s : St) (r : Resp) : (respHeaders s r).again = s.again := by
  unfold respHeaders; split <;> (try split) <;> rfl
theorem respHeaders_phase (s : St) (r : Resp) : (respHeaders s r).phase = s.phase := by
  unfold respHeaders; split <;> (try split) <;> rfl
theorem respHeaders_trace (s : St) (r : Resp) : Benign s.trace (respHeaders s r).trace := by
  unfold respHeaders; split
  · exact Benign.refl _
  · split <;> exact Benign.one _ _ rfl rfl

theorem respData_again (s : St) (r : Resp) : (respData s r).again = s.again := by
  unfold respData; split <;> (try split) <;> rfl
theorem respData_phase (s : St) (r : Resp) : (respData s r).phase = s.phase := by
  unfold respData; split <;> (try split) <;> rfl
theorem respData_trace (s : St) (r : Resp) : Benign s.trace (respData s r).trace := by
  unfold respData; split
  · exact Benign.refl _
  · split <;> exact Benign.one _ _ rfl rfl

theorem respTrailers_again (s : St) : (respTrailers s).again = s.again := by
  unfold respTrailers; split <;> rfl
theorem respTrailers_phase (s : St) : (respTrailers s).phase = s.phase := by
  unfold respTrailers; split <;> rfl
theorem respTrailers_trace (s : St) : Benign s.trace (respTrailers s).trace := by
  unfold respTrailers; split
  · exact Benign.refl _
  · exact Benign.one _ _ rfl rfl

theorem deliver_again (c : Cfg) (s : St) : (deliver c s).again = s.again := by
  unfold deliver; split <;> (try split) <;> rfl
theorem deliver_phase (c : Cfg) (s : St) : (deliver c s).phase = s.phase := by
  unfold deliver; split <;> (try split) <;> rfl
theorem deliver_trace (c : Cfg) (s : St) : (deliver c s).trace = s.trace := by
  unfold deliver; split <;> (try split) <;> rfl

theorem sendPass_rs (c : Cfg) (s : St) : (sendPass c s).rs = s.rs ∧ (sendPass c s).retried = s.retried := by
  simp [sendPass, emit, liftF]
theorem sendPassE_rs (c : Cfg) (s : St) : (sendPassE c s).rs = s.rs ∧ (sendPassE c s).retried = s.retried := by
  simp [sendPassE, sendPass, emit, liftF]
theorem respHeaders_rs (s : St) (r : Resp) : (respHeaders s r).rs = s.rs ∧ (respHeaders s r).retried = s.retried := by
  unfold respHeaders; split <;> (try split) <;> exact ⟨rfl, rfl⟩
theorem respData_rs (s : St) (r : Resp) : (respData s r).rs = s.rs ∧ (respData s r).retried = s.retried := by
  unfold respData; split <;> (try split) <;> exact ⟨rfl, rfl⟩
theorem respTrailers_rs (s : St) : (respTrailers s).rs = s.rs ∧ (respTrailers s).retried = s.retried := by
  unfold respTrailers; split <;> exact ⟨rfl, rfl⟩
theorem deliver_rs (c : Cfg) (s : St) : (deliver c s).rs = s.rs ∧ (deliver c s).retried = s.retried := by
  unfold deliver; split <;> (try split) <;> exact ⟨rfl, rfl⟩

/-- **outside the receive phases the stream never comes back**: one iteration of `receive` from a phase
≥ DownRecvData appends no filter pass and no `NewStream`, keeps the again-phase cleared, ends in such a phase, creates
no retry state — and without a retry state nothing is retried -/
theorem phaseCase_back (c : Cfg) (s : St) (ha : s.again = InitPhase) (hp : DownRecvData ≤ s.phase) :
    BackOK s (phaseCase c s) := by
  have hp' : DownRecvData ≤ s.phase + 1 := Nat.le_succ_of_le hp
  have hp7 : 7 ≤ s.phase := hp
  have stay : BackOK s { s with phase := s.phase + 1 } :=
    ⟨Benign.refl _, fun _ => ha, Or.inl (by show 7 ≤ s.phase + 1; omega), fun h => ⟨h, rfl⟩⟩
  have halt : ∀ e, isUp e = false → isRpass e = false → BackOK s { emit s e with halted := true } :=
    fun e h1 h2 => ⟨Benign.one _ _ h1 h2, by simp, Or.inr rfl, fun h => ⟨h, rfl⟩⟩
  rcases phase_cases s.phase with h | h | h | h | h | h | h | h | h | h | h | h | h | h | h | h | h | h
  any_goals omega
  · rw [pc7 c s h]; split
    · exact back_via c s s rfl rfl (Benign.refl _) ha hp' rfl rfl
    · exact stay
  · rw [pc8 c s h]; split
    · exact back_via c s s rfl rfl (Benign.refl _) ha hp' rfl rfl
    · exact stay
  · rw [pc9 c s h]; split
    · exact back_via c s _ (clean_again s) (clean_phase s) (by rw [clean_trace]; exact Benign.refl _) ha hp' rfl rfl
    · exact ⟨Benign.refl _, fun _ => ha, Or.inl (by show (7 : Nat) ≤ 11; decide), fun h => ⟨h, rfl⟩⟩
  · rw [pc10 c s h]; exact halt _ rfl rfl
  · rw [pc11 c s h]; split
    · rename_i hh
      exact ⟨by rw [deliver_trace]; exact Benign.refl _, by simp [hh], Or.inr hh,
        fun h => ⟨by rw [(deliver_rs c s).1]; exact h, (deliver_rs c s).2⟩⟩
    · exact back_via c s _ (deliver_again c s) (deliver_phase c s) (by rw [deliver_trace]; exact Benign.refl _) ha hp'
        (deliver_rs c s).1 (deliver_rs c s).2
  · rw [pc12 c s h]
    exact back_via c s _ (sendPassE_again c s) (sendPassE_phase c s) (sendPassE_trace c s) ha hp' (sendPassE_rs c s).1 (sendPassE_rs c s).2
  · rw [pc13 c s h]; split
    · split
      · rename_i hq
        simp only [Bool.and_eq_true] at hq
        exact back_retry c s ha hp' hq.2
      · exact back_via c s _ (respHeaders_again s _) (respHeaders_phase s _) (respHeaders_trace s _) ha hp'
          (respHeaders_rs s _).1 (respHeaders_rs s _).2
    · exact stay
  · rw [pc14 c s h]; split
    · split
      · exact back_via c s _ (respData_again s _) (respData_phase s _) (respData_trace s _) ha hp'
          (respData_rs s _).1 (respData_rs s _).2
      · exact stay
    · exact stay
  · rw [pc15 c s h]; split
    · split
      · exact back_via c s _ (respTrailers_again s) (respTrailers_phase s) (respTrailers_trace s) ha hp'
          (respTrailers_rs s).1 (respTrailers_rs s).2
      · exact stay
    · exact stay
  · rw [pc16 c s h]
    exact ⟨by simp; exact Benign.refl _, by simp [ret_End_halted], Or.inr (ret_End_halted s),
      fun hh => ⟨by simpa using hh, ret_retried s End (by decide)⟩⟩
  · rw [pc17 c s h]; exact halt _ rfl rfl

theorem DenyIn_snoc (t : List Ev) (e : Ev) : DenyIn (t ++ [e]) ↔ DenyIn t ∨ denyEv e = true := by
  unfold DenyIn
  constructor
  · rintro ⟨x, hx, hd⟩
    rcases List.mem_append.mp hx with h | h
    · exact Or.inl ⟨x, h, hd⟩
    · simp at h; subst h; exact Or.inr hd
  · rintro (⟨x, hx, hd⟩ | hd)
    · exact ⟨x, List.mem_append_left _ hx, hd⟩
    · exact ⟨e, by simp, hd⟩

theorem NoUp_snoc (t : List Ev) (e : Ev) : NoUp (t ++ [e]) ↔ NoUp t ∧ isUp e = false := by
  unfold NoUp
  constructor
  · intro h
    exact ⟨fun x hx => h x (List.mem_append_left _ hx), h e (by simp)⟩
  · rintro ⟨h1, h2⟩ x hx
    rcases List.mem_append.mp hx with h | h
    · exact h1 x h
    · simp at h; subst h; exact h2

/-- what a deny in the trace excludes: a `NewStream`, a retry, and (while the worker runs) a retry state -/
def R2 (s : St) : Prop := DenyIn s.trace → NoUp s.trace ∧ s.retried = false ∧ (s.halted = false → s.rs = none)

theorem Benign.deny {t t' : List Ev} (hb : Benign t t') (h : DenyIn t') : DenyIn t := by
  obtain ⟨evs, rfl, pe⟩ := hb
  obtain ⟨e, he, hd⟩ := h
  rcases List.mem_append.mp he with h' | h'
  · exact ⟨e, h', hd⟩
  · have := (pe e h').2; rw [denyEv_rpass hd] at this; cases this

/-- region 2 of the invariant is closed under a `BackOK` step -/
theorem Jinv_of_back {s r : St} (hnh : s.halted = false) (hs : R2 s) (hb : BackOK s r) : Jinv r := by
  refine ⟨hb.2.1, Or.inr ⟨hb.2.2.1, fun hd => ?_⟩⟩
  have hds := hb.1.deny hd
  obtain ⟨h1, h2, h3⟩ := hs hds
  obtain ⟨h4, h5⟩ := hb.2.2.2 (h3 hnh)
  exact ⟨hb.1.keeps (fun _ => h1) hd, by rw [h5]; exact h2, fun _ => h4⟩

/-- a state that left the receive phases through `ret` with a trace in which nothing was denied or nothing forwarded -/
theorem Jinv_ret {s : St} {p : Nat} (ha : s.again = InitPhase) (hp : DownRecvData ≤ p) (hpr : p ≠ Retry)
    (ht : DenyIn s.trace → NoUp s.trace ∧ s.retried = false ∧ s.rs = none) : Jinv (ret s p) :=
  ⟨fun _ => by simpa using ha, Or.inr ⟨Or.inl (by simpa using hp), fun hd => by
    rw [ret_trace] at hd
    obtain ⟨h1, h2, h3⟩ := ht hd
    exact ⟨by rw [ret_trace]; exact h1, by rw [ret_retried s p hpr]; exact h2, fun _ => by rw [ret_rs]; exact h3⟩⟩⟩

theorem Quiet_rinv {s : St} (q : Quiet s) : Rinv s.toFState := by
  intro h; rcases h with h | h
  · rw [q.resp] at h; cases h
  · rw [q.upResp] at h; cases h

theorem filterPass_trace (c : Cfg) (p : RPhase) (s : St) :
    (filterPass c p s).trace = s.trace ++ [.rpass p (startOf s.toFState p) (runRecv c.recv p s.toFState).2] := by
  simp [filterPass, emit, liftF]
theorem filterPass_toFState (c : Cfg) (p : RPhase) (s : St) :
    (filterPass c p s).toFState = (runRecv c.recv p s.toFState).1 := by
  simp [filterPass, emit, liftF]
theorem filterPass_phase (c : Cfg) (p : RPhase) (s : St) : (filterPass c p s).phase = s.phase := by
  simp [filterPass, emit, liftF]
theorem filterPass_upstreamReset (c : Cfg) (p : RPhase) (s : St) : (filterPass c p s).upstreamReset = s.upstreamReset := by
  simp [filterPass, emit, liftF]
theorem filterPass_procDone (c : Cfg) (p : RPhase) (s : St) : (filterPass c p s).procDone = s.procDone := by
  simp [filterPass, emit, liftF]
theorem filterPass_halted (c : Cfg) (p : RPhase) (s : St) : (filterPass c p s).halted = s.halted := by
  simp [filterPass, emit, liftF]
theorem filterPass_retried (c : Cfg) (p : RPhase) (s : St) : (filterPass c p s).retried = s.retried := by
  simp [filterPass, emit, liftF]

/-- the receiver-filter `case`s: a pass with a deny leaves the receive phases for good (processError consumes the
pending reply and — the repaired line — clears the again-phase); a pass without one leaves everything quiet -/
theorem filterCase_Jinv (c : Cfg) (p : RPhase) (s : St) (hph : s.phase ≤ DownFilterAfterChooseHost)
    (hnh : s.halted = false) (hnd : ¬ DenyIn s.trace) (hnu : NoUp s.trace) (q : Quiet s) (hrt : s.retried = false) :
    Jinv (afterPE c (filterPass c p s)) := by
  have hph5 : s.phase ≤ 5 := hph
  have hrt' : (filterPass c p s).retried = false := by rw [filterPass_retried]; exact hrt
  -- the trace after the pass still has no NewStream
  have hnu' : NoUp (filterPass c p s).trace := by
    rw [filterPass_trace, NoUp_snoc]; exact ⟨hnu, rfl⟩
  by_cases hd : ∃ iv ∈ (runRecv c.recv p s.toFState).2, iv.2.isDeny = true
  · -- a deny: pending reply or cleaned stream
    have hpend : Pending (filterPass c p s).toFState := by
      rw [filterPass_toFState]; exact recvLoop_deny _ _ _ _ (Quiet_rinv q) hd
    by_cases hc : (filterPass c p s).cleaned = true
    · rw [afterPE_cleaned _ _ hc]
      exact ⟨by simp [ret_End_halted], Or.inr ⟨Or.inr (ret_End_halted _), fun _ =>
        ⟨by simpa using hnu', by rw [ret_retried _ End (by decide)]; exact hrt', fun hh => by simp [ret_End_halted] at hh⟩⟩⟩
    · have hc : (filterPass c p s).cleaned = false := by simpa using hc
      have hdir : (filterPass c p s).direct = true := by
        rcases hpend with h | h
        · exact h
        · rw [hc] at h; cases h
      have hr : (filterPass c p s).upstreamReset = false := by rw [filterPass_upstreamReset]; exact q.upstreamReset
      rw [afterPE_direct _ _ hc hr hdir]
      have hne : (filterPass c p s).phase ≠ UpFilter := by
        rw [filterPass_phase]; show s.phase ≠ 12; omega
      have ht : DenyIn (consumeDirect (filterPass c p s)).trace → NoUp (consumeDirect (filterPass c p s)).trace ∧
          (consumeDirect (filterPass c p s)).retried = false ∧ (consumeDirect (filterPass c p s)).rs = none :=
        fun _ => ⟨hnu', hrt', rfl⟩
      split
      · exact Jinv_ret rfl (by decide) (by decide) ht
      · exact Jinv_ret rfl (by decide) (by decide) ht
  · -- no deny: the reply-related state is untouched
    have hd' : ∀ iv ∈ (runRecv c.recv p s.toFState).2, iv.2.isDeny = false := by
      intro iv hiv
      cases h : iv.2.isDeny
      · rfl
      · exact absurd ⟨iv, hiv, h⟩ hd
    have hcore : core (filterPass c p s).toFState = core s.toFState := by
      rw [filterPass_toFState]; exact recvLoop_nodeny _ _ _ _ hd'
    simp only [core, Prod.mk.injEq] at hcore
    obtain ⟨h1, h2, h3, _, h5⟩ := hcore
    have hc : (filterPass c p s).cleaned = false := by rw [h2]; exact q.cleaned
    have hdir : (filterPass c p s).direct = false := by rw [h1]; exact q.direct
    have hr : (filterPass c p s).upstreamReset = false := by rw [filterPass_upstreamReset]; exact q.upstreamReset
    have hpd : (filterPass c p s).procDone = false := by rw [filterPass_procDone]; exact q.procDone
    have hnd' : ¬ DenyIn (filterPass c p s).trace := by
      rw [filterPass_trace, DenyIn_snoc]
      rintro (h | h)
      · exact hnd h
      · simp only [denyEv, List.any_eq_true] at h
        obtain ⟨iv, hiv, hx⟩ := h
        rw [hd' iv hiv] at hx; cases hx
    have q' : Quiet (filterPass c p s) := ⟨by rw [h3]; exact q.resp, by rw [h5]; exact q.upResp, hdir, hc, hr, hpd⟩
    rw [afterPE_plain _ _ hc hr hdir]
    split
    · -- an honoured re-run request: back to MatchRoute / ChooseHost (or wherever the again-phase points)
      generalize hg : ({ (filterPass c p s) with again := InitPhase } : St) = g
      have qg : Quiet g := by subst hg; exact ⟨q'.resp, q'.upResp, q'.direct, q'.cleaned, q'.upstreamReset, q'.procDone⟩
      have tg : g.trace = (filterPass c p s).trace := by subst hg; rfl
      have ag : g.again = InitPhase := by subst hg; rfl
      refine ⟨fun _ => by simpa using ag, ?_⟩
      by_cases hh : (ret g (filterPass c p s).again).halted = true
      · exact Or.inr ⟨Or.inr hh, fun hdn => by rw [ret_trace, tg] at hdn; exact absurd hdn hnd'⟩
      · have hh : (ret g (filterPass c p s).again).halted = false := by simpa using hh
        by_cases ha6 : (filterPass c p s).again ≤ DownRecvHeader
        · refine Or.inl ⟨by simpa using ha6, hh, by rw [ret_trace, tg]; exact hnd', by rw [ret_trace, tg]; exact hnu', ?_, ?_⟩
          · exact ⟨by simpa using qg.resp, by simpa using qg.upResp, by simpa using qg.direct, by simpa using qg.cleaned,
              by simpa using qg.upstreamReset, by simpa using qg.procDone⟩
          · have hne : (filterPass c p s).again ≠ Retry := by
              intro he; rw [he] at ha6; exact absurd ha6 (by decide)
            rw [ret_retried _ _ hne]; subst hg; exact hrt'
        · refine Or.inr ⟨Or.inl ?_, fun hdn => by rw [ret_trace, tg] at hdn; exact absurd hdn hnd'⟩
          have : ¬ (filterPass c p s).again ≤ 6 := ha6
          show 7 ≤ (ret g (filterPass c p s).again).phase
          rw [ret_phase]; omega
    · rename_i hag
      have hag : (filterPass c p s).again = InitPhase := by simpa using hag
      rw [if_neg (by rw [hpd]; simp)]
      refine ⟨fun _ => hag, Or.inl ⟨?_, ?_, hnd', hnu', ?_, hrt'⟩⟩
      · show (filterPass c p s).phase + 1 ≤ 6; rw [filterPass_phase]; omega
      · show (filterPass c p s).halted = false; rw [filterPass_halted]; exact hnh
      · exact ⟨q'.resp, q'.upResp, q'.direct, q'.cleaned, q'.upstreamReset, q'.procDone⟩

/-- a reply produced by the proxy itself in the receive phases (no route, direct-response rule, no healthy host) -/
theorem direct_front_Jinv (c : Cfg) (g : St) (hc : g.cleaned = false) (hr : g.upstreamReset = false)
    (hd : g.direct = true) (hp : g.phase ≤ DownRecvHeader) (ht : ¬ DenyIn g.trace) : Jinv (afterPE c g) := by
  rw [afterPE_direct _ _ hc hr hd]
  have hp6 : g.phase ≤ 6 := hp
  have ht' : DenyIn (consumeDirect g).trace → NoUp (consumeDirect g).trace ∧ (consumeDirect g).retried = false ∧
      (consumeDirect g).rs = none := fun h => absurd h ht
  split
  · exact Jinv_ret rfl (by decide) (by decide) ht'
  · split
    · exact Jinv_ret rfl (by decide) (by decide) ht'
    · rename_i h; have : g.phase = 12 := by simpa using h
      omega

theorem plain_front_Jinv (c : Cfg) (g : St) (q : Quiet g) (ha : g.again = InitPhase) (hnh : g.halted = false)
    (hp : g.phase + 1 ≤ DownRecvHeader) (hnd : ¬ DenyIn g.trace) (hnu : NoUp g.trace) (hrt : g.retried = false) :
    Jinv (afterPE c g) := by
  rw [afterPE_plain _ _ q.cleaned q.upstreamReset q.direct]
  rw [if_neg (by simp [ha]), if_neg (by rw [q.procDone]; simp)]
  exact ⟨fun _ => ha, Or.inl ⟨hp, hnh, hnd, hnu, ⟨q.resp, q.upResp, q.direct, q.cleaned, q.upstreamReset, q.procDone⟩, hrt⟩⟩

theorem phaseCase_front (c : Cfg) (s : St) (hph : s.phase ≤ DownRecvHeader) (hnh : s.halted = false)
    (hnd : ¬ DenyIn s.trace) (hnu : NoUp s.trace) (q : Quiet s) (ha : s.again = InitPhase) (hrt : s.retried = false) :
    Jinv (phaseCase c s) := by
  have hph6 : s.phase ≤ 6 := hph
  rcases phase_cases s.phase with h | h | h | h | h | h | h | h | h | h | h | h | h | h | h | h | h | h
  any_goals omega
  · rw [pc0 c s h]
    exact ⟨fun _ => ha, Or.inl ⟨by show s.phase + 1 ≤ 6; omega, hnh, hnd, hnu,
      ⟨q.resp, q.upResp, q.direct, q.cleaned, q.upstreamReset, q.procDone⟩, hrt⟩⟩
  · rw [pc1 c s h]; exact filterCase_Jinv c _ s (by show s.phase ≤ 5; omega) hnh hnd hnu q hrt
  · rw [pc2 c s h]
    exact plain_front_Jinv c _ ⟨q.resp, q.upResp, q.direct, q.cleaned, q.upstreamReset, q.procDone⟩ ha hnh
      (by show s.phase + 1 ≤ 6; omega) hnd hnu hrt
  · rw [pc3 c s h]; exact filterCase_Jinv c _ s (by show s.phase ≤ 5; omega) hnh hnd hnu q hrt
  · rw [pc4 c s h]
    unfold chooseHost
    simp only []
    split
    · exact direct_front_Jinv c _ (by simp [liftF, sendHijack, q.cleaned]) (by simp [liftF, q.upstreamReset])
        (by simp [liftF, sendHijack]) (by simp [liftF]; omega) (by simpa [liftF] using hnd)
    · exact direct_front_Jinv c _ (by simp [liftF, sendHijack, q.cleaned]) (by simp [liftF, q.upstreamReset])
        (by simp [liftF, sendHijack]) (by simp [liftF]; omega) (by simpa [liftF] using hnd)
    · split
      · exact plain_front_Jinv c _ ⟨q.resp, q.upResp, q.direct, q.cleaned, q.upstreamReset, q.procDone⟩ ha hnh
          (by show s.phase + 1 ≤ 6; omega) hnd hnu hrt
      · exact direct_front_Jinv c _ (by simp [liftF, sendHijack, q.cleaned]) (by simp [liftF, q.upstreamReset])
          (by simp [liftF, sendHijack]) (by simp [liftF]; omega) (by simpa [liftF] using hnd)
  · rw [pc5 c s h]; exact filterCase_Jinv c _ s (by show s.phase ≤ 5; omega) hnh hnd hnu q hrt
  · rw [pc6 c s h]
    split
    · -- the request is sent upstream: nothing was denied so far
      unfold sendUpstream
      rw [if_neg (by simp [q.procDone, q.upstreamReset])]
      have hb : ∀ g : St, g.again = InitPhase → g.phase = s.phase → (∃ r, g.trace = s.trace ++ [.up r]) →
          Jinv (afterPE c g) := by
        intro g hga hgp ⟨r, hgt⟩
        obtain ⟨h1, h2, h3, _⟩ := afterPE_back c g hga (by rw [hgp]; show 7 ≤ s.phase + 1; omega)
        refine ⟨h2, Or.inr ⟨h3, ?_⟩⟩
        rw [h1, hgt, DenyIn_snoc]
        rintro (hd | hd)
        · exact absurd hd hnd
        · cases hd
      split
      · exact hb _ ha rfl ⟨true, rfl⟩
      · exact hb _ ha rfl ⟨false, rfl⟩
    · refine ⟨by simp, Or.inr ⟨Or.inr rfl, ?_⟩⟩
      simp only [emit]
      rw [DenyIn_snoc]
      rintro (hd | hd)
      · exact absurd hd hnd
      · cases hd

theorem step_Jinv (c : Cfg) (s : St) (h : Jinv s) : Jinv (step c s) := by
  unfold step
  split
  · exact h
  · rename_i hnh
    have hnh : s.halted = false := by simpa using hnh
    split
    · -- [proxy8] the task loop's budget is used up: what follows the loop
      have hR2 : DenyIn s.trace → NoUp s.trace ∧ s.retried = false := by
        rcases h.region with ⟨_, _, hnd, _⟩ | ⟨_, ht⟩
        · exact fun hd => absurd hd hnd
        · exact fun hd => ⟨(ht hd).1, (ht hd).2.1⟩
      rcases finishStart_cases c s with ⟨_, e⟩ | ⟨_, e⟩ | ⟨_, e⟩ | ⟨hcl, _, e⟩ <;> rw [e]
      · exact ⟨(fun hh => by cases hh), Or.inr ⟨Or.inr rfl, fun hd => ⟨(hR2 hd).1, (hR2 hd).2, (fun hh => by cases hh)⟩⟩⟩
      · exact ⟨(fun hh => by cases hh), Or.inr ⟨Or.inr rfl, fun hd => ⟨(hR2 hd).1, (hR2 hd).2, (fun hh => by cases hh)⟩⟩⟩
      · rcases h.region with ⟨hp, hh, hnd, hnu, q, hrt⟩ | hr
        · exact ⟨h.again, Or.inl ⟨hp, hh, hnd, hnu, ⟨q.resp, q.upResp, q.direct, q.cleaned, q.upstreamReset, q.procDone⟩, hrt⟩⟩
        · exact ⟨h.again, Or.inr hr⟩
      · rcases h.region with ⟨hp, _, hnd, _, q, _⟩ | ⟨hp, ht⟩
        · exact direct_front_Jinv c (finHijack s) (by simpa [finHijack, liftF, sendHijack] using hcl)
            (by simpa [finHijack, liftF] using q.upstreamReset) (by simp [finHijack, liftF, sendHijack])
            (by simpa [finHijack, liftF] using hp) (by simpa [finHijack, liftF] using hnd)
        · rcases hp with hp | hp
          · have hp7 : 7 ≤ s.phase := hp
            exact Jinv_of_back hnh ht (back_via c s (finHijack s) rfl rfl (Benign.refl _) (h.again hnh)
              (by show 7 ≤ s.phase + 1; omega) rfl rfl)
          · rw [hnh] at hp; cases hp
    split
    · -- "unexpected phase cycle time": the task returns
      refine ⟨by simp [ret_End_halted], Or.inr ⟨Or.inr (ret_End_halted s), ?_⟩⟩
      rw [ret_trace]
      rcases h.region with ⟨_, _, hnd, _⟩ | ⟨_, ht⟩
      · exact fun hd => absurd hd hnd
      · intro hd
        obtain ⟨a1, a2, _⟩ := ht hd
        exact ⟨a1, by rw [ret_retried s End (by decide)]; exact a2, fun hh => by simp [ret_End_halted] at hh⟩
    · generalize hs1 : ({ s with inner := s.inner + 1 } : St) = s1
      have e1 : s1.trace = s.trace := by subst hs1; rfl
      have e2 : s1.phase = s.phase := by subst hs1; rfl
      have e3 : s1.halted = s.halted := by subst hs1; rfl
      have e4 : s1.toFState = s.toFState := by subst hs1; rfl
      have e5 : s1.upstreamReset = s.upstreamReset := by subst hs1; rfl
      have e6 : s1.procDone = s.procDone := by subst hs1; rfl
      have ha : s1.again = InitPhase := by
        have := h.again hnh
        have e : s1.again = s.again := by subst hs1; rfl
        rw [e]; exact this
      have e7 : s1.retried = s.retried := by subst hs1; rfl
      have e8 : s1.rs = s.rs := by subst hs1; rfl
      rcases h.region with ⟨hp, _, hnd, hnu, q, hrt⟩ | ⟨hp, ht⟩
      · exact phaseCase_front c s1 (by rw [e2]; exact hp) (by rw [e3]; exact hnh) (by rw [e1]; exact hnd)
          (by rw [e1]; exact hnu)
          ⟨by show s1.toFState.resp = none; rw [e4]; exact q.resp,
           by show s1.toFState.upRespReceived = false; rw [e4]; exact q.upResp,
           by show s1.toFState.direct = false; rw [e4]; exact q.direct,
           by show s1.toFState.cleaned = false; rw [e4]; exact q.cleaned,
           by rw [e5]; exact q.upstreamReset, by rw [e6]; exact q.procDone⟩ ha (by rw [e7]; exact hrt)
      · rcases hp with hp | hp
        · have hb := phaseCase_back c s1 ha (by rw [e2]; exact hp)
          exact Jinv_of_back (by rw [e3]; exact hnh) (by unfold R2; rw [e1, e7, e3, e8]; exact ht) hb
        · rw [hnh] at hp; cases hp

theorem init_Jinv : Jinv init := by
  refine ⟨fun _ => rfl, Or.inl ⟨?_, rfl, ?_, ?_, ⟨rfl, rfl, rfl, rfl, rfl, rfl⟩, rfl⟩⟩
  · show (0 : Nat) ≤ 6; omega
  · rintro ⟨_, he, _⟩; cases he
  · intro _ he; cases he

theorem run_Jinv (c : Cfg) (n : Nat) (s : St) (h : Jinv s) : Jinv (run c n s) := by
  induction n generalizing s with
  | zero => exact h
  | succ n ih => exact ih _ (step_Jinv c s h)

/-- after any number of steps: a denying verdict in the trace excludes every `NewStream` — and a retry (which would
be another `NewStream`), whatever the route's retry policy and whatever the upstream does -/
theorem deny_noUp_noRetry (c : Cfg) (n : Nat) :
    DenyIn (run c n init).trace → NoUp (run c n init).trace ∧ (run c n init).retried = false := by
  have h := run_Jinv c n init init_Jinv
  rcases h.region with ⟨_, _, hnd, _⟩ | ⟨_, ht⟩
  · exact fun hd => absurd hd hnd
  · exact fun hd => ⟨(ht hd).1, (ht hd).2.1⟩

theorem deny_noUp (c : Cfg) (n : Nat) : DenyIn (run c n init).trace → NoUp (run c n init).trace :=
  fun hd => (deny_noUp_noRetry c n hd).1

/-! ### shape of a step: the only source of receiver passes is a filter `case`, run from the current cursor -/

theorem ret_blocked (x : St) (p : Nat) : (ret x p).blocked = x.blocked := by
  unfold ret; split <;> (try split) <;> (try split) <;> rfl

/-- the fields `processError` (and the task loop's bookkeeping after it) never touch -/
def Frame (g r : St) : Prop :=
  r.trace = g.trace ∧ r.cursor = g.cursor ∧ r.rcalls = g.rcalls ∧ r.cphase = g.cphase ∧ r.scursor = g.scursor ∧
  r.scalls = g.scalls ∧ r.blocked = g.blocked

theorem Frame.ret {g x : St} (p : Nat) (h : Frame g x) : Frame g (ret x p) := by
  unfold Frame at h ⊢
  have e1 : (MosnVerif.Model.FilterMachine.ret x p).toFState = x.toFState := ret_toFState x p
  refine ⟨by rw [ret_trace]; exact h.1, ?_, ?_, ?_, ?_, ?_, by rw [ret_blocked]; exact h.2.2.2.2.2.2⟩
  · show (MosnVerif.Model.FilterMachine.ret x p).toFState.cursor = _; rw [e1]; exact h.2.1
  · show (MosnVerif.Model.FilterMachine.ret x p).toFState.rcalls = _; rw [e1]; exact h.2.2.1
  · show (MosnVerif.Model.FilterMachine.ret x p).toFState.cphase = _; rw [e1]; exact h.2.2.2.1
  · show (MosnVerif.Model.FilterMachine.ret x p).toFState.scursor = _; rw [e1]; exact h.2.2.2.2.1
  · show (MosnVerif.Model.FilterMachine.ret x p).toFState.scalls = _; rw [e1]; exact h.2.2.2.2.2.1

theorem Frame.refl (g : St) : Frame g g := ⟨rfl, rfl, rfl, rfl, rfl, rfl, rfl⟩

theorem frame_consume (g : St) : Frame g (consumeDirect g) := ⟨rfl, rfl, rfl, rfl, rfl, rfl, rfl⟩
theorem frame_setRetry (g : St) : Frame g (setRetry g) := ⟨rfl, rfl, rfl, rfl, rfl, rfl, rfl⟩
theorem frame_consume_setRetry (g : St) : Frame g (consumeDirect (setRetry g)) := ⟨rfl, rfl, rfl, rfl, rfl, rfl, rfl⟩
theorem frame_consume_reset (g : St) (code : Nat) : Frame g (consumeDirect (onUpstreamReset code g)) :=
  ⟨rfl, rfl, rfl, rfl, rfl, rfl, rfl⟩

theorem afterPE_frame (c : Cfg) (g : St) : Frame g (afterPE c g) := by
  by_cases hc : g.cleaned = true
  · rw [afterPE_cleaned c g hc]; exact (Frame.refl g).ret _
  · have hc : g.cleaned = false := by simpa using hc
    by_cases hr : g.upstreamReset = true
    · rw [afterPE_reset c g hc hr]
      split
      · exact (Frame.refl g).ret _
      · split
        · split
          · split
            · exact (frame_consume_setRetry g).ret _
            · exact ⟨rfl, rfl, rfl, rfl, rfl, rfl, rfl⟩
          · exact (frame_setRetry g).ret _
        · split
          · exact (frame_consume_reset g _).ret _
          · exact ⟨rfl, rfl, rfl, rfl, rfl, rfl, rfl⟩
    · have hr : g.upstreamReset = false := by simpa using hr
      by_cases hd : g.direct = true
      · rw [afterPE_direct c g hc hr hd]
        split
        · exact (frame_consume g).ret _
        · split
          · exact (frame_consume g).ret _
          · exact ⟨rfl, rfl, rfl, rfl, rfl, rfl, rfl⟩
      · have hd : g.direct = false := by simpa using hd
        rw [afterPE_plain c g hc hr hd]
        split
        · exact Frame.ret _ ⟨rfl, rfl, rfl, rfl, rfl, rfl, rfl⟩
        · split
          · exact (Frame.refl g).ret _
          · exact ⟨rfl, rfl, rfl, rfl, rfl, rfl, rfl⟩

/-- the retry branch of `UpRecvHeader` -/
theorem afterPEd_true_frame (c : Cfg) (g : St) : Frame g (afterPEd c true (setRetry g)) := by
  rw [afterPEd_true c (setRetry g) (by simp [setRetry, liftF])]
  split
  · exact (frame_setRetry g).ret _
  · split
    · split
      · exact (frame_consume_setRetry g).ret _
      · split
        · exact (frame_consume_setRetry g).ret _
        · exact ⟨rfl, rfl, rfl, rfl, rfl, rfl, rfl⟩
    · exact (frame_setRetry g).ret _

theorem afterPE_trace_cursor (c : Cfg) (g : St) :
    (afterPE c g).trace = g.trace ∧ (afterPE c g).cursor = g.cursor ∧ (afterPE c g).rcalls = g.rcalls ∧
      (afterPE c g).cphase = g.cphase := by
  obtain ⟨h1, h2, h3, h4, _⟩ := afterPE_frame c g
  exact ⟨h1, h2, h3, h4⟩

/-- the step appended no receiver pass and did not move the cursor -/
def NoPass (s r : St) : Prop :=
  (∃ evs, r.trace = s.trace ++ evs ∧ ∀ e ∈ evs, isRpass e = false) ∧ r.cursor = s.cursor ∧ r.rcalls = s.rcalls ∧
    r.cphase = s.cphase

/-- the step ran the receiver filters of phase `p` from the current cursor -/
def OnePass (c : Cfg) (s r : St) : Prop :=
  ∃ p, recvPhaseOf s.phase = some p ∧
    r.trace = s.trace ++ [.rpass p (startOf s.toFState p) (runRecv c.recv p s.toFState).2] ∧
    r.cursor = (runRecv c.recv p s.toFState).1.cursor ∧ r.rcalls = (runRecv c.recv p s.toFState).1.rcalls ∧
    r.cphase = (runRecv c.recv p s.toFState).1.cphase

theorem NoPass.via (c : Cfg) {s g : St} (h : NoPass s g) : NoPass s (afterPE c g) := by
  obtain ⟨h1, h2, h3, h4⟩ := afterPE_trace_cursor c g
  exact ⟨by rw [h1]; exact h.1, by rw [h2]; exact h.2.1, by rw [h3]; exact h.2.2.1, by rw [h4]; exact h.2.2.2⟩

theorem NoPass.same {s g : St} (ht : g.trace = s.trace) (hf : g.toFState.cursor = s.toFState.cursor)
    (hr : g.toFState.rcalls = s.toFState.rcalls) (hp : g.toFState.cphase = s.toFState.cphase := by rfl) : NoPass s g :=
  ⟨⟨[], by simp [ht], by simp⟩, hf, hr, hp⟩

theorem NoPass.emit1 {s g : St} (e : Ev) (ht : g.trace = s.trace ++ [e]) (he : isRpass e = false)
    (hc : g.toFState.cursor = s.toFState.cursor) (hr : g.toFState.rcalls = s.toFState.rcalls)
    (hp : g.toFState.cphase = s.toFState.cphase := by rfl) : NoPass s g :=
  ⟨⟨[e], ht, by simp [he]⟩, hc, hr, hp⟩

theorem sendLoop_cursor (fs : List SFilter) (idx : Nat) (s : FState) :
    (sendLoop fs idx s).1.cursor = s.cursor ∧ (sendLoop fs idx s).1.rcalls = s.rcalls ∧
      (sendLoop fs idx s).1.cphase = s.cphase := by
  induction fs generalizing idx s with
  | nil => exact ⟨rfl, rfl, rfl⟩
  | cons f rest ih =>
    simp only [sendLoop]
    have : ∀ st : FStatus, (applyHandler (senderHandler st) .BeforeRoute { s with scalls := bump s.scalls idx }).cursor = s.cursor ∧
        (applyHandler (senderHandler st) .BeforeRoute { s with scalls := bump s.scalls idx }).rcalls = s.rcalls ∧
        (applyHandler (senderHandler st) .BeforeRoute { s with scalls := bump s.scalls idx }).cphase = s.cphase := by
      intro st; cases st <;> simp [senderHandler, applyHandler, cleanStream]
    split
    · simp only []; rw [(ih _ _).1, (ih _ _).2.1, (ih _ _).2.2]; exact this _
    · exact this _
    · exact this _

theorem phaseCase_shape (c : Cfg) (s : St) : NoPass s (phaseCase c s) ∨ OnePass c s (phaseCase c s) := by
  have same : NoPass s s := NoPass.same rfl rfl rfl
  have stay : ∀ n, NoPass s { s with phase := n } := fun n => NoPass.same rfl rfl rfl
  have halt : ∀ e, isRpass e = false → NoPass s { emit s e with halted := true } :=
    fun e he => NoPass.emit1 e rfl he rfl rfl
  have pass : ∀ p, recvPhaseOf s.phase = some p → OnePass c s (afterPE c (filterPass c p s)) := by
    intro p hp
    obtain ⟨h1, h2, h3, h4⟩ := afterPE_trace_cursor c (filterPass c p s)
    exact ⟨p, hp, by rw [h1, filterPass_trace], by rw [h2]; simp [filterPass, emit, liftF],
      by rw [h3]; simp [filterPass, emit, liftF], by rw [h4]; simp [filterPass, emit, liftF]⟩
  rcases phase_cases s.phase with h | h | h | h | h | h | h | h | h | h | h | h | h | h | h | h | h | h
  · rw [pc0 c s h]; exact Or.inl (stay _)
  · rw [pc1 c s h]; exact Or.inr (pass _ (by rw [h]; rfl))
  · rw [pc2 c s h]; exact Or.inl (NoPass.via c (NoPass.same rfl rfl rfl))
  · rw [pc3 c s h]; exact Or.inr (pass _ (by rw [h]; rfl))
  · rw [pc4 c s h]
    refine Or.inl (NoPass.via c ?_)
    unfold chooseHost; simp only []
    split
    · exact NoPass.same rfl rfl rfl
    · exact NoPass.same rfl rfl rfl
    · split <;> exact NoPass.same rfl rfl rfl
  · rw [pc5 c s h]; exact Or.inr (pass _ (by rw [h]; rfl))
  · rw [pc6 c s h]; left; split
    · apply NoPass.via
      unfold sendUpstream
      split
      · exact same
      · split
        · exact NoPass.emit1 (.up true) rfl rfl rfl rfl
        · exact NoPass.emit1 (.up false) rfl rfl rfl rfl
    · exact halt _ rfl
  · rw [pc7 c s h]; left; split
    · exact NoPass.via c same
    · exact stay _
  · rw [pc8 c s h]; left; split
    · exact NoPass.via c same
    · exact stay _
  · rw [pc9 c s h]; left; split
    · exact NoPass.via c (NoPass.same rfl rfl rfl)
    · exact stay _
  · rw [pc10 c s h]; exact Or.inl (halt _ rfl)
  · rw [pc11 c s h]; left
    have hd : NoPass s (deliver c s) := by
      unfold deliver; split <;> (try split) <;> exact NoPass.same rfl rfl rfl
    split
    · exact hd
    · exact NoPass.via c hd
  · rw [pc12 c s h]; left
    apply NoPass.via
    refine ⟨⟨[.spass s.scursor (runSend c.send s.toFState).2], by simp [sendPassE, sendPass, emit, liftF], by simp [isRpass]⟩, ?_, ?_, ?_⟩
    · simp [sendPassE, sendPass, emit, liftF, runSend, (sendLoop_cursor _ _ _).1]
    · simp [sendPassE, sendPass, emit, liftF, runSend, (sendLoop_cursor _ _ _).2.1]
    · simp [sendPassE, sendPass, emit, liftF, runSend, (sendLoop_cursor _ _ _).2.2]
  · rw [pc13 c s h]; left; split
    · split
      · obtain ⟨h1, h2, h3, h4, _⟩ := afterPEd_true_frame c s
        exact ⟨⟨[], by simp [h1], by simp⟩, h2, h3, h4⟩
      · apply NoPass.via
        unfold respHeaders; split
        · exact same
        · split
          · exact NoPass.emit1 _ rfl rfl rfl rfl
          · exact NoPass.emit1 _ rfl rfl rfl rfl
    · exact stay _
  · rw [pc14 c s h]; left; split
    · split
      · apply NoPass.via
        unfold respData; split
        · exact same
        · split
          · exact NoPass.emit1 _ rfl rfl rfl rfl
          · exact NoPass.emit1 _ rfl rfl rfl rfl
      · exact stay _
    · exact stay _
  · rw [pc15 c s h]; left; split
    · split
      · apply NoPass.via
        unfold respTrailers; split
        · exact same
        · exact NoPass.emit1 _ rfl rfl rfl rfl
      · exact stay _
    · exact stay _
  · rw [pc16 c s h]; exact Or.inl (NoPass.same (by simp) (by simp [ret_toFState]) (by simp [ret_toFState]))
  · rw [pc17 c s h]; exact Or.inl (halt _ rfl)

theorem step_shape (c : Cfg) (s : St) : NoPass s (step c s) ∨ OnePass c s (step c s) := by
  unfold step
  split
  · exact Or.inl (NoPass.same rfl rfl rfl)
  · split
    · -- [proxy8] what follows the exhausted task loop: no receiver pass
      rcases finishStart_cases c s with ⟨_, e⟩ | ⟨_, e⟩ | ⟨_, e⟩ | ⟨_, _, e⟩ <;> rw [e]
      · exact Or.inl (NoPass.same rfl rfl rfl)
      · exact Or.inl (NoPass.same rfl rfl rfl)
      · exact Or.inl (NoPass.same rfl rfl rfl)
      · exact Or.inl (NoPass.via c (NoPass.same rfl rfl rfl))
    split
    · exact Or.inl (NoPass.same (by simp) (by simp [ret_toFState]) (by simp [ret_toFState]))
    · exact phaseCase_shape c { s with inner := s.inner + 1 }

/-! ### order, once, resume along the run -/

theorem resumeOK_append (cur : Nat) (cph : RPhase) (t evs : List Ev) :
    resumeOK cur cph (t ++ evs) ↔
      resumeOK cur cph t ∧ resumeOK (cursorTrace cur cph t).1 (cursorTrace cur cph t).2 evs := by
  induction t generalizing cur cph with
  | nil => simp [resumeOK, cursorTrace]
  | cons e r ih =>
    cases e <;> simp [resumeOK, cursorTrace, ih, and_assoc]

theorem cursorTrace_append (cur : Nat) (cph : RPhase) (t evs : List Ev) :
    cursorTrace cur cph (t ++ evs) = cursorTrace (cursorTrace cur cph t).1 (cursorTrace cur cph t).2 evs := by
  induction t generalizing cur cph with
  | nil => simp [cursorTrace]
  | cons e r ih => cases e <;> simp [cursorTrace, ih]

theorem resumeOK_noPass (cur : Nat) (cph : RPhase) (evs : List Ev) (h : ∀ e ∈ evs, isRpass e = false) :
    resumeOK cur cph evs ∧ cursorTrace cur cph evs = (cur, cph) := by
  induction evs generalizing cur cph with
  | nil => simp [resumeOK, cursorTrace]
  | cons e r ih =>
    have he := h e (by simp)
    have hr := fun cur cph => ih cur cph (fun x hx => h x (List.mem_cons_of_mem _ hx))
    cases e <;> simp [isRpass] at he <;> simp [resumeOK, cursorTrace, hr]

theorem runRecv_mem (chain : List RFilter) (p : RPhase) (s : FState) :
    ∀ iv ∈ (runRecv chain p s).2, ∃ f, chain[iv.1]? = some f ∧ f.phase = p ∧ iv.2 = f.verdictAt (s.rcalls iv.1) := by
  intro iv hiv
  obtain ⟨f, hf, hle, hp, hv⟩ := recvLoop_mem p (chain.drop (startOf s p)) (startOf s p) s iv hiv
  refine ⟨f, ?_, hp, hv⟩
  rw [List.getElem?_drop] at hf
  have : startOf s p + (iv.1 - startOf s p) = iv.1 := by omega
  rw [this] at hf; exact hf

/-- pass-level facts carried along the run -/
structure Pinv (c : Cfg) (s : St) : Prop where
  passes : ∀ p st invs, Ev.rpass p st invs ∈ s.trace →
    ascFrom st invs ∧ ∀ iv ∈ invs, ∃ f, c.recv[iv.1]? = some f ∧ f.phase = p
  resume : resumeOK 0 .BeforeRoute s.trace
  cursor : s.cursor = (cursorTrace 0 .BeforeRoute s.trace).1
  cphase : s.cursor ≠ 0 → s.cphase = (cursorTrace 0 .BeforeRoute s.trace).2

theorem step_Pinv (c : Cfg) (s : St) (h : Pinv c s) : Pinv c (step c s) := by
  rcases step_shape c s with ⟨⟨evs, ht, hev⟩, hc, _, hcp⟩ | ⟨p, _, ht, hc, _, hcp⟩
  · obtain ⟨r1, r2⟩ := resumeOK_noPass (cursorTrace 0 .BeforeRoute s.trace).1 (cursorTrace 0 .BeforeRoute s.trace).2 evs hev
    refine ⟨?_, ?_, ?_, ?_⟩
    · intro p st invs hm
      rw [ht] at hm
      rcases List.mem_append.mp hm with hm | hm
      · exact h.passes p st invs hm
      · have := hev _ hm; simp [isRpass] at this
    · rw [ht, resumeOK_append]; exact ⟨h.resume, r1⟩
    · rw [ht, cursorTrace_append, r2, hc]; exact h.cursor
    · rw [ht, cursorTrace_append, r2, hc, hcp]; exact h.cphase
  · refine ⟨?_, ?_, ?_, ?_⟩
    · intro q st invs hm
      rw [ht] at hm
      rcases List.mem_append.mp hm with hm | hm
      · exact h.passes q st invs hm
      · simp at hm
        obtain ⟨rfl, rfl, rfl⟩ := hm
        refine ⟨recvLoop_asc _ _ _ _, ?_⟩
        intro iv hiv
        obtain ⟨f, hf, hp, _⟩ := runRecv_mem c.recv q s.toFState iv hiv
        exact ⟨f, hf, hp⟩
    · rw [ht, resumeOK_append]
      refine ⟨h.resume, ?_⟩
      simp only [resumeOK, and_true]
      rw [startOf_eq]
      have hcur : s.toFState.cursor = (cursorTrace 0 .BeforeRoute s.trace).1 := h.cursor
      by_cases h0 : s.toFState.cursor = 0
      · rw [← hcur, h0]; simp
      · have hph : s.toFState.cphase = (cursorTrace 0 .BeforeRoute s.trace).2 := h.cphase h0
        rw [← hcur, ← hph]
    · rw [ht, cursorTrace_append, hc]
      simp only [cursorTrace]
      exact recvLoop_cursor _ _ _ _
    · intro hne
      rw [ht, cursorTrace_append, hcp]
      simp only [cursorTrace]
      rw [hc] at hne
      exact recvLoop_cphase _ _ _ _ hne

theorem init_Pinv (c : Cfg) : Pinv c init :=
  ⟨fun _ _ _ hm => by simp [init] at hm, trivial, rfl, fun h => absurd rfl h⟩

theorem run_Pinv (c : Cfg) (n : Nat) (s : St) (h : Pinv c s) : Pinv c (run c n s) := by
  induction n generalizing s with
  | zero => exact h
  | succ n ih => exact ih _ (step_Pinv c s h)

end MosnVerif.Model.FilterMachine
