import MosnVerif.Model.UpgTiming
namespace MosnVerif.Model.UpgTiming
open MosnVerif.Gen.UpgTiming

theorem graceful_pos (cfg : Nat) : 0 < graceful cfg := by
  unfold graceful effectiveGraceful defaultGracefulTimeoutMs
  split <;> simp_all <;> omega

theorem transferTimeout_eq_graceful (inherited : Bool) (cfg : Nat) :
    transferTimeoutAfterStart inherited cfg = graceful cfg := by
  have h := graceful_pos cfg
  unfold transferTimeoutAfterStart setOnStart setTransferTimeout
  simp
  omega

end MosnVerif.Model.UpgTiming
