import MosnVerif.Lemmas.Headers
import MosnVerif.Model.RouteFinalize
namespace MosnVerif.Model.RouteFinalize
open MosnVerif.Model.Headers MosnVerif.Gen.HeaderMutation MosnVerif.Gen.RouteFinalize

theorem len0 (x : String) : ((x.length : Int) = 0) ↔ x = "" := by
  rw [Int.natCast_eq_zero, String.length_eq_zero_iff]

theorem lenpos (x : String) : ((x.length : Int) > 0) ↔ x ≠ "" := by
  have h := len0 x
  constructor
  · intro hp he; have := h.mpr he; omega
  · intro hne
    have : ¬ ((x.length : Int) = 0) := fun h0 => hne (h.mp h0)
    omega

/-- what `finalizePathHeader` does, in closed form -/
def pathResult (r : Route) (s : Req) : Req :=
  match s.path with
  | none => s
  | some p =>
    match specRewrite r p with
    | none => s
    | some np => { hdrs := set s.hdrs headerOriginalPath p, path := some np, host := s.host }

theorem pathHeader_eq (r : Route) (s : Req) :
    finalizePathHeader (ops r.levels) r.cfg r.regexReplace r.matched s = pathResult r s := by
  obtain ⟨h, p, ho⟩ := s
  cases p with
  | none =>
    simp [finalizePathHeader, ops, pathResult]
  | some p =>
    by_cases h1 : r.cfg.prefixRewrite = "" <;> by_cases h2 : r.cfg.regex = "" <;> by_cases h3 : p = "" <;>
      by_cases h4 : r.matched.toList.isPrefixOf p.toList = true <;> by_cases h5 : r.regexReplace p = p <;>
      cases h6 : r.cfg.hasPattern <;>
      simp [finalizePathHeader, ops, pathResult, specRewrite, goHasPrefix, goDrop, h1, h2, h3, h4, h5, h6]

theorem lenposN (x : String) : 0 < x.length ↔ x ≠ "" := by
  rw [Nat.pos_iff_ne_zero, ne_eq, String.length_eq_zero_iff]

theorem get_finalize (l : Levels) (h : Hdrs) (k : String) :
    get (finalize [.route, .vhost, .router] l h) k = specValue (specOps l) k (get h k) := by
  rw [finalize_eq_ops, get_foldl_ops]

/-- what `finalizeRequestHeaders` does, in closed form -/
theorem requestHeaders_eq (r : Route) (s : Req) :
    finalizeRequestHeaders (ops r.levels) r.cfg r.env s =
      { hdrs := finalize requestOrder r.levels s.hdrs, path := s.path,
        host := specHost r s } := by
  have ho : requestOrder = [.route, .vhost, .router] := by decide
  obtain ⟨h, p, hst⟩ := s
  have hf : finalize [Level.vhost, Level.router] r.levels (finalize [Level.route] r.levels h) = finalize [.route, .vhost, .router] r.levels h := by
    simp [finalize]
  by_cases h1 : r.cfg.hostRewrite = "" <;> by_cases h2 : r.cfg.autoHostRewriteHeader = "" <;>
    cases h3 : r.cfg.autoHostRewrite <;> cases h4 : r.env.hasSnapshot <;> by_cases h5 : r.env.clusterType = strictDNSCluster <;>
    simp [finalizeRequestHeaders, ops, specHost, ho, hf, lenposN, get_finalize, h1, h2, h3, h4, h5] <;>
    (cases specValue (specOps r.levels) r.cfg.autoHostRewriteHeader (Headers.get h r.cfg.autoHostRewriteHeader) <;> simp)

theorem orderOf_eq (k : Kind) : orderOf k = [.requestHeaders, .pathHeader] := by
  cases k <;> decide

/-- the whole hop in closed form: the three-level header mutations and the host rewrite first, then the path rewrite on the
path variable, recording the received path -/
theorem finalizeRequest_eq (r : Route) (s : Req) :
    finalizeRequest r s =
      pathResult r { hdrs := finalize requestOrder r.levels s.hdrs, path := s.path, host := specHost r s } := by
  simp only [finalizeRequest, orderOf_eq, List.foldl_cons, List.foldl_nil, applyStep, requestHeaders_eq, pathHeader_eq]

theorem finalizeRequest_path (r : Route) (s : Req) : (finalizeRequest r s).path = specPath r s.path := by
  rw [finalizeRequest_eq]
  unfold pathResult specPath
  cases hp : s.path with
  | none => simp
  | some p => cases hr : specRewrite r p <;> simp [hr]

theorem finalizeRequest_host (r : Route) (s : Req) : (finalizeRequest r s).host = specHost r s := by
  rw [finalizeRequest_eq]
  unfold pathResult
  cases hp : s.path with
  | none => simp
  | some p => cases hr : specRewrite r p <;> simp [hr]

theorem finalizeRequest_header (r : Route) (s : Req) (k : String) :
    get (finalizeRequest r s).hdrs k = specHeader r s k := by
  have ho : requestOrder = [.route, .vhost, .router] := by decide
  rw [finalizeRequest_eq]
  unfold pathResult specHeader rewrites
  cases hp : s.path with
  | none => simp [ho, get_finalize]
  | some p =>
    cases hr : specRewrite r p with
    | none => simp [ho, get_finalize, hr]
    | some np =>
      by_cases hk : k = headerOriginalPath
      · subst hk; simp [hr, get_set_same]
      · have hk' : headerOriginalPath ≠ k := fun h => hk h.symm
        simp [hr, hk, get_set_other _ _ _ _ hk', ho, get_finalize]

end MosnVerif.Model.RouteFinalize
