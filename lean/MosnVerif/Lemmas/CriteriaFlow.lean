import MosnVerif.Model.CriteriaFlow
import MosnVerif.Lemmas.SubsetRequest
/-! Without memoisation every selection of a request uses `assemble (current route) (current variable)`. -/
namespace MosnVerif.Model.CriteriaFlow
open MosnVerif MosnVerif.Model.Subset MosnVerif.Model.SubsetRequest

theorem select_fresh (copied : Bool) (s : S) : (select false copied s).1 = (assemble s.route s.var).used := by
  simp [select]

theorem run_fresh (copied : Bool) (steps : List Step) :
    ∀ s, ∀ x ∈ run false copied s steps, x.2 = (assemble x.1.route x.1.var).used := by
  induction steps with
  | nil => intro s x hx; simp [run] at hx
  | cons st r ih =>
    intro s x hx
    cases st with
    | select =>
      simp only [run, List.mem_cons] at hx
      rcases hx with rfl | hx
      · exact select_fresh copied s
      · exact ih _ x hx
    | store m => exact ih _ x (by simpa [run] using hx)
    | put kvs => exact ih _ x (by simpa [run] using hx)
    | del k => exact ih _ x (by simpa [run] using hx)
    | route r' => exact ih _ x (by simpa [run] using hx)

/-- with the copy the variable is what the filters left: a selection changes neither the variable nor the route object -/
theorem select_keeps (s : S) : ((select false true s).2.var, (select false true s).2.route) = (s.var, s.route) := by
  simp [select, varAfter, assemble_route]

end MosnVerif.Model.CriteriaFlow
