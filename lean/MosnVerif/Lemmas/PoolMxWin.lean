import MosnVerif.Model.PoolMxWin
/-! The request ledger of the multiplex and HTTP/2 pools under every interleaving (`Model/PoolMxWin.lean`): for every set of
handler programs of the decidable class `ledgerOk` the breaker and the two request_active gauges equal the requests in flight
plus what the handlers in progress still owe, in EVERY intermediate state. -/
namespace MosnVerif.Lemmas.PoolMxWin
open MosnVerif.Model.PoolMxWin MosnVerif.Gen.Pool

/-- statements that move nothing of the ledger -/
def zeroD (l : List Stmt) : Bool := l.all (fun st => dH st == 0 && dC st == 0 && dR st == 0 && dP st == 0)

/-- the class of handler programs for which the ledger is exact: NewStream takes nothing before the breaker test and each
counter exactly once after it, creating the stream once; OnDestroyStream gives each counter back exactly once; the reset
handler, the close handler and the go-away handler move nothing. -/
def noListen (l : List Stmt) : Bool := !l.contains .listen

/-- where the stream can be reset from the moment it is created: the statement that makes the pool listen is followed by
exactly one closed-connection test (and no second listener registration) -/
def listenOk : List Stmt → Bool
  | [] => true
  | .listen :: r => r.count .undoChk == 1 && noListen r
  | _ :: r => listenOk r

def lisOk (pg : Progs) : Bool :=
  noListen pg.reset && (noListen pg.destroy && (noListen pg.close && (noListen pg.goAway && (!pg.placeVisible || listenOk pg.nsPost))))

def cntOk (pg : Progs) : Bool :=
  zeroD pg.nsPre &&
  (dsum dH pg.nsPost == 1 && dsum dC pg.nsPost == 1 && dsum dR pg.nsPost == 1 && dsum dP pg.nsPost == 1) &&
  (dsum dH pg.destroy == -1 && dsum dC pg.destroy == -1 && dsum dR pg.destroy == -1 && dsum dP pg.destroy == 0) &&
  zeroD pg.reset && zeroD pg.close && zeroD pg.goAway

def ledgerOk (pg : Progs) : Bool := lisOk pg && cntOk pg

/-- a column of the ledger: what a statement moves, what the ledger shows (both relative to the requests in flight) -/
structure Col where
  f : Stmt → Int
  v : Led → Int

def colH : Col := { f := fun st => dH st - dP st, v := fun l => l.rqHost - l.streams.length }
def colC : Col := { f := fun st => dC st - dP st, v := fun l => l.rqCluster - l.streams.length }
def colR : Col := { f := fun st => dR st - dP st, v := fun l => l.reqCur - l.ext - l.streams.length }

def E (c : Col) (s : State) : Int := c.v s.led + pend c.f s.tasks

structure ColOk (m : Nat) (pg : Progs) (c : Col) : Prop where
  led : ∀ (vis : Bool) (l : Led) (o : Option Nat) (st : Stmt), l.maxReq = m → c.v (ledStmt vis l o st) = c.v l + c.f st
  undo0 : c.f .undoChk = 0
  lis : c.f .listen = -1
  drop : ∀ (l : Led) (k : Nat), c.v (l.drop k) = c.v l + (l.streams.count k : Nat)
  erase : ∀ (l : Led) (k : Nat), k ∈ l.streams → c.v { l with streams := l.streams.erase k } = c.v l + 1
  zero : ∀ l, zeroD l = true → dsum c.f l = 0
  post : dsum c.f pg.nsPost = 0
  destroy : dsum c.f pg.destroy = -1
  extI : ∀ l : Led, l.maxReq = m → c.v { l with reqCur := resIncrease l.maxReq l.reqCur, ext := l.ext + 1 } = c.v l
  extD : ∀ l : Led, l.maxReq = m → l.ext > 0 → c.v { l with reqCur := resDecrease l.maxReq l.reqCur, ext := l.ext - 1 } = c.v l

/-! ### sums -/
theorem dsum_nil (f : Stmt → Int) : dsum f [] = 0 := rfl
theorem dsum_cons (f : Stmt → Int) (a : Stmt) (l : List Stmt) : dsum f (a :: l) = f a + dsum f l := by simp [dsum]
theorem dsum_append (f : Stmt → Int) (a b : List Stmt) : dsum f (a ++ b) = dsum f a + dsum f b := by simp [dsum]
theorem dsum_replicate (f : Stmt → Int) (n : Nat) (p : List Stmt) : dsum f (List.replicate n p).flatten = n * dsum f p := by
  induction n with
  | zero => simp [dsum]
  | succ n ih => simp only [List.replicate_succ, List.flatten_cons, dsum_append, ih]; push_cast; rw [Int.add_mul]; omega

theorem dsum_sub (f g : Stmt → Int) (l : List Stmt) : dsum (fun st => f st - g st) l = dsum f l - dsum g l := by
  induction l with
  | nil => rfl
  | cons a l ih => simp only [dsum_cons, ih]; omega

theorem pend_append (f : Stmt → Int) (ts : List Task) (t : Task) : pend f (ts ++ [t]) = pend f ts + dsum f t.rest := by
  simp [pend]

theorem pend_set (f : Stmt → Int) (ts : List Task) (k : Nat) (t t' : Task) (hk : ts[k]? = some t) :
    pend f (ts.set k t') = pend f ts - dsum f t.rest + dsum f t'.rest := by
  induction ts generalizing k with
  | nil => simp at hk
  | cons a r ih =>
    cases k with
    | zero =>
      simp only [List.getElem?_cons_zero, Option.some.injEq] at hk
      subst hk
      simp [pend]; omega
    | succ k =>
      simp only [List.getElem?_cons_succ] at hk
      have := ih k hk
      simp only [pend, List.set_cons_succ, List.map_cons, List.sum_cons] at *
      omega

theorem pend_sub (f g : Stmt → Int) (ts : List Task) : pend (fun st => f st - g st) ts = pend f ts - pend g ts := by
  induction ts with
  | nil => rfl
  | cons a r ih => simp only [pend, List.map_cons, List.sum_cons, dsum_sub] at *; omega

theorem filter_count (l : List Nat) (c : Nat) : ((l.filter (· != c)).length : Int) + (l.count c : Nat) = l.length := by
  induction l with
  | nil => simp
  | cons a l ih =>
    by_cases h : a = c
    · subst h; simp [List.filter_cons, List.count_cons] at *; omega
    · have h' : (a != c) = true := by simpa using h
      simp [List.filter_cons, List.count_cons, h', h] at *; omega

theorem zeroD_tail (a : Stmt) (l : List Stmt) (h : zeroD (a :: l) = true) : zeroD l = true := by
  simp only [zeroD, List.all_cons, Bool.and_eq_true] at h ⊢; exact h.2

theorem zeroD_dsum (g : Stmt → Int) (hg : ∀ st, (dH st == 0 && dC st == 0 && dR st == 0 && dP st == 0) = true → g st = 0)
    (l : List Stmt) (h : zeroD l = true) : dsum g l = 0 := by
  induction l with
  | nil => rfl
  | cons a l ih =>
    simp only [zeroD, List.all_cons, Bool.and_eq_true] at h
    rw [dsum_cons, hg a (by simpa using h.1), ih (by simpa [zeroD] using h.2)]; rfl

theorem lostProg_dsum (c : Col) (pg : Progs) (n : Nat) (hr : dsum c.f pg.reset = 0) (hd : dsum c.f pg.destroy = -1)
    (hc : dsum c.f pg.close = 0) : dsum c.f (lostProg pg n) = -(n : Int) := by
  unfold lostProg
  split <;> simp only [dsum_append, dsum_replicate, hr, hd, hc] <;> omega

/-! ### the three columns -/
theorem resInc_eq (m : Nat) (x : Int) : resIncrease m x = if m = 0 then x else x + 1 := by
  unfold resIncrease; split <;> simp_all
theorem resDec_eq (m : Nat) (x : Int) : resDecrease m x = if m = 0 then x else x - 1 := by
  unfold resDecrease; split <;> simp_all <;> omega

theorem ledgerOk_lis (pg : Progs) (h : ledgerOk pg = true) :
    noListen pg.reset = true ∧ noListen pg.destroy = true ∧ noListen pg.close = true ∧ noListen pg.goAway = true ∧
    (pg.placeVisible = true → listenOk pg.nsPost = true) := by
  simp only [ledgerOk, lisOk, Bool.and_eq_true, Bool.or_eq_true, Bool.not_eq_true'] at h
  obtain ⟨⟨h1, h2, h3, h4, h5⟩, _⟩ := h
  refine ⟨h1, h2, h3, h4, ?_⟩
  intro hv; rcases h5 with h5 | h5
  · rw [hv] at h5; cases h5
  · exact h5

theorem ledgerOk_spec (pg : Progs) (h : ledgerOk pg = true) :
    zeroD pg.nsPre = true ∧ (dsum dH pg.nsPost = 1 ∧ dsum dC pg.nsPost = 1 ∧ dsum dR pg.nsPost = 1 ∧ dsum dP pg.nsPost = 1) ∧
    (dsum dH pg.destroy = -1 ∧ dsum dC pg.destroy = -1 ∧ dsum dR pg.destroy = -1 ∧ dsum dP pg.destroy = 0) ∧
    zeroD pg.reset = true ∧ zeroD pg.close = true ∧ zeroD pg.goAway = true := by
  have h2 : cntOk pg = true := by simp only [ledgerOk, Bool.and_eq_true] at h; exact h.2
  simpa [cntOk, and_assoc] using h2

theorem colH_ok (m : Nat) (pg : Progs) (h : ledgerOk pg = true) : ColOk m pg colH := by
  have hp := ledgerOk_spec pg h
  refine ⟨?_, rfl, rfl, ?_, ?_, ?_, ?_, ?_, ?_, ?_⟩
  · intro vis l o st _; cases vis <;> cases st <;> simp [colH, ledStmt, dH, dP] <;> omega
  · intro l k; have := filter_count l.streams k; simp only [colH, Led.drop]; omega
  · intro l k hk; simp only [colH, List.length_erase_of_mem hk]
    have : 0 < l.streams.length := List.length_pos_of_mem hk
    omega
  · intro l hl; exact zeroD_dsum _ (by intro st hs; simp at hs; simp [colH, hs]) l hl
  · simp only [colH, dsum_sub]; omega
  · simp only [colH, dsum_sub]; omega
  · intro l _; rfl
  · intro l _ _; rfl

theorem colC_ok (m : Nat) (pg : Progs) (h : ledgerOk pg = true) : ColOk m pg colC := by
  have hp := ledgerOk_spec pg h
  refine ⟨?_, rfl, rfl, ?_, ?_, ?_, ?_, ?_, ?_, ?_⟩
  · intro vis l o st _; cases vis <;> cases st <;> simp [colC, ledStmt, dC, dP] <;> omega
  · intro l k; have := filter_count l.streams k; simp only [colC, Led.drop]; omega
  · intro l k hk; simp only [colC, List.length_erase_of_mem hk]
    have : 0 < l.streams.length := List.length_pos_of_mem hk
    omega
  · intro l hl; exact zeroD_dsum _ (by intro st hs; simp at hs; simp [colC, hs]) l hl
  · simp only [colC, dsum_sub]; omega
  · simp only [colC, dsum_sub]; omega
  · intro l _; rfl
  · intro l _ _; rfl

theorem colR_ok (m : Nat) (hm : m ≠ 0) (pg : Progs) (h : ledgerOk pg = true) : ColOk m pg colR := by
  have hp := ledgerOk_spec pg h
  refine ⟨?_, rfl, rfl, ?_, ?_, ?_, ?_, ?_, ?_, ?_⟩
  · intro vis l o st e; cases vis <;> cases st <;> simp [colR, ledStmt, dR, dP, resInc_eq, resDec_eq, e, hm] <;> omega
  · intro l k; have := filter_count l.streams k; simp only [colR, Led.drop]; omega
  · intro l k hk; simp only [colR, List.length_erase_of_mem hk]
    have : 0 < l.streams.length := List.length_pos_of_mem hk
    omega
  · intro l hl; exact zeroD_dsum _ (by intro st hs; simp at hs; simp [colR, hs]) l hl
  · simp only [colR, dsum_sub]; omega
  · simp only [colR, dsum_sub]; omega
  · intro l e; simp only [colR, resInc_eq, e, if_neg hm]; push_cast; omega
  · intro l e hx; simp only [colR, resDec_eq, e, if_neg hm]; omega


/-! ### steps -/
/-! listener-shape lemmas -/
theorem noListen_cons (a : Stmt) (l : List Stmt) : noListen (a :: l) = (a != .listen && noListen l) := by
  cases a <;> simp [noListen, List.contains_cons]

theorem noListen_append (a b : List Stmt) : noListen (a ++ b) = (noListen a && noListen b) := by
  induction a with
  | nil => simp [noListen]
  | cons x a ih => simp only [List.cons_append, noListen_cons, ih, Bool.and_assoc]

theorem noListen_replicate (n : Nat) (p : List Stmt) (h : noListen p = true) : noListen (List.replicate n p).flatten = true := by
  induction n with
  | zero => rfl
  | succ n ih => simp only [List.replicate_succ, List.flatten_cons, noListen_append, h, ih, Bool.and_self]

theorem listenOk_of_noListen (l : List Stmt) (h : noListen l = true) : listenOk l = true := by
  induction l with
  | nil => rfl
  | cons a l ih =>
    rw [noListen_cons] at h
    simp only [Bool.and_eq_true, bne_iff_ne, ne_eq] at h
    cases a <;> first | exact absurd rfl h.1 | exact ih h.2

theorem listenOk_append (a b : List Stmt) (h : noListen a = true) : listenOk (a ++ b) = listenOk b := by
  induction a with
  | nil => rfl
  | cons x a ih =>
    rw [noListen_cons] at h
    simp only [Bool.and_eq_true, bne_iff_ne, ne_eq] at h
    cases x <;> first | exact absurd rfl h.1 | exact ih h.2

theorem listenOk_tail (a : Stmt) (l : List Stmt) (h : listenOk (a :: l) = true) : listenOk l = true := by
  cases a <;> try exact h
  simp only [listenOk, Bool.and_eq_true] at h
  exact listenOk_of_noListen l h.2

theorem noListen_expand (pg : Progs) (l : List Stmt) (hd : noListen pg.destroy = true) (h : noListen l = true) :
    noListen (expandUndo pg l) = true := by
  induction l with
  | nil => rfl
  | cons a l ih =>
    rw [noListen_cons] at h
    simp only [Bool.and_eq_true] at h
    simp only [expandUndo, List.flatMap_cons] at ih ⊢
    rw [noListen_append, ih h.2]
    split
    · simp [hd]
    · have h1 := h.1
      simp only [bne_iff_ne, ne_eq] at h1
      simp only [noListen, List.contains_cons, List.contains_nil, Bool.or_false, Bool.not_eq_true', beq_eq_false_iff_ne, ne_eq, Bool.and_true]
      exact fun e => h1 e.symm

theorem dsum_expand (f : Stmt → Int) (pg : Progs) (l : List Stmt) (h0 : f .undoChk = 0) :
    dsum f (expandUndo pg l) = dsum f l + (l.count .undoChk : Nat) * dsum f pg.destroy := by
  induction l with
  | nil => simp [expandUndo, dsum]
  | cons a l ih =>
    simp only [expandUndo, List.flatMap_cons] at ih ⊢
    rw [dsum_append, ih, dsum_cons, List.count_cons]
    by_cases ha : a = .undoChk
    · subst ha; simp only [if_true, h0, beq_self_eq_true]; push_cast; rw [Int.add_mul]; omega
    · have : (a == Stmt.undoChk) = false := by simpa using ha
      simp only [if_neg ha, this, dsum_cons, dsum_nil]; simp [Int.add_assoc]

theorem lostProg_noListen (pg : Progs) (n : Nat) (hr : noListen pg.reset = true) (hd : noListen pg.destroy = true)
    (hc : noListen pg.close = true) : noListen (lostProg pg n) = true := by
  have : noListen (List.replicate n (pg.reset ++ pg.destroy)).flatten = true :=
    noListen_replicate n _ (by rw [noListen_append, hr, hd]; rfl)
  unfold lostProg
  split <;> simp only [noListen_append, this, hc, Bool.and_self]

theorem bookStmt_lost (pg : Progs) (led : Led) (b : Books) (t : Task) (st : Stmt)
    (h : (bookStmt pg led b t st).2.2 = .lost) : st = .listen ∧ pg.placeVisible = true := by
  cases st <;> simp only [bookStmt] at h <;> (try (repeat' split at h)) <;> simp_all

theorem bookStmt_undo (pg : Progs) (led : Led) (b : Books) (t : Task) (st : Stmt) (c : Nat)
    (h : (bookStmt pg led b t st).2.2 = .undo c) : st = .undoChk := by
  cases st <;> simp only [bookStmt] at h <;> (try (repeat' split at h)) <;> simp_all

/-- a NewStream that has not passed the breaker test owes nothing; where a created stream can be reset at once, a task
that still has to make the pool listen has exactly one closed-connection test behind that statement -/
def TOk (pg : Progs) (t : Task) : Prop :=
  (t.pre = true → zeroD t.rest = true) ∧ (pg.placeVisible = true → listenOk t.rest = true)

def PreInv (s : State) : Prop := ∀ t ∈ s.tasks, TOk s.pg t

theorem mem_of_get {ts : List Task} {k : Nat} {t : Task} (h : ts[k]? = some t) : t ∈ ts := List.mem_of_getElem? h

theorem newTask_E (c : Col) (s : State) (t : Task) : E c (newTask s t) = E c s + dsum c.f t.rest := by
  simp only [E, newTask, pend_append]; omega

theorem newTask_pre (s : State) (t : Task) (h : PreInv s) (ht : TOk s.pg t) : PreInv (newTask s t) := by
  intro t' ht'
  simp only [newTask, List.mem_append, List.mem_singleton] at ht'
  rcases ht' with h1 | rfl
  · exact h t' h1
  · exact ht

theorem set_pre (s : State) (k : Nat) (t' : Task) (h : PreInv s) (ht : TOk s.pg t') :
    ∀ x ∈ s.tasks.set k t', TOk s.pg x := by
  intro x hx
  rcases List.mem_or_eq_of_mem_set hx with h1 | rfl
  · exact h x h1
  · exact ht

theorem ledStmt_maxReq (vis : Bool) (l : Led) (o : Option Nat) (st : Stmt) : (ledStmt vis l o st).maxReq = l.maxReq := by
  cases vis <;> cases st <;> rfl

theorem stepTask_E {m : Nat} (c : Col) (s : State) (ok : ColOk m s.pg c) (hok : ledgerOk s.pg = true) (hr : dsum c.f s.pg.reset = 0)
    (hc : dsum c.f s.pg.close = 0) (hm : s.led.maxReq = m) (hp : PreInv s) (k : Nat) :
    E c (stepTask s k) = E c s ∧ PreInv (stepTask s k) ∧ (stepTask s k).pg = s.pg ∧ (stepTask s k).led.maxReq = s.led.maxReq := by
  obtain ⟨lr, ld, lc, _, lpost⟩ := ledgerOk_lis _ hok
  unfold stepTask
  split
  · exact ⟨rfl, hp, rfl, rfl⟩
  · rename_i t htk
    split
    · exact ⟨rfl, hp, rfl, rfl⟩
    · rename_i st rest heq
      have hT : dsum c.f t.rest = c.f st + dsum c.f rest := by rw [heq, dsum_cons]
      have hmem := mem_of_get htk
      have hL : s.pg.placeVisible = true → listenOk (st :: rest) = true := fun hv => by rw [← heq]; exact (hp t hmem).2 hv
      have hLr : s.pg.placeVisible = true → listenOk rest = true := fun hv => listenOk_tail st rest (hL hv)
      split
      · exact ⟨rfl, hp, rfl, rfl⟩
      · rename_i hpre
        have z := ok.zero _ ((hp t hmem).1 hpre)
        refine ⟨?_, set_pre s k _ hp ⟨(by intro h; cases h), fun _ => rfl⟩, rfl, rfl⟩
        simp only [E]; rw [pend_set _ _ _ _ _ htk]; simp only [dsum_nil]; omega
      · rename_i hpre
        have z := ok.zero _ ((hp t hmem).1 hpre)
        refine ⟨?_, set_pre s k _ hp ⟨(by intro h; cases h), lpost⟩, rfl, rfl⟩
        simp only [E]; rw [pend_set _ _ _ _ _ htk]; have := ok.post; dsimp only at *; omega
      · rename_i b c' cc _ hpre
        split
        · refine ⟨?_, set_pre s k _ hp ⟨(by intro h; simp [hpre] at h), fun hv => ?_⟩, rfl, ?_⟩
          · simp only [E]; rw [pend_set _ _ _ _ _ htk, ok.drop, ok.led _ _ _ _ hm]
            simp only [dsum_append, lostProg_dsum c s.pg _ hr ok.destroy hc]; omega
          · show listenOk (lostProg s.pg _ ++ rest) = true
            rw [listenOk_append _ _ (lostProg_noListen _ _ lr ld lc)]; exact hLr hv
          · exact ledStmt_maxReq ..
        · refine ⟨?_, set_pre s k _ hp ⟨(by intro h; simp [hpre] at h), hLr⟩, rfl, ?_⟩
          · simp only [E]; rw [pend_set _ _ _ _ _ htk, ok.led _ _ _ _ hm]; dsimp only at *; omega
          · exact ledStmt_maxReq ..
      · rename_i b c' hb hpre
        have hl := bookStmt_lost s.pg s.led s.bk t st (by rw [hb])
        obtain ⟨rfl, hv⟩ := hl
        have hlo := hL hv
        simp only [listenOk, Bool.and_eq_true, beq_iff_eq] at hlo
        refine ⟨?_, set_pre s k _ hp ⟨(by intro h; simp [hpre] at h), fun _ => ?_⟩, rfl, rfl⟩
        · simp only [E]; rw [pend_set _ _ _ _ _ htk]
          simp only [dsum_expand c.f s.pg rest ok.undo0, hlo.1, ok.destroy]
          have := ok.lis; omega
        · exact listenOk_of_noListen _ (noListen_expand _ _ ld hlo.2)
      · rename_i b c' cc hb hpre
        have hu := bookStmt_undo s.pg s.led s.bk t st cc (by rw [hb])
        subst hu
        split
        · rename_i hin
          refine ⟨?_, set_pre s k _ hp ⟨(by intro h; simp [hpre] at h), fun hv => ?_⟩, rfl, rfl⟩
          · simp only [E]; rw [pend_set _ _ _ _ _ htk, ok.erase _ _ hin]
            simp only [dsum_append, hr, ok.destroy]; have := ok.undo0; omega
          · show listenOk (s.pg.reset ++ s.pg.destroy ++ rest) = true
            rw [listenOk_append _ _ (by rw [noListen_append, lr, ld]; rfl)]; exact hLr hv
        · refine ⟨?_, set_pre s k _ hp ⟨(by intro h; simp [hpre] at h), hLr⟩, rfl, rfl⟩
          simp only [E]; rw [pend_set _ _ _ _ _ htk]; have := ok.undo0; dsimp only at *; omega
      · rename_i hpre
        have z := ok.zero _ ((hp t hmem).1 hpre)
        have z' : zeroD rest = true := zeroD_tail st rest (by rw [← heq]; exact (hp t hmem).1 hpre)
        refine ⟨?_, set_pre s k _ hp ⟨fun _ => z', hLr⟩, rfl, rfl⟩
        simp only [E]; rw [pend_set _ _ _ _ _ htk]; have := ok.zero _ z'; dsimp only at *; omega
      · rename_i hpre
        refine ⟨?_, set_pre s k _ hp ⟨(by intro h; simp [hpre] at h), hLr⟩, rfl, ?_⟩
        · simp only [E]; rw [pend_set _ _ _ _ _ htk, ok.led _ _ _ _ hm]; dsimp only at *; omega
        · exact ledStmt_maxReq ..

theorem step_E {m : Nat} (c : Col) (s : State) (ok : ColOk m s.pg c) (hok : ledgerOk s.pg = true)
    (hm : s.led.maxReq = m) (hp : PreInv s) (l : Label) :
    E c (step s l) = E c s ∧ PreInv (step s l) ∧ (step s l).pg = s.pg ∧ (step s l).led.maxReq = s.led.maxReq := by
  have sp := ledgerOk_spec _ hok
  obtain ⟨lr, ld, lc, lg, _⟩ := ledgerOk_lis _ hok
  have hr := ok.zero _ sp.2.2.2.1
  have hc := ok.zero _ sp.2.2.2.2.1
  have hg := ok.zero _ sp.2.2.2.2.2
  have nl : ∀ l, noListen l = true → s.pg.placeVisible = true → listenOk l = true := fun l h _ => listenOk_of_noListen l h
  cases l with
  | newStream slot d =>
    refine ⟨?_, newTask_pre _ _ hp ⟨fun _ => sp.1, fun _ => ?_⟩, rfl, rfl⟩
    · rw [step, newTask_E]; have := ok.zero _ sp.1; simp only; omega
    · -- a program that moves nothing contains no listener registration
      have hz := sp.1
      show listenOk s.pg.nsPre = true
      apply listenOk_of_noListen
      generalize s.pg.nsPre = l at hz
      induction l with
      | nil => rfl
      | cons a l ih =>
        simp only [zeroD, List.all_cons, Bool.and_eq_true] at hz
        rw [noListen_cons, ih (by simpa [zeroD] using hz.2)]
        cases a <;> simp_all [dP]
  | connect slot d => exact ⟨rfl, hp, rfl, rfl⟩
  | endStream cc cause =>
    simp only [step]
    split
    · rename_i hin
      refine ⟨?_, newTask_pre _ _ hp ⟨(by intro h; cases h), nl _ ?_⟩, rfl, rfl⟩
      · rw [newTask_E]; simp only [E, dsum_append, ok.erase _ _ hin, ok.destroy]
        split <;> simp only [dsum_nil, hr] <;> omega
      · show noListen ((if cause = .complete then [] else s.pg.reset) ++ s.pg.destroy) = true
        rw [noListen_append, ld]; split
        · rfl
        · rw [lr]; rfl
    · exact ⟨rfl, hp, rfl, rfl⟩
  | taskStep k => exact stepTask_E c s ok hok hr hc hm hp k
  | netClose cc =>
    simp only [step]
    split
    · refine ⟨?_, newTask_pre _ _ hp ⟨(by intro h; cases h), nl _ (lostProg_noListen _ _ lr ld lc)⟩, rfl, rfl⟩
      rw [newTask_E]; simp only [E, ok.drop, lostProg_dsum c s.pg _ hr ok.destroy hc]; omega
    · exact ⟨rfl, hp, rfl, rfl⟩
  | goAway cc =>
    simp only [step]
    split
    · refine ⟨?_, newTask_pre _ _ hp ⟨(by intro h; cases h), nl _ lg⟩, rfl, rfl⟩
      rw [newTask_E]; simp only [hg]; omega
    · exact ⟨rfl, hp, rfl, rfl⟩
  | extInc => exact ⟨by simp only [step, E, ok.extI _ hm], hp, rfl, rfl⟩
  | extDec =>
    simp only [step]
    split
    · rename_i hx; exact ⟨by simp only [E, ok.extD _ hm hx], hp, rfl, rfl⟩
    · exact ⟨rfl, hp, rfl, rfl⟩

theorem res0_inc (x : Int) : resIncrease 0 x = x := by simp [resIncrease]
theorem res0_dec (x : Int) : resDecrease 0 x = x := by simp [resDecrease]
/-- unlimited breaker: `Requests().Cur()` never moves -/
theorem ledStmt_req0 (vis : Bool) (l : Led) (o : Option Nat) (st : Stmt) (h : l.maxReq = 0) :
    (ledStmt vis l o st).reqCur = l.reqCur := by
  cases vis <;> cases st <;> simp [ledStmt, h, res0_inc, res0_dec]

theorem step_req0 (s : State) (h : s.led.maxReq = 0) (l : Label) : (step s l).led.reqCur = s.led.reqCur := by
  cases l with
  | taskStep k =>
    simp only [step]; unfold stepTask
    split
    · rfl
    · split
      · rfl
      · split <;> try rfl
        · split
          · exact ledStmt_req0 _ _ _ _ h
          · exact ledStmt_req0 _ _ _ _ h
        · split <;> rfl
        · exact ledStmt_req0 _ _ _ _ h
  | endStream cc cause => simp only [step]; split <;> rfl
  | netClose cc => simp only [step]; split <;> rfl
  | goAway cc => simp only [step]; split <;> rfl
  | extInc => simp [step, h, res0_inc]
  | extDec => simp only [step]; split <;> simp [h, res0_dec]
  | _ => rfl

/-- the ledger invariant -/
structure LInv (m : Nat) (s : State) : Prop where
  ok : ledgerOk s.pg = true
  mx : s.led.maxReq = m
  pre : PreInv s
  host : E colH s = 0
  cluster : E colC s = 0
  res : m ≠ 0 → E colR s = 0
  res0 : m = 0 → s.led.reqCur = 0

theorem linv_init (k : Kind) (n m : Nat) (pg : Progs) (h : ledgerOk pg = true) : LInv m (initWith k n m pg) :=
  ⟨h, rfl, (by intro t ht; cases ht), rfl, rfl, fun _ => rfl, fun _ => rfl⟩

theorem linv_step {m : Nat} (s : State) (h : LInv m s) (l : Label) : LInv m (step s l) := by
  have a := step_E colH s (colH_ok m _ h.ok) h.ok h.mx h.pre l
  have b := step_E colC s (colC_ok m _ h.ok) h.ok h.mx h.pre l
  refine ⟨by rw [a.2.2.1]; exact h.ok, by rw [a.2.2.2]; exact h.mx, a.2.1, by rw [a.1]; exact h.host, by rw [b.1]; exact h.cluster, ?_, ?_⟩
  · intro hm
    rw [(step_E colR s (colR_ok m hm _ h.ok) h.ok h.mx h.pre l).1]; exact h.res hm
  · intro hm
    rw [step_req0 s (by rw [h.mx]; exact hm)]; exact h.res0 hm

theorem linv_run {m : Nat} (s : State) (h : LInv m s) (ls : List Label) : LInv m (run s ls) := by
  induction ls generalizing s with
  | nil => exact h
  | cons l r ih => exact ih _ (linv_step s h l)


/-- the ledger equations in plain form -/
def Ledger (maxReq : Nat) (s : State) : Prop :=
  s.led.rqHost + pend dH s.tasks = s.led.streams.length + pend dP s.tasks ∧
  s.led.rqCluster + pend dC s.tasks = s.led.streams.length + pend dP s.tasks ∧
  (maxReq ≠ 0 → s.led.reqCur + pend dR s.tasks = (s.led.ext : Int) + s.led.streams.length + pend dP s.tasks) ∧
  (maxReq = 0 → s.led.reqCur = 0)

theorem ledger_of_linv {m : Nat} (s : State) (h : LInv m s) : Ledger m s := by
  have a := h.host
  have b := h.cluster
  simp only [E, colH, colC, pend_sub] at a b
  refine ⟨by omega, by omega, ?_, h.res0⟩
  intro hm
  have c := h.res hm
  simp only [E, colR, pend_sub] at c
  omega

theorem request_ledger_exact_steps (k : Kind) (nSlots maxReq : Nat) (pg : Progs) (h : ledgerOk pg = true) (ls : List Label) :
    Ledger maxReq (run (initWith k nSlots maxReq pg) ls) :=
  ledger_of_linv _ (linv_run _ (linv_init k nSlots maxReq pg h) ls)

theorem pend_quiet (f : Stmt → Int) (ts : List Task) (h : ∀ t ∈ ts, t.rest = []) : pend f ts = 0 := by
  induction ts with
  | nil => rfl
  | cons a r ih =>
    simp only [pend, List.map_cons, List.sum_cons] at *
    rw [h a (List.mem_cons_self ..), ih (fun t ht => h t (List.mem_cons_of_mem _ ht))]; rfl

theorem ledger_quiescent (maxReq : Nat) (s : State) (h : Ledger maxReq s) (q : s.quiescent) :
    s.led.rqHost = 0 ∧ s.led.rqCluster = 0 ∧ s.led.reqCur = if maxReq = 0 then 0 else (s.led.ext : Int) := by
  obtain ⟨h1, h2, h3, h4⟩ := h
  simp only [pend_quiet _ _ q.1, q.2, List.length_nil] at h1 h2 h3
  refine ⟨by omega, by omega, ?_⟩
  split
  · rename_i hm; exact h4 hm
  · rename_i hm; have := h3 hm; omega

/-! ### no lease on a client that received go-away (multiplex) -/
/-- once OnGoAway wrote a client's state word the client is never `Connected` again -/
def GaInv (s : State) : Prop := ∀ c, (s.bk.client c).gaSeen = true → (s.bk.client c).state ≠ MosnVerif.Gen.PoolMux.muxConnected

end MosnVerif.Lemmas.PoolMxWin
