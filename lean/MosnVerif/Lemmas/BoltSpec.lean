import MosnVerif.Lemmas.BoltCodec
/-! the model's outputs satisfy the C01 reference predicate `Ref.holds` (core only) -/
namespace MosnVerif.Model.Bolt
open MosnVerif.Model MosnVerif.Model.Bytes

theorem classify_encoded (v2c : Bool) (id : KindId) (m : Meta) (ow : Bool) (hw : metaWF id m ow) (c h n : Nat) (rest : Bytes) :
    Ref.classify v2c ((Ref.kindOf id).encodeMeta m c h n ++ rest) = some (Ref.kindOf id, ow) := by
  obtain ⟨ho, _, _, _, _, hk⟩ := hw
  cases id <;> cases v2c <;> cases ow <;>
    simp only [Ref.kindOf, owOK] at hk ho ⊢ <;>
    first
    | (cases ho; done)
    | (obtain ⟨hp, ht, _⟩ := hk
       simp [Ref.classify, Ref.v1req, Ref.v1resp, Ref.v2req, Ref.v2resp, be, byteAt, hp, ht])

/-- `classify` only ever answers with one of the four reference kinds, and never enters a response decoder one-way -/
theorem classify_kind (v2c : Bool) (b : Bytes) (K : Kind) (ow : Bool) (h : Ref.classify v2c b = some (K, ow)) :
    K = Ref.kindOf K.id ∧ owOK K.id ow := by
  unfold Ref.classify at h
  simp only at h
  repeat' split at h
  all_goals (first | (cases h; done) | (cases h; exact ⟨rfl, by simp [owOK, Ref.v1req, Ref.v1resp, Ref.v2req, Ref.v2resp]⟩))

/-! modifications leave the kind, the fixed fields and the raw frame alone -/

theorem applyOp_kind (f : Frame) (o : Op) : (applyOp f o).kind = f.kind ∧ (applyOp f o).fx = f.fx ∧ (applyOp f o).raw = f.raw := by
  cases o <;> simp [applyOp, setHeader, delHeader, setData]

theorem modify_kind (ops : List Op) (f : Frame) :
    (modify ops f).kind = f.kind ∧ (modify ops f).fx = f.fx ∧ (modify ops f).raw = f.raw := by
  unfold modify
  induction ops generalizing f with
  | nil => simp
  | cons o r ih =>
    simp only [List.foldl_cons]
    obtain ⟨h1, h2, h3⟩ := ih (applyOp f o)
    obtain ⟨g1, g2, g3⟩ := applyOp_kind f o
    exact ⟨h1.trans g1, h2.trans g2, h3.trans g3⟩

theorem metaWF_setId (id : KindId) (m : Meta) (ow : Bool) (i : Nat) (h : metaWF id m ow) :
    metaWF id { m with reqId := i % 2 ^ 32 } ow := by
  obtain ⟨h0, h1, h2, _, h4, h5⟩ := h
  refine ⟨h0, h1, h2, ?_, h4, ?_⟩
  · exact Nat.mod_lt _ (by decide)
  · cases id <;> exact h5

theorem parse_some (v2c : Bool) (b : Bytes) (f : Frame) (n : Nat) (h : Ref.parse v2c b = some (f, n)) :
    ∃ K ow, Ref.classify v2c b = some (K, ow) ∧ decodeKind K ow b = .frame f n := by
  unfold Ref.parse at h
  cases hcl : Ref.classify v2c b with
  | none => rw [hcl] at h; cases h
  | some p =>
    obtain ⟨K, ow⟩ := p
    rw [hcl] at h
    simp only at h
    cases hd : decodeKind K ow b with
    | frame f' n' =>
      rw [hd] at h
      injection h with h; injection h with h1 h2
      subst h1; subst h2
      exact ⟨K, ow, rfl, hd⟩
    | needMore => rw [hd] at h; cases h
    | error => rw [hd] at h; cases h
    | panic => rw [hd] at h; cases h

theorem parse_of (v2c : Bool) (b : Bytes) (K : Kind) (ow : Bool) (f : Frame) (n : Nat)
    (hcl : Ref.classify v2c b = some (K, ow)) (hd : decodeKind K ow b = .frame f n) :
    Ref.parse v2c b = some (f, n) := by
  unfold Ref.parse; rw [hcl]; simp only; rw [hd]

/-- **the model satisfies the C01 predicate** on every input it accepts, for every list of modifications and every id -/
theorem holds_frame (c : Codec) (inp : Bytes) (ops : List Op) (id : Nat) (f : Frame) (n : Nat)
    (h : decode c inp = .frame f n) :
    Ref.holds (isV2 c) inp (modify ops) id true n (encode (setId (modify ops f) id)) = true := by
  have hp := (decode_frame_iff_parse c inp f n).mp h
  obtain ⟨K, ow, hcl, hd⟩ := parse_some _ _ _ _ hp
  obtain ⟨hKref, hoo⟩ := classify_kind _ _ _ _ hcl
  obtain ⟨_, _, _, hraw, _, _, hkind, hfx, _, _, _⟩ := decodeKind_frame hd
  have hKeq : kindOf K.id = K := by rw [kindOf_eq]; exact hKref.symm
  have hK : KindOK K := hKeq ▸ kindOf_ok K.id
  obtain ⟨mk, mfx, mraw⟩ := modify_kind ops f
  -- the frame handed to Encode
  generalize hm : setId (modify ops f) id = m
  have m_kind : m.kind = K.id := by rw [← hm]; simp [setId, mk, hkind]
  have m_raw : m.raw = some (inp.take n) := by rw [← hm]; simp [setId, mraw, hraw]
  have m_fx : m.fx = { f.fx with reqId := id % 2 ^ 32 } := by rw [← hm]; simp [setId, mfx]
  have m_wf : metaWF K.id m.fx ow := by
    rw [m_fx]; exact metaWF_setId _ _ _ _ (hfx ▸ hK.meta_wf inp ow hoo)
  have henc : encode m = encodeKind K m := by unfold encode; rw [m_kind, hKeq]
  unfold Ref.holds
  rw [hp]
  simp only [hm, Bool.true_and, beq_self_eq_true]
  by_cases hclean : (!m.hdrChanged && !m.contentChanged) = true
  · -- untouched: the fast path
    simp only [hclean, if_true]
    rw [henc]
    unfold encodeKind
    rw [m_raw]
    simp only [hclean, if_true, encodeFast, hK.idWidth_eq, m_fx]
    have : (Ref.kindOf f.kind).idIdx = K.idIdx := by rw [hkind, ← hKref]
    rw [this, be_mod 4 id]
    simp
  · simp only [hclean, Bool.false_eq_true, if_false]
    have hslow : encode m = encodeSlow K m := by
      rw [henc]; unfold encodeKind; rw [m_raw]; simp only [hclean, Bool.false_eq_true, if_false]
    by_cases hrep : Ref.representable m = true
    · simp only [hrep, if_true]
      obtain ⟨out, ho, hdec⟩ := slow_roundtrip_kind hK m ow m_wf hrep
      rw [hslow, ho]
      simp only
      -- the output is classified as the same kind by the same codec
      have hcls : Ref.classify (isV2 c) out = some (K, ow) := by
        have hout := encodeSlow_some K m hrep
        rw [ho] at hout
        injection hout with hout
        rw [hout, hKref]
        simp only [List.append_assoc]
        have := classify_encoded (isV2 c) K.id m.fx ow m_wf m.cls.length (BoltHeader.encodeLen m.kvs) m.content.length
          (m.cls ++ (BoltHeader.encode m.kvs ++ m.content))
        rw [← hKref] at this ⊢
        exact this
      rw [parse_of _ _ _ _ _ _ hcls hdec]
      simp [Ref.sameContent, Ref.lengthsConsistent, m_kind]
    · have hrep' : Ref.representable m = false := by
        cases hr : Ref.representable m
        · rfl
        · exact absurd hr hrep
      simp only [hrep', Bool.false_eq_true, if_false]
      rw [hslow, encodeSlow_none K m hrep']
      simp

/-- when the model does not produce a frame the reference parser does not either, so the predicate demands nothing -/
theorem holds_noframe (c : Codec) (inp : Bytes) (g : Frame → Frame) (id : Nat)
    (h : ∀ f n, decode c inp ≠ .frame f n) (acc : Bool) (k : Nat) (out : Option Bytes) :
    Ref.holds (isV2 c) inp g id acc k out = true := by
  unfold Ref.holds
  cases hp : Ref.parse (isV2 c) inp with
  | none => rfl
  | some p =>
    obtain ⟨f, n⟩ := p
    exact absurd ((decode_frame_iff_parse c inp f n).mpr hp) (h f n)

/-- when `Encode` takes the slow path: no raw frame (built locally) or a dirty flag -/
def slowPath (m : Frame) : Prop := m.raw = none ∨ m.hdrChanged = true ∨ m.contentChanged = true

theorem encode_slow (m : Frame) (h : slowPath m) : encode m = encodeSlow (kindOf m.kind) m := by
  unfold encode encodeKind
  cases hr : m.raw with
  | none => rfl
  | some raw =>
    rcases h with h | h | h
    · rw [hr] at h; cases h
    · simp [h]
    · simp [h]

/-- protocol-level slow-path round trip, for either codec and any frame value with decodable fixed fields -/
theorem slow_roundtrip_proto (c : Codec) (m : Frame) (ow : Bool) (hw : metaWF m.kind m.fx ow)
    (hrep : Ref.representable m = true) :
    ∃ out, encodeSlow (kindOf m.kind) m = some out ∧
      decode c out = .frame
        { kind := m.kind, fx := m.fx, classLen := m.cls.length, headerLen := BoltHeader.encodeLen m.kvs,
          contentLen := m.content.length, cls := m.cls, kvs := m.kvs, content := m.content,
          raw := some out, hdrChanged := false, contentChanged := false } out.length := by
  have hK := kindOf_ok m.kind
  have hid := kindOf_id m.kind
  obtain ⟨out, ho, hdec⟩ := slow_roundtrip_kind hK m ow (hid.symm ▸ hw) hrep
  refine ⟨out, ho, ?_⟩
  have hcls : Ref.classify (isV2 c) out = some (kindOf m.kind, ow) := by
    have hout := encodeSlow_some (kindOf m.kind) m hrep
    rw [ho] at hout
    injection hout with hout
    rw [hout, kindOf_eq]
    simp only [List.append_assoc]
    exact classify_encoded (isV2 c) m.kind m.fx ow hw m.cls.length (BoltHeader.encodeLen m.kvs) m.content.length
      (m.cls ++ (BoltHeader.encode m.kvs ++ m.content))
  rw [decode_of_classify c out _ ow hcls, hdec, hid]

/-- every frame a codec decodes has fixed fields a decoder can produce (so it can go through the slow path) -/
theorem decode_metaWF (c : Codec) (b : Bytes) (f : Frame) (n : Nat) (h : decode c b = .frame f n) :
    ∃ ow, metaWF f.kind f.fx ow := by
  have hp := (decode_frame_iff_parse c b f n).mp h
  obtain ⟨K, ow, hcl, hd⟩ := parse_some _ _ _ _ hp
  obtain ⟨hKref, hoo⟩ := classify_kind _ _ _ _ hcl
  obtain ⟨_, _, _, _, _, _, hkind, hfx, _, _, _⟩ := decodeKind_frame hd
  have hKeq : kindOf K.id = K := by rw [kindOf_eq]; exact hKref.symm
  have hK : KindOK K := hKeq ▸ kindOf_ok K.id
  exact ⟨ow, by rw [hkind, hfx]; exact hK.meta_wf b ow hoo⟩

/-- protocol-level fast path -/
theorem fast_identity_proto (c : Codec) (b : Bytes) (f : Frame) (n : Nat) (h : decode c b = .frame f n) (i : Nat) :
    encode (setId f i) = some (patch (b.take n) (kindOf f.kind).idIdx (be 4 i)) ∧
    (kindOf f.kind).idIdx + 4 ≤ n ∧ n ≤ b.length ∧
    n = (kindOf f.kind).hdrLen + f.classLen + f.headerLen + f.contentLen := by
  have hp := (decode_frame_iff_parse c b f n).mp h
  obtain ⟨K, ow, hcl, hd⟩ := parse_some _ _ _ _ hp
  obtain ⟨hKref, _⟩ := classify_kind _ _ _ _ hcl
  obtain ⟨_, hn, hle, _, _, _, hkind, _, hcl', hhl, hnl⟩ := decodeKind_frame hd
  have hKeq : kindOf K.id = K := by rw [kindOf_eq]; exact hKref.symm
  have hK : KindOK K := hKeq ▸ kindOf_ok K.id
  have hfk : kindOf f.kind = K := by rw [hkind]; exact hKeq
  have hn' : n = K.hdrLen + f.classLen + f.headerLen + f.contentLen := by
    rw [hn, hK.frameLen_eq, hcl', hhl, hnl]
  refine ⟨?_, ?_, hle, ?_⟩
  · have : (setId f i).kind = f.kind := rfl
    unfold encode; rw [this, hfk]
    exact encodeKind_fast hK hd i
  · rw [hfk]; have := hK.id_in_hdr; rw [hK.idWidth_eq] at this; omega
  · rw [hfk]; exact hn'

end MosnVerif.Model.Bolt
