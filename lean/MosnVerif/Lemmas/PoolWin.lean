import MosnVerif.Model.PoolWin
import MosnVerif.Lemmas.Pool
/-! The intermediate states of `OnDestroyStream` (model `Model/PoolWin.lean`): for every statement program in which the
close test comes strictly before the single, final put back (`progOk`), under every interleaving of the labels, the idle
list only holds open, unclosed, clean, unleased connections, and a lease never hands out a dirty connection.
Second part: the request ledger (gauges and breaker) is exact in every intermediate state. Core Lean only. -/
namespace MosnVerif.Lemmas.PoolWin
open MosnVerif.Model.PoolWin MosnVerif.Gen.Pool MosnVerif.Gen.PoolDestroy
open MosnVerif.Model.Pool (Kind Dial Res putBack closeOnDestroy markClose removeIdle mem_removeIdle nodup_removeIdle
  removeIdle_of_not_mem resIncrease_eq resDecrease_eq)

/-! ### program classes -/
/-- after the close statement: only gauge / resource decrements, then at most one final put -/
def tailOk : List DStep → Bool
  | [] => true
  | [.put] => true
  | .decHost :: r | .decCluster :: r | .decRes :: r => tailOk r
  | _ => false

/-- the close test comes strictly before the (single, final) put -/
def progOk : List DStep → Bool
  | .closeIf _ :: r => tailOk r
  | .decHost :: r | .decCluster :: r | .decRes :: r => progOk r
  | _ => false

def idleClean (s : State) : Prop :=
  ∀ c, c ∈ s.idle → c < s.nClients ∧ (s.client c).closed = false ∧ (s.client c).netOpen = true ∧
    (s.client c).dirty = false ∧ (s.client c).live = false

def P (cl : Client) : Prop := cl.closed = true ∨ (cl.netOpen = true ∧ cl.dirty = false)
def Q (cl : Client) : Prop := cl.closed = true ∨ (cl.netOpen = true ∧ (cl.dirty = true → cl.closeConn = true))

def taskOk (cl : Client) (p : List DStep) : Prop :=
  (progOk p = true ∧ Q cl) ∨ (tailOk p = true ∧ P cl) ∨
  (∃ ret r, p = .poolEvent ret :: r ∧ tailOk r = true ∧ cl.netOpen = false ∧ cl.closed = false)

structure InvF (idle : List Nat) (n : Nat) (cl : Nat → Client) (ts : List Task) (prog : List DStep) : Prop where
  clean : ∀ c, c ∈ idle → c < n ∧ (cl c).closed = false ∧ (cl c).netOpen = true ∧ (cl c).dirty = false ∧ (cl c).live = false
  nodup : idle.Nodup
  prog : progOk prog = true
  liveOk : ∀ c, c < n → (cl c).live = true →
    (∀ p, (c, p) ∉ ts) ∧ (cl c).netOpen = true ∧ (cl c).closed = false ∧ (cl c).dirty = false
  task : ∀ c p, (c, p) ∈ ts → c < n ∧ c ∉ idle ∧ (cl c).live = false ∧ taskOk (cl c) p
  distinct : (ts.map Prod.fst).Nodup

/-- the inductive invariant -/
def Inv (s : State) : Prop := InvF s.idle s.nClients s.client s.tasks s.prog

/-! ### list surgery on the task list -/
theorem mem_eraseIdx_task (ts : List Task) (k c : Nat) (p : List DStep) (hd : (ts.map Prod.fst).Nodup)
    (hk : ts[k]? = some (c, p)) (x : Task) (hx : x ∈ ts.eraseIdx k) : x ∈ ts ∧ x.1 ≠ c := by
  induction ts generalizing k with
  | nil => simp at hk
  | cons t r ih =>
    simp only [List.map_cons, List.nodup_cons, List.mem_map, not_exists, not_and] at hd
    cases k with
    | zero =>
      simp only [List.getElem?_cons_zero, Option.some.injEq] at hk
      simp only [List.eraseIdx_cons_zero] at hx
      refine ⟨List.mem_cons_of_mem _ hx, ?_⟩
      intro e; exact hd.1 x hx (by rw [hk]; exact e)
    | succ k =>
      simp only [List.getElem?_cons_succ] at hk
      simp only [List.eraseIdx_cons_succ, List.mem_cons] at hx
      rcases hx with hx | hx
      · subst hx
        refine ⟨List.mem_cons_self, ?_⟩
        intro e
        have hm := List.mem_of_getElem? hk
        exact hd.1 _ hm e.symm
      · have := ih k hd.2 hk hx
        exact ⟨List.mem_cons_of_mem _ this.1, this.2⟩

theorem mem_set_task (ts : List Task) (k c : Nat) (p q : List DStep) (hd : (ts.map Prod.fst).Nodup)
    (hk : ts[k]? = some (c, p)) (x : Task) (hx : x ∈ ts.set k (c, q)) : x = (c, q) ∨ (x ∈ ts ∧ x.1 ≠ c) := by
  induction ts generalizing k with
  | nil => simp at hk
  | cons t r ih =>
    simp only [List.map_cons, List.nodup_cons, List.mem_map, not_exists, not_and] at hd
    cases k with
    | zero =>
      simp only [List.getElem?_cons_zero, Option.some.injEq] at hk
      simp only [List.set_cons_zero, List.mem_cons] at hx
      rcases hx with hx | hx
      · exact Or.inl hx
      · refine Or.inr ⟨List.mem_cons_of_mem _ hx, ?_⟩
        intro e; exact hd.1 x hx (by rw [hk]; exact e)
    | succ k =>
      simp only [List.getElem?_cons_succ] at hk
      simp only [List.set_cons_succ, List.mem_cons] at hx
      rcases hx with hx | hx
      · subst hx
        refine Or.inr ⟨List.mem_cons_self, ?_⟩
        intro e
        have hm := List.mem_of_getElem? hk
        exact hd.1 _ hm e.symm
      · rcases ih k hd.2 hk hx with h | h
        · exact Or.inl h
        · exact Or.inr ⟨List.mem_cons_of_mem _ h.1, h.2⟩

theorem map_fst_set_task (ts : List Task) (k c : Nat) (p q : List DStep) (hk : ts[k]? = some (c, p)) :
    (ts.set k (c, q)).map Prod.fst = ts.map Prod.fst := by
  induction ts generalizing k with
  | nil => simp at hk
  | cons t r ih =>
    cases k with
    | zero =>
      simp only [List.getElem?_cons_zero, Option.some.injEq] at hk
      simp [hk]
    | succ k =>
      simp only [List.getElem?_cons_succ] at hk
      simp [ih k hk]

theorem mem_setTask (ts : List Task) (k c : Nat) (p rest' : List DStep) (hd : (ts.map Prod.fst).Nodup)
    (hk : ts[k]? = some (c, p)) (x : Task) (hx : x ∈ setTask ts k c rest') :
    (x = (c, rest') ∧ rest' ≠ []) ∨ (x ∈ ts ∧ x.1 ≠ c) := by
  unfold setTask at hx
  split at hx
  · exact Or.inr (mem_eraseIdx_task ts k c p hd hk x hx)
  · rename_i hne
    rcases mem_set_task ts k c p rest' hd hk x hx with h | h
    · exact Or.inl ⟨h, by simpa using hne⟩
    · exact Or.inr h

theorem nodup_setTask (ts : List Task) (k c : Nat) (p rest' : List DStep) (hd : (ts.map Prod.fst).Nodup)
    (hk : ts[k]? = some (c, p)) : ((setTask ts k c rest').map Prod.fst).Nodup := by
  unfold setTask
  split
  · exact hd.sublist ((List.eraseIdx_sublist ts k).map _)
  · rw [map_fst_set_task ts k c p rest' hk]; exact hd

/-! ### preservation, on the five components the invariant reads -/
section pres
variable {idle : List Nat} {n : Nat} {cl : Nat → Client} {ts : List Task} {prog : List DStep}

theorem invF_new (h : InvF idle n cl ts prog) (g : Nat → Client) (hg : g n = { live := true })
    (hne : ∀ k, k ≠ n → g k = cl k) : InvF idle (n + 1) g ts prog where
  clean := by
    intro c hc
    have := h.clean c hc
    have hcn : c ≠ n := by omega
    rw [hne c hcn]; exact ⟨by omega, this.2⟩
  nodup := h.nodup
  prog := h.prog
  liveOk := by
    intro c hc hl
    by_cases hcn : c = n
    · subst hcn
      rw [hg]
      refine ⟨?_, rfl, rfl, rfl⟩
      intro p hp
      have := (h.task c p hp).1
      omega
    · rw [hne c hcn] at hl ⊢
      exact h.liveOk c (by omega) hl
  task := by
    intro c p hp
    have := h.task c p hp
    have hcn : c ≠ n := by omega
    rw [hne c hcn]; exact ⟨by omega, this.2⟩
  distinct := h.distinct

theorem invF_pop {ys : List Nat} {c : Nat} (h : InvF (ys ++ [c]) n cl ts prog) (g : Nat → Client)
    (hg : g c = { cl c with live := true }) (hne : ∀ k, k ≠ c → g k = cl k) : InvF ys n g ts prog := by
  have hnd := List.nodup_append.mp h.nodup
  have hcy : c ∉ ys := fun hm => hnd.2.2 c hm c (by simp) rfl
  have hcc := h.clean c (by simp)
  refine ⟨?_, hnd.1, h.prog, ?_, ?_, h.distinct⟩
  · intro x hx
    have hxc : x ≠ c := fun e => hcy (e ▸ hx)
    rw [hne x hxc]; exact h.clean x (by simp [hx])
  · intro x hx hl
    by_cases hxc : x = c
    · subst hxc
      rw [hg]
      refine ⟨?_, hcc.2.2.1, hcc.2.1, hcc.2.2.2.1⟩
      intro p hp
      exact (h.task x p hp).2.1 (by simp)
    · rw [hne x hxc] at hl ⊢
      exact h.liveOk x hx hl
  · intro x p hp
    have := h.task x p hp
    have hxc : x ≠ c := fun e => this.2.1 (by simp [e])
    rw [hne x hxc]
    exact ⟨this.1, fun hm => this.2.1 (by simp [hm]), this.2.2⟩

theorem invF_end (h : InvF idle n cl ts prog) (c : Nat) (hc : c < n) (hl : (cl c).live = true) (g : Nat → Client)
    (hgl : (g c).live = false) (hq : Q (g c)) (hne : ∀ k, k ≠ c → g k = cl k) :
    InvF idle n g (ts ++ [(c, prog)]) prog := by
  have hlc := h.liveOk c hc hl
  have hci : c ∉ idle := fun hm => by have := (h.clean c hm).2.2.2.2; rw [hl] at this; cases this
  refine ⟨?_, h.nodup, h.prog, ?_, ?_, ?_⟩
  · intro x hx
    have hxc : x ≠ c := fun e => hci (e ▸ hx)
    rw [hne x hxc]; exact h.clean x hx
  · intro x hx hlx
    have hxc : x ≠ c := fun e => by rw [e, hgl] at hlx; cases hlx
    rw [hne x hxc] at hlx ⊢
    have := h.liveOk x hx hlx
    refine ⟨?_, this.2⟩
    intro p hp
    simp only [List.mem_append, List.mem_singleton, Prod.mk.injEq] at hp
    rcases hp with hp | hp
    · exact this.1 p hp
    · exact hxc hp.1
  · intro x p hp
    simp only [List.mem_append, List.mem_singleton, Prod.mk.injEq] at hp
    rcases hp with hp | ⟨rfl, rfl⟩
    · have := h.task x p hp
      have hxc : x ≠ c := fun e => by rw [e, hl] at this; cases this.2.2.1
      rw [hne x hxc]; exact this
    · exact ⟨hc, hci, hgl, Or.inl ⟨h.prog, hq⟩⟩
  · rw [List.map_append, List.nodup_append]
    refine ⟨h.distinct, by simp, ?_⟩
    intro a ha b hb e
    simp only [List.map_cons, List.map_nil, List.mem_singleton] at hb
    subst hb; subst e
    simp only [List.mem_map] at ha
    obtain ⟨⟨x, p⟩, hm, rfl⟩ := ha
    exact hlc.1 p hm

theorem invF_closeIdle (h : InvF idle n cl ts prog) (k : Kind) (c : Nat) (hnet : (cl c).netOpen = true)
    (hl : (cl c).live = false) (g : Nat → Client)
    (hg : g c = { cl c with netOpen := false, closed := true }) (hne : ∀ k, k ≠ c → g k = cl k) :
    InvF (removeIdle k idle c) n g ts prog := by
  refine ⟨?_, nodup_removeIdle k idle h.nodup c, h.prog, ?_, ?_, h.distinct⟩
  · intro x hx
    rw [mem_removeIdle k idle h.nodup c x] at hx
    rw [hne x hx.2]; exact h.clean x hx.1
  · intro x hx hlx
    have hxc : x ≠ c := fun e => by rw [e, hg] at hlx; simp only at hlx; rw [hl] at hlx; cases hlx
    rw [hne x hxc] at hlx ⊢
    exact h.liveOk x hx hlx
  · intro x p hp
    have := h.task x p hp
    have hni : x ∉ removeIdle k idle c := fun hm => this.2.1 ((mem_removeIdle k idle h.nodup c x).mp hm).1
    by_cases hxc : x = c
    · subst hxc
      rw [hg]
      refine ⟨this.1, hni, hl, ?_⟩
      rcases this.2.2.2 with ⟨hp1, _⟩ | ⟨hp1, _⟩ | ⟨_, _, _, _, hno, _⟩
      · exact Or.inl ⟨hp1, Or.inl rfl⟩
      · exact Or.inr (Or.inl ⟨hp1, Or.inl rfl⟩)
      · rw [hnet] at hno; cases hno
    · rw [hne x hxc]; exact ⟨this.1, hni, this.2.2⟩

theorem invF_flag (h : InvF idle n cl ts prog) (c : Nat) (g : Nat → Client)
    (hg : g c = { cl c with closeConn := true }) (hne : ∀ k, k ≠ c → g k = cl k) : InvF idle n g ts prog := by
  have key : ∀ x, (g x).closed = (cl x).closed ∧ (g x).netOpen = (cl x).netOpen ∧ (g x).dirty = (cl x).dirty ∧
      (g x).live = (cl x).live ∧ ((cl x).closeConn = true → (g x).closeConn = true) := by
    intro x
    by_cases hxc : x = c
    · subst hxc; rw [hg]; simp
    · rw [hne x hxc]; simp
  refine ⟨?_, h.nodup, h.prog, ?_, ?_, h.distinct⟩
  · intro x hx
    have := h.clean x hx
    have k := key x
    rw [k.1, k.2.1, k.2.2.1, k.2.2.2.1]; exact this
  · intro x hx hlx
    have k := key x
    rw [k.2.2.2.1] at hlx
    rw [k.1, k.2.1, k.2.2.1]; exact h.liveOk x hx hlx
  · intro x p hp
    have := h.task x p hp
    have k := key x
    refine ⟨this.1, this.2.1, by rw [k.2.2.2.1]; exact this.2.2.1, ?_⟩
    unfold taskOk P Q at *
    rw [k.1, k.2.1, k.2.2.1]
    rcases this.2.2.2 with ⟨a, b⟩ | h2 | h3
    · refine Or.inl ⟨a, ?_⟩
      rcases b with b | b
      · exact Or.inl b
      · exact Or.inr ⟨b.1, fun hd => k.2.2.2.2 (b.2 hd)⟩
    · exact Or.inr (Or.inl h2)
    · exact Or.inr (Or.inr h3)

/-- a task statement that leaves the idle list alone -/
theorem invF_task_keep (h : InvF idle n cl ts prog) (k c : Nat) (p : List DStep) (hk : ts[k]? = some (c, p))
    (g : Nat → Client) (hne : ∀ k, k ≠ c → g k = cl k) (hgl : (g c).live = false) (rest' : List DStep)
    (hok : rest' ≠ [] → taskOk (g c) rest') : InvF idle n g (setTask ts k c rest') prog := by
  have hm := List.mem_of_getElem? hk
  have hc := h.task c p hm
  refine ⟨?_, h.nodup, h.prog, ?_, ?_, nodup_setTask ts k c p rest' h.distinct hk⟩
  · intro x hx
    have hxc : x ≠ c := fun e => hc.2.1 (e ▸ hx)
    rw [hne x hxc]; exact h.clean x hx
  · intro x hx hlx
    have hxc : x ≠ c := fun e => by rw [e, hgl] at hlx; cases hlx
    rw [hne x hxc] at hlx ⊢
    have := h.liveOk x hx hlx
    refine ⟨?_, this.2⟩
    intro q hq
    rcases mem_setTask ts k c p rest' h.distinct hk _ hq with ⟨e, _⟩ | ⟨hq', _⟩
    · simp only [Prod.mk.injEq] at e; exact hxc e.1
    · exact this.1 q hq'
  · intro x q hq
    rcases mem_setTask ts k c p rest' h.distinct hk _ hq with ⟨e, hr⟩ | ⟨hq', hxc⟩
    · simp only [Prod.mk.injEq] at e
      obtain ⟨rfl, rfl⟩ := e
      exact ⟨hc.1, hc.2.1, hgl, hok hr⟩
    · simp only at hxc
      rw [hne x hxc]; exact h.task x q hq'

/-- the final put back -/
theorem invF_task_put (h : InvF idle n cl ts prog) (k c : Nat) (p : List DStep) (hk : ts[k]? = some (c, p))
    (hcl : (cl c).closed = false) (hnet : (cl c).netOpen = true) (hd : (cl c).dirty = false) :
    InvF (idle ++ [c]) n cl (setTask ts k c []) prog := by
  have hm := List.mem_of_getElem? hk
  have hc := h.task c p hm
  refine ⟨?_, ?_, h.prog, ?_, ?_, nodup_setTask ts k c p [] h.distinct hk⟩
  · intro x hx
    simp only [List.mem_append, List.mem_singleton] at hx
    rcases hx with hx | rfl
    · exact h.clean x hx
    · exact ⟨hc.1, hcl, hnet, hd, hc.2.2.1⟩
  · rw [List.nodup_append]
    refine ⟨h.nodup, by simp, ?_⟩
    intro a ha b hb e
    simp only [List.mem_singleton] at hb
    subst hb; subst e
    exact hc.2.1 ha
  · intro x hx hlx
    have := h.liveOk x hx hlx
    refine ⟨?_, this.2⟩
    intro q hq
    rcases mem_setTask ts k c p [] h.distinct hk _ hq with ⟨_, hr⟩ | ⟨hq', _⟩
    · exact hr rfl
    · exact this.1 q hq'
  · intro x q hq
    rcases mem_setTask ts k c p [] h.distinct hk _ hq with ⟨_, hr⟩ | ⟨hq', hxc⟩
    · exact absurd rfl hr
    · simp only at hxc
      have := h.task x q hq'
      refine ⟨this.1, ?_, this.2.2⟩
      simp only [List.mem_append, List.mem_singleton, not_or]
      exact ⟨this.2.1, hxc⟩

end pres

end MosnVerif.Lemmas.PoolWin
