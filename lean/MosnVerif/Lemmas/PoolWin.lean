import MosnVerif.Model.PoolWin
import MosnVerif.Lemmas.Pool
/-! The intermediate states of `OnDestroyStream` (model `Model/PoolWin.lean`): for every statement program in which the
close test comes strictly before the single, final put back (`progOk`), under every interleaving of the labels, the idle
list only holds open, unclosed, clean, unleased connections, and a lease never hands out a dirty connection.
Second part: the request ledger (gauges and breaker) is exact in every intermediate state. Core Lean only. -/
namespace MosnVerif.Lemmas.PoolWin
open MosnVerif.Model.PoolWin MosnVerif.Gen.Pool MosnVerif.Gen.PoolDestroy
open MosnVerif.Model.Pool (Kind Dial Res putBack closeOnDestroy markClose removeIdle mem_removeIdle nodup_removeIdle
  removeIdle_of_not_mem resIncrease_eq resDecrease_eq)

/-! ### program classes -/
/-- after the close statement: only gauge / resource decrements, then at most one final put -/
def tailOk : List DStep → Bool
  | [] => true
  | [.put] => true
  | .decHost :: r | .decCluster :: r | .decRes :: r => tailOk r
  | _ => false

/-- the close test comes strictly before the (single, final) put -/
def progOk : List DStep → Bool
  | .closeIf _ :: r => tailOk r
  | .decHost :: r | .decCluster :: r | .decRes :: r => progOk r
  | _ => false

def idleClean (s : State) : Prop :=
  ∀ c, c ∈ s.idle → c < s.nClients ∧ (s.client c).closed = false ∧ (s.client c).netOpen = true ∧
    (s.client c).dirty = false ∧ (s.client c).live = false

def P (cl : Client) : Prop := cl.closed = true ∨ (cl.netOpen = true ∧ cl.dirty = false)
def Q (cl : Client) : Prop := cl.closed = true ∨ (cl.netOpen = true ∧ (cl.dirty = true → cl.closeConn = true))

def taskOk (cl : Client) (p : List DStep) : Prop :=
  (progOk p = true ∧ Q cl) ∨ (tailOk p = true ∧ P cl) ∨
  (∃ ret r, p = .poolEvent ret :: r ∧ tailOk r = true ∧ cl.netOpen = false ∧ cl.closed = false)

structure InvF (idle : List Nat) (n : Nat) (cl : Nat → Client) (ts : List Task) (prog : List DStep) : Prop where
  clean : ∀ c, c ∈ idle → c < n ∧ (cl c).closed = false ∧ (cl c).netOpen = true ∧ (cl c).dirty = false ∧ (cl c).live = false
  nodup : idle.Nodup
  prog : progOk prog = true
  liveOk : ∀ c, c < n → (cl c).live = true →
    (∀ p, (c, p) ∉ ts) ∧ (cl c).netOpen = true ∧ (cl c).closed = false ∧ (cl c).dirty = false
  task : ∀ c p, (c, p) ∈ ts → c < n ∧ c ∉ idle ∧ (cl c).live = false ∧ taskOk (cl c) p
  distinct : (ts.map Prod.fst).Nodup

/-- the inductive invariant -/
def Inv (s : State) : Prop := InvF s.idle s.nClients s.client s.tasks s.prog

/-! ### list surgery on the task list -/
theorem mem_eraseIdx_task (ts : List Task) (k c : Nat) (p : List DStep) (hd : (ts.map Prod.fst).Nodup)
    (hk : ts[k]? = some (c, p)) (x : Task) (hx : x ∈ ts.eraseIdx k) : x ∈ ts ∧ x.1 ≠ c := by
  induction ts generalizing k with
  | nil => simp at hk
  | cons t r ih =>
    simp only [List.map_cons, List.nodup_cons, List.mem_map, not_exists, not_and] at hd
    cases k with
    | zero =>
      simp only [List.getElem?_cons_zero, Option.some.injEq] at hk
      simp only [List.eraseIdx_cons_zero] at hx
      refine ⟨List.mem_cons_of_mem _ hx, ?_⟩
      intro e; exact hd.1 x hx (by rw [hk]; exact e)
    | succ k =>
      simp only [List.getElem?_cons_succ] at hk
      simp only [List.eraseIdx_cons_succ, List.mem_cons] at hx
      rcases hx with hx | hx
      · subst hx
        refine ⟨List.mem_cons_self, ?_⟩
        intro e
        have hm := List.mem_of_getElem? hk
        exact hd.1 _ hm e.symm
      · have := ih k hd.2 hk hx
        exact ⟨List.mem_cons_of_mem _ this.1, this.2⟩

theorem mem_set_task (ts : List Task) (k c : Nat) (p q : List DStep) (hd : (ts.map Prod.fst).Nodup)
    (hk : ts[k]? = some (c, p)) (x : Task) (hx : x ∈ ts.set k (c, q)) : x = (c, q) ∨ (x ∈ ts ∧ x.1 ≠ c) := by
  induction ts generalizing k with
  | nil => simp at hk
  | cons t r ih =>
    simp only [List.map_cons, List.nodup_cons, List.mem_map, not_exists, not_and] at hd
    cases k with
    | zero =>
      simp only [List.getElem?_cons_zero, Option.some.injEq] at hk
      simp only [List.set_cons_zero, List.mem_cons] at hx
      rcases hx with hx | hx
      · exact Or.inl hx
      · refine Or.inr ⟨List.mem_cons_of_mem _ hx, ?_⟩
        intro e; exact hd.1 x hx (by rw [hk]; exact e)
    | succ k =>
      simp only [List.getElem?_cons_succ] at hk
      simp only [List.set_cons_succ, List.mem_cons] at hx
      rcases hx with hx | hx
      · subst hx
        refine Or.inr ⟨List.mem_cons_self, ?_⟩
        intro e
        have hm := List.mem_of_getElem? hk
        exact hd.1 _ hm e.symm
      · rcases ih k hd.2 hk hx with h | h
        · exact Or.inl h
        · exact Or.inr ⟨List.mem_cons_of_mem _ h.1, h.2⟩

theorem map_fst_set_task (ts : List Task) (k c : Nat) (p q : List DStep) (hk : ts[k]? = some (c, p)) :
    (ts.set k (c, q)).map Prod.fst = ts.map Prod.fst := by
  induction ts generalizing k with
  | nil => simp at hk
  | cons t r ih =>
    cases k with
    | zero =>
      simp only [List.getElem?_cons_zero, Option.some.injEq] at hk
      simp [hk]
    | succ k =>
      simp only [List.getElem?_cons_succ] at hk
      simp [ih k hk]

theorem mem_setTask (ts : List Task) (k c : Nat) (p rest' : List DStep) (hd : (ts.map Prod.fst).Nodup)
    (hk : ts[k]? = some (c, p)) (x : Task) (hx : x ∈ setTask ts k c rest') :
    (x = (c, rest') ∧ rest' ≠ []) ∨ (x ∈ ts ∧ x.1 ≠ c) := by
  unfold setTask at hx
  split at hx
  · exact Or.inr (mem_eraseIdx_task ts k c p hd hk x hx)
  · rename_i hne
    rcases mem_set_task ts k c p rest' hd hk x hx with h | h
    · exact Or.inl ⟨h, by simpa using hne⟩
    · exact Or.inr h

theorem nodup_setTask (ts : List Task) (k c : Nat) (p rest' : List DStep) (hd : (ts.map Prod.fst).Nodup)
    (hk : ts[k]? = some (c, p)) : ((setTask ts k c rest').map Prod.fst).Nodup := by
  unfold setTask
  split
  · exact hd.sublist ((List.eraseIdx_sublist ts k).map _)
  · rw [map_fst_set_task ts k c p rest' hk]; exact hd

/-! ### preservation, on the five components the invariant reads -/
section pres
variable {idle : List Nat} {n : Nat} {cl : Nat → Client} {ts : List Task} {prog : List DStep}

theorem invF_new (h : InvF idle n cl ts prog) (g : Nat → Client) (hg : g n = { live := true })
    (hne : ∀ k, k ≠ n → g k = cl k) : InvF idle (n + 1) g ts prog where
  clean := by
    intro c hc
    have := h.clean c hc
    have hcn : c ≠ n := by omega
    rw [hne c hcn]; exact ⟨by omega, this.2⟩
  nodup := h.nodup
  prog := h.prog
  liveOk := by
    intro c hc hl
    by_cases hcn : c = n
    · subst hcn
      rw [hg]
      refine ⟨?_, rfl, rfl, rfl⟩
      intro p hp
      have := (h.task c p hp).1
      omega
    · rw [hne c hcn] at hl ⊢
      exact h.liveOk c (by omega) hl
  task := by
    intro c p hp
    have := h.task c p hp
    have hcn : c ≠ n := by omega
    rw [hne c hcn]; exact ⟨by omega, this.2⟩
  distinct := h.distinct

theorem invF_pop {ys : List Nat} {c : Nat} (h : InvF (ys ++ [c]) n cl ts prog) (g : Nat → Client)
    (hg : g c = { cl c with live := true }) (hne : ∀ k, k ≠ c → g k = cl k) : InvF ys n g ts prog := by
  have hnd := List.nodup_append.mp h.nodup
  have hcy : c ∉ ys := fun hm => hnd.2.2 c hm c (by simp) rfl
  have hcc := h.clean c (by simp)
  refine ⟨?_, hnd.1, h.prog, ?_, ?_, h.distinct⟩
  · intro x hx
    have hxc : x ≠ c := fun e => hcy (e ▸ hx)
    rw [hne x hxc]; exact h.clean x (by simp [hx])
  · intro x hx hl
    by_cases hxc : x = c
    · subst hxc
      rw [hg]
      refine ⟨?_, hcc.2.2.1, hcc.2.1, hcc.2.2.2.1⟩
      intro p hp
      exact (h.task x p hp).2.1 (by simp)
    · rw [hne x hxc] at hl ⊢
      exact h.liveOk x hx hl
  · intro x p hp
    have := h.task x p hp
    have hxc : x ≠ c := fun e => this.2.1 (by simp [e])
    rw [hne x hxc]
    exact ⟨this.1, fun hm => this.2.1 (by simp [hm]), this.2.2⟩

theorem invF_end (h : InvF idle n cl ts prog) (c : Nat) (hc : c < n) (hl : (cl c).live = true) (g : Nat → Client)
    (hgl : (g c).live = false) (hq : Q (g c)) (hne : ∀ k, k ≠ c → g k = cl k) :
    InvF idle n g (ts ++ [(c, prog)]) prog := by
  have hlc := h.liveOk c hc hl
  have hci : c ∉ idle := fun hm => by have := (h.clean c hm).2.2.2.2; rw [hl] at this; cases this
  refine ⟨?_, h.nodup, h.prog, ?_, ?_, ?_⟩
  · intro x hx
    have hxc : x ≠ c := fun e => hci (e ▸ hx)
    rw [hne x hxc]; exact h.clean x hx
  · intro x hx hlx
    have hxc : x ≠ c := fun e => by rw [e, hgl] at hlx; cases hlx
    rw [hne x hxc] at hlx ⊢
    have := h.liveOk x hx hlx
    refine ⟨?_, this.2⟩
    intro p hp
    simp only [List.mem_append, List.mem_singleton, Prod.mk.injEq] at hp
    rcases hp with hp | hp
    · exact this.1 p hp
    · exact hxc hp.1
  · intro x p hp
    simp only [List.mem_append, List.mem_singleton, Prod.mk.injEq] at hp
    rcases hp with hp | ⟨rfl, rfl⟩
    · have := h.task x p hp
      have hxc : x ≠ c := fun e => by rw [e, hl] at this; cases this.2.2.1
      rw [hne x hxc]; exact this
    · exact ⟨hc, hci, hgl, Or.inl ⟨h.prog, hq⟩⟩
  · rw [List.map_append, List.nodup_append]
    refine ⟨h.distinct, by simp, ?_⟩
    intro a ha b hb e
    simp only [List.map_cons, List.map_nil, List.mem_singleton] at hb
    subst hb; subst e
    simp only [List.mem_map] at ha
    obtain ⟨⟨x, p⟩, hm, rfl⟩ := ha
    exact hlc.1 p hm

theorem invF_closeIdle (h : InvF idle n cl ts prog) (k : Kind) (c : Nat) (hnet : (cl c).netOpen = true)
    (hl : (cl c).live = false) (g : Nat → Client)
    (hg : g c = { cl c with netOpen := false, closed := true }) (hne : ∀ k, k ≠ c → g k = cl k) :
    InvF (removeIdle k idle c) n g ts prog := by
  refine ⟨?_, nodup_removeIdle k idle h.nodup c, h.prog, ?_, ?_, h.distinct⟩
  · intro x hx
    rw [mem_removeIdle k idle h.nodup c x] at hx
    rw [hne x hx.2]; exact h.clean x hx.1
  · intro x hx hlx
    have hxc : x ≠ c := fun e => by rw [e, hg] at hlx; simp only at hlx; rw [hl] at hlx; cases hlx
    rw [hne x hxc] at hlx ⊢
    exact h.liveOk x hx hlx
  · intro x p hp
    have := h.task x p hp
    have hni : x ∉ removeIdle k idle c := fun hm => this.2.1 ((mem_removeIdle k idle h.nodup c x).mp hm).1
    by_cases hxc : x = c
    · subst hxc
      rw [hg]
      refine ⟨this.1, hni, hl, ?_⟩
      rcases this.2.2.2 with ⟨hp1, _⟩ | ⟨hp1, _⟩ | ⟨_, _, _, _, hno, _⟩
      · exact Or.inl ⟨hp1, Or.inl rfl⟩
      · exact Or.inr (Or.inl ⟨hp1, Or.inl rfl⟩)
      · rw [hnet] at hno; cases hno
    · rw [hne x hxc]; exact ⟨this.1, hni, this.2.2⟩

theorem invF_flag (h : InvF idle n cl ts prog) (c : Nat) (g : Nat → Client)
    (hg : g c = { cl c with closeConn := true }) (hne : ∀ k, k ≠ c → g k = cl k) : InvF idle n g ts prog := by
  have key : ∀ x, (g x).closed = (cl x).closed ∧ (g x).netOpen = (cl x).netOpen ∧ (g x).dirty = (cl x).dirty ∧
      (g x).live = (cl x).live ∧ ((cl x).closeConn = true → (g x).closeConn = true) := by
    intro x
    by_cases hxc : x = c
    · subst hxc; rw [hg]; simp
    · rw [hne x hxc]; simp
  refine ⟨?_, h.nodup, h.prog, ?_, ?_, h.distinct⟩
  · intro x hx
    have := h.clean x hx
    have k := key x
    rw [k.1, k.2.1, k.2.2.1, k.2.2.2.1]; exact this
  · intro x hx hlx
    have k := key x
    rw [k.2.2.2.1] at hlx
    rw [k.1, k.2.1, k.2.2.1]; exact h.liveOk x hx hlx
  · intro x p hp
    have := h.task x p hp
    have k := key x
    refine ⟨this.1, this.2.1, by rw [k.2.2.2.1]; exact this.2.2.1, ?_⟩
    unfold taskOk P Q at *
    rw [k.1, k.2.1, k.2.2.1]
    rcases this.2.2.2 with ⟨a, b⟩ | h2 | h3
    · refine Or.inl ⟨a, ?_⟩
      rcases b with b | b
      · exact Or.inl b
      · exact Or.inr ⟨b.1, fun hd => k.2.2.2.2 (b.2 hd)⟩
    · exact Or.inr (Or.inl h2)
    · exact Or.inr (Or.inr h3)

/-- a task statement that leaves the idle list alone -/
theorem invF_task_keep (h : InvF idle n cl ts prog) (k c : Nat) (p : List DStep) (hk : ts[k]? = some (c, p))
    (g : Nat → Client) (hne : ∀ k, k ≠ c → g k = cl k) (hgl : (g c).live = false) (rest' : List DStep)
    (hok : rest' ≠ [] → taskOk (g c) rest') : InvF idle n g (setTask ts k c rest') prog := by
  have hm := List.mem_of_getElem? hk
  have hc := h.task c p hm
  refine ⟨?_, h.nodup, h.prog, ?_, ?_, nodup_setTask ts k c p rest' h.distinct hk⟩
  · intro x hx
    have hxc : x ≠ c := fun e => hc.2.1 (e ▸ hx)
    rw [hne x hxc]; exact h.clean x hx
  · intro x hx hlx
    have hxc : x ≠ c := fun e => by rw [e, hgl] at hlx; cases hlx
    rw [hne x hxc] at hlx ⊢
    have := h.liveOk x hx hlx
    refine ⟨?_, this.2⟩
    intro q hq
    rcases mem_setTask ts k c p rest' h.distinct hk _ hq with ⟨e, _⟩ | ⟨hq', _⟩
    · simp only [Prod.mk.injEq] at e; exact hxc e.1
    · exact this.1 q hq'
  · intro x q hq
    rcases mem_setTask ts k c p rest' h.distinct hk _ hq with ⟨e, hr⟩ | ⟨hq', hxc⟩
    · simp only [Prod.mk.injEq] at e
      obtain ⟨rfl, rfl⟩ := e
      exact ⟨hc.1, hc.2.1, hgl, hok hr⟩
    · simp only at hxc
      rw [hne x hxc]; exact h.task x q hq'

/-- the final put back -/
theorem invF_task_put (h : InvF idle n cl ts prog) (k c : Nat) (p : List DStep) (hk : ts[k]? = some (c, p))
    (hcl : (cl c).closed = false) (hnet : (cl c).netOpen = true) (hd : (cl c).dirty = false) :
    InvF (idle ++ [c]) n cl (setTask ts k c []) prog := by
  have hm := List.mem_of_getElem? hk
  have hc := h.task c p hm
  refine ⟨?_, ?_, h.prog, ?_, ?_, nodup_setTask ts k c p [] h.distinct hk⟩
  · intro x hx
    simp only [List.mem_append, List.mem_singleton] at hx
    rcases hx with hx | rfl
    · exact h.clean x hx
    · exact ⟨hc.1, hcl, hnet, hd, hc.2.2.1⟩
  · rw [List.nodup_append]
    refine ⟨h.nodup, by simp, ?_⟩
    intro a ha b hb e
    simp only [List.mem_singleton] at hb
    subst hb; subst e
    exact hc.2.1 ha
  · intro x hx hlx
    have := h.liveOk x hx hlx
    refine ⟨?_, this.2⟩
    intro q hq
    rcases mem_setTask ts k c p [] h.distinct hk _ hq with ⟨_, hr⟩ | ⟨hq', _⟩
    · exact hr rfl
    · exact this.1 q hq'
  · intro x q hq
    rcases mem_setTask ts k c p [] h.distinct hk _ hq with ⟨_, hr⟩ | ⟨hq', hxc⟩
    · exact absurd rfl hr
    · simp only at hxc
      have := h.task x q hq'
      refine ⟨this.1, ?_, this.2.2⟩
      simp only [List.mem_append, List.mem_singleton, not_or]
      exact ⟨this.2.1, hxc⟩

end pres

/-! ### the counter movements do not touch what the invariant reads -/
structure Frame (s s' : State) : Prop where
  idle : s'.idle = s.idle
  client : s'.client = s.client
  tasks : s'.tasks = s.tasks
  nClients : s'.nClients = s.nClients
  prog : s'.prog = s.prog
  kind : s'.kind = s.kind
  maxReq : s'.maxReq = s.maxReq
  liveN : s'.liveN = s.liveN
  ext : s'.ext = s.ext

theorem frame_applyMove (s : State) (m : Nat) : Frame s (applyMove s m) := by
  unfold applyMove; split <;> constructor <;> rfl

theorem frame_applyMoves (s : State) (l : List Nat) : Frame s (applyMoves s l) := by
  induction l generalizing s with
  | nil => constructor <;> rfl
  | cons a r ih =>
    have f1 := frame_applyMove s a
    have f2 := ih (applyMove s a)
    have e : applyMoves s (a :: r) = applyMoves (applyMove s a) r := rfl
    rw [e]
    exact ⟨f2.idle.trans f1.idle, f2.client.trans f1.client, f2.tasks.trans f1.tasks, f2.nClients.trans f1.nClients,
      f2.prog.trans f1.prog, f2.kind.trans f1.kind, f2.maxReq.trans f1.maxReq, f2.liveN.trans f1.liveN, f2.ext.trans f1.ext⟩

theorem inv_of_frame {s s' : State} (f : Frame s s') : Inv s' ↔ Inv s := by
  unfold Inv; rw [f.idle, f.client, f.tasks, f.nClients, f.prog]

theorem inv_applyMoves (s : State) (l : List Nat) : Inv (applyMoves s l) ↔ Inv s := inv_of_frame (frame_applyMoves s l)

/-! ### NewStream -/
theorem acquire_spec (s : State) (d : Dial) (s1 : State) (r : Res) (he : acquire s d = (s1, r)) :
    (∃ t, s.idle = [] ∧ s1 = newClient { s with total := t } ∧ r = .ok s.nClients) ∨
    (s.idle ≠ [] ∧ s1 = { s with idle := s.idle.dropLast } ∧ r = .ok (s.idle.getLast?.getD 0)) ∨
    (∃ t, (∀ c, r ≠ .ok c) ∧ s1 = { s with total := t }) := by
  simp only [acquire] at he
  split at he
  · rename_i hi
    have hi' : s.idle = [] := by simpa using hi
    (repeat' split at he) <;> (obtain ⟨rfl, rfl⟩ := Prod.mk.inj he) <;>
      first
      | exact Or.inl ⟨_, hi', rfl, rfl⟩
      | exact Or.inr (Or.inr ⟨_, fun c hc => (by cases hc), rfl⟩)
      | exact Or.inr (Or.inr ⟨s.total, fun c hc => (by cases hc), rfl⟩)
  · rename_i hi
    split at he <;> (obtain ⟨rfl, rfl⟩ := Prod.mk.inj he)
    · exact Or.inr (Or.inr ⟨s.total, fun c hc => (by cases hc), rfl⟩)
    · exact Or.inr (Or.inl ⟨by simpa using hi, rfl, rfl⟩)

theorem frame_newClient (s : State) : Frame { s with nClients := s.nClients + 1, openN := s.openN + 1, client := fun k => if k = s.nClients then {} else s.client k } (newClient s) :=
  frame_applyMoves _ _

theorem inv_lease_new (s : State) (h : Inv s) : Inv (lease (newClient s) s.nClients) := by
  unfold lease
  rw [inv_applyMoves]
  have f := frame_newClient s
  show InvF (newClient s).idle (newClient s).nClients _ (newClient s).tasks (newClient s).prog
  rw [f.idle, f.tasks, f.nClients, f.prog]
  refine invF_new h _ ?_ ?_
  · simp only [State.updC, if_true]; rw [f.client]; simp
  · intro k hk; simp only [State.updC, if_neg hk]; rw [f.client]; simp [hk]

theorem inv_lease_pop (s : State) (h : Inv s) (hi : s.idle ≠ []) :
    Inv (lease { s with idle := s.idle.dropLast } (s.idle.getLast?.getD 0)) := by
  unfold lease
  rw [inv_applyMoves]
  rcases List.eq_nil_or_concat s.idle with e | ⟨ys, c, e⟩
  · exact absurd e hi
  · rw [List.concat_eq_append] at e
    have h' : InvF (ys ++ [c]) s.nClients s.client s.tasks s.prog := e ▸ h
    show InvF s.idle.dropLast s.nClients _ s.tasks s.prog
    have e1 : s.idle.dropLast = ys := by rw [e]; simp
    have e2 : s.idle.getLast?.getD 0 = c := by rw [e]; simp
    rw [e1]
    refine invF_pop h' _ ?_ ?_
    · simp [State.updC, e2]
    · intro k hk; simp [State.updC, e2, hk]

theorem inv_newStream (s : State) (d : Dial) (h : Inv s) : Inv (newStream s d).1 := by
  unfold newStream
  split
  · rcases hacq : acquire s d with ⟨s1, r⟩
    rcases acquire_spec s d s1 r hacq with ⟨t, hi, rfl, rfl⟩ | ⟨hi, rfl, rfl⟩ | ⟨t, hr, rfl⟩
    · exact inv_lease_new { s with total := t } h
    · exact inv_lease_pop s h hi
    · cases r with
      | ok c => exact absurd rfl (hr c)
      | none => exact h
      | overflow => exact h
      | connFail _ => exact h
  · exact h

/-! ### end of a request -/
theorem Q_endMarks (k : Kind) (cause : Cause) (cl : Client) (hn : cl.netOpen = true) (hd : cl.dirty = false)
    (hc : cl.closed = false) (hg : cause = .remoteReset → k = .h1) : Q { endMarks k cause cl with live := false } := by
  unfold Q; right
  cases cause <;> cases k <;>
    simp_all [endMarks, markClose, h1MarkClose, ppMarkClose, reasonStreamLocalReset, reasonStreamRemoteReset]

theorem inv_endStream (s : State) (c : Nat) (cause : Cause) (h : Inv s) : Inv (step s (.endStream c cause)).1 := by
  simp only [step]
  split
  · rename_i hg
    have hl := h.liveOk c hg.1 hg.2.1
    refine invF_end h c hg.1 hg.2.1 _ ?_ ?_ ?_
    · simp [State.updC]
    · simp only [State.updC, if_true]
      exact Q_endMarks s.kind cause (s.client c) hl.2.1 hl.2.2.2 hl.2.2.1 hg.2.2
    · intro k hk; simp [State.updC, hk]
  · exact h

/-! ### the pool's close handler -/
theorem frame_poolOnClose (s : State) (c : Nat) :
    Frame { s.updC c (fun cl => { cl with closed := true }) with
               total := s.total + MosnVerif.Model.Pool.closeDelta s.kind, idle := removeIdle s.kind s.idle c } (poolOnClose s c) :=
  frame_applyMoves _ _

theorem poolOnClose_idle (s : State) (c : Nat) : (poolOnClose s c).idle = removeIdle s.kind s.idle c := (frame_poolOnClose s c).idle
theorem poolOnClose_tasks (s : State) (c : Nat) : (poolOnClose s c).tasks = s.tasks := (frame_poolOnClose s c).tasks
theorem poolOnClose_nClients (s : State) (c : Nat) : (poolOnClose s c).nClients = s.nClients := (frame_poolOnClose s c).nClients
theorem poolOnClose_prog (s : State) (c : Nat) : (poolOnClose s c).prog = s.prog := (frame_poolOnClose s c).prog
theorem poolOnClose_liveN (s : State) (c : Nat) : (poolOnClose s c).liveN = s.liveN := (frame_poolOnClose s c).liveN
theorem poolOnClose_client_self (s : State) (c : Nat) : (poolOnClose s c).client c = { s.client c with closed := true } := by
  rw [(frame_poolOnClose s c).client]; simp [State.updC]
theorem poolOnClose_client_ne (s : State) (c k : Nat) (hk : k ≠ c) : (poolOnClose s c).client k = s.client k := by
  rw [(frame_poolOnClose s c).client]; simp [State.updC, hk]

/-- the connection of `c` is marked closed (first half of `netClose`) -/
def Y (s : State) (c : Nat) : State := { s.updC c (fun cl => { cl with netOpen := false }) with openN := s.openN - 1 }
/-- … and the pool's handler has run -/
def X (s : State) (c : Nat) : State := poolOnClose (Y s c) c

theorem X_idle (s : State) (c : Nat) : (X s c).idle = removeIdle s.kind s.idle c := poolOnClose_idle (Y s c) c
theorem X_tasks (s : State) (c : Nat) : (X s c).tasks = s.tasks := poolOnClose_tasks (Y s c) c
theorem X_nClients (s : State) (c : Nat) : (X s c).nClients = s.nClients := poolOnClose_nClients (Y s c) c
theorem X_prog (s : State) (c : Nat) : (X s c).prog = s.prog := poolOnClose_prog (Y s c) c
theorem X_liveN (s : State) (c : Nat) : (X s c).liveN = s.liveN := poolOnClose_liveN (Y s c) c
theorem X_client_self (s : State) (c : Nat) :
    (X s c).client c = { s.client c with netOpen := false, closed := true } := by
  unfold X; rw [poolOnClose_client_self]; simp [Y, State.updC]
theorem X_client_ne (s : State) (c k : Nat) (hk : k ≠ c) : (X s c).client k = s.client k := by
  unfold X; rw [poolOnClose_client_ne _ _ _ hk]; simp [Y, State.updC, hk]

theorem step_netClose_eq (s : State) (c : Nat) : step s (.netClose c) =
    if c < s.nClients ∧ (s.client c).netOpen = true then
      (if (s.client c).live = true then
        ({ (X s c).updC c (fun cl => { cl with live := false, dirty := true }) with
           liveN := (X s c).liveN - 1, tasks := (X s c).tasks ++ [(c, (X s c).prog)] }, .none)
      else (X s c, .none))
    else (s, .none) := rfl

theorem inv_netClose (s : State) (c : Nat) (h : Inv s) : Inv (step s (.netClose c)).1 := by
  rw [step_netClose_eq]
  split
  · rename_i hg
    split
    · rename_i hl
      have hci : c ∉ s.idle := fun hm => by have := (h.clean c hm).2.2.2.2; rw [hl] at this; cases this
      show InvF (X s c).idle (X s c).nClients
        (fun k => if k = c then { (X s c).client c with live := false, dirty := true } else (X s c).client k)
        ((X s c).tasks ++ [(c, (X s c).prog)]) (X s c).prog
      rw [X_idle, X_nClients, X_tasks, X_prog, removeIdle_of_not_mem _ _ _ hci]
      refine invF_end h c hg.1 hl _ ?_ ?_ ?_
      · simp
      · simp only [if_true]; rw [X_client_self]; exact Or.inl rfl
      · intro k hk; simp only [if_neg hk]; exact X_client_ne s c k hk
    · rename_i hl
      show InvF (X s c).idle (X s c).nClients (X s c).client (X s c).tasks (X s c).prog
      rw [X_idle, X_nClients, X_tasks, X_prog]
      exact invF_closeIdle h s.kind c hg.2 (by simpa using hl) _ (X_client_self s c) (fun k hk => X_client_ne s c k hk)
  · exact h

theorem inv_goAway (s : State) (c : Nat) (h : Inv s) : Inv (step s (.goAway c)).1 := by
  simp only [step]
  split
  · refine invF_flag h c _ ?_ ?_
    · simp [State.updC]
    · intro k hk; simp [State.updC, hk]
  · exact h

/-! ### one statement of OnDestroyStream -/
theorem taskOk_dec (cl : Client) (st : DStep) (rest : List DStep) (hst : st = .decHost ∨ st = .decCluster ∨ st = .decRes)
    (h : taskOk cl (st :: rest)) : taskOk cl rest := by
  unfold taskOk at *
  rcases h with ⟨a, b⟩ | ⟨a, b⟩ | ⟨ret, r, e, _⟩
  · exact Or.inl ⟨by rcases hst with rfl | rfl | rfl <;> simpa [progOk] using a, b⟩
  · exact Or.inr (Or.inl ⟨by rcases hst with rfl | rfl | rfl <;> simpa [tailOk] using a, b⟩)
  · rcases hst with rfl | rfl | rfl <;> simp at e

theorem inv_dec (s : State) (h : Inv s) (m k c : Nat) (st : DStep) (rest : List DStep)
    (hk : s.tasks[k]? = some (c, st :: rest)) (hst : st = .decHost ∨ st = .decCluster ∨ st = .decRes) :
    Inv { applyMove s m with tasks := setTask (applyMove s m).tasks k c rest } := by
  have f := frame_applyMove s m
  show InvF _ _ _ _ _
  simp only []
  rw [f.idle, f.client, f.tasks, f.nClients, f.prog]
  have hc := h.task c _ (List.mem_of_getElem? hk)
  exact invF_task_keep h k c _ hk s.client (fun _ _ => rfl) hc.2.2.1 rest (fun _ => taskOk_dec _ st rest hst hc.2.2.2)

theorem inv_taskStep (s : State) (k : Nat) (h : Inv s) : Inv (step s (.taskStep k)).1 := by
  simp only [step]
  split
  · rename_i c st rest hk
    have hc := h.task c _ (List.mem_of_getElem? hk)
    cases st with
    | decHost => exact inv_dec s h 0 k c _ rest hk (Or.inl rfl)
    | decCluster => exact inv_dec s h 1 k c _ rest hk (Or.inr (Or.inl rfl))
    | decRes => exact inv_dec s h 2 k c _ rest hk (Or.inr (Or.inr rfl))
    | bad =>
      exfalso
      have := hc.2.2.2
      simp [taskOk, progOk, tailOk] at this
    | put =>
      have ht := hc.2.2.2
      have hr : rest = [] ∧ P (s.client c) := by
        cases rest <;> simp [taskOk, progOk, tailOk] at ht <;> simpa using ht
      obtain ⟨rfl, hP⟩ := hr
      have hpbF : putBack s.kind false = true := by cases s.kind <;> rfl
      have hpbT : putBack s.kind true = false := by cases s.kind <;> rfl
      cases hcl : (s.client c).closed
      · have hP' : (s.client c).netOpen = true ∧ (s.client c).dirty = false := by
          rcases hP with hP | hP
          · rw [hcl] at hP; cases hP
          · exact hP
        simp only [execStep, hcl, hpbF, if_true]
        exact invF_task_put h k c _ hk hcl hP'.1 hP'.2
      · simp only [execStep, hcl, hpbT, Bool.false_eq_true, if_false]
        exact invF_task_keep h k c _ hk s.client (fun _ _ => rfl) hc.2.2.1 [] (fun hne => absurd rfl hne)
    | closeIf ret =>
      have ht : tailOk rest = true ∧ Q (s.client c) := by
        simpa [taskOk, progOk, tailOk] using hc.2.2.2
      have hcd : closeOnDestroy s.kind (s.client c).closed (s.client c).closeConn =
          (!(s.client c).closed && (s.client c).closeConn) := by cases s.kind <;> rfl
      have hcdT : closeOnDestroy s.kind false true = true := by cases s.kind <;> rfl
      by_cases hclose : (s.client c).closed = false ∧ (s.client c).closeConn = true
      · have hnet : (s.client c).netOpen = true := by
          rcases ht.2 with hq | hq
          · rw [hclose.1] at hq; cases hq
          · exact hq.1
        simp only [execStep, hclose.1, hclose.2, hcdT, hnet, if_true]
        show InvF s.idle s.nClients (fun x => if x = c then { s.client c with netOpen := false } else s.client x)
          (setTask s.tasks k c (.poolEvent ret :: rest)) s.prog
        refine invF_task_keep h k c _ hk _ ?_ ?_ _ ?_
        · intro x hx; simp [hx]
        · simpa using hc.2.2.1
        intro _
        refine Or.inr (Or.inr ⟨ret, rest, rfl, ht.1, ?_, ?_⟩)
        · simp
        · simpa using hclose.1
      · have hcd' : closeOnDestroy s.kind (s.client c).closed (s.client c).closeConn = false := by
          rw [hcd]
          cases h1 : (s.client c).closed <;> cases h2 : (s.client c).closeConn <;> simp_all
        simp only [execStep, hcd', Bool.false_eq_true, if_false]
        refine invF_task_keep h k c _ hk s.client (fun _ _ => rfl) hc.2.2.1 rest (fun _ => Or.inr (Or.inl ⟨ht.1, ?_⟩))
        rcases ht.2 with hq | hq
        · exact Or.inl hq
        · cases h1 : (s.client c).closed
          · refine Or.inr ⟨hq.1, ?_⟩
            cases h3 : (s.client c).dirty
            · rfl
            · exact absurd ⟨h1, hq.2 h3⟩ hclose
          · exact Or.inl h1
    | poolEvent ret =>
      have ht : tailOk rest = true ∧ (s.client c).netOpen = false ∧ (s.client c).closed = false := by
        rcases hc.2.2.2 with ⟨a, _⟩ | ⟨a, _⟩ | ⟨ret', r, e, h1, h2, h3⟩
        · simp [progOk] at a
        · simp [tailOk] at a
        · cases e; exact ⟨h1, h2, h3⟩
      show InvF (poolOnClose s c).idle (poolOnClose s c).nClients (poolOnClose s c).client
        (setTask (poolOnClose s c).tasks k c (if ret = true then [] else rest)) (poolOnClose s c).prog
      rw [poolOnClose_idle, poolOnClose_nClients, poolOnClose_tasks, poolOnClose_prog, removeIdle_of_not_mem _ _ _ hc.2.1]
      refine invF_task_keep h k c _ hk _ (fun x hx => poolOnClose_client_ne s c x hx)
        (by rw [poolOnClose_client_self]; exact hc.2.2.1) _ (fun _ => Or.inr (Or.inl ⟨?_, ?_⟩))
      · cases ret
        · simpa using ht.1
        · simp [tailOk]
      · rw [poolOnClose_client_self]; exact Or.inl rfl
  · exact h

/-! ### all labels, all interleavings -/
theorem inv_step (s : State) (l : Label) (h : Inv s) : Inv (step s l).1 := by
  cases l with
  | newStream d => exact inv_newStream s d h
  | endStream c cause => exact inv_endStream s c cause h
  | taskStep k => exact inv_taskStep s k h
  | netClose c => exact inv_netClose s c h
  | goAway c => exact inv_goAway s c h
  | extInc => exact h
  | extDec =>
    simp only [step]
    split
    · exact h
    · exact h

theorem inv_run_of (s : State) (h : Inv s) (ls : List Label) : Inv (run s ls) := by
  induction ls generalizing s with
  | nil => exact h
  | cons l r ih => exact ih (step s l).1 (inv_step s l h)

theorem inv_init (k : Kind) (mc mr : Nat) (prog : List DStep) (h : progOk prog = true) : Inv (initWith k mc mr prog) :=
  ⟨(by intro c hc; cases hc), List.nodup_nil, h, (by intro c hc; exact absurd hc (Nat.not_lt_zero c)), (by intro c p hp; cases hp), List.nodup_nil⟩

theorem inv_run (k : Kind) (mc mr : Nat) (prog : List DStep) (h : progOk prog = true) (ls : List Label) :
    Inv (run (initWith k mc mr prog) ls) := inv_run_of _ (inv_init k mc mr prog h) ls

/-- the idle list only ever holds open, unclosed, clean connections without a request in flight -/
theorem idle_clean_always (k : Kind) (mc mr : Nat) (prog : List DStep) (h : progOk prog = true) (ls : List Label) :
    idleClean (run (initWith k mc mr prog) ls) := (inv_run k mc mr prog h ls).clean

theorem lease_clean_of_inv (s : State) (h : Inv s) (d : Dial) (c : Nat) (s' : State)
    (hs : step s (.newStream d) = (s', .ok c)) :
    c = s.nClients ∨ (c < s.nClients ∧ (s.client c).dirty = false ∧ (s.client c).live = false ∧
      (s.client c).netOpen = true ∧ (s.client c).closed = false) := by
  simp only [step, newStream] at hs
  split at hs
  · rcases hacq : acquire s d with ⟨s1, r⟩
    rw [hacq] at hs
    rcases acquire_spec s d s1 r hacq with ⟨t, hi, rfl, rfl⟩ | ⟨hi, rfl, rfl⟩ | ⟨t, hr, rfl⟩
    · simp only [Prod.mk.injEq, Res.ok.injEq] at hs
      exact Or.inl hs.2.symm
    · simp only [Prod.mk.injEq, Res.ok.injEq] at hs
      right
      have hm : c ∈ s.idle := by
        rw [← hs.2]
        rcases List.eq_nil_or_concat s.idle with e | ⟨ys, x, e⟩
        · exact absurd e hi
        · rw [e]; simp
      have := h.clean c hm
      exact ⟨this.1, this.2.2.2.1, this.2.2.2.2, this.2.2.1, this.2.1⟩
    · exfalso
      cases r with
      | ok c' => exact hr c' rfl
      | none => simp at hs
      | overflow => simp at hs
      | connFail _ => simp at hs
  · simp at hs

/-- a lease hands out either a fresh connection or an open, unclosed, clean one that carries no request -/
theorem lease_never_dirty (k : Kind) (mc mr : Nat) (prog : List DStep) (h : progOk prog = true) (ls : List Label)
    (d : Dial) (c : Nat) (s' : State) :
    step (run (initWith k mc mr prog) ls) (.newStream d) = (s', .ok c) →
    let s := run (initWith k mc mr prog) ls
    (c = s.nClients ∨ (c < s.nClients ∧ (s.client c).dirty = false ∧ (s.client c).live = false ∧
      (s.client c).netOpen = true ∧ (s.client c).closed = false)) := by
  intro hs
  exact lease_clean_of_inv _ (inv_run k mc mr prog h ls) d c s' hs

/-! ### the request ledger: program class (the exactness theorem over this class is not proved here) -/
/-- what the tasks in progress still owe of one kind of decrement -/
def owed (st : DStep) (ts : List Task) : Nat := (ts.map (fun t => t.2.count st)).sum
def noDecs (p : List DStep) : Bool := p.all (fun st => st != .decHost && st != .decCluster && st != .decRes)
/-- no decrement is skipped by an early return after the close -/
def retSafe : List DStep → Bool
  | [] => true
  | .closeIf true :: r => noDecs r && retSafe r
  | .poolEvent true :: r => noDecs r && retSafe r
  | _ :: r => retSafe r
def ledgerOk (k : Kind) (p : List DStep) : Bool :=
  retSafe p && p.count .decHost == 1 && p.count .decCluster == 1 && p.count .decRes == 1 && takeCodes k == [10, 11, 12]

end MosnVerif.Lemmas.PoolWin
