import MosnVerif.Model.StreamAlloc
/-! [c08p10] C08: the capacity of the buffer that collects an HTTP/2 body is bounded by the bytes that ARRIVED. -/
namespace MosnVerif.Lemmas.StreamAlloc
open MosnVerif.Model.StreamAlloc MosnVerif.Gen.C08StreamAlloc

theorem slotGo_le : ∀ (f c size : Nat), (c = 64 ∨ c < 2 * size) → slotGo f c size ≤ 2 * size + 64 := by
  intro f
  induction f with
  | zero => intro c size h; simp only [slotGo]; omega
  | succ k ih =>
    intro c size h
    simp only [slotGo]
    split
    · omega
    · apply ih; omega

theorem slotGo_ge_of : ∀ (f c size : Nat), size ≤ c * 2 ^ f → size ≤ slotGo f c size := by
  intro f
  induction f with
  | zero => intro c size h; simp only [slotGo]; simpa using h
  | succ k ih =>
    intro c size h
    simp only [slotGo]
    split
    · assumption
    · apply ih
      have : c * 2 ^ (k + 1) = 2 * c * 2 ^ k := by rw [Nat.pow_succ]; ac_rfl
      omega

theorem poolCap_le (size : Nat) : poolCap size ≤ 2 * size + 64 := by
  unfold poolCap
  split
  · omega
  · exact slotGo_le 21 64 size (Or.inl rfl)

theorem poolCap_ge (size : Nat) : size ≤ poolCap size := by
  unfold poolCap
  split
  · exact Nat.le_refl _
  · apply slotGo_ge_of
    have : 64 * 2 ^ 21 = 134217728 := by decide
    omega

/-- invariant of the collecting buffer: it holds what was received, in a capacity bounded by what was received -/
def Inv (b : Buf) (t : Nat) : Prop := b.len = t ∧ b.cap ≤ capBound t

theorem write_inv (b : Buf) (t n : Nat) (h : Inv b t) : Inv (b.write n) (t + n) := by
  obtain ⟨hl, hc⟩ := h
  unfold Buf.write
  unfold capBound at *
  split
  · exact ⟨by simp [hl], by show b.cap ≤ 8 * (t + n) + 4096; omega⟩
  · rename_i hgrow
    refine ⟨by simp [hl], ?_⟩
    show growCap b.cap n ≤ 8 * (t + n) + 4096
    unfold growCap
    have hp := poolCap_le ((if b.cap < 1024 then 1024 else if b.cap < 4194304 then 2 * b.cap else b.cap + b.cap / 4) + n)
    have hg : (if b.cap < 1024 then 1024 else if b.cap < 4194304 then 2 * b.cap else b.cap + b.cap / 4) ≤ 1024 + 2 * b.cap := by
      split
      · omega
      · split <;> omega
    omega

theorem foldl_inv (l : List Nat) : ∀ (b : Buf) (t : Nat), Inv b t → Inv (l.foldl Buf.write b) (t + total l) := by
  induction l with
  | nil => intro b t h; simpa [total] using h
  | cons n r ih =>
    intro b t h
    have := ih (b.write n) (t + n) (write_inv b t n h)
    simp only [List.foldl_cons, total]
    rw [← Nat.add_assoc]; exact this

/-- a collecting buffer whose first allocation is sized by the RECEIVED payload: bounded by the received bytes, whatever
was announced -/
theorem collect_bounded (first : Int → Int → Int) (hf : ∀ recv ann, first recv ann = recv) (ann : Int) (chunks : List Nat)
    (b : Buf) (h : collect first ann chunks = some b) : b.len = total chunks ∧ b.cap ≤ capBound (total chunks) := by
  cases chunks with
  | nil => simp [collect] at h
  | cons n rest =>
    simp only [collect, Option.some.injEq] at h
    subst h
    have h0 : Inv ((⟨newCap (first n ann), 0⟩ : Buf).write n) n := by
      rw [hf]
      unfold Buf.write newCap
      have hge := poolCap_ge (if (n : Int) ≤ 0 then 16 else (n : Int).toNat)
      have hle := poolCap_le (if (n : Int) ≤ 0 then 16 else (n : Int).toNat)
      have hn : n ≤ (if (n : Int) ≤ 0 then 16 else (n : Int).toNat) := by split <;> omega
      have hn2 : (if (n : Int) ≤ 0 then 16 else (n : Int).toNat) ≤ n + 16 := by split <;> omega
      simp only [Nat.zero_add]
      rw [if_pos (by omega)]
      exact ⟨rfl, by show poolCap _ ≤ capBound n; unfold capBound; omega⟩
    have := foldl_inv rest _ n h0
    simpa [total, Inv] using this

end MosnVerif.Lemmas.StreamAlloc
