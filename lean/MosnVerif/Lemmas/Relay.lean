import MosnVerif.Model.Relay
/-! invariants of the relay model (core only) -/
namespace MosnVerif.Model.Relay
open MosnVerif.Model

theorem pending_append_data (q : List Item) (b : Bytes) (h : Item.eof ∉ q) : pending (q ++ [.data b]) = pending q ++ b := by
  induction q with
  | nil => simp [pending]
  | cons i r ih =>
    cases i with
    | data x => simp only [List.cons_append, pending]; rw [ih (by intro hm; exact h (by simp [hm]))]; simp
    | eof => exact absurd (by simp) h

theorem pending_append_eof (q : List Item) : pending (q ++ [.eof]) = pending q := by
  induction q with
  | nil => rfl
  | cons i r ih => cases i <;> simp [pending, ih]

/-- the invariant of one direction: `c` is the connection the bytes are read from, `o` the connection they are written to -/
structure Dir (c o : Conn) : Prop where
  /-- nothing is invented, reordered or duplicated -/
  safe : ∃ x, o.sent ++ pending o.wq ++ x = c.received
  /-- nothing is lost unless the writing connection was aborted -/
  full : o.aborted = false → o.sent ++ pending o.wq = c.received
  /-- an EOF marker is only ever queued behind the last byte read -/
  eof_last : Item.eof ∈ o.wq → c.eofSeen = true
  /-- closed by flushing ⇒ the source had reached EOF -/
  flushed : o.closed = true → o.aborted = false → c.eofSeen = true
  /-- a connection is only aborted after its own peer went away -/
  abort_cause : o.aborted = true → o.eofSeen = true
  /-- a closed connection has an empty queue; a connection whose peer closed is closed and aborted -/
  closed_empty : o.closed = true → o.wq = []
  eof_closed : o.eofSeen = true → o.closed = true ∧ o.aborted = true

def Inv (s : State) : Prop := Dir s.down s.up ∧ Dir s.up s.down

theorem inv_init : Inv {} := by
  constructor <;> exact ⟨⟨[], rfl⟩, fun _ => rfl, by simp, by simp, by simp, by simp, by simp⟩

/-- `Dir` only looks at these fields of the source … -/
theorem Dir.source_congr {c c' o : Conn} (h : Dir c o) (hr : c'.received = c.received) (he : c'.eofSeen = c.eofSeen) : Dir c' o :=
  ⟨by rw [hr]; exact h.safe, by rw [hr]; exact h.full, by rw [he]; exact h.eof_last, by rw [he]; exact h.flushed,
   h.abort_cause, h.closed_empty, h.eof_closed⟩

/-- … and these of the sink -/
theorem Dir.sink_congr {c o o' : Conn} (h : Dir c o) (h1 : o'.wq = o.wq) (h2 : o'.sent = o.sent) (h3 : o'.closed = o.closed)
    (h4 : o'.aborted = o.aborted) (h5 : o'.eofSeen = o.eofSeen) : Dir c o' :=
  ⟨by rw [h1, h2]; exact h.safe, by rw [h1, h2, h4]; exact h.full, by rw [h1]; exact h.eof_last,
   by rw [h3, h4]; exact h.flushed, by rw [h4, h5]; exact h.abort_cause, by rw [h1, h3]; exact h.closed_empty,
   by rw [h3, h4, h5]; exact h.eof_closed⟩

theorem not_aborted_of_open {c o : Conn} (h : Dir c o) (ho : o.closed = false) : o.aborted = false := by
  cases ha : o.aborted with
  | false => rfl
  | true => have := (h.eof_closed (h.abort_cause ha)).1; rw [ho] at this; cases this

theorem open_of {o : Conn} (h : ¬ o.closed = true) : o.closed = false := by
  cases hc : o.closed with
  | true => exact absurd hc h
  | false => rfl

/-- the read loop of `c` delivered `b` -/
theorem dir_read {c o : Conn} (b : Bytes) (he : c.eofSeen = false) (h : Dir c o) :
    Dir { c with received := c.received ++ b } (o.write (.data b)) := by
  unfold Conn.write
  by_cases hoc : o.closed = true
  · simp only [hoc, if_true]
    refine ⟨?_, ?_, h.eof_last, h.flushed, h.abort_cause, h.closed_empty, h.eof_closed⟩
    · obtain ⟨x, hx⟩ := h.safe
      exact ⟨x ++ b, by simp only; rw [← hx]; simp [List.append_assoc]⟩
    · intro ha
      have := h.flushed hoc ha
      rw [he] at this; cases this
  · have hoc' := open_of hoc
    simp only [hoc', Bool.false_eq_true, if_false]
    have hna := not_aborted_of_open h hoc'
    have hne : Item.eof ∉ o.wq := by
      intro hm; have := h.eof_last hm; rw [he] at this; cases this
    have hfull := h.full hna
    have heq : o.sent ++ pending (o.wq ++ [Item.data b]) = c.received ++ b := by
      rw [pending_append_data _ _ hne, ← List.append_assoc, hfull]
    refine ⟨⟨[], by simp only [List.append_nil]; exact heq⟩, fun _ => heq, ?_, ?_, h.abort_cause, ?_,
      fun he' => absurd (h.eof_closed he').1 hoc⟩
    · intro hm
      simp only [List.mem_append, List.mem_singleton, reduceCtorEq, or_false] at hm
      exact absurd hm hne
    · intro hcl; exact absurd hcl (by simp [hoc'])
    · intro hcl; exact absurd hcl (by simp [hoc'])

/-- the read loop of `c` hit EOF: `c` is closed at once, `o` gets the EOF marker -/
theorem dir_peer_fwd {c o : Conn} (h : Dir c o) :
    Dir { c with eofSeen := true, closed := true, aborted := true, wq := [] } (o.write .eof) := by
  unfold Conn.write
  by_cases hoc : o.closed = true
  · simp only [hoc, if_true]
    exact ⟨h.safe, h.full, fun _ => rfl, fun _ _ => rfl, h.abort_cause, h.closed_empty, h.eof_closed⟩
  · have hoc' := open_of hoc
    simp only [hoc', Bool.false_eq_true, if_false]
    refine ⟨?_, ?_, fun _ => rfl, fun _ _ => rfl, h.abort_cause, ?_, fun he' => absurd (h.eof_closed he').1 hoc⟩
    · simp only [pending_append_eof]; exact h.safe
    · simp only [pending_append_eof]; exact h.full
    · intro hcl; exact absurd hcl (by simp [hoc'])

theorem dir_peer_back {c o : Conn} (h : Dir o c) :
    Dir (o.write .eof) { c with eofSeen := true, closed := true, aborted := true, wq := [] } := by
  have hsrc : (o.write .eof).received = o.received := by
    unfold Conn.write; split <;> rfl
  obtain ⟨x, hx⟩ := h.safe
  exact {
    safe := ⟨pending c.wq ++ x, by rw [hsrc, ← hx]; simp [pending, List.append_assoc]⟩
    full := by intro ha; cases ha
    eof_last := by intro hm; cases hm
    flushed := by intro _ ha; cases ha
    abort_cause := fun _ => rfl
    closed_empty := fun _ => rfl
    eof_closed := fun _ => ⟨rfl, rfl⟩ }

/-- the write loop of `c` (open) sends a data item -/
theorem dir_write_data {c o : Conn} (b : Bytes) (r : List Item) (hq : c.wq = .data b :: r) (hc : c.closed = false) (h : Dir o c) :
    Dir o { c with wq := r, sent := c.sent ++ b } := by
  have e : ∀ (x : Bytes), c.sent ++ b ++ pending r ++ x = c.sent ++ pending c.wq ++ x := by
    intro x; rw [hq]; simp [pending, List.append_assoc]
  exact {
    safe := by obtain ⟨x, hx⟩ := h.safe; exact ⟨x, by simp only; rw [e, hx]⟩
    full := by
      intro ha
      have := h.full ha
      have e' := e []
      simp only [List.append_nil] at e'
      simp only; rw [e', this]
    eof_last := by intro hm; exact h.eof_last (by rw [hq]; simp [hm])
    flushed := h.flushed
    abort_cause := h.abort_cause
    closed_empty := by intro hcl; simp only at hcl; rw [hc] at hcl; cases hcl
    eof_closed := h.eof_closed }

/-- the write loop of `c` (open) reaches the EOF marker: `c` is closed after having flushed -/
theorem dir_write_eof {c o : Conn} (r : List Item) (hq : c.wq = .eof :: r) (hc : c.closed = false) (h : Dir o c) :
    Dir o { c with wq := [], closed := true } ∧ o.eofSeen = true := by
  have hoe : o.eofSeen = true := h.eof_last (by rw [hq]; simp)
  have hp : pending c.wq = [] := by rw [hq]; rfl
  refine ⟨?_, hoe⟩
  exact {
    safe := by obtain ⟨x, hx⟩ := h.safe; exact ⟨x, by simp only [pending]; rw [← hx, hp]⟩
    full := by intro ha; have := h.full ha; simp only [pending]; rw [← this, hp]
    eof_last := by intro hm; cases hm
    flushed := fun _ _ => hoe
    abort_cause := h.abort_cause
    closed_empty := fun _ => rfl
    eof_closed := by
      intro he
      have := (h.eof_closed he).1
      rw [hc] at this; cases this }

theorem abort_noop {o : Conn} (h : o.closed = true) : o.abort = o := by simp [Conn.abort, h]

@[simp] theorem get_set_same (s : State) (d : Side) (c : Conn) : (s.set d c).get d = c := by cases d <;> rfl
@[simp] theorem get_set_other (s : State) (d : Side) (c : Conn) : (s.set d c).get d.other = s.get d.other := by cases d <;> rfl
@[simp] theorem get_set_other' (s : State) (d : Side) (c : Conn) : (s.set d.other c).get d = s.get d := by cases d <;> rfl
@[simp] theorem other_other (d : Side) : d.other.other = d := by cases d <;> rfl

/-- the invariant, stated per side -/
def InvAt (s : State) : Prop := ∀ d : Side, Dir (s.get d) (s.get d.other)

theorem inv_iff (s : State) : Inv s ↔ InvAt s := by
  constructor
  · intro ⟨h1, h2⟩ d; cases d <;> assumption
  · intro h; exact ⟨h .down, h .up⟩

/-- updating both connections: the invariant of the new state follows from the two directions -/
theorem invAt_set2 (s : State) (d : Side) (c o : Conn) (h1 : Dir c o) (h2 : Dir o c) :
    InvAt ((s.set d c).set d.other o) := by
  intro e
  cases d <;> cases e <;> simp [State.set, State.get, Side.other] <;> assumption

theorem step_inv (s : State) (e : Ev) (h : InvAt s) : InvAt (step s e) := by
  cases e with
  | read d b =>
    unfold step
    by_cases hc : ((s.get d).closed || (s.get d).eofSeen) = true
    · simp only [hc, if_true]; exact h
    · simp only [hc, Bool.false_eq_true, if_false, get_set_other]
      have he : (s.get d).eofSeen = false := by
        cases hh : (s.get d).eofSeen with
        | false => rfl
        | true => simp [hh] at hc
      have h1 := dir_read b he (h d)
      have h2 : Dir ((s.get d.other).write (.data b)) { s.get d with received := (s.get d).received ++ b } := by
        have hb := h d.other
        rw [other_other] at hb
        have hsink := Dir.sink_congr (o' := { s.get d with received := (s.get d).received ++ b }) hb rfl rfl rfl rfl rfl
        refine Dir.source_congr hsink ?_ ?_ <;> (unfold Conn.write; split <;> rfl)
      exact invAt_set2 s d _ _ h1 h2
  | peerClosed d =>
    unfold step
    by_cases hc : ((s.get d).closed || (s.get d).eofSeen) = true
    · simp only [hc, if_true]; exact h
    · simp only [hc, Bool.false_eq_true, if_false, get_set_other]
      have hb := h d.other
      rw [other_other] at hb
      exact invAt_set2 s d _ _ (dir_peer_fwd (h d)) (dir_peer_back hb)
  | write d =>
    simp only [step]
    by_cases hc : (s.get d).closed = true
    · simp only [hc, if_true]; exact h
    · have hc' := open_of hc
      rw [if_neg hc]
      have hb := h d.other
      rw [other_other] at hb
      cases hq : (s.get d).wq with
      | nil => exact h
      | cons i r =>
        cases i with
        | data b =>
          simp only
          have h1 := dir_write_data b r hq hc' hb
          have h2 : Dir { s.get d with wq := r, sent := (s.get d).sent ++ b } (s.get d.other) :=
            Dir.source_congr (h d) rfl rfl
          have := invAt_set2 s d _ _ h2 h1
          -- the other connection is unchanged
          have hs : ((s.set d { s.get d with wq := r, sent := (s.get d).sent ++ b }).set d.other (s.get d.other))
              = s.set d { s.get d with wq := r, sent := (s.get d).sent ++ b } := by
            cases d <;> rfl
          rw [hs] at this; exact this
        | eof =>
          simp only [get_set_other]
          obtain ⟨h1, hoe⟩ := dir_write_eof r hq hc' hb
          have hocl := ((h d).eof_closed hoe).1
          rw [abort_noop hocl]
          have h2 : Dir { s.get d with wq := [], closed := true } (s.get d.other) :=
            Dir.source_congr (h d) rfl rfl
          exact invAt_set2 s d _ _ h2 h1

theorem run_inv (evs : List Ev) (s : State) (h : InvAt s) : InvAt (run s evs) := by
  unfold run
  induction evs generalizing s with
  | nil => exact h
  | cons e r ih => exact ih _ (step_inv s e h)

end MosnVerif.Model.Relay
