import MosnVerif.Model.WeightedCluster
namespace MosnVerif.Model.WeightedCluster

set_option linter.unusedSimpArgs false in
/-- the regenerated scan is the interval partition. The proof splits on `w = 0` first, so that it also goes through
when the loop body skips zero-weight clusters with `continue` (a harmless shortcut); a `break` there does not. -/
theorem scan_eq_ref (l : List Entry) (v : Nat) : scan l (v : Int) = selectRef l v := by
  induction l generalizing v with
  | nil => simp [scan, selectRef]
  | cons e r ih =>
    obtain ⟨n, w⟩ := e
    simp only [scan, selectRef, Gen.WeightedCluster.stepCtl]
    by_cases hw0 : w = 0
    · subst hw0
      have hv : ¬ ((v : Int) < 0) := by omega
      simpa [hv] using ih v
    · have hw1 : ¬ ((w : Int) = 0) := by omega
      by_cases h : v < w
      · have : ((v : Int) - (w : Int) < 0) := by omega
        simp [h, this, hw0, hw1]
      · have h2 : ¬ ((v : Int) - (w : Int) < 0) := by omega
        have h3 : ((v : Int) - (w : Int)) = ((v - w : Nat) : Int) := by omega
        simp only [h, h2, hw0, hw1, decide_false, Bool.false_eq_true, if_false]
        rw [h3]; exact ih _

theorem select_eq_ref (l : List Entry) (v : Nat) : select l v = selectRef l v := scan_eq_ref l v

theorem selectRef_mem (l : List Entry) (v : Nat) (x : String) (h : selectRef l v = some x) :
    x ∈ l.map (·.1) := by
  induction l generalizing v with
  | nil => simp [selectRef] at h
  | cons e r ih =>
    obtain ⟨n, w⟩ := e
    simp only [selectRef] at h
    split at h
    · simp at h; simp [h]
    · have := ih _ h
      simp at this ⊢; right; exact this

def hitsRef (l : List Entry) (c : String) (k : Nat) : Nat :=
  ((List.range k).filter (fun v => selectRef l v == some c)).length

theorem hits_eq_ref (l : List Entry) (c : String) (k : Nat) : hits l c k = hitsRef l c k := by
  unfold hits hitsRef
  congr 1
  apply List.filter_congr
  intro v _
  rw [select_eq_ref]

theorem hitsRef_cons (n : String) (w : Nat) (r : List Entry) (c : String) (T : Nat) :
    hitsRef ((n, w) :: r) c (w + T) = (if n = c then w else 0) + hitsRef r c T := by
  unfold hitsRef
  rw [List.range_add, List.filter_append, List.length_append]
  congr 1
  · have : (List.range w).filter (fun v => selectRef ((n, w) :: r) v == some c)
         = (List.range w).filter (fun _ => decide (n = c)) := by
      apply List.filter_congr
      intro v hv
      simp at hv
      simp [selectRef, hv]
      by_cases hnc : n = c <;> simp [hnc]
    rw [this]
    by_cases hc : n = c
    · simp [hc, List.filter_eq_self.mpr]
    · simp [hc]
  · rw [List.filter_map, List.length_map]
    congr 1
    apply List.filter_congr
    intro v _
    have : ¬ (w + v < w) := by omega
    simp [selectRef, this]

theorem hitsRef_exact (l : List Entry) (hnd : (l.map (·.1)).Nodup) (c : String) (w : Nat)
    (hc : (c, w) ∈ l) : hitsRef l c (total l) = w := by
  induction l with
  | nil => simp at hc
  | cons e r ih =>
    obtain ⟨n, w0⟩ := e
    have ht : total ((n, w0) :: r) = w0 + total r := by simp [total]
    rw [ht, hitsRef_cons]
    simp only [List.map_cons, List.nodup_cons] at hnd
    obtain ⟨hnotin, hnd'⟩ := hnd
    simp only [List.mem_cons, Prod.mk.injEq] at hc
    rcases hc with ⟨rfl, rfl⟩ | hmem
    · have hz : hitsRef r c (total r) = 0 := by
        unfold hitsRef
        rw [List.length_eq_zero_iff, List.filter_eq_nil_iff]
        intro v _ hv
        simp at hv
        exact hnotin (selectRef_mem r v c hv)
      simp [hz]
    · have hne : n ≠ c := by
        intro h; subst h
        exact hnotin (List.mem_map.mpr ⟨(n, w), hmem, rfl⟩)
      simp [hne, ih hnd' hmem]

end MosnVerif.Model.WeightedCluster
