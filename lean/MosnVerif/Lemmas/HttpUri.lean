import MosnVerif.Model.HttpUri
/-! lemmas about the request-URI pass-through decision (core only) -/
namespace MosnVerif.Model.HttpUri
open Gen.C01HttpUri

theorem query_inject (q : String) : (if queryInjected (q.length : Int) then q else "") = q := by
  unfold queryInjected
  by_cases h : q.length = 0
  · have : q = "" := String.length_eq_zero_iff.mp h
    simp [h, this]
  · have : ((q.length : Int) > 0) := by omega
    simp [this]

/-- **passthrough**: when nothing replaced the path variable, the rebuilt target is the original path (or `/` when it is
empty) followed by `?query` when the query is not empty — whatever the normaliser, unescaper and escaper do. -/
theorem passthrough (O : Oracles) (po q : String) :
    buildUrl O (inject O po q) = (if po = "" then "/" else po) ++ (if q = "" then "" else "?" ++ q) := by
  unfold buildUrl inject
  simp only [query_inject]
  have hp : ∀ u e, passOriginal O.fhPath (O.fhPath po) po u e = true := by
    intro u e; simp [passOriginal]
  cases hu : O.unescape po with
  | none =>
    simp only [hp, if_true, isEmptyRes, hasQuery]
    by_cases h1 : po = "" <;> by_cases h2 : q = "" <;> simp [h1, h2, String.append_assoc] <;>
      (rw [← String.append_assoc]; rfl)
  | some u =>
    simp only [hp, if_true, isEmptyRes, hasQuery]
    by_cases h1 : po = "" <;> by_cases h2 : q = "" <;> simp [h1, h2, String.append_assoc] <;>
      (rw [← String.append_assoc]; rfl)

/-- with a `?` in the received target and a non-empty query, or without a `?`, the forwarded target is byte-identical -/
theorem passthrough_identical (O : Oracles) (po q : String) (hadQ : Bool) (hpo : po ≠ "")
    (hq : hadQ = true ↔ q ≠ "") :
    buildUrl O (inject O po q) = expected po hadQ q := by
  rw [passthrough]
  unfold expected
  cases hadQ with
  | true => have : q ≠ "" := hq.mp rfl; simp [hpo, this, String.append_assoc]
  | false =>
    have : q = "" := by
      by_cases h : q = ""
      · exact h
      · exact absurd (hq.mpr h) (by simp)
    simp [hpo, this]

/-- a replaced path that is not an alias of the original one is escaped with `RequestURI` (or stays `*`) -/
theorem rewritten (O : Oracles) (v : Vars) (hne : ∀ u e, passOriginal O.fhPath v.path v.pathOriginal u e = false) :
    buildUrl O v =
      (let r := if v.path = "*" then "*" else O.requestURI v.path
       (if r = "" then "/" else r) ++ (if v.query = "" then "" else "?" ++ v.query)) := by
  unfold buildUrl
  cases hu : O.unescape v.pathOriginal <;>
    simp only [hne, Bool.false_eq_true, if_false, isStar, isEmptyRes, hasQuery] <;>
    by_cases h1 : v.path = "*" <;> by_cases h2 : v.query = "" <;> simp [h1, h2, String.append_assoc] <;>
      (rw [← String.append_assoc]; rfl)

end MosnVerif.Model.HttpUri
