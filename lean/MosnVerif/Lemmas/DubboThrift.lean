import MosnVerif.Model.DubboThrift
import MosnVerif.Model.EnvelopeRef
import MosnVerif.Lemmas.Bytes
/-! lemmas about the dubbo-thrift envelope model (core only) -/
namespace MosnVerif.Model.DubboThrift
open MosnVerif.Model MosnVerif.Model.Bytes
open Gen.C01DubboThrift

/-- the facts `decode` establishes about a frame it returns (`body = (b.take n).drop 4`, `s = body.drop 9`) -/
structure Decoded (msgOK : Bytes → Bool) (b : Bytes) (f : Frame) (n : Nat) : Prop where
  n_eq : n = getBE b 0 4 + 4
  n_lt : n < 4294967296
  n_le : n ≤ b.length
  n_ge : 13 ≤ n
  raw : f.raw = some (b.take n)
  hl_eq : f.headerLength = getBE ((b.take n).drop 4) 6 8
  hl_le : f.headerLength + 4 ≤ n
  sl_lt : getBE ((b.take n).drop 13) 0 4 < 2147483648
  sl_le : 13 + 4 + getBE ((b.take n).drop 13) 0 4 + 8 ≤ n
  svc : f.svc = slice ((b.take n).drop 13) 4 (4 + getBE ((b.take n).drop 13) 0 4)
  id : f.id = getBE ((b.take n).drop 13) (4 + getBE ((b.take n).drop 13) 0 4) (4 + getBE ((b.take n).drop 13) 0 4 + 8)
  payload : f.payload = ((b.take n).drop 4).drop f.headerLength
  msg : msgOK (((b.take n).drop 13).drop (4 + getBE ((b.take n).drop 13) 0 4 + 8)) = true

theorem decode_frame {msgOK : Bytes → Bool} {b : Bytes} {f : Frame} {n : Nat} (h : decode msgOK b = .frame f n) :
    Decoded msgOK b f n := by
  unfold decode at h
  simp only [MessageLenSize, MagicLen] at h
  by_cases h1 : b.length ≥ 4 + 2
  · simp only [h1, if_true] at h
    by_cases h2 : b.length ≥ getBE b 0 4
    · simp only [h2, if_true] at h
      unfold decodeFrame at h
      simp only [frameLen, dec_messageLen, MessageLenSize, HeaderIdx, body_HeaderLength, IdLen] at h
      have hlt : getBE b 0 4 < 4294967296 := by have := getBE_lt b 0 4; simpa using this
      by_cases g1 : b.length < (getBE b 0 4 + 4) % 2 ^ 32 ∨ (getBE b 0 4 + 4) % 2 ^ 32 < 4
      · simp only [g1, if_true] at h; cases h
      · simp only [g1, if_false] at h
        have hmod : (getBE b 0 4 + 4) % 2 ^ 32 = getBE b 0 4 + 4 := by
          by_cases hw : getBE b 0 4 + 4 < 2 ^ 32
          · exact Nat.mod_eq_of_lt hw
          · exfalso; apply g1; right
            have : (getBE b 0 4 + 4) % 2 ^ 32 = getBE b 0 4 + 4 - 2 ^ 32 := by
              rw [Nat.mod_eq_sub_mod (by omega), Nat.mod_eq_of_lt (by omega)]
            omega
        simp only [hmod] at h g1
        by_cases g2 : ((b.take (getBE b 0 4 + 4)).drop 4).length < 9
        · simp only [g2, if_true] at h; cases h
        · simp only [g2, if_false] at h
          by_cases g3 : getBE ((b.take (getBE b 0 4 + 4)).drop 4) 6 8 > ((b.take (getBE b 0 4 + 4)).drop 4).length
          · simp only [g3, if_true] at h; cases h
          · simp only [g3, if_false] at h
            by_cases g4 : (((b.take (getBE b 0 4 + 4)).drop 4).drop 9).length < 4
            · simp only [g4, if_true] at h; cases h
            · simp only [g4, if_false] at h
              by_cases g5 : getBE (((b.take (getBE b 0 4 + 4)).drop 4).drop 9) 0 4 ≥ 2 ^ 31 ∨
                  (((b.take (getBE b 0 4 + 4)).drop 4).drop 9).length < 4 + getBE (((b.take (getBE b 0 4 + 4)).drop 4).drop 9) 0 4 + 8
              · simp only [g5, if_true] at h; cases h
              · simp only [g5, if_false] at h
                by_cases g6 : (!msgOK ((((b.take (getBE b 0 4 + 4)).drop 4).drop 9).drop
                    (4 + getBE (((b.take (getBE b 0 4 + 4)).drop 4).drop 9) 0 4 + 8))) = true
                · simp only [g6, if_true] at h; cases h
                · simp only [g6, if_false] at h
                  injection h with hf hn
                  subst hf; subst hn
                  have hdd : ((b.take (getBE b 0 4 + 4)).drop 4).drop 9 = (b.take (getBE b 0 4 + 4)).drop 13 := by
                    rw [List.drop_drop]
                  rw [hdd] at g4 g5 g6 ⊢
                  simp only [List.length_drop, List.length_take] at g2 g3 g4 g5
                  have hmin : min (getBE b 0 4 + 4) b.length = getBE b 0 4 + 4 := by omega
                  rw [hmin] at g2 g3 g4 g5
                  exact {
                    n_eq := rfl, n_lt := by omega, n_le := by omega, n_ge := by omega, raw := rfl, hl_eq := rfl,
                    hl_le := by simp only; omega,
                    sl_lt := by omega, sl_le := by omega, svc := rfl, id := rfl, payload := rfl,
                    msg := by simpa using g6 }
    · simp only [h2, if_false] at h; cases h
  · simp only [h1, if_false] at h; cases h

theorem patchIndex_eq (hl : Nat) (h4 : 4 ≤ hl) (hlt : hl < 65536) : patchIndex hl = hl - 4 := by
  unfold patchIndex patchIndexInt
  omega

theorem hl_lt {msgOK : Bytes → Bool} {b : Bytes} {f : Frame} {n : Nat} (D : Decoded msgOK b f n) : f.headerLength < 65536 := by
  rw [D.hl_eq]; have := getBE_lt ((b.take n).drop 4) 6 8; simpa using this

/-- **fast path**: the forwarded frame is the received one with 8 bytes overwritten at `headerLen + 4 - 8`
(whenever the announced header length is at least 4, so that the uint16 index does not wrap) -/
theorem encode_fast {msgOK : Bytes → Bool} {b : Bytes} {f : Frame} {n : Nat} (h : decode msgOK b = .frame f n) (i : Nat)
    (h4 : 4 ≤ f.headerLength) :
    encode (setId f i) = .ok (patch (b.take n) (f.headerLength - 4) (be 8 i)) ∧ f.headerLength - 4 + 8 ≤ n := by
  have D := decode_frame h
  have hlt := hl_lt D
  have hle := D.hl_le
  have hlen : (b.take n).length = n := by simp; exact Nat.min_eq_left D.n_le
  have e8 : be 8 (i % 2 ^ 64) = be 8 i := by
    have := be_mod 8 i
    simpa only [show (256 : Nat) ^ 8 = 2 ^ 64 by decide] using this
  refine ⟨?_, by omega⟩
  unfold encode setId
  simp only [D.raw, patchIndex_eq _ h4 hlt, patchWidth, hlen, e8]
  have : f.headerLength - 4 + 8 ≤ n := by omega
  simp [this]

/-- when the announced header length is the true one (`21 + |service|`), the patched window is the request-id field:
the 8 bytes `Decode` read the id from -/
theorem id_window {msgOK : Bytes → Bool} {b : Bytes} {f : Frame} {n : Nat} (h : decode msgOK b = .frame f n)
    (htrue : f.headerLength = 21 + f.svc.length) :
    f.headerLength - 4 = 17 + f.svc.length ∧ getBE (b.take n) (17 + f.svc.length) (17 + f.svc.length + 8) = f.id := by
  have D := decode_frame h
  refine ⟨by omega, ?_⟩
  have hsl : f.svc.length = getBE ((b.take n).drop 13) 0 4 := by
    rw [D.svc]; simp
    have := D.sl_le; have := D.n_le
    omega
  rw [D.id, ← hsl, getBE_drop]
  congr 1 <;> omega

/-! ### the reference parser vs the model's decode -/

theorem parse_of_decode {ok : Bool} {b : Bytes} {f : Frame} {n : Nat} (h : decode (fun _ => ok) b = .frame f n)
    (p : EnvelopeRef.Thrift.Parsed) (hp : EnvelopeRef.Thrift.parse b = some p) :
    p.total = n ∧ 4 ≤ f.headerLength ∧ p.idPos = f.headerLength - 4 ∧ p.svc = f.svc ∧ ok = true ∧
    f.headerLength = 21 + f.svc.length := by
  have D := decode_frame h
  have hn := D.n_eq
  unfold EnvelopeRef.Thrift.parse at hp
  by_cases c0 : b.length < 4
  · simp only [c0, if_true] at hp; cases hp
  · simp only [c0, if_false] at hp
    by_cases c1 : b.length < 4 + getBE b 0 4
    · simp only [c1, if_true] at hp; cases hp
    · simp only [c1, if_false] at hp
      by_cases c2 : getBE b 0 4 < 21
      · simp only [c2, if_true] at hp; cases hp
      · simp only [c2, if_false] at hp
        by_cases c3 : 4 + getBE b 0 4 ≥ 4294967296
        · simp only [c3, if_true] at hp; cases hp
        · simp only [c3, if_false] at hp
          by_cases c4 : getBE b 13 17 ≥ 2147483648
          · simp only [c4, if_true] at hp; cases hp
          · simp only [c4, if_false] at hp
            by_cases c5 : getBE b 0 4 < 21 + getBE b 13 17
            · simp only [c5, if_true] at hp; cases hp
            · simp only [c5, if_false] at hp
              by_cases c6 : getBE b 6 10 ≠ getBE b 0 4
              · simp only [c6, ne_eq, not_false_eq_true, if_true] at hp; cases hp
              · simp only [c6, if_false] at hp
                by_cases c7 : getBE b 10 12 ≠ 21 + getBE b 13 17
                · simp only [c7, ne_eq, not_false_eq_true, if_true] at hp; cases hp
                · simp only [c7, if_false] at hp
                  injection hp with hp
                  subst hp
                  have hhl : f.headerLength = getBE b 10 12 := by
                    rw [D.hl_eq, getBE_drop, getBE_take _ _ _ _ (by omega)]
                  have hsl : getBE ((b.take n).drop 13) 0 4 = getBE b 13 17 := by
                    rw [getBE_drop, getBE_take _ _ _ _ (by omega)]
                  have hsvc : f.svc = slice b 17 (17 + getBE b 13 17) := by
                    rw [D.svc, hsl, slice_drop, slice_take _ _ _ _ (by omega)]
                    congr 1; omega
                  have hsvl : f.svc.length = getBE b 13 17 := by
                    rw [hsvc]; simp; omega
                  refine ⟨by simp only; omega, by omega, by simp only; omega, hsvc.symm, ?_, by omega⟩
                  have := D.msg
                  simpa using this

/-- a buffer the reference parses, with a message thrift accepts, is decoded by the model -/
theorem decode_of_parse {b : Bytes} (p : EnvelopeRef.Thrift.Parsed) (hp : EnvelopeRef.Thrift.parse b = some p) :
    ∃ f, decode (fun _ => true) b = .frame f p.total := by
  unfold EnvelopeRef.Thrift.parse at hp
  by_cases c0 : b.length < 4
  · simp only [c0, if_true] at hp; cases hp
  · simp only [c0, if_false] at hp
    by_cases c1 : b.length < 4 + getBE b 0 4
    · simp only [c1, if_true] at hp; cases hp
    · simp only [c1, if_false] at hp
      by_cases c2 : getBE b 0 4 < 21
      · simp only [c2, if_true] at hp; cases hp
      · simp only [c2, if_false] at hp
        by_cases c3 : 4 + getBE b 0 4 ≥ 4294967296
        · simp only [c3, if_true] at hp; cases hp
        · simp only [c3, if_false] at hp
          by_cases c4 : getBE b 13 17 ≥ 2147483648
          · simp only [c4, if_true] at hp; cases hp
          · simp only [c4, if_false] at hp
            by_cases c5 : getBE b 0 4 < 21 + getBE b 13 17
            · simp only [c5, if_true] at hp; cases hp
            · simp only [c5, if_false] at hp
              by_cases c6 : getBE b 6 10 ≠ getBE b 0 4
              · simp only [c6, ne_eq, not_false_eq_true, if_true] at hp; cases hp
              · simp only [c6, if_false] at hp
                by_cases c7 : getBE b 10 12 ≠ 21 + getBE b 13 17
                · simp only [c7, ne_eq, not_false_eq_true, if_true] at hp; cases hp
                · simp only [c7, if_false] at hp
                  injection hp with hp
                  subst hp
                  simp only
                  have hmod : (getBE b 0 4 + 4) % 2 ^ 32 = getBE b 0 4 + 4 := Nat.mod_eq_of_lt (by omega)
                  have hbl : ((b.take (getBE b 0 4 + 4)).drop 4).length = getBE b 0 4 := by simp; omega
                  have hhl : getBE ((b.take (getBE b 0 4 + 4)).drop 4) 6 8 = getBE b 10 12 := by
                    rw [getBE_drop, getBE_take _ _ _ _ (by omega)]
                  have hdd : ((b.take (getBE b 0 4 + 4)).drop 4).drop 9 = (b.take (getBE b 0 4 + 4)).drop 13 := by
                    rw [List.drop_drop]
                  have hsl : getBE ((b.take (getBE b 0 4 + 4)).drop 13) 0 4 = getBE b 13 17 := by
                    rw [getBE_drop, getBE_take _ _ _ _ (by omega)]
                  have hs : ((b.take (getBE b 0 4 + 4)).drop 13).length = getBE b 0 4 - 9 := by simp; omega
                  unfold decode
                  have k1 : b.length ≥ 4 + 2 := by omega
                  have k2 : b.length ≥ getBE b 0 4 := by omega
                  simp only [MessageLenSize, MagicLen, k1, k2, if_true]
                  unfold decodeFrame
                  simp only [frameLen, dec_messageLen, MessageLenSize, HeaderIdx, body_HeaderLength, IdLen, hmod, hbl, hhl, hdd, hsl, hs]
                  have n1 : ¬ (b.length < getBE b 0 4 + 4 ∨ getBE b 0 4 + 4 < 4) := by omega
                  have n2 : ¬ (getBE b 0 4 < 9) := by omega
                  have n3 : ¬ (getBE b 10 12 > getBE b 0 4) := by omega
                  have n4 : ¬ (getBE b 0 4 - 9 < 4) := by omega
                  have n5 : ¬ (getBE b 13 17 ≥ 2 ^ 31 ∨ getBE b 0 4 - 9 < 4 + getBE b 13 17 + 8) := by omega
                  simp only [n1, n2, n3, n4, n5, if_false, Bool.not_true, Bool.false_eq_true]
                  exact ⟨_, by rw [Nat.add_comm]⟩

private theorem tbe2 (n : Nat) (h : n < 65536) : toNat (be 2 n) = n := by rw [toNat_be]; omega
private theorem tbe4 (n : Nat) (h : n < 4294967296) : toNat (be 4 n) = n := by rw [toNat_be]; omega
private theorem tbe8 (n : Nat) (h : n < 18446744073709551616) : toNat (be 8 n) = n := by rw [toNat_be]; omega

/-- the fixed 17-byte prefix the slow path writes before the service name -/
def slowPrefix (ml hl sl : Nat) : Bytes := be 4 ml ++ [0xda, 0xbc] ++ be 4 ml ++ be 2 hl ++ [1] ++ be 4 sl

theorem encodeSlow_shape (f : Frame) :
    encodeSlow f = slowPrefix (21 + f.svc.length + f.payload.length) (21 + f.svc.length) f.svc.length
      ++ f.svc ++ be 8 f.id ++ f.payload := by
  unfold encodeSlow slowPrefix
  simp only [MagicLen, IdLen, List.length_append, List.length_cons, List.length_nil, be_length, List.append_assoc]
  have e1 : 2 + 4 + 2 + 1 + 4 + f.svc.length + 8 = 21 + f.svc.length := by omega
  have e2 : 0 + 1 + 1 + (4 + (2 + (0 + 1 + (4 + (f.svc.length + (8 + f.payload.length)))))) = 21 + f.svc.length + f.payload.length := by omega
  rw [e1, e2]

/-- **slow path** (reply / hijack, or after `SetData`): the rebuilt frame is one the reference parses, with the service
name, id and payload it was built from and both length fields consistent -/
theorem parse_encodeSlow (f : Frame) (hs : f.svc.length ≤ 65514) (hid : f.id < 18446744073709551616)
    (htot : 25 + f.svc.length + f.payload.length < 4294967296) :
    EnvelopeRef.Thrift.parse (encodeSlow f) = some
      { total := (encodeSlow f).length, svc := f.svc, idPos := 17 + f.svc.length, id := f.id, payload := f.payload } := by
  rw [encodeSlow_shape]
  generalize hml : 21 + f.svc.length + f.payload.length = ml
  generalize hP : slowPrefix ml (21 + f.svc.length) f.svc.length = P
  have hPl : P.length = 17 := by rw [← hP]; simp [slowPrefix]
  have hlen : (P ++ f.svc ++ be 8 f.id ++ f.payload).length = 4 + ml := by simp [hPl]; omega
  have assoc : P ++ f.svc ++ be 8 f.id ++ f.payload = P ++ (f.svc ++ be 8 f.id ++ f.payload) := by simp [List.append_assoc]
  have r0 : getBE (P ++ f.svc ++ be 8 f.id ++ f.payload) 0 4 = ml := by
    rw [assoc, getBE_append_left _ _ _ _ (by omega), ← hP]
    have : slice (slowPrefix ml (21 + f.svc.length) f.svc.length) 0 4 = be 4 ml := by simp [slowPrefix, be, slice]
    show toNat (slice _ 0 4) = ml
    rw [this, tbe4 _ (by omega)]
  have r6 : getBE (P ++ f.svc ++ be 8 f.id ++ f.payload) 6 10 = ml := by
    rw [assoc, getBE_append_left _ _ _ _ (by omega), ← hP]
    have : slice (slowPrefix ml (21 + f.svc.length) f.svc.length) 6 10 = be 4 ml := by simp [slowPrefix, be, slice]
    show toNat (slice _ 6 10) = ml
    rw [this, tbe4 _ (by omega)]
  have r10 : getBE (P ++ f.svc ++ be 8 f.id ++ f.payload) 10 12 = 21 + f.svc.length := by
    rw [assoc, getBE_append_left _ _ _ _ (by omega), ← hP]
    have : slice (slowPrefix ml (21 + f.svc.length) f.svc.length) 10 12 = be 2 (21 + f.svc.length) := by simp [slowPrefix, be, slice]
    show toNat (slice _ 10 12) = _
    rw [this, tbe2 _ (by omega)]
  have r13 : getBE (P ++ f.svc ++ be 8 f.id ++ f.payload) 13 17 = f.svc.length := by
    rw [assoc, getBE_append_left _ _ _ _ (by omega), ← hP]
    have : slice (slowPrefix ml (21 + f.svc.length) f.svc.length) 13 17 = be 4 f.svc.length := by simp [slowPrefix, be, slice]
    show toNat (slice _ 13 17) = _
    rw [this, tbe4 _ (by omega)]
  have rsvc : slice (P ++ f.svc ++ be 8 f.id ++ f.payload) 17 (17 + f.svc.length) = f.svc := by
    have : P ++ f.svc ++ be 8 f.id ++ f.payload = P ++ f.svc ++ (be 8 f.id ++ f.payload) := by simp [List.append_assoc]
    rw [this, ← hPl]
    simp [slice, List.take_append, List.drop_append]
  have rid : getBE (P ++ f.svc ++ be 8 f.id ++ f.payload) (17 + f.svc.length) (25 + f.svc.length) = f.id := by
    have e : P ++ f.svc ++ be 8 f.id ++ f.payload = (P ++ f.svc) ++ (be 8 f.id ++ f.payload) := by simp [List.append_assoc]
    have hl2 : (P ++ f.svc).length = 17 + f.svc.length := by simp [hPl]
    have : getBE ((P ++ f.svc) ++ (be 8 f.id ++ f.payload)) ((P ++ f.svc).length + 0) ((P ++ f.svc).length + 8) = f.id := by
      rw [← getBE_drop]
      simp only [List.drop_left']
      rw [getBE_append_left _ _ _ _ (by simp)]
      show toNat (slice (be 8 f.id) 0 8) = f.id
      have : slice (be 8 f.id) 0 8 = be 8 f.id := by simp [slice, List.take_of_length_le]
      rw [this, tbe8 _ hid]
    rw [e]; rw [hl2] at this
    have e25 : 25 + f.svc.length = 17 + f.svc.length + 8 := by omega
    rw [e25]; simpa using this
  have rpay : slice (P ++ f.svc ++ be 8 f.id ++ f.payload) (25 + f.svc.length) (4 + ml) = f.payload := by
    have hl3 : (P ++ f.svc ++ be 8 f.id).length = 25 + f.svc.length := by simp [hPl]; omega
    unfold slice
    rw [← hlen, List.take_length, ← hl3]
    simp
  unfold EnvelopeRef.Thrift.parse
  have n0 : ¬ (4 + ml < 4) := by omega
  have n1 : ¬ (4 + ml < 4 + ml) := by omega
  have n2 : ¬ (ml < 21) := by omega
  have n3 : ¬ (4 + ml ≥ 4294967296) := by omega
  have n4 : ¬ (f.svc.length ≥ 2147483648) := by omega
  have n5 : ¬ (ml < 21 + f.svc.length) := by omega
  simp only [r0, r6, r10, r13, rsvc, rid, rpay, hlen, n0, n1, n2, n3, n4, n5, if_false, ne_eq, not_true_eq_false]

def withBody (f : Frame) : Option Bytes → Frame
  | none => f
  | some d => setData f d

/-- the model satisfies the dubbo-thrift reference predicate (header-map operations excluded: see the finding) -/
theorem holds_frame (ok : Bool) (inp : Bytes) (body : Option Bytes) (id : Nat) (f : Frame) (n : Nat)
    (h : decode (fun _ => ok) inp = .frame f n)
    (hbody : ∀ d, body = some d → 25 + f.svc.length + d.length < 4294967296) :
    match encode (setId (withBody f body) id) with
    | .ok o => EnvelopeRef.Thrift.holds inp ok { hdrOps := false, body := body } id true n (some o) = true
    | .panic => EnvelopeRef.Thrift.parse inp = none := by
  cases hp : EnvelopeRef.Thrift.parse inp with
  | none =>
    cases encode (setId (withBody f body) id) with
    | ok o => simp [EnvelopeRef.Thrift.holds, hp]
    | panic => rfl
  | some p =>
    obtain ⟨ht, h4, hpos, hsvc, hok, htrue⟩ := parse_of_decode h p hp
    cases body with
    | none =>
      simp only [withBody]
      rw [(encode_fast h id h4).1]
      simp [EnvelopeRef.Thrift.holds, hp, hok, ht, hpos]
    | some d =>
      have hd := hbody d rfl
      have hl := hl_lt (decode_frame h)
      have henc : encode (setId (setData f d) id) = .ok (encodeSlow { f with payload := d, raw := none, id := id % 2 ^ 64 }) := by
        simp [encode, setId, setData]
      simp only [withBody, henc]
      have hq := parse_encodeSlow { f with payload := d, raw := none, id := id % 2 ^ 64 } (by simp only; omega)
        (by simp only; exact Nat.mod_lt _ (by decide)) (by simp only; omega)
      simp only at hq
      simp [EnvelopeRef.Thrift.holds, hp, hok, ht, hq, hsvc]

theorem holds_noframe (inp : Bytes) (m : EnvelopeRef.Mods) (id : Nat)
    (h : ∀ f n, decode (fun _ => true) inp ≠ .frame f n) (ok acc : Bool) (k : Nat) (out : Option Bytes) :
    EnvelopeRef.Thrift.holds inp ok m id acc k out = true := by
  unfold EnvelopeRef.Thrift.holds
  cases hp : EnvelopeRef.Thrift.parse inp with
  | none => rfl
  | some p =>
    obtain ⟨f, hf⟩ := decode_of_parse p hp
    exact absurd hf (h f _)

end MosnVerif.Model.DubboThrift
