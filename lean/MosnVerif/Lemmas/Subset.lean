import MosnVerif.Model.Subset
/-!
Helper lemmas for C15 (subset load balancing): association lists, the trie (`findSubset` / `findOrCreateSubset`),
the two builders as folds of trie updates, the inverted index, the cartesian product, selector normalisation and
the round-robin inner balancer.  Core Lean only.
-/
namespace MosnVerif.Model.Subset
open MosnVerif

/-! ### A. association lists and the trie -/

theorem lookup_aset_self (k : KV) (t : Trie) (r : Root) : List.lookup k (aset k t r) = some t := by
  induction r with
  | nil => simp [aset]
  | cons x r ih =>
    obtain ⟨k', t'⟩ := x
    by_cases h : k' = k
    · subst h; simp [aset]
    · have h' : (k' == k) = false := by simpa using h
      have h'' : (k == k') = false := by simpa using fun e => h e.symm
      simp [aset, h', List.lookup, h'', ih]

theorem lookup_aset_ne (k k' : KV) (t : Trie) (r : Root) (hne : k' ≠ k) :
    List.lookup k' (aset k t r) = List.lookup k' r := by
  induction r with
  | nil =>
    have : (k' == k) = false := by simpa using hne
    simp [aset, List.lookup, this]
  | cons x r ih =>
    obtain ⟨k₀, t₀⟩ := x
    by_cases h : k₀ = k
    · subst h
      have : (k' == k₀) = false := by simpa using hne
      simp [aset, List.lookup, this]
    · have h' : (k₀ == k) = false := by simpa using h
      simp only [aset, h', Bool.false_eq_true, if_false, List.lookup]
      split <;> simp_all

/-- `findSubset` without the index bookkeeping -/
def findS : Root → Path → Option Trie
  | _, [] => none
  | root, kv :: rest =>
    match List.lookup kv root with
    | none => none
    | some e => if rest.isEmpty then some e else findS e.children rest

theorem findGo_eq (n i : Nat) (root : Root) (p : Path) (h : i + p.length = n) :
    findGo n i root p = findS root p := by
  induction p generalizing i root with
  | nil => simp [findGo, findS]
  | cons kv rest ih =>
    simp only [findGo, findS]
    cases hl : List.lookup kv root with
    | none => rfl
    | some e =>
      simp only [Gen.Subset.findLast]
      cases rest with
      | nil =>
        have : (i : Int) + 1 = (n : Int) := by simp at h; omega
        simp [this]
      | cons kv' rest' =>
        have hne : ¬ ((i : Int) + 1 = (n : Int)) := by simp at h; omega
        simp only [hne, decide_false, Bool.false_eq_true, if_false, List.isEmpty_cons]
        exact ih (i + 1) e.children (by simp at h ⊢; omega)

theorem findSubset_eq (root : Root) (p : Path) : findSubset root p = findS root p :=
  findGo_eq p.length 0 root p (by simp)

/-- load balancer (host list) stored at a path: `none` when the node is missing or not `Initialized()` -/
def lbAt (root : Root) (p : Path) : Option (List Host) := (findS root p).bind Trie.lb

/-- hosts of the *active* entry at a path (`[]` = `findSubset` gives nil or an entry that is not `Active()`) -/
def activeHosts (root : Root) (p : Path) : List Host := (lbAt root p).getD []

@[simp] theorem lbAt_nil_path (root : Root) : lbAt root [] = none := by simp [lbAt, findS]

@[simp] theorem lbAt_empty_root (p : Path) : lbAt [] p = none := by
  cases p <;> simp [lbAt, findS, List.lookup]

theorem lbAt_cons (root : Root) (kv : KV) (rest : Path) :
    lbAt root (kv :: rest) =
      if rest = [] then ((List.lookup kv root).getD Trie.fresh).lb
      else lbAt ((List.lookup kv root).getD Trie.fresh).children rest := by
  unfold lbAt
  simp only [findS]
  cases hl : List.lookup kv root with
  | none =>
    cases rest with
    | nil => simp [Trie.fresh, Trie.lb]
    | cons a b =>
      have : lbAt [] (a :: b) = none := lbAt_empty_root _
      simp [Trie.fresh, Trie.children, findS]
  | some e =>
    cases rest with
    | nil => simp
    | cons a b => simp

/-- `findOrCreateSubset` + update, without the index bookkeeping -/
def modifyS (g : Option (List Host) → Option (List Host)) : Path → Root → Root
  | [], root => root
  | kv :: rest, root =>
    let e := (List.lookup kv root).getD Trie.fresh
    if rest.isEmpty then aset kv (.node (g e.lb) e.children) root
    else aset kv (.node e.lb (modifyS g rest e.children)) root

theorem modifyGo_eq (last : Int → Int → Bool) (hlast : ∀ a b, last a b = decide (a = b))
    (g : Option (List Host) → Option (List Host)) (n idx : Nat) (p : Path) (root : Root)
    (h : idx + p.length = n) : modifyGo last g n idx p root = modifyS g p root := by
  induction p generalizing idx root with
  | nil => simp [modifyGo, modifyS]
  | cons kv rest ih =>
    simp only [modifyGo, modifyS, hlast]
    cases rest with
    | nil =>
      have : (idx : Int) + 1 = (n : Int) := by simp at h; omega
      simp [this]
    | cons kv' rest' =>
      have hne : ¬ ((idx : Int) + 1 = (n : Int)) := by simp at h; omega
      simp only [hne, decide_false, Bool.false_eq_true, if_false, List.isEmpty_cons]
      rw [ih (idx + 1) _ (by simp at h ⊢; omega)]

@[simp] theorem Trie.lb_node (l : Option (List Host)) (c : Root) : (Trie.node l c).lb = l := rfl
@[simp] theorem Trie.children_node (l : Option (List Host)) (c : Root) : (Trie.node l c).children = c := rfl

theorem lookup_modifyS_self (g : Option (List Host) → Option (List Host)) (kv : KV) (rest : Path) (root : Root) :
    List.lookup kv (modifyS g (kv :: rest) root) =
      some (if rest = [] then .node (g ((List.lookup kv root).getD Trie.fresh).lb) ((List.lookup kv root).getD Trie.fresh).children
            else .node ((List.lookup kv root).getD Trie.fresh).lb
              (modifyS g rest ((List.lookup kv root).getD Trie.fresh).children)) := by
  rw [modifyS]
  cases rest with
  | nil => simp [lookup_aset_self]
  | cons a b => simp [lookup_aset_self]

theorem lookup_modifyS_ne (g : Option (List Host) → Option (List Host)) (kv kv' : KV) (rest : Path) (root : Root)
    (hk : kv' ≠ kv) : List.lookup kv' (modifyS g (kv :: rest) root) = List.lookup kv' root := by
  rw [modifyS]
  split <;> exact lookup_aset_ne _ _ _ _ hk

/-- the trie law: an update at path `p` changes the load balancer stored at `p` and nothing else
(nodes created on the way stay uninitialised). -/
theorem lbAt_modifyS (g : Option (List Host) → Option (List Host)) (p q : Path) (root : Root) (hp : p ≠ []) :
    lbAt (modifyS g p root) q = if q = p then g (lbAt root p) else lbAt root q := by
  induction p generalizing root q with
  | nil => exact absurd rfl hp
  | cons kv rest ih =>
    cases q with
    | nil => simp
    | cons kv' rest' =>
      by_cases hk : kv' = kv
      · subst hk
        rw [lbAt_cons (modifyS g (kv' :: rest) root), lbAt_cons root kv' rest', lbAt_cons root kv' rest,
          lookup_modifyS_self]
        simp only [Option.getD_some]
        by_cases hrest : rest = []
        · subst hrest
          by_cases hr : rest' = []
          · simp [hr]
          · simp [hr]
        · by_cases hr : rest' = []
          · subst hr
            have : ([] : Path) ≠ rest := fun h => hrest h.symm
            simp [hrest, this]
          · have := ih rest' ((List.lookup kv' root).getD Trie.fresh).children hrest
            simp only [hrest, hr, if_false, Trie.children_node, this]
            by_cases he : rest' = rest
            · simp [he]
            · simp [he]
      · have hq : (kv' :: rest') ≠ (kv :: rest) := by
          intro h; injection h with h1 _; exact hk h1
        rw [lbAt_cons (modifyS g (kv :: rest) root), lbAt_cons root kv' rest', lookup_modifyS_ne _ _ _ _ _ hk]
        simp [hq]

/-! ### B. the builders as folds of trie updates -/

/-- filtering builder, one (host, selector) visit, without index bookkeeping -/
def stepF (F : Path → List Host) (root : Root) (p : Path) : Root :=
  if p = [] then root else modifyS (initIfNeeded (F p)) p root

theorem initIfNeeded_eq (hs : List Host) (lb : Option (List Host)) :
    initIfNeeded hs lb = match lb with | some l => some l | none => some hs := by
  cases lb <;> simp [initIfNeeded, Gen.Subset.filterNeedInit, Gen.Subset.entryInitialized]

theorem lbAt_foldl_stepF (F : Path → List Host) (ps : List Path) (root : Root) (q : Path) :
    lbAt (ps.foldl (stepF F) root) q =
      match lbAt root q with
      | some l => some l
      | none => if q ∈ ps ∧ q ≠ [] then some (F q) else none := by
  induction ps generalizing root with
  | nil => cases h : lbAt root q <;> simp [h]
  | cons p ps ih =>
    rw [List.foldl_cons, ih]
    by_cases hp : p = []
    · subst hp
      simp only [stepF, if_true]
      cases hq : lbAt root q with
      | some l => rfl
      | none =>
        by_cases hq0 : q = []
        · simp [hq0]
        · have : q ≠ [] := hq0
          have h2 : ¬ (q = []) := hq0
          simp [h2]
    · simp only [stepF, hp, if_false]
      rw [lbAt_modifyS _ _ _ _ hp]
      by_cases hqp : q = p
      · subst hqp
        rw [if_pos rfl, initIfNeeded_eq]
        cases lbAt root q with
        | some l => rfl
        | none => simp [hp]
      · rw [if_neg hqp]
        cases lbAt root q with
        | some l => rfl
        | none => simp [hqp]

/-- pre-index builder, one combination -/
def stepP (F : Path → List Host) (root : Root) (p : Path) : Root :=
  modifyS (setIfNonEmpty (F p)) p root

theorem setIfNonEmpty_eq (hs : List Host) (lb : Option (List Host)) :
    setIfNonEmpty hs lb = if hs = [] then lb else some hs := by
  cases hs <;> simp [setIfNonEmpty, Gen.Subset.preCreate]

theorem lbAt_foldl_stepP (F : Path → List Host) (ps : List Path) (root : Root) (q : Path) :
    lbAt (ps.foldl (stepP F) root) q =
      if q ∈ ps ∧ q ≠ [] ∧ F q ≠ [] then some (F q) else lbAt root q := by
  induction ps generalizing root with
  | nil => simp
  | cons p ps ih =>
    rw [List.foldl_cons, ih]
    by_cases hp : p = []
    · subst hp
      simp only [stepP, modifyS]
      by_cases h : q ∈ ps ∧ q ≠ [] ∧ F q ≠ []
      · have h' : q ∈ [] :: ps ∧ q ≠ [] ∧ F q ≠ [] := ⟨List.mem_cons_of_mem _ h.1, h.2⟩
        rw [if_pos h, if_pos h']
      · have h' : ¬ (q ∈ [] :: ps ∧ q ≠ [] ∧ F q ≠ []) := by
          intro ⟨h1, h2, h3⟩
          rcases List.mem_cons.mp h1 with h1 | h1
          · exact h2 h1
          · exact h ⟨h1, h2, h3⟩
        rw [if_neg h, if_neg h']
    · simp only [stepP]
      rw [lbAt_modifyS _ _ _ _ hp, setIfNonEmpty_eq]
      by_cases hqp : q = p
      · subst hqp
        by_cases hF : F q = []
        · simp [hF]
        · simp [hF, hp]
      · by_cases h : q ∈ ps ∧ q ≠ [] ∧ F q ≠ []
        · have h' : q ∈ p :: ps ∧ q ≠ [] ∧ F q ≠ [] := ⟨List.mem_cons_of_mem _ h.1, h.2⟩
          rw [if_pos h, if_pos h']
        · have h' : ¬ (q ∈ p :: ps ∧ q ≠ [] ∧ F q ≠ []) := by
            intro ⟨h1, h2, h3⟩
            rcases List.mem_cons.mp h1 with h1 | h1
            · exact hqp h1
            · exact h ⟨h1, h2, h3⟩
          rw [if_neg h, if_neg h', if_neg hqp]

/-! ### C. matching, extraction, and the filtering builder -/

theorem critOk_iff (m : Meta) (kv : KV) : critOk m kv = true ↔ metaGet m kv.1 = some kv.2 := by
  unfold critOk Gen.Subset.hostMismatch
  cases h : metaGet m kv.1 with
  | none => simp
  | some v => simp

theorem hostMatches_iff (kvs : Path) (h : Host) :
    hostMatches kvs h = true ↔ ∀ kv ∈ kvs, metaGet h.md kv.1 = some kv.2 := by
  simp [hostMatches, List.all_eq_true, critOk_iff]

/-- the regenerated `HostMatches` is the declarative "metadata contains all the pairs" -/
theorem hostMatches_eq_contains (kvs : Path) (h : Host) : hostMatches kvs h = contains h kvs := by
  rw [Bool.eq_iff_iff, hostMatches_iff]
  simp [contains, List.all_eq_true, metaGet]

theorem extractOpt_some {s : List Key} {m : Meta} {q : Path} (h : extractOpt s m = some q) :
    q.map (·.1) = s ∧ ∀ kv ∈ q, metaGet m kv.1 = some kv.2 := by
  induction s generalizing q with
  | nil => simp [extractOpt] at h; subst h; simp
  | cons k ks ih =>
    simp only [extractOpt] at h
    cases hk : metaGet m k with
    | none => simp [hk] at h
    | some v =>
      simp only [hk] at h
      cases hr : extractOpt ks m with
      | none => simp [hr] at h
      | some q' =>
        simp only [hr, Option.map_some, Option.some.injEq] at h
        subst h
        obtain ⟨h1, h2⟩ := ih hr
        refine ⟨by simp [h1], ?_⟩
        intro kv hkv
        rcases List.mem_cons.mp hkv with rfl | hkv
        · exact hk
        · exact h2 kv hkv

theorem extractOpt_of_matches (m : Meta) (q : Path) (h : ∀ kv ∈ q, metaGet m kv.1 = some kv.2) :
    extractOpt (q.map (·.1)) m = some q := by
  induction q with
  | nil => simp [extractOpt]
  | cons kv q ih =>
    have h1 := h kv (by simp)
    have h2 := ih (fun kv' hkv' => h kv' (List.mem_cons_of_mem _ hkv'))
    simp [extractOpt, h1, h2]

/-- the paths visited by the filtering builder -/
def pathsF (hosts : List Host) (sels : List (List Key)) : List Path :=
  hosts.flatMap (fun h => sels.map (fun s => extract s h.md))

theorem mem_pathsF (hosts : List Host) (sels : List (List Key)) (q : Path) (hq : q ≠ []) :
    q ∈ pathsF hosts sels ↔ q.map (·.1) ∈ sels ∧ ∃ h ∈ hosts, hostMatches q h = true := by
  simp only [pathsF, List.mem_flatMap, List.mem_map]
  constructor
  · rintro ⟨h, hh, s, hs, he⟩
    unfold extract at he
    cases ho : extractOpt s h.md with
    | none => simp [ho] at he; exact absurd he hq
    | some q' =>
      simp [ho] at he; subst he
      obtain ⟨h1, h2⟩ := extractOpt_some ho
      exact ⟨h1 ▸ hs, h, hh, (hostMatches_iff _ _).mpr h2⟩
  · rintro ⟨hs, h, hh, hm⟩
    refine ⟨h, hh, q.map (·.1), hs, ?_⟩
    simp [extract, extractOpt_of_matches _ _ ((hostMatches_iff _ _).mp hm)]

theorem filterStep_eq (hosts : List Host) (root : Root) (h : Host) (sel : List Key) :
    filterStep hosts root h sel = stepF (fun kvs => hosts.filter (hostMatches kvs)) root (extract sel h.md) := by
  unfold filterStep stepF
  simp only [Gen.Subset.filterCreate]
  cases hk : extract sel h.md with
  | nil => simp
  | cons a b =>
    have : ((a :: b).length : Int) > 0 := by simp
    simp only [this, decide_true, if_true]
    rw [modifyGo_eq _ (fun a b => by simp [Gen.Subset.createLastFilter]) _ _ 0 _ _ (by simp)]
    simp

theorem buildFilter_eq (hosts : List Host) (sels : List (List Key)) :
    buildFilter hosts sels =
      (pathsF hosts sels).foldl (stepF (fun kvs => hosts.filter (hostMatches kvs))) [] := by
  unfold buildFilter pathsF
  rw [List.foldl_flatMap]
  congr 1
  funext root h
  rw [List.foldl_map]
  congr 1
  funext root sel
  exact filterStep_eq hosts root h sel

/-- **refinement of the filtering builder**: the load balancer stored at a path -/
theorem lbAt_buildFilter (hosts : List Host) (sels : List (List Key)) (q : Path) :
    lbAt (buildFilter hosts sels) q =
      if q ≠ [] ∧ q.map (·.1) ∈ sels ∧ (∃ h ∈ hosts, hostMatches q h = true)
      then some (hosts.filter (hostMatches q)) else none := by
  rw [buildFilter_eq, lbAt_foldl_stepF]
  simp only [lbAt_empty_root]
  by_cases hq : q = []
  · simp [hq]
  · have := mem_pathsF hosts sels q hq
    by_cases hm : q ∈ pathsF hosts sels
    · have h2 := this.mp hm
      rw [if_pos ⟨hm, hq⟩, if_pos ⟨hq, h2.1, h2.2⟩]
    · have h2 : ¬ (q ≠ [] ∧ q.map (·.1) ∈ sels ∧ ∃ h ∈ hosts, hostMatches q h = true) :=
        fun h => hm (this.mpr h.2)
      rw [if_neg (fun h => hm h.1), if_neg h2]

theorem activeHosts_buildFilter (hosts : List Host) (sels : List (List Key)) (q : Path) :
    activeHosts (buildFilter hosts sels) q =
      if q ≠ [] ∧ q.map (·.1) ∈ sels then hosts.filter (hostMatches q) else [] := by
  unfold activeHosts
  rw [lbAt_buildFilter]
  by_cases h1 : q ≠ [] ∧ q.map (·.1) ∈ sels
  · by_cases h2 : ∃ h ∈ hosts, hostMatches q h = true
    · rw [if_pos ⟨h1.1, h1.2, h2⟩, if_pos h1]; rfl
    · rw [if_neg (fun h => h2 h.2.2), if_pos h1]
      have : hosts.filter (hostMatches q) = [] := by
        rw [List.filter_eq_nil_iff]
        intro h hh hm
        exact h2 ⟨h, hh, hm⟩
      simp [this]
  · rw [if_neg (fun h => h1 ⟨h.1, h.2.1⟩), if_neg h1]; rfl

/-! ### D. the inverted index and `filterHosts` -/

theorem lookup_insertIdx_self (v : Val) (i : Nat) (m : List (Val × List Nat)) :
    List.lookup v (insertIdx v i m) = some ((List.lookup v m).getD [] ++ [i]) := by
  induction m with
  | nil => simp [insertIdx, List.lookup]
  | cons x m ih =>
    obtain ⟨v', l⟩ := x
    by_cases h : v' = v
    · subst h; simp [insertIdx, List.lookup]
    · have h1 : (v' == v) = false := by simpa using h
      have h2 : (v == v') = false := by simpa using fun e => h e.symm
      simp [insertIdx, h1, List.lookup, h2, ih]

theorem lookup_insertIdx_ne (v v' : Val) (i : Nat) (m : List (Val × List Nat)) (hne : v' ≠ v) :
    List.lookup v' (insertIdx v i m) = List.lookup v' m := by
  induction m with
  | nil =>
    have : (v' == v) = false := by simpa using hne
    simp [insertIdx, List.lookup, this]
  | cons x m ih =>
    obtain ⟨v₀, l⟩ := x
    by_cases h : v₀ = v
    · subst h
      have : (v' == v₀) = false := by simpa using hne
      simp [insertIdx, List.lookup, this]
    · have h' : (v₀ == v) = false := by simpa using h
      simp only [insertIdx, h', Bool.false_eq_true, if_false, List.lookup]
      split <;> simp_all

def idxStep (hosts : List Host) (k : Key) (acc : List (Val × List Nat)) (i : Nat) : List (Val × List Nat) :=
  match metaAt hosts i k with
  | none => acc
  | some v => insertIdx v i acc

theorem lookup_foldl_idxStep (hosts : List Host) (k : Key) (v : Val) (is : List Nat) (acc : List (Val × List Nat)) :
    List.lookup v (is.foldl (idxStep hosts k) acc) =
      if is.filter (fun i => metaAt hosts i k == some v) = [] then List.lookup v acc
      else some ((List.lookup v acc).getD [] ++ is.filter (fun i => metaAt hosts i k == some v)) := by
  induction is generalizing acc with
  | nil => simp
  | cons i is ih =>
    rw [List.foldl_cons, ih]
    unfold idxStep
    cases hm : metaAt hosts i k with
    | none => simp [hm]
    | some w =>
      by_cases hw : w = v
      · subst hw
        simp only [List.filter_cons, hm, beq_self_eq_true, if_true, lookup_insertIdx_self, Option.getD_some]
        by_cases he : is.filter (fun i => metaAt hosts i k == some w) = []
        · simp [he]
        · simp [he]
      · have hne : v ≠ w := fun e => hw e.symm
        have hb : (some w == some v) = false := by simpa using hw
        simp only [List.filter_cons, hm, hb, Bool.false_eq_true, if_false, lookup_insertIdx_ne _ _ _ _ hne]

/-- positions (ascending) of the hosts whose metadata has `k = v` -/
def positions (hosts : List Host) (k : Key) (v : Val) : List Nat :=
  (List.range hosts.length).filter (fun i => metaAt hosts i k == some v)

theorem lookup_valueMap (hosts : List Host) (k : Key) (v : Val) :
    List.lookup v (valueMap hosts k) =
      if positions hosts k v = [] then none else some (positions hosts k v) := by
  have := lookup_foldl_idxStep hosts k v (List.range hosts.length) []
  unfold valueMap positions
  simp only [List.lookup_nil, Option.getD_none, List.nil_append] at this
  exact this

theorem lookup_mkIndex (hosts : List Host) (keys : List Key) (k : Key) :
    List.lookup k (mkIndex hosts keys) = if k ∈ keys then some (valueMap hosts k) else none := by
  unfold mkIndex
  induction keys with
  | nil => simp
  | cons x keys ih =>
    by_cases h : k = x
    · subst h; simp
    · have h1 : (k == x) = false := by simpa using h
      simp [List.lookup, h1, ih, h]

/-- selecting by ascending positions that are described by a host predicate is filtering by that predicate -/
theorem select_positions (p : Host → Bool) (l : List Host) (q : Nat → Bool)
    (hq : ∀ i h, l[i]? = some h → q i = p h) :
    ((List.range l.length).filter q).filterMap (l[·]?) = l.filter p := by
  induction l generalizing q with
  | nil => simp
  | cons x l ih =>
    rw [List.length_cons, List.range_succ_eq_map, List.filter_cons]
    have h0 : q 0 = p x := hq 0 x (by simp)
    have hrest : ((List.map Nat.succ (List.range l.length)).filter q).filterMap ((x :: l)[·]?) = l.filter p := by
      rw [List.filter_map, List.filterMap_map]
      have : ((x :: l)[·]?) ∘ Nat.succ = (l[·]?) := by
        funext i; simp
      rw [this]
      exact ih (q ∘ Nat.succ) (fun i h hi => hq (i + 1) h (by simpa using hi))
    by_cases hp : p x = true
    · simp only [h0, hp, if_true, List.filterMap_cons, List.getElem?_cons_zero, List.filter_cons]
      rw [hrest]
    · have hp' : p x = false := by simpa using hp
      simp only [h0, hp', Bool.false_eq_true, if_false, List.filter_cons]
      rw [hrest]

theorem metaAt_of_getElem? {hosts : List Host} {i : Nat} {h : Host} (hi : hosts[i]? = some h) (k : Key) :
    metaAt hosts i k = metaGet h.md k := by
  simp [metaAt, hi]

theorem mem_positions (hosts : List Host) (k : Key) (v : Val) (i : Nat) :
    i ∈ positions hosts k v ↔ i < hosts.length ∧ metaAt hosts i k = some v := by
  simp [positions, List.mem_filter]

/-- the loop of `filterHosts` once a current set exists -/
theorem filterLoop_some (hosts : List Host) (keys : List Key) (rest : Path) (pred : Nat → Bool)
    (hk : ∀ kv ∈ rest, kv.1 ∈ keys) :
    filterLoop (mkIndex hosts keys) hosts rest (some ((List.range hosts.length).filter pred)) =
      ((List.range hosts.length).filter
        (fun i => pred i && rest.all (fun kv => metaAt hosts i kv.1 == some kv.2))).filterMap (hosts[·]?) := by
  induction rest generalizing pred with
  | nil =>
    simp only [filterLoop, selectHosts, List.all_nil, Bool.and_true]
    split
    · next h =>
      have : (List.range hosts.length).filter pred = [] := by simpa using h
      simp [this]
    · rfl
  | cons kv rest ih =>
    have hkv : kv.1 ∈ keys := hk kv (by simp)
    have hk' : ∀ kv' ∈ rest, kv'.1 ∈ keys := fun kv' h => hk kv' (List.mem_cons_of_mem _ h)
    simp only [filterLoop, lookup_mkIndex, hkv, if_true, lookup_valueMap]
    by_cases hp : positions hosts kv.1 kv.2 = []
    · simp only [hp, if_true]
      symm
      have : (List.range hosts.length).filter
          (fun i => pred i && (kv :: rest).all (fun kv => metaAt hosts i kv.1 == some kv.2)) = [] := by
        rw [List.filter_eq_nil_iff]
        intro i hi hc
        simp only [List.all_cons, Bool.and_eq_true, beq_iff_eq] at hc
        have : i ∈ positions hosts kv.1 kv.2 := (mem_positions _ _ _ _).mpr ⟨List.mem_range.mp hi, hc.2.1⟩
        rw [hp] at this; simp at this
      rw [this]; rfl
    · simp only [hp, if_false]
      have hcur : ((List.range hosts.length).filter pred).filter ((positions hosts kv.1 kv.2).contains ·) =
          (List.range hosts.length).filter (fun i => pred i && (metaAt hosts i kv.1 == some kv.2)) := by
        rw [List.filter_filter]
        apply List.filter_congr
        intro i hi
        have hlt := List.mem_range.mp hi
        rw [Bool.and_comm]
        congr 1
        rw [Bool.eq_iff_iff, List.contains_iff_mem, mem_positions]
        simp [hlt]
      rw [hcur, ih _ hk']
      congr 1
      apply List.filter_congr
      intro i _
      simp [Bool.and_assoc]

theorem filterHostsIdx_eq (hosts : List Host) (keys : List Key) (kvs : Path) (hk : ∀ kv ∈ kvs, kv.1 ∈ keys) :
    filterHostsIdx (mkIndex hosts keys) hosts kvs = hosts.filter (hostMatches kvs) := by
  unfold filterHostsIdx Gen.Subset.filterAll
  cases kvs with
  | nil =>
    have : hostMatches [] = fun _ => true := by funext h; simp [hostMatches]
    simp only [List.length_nil, Int.natCast_zero, decide_true, if_true, this]
    exact (List.filter_eq_self.mpr (fun _ _ => rfl)).symm
  | cons kv rest =>
    have hne : ¬ (((kv :: rest).length : Int) = 0) := by simp; omega
    simp only [hne, decide_false, Bool.false_eq_true, if_false]
    have hkv : kv.1 ∈ keys := hk kv (by simp)
    have hk' : ∀ kv' ∈ rest, kv'.1 ∈ keys := fun kv' h => hk kv' (List.mem_cons_of_mem _ h)
    have hfinal : ((List.range hosts.length).filter
        (fun i => (kv :: rest).all (fun kv => metaAt hosts i kv.1 == some kv.2))).filterMap (hosts[·]?)
        = hosts.filter (hostMatches (kv :: rest)) := by
      apply select_positions
      intro i h hi
      rw [Bool.eq_iff_iff, hostMatches_iff]
      simp only [List.all_eq_true, beq_iff_eq]
      constructor
      · intro hh kv' hkv'; rw [← metaAt_of_getElem? hi]; exact hh kv' hkv'
      · intro hh kv' hkv'; rw [metaAt_of_getElem? hi]; exact hh kv' hkv'
    rw [← hfinal]
    simp only [filterLoop, lookup_mkIndex, hkv, if_true, lookup_valueMap]
    by_cases hp : positions hosts kv.1 kv.2 = []
    · simp only [hp, if_true]
      symm
      have : (List.range hosts.length).filter
          (fun i => (kv :: rest).all (fun kv => metaAt hosts i kv.1 == some kv.2)) = [] := by
        rw [List.filter_eq_nil_iff]
        intro i hi hc
        simp only [List.all_cons, Bool.and_eq_true, beq_iff_eq] at hc
        have : i ∈ positions hosts kv.1 kv.2 := (mem_positions _ _ _ _).mpr ⟨List.mem_range.mp hi, hc.1⟩
        rw [hp] at this; simp at this
      rw [this]; rfl
    · simp only [hp, if_false]
      unfold positions
      rw [filterLoop_some hosts keys rest _ hk']
      congr 1

/-! ### E. the cartesian product and the pre-index builder -/

/-- the values indexed under a key -/
def vals (ix : Index) (k : Key) : List Val := ((List.lookup k ix).getD []).map (·.1)

theorem mem_map_fst_iff_lookup {β : Type} (v : Val) (m : List (Val × β)) :
    v ∈ m.map (·.1) ↔ List.lookup v m ≠ none := by
  induction m with
  | nil => simp
  | cons x m ih =>
    obtain ⟨w, b⟩ := x
    by_cases h : v = w
    · subst h; simp [List.lookup]
    · have h1 : (v == w) = false := by simpa using h
      simp [List.lookup, h1, h, ih]

theorem mem_vals_mkIndex (hosts : List Host) (keys : List Key) (k : Key) (v : Val) :
    v ∈ vals (mkIndex hosts keys) k ↔ k ∈ keys ∧ ∃ h ∈ hosts, metaGet h.md k = some v := by
  unfold vals
  rw [lookup_mkIndex]
  by_cases hk : k ∈ keys
  · simp only [hk, if_true, Option.getD_some, true_and]
    rw [mem_map_fst_iff_lookup, lookup_valueMap]
    constructor
    · intro h
      by_cases hp : positions hosts k v = []
      · simp [hp] at h
      · obtain ⟨i, hi⟩ := List.exists_mem_of_ne_nil _ hp
        obtain ⟨hlt, hm⟩ := (mem_positions _ _ _ _).mp hi
        have hget : hosts[i]? = some hosts[i] := List.getElem?_eq_getElem hlt
        exact ⟨hosts[i], List.getElem_mem hlt, by rw [← metaAt_of_getElem? hget]; exact hm⟩
    · rintro ⟨h, hh, hm⟩
      obtain ⟨i, hi⟩ := List.mem_iff_getElem?.mp hh
      have hlt : i < hosts.length := by
        rcases Nat.lt_or_ge i hosts.length with h' | h'
        · exact h'
        · rw [List.getElem?_eq_none h'] at hi; cases hi
      have : i ∈ positions hosts k v :=
        (mem_positions _ _ _ _).mpr ⟨hlt, by rw [metaAt_of_getElem? hi]; exact hm⟩
      have hp : positions hosts k v ≠ [] := fun e => by rw [e] at this; simp at this
      simp [hp]
  · simp [hk]

theorem mem_combosGo (ix : Index) (shuf : List Val → List Val) (hshuf : ∀ l v, v ∈ shuf l ↔ v ∈ l)
    (n : Nat) (ks : List Key) (idx : Nat) (pre q : Path) (hn : idx + ks.length = n) :
    q ∈ combosGo ix shuf n idx ks pre ↔
      ks ≠ [] ∧ ∃ q', q = pre ++ q' ∧ q'.map (·.1) = ks ∧ ∀ kv ∈ q', kv.2 ∈ vals ix kv.1 := by
  induction ks generalizing idx pre with
  | nil => simp [combosGo]
  | cons k ks ih =>
    simp only [combosGo, List.mem_flatMap, hshuf, Gen.Subset.comboMore]
    have hvals : ∀ v, v ∈ ((List.lookup k ix).getD []).map (·.1) ↔ v ∈ vals ix k := fun v => Iff.rfl
    cases ks with
    | nil =>
      have hnot : ¬ ((idx : Int) + 1 < (n : Int)) := by simp at hn; omega
      simp only [hnot, decide_false, Bool.false_eq_true, if_false, List.mem_singleton]
      constructor
      · rintro ⟨v, hv, rfl⟩
        exact ⟨by simp, [(k, v)], rfl, rfl, by simpa [vals] using hv⟩
      · rintro ⟨_, q', rfl, hm, hv⟩
        cases q' with
        | nil => simp at hm
        | cons kv0 q'' =>
          obtain ⟨k', v⟩ := kv0
          simp only [List.map_cons, List.cons.injEq, List.map_eq_nil_iff] at hm
          obtain ⟨hk', hm2⟩ := hm
          subst hk' hm2
          exact ⟨v, by simpa [vals] using hv (k', v) (by simp), rfl⟩
    | cons k2 ks2 =>
      have hlt : (idx : Int) + 1 < (n : Int) := by simp at hn; omega
      simp only [hlt, decide_true, if_true]
      constructor
      · rintro ⟨v, hv, hq⟩
        obtain ⟨_, q'', rfl, hm, hvs⟩ := (ih (idx + 1) (pre ++ [(k, v)]) (by simp at hn ⊢; omega)).mp hq
        refine ⟨by simp, (k, v) :: q'', by simp, by simp [hm], ?_⟩
        intro kv hkv
        rcases List.mem_cons.mp hkv with rfl | hkv
        · simpa [vals] using hv
        · exact hvs kv hkv
      · rintro ⟨_, q', rfl, hm, hvs⟩
        cases q' with
        | nil => simp at hm
        | cons kv0 q'' =>
          obtain ⟨k', v⟩ := kv0
          simp only [List.map_cons, List.cons.injEq] at hm
          obtain ⟨hk', hm2⟩ := hm
          subst hk'
          refine ⟨v, by simpa [vals] using hvs (k', v) (by simp), ?_⟩
          apply (ih (idx + 1) (pre ++ [(k', v)]) (by simp at hn ⊢; omega)).mpr
          exact ⟨by simp, q'', by simp, hm2, fun kv hkv => hvs kv (List.mem_cons_of_mem _ hkv)⟩

theorem mem_combos (ix : Index) (shuf : List Val → List Val) (hshuf : ∀ l v, v ∈ shuf l ↔ v ∈ l)
    (s : List Key) (q : Path) :
    q ∈ combos ix shuf s ↔ s ≠ [] ∧ q.map (·.1) = s ∧ ∀ kv ∈ q, kv.2 ∈ vals ix kv.1 := by
  unfold combos Gen.Subset.comboEmpty
  cases s with
  | nil => simp
  | cons k ks =>
    have hne : ¬ (((k :: ks).length : Int) = 0) := by simp; omega
    simp only [hne, decide_false, Bool.false_eq_true, if_false]
    rw [mem_combosGo ix shuf hshuf _ _ 0 [] q (by simp)]
    simp

theorem preStep_eq (ix : Index) (hosts : List Host) (root : Root) (kvs : Path) :
    preStep ix hosts root kvs = stepP (filterHostsIdx ix hosts) root kvs := by
  unfold preStep stepP
  rw [modifyGo_eq _ (fun a b => by simp [Gen.Subset.createLastPre]) _ _ 0 _ _ (by simp)]

def pathsP (ix : Index) (shuf : List Val → List Val) (sels : List (List Key)) : List Path :=
  sels.flatMap (combos ix shuf)

theorem buildPre_eq (ix : Index) (shuf : List Val → List Val) (hosts : List Host) (sels : List (List Key)) :
    buildPre ix shuf hosts sels = (pathsP ix shuf sels).foldl (stepP (filterHostsIdx ix hosts)) [] := by
  unfold buildPre pathsP
  rw [List.foldl_flatMap]
  congr 1
  funext root sel
  congr 1
  funext root kvs
  exact preStep_eq ix hosts root kvs

/-- **refinement of the pre-index builder** -/
theorem activeHosts_buildPre (shuf : List Val → List Val) (hshuf : ∀ l v, v ∈ shuf l ↔ v ∈ l)
    (hosts : List Host) (keys : List Key) (sels : List (List Key)) (hkeys : ∀ s ∈ sels, ∀ k ∈ s, k ∈ keys)
    (q : Path) :
    activeHosts (buildPre (mkIndex hosts keys) shuf hosts sels) q =
      if q ≠ [] ∧ q.map (·.1) ∈ sels then hosts.filter (hostMatches q) else [] := by
  unfold activeHosts
  rw [buildPre_eq, lbAt_foldl_stepP]
  simp only [lbAt_empty_root]
  by_cases h1 : q ≠ [] ∧ q.map (·.1) ∈ sels
  · rw [if_pos h1]
    have hk : ∀ kv ∈ q, kv.1 ∈ keys := fun kv hkv =>
      hkeys _ h1.2 kv.1 (List.mem_map.mpr ⟨kv, hkv, rfl⟩)
    have hF := filterHostsIdx_eq hosts keys q hk
    by_cases hne : filterHostsIdx (mkIndex hosts keys) hosts q = []
    · rw [if_neg (fun h => h.2.2 hne)]
      rw [← hF, hne]; rfl
    · have hmem : q ∈ pathsP (mkIndex hosts keys) shuf sels := by
        simp only [pathsP, List.mem_flatMap]
        refine ⟨q.map (·.1), h1.2, (mem_combos _ _ hshuf _ _).mpr ⟨?_, rfl, ?_⟩⟩
        · intro h; exact h1.1 (List.map_eq_nil_iff.mp h)
        · intro kv hkv
          rw [hF] at hne
          obtain ⟨h, hh⟩ := List.exists_mem_of_ne_nil _ hne
          obtain ⟨hh1, hh2⟩ := List.mem_filter.mp hh
          exact (mem_vals_mkIndex _ _ _ _).mpr ⟨hk kv hkv, h, hh1, (hostMatches_iff _ _).mp hh2 kv hkv⟩
      rw [if_pos ⟨hmem, h1.1, hne⟩, hF]; rfl
  · rw [if_neg h1]
    have : ¬ (q ∈ pathsP (mkIndex hosts keys) shuf sels ∧ q ≠ [] ∧ filterHostsIdx (mkIndex hosts keys) hosts q ≠ []) := by
      rintro ⟨hm, hq, _⟩
      simp only [pathsP, List.mem_flatMap] at hm
      obtain ⟨s, hs, hc⟩ := hm
      obtain ⟨_, hmap, _⟩ := (mem_combos _ _ hshuf _ _).mp hc
      exact h1 ⟨hq, hmap ▸ hs⟩
    rw [if_neg this]; rfl

/-! ### F. selector normalisation (`InitSet`, `GenerateSubsetKeys`) -/

abbrev SSorted (l : List Key) : Prop := l.Pairwise (· < ·)

theorem foldl_dedup_spec (l acc : List Key) (hacc : acc.Nodup) :
    (l.foldl (fun acc k => if acc.contains k then acc else acc ++ [k]) acc).Nodup ∧
    ∀ k, k ∈ l.foldl (fun acc k => if acc.contains k then acc else acc ++ [k]) acc ↔ k ∈ acc ∨ k ∈ l := by
  induction l generalizing acc with
  | nil => simp [hacc]
  | cons x l ih =>
    rw [List.foldl_cons]
    by_cases hx : x ∈ acc
    · have : acc.contains x = true := List.contains_iff_mem.mpr hx
      simp only [this, if_true]
      obtain ⟨h1, h2⟩ := ih acc hacc
      refine ⟨h1, fun k => ?_⟩
      rw [h2]; constructor
      · rintro (h | h); exact Or.inl h; exact Or.inr (List.mem_cons_of_mem _ h)
      · rintro (h | h); exact Or.inl h
        rcases List.mem_cons.mp h with rfl | h; exact Or.inl hx; exact Or.inr h
    · have : acc.contains x = false := by
        cases hc : acc.contains x with
        | false => rfl
        | true => exact absurd (List.contains_iff_mem.mp hc) hx
      simp only [this, Bool.false_eq_true, if_false]
      have hnd : (acc ++ [x]).Nodup := by
        rw [List.nodup_append]
        refine ⟨hacc, by simp, ?_⟩
        intro a ha b hb; simp at hb; subst hb; intro e; subst e; exact hx ha
      obtain ⟨h1, h2⟩ := ih (acc ++ [x]) hnd
      refine ⟨h1, fun k => ?_⟩
      rw [h2, List.mem_append, List.mem_singleton, List.mem_cons]
      constructor
      · rintro ((h | h) | h); exact Or.inl h; exact Or.inr (Or.inl h); exact Or.inr (Or.inr h)
      · rintro (h | h | h); exact Or.inl (Or.inl h); exact Or.inl (Or.inr h); exact Or.inr h

theorem dedupKeys_nodup (l : List Key) : (dedupKeys l).Nodup := (foldl_dedup_spec l [] List.nodup_nil).1
theorem mem_dedupKeys (l : List Key) (k : Key) : k ∈ dedupKeys l ↔ k ∈ l := by
  have := (foldl_dedup_spec l [] List.nodup_nil).2 k
  simpa [dedupKeys] using this

theorem mem_insertKey (k x : Key) (l : List Key) : x ∈ insertKey k l ↔ x = k ∨ x ∈ l := by
  induction l with
  | nil => simp [insertKey]
  | cons y r ih =>
    unfold insertKey
    split
    · simp
    · simp only [List.mem_cons, ih]
      constructor
      · rintro (h | h | h); exact Or.inr (Or.inl h); exact Or.inl h; exact Or.inr (Or.inr h)
      · rintro (h | h | h); exact Or.inr (Or.inl h); exact Or.inl h; exact Or.inr (Or.inr h)

theorem insertKey_sorted (k : Key) (l : List Key) (hs : SSorted l) (hk : k ∉ l) : SSorted (insertKey k l) := by
  induction l with
  | nil => simp [insertKey, SSorted]
  | cons y r ih =>
    have hy : SSorted r := (List.pairwise_cons.mp hs).2
    have hyall : ∀ z ∈ r, y < z := (List.pairwise_cons.mp hs).1
    unfold insertKey
    split
    · next hle =>
      have hne : k ≠ y := fun e => hk (by simp [e])
      have hlt : k < y := by
        rcases Decidable.em (k < y) with h | h
        · exact h
        · exact absurd (String.le_antisymm hle (String.not_lt.mp h)) hne
      refine List.pairwise_cons.mpr ⟨?_, hs⟩
      intro z hz
      rcases List.mem_cons.mp hz with rfl | hz
      · exact hlt
      · exact String.lt_trans hlt (hyall z hz)
    · next hle =>
      have hlt : y < k := String.not_le.mp hle
      refine List.pairwise_cons.mpr ⟨?_, ih hy (fun h => hk (List.mem_cons_of_mem _ h))⟩
      intro z hz
      rcases (mem_insertKey k z r).mp hz with rfl | hz
      · exact hlt
      · exact hyall z hz

theorem sortKeys_spec (l : List Key) (hnd : l.Nodup) : SSorted (sortKeys l) ∧ ∀ k, k ∈ sortKeys l ↔ k ∈ l := by
  induction l with
  | nil => simp [sortKeys, SSorted]
  | cons x l ih =>
    obtain ⟨h1, h2⟩ := ih (List.nodup_cons.mp hnd).2
    have hx : x ∉ sortKeys l := fun h => (List.nodup_cons.mp hnd).1 ((h2 x).mp h)
    have : sortKeys (x :: l) = insertKey x (sortKeys l) := rfl
    rw [this]
    refine ⟨insertKey_sorted x _ h1 hx, fun k => ?_⟩
    rw [mem_insertKey, h2]; simp

theorem initSet_sorted (l : List Key) : SSorted (initSet l) := (sortKeys_spec _ (dedupKeys_nodup l)).1
theorem mem_initSet (l : List Key) (k : Key) : k ∈ initSet l ↔ k ∈ l := by
  unfold initSet
  rw [(sortKeys_spec _ (dedupKeys_nodup l)).2, mem_dedupKeys]

/-- two strictly sorted key lists with the same members are equal -/
theorem ssorted_ext (a b : List Key) (ha : SSorted a) (hb : SSorted b) (h : ∀ k, k ∈ a ↔ k ∈ b) : a = b := by
  induction a generalizing b with
  | nil =>
    cases b with
    | nil => rfl
    | cons y _ => exact absurd ((h y).mpr (by simp)) (by simp)
  | cons x ta ih =>
    cases b with
    | nil => exact absurd ((h x).mp (by simp)) (by simp)
    | cons y tb =>
      obtain ⟨hxa, hta⟩ := List.pairwise_cons.mp ha
      obtain ⟨hyb, htb⟩ := List.pairwise_cons.mp hb
      have hxy : x = y := by
        rcases List.mem_cons.mp ((h x).mp (by simp)) with e | hx
        · exact e
        · rcases List.mem_cons.mp ((h y).mpr (by simp)) with e | hy
          · exact e.symm
          · exact absurd (hxa y hy) (String.lt_asymm (hyb x hx))
      subst hxy
      congr 1
      apply ih tb hta htb
      intro k
      constructor
      · intro hk
        rcases List.mem_cons.mp ((h k).mp (List.mem_cons_of_mem _ hk)) with e | hk'
        · subst e; exact absurd (hxa k hk) (String.lt_irrefl k)
        · exact hk'
      · intro hk
        rcases List.mem_cons.mp ((h k).mpr (List.mem_cons_of_mem _ hk)) with e | hk'
        · subst e; exact absurd (hyb k hk) (String.lt_irrefl k)
        · exact hk'

theorem strictSorted_iff (l : List Key) : strictSorted l = true ↔ SSorted l := by
  induction l with
  | nil => simp [strictSorted, SSorted]
  | cons a r ih =>
    cases r with
    | nil => simp [strictSorted, SSorted]
    | cons b r' =>
      simp only [strictSorted, Bool.and_eq_true, decide_eq_true_eq, ih]
      constructor
      · rintro ⟨hab, hs⟩
        refine List.pairwise_cons.mpr ⟨?_, hs⟩
        intro z hz
        rcases List.mem_cons.mp hz with rfl | hz
        · exact hab
        · exact String.lt_trans hab ((List.pairwise_cons.mp hs).1 z hz)
      · intro hs
        obtain ⟨h1, h2⟩ := List.pairwise_cons.mp hs
        exact ⟨h1 b (by simp), h2⟩

theorem mem_generateSubsetKeys (raw : List (List Key)) (s : List Key) :
    s ∈ generateSubsetKeys raw ↔ ∃ r ∈ raw, s = initSet r := by
  unfold generateSubsetKeys
  suffices h : ∀ acc : List (List Key),
      s ∈ raw.foldl (fun acc ks => let s := initSet ks; if acc.contains s then acc else acc ++ [s]) acc ↔
        s ∈ acc ∨ ∃ r ∈ raw, s = initSet r by
    simpa using h []
  induction raw with
  | nil => simp
  | cons x raw ih =>
    intro acc
    rw [List.foldl_cons, ih]
    by_cases hx : initSet x ∈ acc
    · have : acc.contains (initSet x) = true := List.contains_iff_mem.mpr hx
      simp only [this, if_true]
      constructor
      · rintro (h | ⟨r, hr, e⟩); exact Or.inl h; exact Or.inr ⟨r, List.mem_cons_of_mem _ hr, e⟩
      · rintro (h | ⟨r, hr, e⟩); exact Or.inl h
        rcases List.mem_cons.mp hr with rfl | hr
        · exact Or.inl (e ▸ hx)
        · exact Or.inr ⟨r, hr, e⟩
    · have : acc.contains (initSet x) = false := by
        cases hc : acc.contains (initSet x) with
        | false => rfl
        | true => exact absurd (List.contains_iff_mem.mp hc) hx
      simp only [this, Bool.false_eq_true, if_false, List.mem_append, List.mem_singleton]
      constructor
      · rintro ((h | h) | ⟨r, hr, e⟩)
        · exact Or.inl h
        · exact Or.inr ⟨x, by simp, h⟩
        · exact Or.inr ⟨r, List.mem_cons_of_mem _ hr, e⟩
      · rintro (h | ⟨r, hr, e⟩)
        · exact Or.inl (Or.inl h)
        · rcases List.mem_cons.mp hr with rfl | hr
          · exact Or.inl (Or.inr e)
          · exact Or.inr ⟨r, hr, e⟩

/-- a strictly sorted key list is one of the normalised selectors iff some configured selector has that key *set* -/
theorem sorted_mem_generateSubsetKeys (raw : List (List Key)) (ks : List Key) (hs : strictSorted ks = true) :
    ks ∈ generateSubsetKeys raw ↔ ∃ r ∈ raw, ∀ k, k ∈ r ↔ k ∈ ks := by
  rw [mem_generateSubsetKeys]
  constructor
  · rintro ⟨r, hr, e⟩
    exact ⟨r, hr, fun k => by rw [e, mem_initSet]⟩
  · rintro ⟨r, hr, h⟩
    refine ⟨r, hr, ssorted_ext _ _ ((strictSorted_iff _).mp hs) (initSet_sorted r) ?_⟩
    intro k; rw [mem_initSet]; exact (h k).symm

theorem selectorExists_iff (raw : List (List Key)) (crit : Path) :
    selectorExists raw crit = true ↔ crit ≠ [] ∧ ∃ r ∈ raw, ∀ k, k ∈ r ↔ k ∈ crit.map (·.1) := by
  unfold selectorExists sameKeySet
  simp only [Bool.and_eq_true, Bool.not_eq_true', List.isEmpty_eq_false_iff, List.any_eq_true, List.all_eq_true,
    List.contains_iff_mem]
  constructor
  · rintro ⟨h1, r, hr, h2, h3⟩
    exact ⟨h1, r, hr, fun k => ⟨h2 k, h3 k⟩⟩
  · rintro ⟨h1, r, hr, h⟩
    exact ⟨h1, r, hr, fun k hk => (h k).mp hk, fun k hk => (h k).mpr hk⟩

/-! ### G. the observable operations in terms of the active hosts at the criteria's path -/

theorem findSubset_data (root : Root) (c : Path) :
    (Gen.Subset.tryReject (findSubset root c).isSome ((findSubset root c).elim false entryActive)
        = decide (activeHosts root c = [])) ∧
    (Gen.Subset.hostNumAccept (findSubset root c).isSome ((findSubset root c).elim false entryActive)
        = !decide (activeHosts root c = [])) ∧
    (Gen.Subset.existsAccept (findSubset root c).isSome ((findSubset root c).elim false entryActive)
        = !decide (activeHosts root c = [])) ∧
    (((findSubset root c).bind Trie.lb).getD [] = activeHosts root c) ∧
    ((findSubset root c).elim 0 entryHostNum = ((activeHosts root c).length : Int)) := by
  rw [findSubset_eq]
  unfold activeHosts lbAt Gen.Subset.tryReject Gen.Subset.hostNumAccept Gen.Subset.existsAccept
  cases findS root c with
  | none => simp
  | some e =>
    cases e with
    | node lb ch =>
      cases lb with
      | none => simp [entryActive, entryHostNum, Gen.Subset.entryActive, Gen.Subset.entryHostNum]
      | some l =>
        cases l with
        | nil => simp [entryActive, entryHostNum, Gen.Subset.entryActive, Gen.Subset.entryHostNum]
        | cons a b =>
          have : ((b.length : Int) + 1 > 0) := by omega
          simp [entryActive, entryHostNum, Gen.Subset.entryActive, Gen.Subset.entryHostNum, this]

theorem chooseHost_crit (inner : Inner) (lb : LB) (c : Path) (d1 d2 : Nat) :
    chooseHost inner lb (.crit c) d1 d2 =
      if activeHosts lb.subsets c = [] then fallbackChoice inner lb d2
      else match inner (activeHosts lb.subsets c) d1 with
        | some h => some h
        | none => fallbackChoice inner lb d2 := by
  obtain ⟨h1, _, _, h4, _⟩ := findSubset_data lb.subsets c
  simp only [chooseHost, tryChoose, Query.criteria, h1, h4, Gen.Subset.chooseAccept]
  by_cases ha : activeHosts lb.subsets c = []
  · simp [ha]
  · simp only [ha, decide_false, Bool.false_eq_true, if_false, Bool.true_and]
    cases inner (activeHosts lb.subsets c) d1 <;> simp

theorem accept_eq (x y : Option Host) :
    (if (true && x.isSome) = true then x else y) = (match x with | some h => some h | none => y) := by
  cases x <;> simp

theorem chooseHost_nilCrit (inner : Inner) (lb : LB) (d1 d2 : Nat) :
    chooseHost inner lb .nilCrit d1 d2 =
      match inner lb.full d1 with
      | some h => some h
      | none => fallbackChoice inner lb d2 := by
  simp only [chooseHost, tryChoose, Query.criteria, Gen.Subset.chooseAccept]
  exact accept_eq _ _

theorem chooseHost_nilCtx (inner : Inner) (lb : LB) (d1 d2 : Nat) :
    chooseHost inner lb .nilCtx d1 d2 = fallbackChoice inner lb d2 := by
  simp [chooseHost]

theorem hostNum_crit (lb : LB) (c : Path) :
    hostNum lb (some c) =
      if activeHosts lb.subsets c = [] then fallbackNum lb
      else ((activeHosts lb.subsets c).length : Int) := by
  obtain ⟨_, h2, _, _, h5⟩ := findSubset_data lb.subsets c
  simp only [hostNum, h2, h5]
  by_cases ha : activeHosts lb.subsets c = [] <;> simp [ha]

theorem isExists_crit (lb : LB) (c : Path) :
    isExists lb (some c) =
      if activeHosts lb.subsets c = [] then fallbackExists lb
      else true := by
  obtain ⟨_, _, h3, _, _⟩ := findSubset_data lb.subsets c
  simp only [isExists, h3]
  by_cases ha : activeHosts lb.subsets c = [] <;> simp [ha]

theorem mem_mergeKeys (sels : List (List Key)) (dflt : Path) (k : Key) :
    k ∈ mergeKeys sels dflt ↔ (∃ s ∈ sels, k ∈ s) ∨ k ∈ dflt.map (·.1) := by
  unfold mergeKeys
  rw [List.mem_eraseDups, List.mem_append, List.mem_flatten]

theorem fallbackOf_spec (kind : Int) (hosts d : List Host) :
    fallbackOf kind hosts d = if kind = 1 then some hosts else if kind = 2 then some d else none := rfl

/-! ### H. the round-robin inner balancer -/

/-- the contract an inner load balancer has to meet (property C05): a chosen host is a healthy member, and a host is
chosen whenever a healthy member exists -/
structure InnerOK (inner : Inner) : Prop where
  sound : ∀ l d h, inner l d = some h → h ∈ l ∧ h.healthy = true
  complete : ∀ l d, (∃ h ∈ l, h.healthy = true) → ∃ h, inner l d = some h

theorem rrScan_sound (l : List Host) (s cnt : Nat) (h : Host) (hr : rrScan l s cnt = some h) :
    h ∈ l ∧ h.healthy = true := by
  unfold rrScan at hr
  obtain ⟨i, _, hi⟩ := List.exists_of_findSome?_eq_some hr
  cases hg : l[(s + i) % l.length]? with
  | none => simp [hg] at hi
  | some x =>
    simp only [hg] at hi
    by_cases hx : x.healthy = true
    · simp only [hx, if_true, Option.some.injEq] at hi
      subst hi
      exact ⟨List.mem_of_getElem? hg, hx⟩
    · simp [hx] at hi

/-- the scan over `n` consecutive indexes reaches every position -/
theorem rrScan_hits (l : List Host) (s : Nat) (j : Nat) (hj : j < l.length) :
    ∃ i, i < l.length ∧ (s + i) % l.length = j := by
  have hn : 0 < l.length := Nat.lt_of_le_of_lt (Nat.zero_le _) hj
  have hr : s % l.length < l.length := Nat.mod_lt _ hn
  by_cases hc : s % l.length ≤ j
  · refine ⟨j - s % l.length, by omega, ?_⟩
    have : s + (j - s % l.length) = j + l.length * (s / l.length) := by
      have := Nat.div_add_mod s l.length
      omega
    rw [this, Nat.add_mul_mod_self_left, Nat.mod_eq_of_lt hj]
  · refine ⟨j + l.length - s % l.length, by omega, ?_⟩
    have : s + (j + l.length - s % l.length) = j + l.length * (s / l.length + 1) := by
      have := Nat.div_add_mod s l.length
      rw [Nat.mul_add, Nat.mul_one]
      omega
    rw [this, Nat.add_mul_mod_self_left, Nat.mod_eq_of_lt hj]

theorem rrScan_complete (l : List Host) (s : Nat) (hex : ∃ h ∈ l, h.healthy = true) :
    ∃ h, rrScan l s l.length = some h := by
  obtain ⟨h, hh, hhe⟩ := hex
  obtain ⟨j, hj, hget⟩ := List.getElem_of_mem hh
  obtain ⟨i, hi, hmod⟩ := rrScan_hits l s j hj
  cases hr : rrScan l s l.length with
  | some x => exact ⟨x, rfl⟩
  | none =>
    unfold rrScan at hr
    rw [List.findSome?_eq_none_iff] at hr
    have := hr i (List.mem_range.mpr hi)
    rw [hmod, List.getElem?_eq_getElem hj, hget] at this
    simp [hhe] at this

theorem rrChoose_ok : InnerOK rrChoose where
  sound := by
    intro l d h hr
    unfold rrChoose at hr
    by_cases hl : l.length = 0
    · simp [hl] at hr
    · simp only [hl, if_false] at hr
      cases h1 : rrScan l (d + 1) l.length with
      | some x => simp only [h1, Option.some.injEq] at hr; subst hr; exact rrScan_sound _ _ _ _ h1
      | none => simp only [h1] at hr; exact rrScan_sound _ _ _ _ hr
  complete := by
    intro l d hex
    unfold rrChoose
    have hl : l.length ≠ 0 := by
      obtain ⟨h, hh, _⟩ := hex
      intro e; rw [List.length_eq_zero_iff] at e; subst e; simp at hh
    simp only [hl, if_false]
    obtain ⟨x, hx⟩ := rrScan_complete l (d + 1) hex
    exact ⟨x, by simp [hx]⟩

/-- every healthy member is returned for some state of the round-robin balancer (so a sweep sees all of them) -/
theorem rrChoose_sweeps (l : List Host) (h : Host) (hh : h ∈ l) (hhe : h.healthy = true) :
    ∃ d, rrChoose l d = some h := by
  obtain ⟨j, hj, hget⟩ := List.getElem_of_mem hh
  have hn : 0 < l.length := Nat.lt_of_le_of_lt (Nat.zero_le _) hj
  -- state d with (d + 1) % n = j: the first index tried is j
  refine ⟨j + l.length - 1, ?_⟩
  unfold rrChoose
  have hl : l.length ≠ 0 := by omega
  simp only [hl, if_false]
  have hfirst : rrScan l (j + l.length - 1 + 1) l.length = some h := by
    unfold rrScan
    have hr : List.range l.length = 0 :: (List.range (l.length - 1)).map Nat.succ := by
      rw [← List.range_succ_eq_map]; congr 1; omega
    rw [hr, List.findSome?_cons]
    have h0 : (j + l.length - 1 + 1 + 0) % l.length = j := by
      have : j + l.length - 1 + 1 + 0 = j + l.length * 1 := by omega
      rw [this, Nat.add_mul_mod_self_left, Nat.mod_eq_of_lt hj]
    rw [h0, List.getElem?_eq_getElem hj, hget]
    simp [hhe]
  simp [hfirst]

/-! ### I. the two balancers against the declarative reference -/

theorem hostMatches_fun (q : Path) : hostMatches q = (contains · q) := by
  funext h; exact hostMatches_eq_contains q h

/-- the filtering balancer built from the raw configuration -/
def lbF (hosts : List Host) (raw : List (List Key)) (policy : Nat) (dflt : Path) : LB :=
  newFilter hosts (policy : Int) dflt (generateSubsetKeys raw)

/-- the pre-index balancer built from the raw configuration (`shuf`: Go's map iteration order) -/
def lbP (shuf : List Val → List Val) (hosts : List Host) (raw : List (List Key)) (policy : Nat) (dflt : Path) : LB :=
  newPre shuf hosts (policy : Int) dflt (generateSubsetKeys raw)

/-- the active hosts both builders must store at a path, stated on normalised selectors -/
def refHosts (hosts : List Host) (sels : List (List Key)) (q : Path) : List Host :=
  if q ≠ [] ∧ q.map (·.1) ∈ sels then hosts.filter (contains · q) else []

theorem activeHosts_lbF (hosts : List Host) (raw : List (List Key)) (policy : Nat) (dflt : Path) (q : Path) :
    activeHosts (lbF hosts raw policy dflt).subsets q = refHosts hosts (generateSubsetKeys raw) q := by
  simp only [lbF, newFilter, activeHosts_buildFilter, refHosts, hostMatches_fun]

theorem activeHosts_lbP (shuf : List Val → List Val) (hshuf : ∀ l v, v ∈ shuf l ↔ v ∈ l)
    (hosts : List Host) (raw : List (List Key)) (policy : Nat) (dflt : Path) (q : Path) :
    activeHosts (lbP shuf hosts raw policy dflt).subsets q = refHosts hosts (generateSubsetKeys raw) q := by
  simp only [lbP, newPre, refHosts]
  rw [activeHosts_buildPre shuf hshuf hosts _ _ (fun s hs k hk => (mem_mergeKeys _ _ _).mpr (Or.inl ⟨s, hs, hk⟩)),
    hostMatches_fun]

/-- on criteria sorted by key, "the key list is a normalised selector" is "a configured selector has this key set" -/
theorem refHosts_sorted (hosts : List Host) (raw : List (List Key)) (c : Path)
    (hs : strictSorted (c.map (·.1)) = true) :
    refHosts hosts (generateSubsetKeys raw) c =
      if selectorExists raw c = true then hosts.filter (contains · c) else [] := by
  unfold refHosts
  have h1 := sorted_mem_generateSubsetKeys raw (c.map (·.1)) hs
  have h2 := selectorExists_iff raw c
  by_cases he : selectorExists raw c = true
  · obtain ⟨ha, hb⟩ := h2.mp he
    rw [if_pos ⟨ha, h1.mpr hb⟩, if_pos he]
  · have : ¬ (c ≠ [] ∧ c.map (·.1) ∈ generateSubsetKeys raw) := fun h => he (h2.mpr ⟨h.1, h1.mp h.2⟩)
    rw [if_neg this, if_neg he]

theorem fallback_lbF (hosts : List Host) (raw : List (List Key)) (policy : Nat) (dflt : Path) :
    (lbF hosts raw policy dflt).fallback =
      match policy with
      | 1 => some hosts
      | 2 => some (hosts.filter (contains · dflt))
      | _ => none := by
  simp only [lbF, newFilter, fallbackOf, Gen.Subset.fallbackKindFilter, hostMatches_fun]
  match policy with
  | 0 => simp
  | 1 => simp
  | 2 => simp
  | n + 3 =>
    have h0 : ¬ ((n : Int) + 3 = 0) := by omega
    have h1 : ¬ ((n : Int) + 3 = 1) := by omega
    have h2 : ¬ ((n : Int) + 3 = 2) := by omega
    simp [h0, h1, h2]

theorem fallback_lbP (shuf : List Val → List Val) (hosts : List Host) (raw : List (List Key)) (policy : Nat) (dflt : Path) :
    (lbP shuf hosts raw policy dflt).fallback = (lbF hosts raw policy dflt).fallback := by
  simp only [lbP, lbF, newPre, newFilter]
  have hk : Gen.Subset.fallbackKindPre (policy : Int) = Gen.Subset.fallbackKindFilter (policy : Int) := by
    unfold Gen.Subset.fallbackKindPre Gen.Subset.fallbackKindFilter; rfl
  rw [hk, filterHostsIdx_eq hosts _ dflt
    (fun kv hkv => (mem_mergeKeys _ _ _).mpr (Or.inr (List.mem_map.mpr ⟨kv, hkv, rfl⟩)))]

theorem full_lbP (shuf : List Val → List Val) (hosts : List Host) (raw : List (List Key)) (policy : Nat) (dflt : Path) :
    (lbP shuf hosts raw policy dflt).full = hosts := by
  simp [lbP, newPre, filterHostsIdx, Gen.Subset.filterAll]

theorem full_lbF (hosts : List Host) (raw : List (List Key)) (policy : Nat) (dflt : Path) :
    (lbF hosts raw policy dflt).full = hosts := rfl

/-- two balancers with the same full list, fallback and active hosts at every path are observationally equal -/
theorem observe_congr (inner : Inner) (a b : LB) (hfull : a.full = b.full) (hfb : a.fallback = b.fallback)
    (hact : ∀ q, activeHosts a.subsets q = activeHosts b.subsets q) :
    (∀ q d1 d2, chooseHost inner a q d1 d2 = chooseHost inner b q d1 d2) ∧
    (∀ c, hostNum a c = hostNum b c) ∧ (∀ c, isExists a c = isExists b c) := by
  have hfc : ∀ d, fallbackChoice inner a d = fallbackChoice inner b d := fun d => by simp [fallbackChoice, hfb]
  refine ⟨?_, ?_, ?_⟩
  · intro q d1 d2
    cases q with
    | nilCtx => rw [chooseHost_nilCtx, chooseHost_nilCtx, hfc]
    | nilCrit => rw [chooseHost_nilCrit, chooseHost_nilCrit, hfc, hfull]
    | crit c => rw [chooseHost_crit, chooseHost_crit, hfc, hact]
  · intro c
    cases c with
    | none => simp [hostNum, hfull]
    | some c => rw [hostNum_crit, hostNum_crit, hact]; simp [fallbackNum, hfb]
  · intro c
    cases c with
    | none => simp [isExists, hfull]
    | some c => rw [isExists_crit, isExists_crit, hact]; simp [fallbackExists, hfb]

theorem fallbackPool_lbF (hosts : List Host) (raw : List (List Key)) (policy : Nat) (dflt : Path) :
    ((lbF hosts raw policy dflt).fallback).getD [] = specFallbackPool hosts policy dflt := by
  rw [fallback_lbF]
  unfold specFallbackPool
  match policy with
  | 0 => rfl
  | 1 => rfl
  | 2 => rfl
  | n + 3 => rfl

theorem fallbackChoice_sound (inner : Inner) (hin : InnerOK inner) (hosts : List Host) (raw : List (List Key))
    (policy : Nat) (dflt : Path) (d : Nat) (h : Host)
    (hc : fallbackChoice inner (lbF hosts raw policy dflt) d = some h) :
    h ∈ (specFallbackPool hosts policy dflt).filter (·.healthy) := by
  rw [← fallbackPool_lbF hosts raw policy dflt]
  unfold fallbackChoice at hc
  cases hf : (lbF hosts raw policy dflt).fallback with
  | none => simp [hf] at hc
  | some f =>
    simp only [hf] at hc
    obtain ⟨h1, h2⟩ := hin.sound _ _ _ hc
    simp [List.mem_filter, h1, h2]

theorem fallbackChoice_complete (inner : Inner) (hin : InnerOK inner) (hosts : List Host) (raw : List (List Key))
    (policy : Nat) (dflt : Path) (d : Nat)
    (hne : (specFallbackPool hosts policy dflt).filter (·.healthy) ≠ []) :
    ∃ h, fallbackChoice inner (lbF hosts raw policy dflt) d = some h := by
  rw [← fallbackPool_lbF hosts raw policy dflt] at hne
  unfold fallbackChoice
  cases hf : (lbF hosts raw policy dflt).fallback with
  | none => simp [hf] at hne
  | some f =>
    simp only [hf, Option.getD_some] at hne
    obtain ⟨x, hx⟩ := List.exists_mem_of_ne_nil _ hne
    obtain ⟨hx1, hx2⟩ := List.mem_filter.mp hx
    exact hin.complete f d ⟨x, hx1, by simpa using hx2⟩

/-- `ChooseHost` on sorted criteria, against the reference: the matching subset's balancer when a selector exists and
the subset has a healthy host, the fallback entry's balancer otherwise -/
theorem chooseHost_lbF_char (inner : Inner) (hin : InnerOK inner) (hosts : List Host) (raw : List (List Key))
    (policy : Nat) (dflt : Path) (c : Path) (hs : strictSorted (c.map (·.1)) = true) (d1 d2 : Nat) :
    chooseHost inner (lbF hosts raw policy dflt) (.crit c) d1 d2 =
      if selectorExists raw c = true ∧ (hosts.filter (contains · c)).filter (·.healthy) ≠ []
      then inner (hosts.filter (contains · c)) d1
      else fallbackChoice inner (lbF hosts raw policy dflt) d2 := by
  rw [chooseHost_crit, activeHosts_lbF, refHosts_sorted hosts raw c hs]
  by_cases he : selectorExists raw c = true
  · simp only [he, if_true, true_and]
    by_cases hm : (hosts.filter (contains · c)).filter (·.healthy) = []
    · have hnone : inner (hosts.filter (contains · c)) d1 = none := by
        cases hi : inner (hosts.filter (contains · c)) d1 with
        | none => rfl
        | some x =>
          obtain ⟨h1, h2⟩ := hin.sound _ _ _ hi
          have : x ∈ (hosts.filter (contains · c)).filter (·.healthy) := List.mem_filter.mpr ⟨h1, by simpa using h2⟩
          rw [hm] at this; simp at this
      simp only [hm, ne_eq, not_true_eq_false, if_false, hnone]
      split <;> rfl
    · have hne : hosts.filter (contains · c) ≠ [] := by
        intro e; rw [e] at hm; simp at hm
      obtain ⟨x, hx⟩ := List.exists_mem_of_ne_nil _ hm
      obtain ⟨hx1, hx2⟩ := List.mem_filter.mp hx
      obtain ⟨y, hy⟩ := hin.complete _ d1 ⟨x, hx1, by simpa using hx2⟩
      rw [if_neg hne, if_pos hm, hy]
  · simp [he]

theorem specTargets_eq (hosts : List Host) (raw : List (List Key)) (policy : Nat) (dflt c : Path) :
    specTargets hosts raw policy dflt c =
      if selectorExists raw c = true ∧ (hosts.filter (contains · c)).filter (·.healthy) ≠ []
      then (hosts.filter (contains · c)).filter (·.healthy)
      else (specFallbackPool hosts policy dflt).filter (·.healthy) := by
  unfold specTargets
  cases he : selectorExists raw c with
  | false => simp
  | true =>
    cases hm : (hosts.filter (contains · c)).filter (·.healthy) with
    | nil => simp
    | cons a b => simp

theorem specPool_eq (hosts : List Host) (raw : List (List Key)) (policy : Nat) (dflt c : Path) :
    specPool hosts raw policy dflt c =
      if selectorExists raw c = true ∧ hosts.filter (contains · c) ≠ []
      then hosts.filter (contains · c)
      else specFallbackPool hosts policy dflt := by
  unfold specPool
  cases he : selectorExists raw c with
  | false => simp
  | true =>
    cases hm : hosts.filter (contains · c) with
    | nil => simp
    | cons a b => simp

/-! ### J. match criteria as the router builds them -/

theorem map_fst_insertKV (kv : KV) (l : Path) : (insertKV kv l).map (·.1) = insertKey kv.1 (l.map (·.1)) := by
  induction l with
  | nil => rfl
  | cons x r ih =>
    simp only [insertKV, List.map_cons, insertKey]
    split <;> simp [ih]

theorem map_fst_mkCriteria (kvs : Path) : (mkCriteria kvs).map (·.1) = sortKeys (kvs.map (·.1)) := by
  induction kvs with
  | nil => rfl
  | cons kv r ih =>
    have h1 : mkCriteria (kv :: r) = insertKV kv (mkCriteria r) := rfl
    have h2 : sortKeys ((kv :: r).map (·.1)) = insertKey kv.1 (sortKeys (r.map (·.1))) := rfl
    rw [h1, h2, map_fst_insertKV, ih]

theorem mem_insertKV (kv x : KV) (l : Path) : x ∈ insertKV kv l ↔ x = kv ∨ x ∈ l := by
  induction l with
  | nil => simp [insertKV]
  | cons y r ih =>
    unfold insertKV
    split
    · simp
    · simp only [List.mem_cons, ih]
      constructor
      · rintro (h | h | h); exact Or.inr (Or.inl h); exact Or.inl h; exact Or.inr (Or.inr h)
      · rintro (h | h | h); exact Or.inr (Or.inl h); exact Or.inl h; exact Or.inr (Or.inr h)

theorem mem_mkCriteria (kvs : Path) (x : KV) : x ∈ mkCriteria kvs ↔ x ∈ kvs := by
  induction kvs with
  | nil => simp [mkCriteria]
  | cons kv r ih =>
    have h1 : mkCriteria (kv :: r) = insertKV kv (mkCriteria r) := rfl
    rw [h1, mem_insertKV, ih]; simp

theorem mkCriteria_sorted (kvs : Path) (hnd : (kvs.map (·.1)).Nodup) :
    strictSorted ((mkCriteria kvs).map (·.1)) = true := by
  rw [map_fst_mkCriteria, strictSorted_iff]
  exact (sortKeys_spec _ hnd).1

theorem contains_congr (h : Host) (c c' : Path) (hm : ∀ kv, kv ∈ c ↔ kv ∈ c') : contains h c = contains h c' := by
  rw [Bool.eq_iff_iff]
  simp only [contains, List.all_eq_true]
  exact ⟨fun hh kv hkv => hh kv ((hm kv).mpr hkv), fun hh kv hkv => hh kv ((hm kv).mp hkv)⟩

theorem selectorExists_congr (raw : List (List Key)) (c c' : Path) (hm : ∀ kv, kv ∈ c ↔ kv ∈ c') :
    selectorExists raw c = selectorExists raw c' := by
  rw [Bool.eq_iff_iff, selectorExists_iff, selectorExists_iff]
  have hk : ∀ k, k ∈ c.map (·.1) ↔ k ∈ c'.map (·.1) := by
    intro k
    simp only [List.mem_map]
    exact ⟨fun ⟨kv, h1, h2⟩ => ⟨kv, (hm kv).mp h1, h2⟩, fun ⟨kv, h1, h2⟩ => ⟨kv, (hm kv).mpr h1, h2⟩⟩
  have hne : c ≠ [] ↔ c' ≠ [] := by
    constructor
    · intro h e; subst e
      obtain ⟨x, hx⟩ := List.exists_mem_of_ne_nil _ h
      exact absurd ((hm x).mp hx) (by simp)
    · intro h e; subst e
      obtain ⟨x, hx⟩ := List.exists_mem_of_ne_nil _ h
      exact absurd ((hm x).mpr hx) (by simp)
  constructor
  · rintro ⟨h1, r, hr, h2⟩
    exact ⟨hne.mp h1, r, hr, fun k => (h2 k).trans (hk k)⟩
  · rintro ⟨h1, r, hr, h2⟩
    exact ⟨hne.mpr h1, r, hr, fun k => (h2 k).trans (hk k).symm⟩

theorem specTargets_congr (hosts : List Host) (raw : List (List Key)) (policy : Nat) (dflt c c' : Path)
    (hm : ∀ kv, kv ∈ c ↔ kv ∈ c') :
    specTargets hosts raw policy dflt c = specTargets hosts raw policy dflt c' := by
  have h1 : (fun h : Host => contains h c) = (fun h => contains h c') := by
    funext h; exact contains_congr h c c' hm
  unfold specTargets
  rw [selectorExists_congr raw c c' hm, h1]

theorem specPool_congr (hosts : List Host) (raw : List (List Key)) (policy : Nat) (dflt c c' : Path)
    (hm : ∀ kv, kv ∈ c ↔ kv ∈ c') :
    specPool hosts raw policy dflt c = specPool hosts raw policy dflt c' := by
  have h1 : (fun h : Host => contains h c) = (fun h => contains h c') := by
    funext h; exact contains_congr h c c' hm
  unfold specPool
  rw [selectorExists_congr raw c c' hm, h1]

end MosnVerif.Model.Subset
