import MosnVerif.Model.SubsetRequest
import MosnVerif.Lemmas.Subset
/-!
Helper lemmas for the request path of C15 (`Model/SubsetRequest.lean`): the router's sort is `mkCriteria`, what
`NewMetadataMatchCriteriaImpl` / `downStream.MetadataMatchCriteria` compute, and the content of the per-request map
after the route's pairs were copied into it.  Core Lean only.
-/
namespace MosnVerif.Model.SubsetRequest
open MosnVerif MosnVerif.Model.Subset

/-! ### A. `sort.Sort` under the regenerated `Less` is `mkCriteria` -/

theorem insertBy_eq (kv : KV) (l : Path) : insertBy kv l = insertKV kv l := by
  induction l with
  | nil => rfl
  | cons x r ih =>
    simp only [insertBy, insertKV, Gen.SubsetRequest.critLess, ih]
    by_cases h : x.1 < kv.1
    · have : ¬ kv.1 ≤ x.1 := String.not_le.mpr h
      simp [h, this]
    · have : kv.1 ≤ x.1 := String.not_lt.mp h
      simp [h, this]

theorem sortCrit_eq (l : Path) : sortCrit l = mkCriteria l := by
  unfold sortCrit mkCriteria
  induction l with
  | nil => rfl
  | cons x r ih => simp only [List.foldr_cons, ih, insertBy_eq]

theorem foldl_append_singleton (m acc : Meta) : m.foldl (fun arr kv => arr ++ [kv]) acc = acc ++ m := by
  induction m generalizing acc with
  | nil => simp
  | cons x r ih => simp [ih]

theorem mergeArr_none (m : Meta) : mergeArr none m = mkCriteria m := by
  unfold mergeArr
  simp only [Option.isSome_none, Gen.SubsetRequest.mergeTakesParent, Bool.false_eq_true, if_false, List.lookup_nil,
    Gen.SubsetRequest.mergeUpdates, foldl_append_singleton, List.nil_append, sortCrit_eq]

/-- `NewMetadataMatchCriteriaImpl(m)` is a new object holding the map's pairs sorted by key -/
theorem newImpl_eq (m : Meta) : newImpl m = some (mkCriteria m) := by
  have h0 : objVal none Gen.SubsetRequest.newImplParent = none := by decide
  have h1 : Gen.SubsetRequest.newImplRet = 2 := by decide
  have h2 : Gen.SubsetRequest.newImplRecv = 2 := by decide
  simp [newImpl, objCall, h0, h1, h2, mergeArr_none]

theorem routeObject_eq (md : Meta) : routeObject md = if md = [] then none else some (mkCriteria md) := by
  unfold routeObject Gen.SubsetRequest.routeOwnsCriteria
  rw [newImpl_eq]
  cases md with
  | nil => simp
  | cons a b => simp

theorem weightedObject_eq (md : Meta) : weightedObject md = some (mkCriteria md) := newImpl_eq md

/-! ### B. the per-request map after the route's pairs were copied into it -/

/-- the request's map after `copyRoute (fun ok => !ok)` -/
def effList (route : Option Path) (m : Meta) : Meta :=
  List.foldl (fun vm kv => if (List.lookup kv.1 vm).isSome then vm else mapSet kv vm) m (route.getD [])

theorem lookup_isSome_iff (k : Key) (m : Meta) : (List.lookup k m).isSome = true ↔ k ∈ m.map (·.1) := by
  induction m with
  | nil => simp
  | cons x r ih =>
    obtain ⟨a, b⟩ := x
    by_cases h : k = a
    · subst h; simp [List.lookup]
    · have : (k == a) = false := by simpa using h
      simp [List.lookup, this, ih, h]

theorem mapSet_absent (kv : KV) (m : Meta) (h : kv.1 ∉ m.map (·.1)) : mapSet kv m = m ++ [kv] := by
  induction m with
  | nil => rfl
  | cons x r ih =>
    have hx : x.1 ≠ kv.1 := fun e => h (by simp [e])
    have hr : kv.1 ∉ r.map (·.1) := fun e => h (by simp [e])
    have : (x.1 == kv.1) = false := by simpa using hx
    simp [mapSet, this, ih hr]

theorem effStep_eq (vm : Meta) (kv : KV) :
    (if (List.lookup kv.1 vm).isSome then vm else mapSet kv vm) =
      if kv.1 ∈ vm.map (·.1) then vm else vm ++ [kv] := by
  by_cases h : kv.1 ∈ vm.map (·.1)
  · rw [if_pos h, if_pos ((lookup_isSome_iff _ _).mpr h)]
  · rw [if_neg h, if_neg (fun e => h ((lookup_isSome_iff _ _).mp e)), mapSet_absent kv vm h]

theorem effFold_spec (r : Path) (m : Meta) (hr : (r.map (·.1)).Nodup) (hm : (m.map (·.1)).Nodup) :
    let e := List.foldl (fun vm kv => if (List.lookup kv.1 vm).isSome then vm else mapSet kv vm) m r
    (e.map (·.1)).Nodup ∧ ∀ kv, kv ∈ e ↔ kv ∈ m ∨ (kv ∈ r ∧ kv.1 ∉ m.map (·.1)) := by
  induction r generalizing m with
  | nil => simp [hm]
  | cons x r ih =>
    intro e
    have hxr : x.1 ∉ r.map (·.1) := (List.nodup_cons.mp hr).1
    have hr' : (r.map (·.1)).Nodup := (List.nodup_cons.mp hr).2
    have he : e = List.foldl (fun vm kv => if (List.lookup kv.1 vm).isSome then vm else mapSet kv vm)
        (if x.1 ∈ m.map (·.1) then m else m ++ [x]) r := by
      show List.foldl _ _ _ = _
      rw [List.foldl_cons, effStep_eq]
    by_cases hx : x.1 ∈ m.map (·.1)
    · rw [if_pos hx] at he
      obtain ⟨h1, h2⟩ := ih m hr' hm
      rw [he]
      refine ⟨h1, fun kv => ?_⟩
      rw [h2 kv]
      constructor
      · rintro (h | ⟨h, h'⟩)
        · exact Or.inl h
        · exact Or.inr ⟨List.mem_cons_of_mem _ h, h'⟩
      · rintro (h | ⟨h, h'⟩)
        · exact Or.inl h
        · rcases List.mem_cons.mp h with rfl | h
          · exact absurd hx h'
          · exact Or.inr ⟨h, h'⟩
    · rw [if_neg hx] at he
      have hm' : ((m ++ [x]).map (·.1)).Nodup := by
        rw [List.map_append, List.nodup_append]
        refine ⟨hm, by simp, ?_⟩
        intro a ha b hb
        simp at hb
        subst hb
        intro e; subst e; exact hx ha
      obtain ⟨h1, h2⟩ := ih (m ++ [x]) hr' hm'
      rw [he]
      refine ⟨h1, fun kv => ?_⟩
      rw [h2 kv]
      constructor
      · rintro (h | ⟨h, h'⟩)
        · rcases List.mem_append.mp h with h | h
          · exact Or.inl h
          · have : kv = x := by simpa using h
            subst this
            exact Or.inr ⟨List.mem_cons_self, hx⟩
        · refine Or.inr ⟨List.mem_cons_of_mem _ h, fun e => h' ?_⟩
          rw [List.map_append]; exact List.mem_append_left _ e
      · rintro (h | ⟨h, h'⟩)
        · exact Or.inl (List.mem_append_left _ h)
        · rcases List.mem_cons.mp h with rfl | h
          · exact Or.inl (List.mem_append_right _ (by simp))
          · refine Or.inr ⟨h, fun e => ?_⟩
            rw [List.map_append] at e
            rcases List.mem_append.mp e with e | e
            · exact h' e
            · have : kv.1 = x.1 := by simpa using e
              exact hxr (this ▸ List.mem_map.mpr ⟨kv, h, rfl⟩)

/-- keys of the router's criteria list are duplicate-free when the map's are -/
theorem mkCriteria_keys_nodup (kvs : Path) (hnd : (kvs.map (·.1)).Nodup) : ((mkCriteria kvs).map (·.1)).Nodup := by
  rw [map_fst_mkCriteria]
  have := (sortKeys_spec _ hnd).1
  exact this.imp (fun h => String.ne_of_lt h)

/-- content of the request's map after the copy, for a route object built from the configured map `rc` -/
theorem effList_spec (rc : Option Meta) (m : Meta) (hrc : ∀ r, rc = some r → (r.map (·.1)).Nodup)
    (hm : (m.map (·.1)).Nodup) :
    ((effList (rc.map mkCriteria) m).map (·.1)).Nodup ∧
    ∀ kv, kv ∈ effList (rc.map mkCriteria) m ↔ kv ∈ m ++ (rc.getD []).filter (fun kv => !(m.map (·.1)).contains kv.1) := by
  cases rc with
  | none => simp [effList, hm]
  | some r =>
    have hr := hrc r rfl
    obtain ⟨h1, h2⟩ := effFold_spec (mkCriteria r) m (mkCriteria_keys_nodup r hr) hm
    refine ⟨h1, fun kv => ?_⟩
    show kv ∈ List.foldl _ m (mkCriteria r) ↔ _
    rw [h2 kv, mem_mkCriteria]
    simp [List.mem_append, List.mem_filter]

/-! ### C. `downStream.MetadataMatchCriteria` -/

theorem assemble_none (route : Option Path) : assemble route none = ⟨route, route⟩ := by
  simp [assemble, Gen.SubsetRequest.assemble, retRoute]

theorem ite_bnot {α : Type} (b : Bool) (x y : α) : (if (!b) = true then x else y) = if b = true then y else x := by
  cases b <;> rfl

theorem assemble_some (route : Option Path) (m : Meta) :
    assemble route (some m) = ⟨some (mkCriteria (effList route m)), route⟩ := by
  cases route with
  | none => simp [assemble, Gen.SubsetRequest.assemble, retNew, newImpl_eq, effList]
  | some r => simp [assemble, Gen.SubsetRequest.assemble, retNew, copyRoute, newImpl_eq, effList, ite_bnot]

/-- no request changes the route's shared criteria object -/
theorem assemble_route (route : Option Path) (var : Option Meta) : (assemble route var).route = route := by
  cases var with
  | none => rw [assemble_none]
  | some m => rw [assemble_some]

theorem runSeq_eq (route : Option Path) (reqs : List (Option Meta)) :
    runSeq route reqs = reqs.map (assemble route) := by
  induction reqs with
  | nil => rfl
  | cons r rs ih =>
    show assemble route r :: runSeq (assemble route r).route rs = _
    rw [assemble_route, ih]; rfl

/-! ### D. the `HostNum == 0` gate of the cluster manager never changes the outcome -/

theorem specTargets_nil_of_pool_nil (hosts : List Host) (raw : List (List Key)) (policy : Nat) (dflt c : Path)
    (h : specPool hosts raw policy dflt c = []) : specTargets hosts raw policy dflt c = [] := by
  rw [specPool_eq] at h
  rw [specTargets_eq]
  by_cases hc : selectorExists raw c = true ∧ hosts.filter (contains · c) ≠ []
  · rw [if_pos hc] at h; exact absurd h hc.2
  · rw [if_neg hc] at h
    have hn : ¬ (selectorExists raw c = true ∧ (hosts.filter (contains · c)).filter (·.healthy) ≠ []) := by
      rintro ⟨h1, h2⟩
      apply hc
      refine ⟨h1, fun e => h2 ?_⟩
      rw [e]; rfl
    rw [if_neg hn, h]; rfl

end MosnVerif.Model.SubsetRequest
