import MosnVerif.Model.EdfHeap
import MosnVerif.Lemmas.EDF
/-! The array heap of `edfheap.go` keeps the heap order: `Push`, and `Fix(0)` after any change of the root's key,
restore it; in an ordered heap `Peek` is a minimum of the order. Generic in the order; instantiated with the regenerated
`edfEntryLess`. Core Lean only. -/
namespace MosnVerif.Model.EdfHeap

variable {α : Type} (lt : α → α → Bool)

/-- what the proofs need of the order: asymmetry and transitivity of `a ≤ b :⇔ ¬ b < a`. -/
structure WeakOrder : Prop where
  asymm : ∀ a b, lt a b = true → lt b a = false
  le_trans : ∀ a b c, lt b a = false → lt c b = false → lt c a = false

/-- heap order on the first `n` cells: no cell is less than its parent. -/
def Ordered (m : Nat → α) (n : Nat) : Prop := ∀ k, 0 < k → k < n → lt (m k) (m ((k - 1) / 2)) = false

/-- same contents on the first `n` cells (as sets, both directions), untouched beyond. -/
def SameSet (v v' : Nat → α) (n : Nat) : Prop :=
  (∀ k, k < n → ∃ k', k' < n ∧ v' k' = v k) ∧ (∀ k', k' < n → ∃ k, k < n ∧ v' k' = v k) ∧ ∀ k, n ≤ k → v' k = v k

theorem SameSet.refl (v : Nat → α) (n : Nat) : SameSet v v n :=
  ⟨fun k hk => ⟨k, hk, rfl⟩, fun k hk => ⟨k, hk, rfl⟩, fun _ _ => rfl⟩

theorem SameSet.trans {v1 v2 v3 : Nat → α} {n : Nat} (h1 : SameSet v1 v2 n) (h2 : SameSet v2 v3 n) : SameSet v1 v3 n := by
  refine ⟨?_, ?_, ?_⟩
  · intro k hk
    obtain ⟨k', hk', e1⟩ := h1.1 k hk
    obtain ⟨k'', hk'', e2⟩ := h2.1 k' hk'
    exact ⟨k'', hk'', e2.trans e1⟩
  · intro k hk
    obtain ⟨k', hk', e1⟩ := h2.2.1 k hk
    obtain ⟨k'', hk'', e2⟩ := h1.2.1 k' hk'
    exact ⟨k'', hk'', e1.trans e2⟩
  · intro k hk
    rw [h2.2.2 k hk, h1.2.2 k hk]

/-- exchanging two cells below `n` keeps the contents. -/
theorem sameSet_swap (v : Nat → α) (n i c : Nat) (hi : i < n) (hc : c < n) :
    SameSet v (upd (upd v i (v c)) c (v i)) n := by
  refine ⟨?_, ?_, ?_⟩
  · intro k hk
    by_cases h1 : k = i
    · exact ⟨c, hc, by simp [upd, h1]⟩
    · by_cases h2 : k = c
      · refine ⟨i, hi, ?_⟩
        subst h2
        by_cases h3 : i = k
        · simp [upd, h3]
        · simp [upd, h3]
      · exact ⟨k, hk, by simp [upd, h1, h2]⟩
  · intro k hk
    by_cases h2 : k = c
    · exact ⟨i, hi, by simp [upd, h2]⟩
    · by_cases h1 : k = i
      · exact ⟨c, hc, by simp [upd, h1, h2]; intro h; omega⟩
      · exact ⟨k, hk, by simp [upd, h1, h2]⟩
  · intro k hk
    have h1 : k ≠ i := by omega
    have h2 : k ≠ c := by omega
    simp [upd, h1, h2]

theorem upd_self (m : Nat → α) (i : Nat) : upd m i (m i) = m := by
  funext k; simp only [upd]; split
  · rename_i h; rw [h]
  · rfl

theorem upd_upd (m : Nat → α) (i : Nat) (a b : α) : upd (upd m i a) i b = upd m i b := by
  funext k; simp only [upd]; split <;> rfl

variable {lt}

theorem lt_irrefl (ho : WeakOrder lt) (a : α) : lt a a = false := by
  cases h : lt a a
  · rfl
  · have := ho.asymm a a h; rw [h] at this; exact absurd this (by simp)

/-- **Peek is a minimum**: in an ordered heap no cell is less than the root. -/
theorem root_min (ho : WeakOrder lt) (m : Nat → α) (n : Nat) (h : Ordered lt m n) :
    ∀ k, k < n → lt (m k) (m 0) = false := by
  intro k
  induction k using Nat.strongRecOn with
  | _ k ih =>
    intro hk
    by_cases h0 : k = 0
    · subst h0; exact lt_irrefl ho _
    · have hp : (k - 1) / 2 < k := by omega
      have := ih _ hp (by omega)
      exact ho.le_trans _ _ _ this (h k (by omega) hk)

theorem fixDownLoop_ge (m : Nat → α) (element : α) (i n : Nat) : i ≤ (fixDownLoop lt m element i n).2 := by
  fun_induction fixDownLoop lt m element i n with
  | case1 m i child hch child' hlt ih =>
    have : i < child' := by simp only [child', child]; split <;> omega
    omega
  | case2 => exact Nat.le_refl _
  | case3 => exact Nat.le_refl _

/-- sift-down with a hole at `i`: `v = m[i := element]` is ordered on every edge that does not start at `i`, and the
parent of `i` is not above `i`'s children; then the loop ends with an ordered heap with the same contents. -/
theorem fixDownLoop_spec (ho : WeakOrder lt) (m : Nat → α) (element : α) (i n : Nat) :
    i < n →
    (∀ k, 0 < k → k < n → (k - 1) / 2 ≠ i → lt (upd m i element k) (upd m i element ((k - 1) / 2)) = false) →
    (∀ k, 0 < k → k < n → (k - 1) / 2 = i → 0 < i → lt (upd m i element k) (upd m i element ((i - 1) / 2)) = false) →
    Ordered lt (upd (fixDownLoop lt m element i n).1 (fixDownLoop lt m element i n).2 element) n ∧
    SameSet (upd m i element) (upd (fixDownLoop lt m element i n).1 (fixDownLoop lt m element i n).2 element) n ∧
    ((fixDownLoop lt m element i n).2 = i → (fixDownLoop lt m element i n).1 = m) := by
  fun_induction fixDownLoop lt m element i n with
  | case1 m i child hch c hlt ih =>
    intro hi H1 H2
    -- the smaller child `c`
    have hcn : c < n ∧ (c = i * 2 + 1 ∨ c = i * 2 + 2) ∧
        (∀ k, k < n → (k = i * 2 + 1 ∨ k = i * 2 + 2) → lt (m k) (m c) = false) := by
      simp only [c, child]
      split
      · rename_i hh
        simp only [Bool.and_eq_true, decide_eq_true_eq] at hh
        refine ⟨hh.1, Or.inr rfl, ?_⟩
        intro k hk hk2
        rcases hk2 with rfl | rfl
        · exact ho.asymm _ _ hh.2
        · exact lt_irrefl ho _
      · rename_i hh
        simp only [Bool.and_eq_true, decide_eq_true_eq, not_and, Bool.not_eq_true] at hh
        refine ⟨hch, Or.inl rfl, ?_⟩
        intro k hk hk2
        rcases hk2 with rfl | rfl
        · exact lt_irrefl ho _
        · exact hh hk
    obtain ⟨hcn, hcc, hcmin⟩ := hcn
    have hci : c ≠ i := by omega
    have hic : i ≠ c := by omega
    have key := ih hcn ?_ ?_
    · obtain ⟨k1, k2, k3⟩ := key
      refine ⟨k1, SameSet.trans ?_ k2, ?_⟩
      · have := sameSet_swap (upd m i element) n i c hi hcn
        have e : upd (upd (upd m i element) i (upd m i element c)) c (upd m i element i) = upd (upd m i (m c)) c element := by
          rw [upd_upd]; simp [upd, hci]
        rw [e] at this; exact this
      · intro hji
        have := fixDownLoop_ge (lt := lt) (upd m i (m c)) element c n
        omega
    · -- H1 for the hole at `c`
      intro k hk0 hkn hpk
      by_cases hkc : k = c
      · -- edge (i, c): element is above m c
        have hp : (k - 1) / 2 = i := by omega
        rw [hp, hkc]
        simp only [upd, if_true, hic, if_false]
        exact ho.asymm _ _ hlt
      · by_cases hpi : (k - 1) / 2 = i
        · -- sibling of c
          have hki : k ≠ i := by omega
          rw [hpi]
          simp only [upd, hkc, hki, if_false, hic, if_true]
          exact hcmin k hkn (by omega)
        · by_cases hki : k = i
          · -- edge above i
            have h2 := H2 c (by omega) hcn (by omega) (by omega)
            have hpi2 : (i - 1) / 2 ≠ i := by omega
            have hpc : (i - 1) / 2 ≠ c := by omega
            simp only [upd, hci, if_false, hpi2] at h2
            rw [hki]
            simp only [upd, hic, if_false, if_true, hpi2, hpc]
            exact h2
          · have h1 := H1 k hk0 hkn hpi
            simp only [upd, hki, if_false, hpi] at h1
            simp only [upd, hkc, hki, if_false, hpi, hpk]
            exact h1
    · -- H2 for the hole at `c`
      intro k hk0 hkn hpk hc0
      have hkc : k ≠ c := by omega
      have hki : k ≠ i := by omega
      have hpci : (c - 1) / 2 = i := by omega
      have h1 := H1 k hk0 hkn (by omega)
      rw [hpk] at h1
      simp only [upd, hki, hci, if_false] at h1
      rw [hpci]
      simp only [upd, hkc, hki, if_false, hic, if_true]
      exact h1
  | case2 m i child hch c hlt =>
    intro hi H1 H2
    have hcn : c < n ∧ (c = i * 2 + 1 ∨ c = i * 2 + 2) ∧
        (∀ k, k < n → (k = i * 2 + 1 ∨ k = i * 2 + 2) → lt (m k) (m c) = false) := by
      simp only [c, child]
      split
      · rename_i hh
        simp only [Bool.and_eq_true, decide_eq_true_eq] at hh
        refine ⟨hh.1, Or.inr rfl, ?_⟩
        intro k hk hk2
        rcases hk2 with rfl | rfl
        · exact ho.asymm _ _ hh.2
        · exact lt_irrefl ho _
      · rename_i hh
        simp only [Bool.and_eq_true, decide_eq_true_eq, not_and, Bool.not_eq_true] at hh
        refine ⟨hch, Or.inl rfl, ?_⟩
        intro k hk hk2
        rcases hk2 with rfl | rfl
        · exact lt_irrefl ho _
        · exact hh hk
    obtain ⟨hcn, hcc, hcmin⟩ := hcn
    refine ⟨?_, SameSet.refl _ _, fun _ => rfl⟩
    intro k hk0 hkn
    by_cases hpi : (k - 1) / 2 = i
    · have hki : k ≠ i := by omega
      rw [hpi]
      simp only [upd, hki, if_false, if_true]
      have h3 : lt (m c) element = false := by simpa using hlt
      exact ho.le_trans _ _ _ h3 (hcmin k hkn (by omega))
    · exact H1 k hk0 hkn hpi
  | case3 m i child hch =>
    intro hi H1 H2
    refine ⟨?_, SameSet.refl _ _, fun _ => rfl⟩
    intro k hk0 hkn
    exact H1 k hk0 hkn (by omega)

theorem fixUpLoop_le (m : Nat → α) (element : α) (i : Nat) : (fixUpLoop lt m element i).2 ≤ i := by
  fun_induction fixUpLoop lt m element i with
  | case1 m i hi p hlt ih => omega
  | case2 => exact Nat.le_refl _
  | case3 => exact Nat.le_refl _

/-- sift-up with a hole at `i`: every edge except the one above `i` is ordered and the parent of `i` is not above
`i`'s children; then the loop ends with an ordered heap with the same contents. -/
theorem fixUpLoop_spec (ho : WeakOrder lt) (m : Nat → α) (element : α) (i n : Nat) :
    i < n →
    (∀ k, 0 < k → k < n → k ≠ i → lt (upd m i element k) (upd m i element ((k - 1) / 2)) = false) →
    (∀ k, 0 < k → k < n → (k - 1) / 2 = i → 0 < i → lt (upd m i element k) (upd m i element ((i - 1) / 2)) = false) →
    Ordered lt (upd (fixUpLoop lt m element i).1 (fixUpLoop lt m element i).2 element) n ∧
    SameSet (upd m i element) (upd (fixUpLoop lt m element i).1 (fixUpLoop lt m element i).2 element) n ∧
    ((fixUpLoop lt m element i).2 = i → (fixUpLoop lt m element i).1 = m) := by
  fun_induction fixUpLoop lt m element i with
  | case1 m i hi0 p hlt ih =>
    intro hi U1 U2
    have hpi : p ≠ i := by omega
    have hip : i ≠ p := by omega
    have hpn : p < n := by omega
    have key := ih hpn ?_ ?_
    · obtain ⟨k1, k2, k3⟩ := key
      refine ⟨k1, SameSet.trans ?_ k2, ?_⟩
      · have := sameSet_swap (upd m i element) n i p hi hpn
        have e : upd (upd (upd m i element) i (upd m i element p)) p (upd m i element i) = upd (upd m i (m p)) p element := by
          rw [upd_upd]; simp [upd, hpi]
        rw [e] at this; exact this
      · intro hji
        have := fixUpLoop_le (lt := lt) (upd m i (m p)) element p
        omega
    · -- U1 for the hole at `p`
      intro k hk0 hkn hkp
      by_cases hki : k = i
      · have hp : (k - 1) / 2 = p := by omega
        rw [hp, hki]
        simp only [upd, if_true, hip, if_false]
        exact ho.asymm _ _ hlt
      · by_cases hpk : (k - 1) / 2 = p
        · -- sibling of i
          have u := U1 k hk0 hkn hki
          rw [hpk] at u
          simp only [upd, hki, hpi, if_false] at u
          rw [hpk]
          simp only [upd, hkp, hki, if_false, if_true]
          exact ho.le_trans _ _ _ (ho.asymm _ _ hlt) u
        · by_cases hpki : (k - 1) / 2 = i
          · -- child of i
            have u := U2 k hk0 hkn hpki hi0
            have hkp' : k ≠ p := by omega
            have hpe : (i - 1) / 2 = p := rfl
            rw [hpe] at u
            simp only [upd, hki, hpi, if_false] at u
            rw [hpki]
            simp only [upd, hkp', hki, if_false, hip, if_true]
            exact u
          · have u := U1 k hk0 hkn hki
            simp only [upd, hki, hpki, if_false] at u
            simp only [upd, hkp, hki, if_false, hpk, hpki]
            exact u
    · -- U2 for the hole at `p`
      intro k hk0 hkn hpk hp0
      have hpp : (p - 1) / 2 ≠ p := by omega
      have hppi : (p - 1) / 2 ≠ i := by omega
      have hkp : k ≠ p := by omega
      have u0 := U1 p hp0 hpn hpi
      simp only [upd, hpi, hppi, if_false] at u0
      by_cases hki : k = i
      · rw [hki]
        simp only [upd, hip, if_false, if_true, hpp, hppi]
        exact u0
      · have u := U1 k hk0 hkn hki
        rw [hpk] at u
        simp only [upd, hki, hpi, if_false] at u
        simp only [upd, hkp, hki, if_false, hpp, hppi]
        exact ho.le_trans _ _ _ u0 u
  | case2 m i hi0 p hlt =>
    intro hi U1 U2
    refine ⟨?_, SameSet.refl _ _, fun _ => rfl⟩
    intro k hk0 hkn
    by_cases hki : k = i
    · have hpi : p ≠ i := by omega
      have : (k - 1) / 2 = p := by omega
      rw [this, hki]
      simp only [upd, if_true, hpi, if_false]
      simpa using hlt
    · exact U1 k hk0 hkn hki
  | case3 m i hi0 =>
    intro hi U1 U2
    refine ⟨?_, SameSet.refl _ _, fun _ => rfl⟩
    intro k hk0 hkn
    exact U1 k hk0 hkn (by omega)


theorem fixDownLoop_fst_of_eq (m : Nat → α) (element : α) (i n : Nat) :
    (fixDownLoop lt m element i n).2 = i → (fixDownLoop lt m element i n).1 = m := by
  fun_induction fixDownLoop lt m element i n with
  | case1 m i child hch c hlt ih =>
    intro h
    have h1 := fixDownLoop_ge (lt := lt) (upd m i (m c)) element c n
    have h2 : i < c := by simp only [c, child]; split <;> omega
    omega
  | case2 => intro _; rfl
  | case3 => intro _; rfl

theorem fixUpLoop_fst_of_eq (m : Nat → α) (element : α) (i : Nat) :
    (fixUpLoop lt m element i).2 = i → (fixUpLoop lt m element i).1 = m := by
  fun_induction fixUpLoop lt m element i with
  | case1 m i hi p hlt ih =>
    intro h
    have h1 := fixUpLoop_le (lt := lt) (upd m i (m p)) element p
    omega
  | case2 => intro _; rfl
  | case3 => intro _; rfl

/-- the array after `fixDown(i, n)` is the loop's memory with the saved element written into the final hole. -/
theorem fixDown_elements (h : Heap α) (i n : Nat) :
    (fixDown lt h i n).1.elements =
      upd (fixDownLoop lt h.elements (h.elements i) i n).1 (fixDownLoop lt h.elements (h.elements i) i n).2 (h.elements i) ∧
    (fixDown lt h i n).1.size = h.size := by
  unfold fixDown
  simp only
  split
  · rename_i he
    have := fixDownLoop_fst_of_eq (lt := lt) h.elements (h.elements i) i n he.symm
    rw [this, ← he, upd_self]
    exact ⟨rfl, rfl⟩
  · exact ⟨rfl, rfl⟩

theorem fixUp_elements (h : Heap α) (i : Nat) :
    (fixUp lt h i).1.elements =
      upd (fixUpLoop lt h.elements (h.elements i) i).1 (fixUpLoop lt h.elements (h.elements i) i).2 (h.elements i) ∧
    (fixUp lt h i).1.size = h.size := by
  unfold fixUp
  simp only
  split
  · rename_i he
    have := fixUpLoop_fst_of_eq (lt := lt) h.elements (h.elements i) i he.symm
    rw [this, ← he, upd_self]
    exact ⟨rfl, rfl⟩
  · exact ⟨rfl, rfl⟩

theorem fixUp_zero (h : Heap α) : (fixUp lt h 0).1 = h := by
  unfold fixUp fixUpLoop
  simp

/-- `Fix(0)` is `fixDown(0, size)` (a root cannot move up). -/
theorem fix_zero (h : Heap α) : fix lt h 0 = (fixDown lt h 0 h.size).1 := by
  unfold fix
  simp only
  split
  · rfl
  · exact fixUp_zero _

/-- **Fix(0) restores the heap order** after the root's key was changed to anything (`NextAndPush` raises it), and
keeps the contents. -/
theorem fix_root_spec (ho : WeakOrder lt) (h : Heap α) (e' : α) (hord : Ordered lt h.elements h.size) (hs : 0 < h.size) :
    let g := fix lt { h with elements := upd h.elements 0 e' } 0
    Ordered lt g.elements g.size ∧ g.size = h.size ∧ SameSet (upd h.elements 0 e') g.elements h.size := by
  intro g
  have hg : g = (fixDown lt { h with elements := upd h.elements 0 e' } 0 h.size).1 := fix_zero _
  obtain ⟨e1, e2⟩ := fixDown_elements (lt := lt) { h with elements := upd h.elements 0 e' } 0 h.size
  simp only at e1 e2
  have hroot : upd h.elements 0 e' 0 = e' := by simp [upd]
  rw [hroot] at e1
  have spec := fixDownLoop_spec ho (upd h.elements 0 e') e' 0 h.size hs ?_ ?_
  · rw [upd_upd] at spec
    rw [hg, e1, e2]
    exact ⟨spec.1, rfl, spec.2.1⟩
  · intro k hk0 hkn hpk
    rw [upd_upd]
    have hk : k ≠ 0 := by omega
    simp only [upd, hk, hpk, if_false]
    exact hord k hk0 hkn
  · intro k _ _ _ h0; omega

/-- **Push keeps the heap order** and adds exactly the pushed element. -/
theorem push_spec (ho : WeakOrder lt) (h : Heap α) (e : α) (hord : Ordered lt h.elements h.size) :
    let g := push lt h e
    Ordered lt g.elements g.size ∧ g.size = h.size + 1 ∧ SameSet (upd h.elements h.size e) g.elements (h.size + 1) := by
  intro g
  obtain ⟨e1, e2⟩ := fixUp_elements (lt := lt) { elements := upd h.elements h.size e, size := h.size + 1 } h.size
  simp only at e1 e2
  have hlast : upd h.elements h.size e h.size = e := by simp [upd]
  rw [hlast] at e1
  have spec := fixUpLoop_spec ho (upd h.elements h.size e) e h.size (h.size + 1) (by omega) ?_ ?_
  · rw [upd_upd] at spec
    have hg : g = (fixUp lt { elements := upd h.elements h.size e, size := h.size + 1 } h.size).1 := rfl
    rw [hg, e1, e2]
    exact ⟨spec.1, rfl, spec.2.1⟩
  · intro k hk0 hkn hkne
    rw [upd_upd]
    have hk : k ≠ h.size := hkne
    have hp : (k - 1) / 2 ≠ h.size := by omega
    simp only [upd, hk, hp, if_false]
    exact hord k hk0 (by omega)
  · intro k hk0 hkn hpk _; omega

/-! ### instance: the regenerated `edfEntryLess` -/
open MosnVerif.Model.EDF in
theorem less_iff (a b : Entry) :
    less a b = true ↔ (a.deadline < b.deadline ∨ (a.deadline = b.deadline ∧ a.queued < b.queued)) := by
  unfold less MosnVerif.Gen.Edf.edfEntryLess
  split
  · rename_i h; simp at h; simp [h]
  · rename_i h; simp at h; simp [h]

open MosnVerif.Model.EDF in
theorem less_weakOrder : WeakOrder less := by
  constructor
  · intro a b h
    cases hb : less b a
    · rfl
    · rw [less_iff] at h hb; grind
  · intro a b c h1 h2
    cases hc : less c a
    · rfl
    · have n1 : ¬ (less b a = true) := by simp [h1]
      have n2 : ¬ (less c b = true) := by simp [h2]
      rw [less_iff] at hc n1 n2
      grind

end MosnVerif.Model.EdfHeap
