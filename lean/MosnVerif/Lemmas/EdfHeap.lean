import MosnVerif.Model.EdfHeap
import MosnVerif.Lemmas.EDF
/-! The array heap of `edfheap.go` keeps the heap order: `Push`, and `Fix(0)` after any change of the root's key,
restore it; in an ordered heap `Peek` is a minimum of the order. Generic in the order; instantiated with the regenerated
`edfEntryLess`. Core Lean only. -/
namespace MosnVerif.Model.EdfHeap

variable {α : Type} (lt : α → α → Bool)

/-- what the proofs need of the order: asymmetry and transitivity of `a ≤ b :⇔ ¬ b < a`. -/
structure WeakOrder : Prop where
  asymm : ∀ a b, lt a b = true → lt b a = false
  le_trans : ∀ a b c, lt b a = false → lt c b = false → lt c a = false

/-- heap order on the first `n` cells: no cell is less than its parent. -/
def Ordered (m : Nat → α) (n : Nat) : Prop := ∀ k, 0 < k → k < n → lt (m k) (m ((k - 1) / 2)) = false

/-- same contents on the first `n` cells: `v'` is `v` rearranged by a bijection of `[0, n)`; untouched beyond. -/
def SameSet (v v' : Nat → α) (n : Nat) : Prop :=
  ∃ σ τ : Nat → Nat, (∀ k, k < n → σ k < n) ∧ (∀ k, k < n → τ k < n) ∧ (∀ k, k < n → τ (σ k) = k) ∧
    (∀ k, k < n → σ (τ k) = k) ∧ (∀ k, k < n → v' k = v (σ k)) ∧ ∀ k, n ≤ k → v' k = v k

theorem SameSet.refl (v : Nat → α) (n : Nat) : SameSet v v n :=
  ⟨id, id, fun _ h => h, fun _ h => h, fun _ _ => rfl, fun _ _ => rfl, fun _ _ => rfl, fun _ _ => rfl⟩

theorem SameSet.trans {v1 v2 v3 : Nat → α} {n : Nat} (h1 : SameSet v1 v2 n) (h2 : SameSet v2 v3 n) : SameSet v1 v3 n := by
  obtain ⟨s1, t1, a1, b1, c1, d1, e1, f1⟩ := h1
  obtain ⟨s2, t2, a2, b2, c2, d2, e2, f2⟩ := h2
  refine ⟨fun k => s1 (s2 k), fun k => t2 (t1 k), ?_, ?_, ?_, ?_, ?_, ?_⟩
  · intro k hk; exact a1 _ (a2 k hk)
  · intro k hk; exact b2 _ (b1 k hk)
  · intro k hk; simp only; rw [c1 _ (a2 k hk), c2 k hk]
  · intro k hk; simp only; rw [d2 _ (b1 k hk), d1 k hk]
  · intro k hk; rw [e2 k hk, e1 _ (a2 k hk)]
  · intro k hk; rw [f2 k hk, f1 k hk]

/-- every cell of `v` is a cell of `v'` and conversely. -/
theorem SameSet.mem_iff {v v' : Nat → α} {n : Nat} (h : SameSet v v' n) (e : α) :
    (∃ k, k < n ∧ v' k = e) ↔ (∃ k, k < n ∧ v k = e) := by
  obtain ⟨s, t, a, b, c, d, e1, _⟩ := h
  constructor
  · rintro ⟨k, hk, rfl⟩; exact ⟨s k, a k hk, (e1 k hk).symm⟩
  · rintro ⟨k, hk, rfl⟩; exact ⟨t k, b k hk, by rw [e1 _ (b k hk), d k hk]⟩

/-- distinctness of the cells (under any projection) carries over. -/
theorem SameSet.inj {β : Type} {v v' : Nat → α} {n : Nat} (h : SameSet v v' n) (f : α → β)
    (hv : ∀ k k', k < n → k' < n → f (v k) = f (v k') → k = k') :
    ∀ k k', k < n → k' < n → f (v' k) = f (v' k') → k = k' := by
  obtain ⟨s, t, a, b, c, d, e1, _⟩ := h
  intro k k' hk hk' hf
  rw [e1 k hk, e1 k' hk'] at hf
  have := hv _ _ (a k hk) (a k' hk') hf
  rw [← c k hk, ← c k' hk', this]

/-- exchanging two cells below `n` keeps the contents. -/
theorem sameSet_swap (v : Nat → α) (n i c : Nat) (hi : i < n) (hc : c < n) :
    SameSet v (upd (upd v i (v c)) c (v i)) n := by
  refine ⟨fun k => if k = c then i else if k = i then c else k, fun k => if k = c then i else if k = i then c else k,
    ?_, ?_, ?_, ?_, ?_, ?_⟩
  · intro k hk; simp only; split
    · exact hi
    · split
      · exact hc
      · exact hk
  · intro k hk; simp only; split
    · exact hi
    · split
      · exact hc
      · exact hk
  · intro k hk; simp only
    by_cases h1 : k = c
    · subst h1; by_cases h2 : i = k <;> simp [h2]
    · by_cases h2 : k = i
      · subst h2; simp [h1]
      · simp [h1, h2]
  · intro k hk; simp only
    by_cases h1 : k = c
    · subst h1; by_cases h2 : i = k <;> simp [h2]
    · by_cases h2 : k = i
      · subst h2; simp [h1]
      · simp [h1, h2]
  · intro k hk; simp only [upd]
    by_cases h1 : k = c
    · simp [h1]
    · by_cases h2 : k = i
      · subst h2; simp [h1]
      · simp [h1, h2]
  · intro k hk
    have h1 : k ≠ i := by omega
    have h2 : k ≠ c := by omega
    simp [upd, h1, h2]

theorem upd_self (m : Nat → α) (i : Nat) : upd m i (m i) = m := by
  funext k; simp only [upd]; split
  · rename_i h; rw [h]
  · rfl

theorem upd_upd (m : Nat → α) (i : Nat) (a b : α) : upd (upd m i a) i b = upd m i b := by
  funext k; simp only [upd]; split <;> rfl

variable {lt}

theorem lt_irrefl (ho : WeakOrder lt) (a : α) : lt a a = false := by
  cases h : lt a a
  · rfl
  · have := ho.asymm a a h; rw [h] at this; exact absurd this (by simp)

/-- **Peek is a minimum**: in an ordered heap no cell is less than the root. -/
theorem root_min (ho : WeakOrder lt) (m : Nat → α) (n : Nat) (h : Ordered lt m n) :
    ∀ k, k < n → lt (m k) (m 0) = false := by
  intro k
  induction k using Nat.strongRecOn with
  | _ k ih =>
    intro hk
    by_cases h0 : k = 0
    · subst h0; exact lt_irrefl ho _
    · have hp : (k - 1) / 2 < k := by omega
      have := ih _ hp (by omega)
      exact ho.le_trans _ _ _ this (h k (by omega) hk)

theorem fixDownLoop_ge (m : Nat → α) (element : α) (i n : Nat) : i ≤ (fixDownLoop lt m element i n).2 := by
  fun_induction fixDownLoop lt m element i n with
  | case1 m i child hch child' hlt ih =>
    have : i < child' := by simp only [child', child]; split <;> omega
    omega
  | case2 => exact Nat.le_refl _
  | case3 => exact Nat.le_refl _

/-- sift-down with a hole at `i`: `v = m[i := element]` is ordered on every edge that does not start at `i`, and the
parent of `i` is not above `i`'s children; then the loop ends with an ordered heap with the same contents. -/
theorem fixDownLoop_spec (ho : WeakOrder lt) (m : Nat → α) (element : α) (i n : Nat) :
    i < n →
    (∀ k, 0 < k → k < n → (k - 1) / 2 ≠ i → lt (upd m i element k) (upd m i element ((k - 1) / 2)) = false) →
    (∀ k, 0 < k → k < n → (k - 1) / 2 = i → 0 < i → lt (upd m i element k) (upd m i element ((i - 1) / 2)) = false) →
    Ordered lt (upd (fixDownLoop lt m element i n).1 (fixDownLoop lt m element i n).2 element) n ∧
    SameSet (upd m i element) (upd (fixDownLoop lt m element i n).1 (fixDownLoop lt m element i n).2 element) n ∧
    ((fixDownLoop lt m element i n).2 = i → (fixDownLoop lt m element i n).1 = m) := by
  fun_induction fixDownLoop lt m element i n with
  | case1 m i child hch c hlt ih =>
    intro hi H1 H2
    -- the smaller child `c`
    have hcn : c < n ∧ (c = i * 2 + 1 ∨ c = i * 2 + 2) ∧
        (∀ k, k < n → (k = i * 2 + 1 ∨ k = i * 2 + 2) → lt (m k) (m c) = false) := by
      simp only [c, child]
      split
      · rename_i hh
        simp only [Bool.and_eq_true, decide_eq_true_eq] at hh
        refine ⟨hh.1, Or.inr rfl, ?_⟩
        intro k hk hk2
        rcases hk2 with rfl | rfl
        · exact ho.asymm _ _ hh.2
        · exact lt_irrefl ho _
      · rename_i hh
        simp only [Bool.and_eq_true, decide_eq_true_eq, not_and, Bool.not_eq_true] at hh
        refine ⟨hch, Or.inl rfl, ?_⟩
        intro k hk hk2
        rcases hk2 with rfl | rfl
        · exact lt_irrefl ho _
        · exact hh hk
    obtain ⟨hcn, hcc, hcmin⟩ := hcn
    have hci : c ≠ i := by omega
    have hic : i ≠ c := by omega
    have key := ih hcn ?_ ?_
    · obtain ⟨k1, k2, k3⟩ := key
      refine ⟨k1, SameSet.trans ?_ k2, ?_⟩
      · have := sameSet_swap (upd m i element) n i c hi hcn
        have e : upd (upd (upd m i element) i (upd m i element c)) c (upd m i element i) = upd (upd m i (m c)) c element := by
          rw [upd_upd]; simp [upd, hci]
        rw [e] at this; exact this
      · intro hji
        have := fixDownLoop_ge (lt := lt) (upd m i (m c)) element c n
        omega
    · -- H1 for the hole at `c`
      intro k hk0 hkn hpk
      by_cases hkc : k = c
      · -- edge (i, c): element is above m c
        have hp : (k - 1) / 2 = i := by omega
        rw [hp, hkc]
        simp only [upd, if_true, hic, if_false]
        exact ho.asymm _ _ hlt
      · by_cases hpi : (k - 1) / 2 = i
        · -- sibling of c
          have hki : k ≠ i := by omega
          rw [hpi]
          simp only [upd, hkc, hki, if_false, hic, if_true]
          exact hcmin k hkn (by omega)
        · by_cases hki : k = i
          · -- edge above i
            have h2 := H2 c (by omega) hcn (by omega) (by omega)
            have hpi2 : (i - 1) / 2 ≠ i := by omega
            have hpc : (i - 1) / 2 ≠ c := by omega
            simp only [upd, hci, if_false, hpi2] at h2
            rw [hki]
            simp only [upd, hic, if_false, if_true, hpi2, hpc]
            exact h2
          · have h1 := H1 k hk0 hkn hpi
            simp only [upd, hki, if_false, hpi] at h1
            simp only [upd, hkc, hki, if_false, hpi, hpk]
            exact h1
    · -- H2 for the hole at `c`
      intro k hk0 hkn hpk hc0
      have hkc : k ≠ c := by omega
      have hki : k ≠ i := by omega
      have hpci : (c - 1) / 2 = i := by omega
      have h1 := H1 k hk0 hkn (by omega)
      rw [hpk] at h1
      simp only [upd, hki, hci, if_false] at h1
      rw [hpci]
      simp only [upd, hkc, hki, if_false, hic, if_true]
      exact h1
  | case2 m i child hch c hlt =>
    intro hi H1 H2
    have hcn : c < n ∧ (c = i * 2 + 1 ∨ c = i * 2 + 2) ∧
        (∀ k, k < n → (k = i * 2 + 1 ∨ k = i * 2 + 2) → lt (m k) (m c) = false) := by
      simp only [c, child]
      split
      · rename_i hh
        simp only [Bool.and_eq_true, decide_eq_true_eq] at hh
        refine ⟨hh.1, Or.inr rfl, ?_⟩
        intro k hk hk2
        rcases hk2 with rfl | rfl
        · exact ho.asymm _ _ hh.2
        · exact lt_irrefl ho _
      · rename_i hh
        simp only [Bool.and_eq_true, decide_eq_true_eq, not_and, Bool.not_eq_true] at hh
        refine ⟨hch, Or.inl rfl, ?_⟩
        intro k hk hk2
        rcases hk2 with rfl | rfl
        · exact lt_irrefl ho _
        · exact hh hk
    obtain ⟨hcn, hcc, hcmin⟩ := hcn
    refine ⟨?_, SameSet.refl _ _, fun _ => rfl⟩
    intro k hk0 hkn
    by_cases hpi : (k - 1) / 2 = i
    · have hki : k ≠ i := by omega
      rw [hpi]
      simp only [upd, hki, if_false, if_true]
      have h3 : lt (m c) element = false := by simpa using hlt
      exact ho.le_trans _ _ _ h3 (hcmin k hkn (by omega))
    · exact H1 k hk0 hkn hpi
  | case3 m i child hch =>
    intro hi H1 H2
    refine ⟨?_, SameSet.refl _ _, fun _ => rfl⟩
    intro k hk0 hkn
    exact H1 k hk0 hkn (by omega)

theorem fixUpLoop_le (m : Nat → α) (element : α) (i : Nat) : (fixUpLoop lt m element i).2 ≤ i := by
  fun_induction fixUpLoop lt m element i with
  | case1 m i hi p hlt ih => omega
  | case2 => exact Nat.le_refl _
  | case3 => exact Nat.le_refl _

/-- sift-up with a hole at `i`: every edge except the one above `i` is ordered and the parent of `i` is not above
`i`'s children; then the loop ends with an ordered heap with the same contents. -/
theorem fixUpLoop_spec (ho : WeakOrder lt) (m : Nat → α) (element : α) (i n : Nat) :
    i < n →
    (∀ k, 0 < k → k < n → k ≠ i → lt (upd m i element k) (upd m i element ((k - 1) / 2)) = false) →
    (∀ k, 0 < k → k < n → (k - 1) / 2 = i → 0 < i → lt (upd m i element k) (upd m i element ((i - 1) / 2)) = false) →
    Ordered lt (upd (fixUpLoop lt m element i).1 (fixUpLoop lt m element i).2 element) n ∧
    SameSet (upd m i element) (upd (fixUpLoop lt m element i).1 (fixUpLoop lt m element i).2 element) n ∧
    ((fixUpLoop lt m element i).2 = i → (fixUpLoop lt m element i).1 = m) := by
  fun_induction fixUpLoop lt m element i with
  | case1 m i hi0 p hlt ih =>
    intro hi U1 U2
    have hpi : p ≠ i := by omega
    have hip : i ≠ p := by omega
    have hpn : p < n := by omega
    have key := ih hpn ?_ ?_
    · obtain ⟨k1, k2, k3⟩ := key
      refine ⟨k1, SameSet.trans ?_ k2, ?_⟩
      · have := sameSet_swap (upd m i element) n i p hi hpn
        have e : upd (upd (upd m i element) i (upd m i element p)) p (upd m i element i) = upd (upd m i (m p)) p element := by
          rw [upd_upd]; simp [upd, hpi]
        rw [e] at this; exact this
      · intro hji
        have := fixUpLoop_le (lt := lt) (upd m i (m p)) element p
        omega
    · -- U1 for the hole at `p`
      intro k hk0 hkn hkp
      by_cases hki : k = i
      · have hp : (k - 1) / 2 = p := by omega
        rw [hp, hki]
        simp only [upd, if_true, hip, if_false]
        exact ho.asymm _ _ hlt
      · by_cases hpk : (k - 1) / 2 = p
        · -- sibling of i
          have u := U1 k hk0 hkn hki
          rw [hpk] at u
          simp only [upd, hki, hpi, if_false] at u
          rw [hpk]
          simp only [upd, hkp, hki, if_false, if_true]
          exact ho.le_trans _ _ _ (ho.asymm _ _ hlt) u
        · by_cases hpki : (k - 1) / 2 = i
          · -- child of i
            have u := U2 k hk0 hkn hpki hi0
            have hkp' : k ≠ p := by omega
            have hpe : (i - 1) / 2 = p := rfl
            rw [hpe] at u
            simp only [upd, hki, hpi, if_false] at u
            rw [hpki]
            simp only [upd, hkp', hki, if_false, hip, if_true]
            exact u
          · have u := U1 k hk0 hkn hki
            simp only [upd, hki, hpki, if_false] at u
            simp only [upd, hkp, hki, if_false, hpk, hpki]
            exact u
    · -- U2 for the hole at `p`
      intro k hk0 hkn hpk hp0
      have hpp : (p - 1) / 2 ≠ p := by omega
      have hppi : (p - 1) / 2 ≠ i := by omega
      have hkp : k ≠ p := by omega
      have u0 := U1 p hp0 hpn hpi
      simp only [upd, hpi, hppi, if_false] at u0
      by_cases hki : k = i
      · rw [hki]
        simp only [upd, hip, if_false, if_true, hpp, hppi]
        exact u0
      · have u := U1 k hk0 hkn hki
        rw [hpk] at u
        simp only [upd, hki, hpi, if_false] at u
        simp only [upd, hkp, hki, if_false, hpp, hppi]
        exact ho.le_trans _ _ _ u0 u
  | case2 m i hi0 p hlt =>
    intro hi U1 U2
    refine ⟨?_, SameSet.refl _ _, fun _ => rfl⟩
    intro k hk0 hkn
    by_cases hki : k = i
    · have hpi : p ≠ i := by omega
      have : (k - 1) / 2 = p := by omega
      rw [this, hki]
      simp only [upd, if_true, hpi, if_false]
      simpa using hlt
    · exact U1 k hk0 hkn hki
  | case3 m i hi0 =>
    intro hi U1 U2
    refine ⟨?_, SameSet.refl _ _, fun _ => rfl⟩
    intro k hk0 hkn
    exact U1 k hk0 hkn (by omega)


theorem fixDownLoop_fst_of_eq (m : Nat → α) (element : α) (i n : Nat) :
    (fixDownLoop lt m element i n).2 = i → (fixDownLoop lt m element i n).1 = m := by
  fun_induction fixDownLoop lt m element i n with
  | case1 m i child hch c hlt ih =>
    intro h
    have h1 := fixDownLoop_ge (lt := lt) (upd m i (m c)) element c n
    have h2 : i < c := by simp only [c, child]; split <;> omega
    omega
  | case2 => intro _; rfl
  | case3 => intro _; rfl

theorem fixUpLoop_fst_of_eq (m : Nat → α) (element : α) (i : Nat) :
    (fixUpLoop lt m element i).2 = i → (fixUpLoop lt m element i).1 = m := by
  fun_induction fixUpLoop lt m element i with
  | case1 m i hi p hlt ih =>
    intro h
    have h1 := fixUpLoop_le (lt := lt) (upd m i (m p)) element p
    omega
  | case2 => intro _; rfl
  | case3 => intro _; rfl

/-- the array after `fixDown(i, n)` is the loop's memory with the saved element written into the final hole. -/
theorem fixDown_elements (h : Heap α) (i n : Nat) :
    (fixDown lt h i n).1.elements =
      upd (fixDownLoop lt h.elements (h.elements i) i n).1 (fixDownLoop lt h.elements (h.elements i) i n).2 (h.elements i) ∧
    (fixDown lt h i n).1.size = h.size := by
  unfold fixDown
  simp only
  split
  · rename_i he
    have := fixDownLoop_fst_of_eq (lt := lt) h.elements (h.elements i) i n he.symm
    rw [this, ← he, upd_self]
    exact ⟨rfl, rfl⟩
  · exact ⟨rfl, rfl⟩

theorem fixUp_elements (h : Heap α) (i : Nat) :
    (fixUp lt h i).1.elements =
      upd (fixUpLoop lt h.elements (h.elements i) i).1 (fixUpLoop lt h.elements (h.elements i) i).2 (h.elements i) ∧
    (fixUp lt h i).1.size = h.size := by
  unfold fixUp
  simp only
  split
  · rename_i he
    have := fixUpLoop_fst_of_eq (lt := lt) h.elements (h.elements i) i he.symm
    rw [this, ← he, upd_self]
    exact ⟨rfl, rfl⟩
  · exact ⟨rfl, rfl⟩

theorem fixUp_zero (h : Heap α) : (fixUp lt h 0).1 = h := by
  unfold fixUp fixUpLoop
  simp

/-- `Fix(0)` is `fixDown(0, size)` (a root cannot move up). -/
theorem fix_zero (h : Heap α) : fix lt h 0 = (fixDown lt h 0 h.size).1 := by
  unfold fix
  simp only
  split
  · rfl
  · exact fixUp_zero _

/-- **Fix(0) restores the heap order** after the root's key was changed to anything (`NextAndPush` raises it), and
keeps the contents. -/
theorem fix_root_spec (ho : WeakOrder lt) (h : Heap α) (e' : α) (hord : Ordered lt h.elements h.size) (hs : 0 < h.size) :
    let g := fix lt { h with elements := upd h.elements 0 e' } 0
    Ordered lt g.elements g.size ∧ g.size = h.size ∧ SameSet (upd h.elements 0 e') g.elements h.size := by
  intro g
  have hg : g = (fixDown lt { h with elements := upd h.elements 0 e' } 0 h.size).1 := fix_zero _
  obtain ⟨e1, e2⟩ := fixDown_elements (lt := lt) { h with elements := upd h.elements 0 e' } 0 h.size
  simp only at e1 e2
  have hroot : upd h.elements 0 e' 0 = e' := by simp [upd]
  rw [hroot] at e1
  have spec := fixDownLoop_spec ho (upd h.elements 0 e') e' 0 h.size hs ?_ ?_
  · rw [upd_upd] at spec
    rw [hg, e1, e2]
    exact ⟨spec.1, rfl, spec.2.1⟩
  · intro k hk0 hkn hpk
    rw [upd_upd]
    have hk : k ≠ 0 := by omega
    simp only [upd, hk, hpk, if_false]
    exact hord k hk0 hkn
  · intro k _ _ _ h0; omega

/-- **Push keeps the heap order** and adds exactly the pushed element. -/
theorem push_spec (ho : WeakOrder lt) (h : Heap α) (e : α) (hord : Ordered lt h.elements h.size) :
    let g := push lt h e
    Ordered lt g.elements g.size ∧ g.size = h.size + 1 ∧ SameSet (upd h.elements h.size e) g.elements (h.size + 1) := by
  intro g
  obtain ⟨e1, e2⟩ := fixUp_elements (lt := lt) { elements := upd h.elements h.size e, size := h.size + 1 } h.size
  simp only at e1 e2
  have hlast : upd h.elements h.size e h.size = e := by simp [upd]
  rw [hlast] at e1
  have spec := fixUpLoop_spec ho (upd h.elements h.size e) e h.size (h.size + 1) (by omega) ?_ ?_
  · rw [upd_upd] at spec
    have hg : g = (fixUp lt { elements := upd h.elements h.size e, size := h.size + 1 } h.size).1 := rfl
    rw [hg, e1, e2]
    exact ⟨spec.1, rfl, spec.2.1⟩
  · intro k hk0 hkn hkne
    rw [upd_upd]
    have hk : k ≠ h.size := hkne
    have hp : (k - 1) / 2 ≠ h.size := by omega
    simp only [upd, hk, hp, if_false]
    exact hord k hk0 (by omega)
  · intro k hk0 hkn hpk _; omega

/-! ### instance: the regenerated `edfEntryLess` -/
open MosnVerif.Model.EDF in
theorem less_iff (a b : Entry) :
    less a b = true ↔ (a.deadline < b.deadline ∨ (a.deadline = b.deadline ∧ a.queued < b.queued)) := by
  unfold less MosnVerif.Gen.Edf.edfEntryLess
  split
  · rename_i h; simp at h; simp [h]
  · rename_i h; simp at h; simp [h]

open MosnVerif.Model.EDF in
theorem less_weakOrder : WeakOrder less := by
  constructor
  · intro a b h
    cases hb : less b a
    · rfl
    · rw [less_iff] at h hb; grind
  · intro a b c h1 h2
    cases hc : less c a
    · rfl
    · have n1 : ¬ (less b a = true) := by simp [h1]
      have n2 : ¬ (less c b = true) := by simp [h2]
      rw [less_iff] at hc n1 n2
      grind


/-! ### the heap scheduler refines the list scheduler -/
section Refinement
open MosnVerif.Model.EDF MosnVerif.Gen

/-- the fold minimum is least for the order (first among equals). -/
theorem foldl_least (r : List Entry) (best : Entry) :
    let m := r.foldl (fun best x => if less x best then x else best) best
    less best m = false ∧ ∀ f ∈ r, less f m = false := by
  induction r generalizing best with
  | nil => exact ⟨lt_irrefl less_weakOrder _, by simp⟩
  | cons x r ih =>
    simp only [List.foldl_cons]
    cases hl : less x best
    · simp only [Bool.false_eq_true, if_false]
      obtain ⟨h1, h2⟩ := ih best
      refine ⟨h1, ?_⟩
      intro f hf
      simp only [List.mem_cons] at hf
      rcases hf with rfl | hf
      · -- m ≤ best ≤ x
        exact less_weakOrder.le_trans _ _ _ h1 hl
      · exact h2 f hf
    · simp only [if_true]
      obtain ⟨h1, h2⟩ := ih x
      refine ⟨?_, ?_⟩
      · -- m ≤ x ≤ best
        exact less_weakOrder.le_trans _ _ _ h1 (less_weakOrder.asymm _ _ hl)
      · intro f hf
        simp only [List.mem_cons] at hf
        rcases hf with rfl | hf
        · exact h1
        · exact h2 f hf

theorem minEntry_least {l : List Entry} {m : Entry} (h : minEntry l = some m) : ∀ f ∈ l, less f m = false := by
  cases l with
  | nil => simp [minEntry] at h
  | cons x r =>
    simp only [minEntry, Option.some.injEq] at h
    obtain ⟨h1, h2⟩ := foldl_least r x
    rw [h] at h1 h2
    intro f hf
    simp only [List.mem_cons] at hf
    rcases hf with rfl | hf
    · exact h1
    · exact h2 f hf

/-- queued times are bounded by the clock and distinct (every push takes a fresh tick). -/
def QInv (s : Sched) : Prop :=
  (∀ e ∈ s.entries, e.queued ≤ s.clock) ∧ ∀ e ∈ s.entries, ∀ f ∈ s.entries, e.queued = f.queued → e = f

/-- abstraction relation: same time and clock, the array is heap-ordered, its cells are exactly the queued entries,
and cells hold distinct items. -/
structure Rel (hs : HSched) (s : Sched) : Prop where
  now : hs.now = s.now
  clock : hs.clock = s.clock
  ord : Ordered less hs.items.elements hs.items.size
  mem : ∀ e, e ∈ s.entries ↔ ∃ k, k < hs.items.size ∧ hs.items.elements k = e
  inj : ∀ k k', k < hs.items.size → k' < hs.items.size →
    (hs.items.elements k).item = (hs.items.elements k').item → k = k'

theorem rel_empty : Rel HSched.empty {} :=
  ⟨rfl, rfl, fun k _ hk => by simp [HSched.empty] at hk, fun e => by simp [HSched.empty],
   fun k k' hk => by simp [HSched.empty] at hk⟩

theorem qinv_empty : QInv {} := ⟨by simp, by simp⟩

theorem qinv_add {s : Sched} (h : QInv s) (item : Nat) (w : Rat) : QInv (s.add item w) := by
  unfold Sched.add
  constructor
  · intro e he
    simp only [List.mem_append, List.mem_singleton] at he
    rcases he with he | rfl
    · have := h.1 e he; simp only; omega
    · simp only; omega
  · intro e he f hf hq
    simp only [List.mem_append, List.mem_singleton] at he hf
    rcases he with he | rfl <;> rcases hf with hf | rfl
    · exact h.2 e he f hf hq
    · have := h.1 e he; simp only at hq; omega
    · have := h.1 f hf; simp only at hq; omega
    · rfl

theorem qinv_next {s s' : Sched} {wf : Nat → Rat} {hint : Option Nat} {i : Nat} (h : QInv s)
    (hn : s.nextAndPush wf hint = some (i, s')) : QInv s' := by
  unfold Sched.nextAndPush at hn
  split at hn
  · simp at hn
  · rename_i pe hp
    simp only [Option.some.injEq, Prod.mk.injEq] at hn
    obtain ⟨_, rfl⟩ := hn
    obtain ⟨hm, _⟩ := pick_mem_min hp
    constructor
    · intro e' he'
      simp only [List.mem_map] at he'
      obtain ⟨f, hf, rfl⟩ := he'
      split
      · simp only [repush]; omega
      · have := h.1 f hf; simp only; omega
    · intro a ha b hb hq
      simp only [List.mem_map] at ha hb
      obtain ⟨fa, hfa, rfl⟩ := ha
      obtain ⟨fb, hfb, rfl⟩ := hb
      by_cases ca : fa.item = pe.item <;> by_cases cb : fb.item = pe.item
      · simp [ca, cb]
      · simp only [ca, cb, if_true, if_false, repush] at hq ⊢
        have := h.1 fb hfb; omega
      · simp only [ca, cb, if_true, if_false, repush] at hq ⊢
        have := h.1 fa hfa; omega
      · simp only [ca, cb, if_false] at hq ⊢
        exact h.2 fa hfa fb hfb hq

/-- two least entries with distinct queued times coincide. -/
theorem least_unique {s : Sched} (hQ : QInv s) {a b : Entry} (ha : a ∈ s.entries) (hb : b ∈ s.entries)
    (h1 : less a b = false) (h2 : less b a = false) : a = b := by
  apply hQ.2 a ha b hb
  have n1 : ¬ (less a b = true) := by simp [h1]
  have n2 : ¬ (less b a = true) := by simp [h2]
  rw [less_iff] at n1 n2
  have hd : a.deadline = b.deadline := by grind
  have : ¬ a.queued < b.queued := fun h => n1 (Or.inr ⟨hd, h⟩)
  have : ¬ b.queued < a.queued := fun h => n2 (Or.inr ⟨hd.symm, h⟩)
  omega

/-- **one `NextAndPush` of the heap scheduler is one `NextAndPush` of the list scheduler** (same served item, related
successor states): the array heap implements "serve the minimum of `edfEntryLess`". -/
theorem hsched_next_refines {hs : HSched} {s : Sched} (R : Rel hs s) (hQ : QInv s) (wf : Nat → Rat)
    {i : Nat} {hs' : HSched} (h : hs.nextAndPush wf = some (i, hs')) :
    ∃ s', s.nextAndPush wf none = some (i, s') ∧ Rel hs' s' := by
  unfold HSched.nextAndPush at h
  split at h
  · simp at h
  · rename_i hsz
    simp only [Option.some.injEq, Prod.mk.injEq] at h
    obtain ⟨rfl, rfl⟩ := h
    have hpos : 0 < hs.items.size := by omega
    -- the root is a queued entry and least
    have hroot : peek hs.items ∈ s.entries := (R.mem _).mpr ⟨0, hpos, rfl⟩
    have hleast : ∀ f ∈ s.entries, less f (peek hs.items) = false := by
      intro f hf
      obtain ⟨k, hk, rfl⟩ := (R.mem f).mp hf
      exact root_min less_weakOrder _ _ R.ord k hk
    -- so it is the list scheduler's pick
    have hne : s.entries ≠ [] := by intro h0; rw [h0] at hroot; simp at hroot
    obtain ⟨m, hm⟩ : ∃ m, minEntry s.entries = some m := by
      have := minEntry_isSome hne
      cases hmm : minEntry s.entries with
      | none => rw [hmm] at this; simp at this
      | some m => exact ⟨m, rfl⟩
    have hmmem := (minEntry_mem_min hm).1
    have hmeq : m = peek hs.items :=
      least_unique hQ hmmem hroot (hleast m hmmem) (minEntry_least hm _ hroot)
    subst hmeq
    refine ⟨_, by unfold Sched.nextAndPush; rw [pick_none, hm], ?_⟩
    -- the successor states are related
    obtain ⟨g1, g2, g3⟩ := fix_root_spec less_weakOrder hs.items
      (repush (peek hs.items) (wf (peek hs.items).item) (hs.clock + 1)) R.ord hpos
    have hitem : (repush (peek hs.items) (wf (peek hs.items).item) (hs.clock + 1)).item = (peek hs.items).item := rfl
    refine ⟨by simp, by simp [R.clock], g1, ?_, ?_⟩
    · intro e
      simp only
      rw [g2, g3.mem_iff e]
      constructor
      · intro he
        simp only [List.mem_map] at he
        obtain ⟨f, hf, rfl⟩ := he
        split
        · exact ⟨0, hpos, by simp [upd, R.clock]⟩
        · rename_i hne'
          obtain ⟨k, hk, rfl⟩ := (R.mem f).mp hf
          have hk0 : k ≠ 0 := by
            intro h0; subst h0; exact hne' rfl
          exact ⟨k, hk, by simp [upd, hk0]⟩
      · rintro ⟨k, hk, rfl⟩
        simp only [List.mem_map]
        by_cases hk0 : k = 0
        · subst hk0
          exact ⟨peek hs.items, hroot, by simp [upd, R.clock]⟩
        · refine ⟨hs.items.elements k, (R.mem _).mpr ⟨k, hk, rfl⟩, ?_⟩
          have : (hs.items.elements k).item ≠ (peek hs.items).item := by
            intro he; exact hk0 (R.inj k 0 hk hpos he)
          simp [upd, hk0, this]
    · simp only
      rw [g2]
      apply g3.inj (fun e => e.item)
      intro k k' hk hk' he
      apply R.inj k k' hk hk'
      have e1 : ∀ j, (upd hs.items.elements 0 (repush (peek hs.items) (wf (peek hs.items).item) (hs.clock + 1)) j).item
          = (hs.items.elements j).item := by
        intro j; simp only [upd]; split
        · rename_i hj; rw [hj]; rfl
        · rfl
      have he' := he
      rw [e1 k, e1 k'] at he'
      exact he'

/-- `Add` of the heap scheduler is `Add` of the list scheduler. -/
theorem hsched_add_refines {hs : HSched} {s : Sched} (R : Rel hs s) (item : Nat) (w : Rat)
    (hn : item ∉ s.entries.map (·.item)) : Rel (hs.add item w) (s.add item w) := by
  obtain ⟨g1, g2, g3⟩ := push_spec less_weakOrder hs.items
    { item := item, deadline := Edf.addDeadline hs.now w, weight := w, queued := hs.clock + 1 } R.ord
  refine ⟨R.now, by simp [HSched.add, Sched.add, R.clock], g1, ?_, ?_⟩
  · intro e
    simp only [HSched.add, Sched.add]
    rw [g2, g3.mem_iff e]
    simp only [List.mem_append, List.mem_singleton]
    constructor
    · rintro (he | rfl)
      · obtain ⟨k, hk, rfl⟩ := (R.mem e).mp he
        have : k ≠ hs.items.size := by omega
        exact ⟨k, by omega, by simp [upd, this]⟩
      · exact ⟨hs.items.size, by omega, by simp [upd, R.now, R.clock]⟩
    · rintro ⟨k, hk, rfl⟩
      by_cases hks : k = hs.items.size
      · right; simp [upd, hks, R.now, R.clock]
      · left; simp only [upd, hks, if_false]; exact (R.mem _).mpr ⟨k, by omega, rfl⟩
  · simp only [HSched.add]
    rw [g2]
    apply g3.inj (fun e => e.item)
    intro k k' hk hk' he
    simp only [upd] at he
    by_cases c1 : k = hs.items.size <;> by_cases c2 : k' = hs.items.size
    · omega
    · simp only [c1, c2, if_true, if_false] at he
      exfalso; apply hn
      exact List.mem_map.mpr ⟨_, (R.mem _).mpr ⟨k', by omega, rfl⟩, he.symm⟩
    · simp only [c1, c2, if_true, if_false] at he
      exfalso; apply hn
      exact List.mem_map.mpr ⟨_, (R.mem _).mpr ⟨k, by omega, rfl⟩, he⟩
    · simp only [c1, c2, if_false] at he
      exact R.inj k k' (by omega) (by omega) he

theorem hinit_succ (wf : Nat → Rat) (n : Nat) : HSched.initWith wf (n + 1) = (HSched.initWith wf n).add n (wf n) := by
  unfold HSched.initWith
  rw [List.range_succ, List.foldl_append]
  rfl

theorem init_rel (wf : Nat → Rat) (hwf : ∀ k, 0 < wf k) (n : Nat) :
    Rel (HSched.initWith wf n) (EDF.initWith wf n) ∧ QInv (EDF.initWith wf n) := by
  induction n with
  | zero => exact ⟨rel_empty, qinv_empty⟩
  | succ n ih =>
    rw [hinit_succ, initWith_succ]
    refine ⟨hsched_add_refines ih.1 n (wf n) ?_, qinv_add ih.2 n (wf n)⟩
    rw [(initWith_facts wf hwf n).2.2]; simp

theorem run_refines (wf : Nat → Rat) (hwf : ∀ k, 0 < wf k) (k : Nat) (hs : HSched) (s : Sched)
    (R : Rel hs s) (hI : Inv s) (hQ : QInv s) :
    (hs.run wf k).1 = (s.run wf (List.replicate k none)).1 := by
  induction k generalizing hs s with
  | zero => rfl
  | succ k ih =>
    unfold HSched.run
    simp only [List.replicate_succ, Sched.run]
    cases hn : hs.nextAndPush wf with
    | none =>
      -- empty heap, empty list
      have hsz : hs.items.size = 0 := by
        unfold HSched.nextAndPush at hn
        split at hn
        · assumption
        · simp at hn
      have hnil : s.entries = [] := by
        cases he : s.entries with
        | nil => rfl
        | cons x r =>
          obtain ⟨k, hk, _⟩ := (R.mem x).mp (by rw [he]; exact List.mem_cons_self)
          omega
      have : s.nextAndPush wf none = none := by
        unfold Sched.nextAndPush; rw [pick_none, hnil]; rfl
      simp [this]
    | some p =>
      obtain ⟨i, hs'⟩ := p
      obtain ⟨s', h1, R'⟩ := hsched_next_refines R hQ wf hn
      simp only [h1]
      rw [ih hs' s' R' (inv_next hI hwf h1) (qinv_next hQ h1)]

end Refinement

end MosnVerif.Model.EdfHeap
