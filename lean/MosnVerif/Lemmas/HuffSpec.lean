import MosnVerif.Lemmas.HuffCode
/-!
The declarative Huffman decoder on the regenerated table: fuel independence, round trip with the encoder, exact encoded
length, soundness (what is accepted is an encoding), the rejected paddings.
-/
namespace MosnVerif.Lemmas.HuffSpec
open MosnVerif.Gen.Hpack MosnVerif.Model.Huffman MosnVerif.Model.HuffTree MosnVerif.Lemmas.HuffBits MosnVerif.Lemmas.HuffCode

/-- the declarative decoder with enough fuel -/
def specRun (maxLen : Nat) (bits : List Bool) (acc : Bytes) : Except HErr Bytes :=
  decodeBitsMax maxLen (bits.length + 1) bits acc

theorem fuel_irrel (maxLen : Nat) (f1 f2 : Nat) (bits : List Bool) (acc : Bytes) (h1 : bits.length < f1) (h2 : bits.length < f2) :
    decodeBitsMax maxLen f1 bits acc = decodeBitsMax maxLen f2 bits acc := by
  induction f1 generalizing f2 bits acc with
  | zero => omega
  | succ f1 ih =>
    cases f2 with
    | zero => omega
    | succ f2 =>
      rw [decodeBitsMax, decodeBitsMax]
      cases hm : matchSym bits with
      | none => rfl
      | some p =>
        obtain ⟨sym, rest⟩ := p
        simp only [decodeStepMax]
        split
        · rfl
        · obtain ⟨hs, hb⟩ := matchSym_some bits sym rest hm
          have hl : bits.length = lenOf sym + rest.length := by rw [hb, List.length_append, length_codeBits]
          have := (wf_sym sym hs).1
          exact ih f2 rest _ (by omega) (by omega)

theorem specRun_match (maxLen : Nat) (bits : List Bool) (acc : Bytes) (sym : Nat) (rest : List Bool)
    (hm : matchSym bits = some (sym, rest)) :
    specRun maxLen bits acc =
      if maxLen ≠ 0 ∧ acc.length = maxLen then .error .strLen else specRun maxLen rest (UInt8.ofNat sym :: acc) := by
  unfold specRun
  rw [decodeBitsMax, hm]
  simp only [decodeStepMax]
  split
  · rfl
  · obtain ⟨hs, hb⟩ := matchSym_some bits sym rest hm
    have hl : bits.length = lenOf sym + rest.length := by rw [hb, List.length_append, length_codeBits]
    have := (wf_sym sym hs).1
    exact fuel_irrel maxLen _ _ rest _ (by omega) (by omega)

theorem specRun_none (maxLen : Nat) (bits : List Bool) (acc : Bytes) (hm : matchSym bits = none) :
    specRun maxLen bits acc = if bits.length < 8 ∧ bits.all id then .ok acc.reverse else .error .invalid := by
  unfold specRun
  rw [decodeBitsMax, hm]
  rfl

theorem length_bytesToBits (v : Bytes) : (bytesToBits v).length = 8 * v.length := by
  induction v with
  | nil => rfl
  | cons b r ih => simp only [bytesToBits, List.flatMap_cons, List.length_append, length_bitsOf, List.length_cons] at ih ⊢; omega

theorem decodeSpecMax_eq (maxLen : Nat) (v : Bytes) : decodeSpecMax maxLen v = specRun maxLen (bytesToBits v) [] := by
  unfold decodeSpecMax specRun
  rw [length_bytesToBits]

/-- without a length limit the `Except` decoder is the `Option` decoder of `Model.Huffman` -/
def ofOpt : Option Bytes → Except HErr Bytes
  | some s => .ok s
  | none => .error .invalid

theorem decodeBitsMax_zero (f : Nat) (bits : List Bool) (acc : Bytes) :
    decodeBitsMax 0 f bits acc = ofOpt (decodeBits f bits acc) := by
  induction f generalizing bits acc with
  | zero => rfl
  | succ f ih =>
    rw [decodeBitsMax, decodeBits]
    cases hm : matchSym bits with
    | none => simp only [decodeStepMax, decodeStep]; split <;> rfl
    | some p =>
      obtain ⟨sym, rest⟩ := p
      simp only [decodeStepMax, decodeStep, ne_eq, not_true_eq_false, false_and, if_false]
      exact ih rest _

theorem decodeSpecMax_zero (v : Bytes) : decodeSpecMax 0 v = ofOpt (decodeSpec v) := decodeBitsMax_zero _ _ _

/-! ### round trip -/

theorem encodeBits_cons (c : UInt8) (s : Bytes) : encodeBits (c :: s) = codeBits c.toNat ++ encodeBits s := by
  simp [encodeBits, codeBits]

theorem ofNat_toNat (c : UInt8) : UInt8.ofNat c.toNat = c := by simp

theorem specRun_encode (maxLen : Nat) (s : Bytes) (k : Nat) (hk : k < 8) (acc : Bytes)
    (hm : maxLen = 0 ∨ acc.length + s.length ≤ maxLen) :
    specRun maxLen (encodeBits s ++ List.replicate k true) acc = .ok (acc.reverse ++ s) := by
  induction s generalizing acc with
  | nil =>
    simp only [encodeBits, List.flatMap_nil, List.nil_append, List.append_nil]
    rw [specRun_none _ _ _ (matchSym_ones k)]
    simp [hk]
  | cons c s ih =>
    rw [encodeBits_cons, List.append_assoc,
      specRun_match _ _ _ _ _ (matchSym_code c.toNat (UInt8.toNat_lt c) _)]
    rw [if_neg, ofNat_toNat, ih]
    · simp
    · rcases hm with h | h
      · exact Or.inl h
      · right; simp only [List.length_cons] at h ⊢; omega
    · rintro ⟨h0, h1⟩
      rcases hm with h | h
      · exact h0 h
      · simp only [List.length_cons] at h; omega

/-- one symbol more than `maxLen`: ErrStringLength -/
theorem specRun_encode_too_long (maxLen : Nat) (s : Bytes) (rest : List Bool) (acc : Bytes) (h0 : maxLen ≠ 0)
    (hle : acc.length ≤ maxLen) (hlen : maxLen < acc.length + s.length) :
    specRun maxLen (encodeBits s ++ rest) acc = .error .strLen := by
  induction s generalizing acc with
  | nil => simp at hlen; omega
  | cons c s ih =>
    rw [encodeBits_cons, List.append_assoc, specRun_match _ _ _ _ _ (matchSym_code c.toNat (UInt8.toNat_lt c) _)]
    by_cases hq : acc.length = maxLen
    · rw [if_pos ⟨h0, hq⟩]
    · rw [if_neg (fun h => hq h.2)]
      apply ih
      · simp only [List.length_cons]; omega
      · simp only [List.length_cons] at hlen ⊢; omega

/-! ### bytes and bits -/

theorem bytesToBits_cons (b : UInt8) (v : Bytes) : bytesToBits (b :: v) = bitsOf b.toNat 8 ++ bytesToBits v := by
  simp [bytesToBits]

theorem packByte_bits (l : List Bool) (h : l.length = 8) : bitsOf (packByte l).toNat 8 = l := by
  have hv : val l < 256 := by have := val_lt l; rw [h] at this; exact this
  have : (packByte l).toNat = val l := by
    unfold packByte
    show (UInt8.ofNat (val l)).toNat = val l
    simp [UInt8.toNat_ofNat', Nat.mod_eq_of_lt hv]
  rw [this, ← h, bitsOf_val]

theorem bytesToBits_packBits (bits : List Bool) :
    bytesToBits (packBits bits) = bits ++ List.replicate ((8 - bits.length % 8) % 8) true := by
  fun_induction packBits bits with
  | case1 => rfl
  | case2 b0 r chunk rest ih =>
    rw [bytesToBits_cons, ih]
    have hc : chunk = (b0 :: r).take 8 := rfl
    have hr : rest = (b0 :: r).drop 8 := rfl
    have hlen : (chunk ++ List.replicate (8 - chunk.length) true).length = 8 := by
      rw [List.length_append, List.length_replicate, hc, List.length_take]; omega
    rw [packByte_bits _ hlen]
    by_cases h8 : 8 ≤ (b0 :: r).length
    · have : chunk.length = 8 := by rw [hc, List.length_take]; omega
      rw [this, Nat.sub_self, List.replicate_zero, List.append_nil]
      have hrl : rest.length = (b0 :: r).length - 8 := by rw [hr, List.length_drop]
      rw [hrl, ← List.append_assoc, hc, hr, List.take_append_drop]
      congr 2
      omega
    · have hcl : chunk = b0 :: r := by rw [hc, List.take_of_length_le (by omega)]
      have hre : rest = [] := by rw [hr, List.drop_of_length_le (by omega)]
      rw [hcl, hre]
      simp only [List.length_nil, Nat.zero_mod]
      have : (b0 :: r).length % 8 = (b0 :: r).length := Nat.mod_eq_of_lt (by omega)
      rw [this]
      have h1 : 1 ≤ (b0 :: r).length := by simp
      have : (8 - (b0 :: r).length) % 8 = 8 - (b0 :: r).length := Nat.mod_eq_of_lt (by omega)
      rw [this]
      simp

theorem length_packBits (bits : List Bool) : (packBits bits).length = (bits.length + 7) / 8 := by
  have h := congrArg List.length (bytesToBits_packBits bits)
  rw [length_bytesToBits, List.length_append, List.length_replicate] at h
  omega

theorem length_encodeBits (s : Bytes) : (encodeBits s).length = (s.map (fun c => lenOf c.toNat)).sum := by
  induction s with
  | nil => rfl
  | cons c s ih => rw [encodeBits_cons, List.length_append, length_codeBits, ih]; simp

/-- the encoder emits exactly `⌈Σ codeLen / 8⌉` bytes -/
theorem length_encode (s : Bytes) : (encode s).length = encodeLen s := by
  unfold encode encodeLen
  rw [length_packBits, length_encodeBits]

theorem bytesToBits_encode (s : Bytes) :
    bytesToBits (encode s) = encodeBits s ++ List.replicate ((8 - (encodeBits s).length % 8) % 8) true :=
  bytesToBits_packBits _

theorem decodeSpecMax_encode (maxLen : Nat) (s : Bytes) (hm : maxLen = 0 ∨ s.length ≤ maxLen) :
    decodeSpecMax maxLen (encode s) = .ok s := by
  rw [decodeSpecMax_eq, bytesToBits_encode, specRun_encode maxLen s _ (by omega) [] (by simpa using hm)]
  rfl

theorem decodeSpec_encode (s : Bytes) : decodeSpec (encode s) = some s := by
  have h := decodeSpecMax_encode 0 s (Or.inl rfl)
  rw [decodeSpecMax_zero] at h
  cases hd : decodeSpec (encode s) with
  | none => rw [hd] at h; cases h
  | some x => rw [hd] at h; simp only [ofOpt, Except.ok.injEq] at h; rw [h]

/-! ### soundness: what the decoder accepts is an encoding -/

theorem specRun_sound (maxLen : Nat) (n : Nat) (bits : List Bool) (acc out : Bytes) (hn : bits.length ≤ n)
    (h : specRun maxLen bits acc = .ok out) :
    ∃ s k, out = acc.reverse ++ s ∧ bits = encodeBits s ++ List.replicate k true ∧ k < 8 := by
  induction n generalizing bits acc with
  | zero =>
    have : bits = [] := List.eq_nil_of_length_eq_zero (by omega)
    subst this
    rw [specRun_none _ _ _ (by simpa using matchSym_ones 0)] at h
    simp only [List.length_nil, List.all_nil, Nat.zero_lt_succ, and_self, if_true, Except.ok.injEq] at h
    exact ⟨[], 0, by simp [h], rfl, by decide⟩
  | succ n ih =>
    cases hm : matchSym bits with
    | none =>
      rw [specRun_none _ _ _ hm] at h
      split at h
      · rename_i hc
        simp only [Except.ok.injEq] at h
        refine ⟨[], bits.length, by simp [h], ?_, hc.1⟩
        simp only [encodeBits, List.flatMap_nil, List.nil_append]
        apply List.eq_replicate_iff.2
        refine ⟨rfl, fun b hb => ?_⟩
        have := List.all_eq_true.1 hc.2 b hb
        simpa using this
      · cases h
    | some p =>
      obtain ⟨sym, rest⟩ := p
      obtain ⟨hs, hb⟩ := matchSym_some bits sym rest hm
      rw [specRun_match _ _ _ _ _ hm] at h
      split at h
      · cases h
      · have hl : bits.length = lenOf sym + rest.length := by rw [hb, List.length_append, length_codeBits]
        have := (wf_sym sym hs).1
        obtain ⟨s, k, h1, h2, h3⟩ := ih rest _ (by omega) h
        refine ⟨UInt8.ofNat sym :: s, k, by simp [h1], ?_, h3⟩
        have e : (UInt8.ofNat sym).toNat = sym := by simp [UInt8.toNat_ofNat', Nat.mod_eq_of_lt hs]
        rw [encodeBits_cons, List.append_assoc, ← h2, e]
        exact hb

theorem bitsOf8_inj (a b : UInt8) (h : bitsOf a.toNat 8 = bitsOf b.toNat 8) : a = b := by
  have := bitsOf_inj _ _ _ h
  have ha := UInt8.toNat_lt a
  have hb := UInt8.toNat_lt b
  rw [Nat.mod_eq_of_lt (by omega), Nat.mod_eq_of_lt (by omega)] at this
  exact UInt8.toNat_inj.1 this

theorem bytesToBits_inj (v w : Bytes) (h : bytesToBits v = bytesToBits w) : v = w := by
  induction v generalizing w with
  | nil =>
    cases w with
    | nil => rfl
    | cons b r => have := congrArg List.length h; rw [length_bytesToBits, length_bytesToBits] at this; simp at this
  | cons a v ih =>
    cases w with
    | nil => have := congrArg List.length h; rw [length_bytesToBits, length_bytesToBits] at this; simp at this
    | cons b w =>
      rw [bytesToBits_cons, bytesToBits_cons] at h
      have := List.append_inj h (by simp)
      rw [bitsOf8_inj a b this.1, ih w this.2]

/-- **the decoder accepts exactly the encodings**: `v` decodes to `s` iff `v` is the encoding of `s` -/
theorem decodeSpecMax_ok_iff (v s : Bytes) : decodeSpecMax 0 v = .ok s ↔ v = encode s := by
  constructor
  · intro h
    rw [decodeSpecMax_eq] at h
    obtain ⟨s', k, h1, h2, h3⟩ := specRun_sound 0 _ _ _ _ (Nat.le_refl _) h
    simp only [List.reverse_nil, List.nil_append] at h1
    subst h1
    apply bytesToBits_inj
    have hl := congrArg List.length h2
    rw [length_bytesToBits, List.length_append, List.length_replicate] at hl
    have hk : k = (8 - (encodeBits s).length % 8) % 8 := by omega
    rw [h2, bytesToBits_encode, ← hk]
  · intro h
    rw [h]
    exact decodeSpecMax_encode 0 s (Or.inl rfl)

/-! ### the three rejected paddings (RFC 7541 §5.2) -/

/-- more than 7 bits of padding after the last symbol -/
theorem reject_long_padding (maxLen : Nat) (s : Bytes) (k : Nat) (hk : 8 ≤ k) (acc : Bytes)
    (hm : maxLen = 0 ∨ acc.length + s.length ≤ maxLen) :
    specRun maxLen (encodeBits s ++ List.replicate k true) acc = .error .invalid := by
  induction s generalizing acc with
  | nil =>
    simp only [encodeBits, List.flatMap_nil, List.nil_append]
    rw [specRun_none _ _ _ (matchSym_ones k), if_neg]
    simp only [List.length_replicate]; omega
  | cons c s ih =>
    rw [encodeBits_cons, List.append_assoc, specRun_match _ _ _ _ _ (matchSym_code c.toNat (UInt8.toNat_lt c) _), if_neg]
    · apply ih
      rcases hm with h | h
      · exact Or.inl h
      · right; simp only [List.length_cons] at h ⊢; omega
    · rintro ⟨h0, h1⟩
      rcases hm with h | h
      · exact h0 h
      · simp only [List.length_cons] at h; omega

/-- trailing bits that are no complete code and not all ones -/
theorem reject_bad_padding (maxLen : Nat) (s : Bytes) (p : List Bool) (hp : matchSym p = none) (hz : p.all id = false) (acc : Bytes)
    (hm : maxLen = 0 ∨ acc.length + s.length ≤ maxLen) :
    specRun maxLen (encodeBits s ++ p) acc = .error .invalid := by
  induction s generalizing acc with
  | nil =>
    simp only [encodeBits, List.flatMap_nil, List.nil_append]
    rw [specRun_none _ _ _ hp, if_neg]
    rw [hz]; simp
  | cons c s ih =>
    rw [encodeBits_cons, List.append_assoc, specRun_match _ _ _ _ _ (matchSym_code c.toNat (UInt8.toNat_lt c) _), if_neg]
    · apply ih
      rcases hm with h | h
      · exact Or.inl h
      · right; simp only [List.length_cons] at h ⊢; omega
    · rintro ⟨h0, h1⟩
      rcases hm with h | h
      · exact h0 h
      · simp only [List.length_cons] at h; omega

/-- EOS inside the string -/
theorem reject_eos (maxLen : Nat) (s : Bytes) (rest : List Bool) (acc : Bytes)
    (hm : maxLen = 0 ∨ acc.length + s.length ≤ maxLen) :
    specRun maxLen (encodeBits s ++ (eosBits ++ rest)) acc = .error .invalid := by
  induction s generalizing acc with
  | nil =>
    simp only [encodeBits, List.flatMap_nil, List.nil_append]
    rw [specRun_none _ _ _ (matchSym_eos _ (List.prefix_append _ _)), if_neg]
    simp only [List.length_append, eosBits, length_bitsOf, eosLen]; omega
  | cons c s ih =>
    rw [encodeBits_cons, List.append_assoc, specRun_match _ _ _ _ _ (matchSym_code c.toNat (UInt8.toNat_lt c) _), if_neg]
    · apply ih
      rcases hm with h | h
      · exact Or.inl h
      · right; simp only [List.length_cons] at h ⊢; omega
    · rintro ⟨h0, h1⟩
      rcases hm with h | h
      · exact h0 h
      · simp only [List.length_cons] at h; omega

end MosnVerif.Lemmas.HuffSpec
