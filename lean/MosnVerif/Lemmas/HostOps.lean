import MosnVerif.Model.HostOps
/-! The published host list represents the abstract map address → most recently supplied host object. -/
namespace MosnVerif.Model.HostOps
open MosnVerif.Gen.ClusterPub

theorem firstOf_cons (h : H) (r : List H) (a : Nat) :
    firstOf (h :: r) a = if h.a = a then some h else firstOf r a := by
  unfold firstOf
  by_cases e : h.a = a
  · simp [List.find?, e]
  · have : (h.a == a) = false := by simp [e]
    simp only [List.find?, this, if_neg e]

theorem firstOf_dedupFirst (seen : List Nat) (l : List H) (a : Nat) :
    firstOf (dedupFirst seen l) a = if a ∈ seen then none else firstOf l a := by
  induction l generalizing seen with
  | nil => simp [dedupFirst, firstOf]
  | cons h r ih =>
    unfold dedupFirst
    by_cases hs : h.a ∈ seen
    · simp only [hs, if_true]
      rw [ih, firstOf_cons]
      by_cases ha : a ∈ seen
      · simp [ha]
      · have : h.a ≠ a := fun e => ha (e ▸ hs)
        simp [ha, this]
    · simp only [hs, if_false]
      rw [firstOf_cons, ih, firstOf_cons]
      by_cases e : h.a = a
      · subst e; simp [hs]
      · have e' : a ≠ h.a := fun x => e x.symm
        simp [e, e']

theorem dedupFirst_fresh (seen : List Nat) (l : List H) : ∀ h ∈ dedupFirst seen l, h.a ∉ seen := by
  induction l generalizing seen with
  | nil => simp [dedupFirst]
  | cons x r ih =>
    unfold dedupFirst
    by_cases hs : x.a ∈ seen
    · simp only [hs, if_true]; exact ih seen
    · simp only [hs, if_false]
      intro h hh
      simp only [List.mem_cons] at hh
      rcases hh with rfl | hh
      · exact hs
      · have := ih (x.a :: seen) h hh
        simp only [List.mem_cons, not_or] at this
        exact this.2

theorem dedupFirst_nodup (seen : List Nat) (l : List H) : ((dedupFirst seen l).map (·.a)).Nodup := by
  induction l generalizing seen with
  | nil => simp [dedupFirst]
  | cons x r ih =>
    unfold dedupFirst
    by_cases hs : x.a ∈ seen
    · simp only [hs, if_true]; exact ih seen
    · simp only [hs, if_false, List.map_cons, List.nodup_cons]
      refine ⟨?_, ih _⟩
      intro hm
      obtain ⟨h, hh, he⟩ := List.mem_map.mp hm
      have := dedupFirst_fresh (x.a :: seen) r h hh
      simp only [List.mem_cons, not_or] at this
      exact this.1 he

theorem firstOf_append (l c : List H) (a : Nat) :
    firstOf (l ++ c) a = match firstOf l a with | some h => some h | none => firstOf c a := by
  induction l with
  | nil => simp [firstOf]
  | cons h r ih =>
    simp only [List.cons_append, firstOf_cons]
    by_cases e : h.a = a
    · simp [e]
    · simp [e, ih]

theorem firstOf_filter (c : List H) (as : List Nat) (a : Nat) :
    firstOf (c.filter (fun h => !as.contains h.a)) a = if as.contains a then none else firstOf c a := by
  induction c with
  | nil => simp [firstOf]
  | cons h r ih =>
    simp only [List.filter_cons]
    by_cases hc : as.contains h.a = true
    · simp only [hc, Bool.not_true, Bool.false_eq_true, if_false]
      rw [ih, firstOf_cons]
      by_cases e : h.a = a
      · subst e
        have hc' : h.a ∈ as := by simpa using hc
        simp [hc']
      · simp [e]
    · simp only [Bool.not_eq_true] at hc
      simp only [hc, Bool.not_false, if_true]
      rw [firstOf_cons, ih, firstOf_cons]
      by_cases e : h.a = a
      · subst e
        have hc' : h.a ∉ as := by simpa using hc
        simp [hc']
      · simp [e]

theorem firstOf_of_mem (c : List H) (hn : (c.map (·.a)).Nodup) (h : H) (hm : h ∈ c) : firstOf c h.a = some h := by
  induction c with
  | nil => simp at hm
  | cons x r ih =>
    simp only [List.map_cons, List.nodup_cons] at hn
    rw [firstOf_cons]
    simp only [List.mem_cons] at hm
    rcases hm with rfl | hm
    · simp
    · have : x.a ≠ h.a := fun e => hn.1 (e ▸ List.mem_map.mpr ⟨h, hm, rfl⟩)
      simp [this, ih hn.2 hm]

/-- the host list `c` represents the map `m`: distinct addresses, and the object listed for an address is `m`'s. -/
def Rep (c : List H) (m : Nat → Option H) : Prop := (c.map (·.a)).Nodup ∧ ∀ a, firstOf c a = m a

theorem rep_step (c : List H) (m : Nat → Option H) (op : Op) (h : Rep c m) : Rep (applyOp c op) (absOp m op) := by
  have hk : dupKeepsFirst = true := by decide
  cases op with
  | update l =>
    have hp : parts updateParts l c = l := by simp [parts, updateParts]
    simp only [applyOp, absOp, dedup, hk, if_true, hp]
    exact ⟨dedupFirst_nodup _ _, fun a => by rw [firstOf_dedupFirst]; simp⟩
  | append l =>
    have hp : parts appendParts l c = l ++ c := by simp [parts, appendParts]
    simp only [applyOp, absOp, dedup, hk, if_true, hp]
    refine ⟨dedupFirst_nodup _ _, fun a => ?_⟩
    rw [firstOf_dedupFirst, firstOf_append, h.2 a]
    simp only [List.not_mem_nil, if_false]
    cases firstOf l a <;> rfl
  | remove as =>
    have hp : parts removeParts [] c = c := by simp [parts, removeParts]
    simp only [applyOp, absOp, dedup, hk, if_true, hp]
    refine ⟨dedupFirst_nodup _ _, fun a => ?_⟩
    rw [firstOf_dedupFirst, firstOf_filter, h.2 a]; simp
  | inherit => exact h

theorem rep_run (ops : List Op) (c : List H) (m : Nat → Option H) (h : Rep c m) : Rep (runOps c ops) (absRun m ops) := by
  induction ops generalizing c m with
  | nil => exact h
  | cons o r ih => exact ih _ _ (rep_step c m o h)

end MosnVerif.Model.HostOps
