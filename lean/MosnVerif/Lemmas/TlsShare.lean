import Std.Data.String.ToNat
import MosnVerif.Model.TlsShare
import MosnVerif.Lemmas.TlsSds
/-!
Lemmas about `Model/TlsShare.lean`: the regenerated provider index is injective (listener name and position can be read
off it; a cluster's index is never a listener's), hence the contexts of one listener — and of different listeners and
clusters — never share a provider, whatever secret names they share; the cache invariant under every operation.
-/
namespace MosnVerif.Lemmas.TlsShare
open MosnVerif.Gen.TlsShare MosnVerif.Gen.TlsSds MosnVerif.Model.TlsSelect MosnVerif.Model.TlsShare
open MosnVerif.Model.TlsSds (Prov SOp step create)
open MosnVerif.Lemmas.TlsSds

/-! ### the index -/

theorem split_at_first {α : Type} (a : α) : ∀ (l1 l2 r1 r2 : List α), a ∉ l1 → a ∉ l2 →
    l1 ++ a :: r1 = l2 ++ a :: r2 → l1 = l2 ∧ r1 = r2 := by
  intro l1
  induction l1 with
  | nil =>
    intro l2 r1 r2 _ h2 h
    cases l2 with
    | nil => simpa using h
    | cons b t =>
      simp only [List.nil_append, List.cons_append, List.cons.injEq] at h
      exact absurd (by simp [h.1]) h2
  | cons x t ih =>
    intro l2 r1 r2 h1 h2 h
    cases l2 with
    | nil =>
      simp only [List.nil_append, List.cons_append, List.cons.injEq] at h
      exact absurd (by simp [h.1]) h1
    | cons b t2 =>
      simp only [List.cons_append, List.cons.injEq] at h
      obtain ⟨e, ht⟩ := ih t2 r1 r2 (by intro hm; exact h1 (by simp [hm])) (by intro hm; exact h2 (by simp [hm])) h.2
      exact ⟨by rw [h.1, e], ht⟩

theorem underscore_not_in_repr (n : Nat) : '_' ∉ (Nat.repr n).toList := by
  intro h
  rw [Nat.toList_repr] at h
  have := Nat.isDigit_of_mem_toDigits (by decide) (by decide) h
  simp [Char.isDigit] at this

/-- **the regenerated provider index determines listener and position** -/
theorem serverIndex_injective (name name' : Name) (n n' : Nat) (h : serverIndex name n = serverIndex name' n') :
    name = name' ∧ n = n' := by
  unfold serverIndex at h
  simp only [List.append_assoc, List.singleton_append] at h
  have h1 := List.append_cancel_left h
  obtain ⟨hd, hn⟩ := split_at_first '_' _ _ _ _ (underscore_not_in_repr n) (underscore_not_in_repr n') h1
  exact ⟨hn, Nat.repr_injective (String.toList_inj.mp hd)⟩

theorem clientIndex_ne_serverIndex (a b : Name) (n : Nat) : clientIndex a ≠ serverIndex b n := by
  unfold clientIndex serverIndex
  intro h
  simp at h

theorem clientIndex_injective (a b : Name) (h : clientIndex a = clientIndex b) : a = b := by
  unfold clientIndex at h
  exact List.append_cancel_left h

theorem serverKey_injective (name name' : Name) (n n' : Nat) (r r' : Ref) (h : serverKey name n r = serverKey name' n' r') :
    name = name' ∧ n = n' := by
  unfold serverKey cacheKey at h
  simp only [Prod.mk.injEq] at h
  exact serverIndex_injective _ _ _ _ h.2.2

theorem pemOf_serverKey (name : Name) (n : Nat) (r : Ref) : pemOf (serverKey name n r) = (r.val, r.cert) := rfl

/-! ### the cache invariant -/

variable {κ : Type}

/-- every provider is coherent, holds the secret of its pem provider, and its pem provider exists -/
def Inv1 (ca : Cache κ) : Prop :=
  ∀ key p, ca.provs key = some p →
    Coherent p ∧ p.secret = pemSecret ca (pemOf key) ∧ (ca.pems (pemOf key)).isSome = true

theorem addOrUpdate_provs_other (ca : Cache κ) (key k : Key) (cfg : κ) (g : Bool) (h : k ≠ key) :
    (addOrUpdate ca key cfg g).provs k = ca.provs k := by
  simp [addOrUpdate, h]

theorem addOrUpdate_provs_self (ca : Cache κ) (key : Key) (cfg : κ) (g : Bool) :
    ∃ p, (addOrUpdate ca key cfg g).provs key = some p ∧ p.config = cfg := by
  unfold addOrUpdate
  simp only [↓reduceIte]
  cases ca.provs key with
  | none => exact ⟨_, rfl, (create_fields _ _ _).1⟩
  | some p => exact ⟨_, rfl, (step_fields p (.update cfg g)).1⟩

theorem addOrUpdate_pemSecret (ca : Cache κ) (key : Key) (cfg : κ) (g : Bool) (pk : PemKey) :
    pemSecret (addOrUpdate ca key cfg g) pk = pemSecret ca pk := by
  unfold pemSecret addOrUpdate
  simp only []
  split
  · rfl
  · rename_i hn
    by_cases hq : pk = pemOf key
    · subst hq
      cases hp : ca.pems (pemOf key) with
      | none => simp
      | some v => simp [hp] at hn
    · simp [hq]

theorem addOrUpdate_pems_isSome (ca : Cache κ) (key : Key) (cfg : κ) (g : Bool) (pk : PemKey)
    (h : (ca.pems pk).isSome = true ∨ pk = pemOf key) : ((addOrUpdate ca key cfg g).pems pk).isSome = true := by
  unfold addOrUpdate
  simp only []
  split
  · rename_i hs
    rcases h with h | h
    · exact h
    · subst h; exact hs
  · by_cases hq : pk = pemOf key
    · simp [hq]
    · rcases h with h | h
      · simp [hq, h]
      · exact absurd h hq

theorem addOrUpdate_inv1 (ca : Cache κ) (key : Key) (cfg : κ) (g : Bool) (h : Inv1 ca) : Inv1 (addOrUpdate ca key cfg g) := by
  intro k p hp
  by_cases hk : k = key
  · subst hk
    rw [addOrUpdate_pemSecret]
    refine ⟨?_, ?_, addOrUpdate_pems_isSome ca k cfg g _ (Or.inr rfl)⟩
    · unfold addOrUpdate at hp
      simp only [↓reduceIte, Option.some.injEq] at hp
      subst hp
      cases hc : ca.provs k with
      | none => exact create_coherent _ _ _
      | some q => exact step_coherent q _ (h k q hc).1
    · have hps := addOrUpdate_pemSecret ca k cfg g (pemOf k)
      unfold addOrUpdate at hp hps
      simp only [↓reduceIte, Option.some.injEq] at hp
      subst hp
      cases hc : ca.provs k with
      | none =>
        simp only [(create_fields _ _ _).2]
        exact hps
      | some q =>
        simp only [(step_fields q (.update cfg g)).2]
        exact (h k q hc).2.1
  · rw [addOrUpdate_provs_other ca key k cfg g hk] at hp
    obtain ⟨h1, h2, h3⟩ := h k p hp
    exact ⟨h1, by rw [addOrUpdate_pemSecret]; exact h2, addOrUpdate_pems_isSome ca key cfg g _ (Or.inl h3)⟩

theorem complete_inv1 (ca : Cache κ) (pk : PemKey) (s : Nat) (h : Inv1 ca) : Inv1 (complete ca pk s) := by
  unfold complete
  split
  · rename_i hs
    intro k p hp
    simp only [Option.map_eq_some_iff] at hp
    obtain ⟨q, hq, e⟩ := hp
    obtain ⟨h1, h2, h3⟩ := h k q hq
    by_cases hk : pemOf k = pk
    · simp only [hk, ↓reduceIte] at e
      subst e
      refine ⟨step_coherent q _ h1, ?_, by simp [hk]⟩
      simp [(step_fields q (.push s)).2, pemSecret, hk]
    · simp only [hk, ↓reduceIte] at e
      subst e
      refine ⟨h1, ?_, by simp [hk, h3]⟩
      rw [h2]; simp [pemSecret, hk]
  · exact h

theorem complete_config (ca : Cache κ) (pk : PemKey) (s : Nat) (k : Key) (p : Prov κ Nat) (h : ca.provs k = some p) :
    ∃ p', (complete ca pk s).provs k = some p' ∧ p'.config = p.config := by
  unfold complete
  split
  · by_cases hk : pemOf k = pk
    · exact ⟨step p (.push s), by simp [h, hk], (step_fields p (.push s)).1⟩
    · exact ⟨p, by simp [h, hk], rfl⟩
  · exact ⟨p, h, rfl⟩

theorem buildFrom_inv1 (name : Name) (g : Bool) (cs : List (Option (SCtx κ))) :
    ∀ (n : Nat) (ca : Cache κ), Inv1 ca → Inv1 (buildFrom name g cs n ca) := by
  induction cs with
  | nil => intro n ca h; exact h
  | cons c r ih =>
    intro n ca h
    cases c with
    | none => exact ih (n + 1) ca h
    | some c => exact ih (n + 1) _ (addOrUpdate_inv1 ca _ c.cfg g h)

/-- a build only touches the keys of its own listener at the positions it walks -/
theorem buildFrom_provs_other (name : Name) (g : Bool) (cs : List (Option (SCtx κ))) :
    ∀ (n : Nat) (ca : Cache κ) (k : Key), (∀ m r, n ≤ m → k ≠ serverKey name m r) →
      (buildFrom name g cs n ca).provs k = ca.provs k := by
  induction cs with
  | nil => intro n ca k _; rfl
  | cons c r ih =>
    intro n ca k hk
    cases c with
    | none => exact ih (n + 1) ca k (fun m r hm => hk m r (by omega))
    | some c =>
      simp only [buildFrom]
      rw [ih (n + 1) _ k (fun m r hm => hk m r (by omega))]
      exact addOrUpdate_provs_other ca _ k c.cfg g (hk n c.ref (Nat.le_refl n))

/-- after a build, the provider of EVERY position holds that position's configuration -/
theorem buildFrom_own_config (name : Name) (g : Bool) (cs : List (Option (SCtx κ))) :
    ∀ (n : Nat) (ca : Cache κ) (i : Nat) (c : SCtx κ), cs[i]? = some (some c) →
      ∃ p, (buildFrom name g cs n ca).provs (serverKey name (n + i) c.ref) = some p ∧ p.config = c.cfg := by
  induction cs with
  | nil => intro n ca i c h; simp at h
  | cons c0 r ih =>
    intro n ca i c h
    cases i with
    | zero =>
      simp only [List.getElem?_cons_zero, Option.some.injEq] at h
      subst h
      simp only [buildFrom, Nat.add_zero]
      rw [buildFrom_provs_other name g r (n + 1) _ _ (fun m r' hm he => by
        have := (serverKey_injective _ _ _ _ _ _ he).2; omega)]
      exact addOrUpdate_provs_self ca _ c.cfg g
    | succ j =>
      simp only [List.getElem?_cons_succ] at h
      have e : n + (j + 1) = (n + 1) + j := by omega
      rw [e]
      cases c0 with
      | none => exact ih (n + 1) ca j c h
      | some c0 => exact ih (n + 1) _ j c h

/-- the invariant of a run: Inv1 and, for every listener, the providers of its latest build hold their own configuration -/
def Inv (ca : Cache κ) (T : Name → Option (List (Option (SCtx κ)))) : Prop :=
  Inv1 ca ∧ ∀ name cs, T name = some cs → ∀ i c, cs[i]? = some (some c) →
    ∃ p, ca.provs (serverKey name i c.ref) = some p ∧ p.config = c.cfg

theorem apply_inv (ca : Cache κ) (T : Name → Option (List (Option (SCtx κ)))) (op : COp κ) (h : Inv ca T) :
    Inv (apply ca op) (noteBuild T op) := by
  obtain ⟨h1, h2⟩ := h
  cases op with
  | build name0 cs0 g =>
    refine ⟨buildFrom_inv1 name0 g cs0 0 ca h1, ?_⟩
    intro name cs hT i c hc
    simp only [noteBuild] at hT
    by_cases hn : name = name0
    · subst hn
      simp only [↓reduceIte, Option.some.injEq] at hT
      subst hT
      have := buildFrom_own_config name g cs0 0 ca i c hc
      simpa [apply, build] using this
    · simp only [hn, ↓reduceIte] at hT
      obtain ⟨p, hp, hcfg⟩ := h2 name cs hT i c hc
      refine ⟨p, ?_, hcfg⟩
      simp only [apply, build]
      rw [buildFrom_provs_other name0 g cs0 0 ca _ (fun m r _ he => hn (serverKey_injective _ _ _ _ _ _ he).1)]
      exact hp
  | cluster name0 c0 g =>
    refine ⟨addOrUpdate_inv1 ca _ c0.cfg g h1, ?_⟩
    intro name cs hT i c hc
    obtain ⟨p, hp, hcfg⟩ := h2 name cs hT i c hc
    refine ⟨p, ?_, hcfg⟩
    simp only [apply]
    rw [addOrUpdate_provs_other]
    · exact hp
    · intro he
      unfold serverKey cacheKey at he
      simp only [Prod.mk.injEq] at he
      exact clientIndex_ne_serverIndex _ _ _ he.2.2.symm
  | complete pk s =>
    refine ⟨complete_inv1 ca pk s h1, ?_⟩
    intro name cs hT i c hc
    obtain ⟨p, hp, hcfg⟩ := h2 name cs hT i c hc
    obtain ⟨p', hp', e⟩ := complete_config ca pk s _ p hp
    exact ⟨p', hp', by rw [e, hcfg]⟩

theorem foldl_inv (ops : List (COp κ)) : ∀ (ca : Cache κ) (T : Name → Option (List (Option (SCtx κ)))), Inv ca T →
    Inv (ops.foldl apply ca) (ops.foldl noteBuild T) := by
  induction ops with
  | nil => intro ca T h; exact h
  | cons op r ih => intro ca T h; exact ih _ _ (apply_inv ca T op h)

theorem empty_inv : Inv (Cache.empty : Cache κ) (fun _ => none) :=
  ⟨by intro k p h; simp [Cache.empty] at h, by intro name cs h; simp at h⟩

theorem viewFrom_congr (statics : Nat → Ctx) (f f' : Nat → SCtx LCfg → Ctx) (cs : List (Option (SCtx LCfg))) :
    ∀ n, (∀ i c, cs[i]? = some (some c) → f (n + i) c = f' (n + i) c) → viewFrom statics f cs n = viewFrom statics f' cs n := by
  induction cs with
  | nil => intro n _; rfl
  | cons c0 r ih =>
    intro n h
    have hr : viewFrom statics f r (n + 1) = viewFrom statics f' r (n + 1) := by
      apply ih
      intro i c hc
      have := h (i + 1) c (by simpa using hc)
      have e : n + (i + 1) = n + 1 + i := by omega
      rwa [e] at this
    cases c0 with
    | none => simp only [viewFrom, hr]
    | some c =>
      have h0 := h 0 c (by simp)
      simp only [Nat.add_zero] at h0
      simp only [viewFrom, hr, h0]

end MosnVerif.Lemmas.TlsShare
