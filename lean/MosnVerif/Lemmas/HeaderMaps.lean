import MosnVerif.Model.HeaderMaps
import MosnVerif.Lemmas.Headers
import MosnVerif.Lemmas.HeaderWiring
/-!
[c17h10] Laws of a protocol header map under which the route's header mutations meet the declarative reference, the generic
proof, and the proofs that the instances (CommonHeader, fasthttp request / response, net/http.Header, bolt) satisfy them.
-/
namespace MosnVerif.Model.HeaderMaps
open MosnVerif.Model.Headers MosnVerif.Gen.HeaderMutation

variable {M : Type}

/-! ### blank equivalence -/

theorem BlankEq.rfl' (a : Option String) : BlankEq a a := Or.inl rfl

theorem BlankEq.symm {a b : Option String} (h : BlankEq a b) : BlankEq b a := by
  rcases h with h | ⟨h1, h2⟩
  · exact Or.inl h.symm
  · exact Or.inr ⟨h2, h1⟩

theorem BlankEq.trans {a b c : Option String} (h1 : BlankEq a b) (h2 : BlankEq b c) : BlankEq a c := by
  rcases h1 with h1 | ⟨ha, hb⟩
  · subst h1; exact h2
  · rcases h2 with h2 | ⟨_, hc⟩
    · subst h2; exact Or.inr ⟨ha, hb⟩
    · exact Or.inr ⟨ha, hc⟩

theorem BlankEq.of_eq {a b : Option String} (h : a = b) : BlankEq a b := Or.inl h

theorem isBlank_iff (a : Option String) : isBlank a = true ↔ a = none ∨ a = some "" := by
  cases a with
  | none => simp [isBlank]
  | some v => simp [isBlank]

/-- a non-blank value is only equivalent to itself -/
theorem BlankEq.eq_of_nonblank {a b : Option String} (h : BlankEq a b) (hb : isBlank b = false) : a = b := by
  rcases h with h | ⟨_, h2⟩
  · exact h
  · rw [hb] at h2; exact absurd h2 (by decide)

theorem isBlank_some_ne {v : String} (h : v ≠ "") : isBlank (some v) = false := by
  simp [isBlank, h]

theorem length_pos_ne_empty {v : String} (h : v.length > 0) : v ≠ "" := by
  intro he; subst he; simp at h

theorem length_zero_of_empty {v : String} (h : ¬ v.length > 0) : v = "" := by
  have : v.length = 0 := by omega
  exact String.length_eq_zero_iff.mp this

/-- the documented rule does not tell an absent header from an empty one: what an addition or removal leaves only
depends on the value up to blank equivalence -/
theorem stepVal_congr {a b : Option String} (h : BlankEq a b) (o : Op) : stepVal a o = stepVal b o := by
  rcases h with h | ⟨ha, hb⟩
  · rw [h]
  · rw [isBlank_iff] at ha hb
    rcases ha with ha | ha <;> rcases hb with hb | hb <;> subst ha <;> subst hb <;> cases o <;> simp [stepVal]

theorem foldl_stepVal_congr (ops : List Op) {a b : Option String} (h : BlankEq a b) :
    BlankEq (ops.foldl stepVal a) (ops.foldl stepVal b) := by
  cases ops with
  | nil => exact h
  | cons o r => simp only [List.foldl_cons]; rw [stepVal_congr h o]; exact BlankEq.rfl' _

/-! ### the regenerated loop bodies in closed form -/

open MosnVerif.Gen.HeaderEval in
/-- `addStep` (regenerated from evaluateHeaders' additions loop): join onto a present non-empty value when append is on;
otherwise set the configured value — after deleting the header when append is off (overwrite) -/
theorem addStep_eq {σ : Type} (o : MapOps σ) (name val : String) (app : Bool) (s : σ) :
    addStep o name val app s =
      match o.get s name with
      | some v =>
        if v.length > 0 ∧ app = true then o.set s name (v ++ "," ++ val)
        else if app = false then o.set (o.del s name) name val else o.set s name val
      | none => if app = false then o.set (o.del s name) name val else o.set s name val := by
  unfold addStep
  cases hg : o.get s name with
  | none => cases app <;> simp
  | some v =>
    cases app <;> by_cases hv : v.length > 0 <;> simp [hv]

open MosnVerif.Gen.HeaderEval in
theorem removeStep_eq {σ : Type} (o : MapOps σ) (name : String) (s : σ) : removeStep o name s = o.del s name := rfl

/-- one configured mutation on a protocol map -/
def applyOp (I : HMap M) (m : M) : Op → M
  | .add a => applyAdd I m a
  | .remove k => applyRemove I m k

theorem evaluate_eq_ops (I : HMap M) (p : Parser) (m : M) : evaluate I p m = (opsOf p).foldl (applyOp I) m := by
  unfold evaluate opsOf Gen.HeaderEval.evaluateHeaders
  rw [List.foldl_append, List.foldl_map, List.foldl_map, List.foldl_map]
  rfl

theorem finalize_eq_ops (I : HMap M) (l : Levels) (m : M) :
    finalize I [.route, .vhost, .router] l m = (specOps l).foldl (applyOp I) m := by
  simp [finalize, Levels.at, evaluate_eq_ops, specOps, List.foldl_append]

/-! ### the laws -/

/-- **HeaderMapLaws**: what `evaluateHeaders` needs of a protocol header map, for an observation `obs` of it (the value
`Get` answers, or the first value the map prints under the name).  `Inv` = well-formedness kept by the operations,
`ok` = the names the laws are claimed for.  `Set` / `Del` act on the named header only, names are identified through
`norm`, and reading back gives the value set / nothing — up to blank equivalence (a dedicated fasthttp field that is empty is
not printed; `Get` of net/http.Header reports an empty value as absent). -/
structure HeaderMapLaws (I : HMap M) (Inv : M → Prop) (ok : String → Prop) (obs : M → String → Option String) : Prop where
  inv_set : ∀ m k v, Inv m → ok k → Inv (I.set m k v)
  inv_del : ∀ m k, Inv m → ok k → Inv (I.del m k)
  obs_norm : ∀ m k k', I.norm k = I.norm k' → obs m k = obs m k'
  get_obs : ∀ m k, Inv m → ok k → BlankEq (I.get m k) (obs m k)
  set_same : ∀ m k v, Inv m → ok k → BlankEq (obs (I.set m k v) k) (some v)
  set_other : ∀ m k k' v, Inv m → ok k → I.norm k ≠ I.norm k' → obs (I.set m k v) k' = obs m k'
  del_same : ∀ m k, Inv m → ok k → BlankEq (obs (I.del m k) k) none
  del_other : ∀ m k k', Inv m → ok k → I.norm k ≠ I.norm k' → obs (I.del m k) k' = obs m k'

/-- the exact form: reading back gives exactly the value set, and nothing after a removal -/
structure HeaderMapLawsStrict (I : HMap M) (Inv : M → Prop) (ok : String → Prop) (obs : M → String → Option String) : Prop
    extends HeaderMapLaws I Inv ok obs where
  set_same_eq : ∀ m k v, Inv m → ok k → obs (I.set m k v) k = some v
  del_same_eq : ∀ m k, Inv m → ok k → obs (I.del m k) k = none

section generic
variable {I : HMap M} {Inv : M → Prop} {ok : String → Prop} {obs : M → String → Option String}

theorem inv_applyOp (L : HeaderMapLaws I Inv ok obs) (m : M) (o : Op) (hm : Inv m) (hk : ok o.key) : Inv (applyOp I m o) := by
  cases o with
  | remove r => exact L.inv_del m r hm hk
  | add a =>
    simp only [applyOp, applyAdd, addStep_eq, HMap.ops]
    have h1 := fun v => L.inv_set m a.name v hm hk
    have h2 := fun v => L.inv_set (I.del m a.name) a.name v (L.inv_del m a.name hm hk) hk
    cases I.get m a.name <;> simp only <;> (repeat' split) <;> first | exact h1 _ | exact h2 _

/-- effect of one configured mutation on the observation of header `k` -/
theorem obs_applyOp (L : HeaderMapLaws I Inv ok obs) (m : M) (o : Op) (k : String) (hm : Inv m) (hk : ok o.key) :
    BlankEq (obs (applyOp I m o) k) (if I.norm o.key = I.norm k then stepVal (obs m k) o else obs m k) := by
  by_cases hn : I.norm o.key = I.norm k
  · rw [if_pos hn, ← L.obs_norm _ _ _ hn, ← L.obs_norm m _ _ hn]
    cases o with
    | remove r =>
      simp only [Op.key] at hk ⊢
      simpa [applyOp, applyRemove, removeStep_eq, HMap.ops, stepVal] using L.del_same m r hm hk
    | add a =>
      simp only [Op.key] at hk ⊢
      have hdel := L.inv_del m a.name hm hk
      have hgo := L.get_obs m a.name hm hk
      simp only [applyOp, applyAdd, addStep_eq, HMap.ops]
      cases hg : I.get m a.name with
      | none =>
        rw [hg] at hgo
        have hb : BlankEq (obs m a.name) none := hgo.symm
        rw [stepVal_congr hb]
        cases ha : a.append <;> simp [stepVal]
        · exact L.set_same _ a.name a.value hdel hk
        · exact L.set_same _ a.name a.value hm hk
      | some v =>
        rw [hg] at hgo
        rw [stepVal_congr hgo.symm]
        by_cases hv : v.length > 0 <;> cases ha : a.append <;> simp [stepVal, hv, ha]
        · exact L.set_same _ a.name a.value hdel hk
        · exact L.set_same _ a.name _ hm hk
        · exact L.set_same _ a.name a.value hdel hk
        · exact L.set_same _ a.name a.value hm hk
  · rw [if_neg hn]
    cases o with
    | remove r =>
      simp only [Op.key] at hk hn
      exact BlankEq.of_eq (by simpa [applyOp, applyRemove, removeStep_eq, HMap.ops] using L.del_other m r k hm hk hn)
    | add a =>
      simp only [Op.key] at hk hn
      have hdel := L.inv_del m a.name hm hk
      have e1 := fun v => L.set_other m a.name k v hm hk hn
      have e2 := fun v => (L.set_other (I.del m a.name) a.name k v hdel hk hn).trans (L.del_other m a.name k hm hk hn)
      apply BlankEq.of_eq
      simp only [applyOp, applyAdd, addStep_eq, HMap.ops]
      cases I.get m a.name <;> simp only <;> (repeat' split) <;> first | exact e1 _ | exact e2 _

theorem obs_foldl_ops (L : HeaderMapLaws I Inv ok obs) (ops : List Op) (m : M) (k : String) (hm : Inv m)
    (hok : ∀ o ∈ ops, ok o.key) :
    BlankEq (obs (ops.foldl (applyOp I) m) k) (specValueN I.norm ops k (obs m k)) := by
  induction ops generalizing m with
  | nil => exact BlankEq.rfl' _
  | cons o r ih =>
    simp only [List.foldl_cons]
    have hko : ok o.key := hok o (List.mem_cons_self ..)
    have h1 := ih (applyOp I m o) (inv_applyOp L m o hm hko) (fun o' ho' => hok o' (List.mem_cons_of_mem _ ho'))
    have h2 := obs_applyOp L m o k hm hko
    refine h1.trans ?_
    unfold specValueN at *
    by_cases hn : I.norm o.key = I.norm k
    · rw [if_pos hn] at h2
      simp only [List.filter_cons, hn, beq_self_eq_true, if_true, List.foldl_cons]
      exact foldl_stepVal_congr _ h2
    · rw [if_neg hn] at h2
      have : (I.norm o.key == I.norm k) = false := by simpa using hn
      simp only [List.filter_cons, this, Bool.false_eq_true, if_false]
      exact foldl_stepVal_congr _ h2

/-- exact single step under the strict laws -/
theorem obs_applyOp_strict (L : HeaderMapLawsStrict I Inv ok obs) (m : M) (o : Op) (k : String) (hm : Inv m) (hk : ok o.key) :
    obs (applyOp I m o) k = if I.norm o.key = I.norm k then stepVal (obs m k) o else obs m k := by
  have hw := obs_applyOp L.toHeaderMapLaws m o k hm hk
  by_cases hn : I.norm o.key = I.norm k
  · rw [if_pos hn] at hw ⊢
    -- the only blank-equivalent-but-different pairs are excluded by the exact read-back laws
    clear hw
    rw [← L.obs_norm (applyOp I m o) _ _ hn, ← L.obs_norm m _ _ hn]
    cases o with
    | remove r =>
      simp only [Op.key] at hk ⊢
      simpa [applyOp, applyRemove, removeStep_eq, HMap.ops, stepVal] using L.del_same_eq m r hm hk
    | add a =>
      simp only [Op.key] at hk ⊢
      have hdel := L.inv_del m a.name hm hk
      have hgo := L.get_obs m a.name hm hk
      simp only [applyOp, applyAdd, addStep_eq, HMap.ops]
      cases hg : I.get m a.name with
      | none =>
        rw [hg] at hgo
        rw [stepVal_congr hgo.symm]
        cases ha : a.append <;> simp [stepVal]
        · exact L.set_same_eq _ a.name a.value hdel hk
        · exact L.set_same_eq _ a.name a.value hm hk
      | some v =>
        rw [hg] at hgo
        rw [stepVal_congr hgo.symm]
        by_cases hv : v.length > 0 <;> cases ha : a.append <;> simp [stepVal, hv, ha]
        · exact L.set_same_eq _ a.name a.value hdel hk
        · exact L.set_same_eq _ a.name _ hm hk
        · exact L.set_same_eq _ a.name a.value hdel hk
        · exact L.set_same_eq _ a.name a.value hm hk
  · rw [if_neg hn] at hw ⊢
    rcases hw with hw | ⟨_, _⟩
    · exact hw
    · -- other names are untouched exactly (set_other / del_other are equalities)
      cases o with
      | remove r =>
        simp only [Op.key] at hk hn
        simpa [applyOp, applyRemove, removeStep_eq, HMap.ops] using L.del_other m r k hm hk hn
      | add a =>
        simp only [Op.key] at hk hn
        have hdel := L.inv_del m a.name hm hk
        have e1 := fun v => L.set_other m a.name k v hm hk hn
        have e2 := fun v => (L.set_other (I.del m a.name) a.name k v hdel hk hn).trans (L.del_other m a.name k hm hk hn)
        simp only [applyOp, applyAdd, addStep_eq, HMap.ops]
        cases I.get m a.name <;> simp only <;> (repeat' split) <;> first | exact e1 _ | exact e2 _

theorem obs_foldl_ops_strict (L : HeaderMapLawsStrict I Inv ok obs) (ops : List Op) (m : M) (k : String) (hm : Inv m)
    (hok : ∀ o ∈ ops, ok o.key) :
    obs (ops.foldl (applyOp I) m) k = specValueN I.norm ops k (obs m k) := by
  induction ops generalizing m with
  | nil => rfl
  | cons o r ih =>
    simp only [List.foldl_cons]
    have hko : ok o.key := hok o (List.mem_cons_self ..)
    rw [ih (applyOp I m o) (inv_applyOp L.toHeaderMapLaws m o hm hko) (fun o' ho' => hok o' (List.mem_cons_of_mem _ ho')),
      obs_applyOp_strict L m o k hm hko]
    unfold specValueN
    by_cases hn : I.norm o.key = I.norm k
    · simp [hn]
    · have : (I.norm o.key == I.norm k) = false := by simpa using hn
      simp [this, hn]

end generic

/-! ### list helpers -/

theorem find_setFirst_same (l : List (String × String)) (k v : String) :
    (setFirst l k v).find? (fun e => e.1 == k) = some (k, v) := by
  induction l with
  | nil => simp [setFirst]
  | cons e r ih =>
    unfold setFirst
    by_cases he : e.1 = k
    · simp [he]
    · simp [he, ih]

theorem find_setFirst_other (l : List (String × String)) (k k' v : String) (hne : k ≠ k') :
    (setFirst l k v).find? (fun e => e.1 == k') = l.find? (fun e => e.1 == k') := by
  induction l with
  | nil => simp [setFirst, hne]
  | cons e r ih =>
    unfold setFirst
    by_cases he : e.1 = k
    · subst he
      have hb : (e.1 == k') = false := by simpa using hne
      simp [List.find?_cons, hb]
    · simp only [beq_iff_eq, he, if_false, List.find?_cons, ih]

theorem keys_setFirst (l : List (String × String)) (k v : String) :
    (setFirst l k v).map (·.1) = if k ∈ l.map (·.1) then l.map (·.1) else l.map (·.1) ++ [k] := by
  induction l with
  | nil => simp [setFirst]
  | cons e r ih =>
    unfold setFirst
    by_cases he : e.1 = k
    · simp [he]
    · have : ¬ k = e.1 := fun h => he h.symm
      simp only [beq_iff_eq, he, if_false, List.map_cons, ih, List.mem_cons, this, false_or]
      split <;> simp

theorem find_filter_ne_same (l : List (String × String)) (k : String) :
    (l.filter (fun e => !(e.1 == k))).find? (fun e => e.1 == k) = none := by
  rw [List.find?_eq_none]
  intro e he
  have := (List.mem_filter.mp he).2
  simpa using this

theorem find_filter_ne_other (l : List (String × String)) (k k' : String) (hne : k ≠ k') :
    (l.filter (fun e => !(e.1 == k))).find? (fun e => e.1 == k') = l.find? (fun e => e.1 == k') := by
  rw [List.find?_filter]
  congr 1
  funext e
  by_cases hk' : e.1 = k'
  · simp [hk']
    exact fun h => hne h.symm
  · simp [hk']

theorem find_eraseFirst_other (l : List (String × String)) (k k' : String) (hne : k ≠ k') :
    (eraseFirst l k).find? (fun e => e.1 == k') = l.find? (fun e => e.1 == k') := by
  induction l with
  | nil => rfl
  | cons e r ih =>
    unfold eraseFirst
    by_cases he : e.1 = k
    · subst he
      have hb : (e.1 == k') = false := by simpa using hne
      simp [List.find?_cons, hb]
    · simp only [beq_iff_eq, he, if_false, List.find?_cons, ih]

theorem keys_eraseFirst_sublist (l : List (String × String)) (k : String) :
    ((eraseFirst l k).map (·.1)).Sublist (l.map (·.1)) := by
  induction l with
  | nil => exact List.Sublist.refl _
  | cons e r ih =>
    unfold eraseFirst
    by_cases he : e.1 = k
    · simp [he]
    · simp only [beq_iff_eq, he, if_false, List.map_cons]
      exact List.Sublist.cons_cons _ ih

theorem find_eraseFirst_same (l : List (String × String)) (k : String) (hd : (l.map (·.1)).Nodup) :
    (eraseFirst l k).find? (fun e => e.1 == k) = none := by
  induction l with
  | nil => rfl
  | cons e r ih =>
    unfold eraseFirst
    simp only [List.map_cons, List.nodup_cons] at hd
    by_cases he : e.1 = k
    · simp only [beq_iff_eq, he, if_true]
      rw [List.find?_eq_none]
      intro x hx
      have : x.1 ≠ k := by
        intro hxk
        apply hd.1
        rw [he, ← hxk]
        exact List.mem_map_of_mem hx
      simpa using this
    · have hb : (e.1 == k) = false := by simpa using he
      rw [if_neg (by simp [hb]), List.find?_cons, hb]
      exact ih hd.2

/-! ### instance laws: protocol.CommonHeader -/

theorem common_laws : HeaderMapLawsStrict common (fun _ => True) (fun _ => True) Headers.get where
  inv_set := fun _ _ _ _ _ => trivial
  inv_del := fun _ _ _ _ => trivial
  obs_norm := fun m k k' h => by simp only [common, id] at h; rw [h]
  get_obs := fun m k _ _ => BlankEq.rfl' _
  set_same := fun m k v _ _ => BlankEq.of_eq (get_set_same m k v)
  set_other := fun m k k' v _ _ hn => get_set_other m k k' v (by simpa [common] using hn)
  del_same := fun m k _ _ => BlankEq.of_eq (get_del_same m k)
  del_other := fun m k k' _ _ hn => get_del_other m k k' (by simpa [common] using hn)
  set_same_eq := fun m k v _ _ => get_set_same m k v
  del_same_eq := fun m k _ _ => get_del_same m k

/-! ### instance laws: bolt -/

theorem boltGet_set_same (m : Bolt) (k v : String) : boltGet (boltSet m k v) k = some v := by
  simp [boltGet, boltSet, find_setFirst_same]

theorem boltGet_set_other (m : Bolt) (k k' v : String) (hne : k ≠ k') : boltGet (boltSet m k v) k' = boltGet m k' := by
  simp [boltGet, boltSet, find_setFirst_other _ _ _ _ hne]

theorem boltGet_del_other (m : Bolt) (k k' : String) (hne : k ≠ k') : boltGet (boltDel m k) k' = boltGet m k' := by
  unfold boltDel
  split
  · simp [boltGet, find_eraseFirst_other _ _ _ hne]
  · rfl

theorem boltGet_del_same (m : Bolt) (k : String) (hd : boltNoDup m) : boltGet (boltDel m k) k = none := by
  unfold boltDel
  split
  · simp [boltGet, find_eraseFirst_same _ _ hd]
  · rename_i hn
    simp only [boltGet, Option.map_eq_none_iff, List.find?_eq_none]
    intro x hx
    simp only [List.any_eq_true, not_exists, not_and] at hn
    exact hn x hx

theorem boltNoDup_set (m : Bolt) (k v : String) (hd : boltNoDup m) : boltNoDup (boltSet m k v) := by
  unfold boltNoDup boltSet at *
  simp only [keys_setFirst]
  split
  · exact hd
  · rename_i hn
    rw [List.nodup_append]
    refine ⟨hd, by simp, ?_⟩
    intro a ha b hb
    simp only [List.mem_singleton] at hb
    subst hb
    exact fun h => hn (h ▸ ha)

theorem boltNoDup_del (m : Bolt) (k : String) (hd : boltNoDup m) : boltNoDup (boltDel m k) := by
  unfold boltDel
  split
  · exact List.Nodup.sublist (keys_eraseFirst_sublist _ _) hd
  · exact hd

/-- the bolt header satisfies the exact laws on frames without a repeated key -/
theorem bolt_laws : HeaderMapLawsStrict bolt boltNoDup (fun _ => True) boltGet where
  inv_set := fun m k v hm _ => boltNoDup_set m k v hm
  inv_del := fun m k hm _ => boltNoDup_del m k hm
  obs_norm := fun m k k' h => by simp only [bolt, id] at h; rw [h]
  get_obs := fun m k _ _ => BlankEq.rfl' _
  set_same := fun m k v _ _ => BlankEq.of_eq (boltGet_set_same m k v)
  set_other := fun m k k' v _ _ hn => boltGet_set_other m k k' v (by simpa [bolt] using hn)
  del_same := fun m k hm _ => BlankEq.of_eq (boltGet_del_same m k hm)
  del_other := fun m k k' _ _ hn => boltGet_del_other m k k' (by simpa [bolt] using hn)
  set_same_eq := fun m k v _ _ => boltGet_set_same m k v
  del_same_eq := fun m k hm _ => boltGet_del_same m k hm

/-- every `Set` marks the frame changed (Encode re-serialises), whatever was there -/
theorem bolt_set_changed (m : Bolt) (k v : String) : (boltSet m k v).changed = true := rfl

/-- a `Del` that removed a pair marks the frame changed; one that found nothing leaves the frame alone -/
theorem bolt_del_changed (m : Bolt) (k : String) :
    (boltDel m k).changed = (m.changed || m.kvs.any (·.1 == k)) ∧ (m.kvs.any (·.1 == k) = false → boltDel m k = m) := by
  unfold boltDel
  cases h : m.kvs.any (·.1 == k) <;> simp [h]

/-! ### instance laws: net/http.Header (HTTP/2) -/

/-- the first value net/http.Header holds under the name (what reaches the HTTP/2 encoder first) -/
def h2First (m : H2) (k : String) : Option String :=
  match m.find? (·.1 == h2Norm k) with
  | some (_, v :: _) => some v
  | _ => none

theorem h2First_set_same (m : H2) (k v : String) : h2First (h2Set m k v) k = some v := by
  simp [h2First, h2Set]

theorem h2_find_filter_other (m : H2) (a b : String) (hne : a ≠ b) :
    (m.filter (fun e => !(e.1 == a))).find? (fun e => e.1 == b) = m.find? (fun e => e.1 == b) := by
  rw [List.find?_filter]
  congr 1
  funext e
  by_cases hb : e.1 = b
  · simp [hb]
    exact fun h => hne h.symm
  · simp [hb]

theorem h2First_set_other (m : H2) (k k' v : String) (hne : h2Norm k ≠ h2Norm k') :
    h2First (h2Set m k v) k' = h2First m k' := by
  have hb : (h2Norm k == h2Norm k') = false := by simpa using hne
  simp only [h2First, h2Set, List.find?_cons, hb]
  rw [h2_find_filter_other _ _ _ hne]

theorem h2First_del_same (m : H2) (k : String) : h2First (h2Del m k) k = none := by
  have : (m.filter (fun e => !(e.1 == h2Norm k))).find? (fun e => e.1 == h2Norm k) = none := by
    rw [List.find?_eq_none]
    intro e he
    simpa using (List.mem_filter.mp he).2
  simp [h2First, h2Del, this]

theorem h2First_del_other (m : H2) (k k' : String) (hne : h2Norm k ≠ h2Norm k') :
    h2First (h2Del m k) k' = h2First m k' := by
  simp only [h2First, h2Del]
  rw [h2_find_filter_other _ _ _ hne]

theorem h2Get_first (m : H2) (k : String) : BlankEq (h2Get m k) (h2First m k) := by
  unfold h2Get h2First
  cases m.find? (·.1 == h2Norm k) with
  | none => exact BlankEq.rfl' _
  | some e =>
    obtain ⟨ek, vs⟩ := e
    cases vs with
    | nil => exact BlankEq.rfl' _
    | cons v r =>
      by_cases hv : v = ""
      · subst hv; exact Or.inr ⟨rfl, rfl⟩
      · have : (v == "") = false := by simpa using hv
        simp [this]; exact BlankEq.rfl' _

/-- net/http.Header satisfies the exact laws for the first value it holds under a name (every name, every map);
`Get` agrees with it up to blank (an empty first value is reported as absent) -/
theorem h2_laws : HeaderMapLawsStrict h2 (fun _ => True) (fun _ => True) h2First where
  inv_set := fun _ _ _ _ _ => trivial
  inv_del := fun _ _ _ _ => trivial
  obs_norm := fun m k k' h => by simp only [h2] at h; simp [h2First, h]
  get_obs := fun m k _ _ => h2Get_first m k
  set_same := fun m k v _ _ => BlankEq.of_eq (h2First_set_same m k v)
  set_other := fun m k k' v _ _ hn => h2First_set_other m k k' v hn
  del_same := fun m k _ _ => BlankEq.of_eq (h2First_del_same m k)
  del_other := fun m k k' _ _ hn => h2First_del_other m k k' hn
  set_same_eq := fun m k v _ _ => h2First_set_same m k v
  del_same_eq := fun m k _ _ => h2First_del_same m k

/-! ### instance laws: fasthttp request / response header -/

/-- what the printed header shows first under a plain name: a dedicated field when non-empty, else the first ordinary line -/
def fhObs (kind : FhKind) (m : Fh) (k : String) : Option String :=
  if kind.singles.contains (fhNorm k) then (fhSingle kind m (fhNorm k)).filter (· != "")
  else (m.h.find? (·.1 == fhNorm k)).map (·.2)

/-- well-formed: no ordinary line carries the name of a dedicated field (the parser and `Set`/`Add` never store one), and a
response header does not invent a Content-Type (as handed over by the client stream since fix 29096f6e6) -/
def fhInv (kind : FhKind) (m : Fh) : Prop :=
  (∀ e ∈ m.h, kind.singles.contains e.1 = false) ∧ (kind = .response → m.noDefaultCT = true)

theorem svGet_set_same (sv : List (String × Option String)) (k : String) (v : Option String) : svGet (svSet sv k v) k = v := by
  simp [svGet, svSet]

theorem svGet_set_other (sv : List (String × Option String)) (k k' : String) (v : Option String) (hne : k ≠ k') :
    svGet (svSet sv k v) k' = svGet sv k' := by
  have hb : (k == k') = false := by simpa using hne
  simp only [svGet, svSet, List.find?_cons, hb]
  congr 2
  rw [List.find?_filter]
  congr 1
  funext e
  by_cases hk' : e.1 = k'
  · simp [hk']
    exact fun h => hne h.symm
  · simp [hk']

theorem fhSingle_inv (kind : FhKind) (m : Fh) (nk : String) (hi : fhInv kind m) : fhSingle kind m nk = svGet m.sv nk := by
  unfold fhSingle
  cases kind with
  | request => simp
  | response => simp [hi.2 rfl]

theorem blankEq_filter (x : Option String) : BlankEq x (x.filter (· != "")) := by
  cases x with
  | none => exact BlankEq.rfl' _
  | some v =>
    by_cases hv : v = ""
    · subst hv; exact Or.inr ⟨rfl, rfl⟩
    · have : (v != "") = true := by simpa using hv
      simp [Option.filter, this]; exact BlankEq.rfl' _

theorem fhPlain_iff (kind : FhKind) (k : String) (h : fhPlain kind k = true) :
    (fhNorm k == kind.cookieKey) = false ∧ kind.ignored.contains (fhNorm k) = false := by
  simp only [fhPlain, Bool.and_eq_true, Bool.not_eq_eq_eq_not, Bool.not_true] at h
  exact ⟨h.1.1, h.1.2⟩

/-- `Set` through the fasthttp layer on a plain name: the dedicated field, or the first ordinary line of the name -/
theorem fhRawSet_plain (kind : FhKind) (m : Fh) (k v : String) (h : fhPlain kind k = true) :
    fhRawSet kind m k v =
      if kind.singles.contains (fhNorm k) then
        { m with sv := svSet m.sv (fhNorm k) (if v == "" then (svGet m.sv (fhNorm k)).map (fun _ => "") else some v) }
      else { m with h := setFirst m.h (fhNorm k) v } := by
  obtain ⟨hc, hg⟩ := fhPlain_iff kind k h
  unfold fhRawSet
  simp only [hc, hg]
  split <;> simp

theorem fhSingle_of (kind : FhKind) (m : Fh) (nk : String) (hn : kind = .response → m.noDefaultCT = true) :
    fhSingle kind m nk = svGet m.sv nk := by
  unfold fhSingle
  cases kind with
  | request => simp
  | response => simp [hn rfl]

theorem fhObs_set_same (kind : FhKind) (m : Fh) (k v : String) (hi : fhInv kind m) (h : fhPlain kind k = true) :
    BlankEq (fhObs kind (fhSet kind m k v) k) (some v) := by
  unfold fhSet fhObs
  by_cases hs : kind.singles.contains (fhNorm k) = true
  · by_cases hv : v = ""
    · subst hv
      simp only [beq_self_eq_true, if_true, fhRawSet_plain _ _ _ _ h, hs]
      rw [fhSingle_of _ _ _ (by simpa using hi.2)]
      simp [svGet_set_same]
      exact Or.inr ⟨rfl, rfl⟩
    · have hb : (v == "") = false := by simpa using hv
      simp only [hb, Bool.false_eq_true, if_false, fhRawSet_plain _ _ _ _ h, hs, if_true]
      rw [fhSingle_of _ _ _ (by simpa using hi.2)]
      have : (v != "") = true := by simpa using hv
      simp [svGet_set_same, Option.filter, this]
      exact BlankEq.rfl' _
  · by_cases hv : v = ""
    · subst hv
      simp only [beq_self_eq_true, if_true, fhRawSet_plain _ _ _ _ h, hs, Bool.false_eq_true, if_false]
      simp [find_setFirst_same]
      exact BlankEq.rfl' _
    · have hb : (v == "") = false := by simpa using hv
      simp only [hb, Bool.false_eq_true, if_false, fhRawSet_plain _ _ _ _ h, hs]
      simp [find_setFirst_same]
      exact BlankEq.rfl' _

theorem fhNorm_ne_of (k k' : String) (hne : fhNorm k ≠ fhNorm k') : (fhNorm k == fhNorm k') = false := by simpa using hne

/-- shape of a map after `fhRawSet` on a plain name, as far as another name's observation goes -/
theorem fhObs_rawSet_other (kind : FhKind) (m : Fh) (k k' v : String) (hi : fhInv kind m) (h : fhPlain kind k = true)
    (hne : fhNorm k ≠ fhNorm k') : fhObs kind (fhRawSet kind m k v) k' = fhObs kind m k' := by
  rw [fhRawSet_plain _ _ _ _ h]
  unfold fhObs
  by_cases hs : kind.singles.contains (fhNorm k) = true
  · simp only [hs, if_true]
    by_cases hs' : kind.singles.contains (fhNorm k') = true
    · simp only [hs', if_true]
      rw [fhSingle_of _ _ _ (by simpa using hi.2), fhSingle_of _ _ _ hi.2, svGet_set_other _ _ _ _ hne]
    · simp only [hs', Bool.false_eq_true, if_false]
  · simp only [hs, Bool.false_eq_true, if_false]
    by_cases hs' : kind.singles.contains (fhNorm k') = true
    · simp only [hs', if_true]
      rw [fhSingle_of _ _ _ (by simpa using hi.2), fhSingle_of _ _ _ hi.2]
    · simp only [hs', Bool.false_eq_true, if_false, find_setFirst_other _ _ _ _ hne]

theorem fhInv_rawSet (kind : FhKind) (m : Fh) (k v : String) (hi : fhInv kind m) (h : fhPlain kind k = true) :
    fhInv kind (fhRawSet kind m k v) := by
  rw [fhRawSet_plain _ _ _ _ h]
  by_cases hs : kind.singles.contains (fhNorm k) = true
  · simp only [hs, if_true]
    exact ⟨hi.1, hi.2⟩
  · simp only [hs, Bool.false_eq_true, if_false]
    refine ⟨?_, hi.2⟩
    intro e he
    have hk : e.1 ∈ (setFirst m.h (fhNorm k) v).map (·.1) := List.mem_map_of_mem he
    rw [keys_setFirst] at hk
    have hin : e.1 ∈ m.h.map (·.1) ∨ e.1 = fhNorm k := by
      split at hk
      · exact Or.inl hk
      · simpa using hk
    rcases hin with hin | hin
    · obtain ⟨e', he', hee⟩ := List.mem_map.mp hin
      rw [← hee]; exact hi.1 e' he'
    · rw [hin]; simpa using hs

theorem fhObs_set_other (kind : FhKind) (m : Fh) (k k' v : String) (hi : fhInv kind m) (h : fhPlain kind k = true)
    (hne : fhNorm k ≠ fhNorm k') : fhObs kind (fhSet kind m k v) k' = fhObs kind m k' := by
  unfold fhSet
  split
  · rw [fhObs_rawSet_other _ _ _ _ _ (fhInv_rawSet _ _ _ _ hi h) h hne, fhObs_rawSet_other _ _ _ _ _ hi h hne]
  · exact fhObs_rawSet_other _ _ _ _ _ hi h hne

theorem fhInv_set (kind : FhKind) (m : Fh) (k v : String) (hi : fhInv kind m) (h : fhPlain kind k = true) :
    fhInv kind (fhSet kind m k v) := by
  unfold fhSet
  split
  · exact fhInv_rawSet _ _ _ _ (fhInv_rawSet _ _ _ _ hi h) h
  · exact fhInv_rawSet _ _ _ _ hi h

/-- `Del` on a plain name: the ordinary lines of the name go, a dedicated field is emptied -/
theorem fhDel_plain (kind : FhKind) (m : Fh) (k : String) (h : fhPlain kind k = true) :
    fhDel kind m k =
      let m' : Fh := { m with h := m.h.filter (fun e => !(e.1 == fhNorm k)) }
      if kind.singles.contains (fhNorm k) then
        (match svGet m.sv (fhNorm k) with
         | some _ => { m' with sv := svSet m.sv (fhNorm k) (some "") }
         | none => m')
      else m' := by
  obtain ⟨hc, _⟩ := fhPlain_iff kind k h
  unfold fhDel
  simp only [hc]
  split
  · rfl
  · simp

theorem fhInv_del (kind : FhKind) (m : Fh) (k : String) (hi : fhInv kind m) (h : fhPlain kind k = true) :
    fhInv kind (fhDel kind m k) := by
  rw [fhDel_plain _ _ _ h]
  have hf : ∀ e ∈ m.h.filter (fun e => !(e.1 == fhNorm k)), kind.singles.contains e.1 = false :=
    fun e he => hi.1 e (List.mem_filter.mp he).1
  simp only
  split
  · split
    · exact ⟨hf, hi.2⟩
    · exact ⟨hf, hi.2⟩
  · exact ⟨hf, hi.2⟩

theorem fhObs_del_same (kind : FhKind) (m : Fh) (k : String) (hi : fhInv kind m) (h : fhPlain kind k = true) :
    fhObs kind (fhDel kind m k) k = none := by
  rw [fhDel_plain _ _ _ h]
  unfold fhObs
  by_cases hs : kind.singles.contains (fhNorm k) = true
  · simp only [hs, if_true]
    cases hg : svGet m.sv (fhNorm k) with
    | none =>
      simp only
      rw [fhSingle_of _ _ _ (by simpa using hi.2)]
      simp [hg]
    | some x =>
      simp only
      rw [fhSingle_of _ _ _ (by simpa using hi.2)]
      simp [svGet_set_same]
  · simp only [hs, Bool.false_eq_true, if_false, find_filter_ne_same]
    rfl

theorem fhObs_del_other (kind : FhKind) (m : Fh) (k k' : String) (hi : fhInv kind m) (h : fhPlain kind k = true)
    (hne : fhNorm k ≠ fhNorm k') : fhObs kind (fhDel kind m k) k' = fhObs kind m k' := by
  rw [fhDel_plain _ _ _ h]
  unfold fhObs
  by_cases hs' : kind.singles.contains (fhNorm k') = true
  · simp only [hs', if_true]
    by_cases hs : kind.singles.contains (fhNorm k) = true
    · simp only [hs, if_true]
      cases hg : svGet m.sv (fhNorm k) with
      | none =>
        simp only
        rw [fhSingle_of _ _ _ (by simpa using hi.2), fhSingle_of _ _ _ hi.2]
      | some x =>
        simp only
        rw [fhSingle_of _ _ _ (by simpa using hi.2), fhSingle_of _ _ _ hi.2, svGet_set_other _ _ _ _ hne]
    · simp only [hs, Bool.false_eq_true, if_false]
      rw [fhSingle_of _ _ _ (by simpa using hi.2), fhSingle_of _ _ _ hi.2]
  · simp only [hs', Bool.false_eq_true, if_false]
    by_cases hs : kind.singles.contains (fhNorm k) = true
    · simp only [hs, if_true]
      cases hg : svGet m.sv (fhNorm k) <;> simp only [find_filter_ne_other _ _ _ hne]
    · simp only [hs, Bool.false_eq_true, if_false, find_filter_ne_other _ _ _ hne]

theorem fhGet_obs (kind : FhKind) (m : Fh) (k : String) (h : fhPlain kind k = true) :
    BlankEq (fhGet kind m k) (fhObs kind m k) := by
  obtain ⟨hc, _⟩ := fhPlain_iff kind k h
  unfold fhGet fhObs
  simp only [hc]
  split
  · exact blankEq_filter _
  · exact BlankEq.rfl' _

/-- the fasthttp request / response header satisfies the laws on plain names (every name but the cookie header, the
swallowed and the unmodelled framing names), for what the printed header shows first under a name; exact but for one
case: a dedicated field set to the empty value is not printed (`set_same` up to blank) -/
theorem fh_laws (kind : FhKind) : HeaderMapLaws (fh kind) (fhInv kind) (fun k => fhPlain kind k = true) (fhObs kind) where
  inv_set := fun m k v hm hk => fhInv_set kind m k v hm hk
  inv_del := fun m k hm hk => fhInv_del kind m k hm hk
  obs_norm := fun m k k' h => by simp only [fh] at h; simp [fhObs, h]
  get_obs := fun m k _ hk => fhGet_obs kind m k hk
  set_same := fun m k v hm hk => fhObs_set_same kind m k v hm hk
  set_other := fun m k k' v hm hk hn => fhObs_set_other kind m k k' v hm hk hn
  del_same := fun m k hm hk => BlankEq.of_eq (fhObs_del_same kind m k hm hk)
  del_other := fun m k k' hm hk hn => fhObs_del_other kind m k k' hm hk hn

/-! ### the observation is what the map prints -/

theorem find_filterMap_keys (ks : List String) (g : String → Option String) (nk : String) (hd : ks.Nodup) :
    (ks.filterMap (fhShowSingle g)).find? (fun e => e.1 == nk) =
      if ks.contains nk then ((g nk).filter (· != "")).map (fun v => (nk, v)) else none := by
  induction ks with
  | nil => rfl
  | cons a r ih =>
    simp only [List.nodup_cons] at hd
    have ih' := ih hd.2
    rw [List.filterMap_cons, List.contains_cons]
    unfold fhShowSingle at ih' ⊢
    by_cases ha : a = nk
    · subst ha
      have hnr : r.contains a = false := by simpa using hd.1
      rw [hnr] at ih'
      simp only [Bool.false_eq_true, if_false] at ih'
      simp only [beq_self_eq_true, Bool.true_or, if_true]
      cases hg : g a with
      | none => simp only [Option.filter, Option.map]; exact ih'
      | some v =>
        by_cases hv : v = ""
        · subst hv
          simp only [beq_self_eq_true, if_true]
          rw [ih']; rfl
        · have hb : (v == "") = false := by simpa using hv
          have hb' : (v != "") = true := by simpa using hv
          simp only [hb, Bool.false_eq_true, if_false, List.find?_cons, beq_self_eq_true, Option.filter, hb', if_true, Option.map]
    · have hb : (nk == a) = false := by simpa using fun h => ha h.symm
      have hb2 : (a == nk) = false := by simpa using ha
      simp only [hb, Bool.false_or]
      cases hg : g a with
      | none => exact ih'
      | some v =>
        by_cases hv : v = ""
        · subst hv
          simp only [beq_self_eq_true, if_true]
          exact ih'
        · have hbv : (v == "") = false := by simpa using hv
          simp only [hbv, Bool.false_eq_true, if_false, List.find?_cons, hb2]
          exact ih'

theorem singles_nodup (kind : FhKind) : kind.singles.Nodup := by cases kind <;> decide

theorem cookieKey_not_single (kind : FhKind) : kind.singles.contains kind.cookieKey = false := by cases kind <;> decide

/-- for a plain name, the first line the printed fasthttp header shows under it is `fhObs` -/
theorem fh_look_eq_obs (kind : FhKind) (m : Fh) (k : String) (hi : fhInv kind m) (h : fhPlain kind k = true) :
    look (fh kind) m k = fhObs kind m k := by
  obtain ⟨hc, _⟩ := fhPlain_iff kind k h
  have hck : ¬ kind.cookieKey = fhNorm k := fun e => by simp [e] at hc
  -- the ordinary lines, with or without the request's Cookie lines, show the same under a name that is not Cookie
  have hcol : ∀ (hh : List (String × String)), kind = .request →
      (hh.filter (fun e => !(e.1 == "Cookie"))).find? (fun e => e.1 == fhNorm k) = hh.find? (fun e => e.1 == fhNorm k) := by
    intro hh hk
    apply find_filter_ne_other
    subst hk
    exact hck
  have hnone : kind.singles.contains (fhNorm k) = true → m.h.find? (fun e => e.1 == fhNorm k) = none := by
    intro hs
    rw [List.find?_eq_none]
    intro e he hek
    have := hi.1 e he
    simp only [beq_iff_eq] at hek
    rw [hek, hs] at this
    exact absurd this (by decide)
  unfold look fhObs
  simp only [fh, fhRange]
  cases kind with
  | request =>
    simp only [List.find?_append, find_filterMap_keys _ _ _ (singles_nodup .request)]
    have hcl : ∀ (c : List (String × String)),
        (if c.isEmpty then ([] : List (String × String)) else [("Cookie", showCookies c)]).find? (fun e => e.1 == fhNorm k) = none := by
      intro c
      split
      · rfl
      · have : ("Cookie" == fhNorm k) = false := by simpa [FhKind.cookieKey] using hck
        simp [List.find?_cons, this]
    rw [hcl]
    have hh : (fhCollect m).h.find? (fun e => e.1 == fhNorm k) = m.h.find? (fun e => e.1 == fhNorm k) := by
      unfold fhCollect
      split
      · rfl
      · exact hcol _ rfl
    rw [hh]
    by_cases hs : FhKind.request.singles.contains (fhNorm k) = true
    · simp only [hs, if_true, hnone hs]
      cases ((fhSingle .request m (fhNorm k)).filter (· != "")) <;> simp
    · simp only [hs, Bool.false_eq_true, if_false]
      simp
  | response =>
    simp only [List.find?_append, find_filterMap_keys _ _ _ (singles_nodup .response)]
    have hcl : (m.cookies.map (fun c => ("Set-Cookie", c.2))).find? (fun e => e.1 == fhNorm k) = none := by
      rw [List.find?_eq_none]
      intro e he
      obtain ⟨c, _, hce⟩ := List.mem_map.mp he
      have : ("Set-Cookie" == fhNorm k) = false := by simpa [FhKind.cookieKey] using hck
      simp [← hce, this]
    rw [hcl]
    by_cases hs : FhKind.response.singles.contains (fhNorm k) = true
    · simp only [hs, if_true, hnone hs]
      cases ((fhSingle .response m (fhNorm k)).filter (· != "")) <;> simp
    · simp only [hs, Bool.false_eq_true, if_false]
      simp

/-! ### repeated values: what an overwrite leaves -/

/-- an addition with append off: delete, then set (regenerated `addStep`, both outcomes of `Get`) -/
theorem applyAdd_overwrite (I : HMap M) (m : M) (a : Add) (ha : a.append = false) :
    applyAdd I m a = I.set (I.del m a.name) a.name a.value := by
  simp only [applyAdd, addStep_eq, HMap.ops, ha]
  cases I.get m a.name <;> simp

theorem filter_setFirst (l : List (String × String)) (k v : String) :
    (setFirst l k v).filter (fun e => e.1 == k) =
      match l.filter (fun e => e.1 == k) with
      | [] => [(k, v)]
      | _ :: r => (k, v) :: r := by
  induction l with
  | nil => simp [setFirst]
  | cons e r ih =>
    unfold setFirst
    by_cases he : e.1 = k
    · simp [he, List.filter_cons]
    · have hb : (e.1 == k) = false := by simpa using he
      simp only [hb, Bool.false_eq_true, if_false, List.filter_cons, ih]

theorem filter_filter_ne (l : List (String × String)) (k : String) :
    (l.filter (fun e => !(e.1 == k))).filter (fun e => e.1 == k) = [] := by
  rw [List.filter_eq_nil_iff]
  intro e he
  simpa using (List.mem_filter.mp he).2

/-- the ordinary lines a fasthttp header holds under a name -/
def fhLines (m : Fh) (nk : String) : List String := (m.h.filter (fun e => e.1 == nk)).map (·.2)

/-- **overwrite on fasthttp, any number of repeated lines**: after an addition with append off exactly one line of the
name is left, carrying the configured value (plain names without a dedicated field) -/
theorem fh_overwrite_one_line (kind : FhKind) (m : Fh) (a : Add) (ha : a.append = false)
    (h : fhPlain kind a.name = true) (hs : kind.singles.contains (fhNorm a.name) = false) :
    fhLines (applyAdd (fh kind) m a) (fhNorm a.name) = [a.value] := by
  rw [applyAdd_overwrite _ _ _ ha]
  simp only [fh, fhSet, fhLines]
  rw [fhDel_plain _ _ _ h]
  simp only [hs, Bool.false_eq_true, if_false]
  split
  · rename_i hv
    have hv' : a.value = "" := by simpa using hv
    rw [fhRawSet_plain _ _ _ _ h, fhRawSet_plain _ _ _ _ h]
    simp only [hs, Bool.false_eq_true, if_false, filter_setFirst, filter_filter_ne, hv']
    rfl
  · rw [fhRawSet_plain _ _ _ _ h]
    simp only [hs, Bool.false_eq_true, if_false, filter_setFirst, filter_filter_ne]
    rfl

/-- **overwrite on net/http.Header**: exactly the configured value is left under the name, whatever list was there -/
theorem h2_overwrite_one_value (m : H2) (a : Add) (ha : a.append = false) :
    vals h2 (applyAdd h2 m a) a.name = [a.value] := by
  rw [applyAdd_overwrite _ _ _ ha]
  simp only [vals, h2, h2Range, h2Set, h2Del, List.flatMap_cons, List.map_cons, List.map_nil, List.filterMap_append,
    List.filterMap_cons, List.filterMap_nil, beq_self_eq_true, if_true, List.singleton_append]
  congr 1
  rw [List.filterMap_eq_nil_iff]
  intro e he
  obtain ⟨x, hx, hxe⟩ := List.mem_flatMap.mp he
  have hk : ¬ x.1 = h2Norm a.name := by simpa using (List.mem_filter.mp hx).2
  obtain ⟨v, _, hve⟩ := List.mem_map.mp hxe
  rw [← hve]
  simp [hk]

theorem fhNorm_cookie : fhNorm "cookie" = "Cookie" := by decide

/-- **overwrite of the request cookies** (since fix 4b5fb7c1c deletes first): exactly the configured cookies are left —
`Set` alone would have added them to the client's -/
theorem fh_cookie_overwrite (m : Fh) (v : String) (hv : v ≠ "") :
    (applyAdd (fh .request) m ⟨"cookie", v, false⟩).cookies = parseCookies v ∧
    (applyAdd (fh .request) m ⟨"cookie", v, false⟩).h.filter (fun e => e.1 == "Cookie") = [] := by
  rw [applyAdd_overwrite _ _ _ rfl]
  have hb : (v == "") = false := by simpa using hv
  have hs : FhKind.request.singles.contains "Cookie" = false := by decide
  have hc : FhKind.request.cookieKey = "Cookie" := rfl
  simp only [fh, fhSet, hb, Bool.false_eq_true, if_false, fhRawSet, fhDel, fhNorm_cookie, hs, hc, beq_self_eq_true, if_true]
  unfold fhCollect
  simp only
  split
  · simp [filter_filter_ne]
  · have : (List.filter (fun e => e.1 == "Cookie") (List.filter (fun e => !(e.1 == "Cookie")) m.h)) = [] := filter_filter_ne _ _
    simp [this, filter_filter_ne]

/-! ### rules built from configuration -/
section built
open MosnVerif.Model.HeaderWiring MosnVerif.Gen.HeaderWiring

theorem evaluate_empty (I : HMap M) (m : M) : evaluate I ⟨[], []⟩ m = m := rfl

theorem evaluateOpt_getHeaderParser (I : HMap M) (a : Option (List Add)) (r : Option (List String)) (m : M) :
    evaluateOpt I (getHeaderParser a r) m = evaluate I ⟨a.getD [], r.getD []⟩ m := by
  unfold getHeaderParser
  by_cases hn : parserIsNil a.isNone r.isNone = true
  · obtain ⟨ha, hr⟩ := parserIsNil_sound _ _ hn
    cases a <;> cases r <;> simp_all [evaluateOpt, evaluate_empty]
  · simp [hn, evaluateOpt]

theorem evaluateOpt_built (I : HMap M) (c : Config) (lv : Level) (d : Dir) (m : M) :
    evaluateOpt I (builtParser parserWiring c lv d) m = evaluate I ((dirLevels c d).at lv) m := by
  have hl := lookup_parserWiring lv d
  unfold lookup at hl
  unfold builtParser
  rw [hl]
  cases lv <;> cases d <;>
    simp [diagonalRow, evaluateOpt_getHeaderParser, Config.at, LevelCfg.adds, LevelCfg.removes, dirLevels, Levels.at]

/-- on every protocol map: the rule built from configuration applies exactly that direction's mutations, level by level -/
theorem finalizeBuilt_eq (I : HMap M) (c : Config) (d : Dir) (m : M) :
    finalizeBuilt I c d m = finalize I (orderOf d) (dirLevels c d) m := by
  unfold finalizeBuilt finalize
  generalize orderOf d = order
  induction order generalizing m with
  | nil => rfl
  | cons lv r ih => simp only [List.foldl_cons]; rw [evaluateOpt_built, ih]

theorem orderOf_eq (d : Dir) : orderOf d = [.route, .vhost, .router] := by
  cases d <;> decide

end built

end MosnVerif.Model.HeaderMaps
