import MosnVerif.Model.DispatchLoop
/-! helper lemmas of C08 `dispatch_terminates`: the measure is the length of the read buffer. -/
namespace MosnVerif.Lemmas.DispatchLoop
open MosnVerif.Model.DispatchLoop

theorem run_sound (p : Policy) (dec : List UInt8 → DStep) :
    ∀ (fuel : Nat) (c c' : Cfg), run p dec fuel c = some c' → Returns p dec c c' := by
  intro fuel
  induction fuel with
  | zero => intro c c' h; simp [run] at h
  | succ f ih =>
    intro c c' h
    simp only [run] at h
    by_cases ht : (turn p dec c).2 = true
    · rw [if_pos ht] at h
      exact Returns.more ht (ih _ _ h)
    · rw [if_neg ht] at h
      have hf : (turn p dec c).2 = false := by simpa using ht
      have : (turn p dec c).1 = c' := by simpa using h
      subst this
      exact Returns.done hf

/-- the variant: with a safe policy and a decoder that makes progress, a turn that goes round again has shortened the
buffer; every turn makes at most one Decode call and never one on an empty buffer -/
theorem turn_measure (p : Policy) (dec : List UInt8 → DStep) (hp : p.Safe) (hd : Progress dec) (c : Cfg)
    (ha : (turn p dec c).2 = true) :
    (turn p dec c).1.buf.length < c.buf.length ∧ (turn p dec c).1.calls = c.calls + 1 := by
  obtain ⟨h1, h2, h3, h4⟩ := hp
  unfold turn at ha ⊢
  by_cases he : c.buf.isEmpty = true
  · simp [he, h1] at ha
  · simp only [he] at ha ⊢
    have hne : 0 < c.buf.length := by
      cases hb : c.buf with
      | nil => simp [hb] at he
      | cons a t => simp
    cases hs : dec c.buf with
    | needMore => simp [hs, h2] at ha
    | error k => simp [hs, h3] at ha
    | badType n => simp [hs, h4] at ha
    | frame n =>
      have := hd _ _ hs
      simp [List.length_drop]
      omega

theorem turn_calls (p : Policy) (dec : List UInt8 → DStep) (c : Cfg) :
    (turn p dec c).1.calls ≤ c.calls + (if c.buf.isEmpty then 0 else 1) := by
  unfold turn
  by_cases he : c.buf.isEmpty = true
  · simp [he]
  · simp only [he]
    cases dec c.buf <;> simp

theorem turn_buf_le (p : Policy) (dec : List UInt8 → DStep) (c : Cfg) :
    (turn p dec c).1.buf.length ≤ c.buf.length := by
  unfold turn
  by_cases he : c.buf.isEmpty = true
  · simp [he]
  · simp only [he]
    cases dec c.buf <;> simp [List.length_drop]

/-- the loop returns within `|buf| + 1` turns, after at most `|buf|` Decode calls, never enlarging the buffer -/
theorem run_terminates (p : Policy) (dec : List UInt8 → DStep) (hp : p.Safe) (hd : Progress dec) :
    ∀ (n : Nat) (c : Cfg), c.buf.length ≤ n →
      ∃ c', run p dec (n + 1) c = some c' ∧ c'.calls ≤ c.calls + c.buf.length ∧ c'.buf.length ≤ c.buf.length := by
  intro n
  induction n with
  | zero =>
    intro c hc
    have hnil : c.buf = [] := by
      cases hb : c.buf with
      | nil => rfl
      | cons a t => simp [hb] at hc
    refine ⟨c, ?_, by omega, by omega⟩
    simp [run, turn, hnil, hp.1]
  | succ n ih =>
    intro c hc
    by_cases ht : (turn p dec c).2 = true
    · obtain ⟨hlt, hcalls⟩ := turn_measure p dec hp hd c ht
      obtain ⟨c', hr, hb, hl⟩ := ih (turn p dec c).1 (by omega)
      refine ⟨c', ?_, by omega, by omega⟩
      simp only [run]
      rw [if_pos ht]
      exact hr
    · refine ⟨(turn p dec c).1, ?_, ?_, turn_buf_le p dec c⟩
      · simp only [run]
        rw [if_neg ht]
      · have := turn_calls p dec c
        by_cases he : c.buf.isEmpty = true
        · simp [he] at this; omega
        · have hne : 0 < c.buf.length := by
            cases hb : c.buf with
            | nil => simp [hb] at he
            | cons a t => simp
          simp [he] at this; omega

/-- a buffer that a turn reproduces with "again" is never left: Dispatch does not return -/
theorem fixed_point_diverges (p : Policy) (dec : List UInt8 → DStep) (buf : List UInt8)
    (hfix : ∀ k, (turn p dec ⟨buf, k⟩) = (⟨buf, k + 1⟩, true)) :
    ∀ c0 c', Returns p dec c0 c' → c0.buf = buf → False := by
  intro c0 c' h
  induction h with
  | @done c1 hf =>
    intro hb
    obtain ⟨b, k⟩ := c1
    have hb' : b = buf := hb
    rw [hb', hfix k] at hf
    exact Bool.noConfusion hf
  | @more c1 c2 ha _ ih =>
    intro hb
    obtain ⟨b, k⟩ := c1
    have hb' : b = buf := hb
    apply ih
    rw [hb', hfix k]

end MosnVerif.Lemmas.DispatchLoop
