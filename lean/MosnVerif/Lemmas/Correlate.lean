import MosnVerif.Lemmas.StreamTable
import MosnVerif.Model.CorrelateSpec
/-! C02 end-to-end helper lemmas: what an operation of the upstream stream table leaves alone; the regenerated id
operations restore the stream's own id; the invariant of the composed system along every run. Core Lean only. -/
namespace MosnVerif.Model.StreamTable
open MosnVerif.Gen.StreamIds

/-! ### frame lemmas of the client stream table -/
theorem nW_newStream (c : Conn) (o : Bool) : (step c (.newStream o)).nW = c.nW + 1 := by
  rw [step_newStream]; split <;> rfl

theorem waiter_newStream (c : Conn) (o : Bool) (k : Nat) (hk : k ≠ c.nW) :
    (step c (.newStream o)).waiter k = c.waiter k := by
  rw [step_newStream]; split <;> simp [allocated, hk]

theorem waiter_newStream_new (c : Conn) (o : Bool) :
    ((step c (.newStream o)).waiter c.nW).id = (gen c.proto c.base).2 ∧ ((step c (.newStream o)).waiter c.nW).got = [] := by
  rw [step_newStream]; split <;> simp [allocated]

theorem step_reply_some (c : Conn) (id : Int) (tok w : Nat) (h : lookup c.table id = some w) :
    step c (.reply id tok) =
      ({ c with table := erase c.table id }).updW w (fun x => { x with live := false, got := x.got ++ [(id, tok)] }) := by
  simp [step, h]

theorem reply_fields (c : Conn) (id : Int) (tok w : Nat) (h : lookup c.table id = some w) :
    (step c (.reply id tok)).nW = c.nW ∧
    (∀ k, ((step c (.reply id tok)).waiter k).id = (c.waiter k).id) ∧
    (∀ k, k ≠ w → ((step c (.reply id tok)).waiter k).got = (c.waiter k).got) ∧
    ((step c (.reply id tok)).waiter w).got = (c.waiter w).got ++ [(id, tok)] := by
  rw [step_reply_some c id tok w h]
  refine ⟨rfl, ?_, ?_, ?_⟩
  · intro k; simp only [Conn.updW]; split
    · rename_i hk; subst hk; rfl
    · rfl
  · intro k hk; simp [Conn.updW, hk]
  · simp [Conn.updW]

theorem reset_fields (c : Conn) (w : Nat) :
    (step c (.resetStream w)).nW = c.nW ∧
    ∀ k, ((step c (.resetStream w)).waiter k).id = (c.waiter k).id ∧ ((step c (.resetStream w)).waiter k).got = (c.waiter k).got := by
  simp only [step]
  split
  · have hf := baseReset_fields (if resetDeletes clientStream (c.waiter w).connReset = true then
        { c with table := erase c.table (c.waiter w).id } else c) w
    refine ⟨?_, ?_⟩
    · rw [hf.2.1]; split <;> rfl
    · intro k; rw [(hf.2.2.2.2 k).1, (hf.2.2.2.2 k).2]; split <;> exact ⟨rfl, rfl⟩
  · exact ⟨rfl, fun _ => ⟨rfl, rfl⟩⟩

theorem connReset_fields (c : Conn) :
    (step c .connReset).nW = c.nW ∧
    ∀ k, ((step c .connReset).waiter k).id = (c.waiter k).id ∧ ((step c .connReset).waiter k).got = (c.waiter k).got := by
  have hf := resetAll_fields c.table c
  exact ⟨hf.2.1, hf.2.2.2.2⟩

/-- a stream reset by its user (not by a connection reset) is gone from the table -/
theorem lookup_after_reset (c : Conn) (w : Nat) (hw : w < c.nW) (hcr : (c.waiter w).connReset = false) :
    lookup (step c (.resetStream w)).table (c.waiter w).id = none := by
  simp only [step, hw, if_true, hcr]
  have hd : resetDeletes clientStream false = true := by decide
  simp only [hd, if_true]
  rw [(baseReset_fields _ w).1]
  show lookup (erase c.table (c.waiter w).id) (c.waiter w).id = none
  rw [lookup_erase]; simp

end MosnVerif.Model.StreamTable

namespace MosnVerif.Model.Correlate
open MosnVerif.Model.StreamTable MosnVerif.Gen.StreamRestore MosnVerif.Gen.StreamIds

/-! ### the regenerated id operations -/
/-- whatever came before: when the LAST id operation applied to the frame is `SetRequestId(s.id)`, the frame goes out
with the stream's own id -/
theorem applyOps_last (alias : Bool) (sid req cur : Int) (ops : List IdOp) (h : ops.getLast? = some .setStreamId) :
    applyOps alias sid req cur ops = sid := by
  induction ops generalizing cur with
  | nil => simp at h
  | cons o r ih =>
    cases r with
    | nil =>
      simp at h; subst h; simp [applyOps]
    | cons o' r' =>
      have h' : (o' :: r').getLast? = some .setStreamId := by
        rw [List.getLast?_cons_cons] at h; exact h
      cases o <;> simp only [applyOps] <;> exact ih _ h'

/-- **id restoration** (about the regenerated `SetRequestId` placement): whatever frame a stream is handed — a response
from upstream, the request frame for a hijack reply, the request frame to be forwarded — and whatever id that frame
currently carries, the frame it writes carries the stream's own id. -/
theorem written_restores (dir sid st fid : Int) (b : Bool) : writtenId dir sid st fid b = sid := by
  unfold writtenId
  cases b <;> by_cases h : hijackBranch dir st = true <;>
    simp only [h, if_true, if_false, Bool.false_eq_true] <;> (apply applyOps_last; decide)

theorem serverStreamId_eq (x : Int) : serverStreamId x = x := rfl
theorem responseKey_eq (x : Int) : responseKey x = x := rfl


/-! ### the invariant of the composed system -/
structure Inv (s : Sys) (p : Proto) (b0 : Int) : Prop where
  tinv : TInv s.up
  idinv : IdInv s.up p b0
  ownLt : ∀ w, w < s.up.nW → s.owner w < s.nE
  cur : ∀ k w, k < s.nE → (s.ex k).cur = some w → w < s.up.nW ∧ s.owner w = k ∧ (s.ex k).done = false
  sid : ∀ k, k < s.nE → (s.ex k).sid = (s.ex k).did
  wireLen : s.wire.length = s.up.nW
  wire : ∀ w, w < s.up.nW → s.wire[w]? = some ((s.up.waiter w).id, (s.ex (s.owner w)).tok)
  frames : ∀ f, f ∈ s.down → f.ex < s.nE ∧ f.id = (s.ex f.ex).did ∧ (s.ex f.ex).done = true ∧ f.pay ≠ .mixed ∧
      ∀ t, f.pay = .ok t → ∃ w, f.via = some w ∧ w < s.up.nW ∧ s.owner w = f.ex ∧
        (s.up.waiter w).got = [((s.up.waiter w).id, t)]
  exNodup : (s.down.map (·.ex)).Nodup

theorem inv_init (p : Proto) (b : Int) : Inv (init p b) p (u64 b) where
  tinv := tinv_init p b
  idinv := ⟨rfl, rfl, fun w hw => by simp [init, StreamTable.init] at hw⟩
  ownLt := fun w hw => by simp [init, StreamTable.init] at hw
  cur := fun k w hk => by simp [init] at hk
  sid := fun k hk => by simp [init] at hk
  wireLen := rfl
  wire := fun w hw => by simp [init, StreamTable.init] at hw
  frames := fun f hf => by simp [init] at hf
  exNodup := by simp [init]

/-- the common shape of `reply`, `abandon`, `fail`, `connReset`: the table changes without creating stream objects,
exchanges only move towards `done`, at most one frame is written, for an exchange that was not done -/
theorem inv_update {s : Sys} {p : Proto} {b0 : Int} (h : Inv s p b0) (up' : Conn) (ex' : Nat → Exch) (nf : List DFrame)
    (ht : TInv up') (hi : IdInv up' p b0) (hn : up'.nW = s.up.nW)
    (hgot : ∀ w, w < s.up.nW → (s.up.waiter w).got ≠ [] → (up'.waiter w).got = (s.up.waiter w).got)
    (hfix : ∀ j, (ex' j).did = (s.ex j).did ∧ (ex' j).tok = (s.ex j).tok ∧ (ex' j).sid = (s.ex j).sid)
    (hmono : ∀ j, (s.ex j).done = true → (ex' j).done = true)
    (hcur : ∀ j w, j < s.nE → (ex' j).cur = some w → (s.ex j).cur = some w ∧ (ex' j).done = false)
    (hnf : nf = [] ∨ ∃ f0, nf = [f0] ∧ f0.ex < s.nE ∧ (s.ex f0.ex).done = false ∧ (ex' f0.ex).done = true ∧
        f0.id = (s.ex f0.ex).did ∧ f0.pay ≠ .mixed ∧
        ∀ t, f0.pay = .ok t → ∃ w, f0.via = some w ∧ w < s.up.nW ∧ s.owner w = f0.ex ∧
          (up'.waiter w).got = [((up'.waiter w).id, t)]) :
    Inv { s with up := up', ex := ex', down := s.down ++ nf } p b0 := by
  have hid : ∀ w, w < s.up.nW → (up'.waiter w).id = (s.up.waiter w).id := by
    intro w hw; rw [hi.ids w (hn ▸ hw), h.idinv.ids w hw]
  refine ⟨ht, hi, ?_, ?_, ?_, ?_, ?_, ?_, ?_⟩
  · intro w hw; exact h.ownLt w (hn ▸ hw)
  · intro k w hk hc
    have ⟨hc1, hc2⟩ := hcur k w hk hc
    have ⟨a, b, _⟩ := h.cur k w hk hc1
    exact ⟨hn ▸ a, b, hc2⟩
  · intro k hk
    show (ex' k).sid = (ex' k).did
    rw [(hfix k).2.2, (hfix k).1]; exact h.sid k hk
  · show s.wire.length = up'.nW
    rw [hn]; exact h.wireLen
  · intro w hw
    have hw' : w < s.up.nW := hn ▸ hw
    show s.wire[w]? = some ((up'.waiter w).id, (ex' (s.owner w)).tok)
    rw [hid w hw', (hfix _).2.1]; exact h.wire w hw'
  · intro f hf
    show f.ex < s.nE ∧ f.id = (ex' f.ex).did ∧ (ex' f.ex).done = true ∧ f.pay ≠ .mixed ∧
      ∀ t, f.pay = .ok t → ∃ w, f.via = some w ∧ w < up'.nW ∧ s.owner w = f.ex ∧ (up'.waiter w).got = [((up'.waiter w).id, t)]
    have hf' : f ∈ s.down ∨ f ∈ nf := List.mem_append.mp hf
    rcases hf' with hf' | hf'
    · have ⟨a, b, c, d, e⟩ := h.frames f hf'
      refine ⟨a, by rw [(hfix _).1]; exact b, hmono _ c, d, ?_⟩
      intro t ht'
      obtain ⟨w, w1, w2, w3, w4⟩ := e t ht'
      refine ⟨w, w1, hn ▸ w2, w3, ?_⟩
      rw [hgot w w2 (by rw [w4]; simp), hid w w2]; exact w4
    · rcases hnf with hnf | ⟨f0, hnf, a, _, c, d, e, g⟩
      · rw [hnf] at hf'; simp at hf'
      · rw [hnf] at hf'; simp at hf'; subst hf'
        refine ⟨a, by rw [(hfix _).1]; exact d, c, e, ?_⟩
        intro t ht'
        obtain ⟨w, w1, w2, w3, w4⟩ := g t ht'
        exact ⟨w, w1, hn ▸ w2, w3, w4⟩
  · show ((s.down ++ nf).map (·.ex)).Nodup
    rcases hnf with hnf | ⟨f0, hnf, _, b, _⟩
    · rw [hnf, List.append_nil]; exact h.exNodup
    · rw [hnf, List.map_append, List.nodup_append]
      refine ⟨h.exNodup, by simp, ?_⟩
      intro a ha b' hb
      simp at hb; subst hb
      obtain ⟨f, hf, hfe⟩ := List.mem_map.mp ha
      intro heq
      have := (h.frames f hf).2.2.1
      rw [hfe, heq] at this
      rw [this] at b; cases b


theorem notSetBase_reset (w : Nat) : (Op.resetStream w).isSetBase = false := rfl

theorem inv_connReset {s : Sys} {p : Proto} {b0 : Int} (h : Inv s p b0) : Inv (step s .connReset) p b0 := by
  have hf := connReset_fields s.up
  have := inv_update h (StreamTable.step s.up .connReset) s.ex []
    (tinv_step _ h.tinv _) (idinv_step _ _ _ h.idinv _ rfl) hf.1
    (fun w _ _ => (hf.2 w).2) (fun _ => ⟨rfl, rfl, rfl⟩) (fun _ hd => hd)
    (fun j w hj hc => ⟨hc, (h.cur j w hj hc).2.2⟩) (Or.inl rfl)
  simpa [step] using this

/-- `inv_update` for an update of ONE exchange that keeps the identity of its request, clears `cur` and never
un-does `done` -/
theorem inv_update_at {s : Sys} {p : Proto} {b0 : Int} (h : Inv s p b0) (up' : Conn) (k : Nat) (e' : Exch) (nf : List DFrame)
    (ht : TInv up') (hi : IdInv up' p b0) (hn : up'.nW = s.up.nW)
    (hgot : ∀ w, w < s.up.nW → (s.up.waiter w).got ≠ [] → (up'.waiter w).got = (s.up.waiter w).got)
    (hk : k < s.nE) (hd : e'.did = (s.ex k).did) (htk : e'.tok = (s.ex k).tok) (hs : e'.sid = (s.ex k).sid)
    (hm : (s.ex k).done = true → e'.done = true) (hc : e'.cur = none)
    (hnf : nf = [] ∨ ∃ f0, nf = [f0] ∧ f0.ex = k ∧ (s.ex k).done = false ∧ e'.done = true ∧
        f0.id = (s.ex k).did ∧ f0.pay ≠ .mixed ∧
        ∀ t, f0.pay = .ok t → ∃ w, f0.via = some w ∧ w < s.up.nW ∧ s.owner w = k ∧
          (up'.waiter w).got = [((up'.waiter w).id, t)]) :
    Inv { (s.setEx k e') with up := up', down := s.down ++ nf } p b0 := by
  have := inv_update h up' (fun j => if j = k then e' else s.ex j) nf ht hi hn hgot ?_ ?_ ?_ ?_
  · exact this
  · intro j; by_cases hj : j = k
    · subst hj; simp [hd, htk, hs]
    · simp [hj]
  · intro j hdn; by_cases hj : j = k
    · subst hj; simp; exact hm hdn
    · simp [hj]; exact hdn
  · intro j w hjn hcw; by_cases hj : j = k
    · subst hj; simp [hc] at hcw
    · simp only [hj, if_false] at hcw ⊢; exact ⟨hcw, (h.cur j w hjn hcw).2.2⟩
  · rcases hnf with hnf | ⟨f0, a, b, c, d, e, f, g⟩
    · exact Or.inl hnf
    · refine Or.inr ⟨f0, a, b ▸ hk, b ▸ c, ?_, b ▸ e, f, ?_⟩
      · simp [b]; exact d
      · intro t ht'; obtain ⟨w, w1, w2, w3, w4⟩ := g t ht'; exact ⟨w, w1, w2, b ▸ w3, w4⟩

theorem inv_abandon {s : Sys} {p : Proto} {b0 : Int} (h : Inv s p b0) (k : Nat) : Inv (step s (.abandon k)) p b0 := by
  simp only [step]
  cases hc : (s.ex k).cur with
  | none => exact h
  | some w =>
    simp only []
    by_cases hg : k < s.nE ∧ (s.ex k).done = false
    · rw [if_pos hg]
      have hf := reset_fields s.up w
      have := inv_update_at h (StreamTable.step s.up (.resetStream w)) k { s.ex k with cur := none } []
        (tinv_step _ h.tinv _) (idinv_step _ _ _ h.idinv _ rfl) hf.1 (fun v _ _ => (hf.2 v).2)
        hg.1 rfl rfl rfl (fun hd => hd) rfl (Or.inl rfl)
      simp only [List.append_nil] at this; exact this
    · rw [if_neg hg]; exact h

theorem inv_fail {s : Sys} {p : Proto} {b0 : Int} (h : Inv s p b0) (k : Nat) : Inv (step s (.fail k)) p b0 := by
  simp only [step]
  by_cases hg : k < s.nE ∧ (s.ex k).done = false
  · rw [if_pos hg]
    have hup : TInv (match (s.ex k).cur with | some w => StreamTable.step s.up (.resetStream w) | none => s.up) ∧
        IdInv (match (s.ex k).cur with | some w => StreamTable.step s.up (.resetStream w) | none => s.up) p b0 ∧
        (match (s.ex k).cur with | some w => StreamTable.step s.up (.resetStream w) | none => s.up).nW = s.up.nW ∧
        ∀ v, ((match (s.ex k).cur with | some w => StreamTable.step s.up (.resetStream w) | none => s.up).waiter v).got =
          (s.up.waiter v).got := by
      cases (s.ex k).cur with
      | none => exact ⟨h.tinv, h.idinv, rfl, fun _ => rfl⟩
      | some w =>
        have hf := reset_fields s.up w
        exact ⟨tinv_step _ h.tinv _, idinv_step _ _ _ h.idinv _ rfl, hf.1, fun v => (hf.2 v).2⟩
    refine inv_update_at h _ k { s.ex k with cur := none, done := true } _
      hup.1 hup.2.1 hup.2.2.1 (fun v _ _ => hup.2.2.2 v) hg.1 rfl rfl rfl (fun _ => rfl) rfl (Or.inr ⟨_, rfl, rfl, hg.2, rfl, ?_, ?_, ?_⟩)
    · show writtenId dirServer (s.ex k).sid typeRequest (s.ex k).cell false = (s.ex k).did
      rw [written_restores, h.sid k hg.1]
    · simp
    · intro t ht; simp at ht
  · rw [if_neg hg]; exact h

theorem inv_reply {s : Sys} {p : Proto} {b0 : Int} (h : Inv s p b0) (id : Int) (tok : Nat) (body : Bool) :
    Inv (step s (.reply id tok body)) p b0 := by
  simp only [step]
  cases hl : lookup s.up.table (responseKey id) with
  | none => exact h
  | some w =>
    simp only []
    have hm := lookup_mem _ _ _ hl
    have ⟨hw1, hw2, hw3⟩ := h.tinv.entry _ hm
    simp only [] at hw1 hw2 hw3
    have hf := reply_fields s.up (responseKey id) tok w hl
    have hgot : ∀ v, v < s.up.nW → (s.up.waiter v).got ≠ [] →
        ((StreamTable.step s.up (.reply (responseKey id) tok)).waiter v).got = (s.up.waiter v).got := by
      intro v _ hne
      apply hf.2.2.1
      intro hvw; subst hvw; exact hne hw3
    by_cases hg : (s.ex (s.owner w)).done = false ∧ (s.ex (s.owner w)).cur = some w
    · rw [if_pos hg]
      refine inv_update_at h _ (s.owner w) { s.ex (s.owner w) with cur := none, done := true } _
        (tinv_step _ h.tinv _) (idinv_step _ _ _ h.idinv _ rfl) hf.1 hgot (h.ownLt w hw1) rfl rfl rfl (fun _ => rfl) rfl
        (Or.inr ⟨_, rfl, rfl, hg.1, rfl, ?_, ?_, ?_⟩)
      · show writtenId dirServer (s.ex (s.owner w)).sid typeResponse id body = (s.ex (s.owner w)).did
        rw [written_restores, h.sid _ (h.ownLt w hw1)]
      · simp
      · intro t ht
        simp at ht; subst ht
        refine ⟨w, rfl, hw1, rfl, ?_⟩
        rw [hf.2.2.2, hf.2.1 w, hw3, hw2]; rfl
    · rw [if_neg hg]
      have := inv_update h (StreamTable.step s.up (.reply (responseKey id) tok)) s.ex []
        (tinv_step _ h.tinv _) (idinv_step _ _ _ h.idinv _ rfl) hf.1 hgot
        (fun _ => ⟨rfl, rfl, rfl⟩) (fun _ hd => hd) (fun j v hj hc => ⟨hc, (h.cur j v hj hc).2.2⟩) (Or.inl rfl)
      simp only [List.append_nil] at this; exact this

theorem inv_request {s : Sys} {p : Proto} {b0 : Int} (h : Inv s p b0) (did : Int) (tok : Nat) (body : Bool) :
    Inv (step s (.request did tok body)) p b0 := by
  simp only [step]
  refine ⟨h.tinv, h.idinv, ?_, ?_, ?_, h.wireLen, ?_, ?_, h.exNodup⟩
  · intro w hw; exact Nat.lt_succ_of_lt (h.ownLt w hw)
  · intro k w hk hc
    simp only [] at hk hc ⊢
    by_cases hkn : k = s.nE
    · simp [hkn] at hc
    · simp only [hkn, if_false] at hc ⊢
      exact h.cur k w (by omega) hc
  · intro k hk
    simp only [] at hk ⊢
    by_cases hkn : k = s.nE
    · simp [hkn, serverStreamId_eq]
    · simp only [hkn, if_false]; exact h.sid k (by omega)
  · intro w hw
    simp only [] at hw ⊢
    have := h.ownLt w hw
    have hne : s.owner w ≠ s.nE := by omega
    simp only [hne, if_false]; exact h.wire w hw
  · intro f hf
    simp only [] at hf ⊢
    have ⟨a, b, c, d, e⟩ := h.frames f hf
    have hne : f.ex ≠ s.nE := by omega
    simp only [hne, if_false]
    exact ⟨by omega, b, c, d, e⟩

theorem inv_forward {s : Sys} {p : Proto} {b0 : Int} (h : Inv s p b0) (k : Nat) : Inv (step s (.forward k)) p b0 := by
  simp only [step]
  by_cases hg : k < s.nE ∧ (s.ex k).done = false ∧ (s.ex k).cur = none
  · rw [if_pos hg]
    have hnW := nW_newStream s.up false
    have hnew := waiter_newStream_new s.up false
    have hold : ∀ v, v < s.up.nW → (StreamTable.step s.up (.newStream false)).waiter v = s.up.waiter v :=
      fun v hv => waiter_newStream s.up false v (by omega)
    refine ⟨tinv_step _ h.tinv (.newStream false), idinv_step _ _ _ h.idinv (.newStream false) rfl, ?_, ?_, ?_, ?_, ?_, ?_, h.exNodup⟩
    · intro w hw
      simp only [Sys.setEx] at hw ⊢
      by_cases hwn : w = s.up.nW
      · simp only [hwn, if_true]; exact hg.1
      · simp only [hwn, if_false]; exact h.ownLt w (by omega)
    · intro j w hj hc
      simp only [Sys.setEx] at hj hc ⊢
      by_cases hjk : j = k
      · subst hjk
        simp only [if_true] at hc ⊢
        have : w = s.up.nW := by simpa using hc.symm
        subst this
        exact ⟨by omega, by simp, hg.2.1⟩
      · simp only [hjk, if_false] at hc ⊢
        have ⟨a, b, c⟩ := h.cur j w hj hc
        have hwn : w ≠ s.up.nW := by omega
        simp only [hwn, if_false]
        exact ⟨by omega, b, c⟩
    · intro j hj
      simp only [Sys.setEx] at hj ⊢
      by_cases hjk : j = k
      · subst hjk; simp only [if_true]; exact h.sid j hj
      · simp only [hjk, if_false]; exact h.sid j hj
    · simp only [List.length_append, List.length_singleton]
      rw [hnW, h.wireLen]
    · intro w hw
      simp only [Sys.setEx] at hw ⊢
      rw [hnW] at hw
      by_cases hwn : w = s.up.nW
      · subst hwn
        rw [List.getElem?_append_right (by rw [h.wireLen]; exact Nat.le_refl _)]
        simp only [h.wireLen, Nat.sub_self, List.getElem?_cons_zero, if_true]
        rw [written_restores, hnew.1]; rfl
      · have hw' : w < s.up.nW := by omega
        rw [List.getElem?_append_left (by rw [h.wireLen]; exact hw')]
        simp only [hwn, if_false]
        rw [hold w hw', h.wire w hw']
        by_cases hok : s.owner w = k
        · simp [hok]
        · simp [hok]
    · intro f hf
      simp only [Sys.setEx] at hf ⊢
      have ⟨a, b, c, d, e⟩ := h.frames f hf
      have hne : f.ex ≠ k := by
        intro heq; rw [heq, hg.2.1] at c; cases c
      simp only [hne, if_false]
      refine ⟨a, b, c, d, ?_⟩
      intro t ht
      obtain ⟨w, w1, w2, w3, w4⟩ := e t ht
      have hwn : w ≠ s.up.nW := by omega
      refine ⟨w, w1, by omega, by simp only [hwn, if_false]; exact w3, ?_⟩
      rw [hold w w2]; exact w4
  · rw [if_neg hg]; exact h

theorem inv_step {s : Sys} {p : Proto} {b0 : Int} (h : Inv s p b0) (ev : Ev) : Inv (step s ev) p b0 := by
  cases ev with
  | request did tok body => exact inv_request h did tok body
  | forward k => exact inv_forward h k
  | reply id tok body => exact inv_reply h id tok body
  | abandon k => exact inv_abandon h k
  | fail k => exact inv_fail h k
  | connReset => exact inv_connReset h

theorem inv_run {s : Sys} {p : Proto} {b0 : Int} (h : Inv s p b0) (evs : List Ev) : Inv (run s evs) p b0 := by
  induction evs generalizing s with
  | nil => exact h
  | cons ev r ih => exact ih (inv_step h ev)

/-! ### honest upstreams: payloads carry the token of their exchange -/
/-- an upstream that answers what it was asked, along a whole run -/
def Honest (s : Sys) : List Ev → Prop
  | [] => True
  | ev :: r => honest s ev = true ∧ Honest (step s ev) r

theorem honest_of_B (s : Sys) (evs : List Ev) (h : honestB s evs = true) : Honest s evs := by
  induction evs generalizing s with
  | nil => trivial
  | cons ev r ih =>
    simp only [honestB, Bool.and_eq_true] at h
    exact ⟨h.1, ih _ h.2⟩

/-- the token of an exchange never changes -/
theorem step_tok (s : Sys) (ev : Ev) (j : Nat) (hj : j < s.nE) : ((step s ev).ex j).tok = (s.ex j).tok := by
  cases ev with
  | request did tok body =>
    have : j ≠ s.nE := by omega
    simp [step, this]
  | forward k =>
    simp only [step]
    by_cases hg : k < s.nE ∧ (s.ex k).done = false ∧ (s.ex k).cur = none
    · rw [if_pos hg]; simp only [Sys.setEx]
      by_cases hjk : j = k
      · subst hjk; simp
      · simp [hjk]
    · rw [if_neg hg]
  | reply id tok body =>
    simp only [step]
    cases hl : lookup s.up.table (responseKey id) with
    | none => rfl
    | some w =>
      simp only []
      by_cases hg : (s.ex (s.owner w)).done = false ∧ (s.ex (s.owner w)).cur = some w
      · rw [if_pos hg]; simp only [Sys.setEx]
        by_cases hjk : j = s.owner w
        · subst hjk; simp
        · simp [hjk]
      · rw [if_neg hg]
  | abandon k =>
    simp only [step]
    cases hc : (s.ex k).cur with
    | none => rfl
    | some w =>
      simp only []
      by_cases hg : k < s.nE ∧ (s.ex k).done = false
      · rw [if_pos hg]; simp only [Sys.setEx]
        by_cases hjk : j = k
        · subst hjk; simp
        · simp [hjk]
      · rw [if_neg hg]
  | fail k =>
    simp only [step]
    by_cases hg : k < s.nE ∧ (s.ex k).done = false
    · rw [if_pos hg]; simp only [Sys.setEx]
      by_cases hjk : j = k
      · subst hjk; simp
      · simp [hjk]
    · rw [if_neg hg]
  | connReset => rfl

/-- a step writes at most one frame; a payload it writes is the one an honest reply carries for that exchange -/
theorem step_down {s : Sys} {p : Proto} {b0 : Int} (hi : Inv s p b0) (ev : Ev) :
    (step s ev).down = s.down ∨ ∃ f0, (step s ev).down = s.down ++ [f0] ∧ f0.ex < s.nE ∧
      ∀ t, f0.pay = .ok t → honest s ev = true → t = (s.ex f0.ex).tok := by
  cases ev with
  | request did tok body => exact Or.inl rfl
  | forward k =>
    simp only [step]
    by_cases hg : k < s.nE ∧ (s.ex k).done = false ∧ (s.ex k).cur = none
    · rw [if_pos hg]; exact Or.inl rfl
    · rw [if_neg hg]; exact Or.inl rfl
  | reply id tok body =>
    simp only [step, honest]
    cases hl : lookup s.up.table (responseKey id) with
    | none => exact Or.inl rfl
    | some w =>
      simp only []
      by_cases hg : (s.ex (s.owner w)).done = false ∧ (s.ex (s.owner w)).cur = some w
      · rw [if_pos hg]
        refine Or.inr ⟨_, rfl, hi.ownLt w (hi.tinv.entry _ (lookup_mem _ _ _ hl)).1, ?_⟩
        intro t ht hh
        simp at ht; subst ht
        simpa using hh
      · rw [if_neg hg]; exact Or.inl rfl
  | abandon k =>
    simp only [step]
    cases hc : (s.ex k).cur with
    | none => exact Or.inl rfl
    | some w =>
      simp only []
      by_cases hg : k < s.nE ∧ (s.ex k).done = false
      · rw [if_pos hg]; exact Or.inl rfl
      · rw [if_neg hg]; exact Or.inl rfl
  | fail k =>
    simp only [step]
    by_cases hg : k < s.nE ∧ (s.ex k).done = false
    · rw [if_pos hg]
      refine Or.inr ⟨_, rfl, hg.1, ?_⟩
      intro t ht; simp at ht
    · rw [if_neg hg]; exact Or.inl rfl
  | connReset => exact Or.inl rfl

/-- payloads carry the token of their exchange when the upstream is honest -/
theorem token_echo (p : Proto) (base : Int) (evs : List Ev) (hh : Honest (init p base) evs) (f : DFrame) (t : Nat) :
    let s := run (init p base) evs
    f ∈ s.down → f.pay = .ok t → t = (s.ex f.ex).tok := by
  have key : ∀ (s : Sys), Inv s p (u64 base) → (∀ f t, f ∈ s.down → f.pay = .ok t → t = (s.ex f.ex).tok) →
      ∀ evs, Honest s evs → ∀ f t, f ∈ (run s evs).down → f.pay = .ok t → t = ((run s evs).ex f.ex).tok := by
    intro s hi ht evs
    induction evs generalizing s with
    | nil => intro _; exact ht
    | cons ev r ih =>
      intro hh
      apply ih (step s ev) (inv_step hi ev) ?_ hh.2
      intro f t hf hp
      rcases step_down hi ev with hd | ⟨f0, hd, hlt, hf0⟩
      · rw [hd] at hf
        rw [step_tok s ev _ (hi.frames f hf).1]; exact ht f t hf hp
      · rw [hd] at hf
        rcases List.mem_append.mp hf with hf | hf
        · rw [step_tok s ev _ (hi.frames f hf).1]; exact ht f t hf hp
        · simp at hf; subst hf
          rw [step_tok s ev _ hlt]; exact hf0 t hp hh.1
  intro s hf hp
  exact key _ (inv_init p base) (fun f t hf _ => by simp [init] at hf) evs hh f t hf hp

end MosnVerif.Model.Correlate
