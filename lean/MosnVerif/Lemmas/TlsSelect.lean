import MosnVerif.Model.TlsSelect
/-! helper lemmas for C13 (core Lean only) -/
namespace MosnVerif.Model.TlsSelect
open MosnVerif.Gen.TlsPolicy

/-! ### the regenerated loop body and tail of GetConfigForClient -/

def firstOr (d : Option Nat) (i : Nat) : Option Nat :=
  match d with
  | some x => some x
  | none => some i

theorem walkStep_eq (d a : Option Nat) (i : Nat) (r s al : Bool) :
    walkStep d a i r s al =
      if r = false then Step.next d a
      else if s = true then Step.ret (Outcome.config (some i))
      else Step.next (firstOr d i) (if a = none ∧ al = true then some i else a) := by
  cases d <;> cases a <;> cases r <;> cases s <;> cases al <;> simp [walkStep, firstOr]

/-- declarative result: SNI winner, else ALPN winner, else default, else the error -/
def pick (s a d : Option Nat) : Outcome :=
  match s, a, d with
  | some i, _, _ => .config (some i)
  | none, some i, _ => .config (some i)
  | none, none, some i => .config (some i)
  | none, none, none => .errNoCert

theorem walkFinish_eq (d a : Option Nat) : walkFinish d a = pick none a d := by
  cases d <;> cases a <;> simp [walkFinish, pick]

theorem orElse'_none_right (a : Option Nat) : orElse' a none = a := by cases a <;> rfl

theorem map_add_succ (o : Option Nat) (i : Nat) :
    (o.map (fun j => j + 1)).map (fun j => j + i) = o.map (fun j => j + (i + 1)) := by
  cases o with
  | none => rfl
  | some j => simp only [Option.map_some]; congr 1; omega

/-- the walk from index `i` with accumulated default `d` and ALPN winner `a` -/
theorem walk_eq (sni : Name) (protos : List Name) (ps : List Ctx) :
    ∀ (i : Nat) (d a : Option Nat),
    walk sni protos ps i d a =
      pick ((ps.findIdx? (fun c => c.ready && c.sniMatch sni)).map (· + i))
        (orElse' a ((ps.findIdx? (fun c => c.ready && c.alpnMatch protos)).map (· + i)))
        (orElse' d ((ps.findIdx? (fun c => c.ready)).map (· + i))) := by
  induction ps with
  | nil =>
    intro i d a
    simp [walk, walkFinish_eq, orElse'_none_right]
  | cons p r ih =>
    intro i d a
    simp only [walk, walkStep_eq, List.findIdx?_cons]
    cases hr : p.ready
    · -- not ready: skipped
      simp only [Bool.false_and, Bool.false_eq_true, ↓reduceIte, map_add_succ]
      exact ih (i + 1) d a
    · cases hs : p.sniMatch sni
      · simp only [Bool.true_and, Bool.true_eq_false, Bool.false_eq_true, ↓reduceIte]
        rw [ih (i + 1)]
        generalize r.findIdx? (fun c => c.ready && c.sniMatch sni) = S
        generalize r.findIdx? (fun c => c.ready && c.alpnMatch protos) = A
        generalize r.findIdx? (fun c => c.ready) = R
        have e : ∀ j : Nat, j + 1 + i = j + (i + 1) := by intro j; omega
        cases hal : p.alpnMatch protos <;> cases d <;> cases a <;> cases S <;> cases A <;> cases R <;>
          simp [firstOr, orElse', pick, e]
      · simp [pick]

theorem findIdx?_congr {α} (l : List α) (p q : α → Bool) (h : ∀ x ∈ l, p x = q x) :
    l.findIdx? p = l.findIdx? q := by
  induction l with
  | nil => rfl
  | cons x r ih =>
    simp only [List.findIdx?_cons]
    rw [h x (by simp), ih (fun y hy => h y (by simp [hy]))]

/-! ### strings -/

theorem splitOn_ne_nil (sep : Char) (n : Name) : splitOn sep n ≠ [] := by
  cases n with
  | nil => simp [splitOn]
  | cons c r =>
    simp only [splitOn]
    split
    · simp
    · split <;> simp

/-- the wildcard candidates read directly off the name: one per dot, `*.` followed by what comes after that dot -/
def dotSuffixes : Name → List Name
  | [] => []
  | c :: r => if c == '.' then ('*' :: '.' :: r) :: dotSuffixes r else dotSuffixes r

theorem candidates_head_irrel (a b : Name) (t : List Name) : candidates (a :: t) = candidates (b :: t) := by
  cases t <;> simp [candidates]

theorem joinDot_splitOn (n : Name) : joinDot (splitOn '.' n) = n := by
  induction n with
  | nil => simp [splitOn, joinDot]
  | cons c r ih =>
    simp only [splitOn]
    split
    · rename_i hc
      have hc' : c = '.' := by simpa using hc
      cases hsp : splitOn '.' r with
      | nil => exact absurd hsp (splitOn_ne_nil _ _)
      | cons h t => rw [hsp] at ih; simp [joinDot, ih, hc']
    · cases hsp : splitOn '.' r with
      | nil => exact absurd hsp (splitOn_ne_nil _ _)
      | cons h t =>
        rw [hsp] at ih
        cases t with
        | nil => simp [joinDot] at ih ⊢; exact ih
        | cons b t' => simp [joinDot] at ih ⊢; exact ih

theorem candidates_splitOn (n : Name) : candidates (splitOn '.' n) = dotSuffixes n := by
  induction n with
  | nil => simp [splitOn, candidates, dotSuffixes]
  | cons c r ih =>
    simp only [splitOn, dotSuffixes]
    split
    · cases hsp : splitOn '.' r with
      | nil => exact absurd hsp (splitOn_ne_nil _ _)
      | cons h t =>
        have hj := joinDot_splitOn r
        rw [hsp] at ih hj
        simp [candidates, joinDot, ih, hj]
    · cases hsp : splitOn '.' r with
      | nil => exact absurd hsp (splitOn_ne_nil _ _)
      | cons h t =>
        rw [hsp] at ih
        simp only []
        rw [candidates_head_irrel (c :: h) h t, ih]

theorem mem_dotSuffixes (n x : Name) :
    x ∈ dotSuffixes n ↔ ∃ pre suf, n = pre ++ '.' :: suf ∧ x = '*' :: '.' :: suf := by
  induction n with
  | nil => simp [dotSuffixes]
  | cons c r ih =>
    simp only [dotSuffixes]
    constructor
    · intro h
      split at h
      · rename_i hc
        have hc' : c = '.' := by simpa using hc
        rcases List.mem_cons.mp h with h | h
        · exact ⟨[], r, by simp [hc'], h⟩
        · obtain ⟨pre, suf, h1, h2⟩ := ih.mp h
          exact ⟨c :: pre, suf, by simp [h1], h2⟩
      · obtain ⟨pre, suf, h1, h2⟩ := ih.mp h
        exact ⟨c :: pre, suf, by simp [h1], h2⟩
    · rintro ⟨pre, suf, h1, h2⟩
      cases pre with
      | nil =>
        simp only [List.nil_append, List.cons.injEq] at h1
        obtain ⟨hc, hr⟩ := h1
        subst hc; subst hr
        simp [h2]
      | cons p pre' =>
        simp only [List.cons_append, List.cons.injEq] at h1
        obtain ⟨_, hr⟩ := h1
        have : x ∈ dotSuffixes r := ih.mpr ⟨pre', suf, hr, h2⟩
        split
        · exact List.mem_cons_of_mem _ this
        · exact this

/-- characterisation of `MatchedServerName` over an arbitrary match set -/
theorem matchedServerName_iff (m : List Name) (sn : Name) :
    matchedServerName m sn = true ↔
      normSni sn ∈ m ∨ ∃ pre suf, normSni sn = pre ++ '.' :: suf ∧ ('*' :: '.' :: suf) ∈ m := by
  unfold matchedServerName
  rw [candidates_splitOn]
  simp only [Bool.or_eq_true, List.contains_iff_mem, List.any_eq_true]
  constructor
  · rintro (h | ⟨x, hx, hm⟩)
    · exact Or.inl h
    · obtain ⟨pre, suf, h1, h2⟩ := (mem_dotSuffixes _ _).mp hx
      exact Or.inr ⟨pre, suf, h1, h2 ▸ hm⟩
  · rintro (h | ⟨pre, suf, h1, h2⟩)
    · exact Or.inl h
    · exact Or.inr ⟨_, (mem_dotSuffixes _ _).mpr ⟨pre, suf, h1, rfl⟩, h2⟩

theorem matchedALPN_iff (m : List Name) (protos : List Name) :
    matchedALPN m protos = true ↔ ∃ q ∈ protos, lower q ∈ m := by
  simp [matchedALPN]

/-! ### the shared match set against the statement's separate namespaces -/

theorem lower_eq_nil (x : Name) : lower x = [] ↔ x = [] := by
  cases x <;> simp [lower]

theorem mem_opt_name (n y : Name) :
    y ∈ (if n.length > 0 then [lower n] else []) ↔ ∃ x ∈ (if n ≠ [] then [n] else []), x ≠ [] ∧ lower x = y := by
  cases n with
  | nil => simp
  | cons a r => simp; exact eq_comm

theorem mem_buildMatch (c : Ctx) (y : Name) :
    y ∈ buildMatch c ↔ (∃ x ∈ c.names, x ≠ [] ∧ lower x = y) ∨ y ∈ c.alpn.map lower := by
  have hl : ∀ x : Name, decide (x.length > 0) = true ↔ x ≠ [] := by intro x; cases x <;> simp
  unfold buildMatch Ctx.names
  simp only [List.mem_append, mem_opt_name, List.mem_map, List.mem_filter, hl]
  constructor
  · rintro (((⟨x, hx, h⟩ | ⟨x, ⟨hx, hne⟩, e⟩) | h) | ⟨x, hx, h⟩)
    · exact Or.inl ⟨x, Or.inl (Or.inl hx), h⟩
    · exact Or.inl ⟨x, Or.inl (Or.inr hx), hne, e⟩
    · exact Or.inr h
    · exact Or.inl ⟨x, Or.inr hx, h⟩
  · rintro (⟨x, ((hx | hx) | hx), hne, e⟩ | h)
    · exact Or.inl (Or.inl (Or.inl ⟨x, hx, hne, e⟩))
    · exact Or.inl (Or.inl (Or.inr ⟨x, ⟨hx, hne⟩, e⟩))
    · exact Or.inr ⟨x, hx, hne, e⟩
    · exact Or.inl (Or.inr h)

/-- facts about the regenerated ALPN table: no supported token is empty or starts with `*` -/
theorem supported_facts : ∀ t ∈ alpnSupported.map String.toList, t ≠ [] ∧ t.head? ≠ some '*' := by decide

theorem alpn_lower_supported (c : Ctx) : ∀ t ∈ c.alpn, lower t ∈ alpnSupported.map String.toList := by
  intro t ht
  unfold Ctx.alpn parseALPN at ht
  split at ht
  · simp at ht
  · simp only [List.mem_filter, List.contains_iff_mem] at ht
    exact ht.2

theorem isWildOf_iff (pat n : Name) :
    isWildOf pat n = true ↔ ∃ pre suf, n = pre ++ '.' :: suf ∧ pat = '*' :: '.' :: suf := by
  unfold isWildOf
  split
  · rename_i suf
    simp only [List.isSuffixOf_iff_suffix, List.cons.injEq, true_and]
    constructor
    · rintro ⟨t, ht⟩; exact ⟨t, suf, ht.symm, rfl⟩
    · rintro ⟨pre, suf', h1, h2⟩; subst h2; exact ⟨pre, h1.symm⟩
  · rename_i hne
    simp only [Bool.false_eq_true, false_iff]
    rintro ⟨pre, suf, _, h2⟩
    exact hne suf h2

theorem nameRule_iff (c : Ctx) (sni : Name) :
    nameRule c sni = true ↔
      normSni sni ≠ [] ∧ ∃ x ∈ c.names, lower x = normSni sni ∨
        ∃ pre suf, normSni sni = pre ++ '.' :: suf ∧ lower x = '*' :: '.' :: suf := by
  unfold nameRule
  simp only [Bool.and_eq_true, List.any_eq_true, Bool.or_eq_true, beq_iff_eq, isWildOf_iff,
    ne_eq, decide_eq_true_eq]

/-- for a context whose ALPN tokens cannot be confused with the SNI, `MatchedServerName` over the shared set is the
statement's name rule -/
theorem sniMatch_eq_nameRule (c : Ctx) (sni : Name)
    (h1 : normSni sni ∉ c.alpn.map lower) : c.sniMatch sni = nameRule c sni := by
  rw [Bool.eq_iff_iff]
  unfold Ctx.sniMatch
  rw [matchedServerName_iff, nameRule_iff]
  constructor
  · rintro (h | ⟨pre, suf, e, h⟩)
    · rcases (mem_buildMatch c _).mp h with ⟨x, hx, hne, e⟩ | h
      · refine ⟨?_, x, hx, Or.inl e⟩
        rw [← e]; intro h0; exact hne ((lower_eq_nil x).mp h0)
      · exact absurd h h1
    · rcases (mem_buildMatch c _).mp h with ⟨x, hx, _, e'⟩ | h
      · refine ⟨?_, x, hx, Or.inr ⟨pre, suf, e, e'⟩⟩
        rw [e]; simp
      · obtain ⟨t, ht, e'⟩ := List.mem_map.mp h
        have := (supported_facts _ (alpn_lower_supported c t ht)).2
        rw [e'] at this
        simp at this
  · rintro ⟨hn, x, hx, h | ⟨pre, suf, e, h⟩⟩
    · refine Or.inl ((mem_buildMatch c _).mpr (Or.inl ⟨x, hx, ?_, h⟩))
      intro h0; subst h0; exact hn (by rw [← h]; rfl)
    · refine Or.inr ⟨pre, suf, e, (mem_buildMatch c _).mpr (Or.inl ⟨x, hx, ?_, h⟩)⟩
      intro h0; subst h0; simp [lower] at h

theorem alpnMatch_eq_alpnRule (c : Ctx) (protos : List Name)
    (h2 : ∀ q ∈ protos, lower q ∉ c.names.map lower) : c.alpnMatch protos = alpnRule c protos := by
  rw [Bool.eq_iff_iff]
  unfold Ctx.alpnMatch alpnRule
  rw [matchedALPN_iff]
  simp only [List.any_eq_true, List.contains_iff_mem]
  constructor
  · rintro ⟨q, hq, h⟩
    rcases (mem_buildMatch c _).mp h with ⟨x, hx, _, e⟩ | h
    · exact absurd (List.mem_map.mpr ⟨x, hx, e⟩) (h2 q hq)
    · exact ⟨q, hq, h⟩
  · rintro ⟨q, hq, h⟩
    exact ⟨q, hq, (mem_buildMatch c _).mpr (Or.inr h)⟩

/-- the two recorded exceptions to "plaintext only when inspector mode allows it", as one hypothesis: the connection is a
TCP connection (`tcp`; a unix-socket listener is not) and some context of the listener is ready (`en`; with every sds
secret pending none is). Outside it `serverContextManager.Conn` passes the connection through. -/
def ReadyTcp (tcp en : Bool) : Prop := tcp = true ∧ en = true

instance (tcp en : Bool) : Decidable (ReadyTcp tcp en) := by unfold ReadyTcp; infer_instance

def ofOpt : Option Nat → Outcome
  | some i => .config (some i)
  | none => .errNoCert

theorem pick_eq_ofOpt (s a d : Option Nat) : pick s a d = ofOpt (orElse' s (orElse' a d)) := by
  cases s <;> cases a <;> cases d <;> rfl

end MosnVerif.Model.TlsSelect
