import MosnVerif.Model.Framing
import MosnVerif.Model.FrameSpec
/-! helper lemmas for the generic dispatch loop (core Lean only) -/
namespace MosnVerif.Model.Framing

variable {F : Type}

theorem drain_fuel (d : Bytes → Step F) (hs : Stable d) :
    ∀ (f1 f2 : Nat) (b : Bytes), b.length < f1 → b.length < f2 → drain d f1 b = drain d f2 b := by
  intro f1
  induction f1 with
  | zero => intro f2 b h; omega
  | succ k ih =>
    intro f2 b h1 h2
    cases f2 with
    | zero => omega
    | succ k2 =>
      unfold drain
      by_cases hb : b.isEmpty
      · simp [hb]
      · simp only [hb, Bool.false_eq_true, ↓reduceIte]
        cases hstep : d b with
        | needMore => rfl
        | error => rfl
        | frame f n =>
          have ⟨hn0, hnl⟩ := hs.pos b f n hstep
          have hl : (b.drop n).length < k := by simp [List.length_drop]; omega
          have hl2 : (b.drop n).length < k2 := by simp [List.length_drop]; omega
          simp only [ih k2 (b.drop n) hl hl2]

/-- the dispatch loop with sufficient fuel -/
def drainAll (d : Bytes → Step F) (b : Bytes) : List F × Bytes × Bool := drain d (b.length + 1) b

theorem drainAll_of_fuel (d : Bytes → Step F) (hs : Stable d) (fuel : Nat) (b : Bytes) (h : b.length < fuel) :
    drain d fuel b = drainAll d b :=
  drain_fuel d hs fuel (b.length + 1) b h (by omega)

theorem drainAll_nil (d : Bytes → Step F) : drainAll d [] = ([], [], false) := by
  simp [drainAll, drain]

theorem drainAll_needMore (d : Bytes → Step F) (b : Bytes) (h : d b = .needMore) : drainAll d b = ([], b, false) := by
  unfold drainAll drain
  by_cases hb : b.isEmpty
  · simp [hb]
  · simp [hb, h]

theorem drainAll_error (d : Bytes → Step F) (b : Bytes) (hb : b ≠ []) (h : d b = .error) :
    drainAll d b = ([], b, true) := by
  unfold drainAll drain
  have : b.isEmpty = false := by cases b <;> simp_all
  simp [this, h]

theorem drainAll_frame (d : Bytes → Step F) (hs : Stable d) (b : Bytes) (hb : b ≠ []) (f : F) (n : Nat)
    (h : d b = .frame f n) :
    drainAll d b = (f :: (drainAll d (b.drop n)).1, (drainAll d (b.drop n)).2.1, (drainAll d (b.drop n)).2.2) := by
  have ⟨hn0, hnl⟩ := hs.pos b f n h
  have hl : (b.drop n).length < b.length := by simp [List.length_drop]; omega
  have := drainAll_of_fuel d hs b.length (b.drop n) hl
  unfold drainAll at *
  rw [drain]
  have he : b.isEmpty = false := by cases b <;> simp_all
  simp only [he, Bool.false_eq_true, ↓reduceIte, h, this]

/-- key lemma: draining `b ++ e` = the frames of `b`, then draining `residue ++ e` (or, after a failure, nothing more) -/
theorem drainAll_append (d : Bytes → Step F) (hs : Stable d) :
    ∀ (k : Nat) (b e : Bytes), b.length ≤ k →
      drainAll d (b ++ e) =
        if (drainAll d b).2.2 then ((drainAll d b).1, (drainAll d b).2.1 ++ e, true)
        else ((drainAll d b).1 ++ (drainAll d ((drainAll d b).2.1 ++ e)).1,
              (drainAll d ((drainAll d b).2.1 ++ e)).2.1, (drainAll d ((drainAll d b).2.1 ++ e)).2.2) := by
  intro k
  induction k with
  | zero =>
    intro b e hb
    have : b = [] := by cases b <;> simp_all
    subst this
    simp [drainAll_nil]
  | succ k ih =>
    intro b e hb
    by_cases hnil : b = []
    · subst hnil; simp [drainAll_nil]
    · have hne : b ++ e ≠ [] := by simp [hnil]
      cases hstep : d b with
      | needMore => simp [drainAll_needMore d b hstep]
      | error =>
        rw [drainAll_error d b hnil hstep, drainAll_error d (b ++ e) hne (hs.errExt b e hstep)]
        simp
      | frame f n =>
        have ⟨hn0, hnl⟩ := hs.pos b f n hstep
        have hext := hs.ext b f n e hstep
        have hdrop : (b ++ e).drop n = b.drop n ++ e := List.drop_append_of_le_length hnl
        have hl : (b.drop n).length ≤ k := by simp [List.length_drop]; omega
        rw [drainAll_frame d hs (b ++ e) hne f n hext, hdrop, ih (b.drop n) e hl, drainAll_frame d hs b hnil f n hstep]
        by_cases hf : (drainAll d (b.drop n)).2.2 <;> simp [hf]

theorem feed_eq (d : Bytes → Step F) (c : Conn F) (x : Bytes) :
    feed d c x = if c.failed then { c with buf := c.buf ++ x } else
      { buf := (drainAll d (c.buf ++ x)).2.1, out := c.out ++ (drainAll d (c.buf ++ x)).1,
        failed := (drainAll d (c.buf ++ x)).2.2 } := rfl

theorem feed_feed (d : Bytes → Step F) (hs : Stable d) (c : Conn F) (x y : Bytes) :
    feed d (feed d c x) y = feed d c (x ++ y) := by
  by_cases hc : c.failed
  · simp [feed_eq, hc]
  · have hx := drainAll_append d hs (c.buf ++ x).length (c.buf ++ x) y (Nat.le_refl _)
    rw [feed_eq d c x, feed_eq d c (x ++ y)]
    simp only [hc, Bool.false_eq_true, ↓reduceIte]
    rw [← List.append_assoc, hx, feed_eq]
    by_cases hf : (drainAll d (c.buf ++ x)).2.2
    · simp [hf]
    · simp [hf]

theorem foldl_feed (d : Bytes → Step F) (hs : Stable d) :
    ∀ (xs : List Bytes) (c : Conn F) (x : Bytes), xs.foldl (feed d) (feed d c x) = feed d c (x ++ xs.flatten) := by
  intro xs
  induction xs with
  | nil => intro c x; simp
  | cons y ys ih =>
    intro c x
    simp only [List.foldl_cons, List.flatten_cons]
    rw [feed_feed d hs, ih, List.append_assoc]

theorem feed_init_nil (d : Bytes → Step F) : feed d (Conn.init : Conn F) [] = Conn.init := by
  simp [feed, Conn.init, drain]

theorem run_eq_feed (d : Bytes → Step F) (hs : Stable d) (chunks : List Bytes) :
    run d chunks = feed d Conn.init chunks.flatten := by
  cases chunks with
  | nil => simp [run, feed_init_nil]
  | cons x xs => simp only [run, List.foldl_cons, List.flatten_cons]; exact foldl_feed d hs xs _ x

theorem envelope_stable (h : Bytes → Hdr) (hh : HdrStable h) (ok : Bytes → Bool) : Stable (envelope h ok) := by
  constructor
  · intro p f n hd
    unfold envelope at hd
    split at hd <;> try (simp at hd)
    rename_i m hm
    split at hd <;> simp at hd
    obtain ⟨_, rfl⟩ := hd
    exact hh.pos p m hm
  · intro p f n e hd
    unfold envelope at hd ⊢
    split at hd <;> try (simp at hd)
    rename_i m hm
    split at hd <;> simp at hd
    rename_i hok
    obtain ⟨rfl, rfl⟩ := hd
    have hle := (hh.pos p m hm).2
    rw [hh.ext p m e hm]
    simp only [List.take_append_of_le_length hle, hok, ↓reduceIte]
  · intro p e hd
    unfold envelope at hd ⊢
    split at hd <;> try (simp at hd)
    · rename_i hm; rw [hh.errExt p e hm]
    · rename_i m hm
      have hle := (hh.pos p m hm).2
      rw [hh.ext p m e hm]
      simp only [List.take_append_of_le_length hle, hd]
      simp

/-- a stream made of frames each of which the decoder accepts in isolation, followed by a tail on which the decoder
asks for more data, dispatches to exactly those frames, in order, each once, and leaves exactly the tail. -/
theorem drainAll_valid (d : Bytes → Step Bytes) (hs : Stable d) (fs : List Bytes) (t : Bytes)
    (hv : ∀ f ∈ fs, d f = .frame f f.length) (ht : t = [] ∨ d t = .needMore) :
    drainAll d (fs.flatten ++ t) = (fs, t, false) := by
  induction fs with
  | nil =>
    rcases ht with rfl | ht
    · simp [drainAll_nil]
    · simpa using drainAll_needMore d t ht
  | cons f fs ih =>
    have hf := hv f (by simp)
    have ⟨hn0, _⟩ := hs.pos f f f.length hf
    have hne : f ≠ [] := by intro h; subst h; simp at hn0
    have hext := hs.ext f f f.length (fs.flatten ++ t) hf
    have hne2 : f ++ (fs.flatten ++ t) ≠ [] := by simp [hne]
    simp only [List.flatten_cons, List.append_assoc]
    rw [drainAll_frame d hs _ hne2 f f.length hext, List.drop_left,
      ih (fun g hg => hv g (by simp [hg]))]

/-- on a proper prefix of a frame that the decoder accepts, a prefix-stable decoder can only ask for more data -/
theorem prefix_needMore (d : Bytes → Step Bytes) (hs : Stable d) (g : Bytes) (hg : d g = .frame g g.length)
    (k : Nat) (hk : k < g.length) : d (g.take k) = .needMore := by
  have hsplit : g.take k ++ g.drop k = g := List.take_append_drop k g
  cases hstep : d (g.take k) with
  | needMore => rfl
  | error =>
    have := hs.errExt _ (g.drop k) hstep
    rw [hsplit, hg] at this
    cases this
  | frame f n =>
    have h1 := hs.ext _ f n (g.drop k) hstep
    have ⟨_, h2⟩ := hs.pos _ f n hstep
    rw [hsplit, hg] at h1
    injection h1 with _ h3
    rw [List.length_take] at h2
    omega

/-- an incomplete tail: empty, or a proper prefix of an acceptable frame -/
def TailOk (d : Bytes → Step Bytes) (t : Bytes) : Prop :=
  t = [] ∨ ∃ g m, d g = .frame g g.length ∧ m < g.length ∧ t = g.take m

theorem tailOk_take (d : Bytes → Step Bytes) (hs : Stable d) (t : Bytes) (ht : TailOk d t) (k : Nat) :
    drainAll d (t.take k) = ([], t.take k, false) := by
  rcases ht with rfl | ⟨g, m, hg, hm, rfl⟩
  · simp [drainAll_nil]
  · rw [List.take_take]
    exact drainAll_needMore d _ (prefix_needMore d hs g hg _ (by omega))

theorem tailOk_needMore (d : Bytes → Step Bytes) (hs : Stable d) (t : Bytes) (ht : TailOk d t) :
    t = [] ∨ d t = .needMore := by
  rcases ht with rfl | ⟨g, m, hg, hm, rfl⟩
  · left; rfl
  · right; exact prefix_needMore d hs g hg m hm

open MosnVerif.Model.FrameSpec (completeBy splitBy)

theorem splitBy_flatten (fs : List Bytes) (t : Bytes) : splitBy (fs.flatten ++ t) (fs.map List.length) = (fs, t) := by
  induction fs with
  | nil => simp [splitBy]
  | cons f fs ih => simp [splitBy, ih]

/-- after receiving only the first `k` bytes of a stream of acceptable frames (+ incomplete tail), exactly the frames
that lie wholly inside those `k` bytes have been handed on; the rest — an incomplete frame — is untouched in the buffer -/
theorem drainAll_prefix (d : Bytes → Step Bytes) (hs : Stable d) (t : Bytes) (ht : TailOk d t) :
    ∀ (fs : List Bytes) (k : Nat), (∀ f ∈ fs, d f = .frame f f.length) →
      (drainAll d ((fs.flatten ++ t).take k)).1 = fs.take (completeBy (fs.map List.length) k) ∧
      (drainAll d ((fs.flatten ++ t).take k)).2.2 = false ∧
      (fs.take (completeBy (fs.map List.length) k)).flatten ++ (drainAll d ((fs.flatten ++ t).take k)).2.1
        = (fs.flatten ++ t).take k := by
  intro fs
  induction fs with
  | nil =>
    intro k _
    simp [completeBy, tailOk_take d hs t ht k]
  | cons f fs ih =>
    intro k hv
    have hf := hv f (by simp)
    have ⟨hn0, _⟩ := hs.pos f f f.length hf
    simp only [List.flatten_cons, List.append_assoc, List.map_cons, completeBy]
    by_cases hk : f.length ≤ k
    · have htake : (f ++ (fs.flatten ++ t)).take k = f ++ (fs.flatten ++ t).take (k - f.length) := by
        rw [List.take_append]; simp [List.take_of_length_le hk]
      have hne : f ≠ [] := by intro h; subst h; simp at hn0
      have hne2 : f ++ (fs.flatten ++ t).take (k - f.length) ≠ [] := by simp [hne]
      have hext := hs.ext f f f.length ((fs.flatten ++ t).take (k - f.length)) hf
      have ⟨i1, i2, i3⟩ := ih (k - f.length) (fun g hg => hv g (by simp [hg]))
      rw [htake, drainAll_frame d hs _ hne2 f f.length hext, List.drop_left]
      simp only [hk, ↓reduceIte, Nat.add_comm 1, List.take_succ_cons, List.flatten_cons, List.append_assoc]
      exact ⟨by rw [i1], i2, by rw [i3]⟩
    · have hlt : k < f.length := by omega
      have htake : (f ++ (fs.flatten ++ t)).take k = f.take k := by
        rw [List.take_append]; simp [Nat.sub_eq_zero_of_le (Nat.le_of_lt hlt)]
      rw [htake, drainAll_needMore d _ (prefix_needMore d hs f hf k hlt)]
      simp [hk]

end MosnVerif.Model.Framing
