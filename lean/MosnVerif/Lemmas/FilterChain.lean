import MosnVerif.Model.FilterChain
/-! lemmas about one pass of the receiver / sender filter loop -/
namespace MosnVerif.Model.FilterChain
open MosnVerif.Gen.FilterPhase

theorem recvSwitch_keep_iff (st : FStatus) : recvSwitch st = .keepReturn ↔ asksAgain st := by
  cases st <;> simp [recvSwitch, asksAgain]

theorem ascFrom_mono {lb lb' : Nat} {l : List Inv} (h : lb' ≤ lb) (ha : ascFrom lb l) : ascFrom lb' l := by
  cases l with
  | nil => trivial
  | cons iv r => exact ⟨Nat.le_trans h ha.1, ha.2⟩

/-- **order inside one pass**: the invocations of one `RunReceiverFilter` call have strictly increasing indices ≥ the
start cursor -/
theorem recvLoop_asc (p : RPhase) (fs : List RFilter) (idx : Nat) (s : FState) :
    ascFrom idx (recvLoop p fs idx s).2 := by
  induction fs generalizing idx s with
  | nil => simp [recvLoop, ascFrom]
  | cons f rest ih =>
    simp only [recvLoop]
    split
    · exact ascFrom_mono (Nat.le_succ idx) (ih _ _)
    · split
      · exact ⟨Nat.le_refl _, ih _ _⟩
      · exact ⟨Nat.le_refl _, trivial⟩
      · exact ⟨Nat.le_refl _, trivial⟩

theorem ascFrom_lb {lb : Nat} {l : List Inv} (ha : ascFrom lb l) : ∀ iv ∈ l, lb ≤ iv.1 := by
  induction l generalizing lb with
  | nil => intro iv h; cases h
  | cons a r ih =>
    intro iv h
    cases h with
    | head => exact ha.1
    | tail _ h' => exact Nat.le_trans (Nat.le_trans ha.1 (Nat.le_succ _)) (ih ha.2 iv h')

/-- **once**: in a strictly increasing list every index occurs at most once -/
theorem ascFrom_count_le_one {lb : Nat} {l : List Inv} (ha : ascFrom lb l) (i : Nat) :
    (l.filter (fun iv => iv.1 == i)).length ≤ 1 := by
  induction l generalizing lb with
  | nil => simp
  | cons a r ih =>
    simp only [List.filter_cons]
    split
    · rename_i h
      have hai : a.1 = i := by simpa using h
      have : r.filter (fun iv => iv.1 == i) = [] := by
        rw [List.filter_eq_nil_iff]
        intro iv hiv
        have := ascFrom_lb ha.2 iv hiv
        simp; omega
      simp [this]
    · exact ih ha.2

/-- every invocation of a pass is of a filter registered for the phase of the pass, and returns what the filter's
script says for its invocation count -/
theorem recvLoop_mem (p : RPhase) (fs : List RFilter) (idx : Nat) (s : FState) :
    ∀ iv ∈ (recvLoop p fs idx s).2, ∃ f, fs[iv.1 - idx]? = some f ∧ idx ≤ iv.1 ∧ f.phase = p ∧
      iv.2 = f.verdictAt (s.rcalls iv.1) := by
  induction fs generalizing idx s with
  | nil => intro iv h; simp [recvLoop] at h
  | cons f rest ih =>
    intro iv h
    simp only [recvLoop] at h
    split at h
    · obtain ⟨g, hg, hle, hp, hv⟩ := ih _ _ iv h
      refine ⟨g, ?_, by omega, hp, hv⟩
      have : iv.1 - idx = (iv.1 - (idx + 1)) + 1 := by omega
      rw [this]; simpa using hg
    · rename_i hph
      have hph' : f.phase = p := by simpa using hph
      have head : ∀ iv : Inv, iv = (idx, f.verdictAt (s.rcalls idx)) →
          ∃ g, (f :: rest)[iv.1 - idx]? = some g ∧ idx ≤ iv.1 ∧ g.phase = p ∧ iv.2 = g.verdictAt (s.rcalls iv.1) := by
        intro iv e; subst e; exact ⟨f, by simp, Nat.le_refl _, hph', rfl⟩
      split at h
      · cases h with
        | head => exact head _ rfl
        | tail _ h' =>
          obtain ⟨g, hg, hle, hp, hv⟩ := ih _ _ iv h'
          refine ⟨g, ?_, by omega, hp, ?_⟩
          · have : iv.1 - idx = (iv.1 - (idx + 1)) + 1 := by omega
            rw [this]; simpa using hg
          · rw [hv]
            -- the invocation count of a later filter is untouched by this invocation and by handler effects
            have hne : iv.1 ≠ idx := by omega
            have : ∀ (e : HEffect) (t : FState), (applyHandler e p t).rcalls = t.rcalls := by
              intro e t; cases e <;> simp [applyHandler, cleanStream] <;> split <;> rfl
            have h2 : ∀ (t : FState) (a : Act), (applyAct t a).rcalls = t.rcalls := by
              intro t a; cases a <;> simp [applyAct, sendHijack] <;> split <;> rfl
            simp [this, h2, bump, hne]
      · simp at h; exact head _ h
      · simp at h; exact head _ h

theorem cursorAfter_cons (a : Inv) (l : List Inv) (h : l ≠ []) : cursorAfter (a :: l) = cursorAfter l := by
  unfold cursorAfter
  cases l with
  | nil => exact absurd rfl h
  | cons b r => simp [List.getLast?_cons_cons]

theorem cursorAfter_single (a : Inv) : cursorAfter [a] = if asksAgain a.2.status then a.1 else 0 := by
  simp [cursorAfter]

/-- **resume (cursor)**: after a pass the cursor stands at the last invoked filter if that one asked for
re-match / re-choose, and at 0 otherwise -/
theorem recvLoop_cursor (p : RPhase) (fs : List RFilter) (idx : Nat) (s : FState) :
    (recvLoop p fs idx s).1.cursor = cursorAfter (recvLoop p fs idx s).2 := by
  induction fs generalizing idx s with
  | nil => simp [recvLoop, cursorAfter]
  | cons f rest ih =>
    simp only [recvLoop]
    split
    · exact ih _ _
    · split
      · rename_i hsw
        have hna : ¬ asksAgain (f.verdictAt (s.rcalls idx)).status := by
          rw [← recvSwitch_keep_iff, hsw]; simp
        simp only []
        rw [ih]
        generalize (recvLoop p rest (idx + 1) _).2 = l
        cases l with
        | nil => simp [cursorAfter, hna]
        | cons b r => exact (cursorAfter_cons _ (b :: r) (by simp)).symm
      · rename_i hsw
        have hna : ¬ asksAgain (f.verdictAt (s.rcalls idx)).status := by
          rw [← recvSwitch_keep_iff, hsw]; simp
        simp [cursorAfter_single, hna]
      · rename_i hsw
        have ha : asksAgain (f.verdictAt (s.rcalls idx)).status := by
          rw [← recvSwitch_keep_iff, hsw]
        simp [cursorAfter_single, ha]

/-! ### what a pass does to the pending-reply flags -/

/-- a local reply is pending or the stream is already cleaned -/
def Pending (s : FState) : Prop := s.direct = true ∨ s.cleaned = true

/-- a response object or a won `upstreamResponseReceived` CAS only exists together with a pending reply (true in
the receive phases: nothing has been sent upstream yet) -/
def Rinv (s : FState) : Prop := (s.resp.isSome = true ∨ s.upRespReceived = true) → Pending s

theorem applyAct_pending (s : FState) (a : Act) (h : Pending s) : Pending (applyAct s a) := by
  unfold Pending at *
  cases a <;> simp [applyAct, sendHijack] <;> try exact h
  split <;> simp [h]

theorem applyHandler_pending (e : HEffect) (p : RPhase) (s : FState) (h : Pending s) : Pending (applyHandler e p s) := by
  unfold Pending at *
  cases e <;> simp [applyHandler, cleanStream] <;> try exact h
  split <;> exact h

theorem applyAct_rinv (s : FState) (a : Act) (h : Rinv s) : Rinv (applyAct s a) := by
  unfold Rinv Pending at *
  cases a <;> simp [applyAct, sendHijack] <;> try exact h
  split <;> simp_all

theorem applyHandler_rinv (e : HEffect) (p : RPhase) (s : FState) (h : Rinv s) : Rinv (applyHandler e p s) := by
  unfold Rinv Pending at *
  cases e <;> simp [applyHandler, cleanStream] <;> try exact h
  split <;> exact h

/-- a denying verdict leaves a pending reply (or a cleaned stream) behind -/
theorem deny_pending (s : FState) (v : Verdict) (p : RPhase) (hr : Rinv s) (hd : v.isDeny = true) :
    Pending (applyHandler (receiverHandler v.status) p (applyAct { s with rcalls := bump s.rcalls i } v.act)) := by
  obtain ⟨act, st⟩ := v
  have hr' : Rinv { s with rcalls := bump s.rcalls i } := hr
  simp only [Verdict.isDeny, Bool.or_eq_true] at hd
  rcases hd with (hd | hd) | hd
  · apply applyHandler_pending
    cases act <;> simp [Act.answers] at hd <;> simp [applyAct, sendHijack, Pending]
  · apply applyHandler_pending
    cases act <;> simp at hd
    simp only [applyAct]
    split
    · rename_i hc
      simp only [Bool.or_eq_true] at hc
      rcases hc with (hc | hc) | hc
      · exact hr' (Or.inl hc)
      · exact Or.inr hc
      · exact hr' (Or.inr hc)
    · simp [sendHijack, Pending]
  · have : st = .termination := by simpa using hd
    subst this
    simp [receiverHandler, applyHandler, cleanStream, Pending]

theorem recvLoop_pending (p : RPhase) (fs : List RFilter) (idx : Nat) (s : FState) (h : Pending s) :
    Pending (recvLoop p fs idx s).1 := by
  induction fs generalizing idx s with
  | nil => exact h
  | cons f rest ih =>
    simp only [recvLoop]
    split
    · exact ih _ _ h
    · have h1 : Pending (applyHandler (receiverHandler (f.verdictAt (s.rcalls idx)).status) p
          (applyAct { s with rcalls := bump s.rcalls idx } (f.verdictAt (s.rcalls idx)).act)) :=
        applyHandler_pending _ _ _ (applyAct_pending _ _ h)
      split
      · exact ih _ _ h1
      · exact h1
      · exact h1

theorem recvLoop_rinv (p : RPhase) (fs : List RFilter) (idx : Nat) (s : FState) (h : Rinv s) :
    Rinv (recvLoop p fs idx s).1 := by
  induction fs generalizing idx s with
  | nil => exact h
  | cons f rest ih =>
    simp only [recvLoop]
    split
    · exact ih _ _ h
    · have h1 : Rinv (applyHandler (receiverHandler (f.verdictAt (s.rcalls idx)).status) p
          (applyAct { s with rcalls := bump s.rcalls idx } (f.verdictAt (s.rcalls idx)).act)) :=
        applyHandler_rinv _ _ _ (applyAct_rinv _ _ h)
      split
      · exact ih _ _ h1
      · exact h1
      · exact h1

/-- **a deny is never lost inside a pass**: if some invocation of the pass denied, the pass ends with a pending reply
or a cleaned stream — whatever later filters of the same pass returned -/
theorem recvLoop_deny (p : RPhase) (fs : List RFilter) (idx : Nat) (s : FState) (hr : Rinv s)
    (hd : ∃ iv ∈ (recvLoop p fs idx s).2, iv.2.isDeny = true) : Pending (recvLoop p fs idx s).1 := by
  induction fs generalizing idx s with
  | nil => obtain ⟨iv, h, _⟩ := hd; simp [recvLoop] at h
  | cons f rest ih =>
    simp only [recvLoop] at hd ⊢
    split
    · rename_i hph; rw [if_pos hph] at hd; exact ih _ _ hr hd
    · rename_i hph
      rw [if_neg hph] at hd
      have hr1 : Rinv (applyHandler (receiverHandler (f.verdictAt (s.rcalls idx)).status) p
          (applyAct { s with rcalls := bump s.rcalls idx } (f.verdictAt (s.rcalls idx)).act)) :=
        applyHandler_rinv _ _ _ (applyAct_rinv _ _ hr)
      split
      · rename_i hsw
        simp only [hsw] at hd
        obtain ⟨iv, hm, hdeny⟩ := hd
        cases hm with
        | head => exact recvLoop_pending _ _ _ _ (deny_pending s _ p hr hdeny)
        | tail _ hm' => exact ih _ _ hr1 ⟨iv, hm', hdeny⟩
      · rename_i hsw
        simp only [hsw] at hd
        obtain ⟨iv, hm, hdeny⟩ := hd
        simp at hm; subst hm
        exact deny_pending s _ p hr hdeny
      · rename_i hsw
        simp only [hsw] at hd
        obtain ⟨iv, hm, hdeny⟩ := hd
        simp at hm; subst hm
        exact deny_pending s _ p hr hdeny

/-- the reply-related fields of the stream state -/
def core (s : FState) : Bool × Bool × Option Resp × Option Nat × Bool :=
  (s.direct, s.cleaned, s.resp, s.statusVar, s.upRespReceived)

theorem nodeny_core (s : FState) (v : Verdict) (p : RPhase) (i : Nat) (hd : v.isDeny = false) :
    core (applyHandler (receiverHandler v.status) p (applyAct { s with rcalls := bump s.rcalls i } v.act)) = core s := by
  obtain ⟨act, st⟩ := v
  simp only [Verdict.isDeny, Bool.or_eq_false_iff] at hd
  obtain ⟨⟨h1, h2⟩, h3⟩ := hd
  have hact : act = .none := by cases act <;> simp [Act.answers] at h1 h2 ⊢
  subst hact
  have hst : st ≠ .termination := by simpa using h3
  cases st <;> simp [receiverHandler, applyHandler, applyAct, core] at hst ⊢ <;> (try split) <;> simp

/-- a pass without a denying verdict leaves the reply-related state untouched -/
theorem recvLoop_nodeny (p : RPhase) (fs : List RFilter) (idx : Nat) (s : FState)
    (hd : ∀ iv ∈ (recvLoop p fs idx s).2, iv.2.isDeny = false) : core (recvLoop p fs idx s).1 = core s := by
  induction fs generalizing idx s with
  | nil => rfl
  | cons f rest ih =>
    simp only [recvLoop] at hd ⊢
    split
    · rename_i hph; rw [if_pos hph] at hd; exact ih _ _ hd
    · rename_i hph
      rw [if_neg hph] at hd
      split
      · rename_i hsw
        simp only [hsw] at hd
        have h0 := hd _ (List.mem_cons_self ..)
        rw [ih _ _ (fun iv hm => hd iv (List.mem_cons_of_mem _ hm))]
        exact nodeny_core s _ p idx h0
      · rename_i hsw
        simp only [hsw] at hd
        have h0 := hd _ (List.mem_cons_self ..)
        exact nodeny_core s _ p idx h0
      · rename_i hsw
        simp only [hsw] at hd
        have h0 := hd _ (List.mem_cons_self ..)
        exact nodeny_core s _ p idx h0

end MosnVerif.Model.FilterChain
