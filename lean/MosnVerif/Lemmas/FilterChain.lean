import MosnVerif.Model.FilterChain
/-! lemmas about one pass of the receiver / sender filter loop -/
namespace MosnVerif.Model.FilterChain
open MosnVerif.Gen.FilterPhase

/-! ### local replies and the held response parts (Gen.ProxyReply) -/

/-- a header-only hijack CLEARS the held data, a hijack with body REPLACES it by its own -/
@[simp] theorem hijack_data_eff (body held : Bool) : applyEff (hijackDataEff body) body held = body := by
  cases body <;> rfl

/-- both hijack paths clear the held trailers -/
@[simp] theorem hijack_trailers_eff (body held : Bool) : applyEff (hijackTrailersEff body) false held = false := by
  cases body <;> rfl

/-- `SendDirectResponse(headers, nil, nil)` assigns both parts from its (absent) arguments -/
@[simp] theorem direct_data_eff (held : Bool) : applyEff Gen.ProxyReply.directData false held = false := rfl
@[simp] theorem direct_trailers_eff (held : Bool) : applyEff Gen.ProxyReply.directTrailers false held = false := rfl

/-- `sendHijackReply[WithBody]` in closed form: the stored response is exactly this reply -/
theorem sendHijack_eq (s : FState) (code : Nat) (body : Bool) :
    sendHijack s code body = { s with statusVar := some code, resp := some ⟨body, false⟩, direct := true } := by
  simp [sendHijack]

@[simp] theorem sendDirect_eq (s : FState) : sendDirect s = { s with resp := some ⟨false, false⟩, direct := true } := by
  simp [sendDirect]

theorem recvSwitch_keep_iff (st : FStatus) : recvSwitch st = .keepReturn ↔ asksAgain st := by
  cases st <;> simp [recvSwitch, asksAgain]

theorem ascFrom_mono {lb lb' : Nat} {l : List Inv} (h : lb' ≤ lb) (ha : ascFrom lb l) : ascFrom lb' l := by
  cases l with
  | nil => trivial
  | cons iv r => exact ⟨Nat.le_trans h ha.1, ha.2⟩

/-- **order inside one pass**: the invocations of one `RunReceiverFilter` call have strictly increasing indices ≥ the
start cursor -/
theorem recvLoop_asc (p : RPhase) (fs : List RFilter) (idx : Nat) (s : FState) :
    ascFrom idx (recvLoop p fs idx s).2 := by
  induction fs generalizing idx s with
  | nil => simp [recvLoop, ascFrom]
  | cons f rest ih =>
    simp only [recvLoop]
    split
    · exact ascFrom_mono (Nat.le_succ idx) (ih _ _)
    · split
      · exact ⟨Nat.le_refl _, ih _ _⟩
      · exact ⟨Nat.le_refl _, trivial⟩
      · exact ⟨Nat.le_refl _, trivial⟩

theorem ascFrom_lb {lb : Nat} {l : List Inv} (ha : ascFrom lb l) : ∀ iv ∈ l, lb ≤ iv.1 := by
  induction l generalizing lb with
  | nil => intro iv h; cases h
  | cons a r ih =>
    intro iv h
    cases h with
    | head => exact ha.1
    | tail _ h' => exact Nat.le_trans (Nat.le_trans ha.1 (Nat.le_succ _)) (ih ha.2 iv h')

/-- **once**: in a strictly increasing list every index occurs at most once -/
theorem ascFrom_count_le_one {lb : Nat} {l : List Inv} (ha : ascFrom lb l) (i : Nat) :
    (l.filter (fun iv => iv.1 == i)).length ≤ 1 := by
  induction l generalizing lb with
  | nil => simp
  | cons a r ih =>
    simp only [List.filter_cons]
    split
    · rename_i h
      have hai : a.1 = i := by simpa using h
      have : r.filter (fun iv => iv.1 == i) = [] := by
        rw [List.filter_eq_nil_iff]
        intro iv hiv
        have := ascFrom_lb ha.2 iv hiv
        simp; omega
      simp [this]
    · exact ih ha.2

/-- every invocation of a pass is of a filter registered for the phase of the pass, and returns what the filter's
script says for its invocation count -/
theorem recvLoop_mem (p : RPhase) (fs : List RFilter) (idx : Nat) (s : FState) :
    ∀ iv ∈ (recvLoop p fs idx s).2, ∃ f, fs[iv.1 - idx]? = some f ∧ idx ≤ iv.1 ∧ f.phase = p ∧
      iv.2 = f.verdictAt (s.rcalls iv.1) := by
  induction fs generalizing idx s with
  | nil => intro iv h; simp [recvLoop] at h
  | cons f rest ih =>
    intro iv h
    simp only [recvLoop] at h
    split at h
    · obtain ⟨g, hg, hle, hp, hv⟩ := ih _ _ iv h
      refine ⟨g, ?_, by omega, hp, hv⟩
      have : iv.1 - idx = (iv.1 - (idx + 1)) + 1 := by omega
      rw [this]; simpa using hg
    · rename_i hph
      have hph' : f.phase = p := by simpa using hph
      have head : ∀ iv : Inv, iv = (idx, f.verdictAt (s.rcalls idx)) →
          ∃ g, (f :: rest)[iv.1 - idx]? = some g ∧ idx ≤ iv.1 ∧ g.phase = p ∧ iv.2 = g.verdictAt (s.rcalls iv.1) := by
        intro iv e; subst e; exact ⟨f, by simp, Nat.le_refl _, hph', rfl⟩
      split at h
      · cases h with
        | head => exact head _ rfl
        | tail _ h' =>
          obtain ⟨g, hg, hle, hp, hv⟩ := ih _ _ iv h'
          refine ⟨g, ?_, by omega, hp, ?_⟩
          · have : iv.1 - idx = (iv.1 - (idx + 1)) + 1 := by omega
            rw [this]; simpa using hg
          · rw [hv]
            -- the invocation count of a later filter is untouched by this invocation and by handler effects
            have hne : iv.1 ≠ idx := by omega
            have : ∀ (e : HEffect) (t : FState), (applyHandler e p t).rcalls = t.rcalls := by
              intro e t; cases e <;> simp [applyHandler, cleanStream] <;> split <;> rfl
            have h2 : ∀ (t : FState) (a : Act), (applyAct t a).rcalls = t.rcalls := by
              intro t a; cases a <;> simp [applyAct, sendHijack] <;> split <;> rfl
            simp [this, h2, bump, hne]
      · simp at h; exact head _ h
      · simp at h; exact head _ h

theorem cursorAfter_cons (a : Inv) (l : List Inv) (h : l ≠ []) : cursorAfter (a :: l) = cursorAfter l := by
  unfold cursorAfter
  cases l with
  | nil => exact absurd rfl h
  | cons b r => simp [List.getLast?_cons_cons]

theorem cursorAfter_single (a : Inv) : cursorAfter [a] = if asksAgain a.2.status then a.1 else 0 := by
  simp [cursorAfter]

/-- **resume (cursor)**: after a pass the cursor stands at the last invoked filter if that one asked for
re-match / re-choose, and at 0 otherwise -/
theorem recvLoop_cursor (p : RPhase) (fs : List RFilter) (idx : Nat) (s : FState) :
    (recvLoop p fs idx s).1.cursor = cursorAfter (recvLoop p fs idx s).2 := by
  induction fs generalizing idx s with
  | nil => simp [recvLoop, cursorAfter]
  | cons f rest ih =>
    simp only [recvLoop]
    split
    · exact ih _ _
    · split
      · rename_i hsw
        have hna : ¬ asksAgain (f.verdictAt (s.rcalls idx)).status := by
          rw [← recvSwitch_keep_iff, hsw]; simp
        simp only []
        rw [ih]
        generalize (recvLoop p rest (idx + 1) _).2 = l
        cases l with
        | nil => simp [cursorAfter, hna]
        | cons b r => exact (cursorAfter_cons _ (b :: r) (by simp)).symm
      · rename_i hsw
        have hna : ¬ asksAgain (f.verdictAt (s.rcalls idx)).status := by
          rw [← recvSwitch_keep_iff, hsw]; simp
        simp [cursorAfter_single, hna]
      · rename_i hsw
        have ha : asksAgain (f.verdictAt (s.rcalls idx)).status := by
          rw [← recvSwitch_keep_iff, hsw]
        simp [cursorAfter_single, ha]

/-- the regenerated start guard, in the vocabulary of the theorems: a kept cursor only resumes a pass of the same phase -/
theorem startOf_eq (s : FState) (p : RPhase) :
    startOf s p = if s.cursor ≠ 0 ∧ p ≠ s.cphase then 0 else s.cursor := by
  unfold startOf recvStart
  by_cases h0 : s.cursor = 0 <;> by_cases hp : s.cphase = p <;> simp [h0, hp]
  all_goals (first | (intro h; exact absurd h.symm hp) | skip)

/-- a pass that leaves the cursor at a filter records its own phase with it -/
theorem recvLoop_cphase (p : RPhase) (fs : List RFilter) (idx : Nat) (s : FState) :
    (recvLoop p fs idx s).1.cursor ≠ 0 → (recvLoop p fs idx s).1.cphase = p := by
  induction fs generalizing idx s with
  | nil => intro h; exact absurd rfl h
  | cons f rest ih =>
    simp only [recvLoop]
    split
    · exact ih _ _
    · split
      · exact ih _ _
      · intro h; exact absurd rfl h
      · intro _; simp [keepRecordsPhase]

/-! ### what a pass does to the pending-reply flags -/

/-- a local reply is pending or the stream is already cleaned -/
def Pending (s : FState) : Prop := s.direct = true ∨ s.cleaned = true

/-- a response object or a won `upstreamResponseReceived` CAS only exists together with a pending reply (true in
the receive phases: nothing has been sent upstream yet) -/
def Rinv (s : FState) : Prop := (s.resp.isSome = true ∨ s.upRespReceived = true) → Pending s

theorem applyAct_pending (s : FState) (a : Act) (h : Pending s) : Pending (applyAct s a) := by
  unfold Pending at *
  cases a <;> simp [applyAct, sendHijack] <;> try exact h
  split <;> simp [h]

theorem applyHandler_pending (e : HEffect) (p : RPhase) (s : FState) (h : Pending s) : Pending (applyHandler e p s) := by
  unfold Pending at *
  cases e <;> simp [applyHandler, cleanStream] <;> try exact h
  split <;> exact h

theorem applyAct_rinv (s : FState) (a : Act) (h : Rinv s) : Rinv (applyAct s a) := by
  unfold Rinv Pending at *
  cases a <;> simp [applyAct, sendHijack] <;> try exact h
  split <;> simp_all

theorem applyHandler_rinv (e : HEffect) (p : RPhase) (s : FState) (h : Rinv s) : Rinv (applyHandler e p s) := by
  unfold Rinv Pending at *
  cases e <;> simp [applyHandler, cleanStream] <;> try exact h
  split <;> exact h

/-- a denying verdict leaves a pending reply (or a cleaned stream) behind -/
theorem deny_pending (s : FState) (v : Verdict) (p : RPhase) (hr : Rinv s) (hd : v.isDeny = true) :
    Pending (applyHandler (receiverHandler v.status) p (applyAct { s with rcalls := bump s.rcalls i } v.act)) := by
  obtain ⟨act, st⟩ := v
  have hr' : Rinv { s with rcalls := bump s.rcalls i } := hr
  simp only [Verdict.isDeny, Bool.or_eq_true] at hd
  rcases hd with (hd | hd) | hd
  · apply applyHandler_pending
    cases act <;> simp [Act.answers] at hd <;> simp [applyAct, sendHijack, Pending]
  · apply applyHandler_pending
    cases act <;> simp at hd
    simp only [applyAct]
    split
    · rename_i hc
      simp only [Bool.or_eq_true] at hc
      rcases hc with (hc | hc) | hc
      · exact hr' (Or.inl hc)
      · exact Or.inr hc
      · exact hr' (Or.inr hc)
    · simp [sendHijack, Pending]
  · have : st = .termination := by simpa using hd
    subst this
    simp [receiverHandler, applyHandler, cleanStream, Pending]

theorem recvLoop_pending (p : RPhase) (fs : List RFilter) (idx : Nat) (s : FState) (h : Pending s) :
    Pending (recvLoop p fs idx s).1 := by
  induction fs generalizing idx s with
  | nil => exact h
  | cons f rest ih =>
    simp only [recvLoop]
    split
    · exact ih _ _ h
    · have h1 : Pending (applyHandler (receiverHandler (f.verdictAt (s.rcalls idx)).status) p
          (applyAct { s with rcalls := bump s.rcalls idx } (f.verdictAt (s.rcalls idx)).act)) :=
        applyHandler_pending _ _ _ (applyAct_pending _ _ h)
      split
      · exact ih _ _ h1
      · exact h1
      · exact h1

theorem recvLoop_rinv (p : RPhase) (fs : List RFilter) (idx : Nat) (s : FState) (h : Rinv s) :
    Rinv (recvLoop p fs idx s).1 := by
  induction fs generalizing idx s with
  | nil => exact h
  | cons f rest ih =>
    simp only [recvLoop]
    split
    · exact ih _ _ h
    · have h1 : Rinv (applyHandler (receiverHandler (f.verdictAt (s.rcalls idx)).status) p
          (applyAct { s with rcalls := bump s.rcalls idx } (f.verdictAt (s.rcalls idx)).act)) :=
        applyHandler_rinv _ _ _ (applyAct_rinv _ _ h)
      split
      · exact ih _ _ h1
      · exact h1
      · exact h1

/-- **a deny is never lost inside a pass**: if some invocation of the pass denied, the pass ends with a pending reply
or a cleaned stream — whatever later filters of the same pass returned -/
theorem recvLoop_deny (p : RPhase) (fs : List RFilter) (idx : Nat) (s : FState) (hr : Rinv s)
    (hd : ∃ iv ∈ (recvLoop p fs idx s).2, iv.2.isDeny = true) : Pending (recvLoop p fs idx s).1 := by
  induction fs generalizing idx s with
  | nil => obtain ⟨iv, h, _⟩ := hd; simp [recvLoop] at h
  | cons f rest ih =>
    simp only [recvLoop] at hd ⊢
    split
    · rename_i hph; rw [if_pos hph] at hd; exact ih _ _ hr hd
    · rename_i hph
      rw [if_neg hph] at hd
      have hr1 : Rinv (applyHandler (receiverHandler (f.verdictAt (s.rcalls idx)).status) p
          (applyAct { s with rcalls := bump s.rcalls idx } (f.verdictAt (s.rcalls idx)).act)) :=
        applyHandler_rinv _ _ _ (applyAct_rinv _ _ hr)
      split
      · rename_i hsw
        simp only [hsw] at hd
        obtain ⟨iv, hm, hdeny⟩ := hd
        cases hm with
        | head => exact recvLoop_pending _ _ _ _ (deny_pending s _ p hr hdeny)
        | tail _ hm' => exact ih _ _ hr1 ⟨iv, hm', hdeny⟩
      · rename_i hsw
        simp only [hsw] at hd
        obtain ⟨iv, hm, hdeny⟩ := hd
        simp at hm; subst hm
        exact deny_pending s _ p hr hdeny
      · rename_i hsw
        simp only [hsw] at hd
        obtain ⟨iv, hm, hdeny⟩ := hd
        simp at hm; subst hm
        exact deny_pending s _ p hr hdeny

/-- the reply-related fields of the stream state -/
def core (s : FState) : Bool × Bool × Option Resp × Option Nat × Bool :=
  (s.direct, s.cleaned, s.resp, s.statusVar, s.upRespReceived)

theorem nodeny_core (s : FState) (v : Verdict) (p : RPhase) (i : Nat) (hd : v.isDeny = false) :
    core (applyHandler (receiverHandler v.status) p (applyAct { s with rcalls := bump s.rcalls i } v.act)) = core s := by
  obtain ⟨act, st⟩ := v
  simp only [Verdict.isDeny, Bool.or_eq_false_iff] at hd
  obtain ⟨⟨h1, h2⟩, h3⟩ := hd
  have hact : act = .none := by cases act <;> simp [Act.answers] at h1 h2 ⊢
  subst hact
  have hst : st ≠ .termination := by simpa using h3
  cases st <;> simp [receiverHandler, applyHandler, applyAct, core] at hst ⊢ <;> (try split) <;> simp

/-- a pass without a denying verdict leaves the reply-related state untouched -/
theorem recvLoop_nodeny (p : RPhase) (fs : List RFilter) (idx : Nat) (s : FState)
    (hd : ∀ iv ∈ (recvLoop p fs idx s).2, iv.2.isDeny = false) : core (recvLoop p fs idx s).1 = core s := by
  induction fs generalizing idx s with
  | nil => rfl
  | cons f rest ih =>
    simp only [recvLoop] at hd ⊢
    split
    · rename_i hph; rw [if_pos hph] at hd; exact ih _ _ hd
    · rename_i hph
      rw [if_neg hph] at hd
      split
      · rename_i hsw
        simp only [hsw] at hd
        have h0 := hd _ (List.mem_cons_self ..)
        rw [ih _ _ (fun iv hm => hd iv (List.mem_cons_of_mem _ hm))]
        exact nodeny_core s _ p idx h0
      · rename_i hsw
        simp only [hsw] at hd
        have h0 := hd _ (List.mem_cons_self ..)
        exact nodeny_core s _ p idx h0
      · rename_i hsw
        simp only [hsw] at hd
        have h0 := hd _ (List.mem_cons_self ..)
        exact nodeny_core s _ p idx h0

/-! ### the reply a pass leaves behind, the again-phase, the sender loop -/

/-- during a pass that started in the receive phases: a won `upstreamResponseReceived` CAS implies a response object,
and the stream is not cleaned (a termination ends the pass at once) -/
def ActOK (s : FState) : Prop := s.cleaned = false ∧ (s.upRespReceived = true → s.resp.isSome = true)

theorem applyAct_reply (s : FState) (a : Act) (h : ActOK s) :
    ((applyAct s a).resp, (applyAct s a).statusVar) = replyOf [⟨a, .Continue⟩] (s.resp, s.statusVar) ∧
    ActOK (applyAct s a) := by
  obtain ⟨hc, hu⟩ := h
  cases a with
  | none => exact ⟨rfl, hc, hu⟩
  | hijack k b => exact ⟨by simp [applyAct, sendHijack, replyOf], by simpa [applyAct, sendHijack] using hc, fun _ => by simp [applyAct, sendHijack]⟩
  | direct => exact ⟨by simp [applyAct, replyOf], by simpa [applyAct] using hc, fun _ => by simp [applyAct]⟩
  | terminate k =>
    simp only [applyAct, replyOf, hc, Bool.or_false]
    by_cases hr : s.resp.isSome = true
    · simp [hr, ActOK, hc, hu]
    · have hr' : s.resp.isSome = false := by simpa using hr
      have hu' : s.upRespReceived = false := by
        cases h : s.upRespReceived
        · rfl
        · rw [hu h] at hr'; cases hr'
      simp [hr', hu', sendHijack, ActOK, hc]

theorem replyOf_cons (v : Verdict) (l : List Verdict) (acc : Option Resp × Option Nat) :
    replyOf (v :: l) acc = replyOf l (replyOf [⟨v.act, .Continue⟩] acc) := by
  obtain ⟨resp, code⟩ := acc
  simp [replyOf]

theorem replyOf_append (l1 l2 : List Verdict) (acc : Option Resp × Option Nat) :
    replyOf (l1 ++ l2) acc = replyOf l2 (replyOf l1 acc) := by
  induction l1 generalizing acc with
  | nil => rfl
  | cons v r ih =>
    obtain ⟨resp, code⟩ := acc
    simp [replyOf, ih]

theorem replyOf_noact (l : List Verdict) (acc : Option Resp × Option Nat) (h : ∀ v ∈ l, v.act = .none) :
    replyOf l acc = acc := by
  induction l generalizing acc with
  | nil => rfl
  | cons v r ih =>
    obtain ⟨resp, code⟩ := acc
    simp only [replyOf, h v (by simp)]
    exact ih _ (fun x hx => h x (by simp [hx]))

/-- the handler of a status that does not end the pass touches nothing; `termination` cleans -/
theorem handler_fields (st : FStatus) (p : RPhase) (s : FState) :
    (applyHandler (receiverHandler st) p s).resp = s.resp ∧ (applyHandler (receiverHandler st) p s).statusVar = s.statusVar ∧
    (applyHandler (receiverHandler st) p s).upRespReceived = s.upRespReceived ∧
    (applyHandler (receiverHandler st) p s).scalls = s.scalls ∧ (applyHandler (receiverHandler st) p s).scursor = s.scursor ∧
    (applyHandler (receiverHandler st) p s).direct = s.direct ∧
    (recvSwitch st = .next → applyHandler (receiverHandler st) p s = s) ∧
    ((applyHandler (receiverHandler st) p s).cleaned = true → s.cleaned = true ∨ st = .termination) := by
  cases st <;> simp [receiverHandler, applyHandler, cleanStream, recvSwitch] <;> split <;> simp

/-- the pending response and status code after a pass are the fold of the handler calls of its invocations -/
theorem recvLoop_reply (p : RPhase) (fs : List RFilter) (idx : Nat) (s : FState) (h : ActOK s) :
    ((recvLoop p fs idx s).1.resp, (recvLoop p fs idx s).1.statusVar) =
      replyOf ((recvLoop p fs idx s).2.map (·.2)) (s.resp, s.statusVar) := by
  induction fs generalizing idx s with
  | nil => rfl
  | cons f rest ih =>
    simp only [recvLoop]
    split
    · exact ih _ _ h
    · generalize hv : f.verdictAt (s.rcalls idx) = v
      have h0 : ActOK { s with rcalls := bump s.rcalls idx } := h
      obtain ⟨e1, ok1⟩ := applyAct_reply { s with rcalls := bump s.rcalls idx } v.act h0
      obtain ⟨f1, f2, f3, _, _, _, f7, _⟩ := handler_fields v.status p (applyAct { s with rcalls := bump s.rcalls idx } v.act)
      have e1' : ((applyAct { s with rcalls := bump s.rcalls idx } v.act).resp,
          (applyAct { s with rcalls := bump s.rcalls idx } v.act).statusVar) = replyOf [⟨v.act, .Continue⟩] (s.resp, s.statusVar) := e1
      split
      · rename_i hsw
        simp only [List.map_cons]
        rw [replyOf_cons, ← e1']
        rw [f7 hsw]
        exact ih _ _ ok1
      · simp only [List.map_cons, List.map_nil]
        rw [replyOf_cons, ← e1']
        simp [replyOf, f1, f2]
      · simp only [List.map_cons, List.map_nil]
        rw [replyOf_cons, ← e1']
        simp [replyOf, f1, f2]

/-- the sender-side state is untouched by a receiver pass -/
theorem recvLoop_sender (p : RPhase) (fs : List RFilter) (idx : Nat) (s : FState) :
    (recvLoop p fs idx s).1.scalls = s.scalls ∧ (recvLoop p fs idx s).1.scursor = s.scursor := by
  induction fs generalizing idx s with
  | nil => exact ⟨rfl, rfl⟩
  | cons f rest ih =>
    simp only [recvLoop]
    split
    · exact ih _ _
    · generalize hv : f.verdictAt (s.rcalls idx) = v
      obtain ⟨_, _, _, f4, f5, _, _, _⟩ := handler_fields v.status p (applyAct { s with rcalls := bump s.rcalls idx } v.act)
      have a1 : (applyAct { s with rcalls := bump s.rcalls idx } v.act).scalls = s.scalls ∧
          (applyAct { s with rcalls := bump s.rcalls idx } v.act).scursor = s.scursor := by
        cases v.act <;> simp [applyAct, sendHijack] <;> split <;> simp [sendHijack]
      split
      · simp only []; rw [(ih _ _).1, (ih _ _).2, f4, f5]; exact a1
      · simp only []; rw [f4, f5]; exact a1
      · simp only []; rw [f4, f5]; exact a1

/-- a pass cleans the stream only through a `termination` status -/
theorem recvLoop_cleaned (p : RPhase) (fs : List RFilter) (idx : Nat) (s : FState)
    (h : (recvLoop p fs idx s).1.cleaned = true) :
    s.cleaned = true ∨ ∃ iv ∈ (recvLoop p fs idx s).2, iv.2.status = .termination := by
  induction fs generalizing idx s with
  | nil => exact Or.inl h
  | cons f rest ih =>
    simp only [recvLoop] at h ⊢
    split
    · rename_i hph; rw [if_pos hph] at h; exact ih _ _ h
    · rename_i hph
      rw [if_neg hph] at h
      generalize hv : f.verdictAt (s.rcalls idx) = v at h ⊢
      obtain ⟨_, _, _, _, _, _, _, f8⟩ := handler_fields v.status p (applyAct { s with rcalls := bump s.rcalls idx } v.act)
      have a1 : (applyAct { s with rcalls := bump s.rcalls idx } v.act).cleaned = s.cleaned := by
        cases v.act <;> simp [applyAct, sendHijack] <;> split <;> simp [sendHijack]
      have fin : (applyHandler (receiverHandler v.status) p (applyAct { s with rcalls := bump s.rcalls idx } v.act)).cleaned = true →
          s.cleaned = true ∨ v.status = .termination := by
        intro hh; rcases f8 hh with h' | h'
        · rw [a1] at h'; exact Or.inl h'
        · exact Or.inr h'
      split
      · rename_i hsw
        simp only [hsw] at h
        rcases ih _ _ h with h' | ⟨iv, hiv, ht⟩
        · rcases fin h' with h'' | h''
          · exact Or.inl h''
          · exact Or.inr ⟨(idx, v), by simp, h''⟩
        · exact Or.inr ⟨iv, by simp [hiv], ht⟩
      · rename_i hsw
        simp only [hsw] at h
        rcases fin h with h'' | h''
        · exact Or.inl h''
        · exact Or.inr ⟨(idx, v), by simp, h''⟩
      · rename_i hsw
        simp only [hsw] at h
        rcases fin h with h'' | h''
        · exact Or.inl h''
        · exact Or.inr ⟨(idx, v), by simp, h''⟩

/-- a pending direct response always comes with a response object -/
theorem recvLoop_direct_resp (p : RPhase) (fs : List RFilter) (idx : Nat) (s : FState)
    (h : s.direct = true → s.resp.isSome = true) :
    (recvLoop p fs idx s).1.direct = true → (recvLoop p fs idx s).1.resp.isSome = true := by
  induction fs generalizing idx s with
  | nil => exact h
  | cons f rest ih =>
    simp only [recvLoop]
    split
    · exact ih _ _ h
    · generalize hv : f.verdictAt (s.rcalls idx) = v
      obtain ⟨f1, _, _, _, _, f6, _, _⟩ := handler_fields v.status p (applyAct { s with rcalls := bump s.rcalls idx } v.act)
      have a1 : (applyAct { s with rcalls := bump s.rcalls idx } v.act).direct = true →
          (applyAct { s with rcalls := bump s.rcalls idx } v.act).resp.isSome = true := by
        cases v.act <;> simp [applyAct, sendHijack] <;> (try split) <;> simp_all [sendHijack]
      have h1 : (applyHandler (receiverHandler v.status) p (applyAct { s with rcalls := bump s.rcalls idx } v.act)).direct = true →
          (applyHandler (receiverHandler v.status) p (applyAct { s with rcalls := bump s.rcalls idx } v.act)).resp.isSome = true := by
        rw [f1, f6]; exact a1
      split
      · exact ih _ _ h1
      · exact h1
      · exact h1

/-- the again-phase a pass can leave is MatchRoute or ChooseHost (or nothing) -/
theorem recvLoop_again_vals (p : RPhase) (fs : List RFilter) (idx : Nat) (s : FState)
    (h : s.again = InitPhase ∨ s.again = MatchRoute ∨ s.again = ChooseHost) :
    (recvLoop p fs idx s).1.again = InitPhase ∨ (recvLoop p fs idx s).1.again = MatchRoute ∨
      (recvLoop p fs idx s).1.again = ChooseHost := by
  induction fs generalizing idx s with
  | nil => exact h
  | cons f rest ih =>
    simp only [recvLoop]
    split
    · exact ih _ _ h
    · generalize hv : f.verdictAt (s.rcalls idx) = v
      have a1 : (applyAct { s with rcalls := bump s.rcalls idx } v.act).again = s.again := by
        cases v.act <;> simp [applyAct, sendHijack] <;> split <;> simp [sendHijack]
      have h1 : (applyHandler (receiverHandler v.status) p (applyAct { s with rcalls := bump s.rcalls idx } v.act)).again = InitPhase ∨
          (applyHandler (receiverHandler v.status) p (applyAct { s with rcalls := bump s.rcalls idx } v.act)).again = MatchRoute ∨
          (applyHandler (receiverHandler v.status) p (applyAct { s with rcalls := bump s.rcalls idx } v.act)).again = ChooseHost := by
        cases v.status <;> simp only [receiverHandler, applyHandler, cleanStream] <;> (try split) <;> simp [a1, h]
      split
      · exact ih _ _ h1
      · exact h1
      · exact h1

/-- the `case` number of downStream.receive that runs the receiver filters of a phase -/
def pn : RPhase → Nat
  | .BeforeRoute => DownFilter
  | .AfterRoute => DownFilterAfterRoute
  | .AfterChooseHost => DownFilterAfterChooseHost

theorem recvPhaseOf_pn (p : RPhase) : recvPhaseOf (pn p) = some p := by cases p <;> rfl

theorem recvPhaseOf_eq {n : Nat} {p : RPhase} (h : recvPhaseOf n = some p) : n = pn p := by
  unfold recvPhaseOf at h
  split at h
  · cases h; assumption
  · split at h
    · cases h; assumption
    · split at h
      · cases h; assumption
      · cases h

/-- what the last invocation of a pass tells about the state the pass leaves (pass started with no again-phase) -/
theorem recvLoop_last (p : RPhase) (fs : List RFilter) (idx : Nat) (s : FState) (h0 : s.again = InitPhase) :
    ((recvLoop p fs idx s).1.again ≠ InitPhase →
      ∃ iv, (recvLoop p fs idx s).2.getLast? = some iv ∧ accepted p iv.2.status = true ∧
        (recvLoop p fs idx s).1.again + 1 = pn p ∧ (recvLoop p fs idx s).1.cursor = iv.1) ∧
    (∀ iv, (recvLoop p fs idx s).2.getLast? = some iv → iv.2.status = .termination →
      (recvLoop p fs idx s).1.cleaned = true) := by
  induction fs generalizing idx s with
  | nil => exact ⟨fun h => absurd h0 h, fun iv h => by simp [recvLoop] at h⟩
  | cons f rest ih =>
    simp only [recvLoop]
    split
    · exact ih _ _ h0
    · generalize hv : f.verdictAt (s.rcalls idx) = v
      have a1 : (applyAct { s with rcalls := bump s.rcalls idx } v.act).again = InitPhase := by
        rw [← h0]; cases v.act <;> simp [applyAct, sendHijack] <;> split <;> simp [sendHijack]
      generalize hs1 : applyAct { s with rcalls := bump s.rcalls idx } v.act = s1 at a1 ⊢
      cases hst : v.status
      · -- Continue
        simp only [recvSwitch, receiverHandler, applyHandler]
        obtain ⟨i1, i2⟩ := ih (idx + 1) s1 a1
        refine ⟨fun h => ?_, fun iv hl ht => ?_⟩
        · obtain ⟨iv, hl, r⟩ := i1 h
          refine ⟨iv, ?_, r⟩
          cases hl' : (recvLoop p rest (idx + 1) s1).2 with
          | nil => rw [hl'] at hl; cases hl
          | cons b r' => rw [hl'] at hl; rw [List.getLast?_cons_cons]; exact hl
        · cases hl' : (recvLoop p rest (idx + 1) s1).2 with
          | nil => rw [hl'] at hl; simp at hl; subst hl; rw [hst] at ht; cases ht
          | cons b r' => rw [hl', List.getLast?_cons_cons] at hl; exact i2 iv (by rw [hl']; exact hl) ht
      · -- Stop
        simp only [recvSwitch, receiverHandler, applyHandler]
        exact ⟨fun h => absurd a1 h, fun iv hl ht => by simp at hl; subst hl; rw [hst] at ht; cases ht⟩
      · -- termination
        simp only [recvSwitch, receiverHandler, applyHandler, cleanStream]
        exact ⟨fun h => absurd a1 h, fun _ _ _ => trivial⟩
      · -- ReMatchRoute
        simp only [recvSwitch, receiverHandler, applyHandler]
        split
        · rename_i hp
          subst hp
          exact ⟨fun _ => ⟨(idx, v), rfl, by simp [accepted, hst], rfl, rfl⟩,
            fun iv hl ht => by simp at hl; subst hl; rw [hst] at ht; cases ht⟩
        · exact ⟨fun h => absurd a1 h, fun iv hl ht => by simp at hl; subst hl; rw [hst] at ht; cases ht⟩
      · -- ReChooseHost
        simp only [recvSwitch, receiverHandler, applyHandler]
        split
        · rename_i hp
          subst hp
          exact ⟨fun _ => ⟨(idx, v), rfl, by simp [accepted, hst], rfl, rfl⟩,
            fun iv hl ht => by simp at hl; subst hl; rw [hst] at ht; cases ht⟩
        · exact ⟨fun h => absurd a1 h, fun iv hl ht => by simp at hl; subst hl; rw [hst] at ht; cases ht⟩
      · -- unknown
        simp only [recvSwitch, receiverHandler, applyHandler]
        obtain ⟨i1, i2⟩ := ih (idx + 1) s1 a1
        refine ⟨fun h => ?_, fun iv hl ht => ?_⟩
        · obtain ⟨iv, hl, r⟩ := i1 h
          refine ⟨iv, ?_, r⟩
          cases hl' : (recvLoop p rest (idx + 1) s1).2 with
          | nil => rw [hl'] at hl; cases hl
          | cons b r' => rw [hl'] at hl; rw [List.getLast?_cons_cons]; exact hl
        · cases hl' : (recvLoop p rest (idx + 1) s1).2 with
          | nil => rw [hl'] at hl; simp at hl; subst hl; rw [hst] at ht; cases ht
          | cons b r' => rw [hl', List.getLast?_cons_cons] at hl; exact i2 iv (by rw [hl']; exact hl) ht

theorem sendSwitch_next_iff (st : FStatus) : sendSwitch st = .next ↔ continues st = true := by
  cases st <;> simp [sendSwitch, continues]

theorem sendSwitch_not_keep (st : FStatus) : sendSwitch st ≠ .keepReturn := by
  cases st <;> simp [sendSwitch]

/-- **each sender filter once, in order**: a sender pass over fresh filters makes exactly the invocations `sendRun` -/
theorem sendLoop_run (fs : List SFilter) (idx : Nat) (s : FState) (h : ∀ j, idx ≤ j → s.scalls j = 0) :
    (sendLoop fs idx s).2 = sendRun fs idx := by
  induction fs generalizing idx s with
  | nil => rfl
  | cons f rest ih =>
    simp only [sendLoop, sendRun, h idx (Nat.le_refl _)]
    have hs : ∀ st : FStatus, ∀ j, idx + 1 ≤ j →
        (applyHandler (senderHandler st) .BeforeRoute { s with scalls := bump s.scalls idx }).scalls j = 0 := by
      intro st j hj
      have : (applyHandler (senderHandler st) .BeforeRoute { s with scalls := bump s.scalls idx }).scalls = bump s.scalls idx := by
        cases st <;> simp [senderHandler, applyHandler, cleanStream]
      rw [this]; simp only [bump]; rw [if_neg (by omega)]; exact h j (by omega)
    split
    · rename_i hsw
      rw [if_pos ((sendSwitch_next_iff _).mp hsw)]
      simp only []
      rw [ih _ _ (hs _)]
    · rename_i hsw
      have : continues (f.statusAt 0) = false := by
        cases hc : continues (f.statusAt 0)
        · rfl
        · rw [(sendSwitch_next_iff _).mpr hc] at hsw; cases hsw
      simp [this]
    · rename_i hsw; exact absurd hsw (sendSwitch_not_keep _)

/-- a sender pass leaves the reply untouched, resets its cursor, and cleans only through a `termination` status -/
theorem sendLoop_fields (fs : List SFilter) (idx : Nat) (s : FState) :
    (sendLoop fs idx s).1.resp = s.resp ∧ (sendLoop fs idx s).1.statusVar = s.statusVar ∧
    (sendLoop fs idx s).1.direct = s.direct ∧ (sendLoop fs idx s).1.upRespReceived = s.upRespReceived ∧
    (sendLoop fs idx s).1.scursor = 0 ∧
    ((sendLoop fs idx s).1.cleaned = true → s.cleaned = true ∨ ∃ iv ∈ (sendLoop fs idx s).2, iv.2 = .termination) := by
  induction fs generalizing idx s with
  | nil => exact ⟨rfl, rfl, rfl, rfl, rfl, Or.inl⟩
  | cons f rest ih =>
    simp only [sendLoop]
    generalize hst : f.statusAt (s.scalls idx) = st
    have hh : (applyHandler (senderHandler st) .BeforeRoute { s with scalls := bump s.scalls idx }).resp = s.resp ∧
        (applyHandler (senderHandler st) .BeforeRoute { s with scalls := bump s.scalls idx }).statusVar = s.statusVar ∧
        (applyHandler (senderHandler st) .BeforeRoute { s with scalls := bump s.scalls idx }).direct = s.direct ∧
        (applyHandler (senderHandler st) .BeforeRoute { s with scalls := bump s.scalls idx }).upRespReceived = s.upRespReceived ∧
        ((applyHandler (senderHandler st) .BeforeRoute { s with scalls := bump s.scalls idx }).cleaned = true →
          s.cleaned = true ∨ st = .termination) := by
      cases st <;> simp [senderHandler, applyHandler, cleanStream]
    obtain ⟨h1, h2, h3, h4, h5⟩ := hh
    split
    · obtain ⟨i1, i2, i3, i4, i5, i6⟩ := ih (idx + 1) (applyHandler (senderHandler st) .BeforeRoute { s with scalls := bump s.scalls idx })
      refine ⟨by simp only []; rw [i1, h1], by simp only []; rw [i2, h2], by simp only []; rw [i3, h3],
        by simp only []; rw [i4, h4], by simp only []; exact i5, ?_⟩
      intro hc
      rcases i6 hc with h' | ⟨iv, hiv, ht⟩
      · rcases h5 h' with h'' | h''
        · exact Or.inl h''
        · exact Or.inr ⟨(idx, st), by simp, h''⟩
      · exact Or.inr ⟨iv, by simp [hiv], ht⟩
    · refine ⟨h1, h2, h3, h4, rfl, ?_⟩
      intro hc
      rcases h5 hc with h'' | h''
      · exact Or.inl h''
      · exact Or.inr ⟨(idx, st), by simp, h''⟩
    · rename_i hsw; exact absurd hsw (sendSwitch_not_keep _)

end MosnVerif.Model.FilterChain
