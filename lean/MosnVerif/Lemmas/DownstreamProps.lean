import MosnVerif.Lemmas.Downstream
/-! consequences of the invariant used by the property theorems of C03 and C10 -/
namespace MosnVerif.Model.Downstream
open MosnVerif.Gen.ProxyPhase MosnVerif.Gen.ProxyReason MosnVerif.Gen.ProxyRetry

/-! ### the sender automaton in terms of plain counts -/

theorem sndStep_bad_mono (g : Snd) (e : Ev) (h : g.bad = true) : (sndStep g e).bad = true := by
  cases e <;> simp [sndStep, h]

theorem foldl_bad_mono (t : List Ev) (g : Snd) (h : g.bad = true) : (t.foldl sndStep g).bad = true := by
  induction t generalizing g with
  | nil => exact h
  | cons e r ih => exact ih _ (sndStep_bad_mono g e h)

/-- a trace accepted by the sender automaton from state `g` has at most one more `AppendHeaders` (none when headers
were already sent) and at most one more terminal call (end of stream or reset; none when the stream already ended) -/
theorem counts_of_ok (t : List Ev) (g : Snd) (h : (t.foldl sndStep g).bad = false) :
    (t.filter isHeaders).length + (if g.hdr then 1 else 0) ≤ 1 ∧
    (t.filter isEos).length + (t.filter isReset).length + (if g.ended || g.reset then 1 else 0) ≤ 1 := by
  induction t generalizing g with
  | nil =>
    simp only [List.filter_nil, List.length_nil, Nat.zero_add]
    constructor <;> split <;> omega
  | cons e r ih =>
    have hb : (sndStep g e).bad = false := by
      cases hh : (sndStep g e).bad with
      | false => rfl
      | true => have := foldl_bad_mono r _ hh; rw [List.foldl_cons] at h; rw [h] at this; cases this
    have := ih (sndStep g e) (by simpa [List.foldl_cons] using h)
    have fin : ∀ (e : Ev), (sndStep g e).bad = false →
        ((r.filter isHeaders).length + (if (sndStep g e).hdr then 1 else 0) ≤ 1 ∧
         (r.filter isEos).length + (r.filter isReset).length + (if (sndStep g e).ended || (sndStep g e).reset then 1 else 0) ≤ 1) →
        ((e :: r).filter isHeaders).length + (if g.hdr then 1 else 0) ≤ 1 ∧
        ((e :: r).filter isEos).length + ((e :: r).filter isReset).length + (if g.ended || g.reset then 1 else 0) ≤ 1 := by
      intro e hb this
      cases h1 : g.hdr <;> cases h2 : g.ended <;> cases h3 : g.reset <;> cases h4 : g.bad <;>
        cases e <;>
        (try (rename_i eos; cases eos)) <;>
        (try (rename_i st eos; cases eos)) <;>
        simp only [sndStep, h1, h2, h3, h4, List.filter_cons, isHeaders, isEos, isReset, Bool.or_self, Bool.or_true, Bool.or_false,
          Bool.true_or, Bool.false_or, Bool.not_true, Bool.not_false, if_true, if_false, Bool.false_eq_true, List.length_cons] at hb this ⊢ <;>
        first
          | omega
          | (exfalso; exact Bool.noConfusion hb)
    exact fin e hb this

/-! ### no upstream attempt after the response started -/

/-- the event is a `ConnectionPool.NewStream` call (admitted or refused) -/
def isNewStream : Ev → Bool
  | .un _ => true
  | .uf _ _ => true
  | _ => false

theorem sndStep_hdr_mono (g : Snd) (e : Ev) (h : g.hdr = true) : (sndStep g e).hdr = true := by
  cases e <;> simp [sndStep, h]

/-- once response headers were sent, a later `NewStream` makes the automaton reject the trace -/
theorem foldl_attempt_bad (t : List Ev) (g : Snd) (h : g.hdr = true) (ha : t.any isNewStream = true) :
    (t.foldl sndStep g).bad = true := by
  induction t generalizing g with
  | nil => simp at ha
  | cons e r ih =>
    simp only [List.any_cons, Bool.or_eq_true] at ha
    simp only [List.foldl_cons]
    by_cases he : isNewStream e = true
    · apply foldl_bad_mono
      cases e <;> simp [isNewStream] at he <;> simp [sndStep, h]
    · rcases ha with ha | ha
      · exact absurd ha he
      · exact ih _ (sndStep_hdr_mono g e h) ha

/-- in a trace accepted by the sender automaton nothing is sent upstream after the response headers -/
theorem no_attempt_after_headers_of_ok (t1 t2 : List Ev) (st : Nat) (eos : Bool)
    (h : (snd (t1 ++ Ev.dh st eos :: t2)).bad = false) : t2.any isNewStream = false := by
  cases ha : t2.any isNewStream with
  | false => rfl
  | true =>
    unfold snd at h
    rw [List.foldl_append, List.foldl_cons] at h
    have := foldl_attempt_bad t2 (sndStep (List.foldl sndStep Snd.init t1) (Ev.dh st eos)) (by simp [sndStep]) ha
    rw [h] at this; cases this

/-! ### an upstream reset after the response started -/

/-- the worker handles an upstream reset that arrived after the response head was forwarded: no retry, the downstream
stream is reset, the stream is cleaned -/
theorem started_reset_finish (c : Cfg) (s : S) (hcl : s.cleaned = false) (how : c.oneway = false) (hur : s.upReset = true)
    (hrst : s.respStarted = true) (hpd : s.procDone = false) (h6 : K6 s) :
    (finishPhase c s).cleaned = true ∧ (finishPhase c s).running = false ∧
    (finishPhase c s).trace = s.trace ++ [Ev.dr, Ev.log TimeoutExceptionCode s.flags] := by
  rw [finishPhase_eq, processError_spec]
  simp only [hcl, hur, how, Bool.false_eq_true, if_false, if_true]
  have hgate : Gen.ProxyReset.retryGate s.resetReason (resetFlags c s) = false := by
    rw [retryGate_eq]; simp [hrst]
  have e1 : onUpstreamReset c s = resetDownstream c (cleanUp c s) := by
    unfold onUpstreamReset
    simp only [hgate, Bool.false_eq_true, if_false]
    unfold onUpstreamResetFinish
    simp only [resetNotReply_eq, cleanUp_respStarted, hrst, if_true]
  rw [e1]
  have key : ∀ g : S, g.cleaned = false → g.procDone = true → g.downReset = true → g.trace = s.trace ++ [Ev.dr] →
      g.flags = s.flags →
      (finishOf (peTail c g true)).cleaned = true ∧ (finishOf (peTail c g true)).running = false ∧
      (finishOf (peTail c g true)).trace = s.trace ++ [Ev.dr, Ev.log TimeoutExceptionCode s.flags] := by
    intro g g_cl g_pd g_dr g_tr g_fl
    have : peTail c g true = (dsResetStream c g, some .End) := by unfold peTail; rw [if_pos g_dr]
    rw [this]
    simp only [finishOf]
    rw [reenter_end]
    unfold dsResetStream cleanStream
    simp only [g_cl, Bool.false_eq_true, if_false]
    refine ⟨cleanBody_cleaned c _, ?_, ?_⟩
    · first | rfl | trivial
    · have := cleanBody_trace_done c { g with respCode := TimeoutExceptionCode } g_pd
      first
        | (rw [this]; simp [g_tr, g_fl]; done)
        | (show (cleanBody c { g with respCode := TimeoutExceptionCode }).trace = _
           rw [this]; simp [g_tr, g_fl])
  unfold resetDownstream
  simp only [how, cleanUp_procDone, hpd, Bool.not_false, Bool.and_self, if_true]
  cases hdl : s.downLive with
  | true =>
    simp only [cleanUp_downLive, hdl, if_true]
    apply key <;> simp [dsOnResetStream, hcl]
  | false =>
    simp only [cleanUp_downLive, hdl, Bool.false_eq_true, if_false]
    have hdr : s.downReset = true := by
      rcases h6 hdl with h | h
      · exact h
      · rw [hcl] at h; cases h
    apply key <;> simp [hcl, hdr]

/-- from every reachable state in which an upstream reset is pending after the response started, at most two worker
steps (the data phase is skipped when the response has only trailers) end the exchange: the client stream is reset, the
access log is written, and NO new upstream attempt is made -/
theorem started_reset_run (c : Cfg) (ar aq : Nat) (s : S) (h : Inv c ar aq s) (hrun : s.running = true)
    (hur : s.upReset = true) (hrst : s.respStarted = true) :
    (work c (work c s)).cleaned = true ∧ (work c (work c s)).running = false ∧
    (work c (work c s)).trace = s.trace ++ [Ev.dr, Ev.log TimeoutExceptionCode s.flags] := by
  have hcl := inv_not_cleaned h hrun
  have hupp : upPhase s.phase = true := by
    cases hu : upPhase s.phase with
    | true => rfl
    | false => have := h.k16 hcl hu; rw [hrst] at this; cases this
  obtain ⟨_, hresp, hwhere, _, _, hmore, htr⟩ := h.k15 hcl hupp
  have how : c.oneway = false := by
    cases ho : c.oneway with
    | false => rfl
    | true => have := (h.k32 hcl ho).1; rw [hupp] at this; cases this
  have hpd : s.procDone = false := by
    cases hh : s.procDone with
    | false => rfl
    | true => have := h.k5 hh; rw [hcl] at this; cases this
  obtain ⟨r, hr⟩ : ∃ r, s.resp = some r := by
    cases hh : s.resp with
    | none => simp [hh] at hresp
    | some r => exact ⟨r, rfl⟩
  have hnw : ∀ g : S, g.upReset = true → bodyWait g = false := by
    intro g hg; simp [bodyWait, processDone, hg]
  -- a finished worker does nothing more
  have hdone : ∀ g : S, g.running = false → work c g = g := by
    intro g hg; unfold work; simp [hg]
  -- the step at the trailer phase
  have hurt : ∀ g : S, g.running = true → g.phase = .UpRecvTrailer → g.resp = some r → r.hasTrailers = true → g.upReset = true →
      work c g = finishPhase c g := by
    intro g g1 g2 g3 g4 g5
    unfold work
    rw [if_neg (by simp [g1]), if_neg (by simp [hnw g g5])]
    simp only [g2, g3, g4, if_true]
    rw [if_pos (by simp [processDone, g5])]
  have hwhere2 : s.phase = .UpRecvData ∨ s.phase = .UpRecvTrailer := by
    rcases hwhere hur with hp | hp | hp
    · exact Or.inl hp
    · exact Or.inr hp
    · -- [proxy7] at UpFilter nothing was sent yet
      have := (h.k15 hcl hupp).2.2.2.2.1
      rcases hp.1 with h1 | h1 <;> (rw [hrst, h1] at this; cases this)
  rcases hwhere2 with hp | hp
  · -- data phase
    by_cases hd : r.hasData = true
    · have e1 : work c s = finishPhase c s := by
        unfold work
        rw [if_neg (by simp [hrun]), if_neg (by simp [hnw s hur])]
        simp only [hp, hr, hd, if_true]
        rw [if_pos (by simp [processDone, hur])]
      have := started_reset_finish c s hcl how hur hrst hpd h.k6
      rw [e1, hdone _ this.2.1]
      exact this
    · simp only [Bool.not_eq_true] at hd
      have ht : r.hasTrailers = true := by
        have := hmore hp; simp [respHasMore, hr, hd] at this; exact this
      have e1 : work c s = { s with phase := .UpRecvTrailer } := by
        unfold work
        rw [if_neg (by simp [hrun]), if_neg (by simp [hnw s hur])]
        simp only [hp, hr, hd, Bool.false_eq_true, if_false, Phase.next]
      rw [e1, hurt { s with phase := .UpRecvTrailer } hrun rfl hr ht hur]
      have := started_reset_finish c { s with phase := .UpRecvTrailer } hcl how hur hrst hpd h.k6
      exact this
  · have ht : r.hasTrailers = true := by have := htr hp; simpa [respHasTrailers, hr] using this
    have e1 := hurt s hrun hp hr ht hur
    have := started_reset_finish c s hcl how hur hrst hpd h.k6
    rw [e1, hdone _ this.2.1]
    exact this

/-- the worker waits for the rest of a streamed response: what holds then -/
theorem bodyWait_facts (c : Cfg) (ar aq : Nat) (s : S) (h : Inv c ar aq s) (hw : bodyWait s = true) :
    s.cleaned = false ∧ c.oneway = false ∧ s.respStarted = true ∧ s.urr = true ∧ 0 < liveCount s.streams ∧
    s.upReset = false ∧ s.downReset = false := by
  simp only [bodyWait, Bool.and_eq_true, Bool.or_eq_true, beq_iff_eq, Bool.not_eq_true'] at hw
  obtain ⟨⟨⟨hrun, hp⟩, hopen⟩, hpd⟩ := hw
  have hcl := inv_not_cleaned h hrun
  have hupp : upPhase s.phase = true := by rcases hp with hp | hp <;> simp [hp, upPhase]
  obtain ⟨hlc, _, _, _, hrst0, _, _⟩ := h.k15 hcl hupp
  have hrst : s.respStarted = true := by rcases hp with hp | hp <;> (rw [hrst0, hp]; decide)
  have how : c.oneway = false := by
    cases ho : c.oneway with
    | false => rfl
    | true => have := (h.k32 hcl ho).1; rw [hupp] at this; cases this
  have hpos : 0 < liveCount s.streams := by
    cases hl0 : liveCount s.streams with
    | succ n => omega
    | zero =>
      exfalso
      -- the current stream is live, and in a two-way request every live stream is counted
      simp only [bodyOpen] at hopen
      cases hc : curStream s with
      | none => simp [hc] at hopen
      | some k =>
        simp only [hc] at hopen
        have hlive : streamLive s k = true := hopen
        cases hk : s.streams[k]? with
        | none => simp [streamLive, hk] at hlive
        | some st =>
          have hl : st.live = true := by simpa [streamLive, hk] using hlive
          have hcnt : st.counted = true := by
            have := h.k22 how
            simp only [List.all_eq_true] at this
            have := this st (List.mem_of_getElem? hk)
            simpa [hl] using this
          have := liveCounted_pos s k (by simp [streamLiveCounted, hk, hl, hcnt])
          omega
  have hurr : s.urr = true := by
    rcases hlc with h0 | h1
    · omega
    · exact h1.1
  simp only [processDone, Bool.or_eq_false_iff] at hpd
  exact ⟨hcl, how, hrst, hurr, hpos, hpd.2, hpd.1.2⟩

/-- after `cleanStream` no label changes the trace (nor un-cleans the stream) -/
theorem trace_frozen (c : Cfg) (ar aq : Nat) (s : S) (l : Label) (h : Inv c ar aq s) (hcl : s.cleaned = true) :
    (step c s l).trace = s.trace ∧ (step c s l).cleaned = true := by
  have hrun : s.running = false := by have := h.k0; simp only [K0, hcl] at this; simpa using this
  obtain ⟨_, hlc, hpt, hgt⟩ := h.k13 hcl
  cases l with
  | work => simp [step, work, hrun, hcl]
  | upResp k code d t =>
    simp only [step, upResp]
    cases hk : s.streams[k]? with
    | none => exact ⟨rfl, hcl⟩
    | some st =>
      simp only
      split
      · exact ⟨rfl, hcl⟩
      · split
        · exact ⟨rfl, hcl⟩
        · exact ⟨rfl, hcl⟩
  | upRespS k code d t =>
    simp only [step, upRespS, upResp]
    split
    · cases hk : s.streams[k]? with
      | none => exact ⟨rfl, hcl⟩
      | some st =>
        simp only
        split
        · exact ⟨rfl, hcl⟩
        · split
          · exact ⟨rfl, hcl⟩
          · exact ⟨rfl, hcl⟩
    · cases hk : s.streams[k]? with
      | none => exact ⟨rfl, hcl⟩
      | some st =>
        simp only
        split
        · exact ⟨rfl, hcl⟩
        · split
          · exact ⟨rfl, hcl⟩
          · exact ⟨rfl, hcl⟩
  | upEnd k =>
    simp only [step, upEndL]
    cases hk : s.streams[k]? with
    | none => exact ⟨rfl, hcl⟩
    | some st =>
      simp only
      split
      · exact ⟨rfl, hcl⟩
      · exact ⟨rfl, hcl⟩
  | upReset k r =>
    simp only [step, upResetL]
    cases hk : s.streams[k]? with
    | none => exact ⟨rfl, hcl⟩
    | some st =>
      simp only
      split
      · exact ⟨rfl, hcl⟩
      · split
        · simp [upOnResetStream, hcl]
        · exact ⟨rfl, hcl⟩
  | poolFail f => exact ⟨rfl, hcl⟩
  | hostsGone => exact ⟨rfl, hcl⟩
  | perTryFire => simp [step, perTryFire, hpt, hcl]
  | globalFire => simp [step, globalFire, hgt, hcl]
  | downReset r =>
    simp only [step, downResetL]
    split
    · exact ⟨rfl, hcl⟩
    · exact ⟨rfl, hcl⟩
  | connClose => simp [step, connClose, hcl]
  | terminate code => simp [step, terminateL_eq, asleep, parked, backoff, hrun, hcl]
  | terminateStale g code =>
    simp only [step]
    rw [terminateStale_eq]
    split <;> simp [terminateL_eq, asleep, parked, backoff, hrun, hcl]
  | terminateRaced code k d t =>
    simp only [step]
    rw [terminateRaced_eq]
    simp [terminateL_eq, asleep, parked, backoff, hrun, hcl]
  | lateResp k d t => simp [step, lateBackoff, backoff, hrun, hcl]
  | gtInSetup b => simp [step, gtInSetup, backoff, hrun, hcl]

/-- the worker is parked and only an event can wake it: which events are still possible -/
theorem blocked_facts (c : Cfg) (ar aq : Nat) (s : S) (h : Inv c ar aq s) (hb : blocked s = true) :
    s.cleaned = false ∧ c.oneway = false ∧ s.global = true ∧ s.urr = false ∧ s.upReset = false ∧ s.downReset = false ∧
    s.globalExpired = false ∧ s.reqSent = true ∧ s.respStarted = false ∧ s.rs.isSome = true ∧ s.up.isSome = true := by
  simp only [blocked, Bool.and_eq_true, Bool.not_eq_true', beq_iff_eq] at hb
  obtain ⟨⟨hrun, hp⟩, hn⟩ := hb
  have hcl := inv_not_cleaned h hrun
  have hfwd : fwdPhase s.phase = true := by simp [hp, fwdPhase]
  have how : c.oneway = false := by
    cases ho : c.oneway with
    | false => rfl
    | true => have := (h.k32 hcl ho).2.1; exact absurd hp this
  rcases h.k18 hcl hfwd with ⟨ho, _, _⟩ | hm
  · rw [how] at ho; cases ho
  · obtain ⟨hup, hrs, hwake, hexp, hgl, hw⟩ := hm
    have hnf : s.urr = false ∧ s.upReset = false ∧ s.downReset = false := by
      refine ⟨?_, ?_, ?_⟩
      · cases hh : s.urr with
        | false => rfl
        | true =>
          rcases hwake (Or.inl hh) with h1 | h1
          · rw [hn] at h1; cases h1
          · rw [hp] at h1; exact absurd h1.1 (by decide)
      · cases hh : s.upReset with
        | false => rfl
        | true =>
          rcases hwake (Or.inr (Or.inl hh)) with h1 | h1
          · rw [hn] at h1; cases h1
          · rw [hp] at h1; exact absurd h1.1 (by decide)
      · cases hh : s.downReset with
        | false => rfl
        | true =>
          rcases hwake (Or.inr (Or.inr hh)) with h1 | h1
          · rw [hn] at h1; cases h1
          · rw [hp] at h1; exact absurd h1.1 (by decide)
    have hge : s.globalExpired = false := by
      cases hh : s.globalExpired with
      | false => rfl
      | true =>
        rcases hexp hh with h1 | h1
        · rw [hnf.1] at h1; cases h1
        · rw [hp] at h1; exact absurd h1 (by decide)
    have hrq : s.reqSent = true := by
      rcases hw hp with hh | hh
      · exact hh
      · rw [how] at hh; cases hh
    have hg : s.global = true := by
      rcases or3_nd (hgl how hrq) (not_direct_of_quiet h.k7 hcl hn) with hh | hh
      · exact hh
      · rw [hge] at hh; cases hh
    exact ⟨hcl, how, hg, hnf.1, hnf.2.1, hnf.2.2, hge, hrq, h.k16 hcl (by simp [hp, upPhase]), hrs, hup⟩

/-- the state in which the worker sends the error reply of an upstream reset without retry -/
def hijackState (c : Cfg) (g : S) (r : Reason) : S :=
  { (sendHijack { orFlag (cleanUp c g) (reasonToFlag r) with upReset := false } (reasonToCode r) false) with
    direct := false, rs := none, pass := 1, phase := .UpFilter, notify := false }

/-- first worker step after a global timeout fired on a parked worker: the reset is turned into a pending 504 reply -/
theorem timeout_step1 (c : Cfg) (g : S) (hrun : g.running = true) (hp : g.phase = .WaitNotify) (hn : g.notify = true)
    (hcl : g.cleaned = false) (hur : g.upReset = true) (hrr : g.resetReason = .UpstreamGlobalTimeout)
    (how : c.oneway = false) (hdr : g.downReset = false) (hrst : g.respStarted = false) (hps : g.pass = 0)
    (hsr : g.setupRetry = false) :
    work c g = hijackState c { g with notify := false } .UpstreamGlobalTimeout := by
  unfold work
  rw [if_neg (by simp [hrun]), if_neg (by simp [bodyWait, hp])]
  split
  all_goals first
    | (rename_i hh; rw [hp] at hh; exact absurd hh (by decide))
    | skip
  rw [if_pos hn]
  rw [finishPhase_eq, processError_spec]
  rw [if_neg (by simp [hcl]), if_pos (by simp [hur]), if_neg (by simp [how])]
  have e1 : onUpstreamReset c { g with notify := false } =
      sendHijack { orFlag (cleanUp c { g with notify := false }) (reasonToFlag .UpstreamGlobalTimeout) with upReset := false }
        (reasonToCode .UpstreamGlobalTimeout) false := by
    unfold onUpstreamReset
    simp only [retryGate_eq, hrr]
    rw [if_neg (by simp)]
    unfold onUpstreamResetFinish
    simp only [resetNotReply_eq, cleanUp_respStarted, hrst, Bool.false_eq_true, if_false]
  rw [e1]
  unfold peTail
  rw [if_neg (by simp [sendHijack, orFlag, hdr]), if_pos (by simp [sendHijack])]
  simp only []
  rw [abandonRetry_id (by simp [sendHijack, orFlag, hsr])]
  rw [if_neg (by simp [how]), if_pos (by simp [sendHijack, orFlag, hp])]
  rw [rsReset_retries_of_not_held c _ (by
    simpa [rsHeld, sendHijack, orFlag] using (cleanUp_facts c { g with notify := false }).2.1)]
  simp only [finishOf, reenter]
  simp [sendHijack, orFlag, hps, loopBudget, hijackState]

/-- second worker step: nothing pending, on to the response headers -/
theorem timeout_step2 (c : Cfg) (h1 : S) (hrun : h1.running = true) (hp : h1.phase = .UpFilter)
    (hcl : h1.cleaned = false) (hur : h1.upReset = false) (hdr : h1.downReset = false) (hdir : h1.direct = false)
    (hsr : h1.setupRetry = false) (hpd : h1.procDone = false) (hup : h1.up.isSome = true) :
    work c h1 = { h1 with phase := .UpRecvHeader } := by
  unfold work
  rw [if_neg (by simp [hrun]), if_neg (by simp [bodyWait, hp])]
  split
  all_goals first
    | (rename_i hh; rw [hp] at hh; exact absurd hh (by decide))
    | skip
  rw [processError_spec]
  rw [if_neg (by simp [hcl]), if_neg (by simp [hur])]
  unfold peTail
  rw [if_neg (by simp [hdr]), if_neg (by simp [hdir]), if_neg (by simp [hsr])]
  rw [show (false || h1.procDone) = false from by simp [hpd]]
  simp only [Bool.false_eq_true, if_false]
  have : h1.up.isNone = false := by
    cases hu : h1.up with
    | none => simp [hu] at hup
    | some o => rfl
  rw [if_neg (by simp [this])]
  rw [hp]
  rfl

/-- third worker step: the local reply is sent with end of stream, the stream is cleaned, the worker returns -/
theorem timeout_step3 (c : Cfg) (h2 : S) (code : Nat) (hrun : h2.running = true) (hp : h2.phase = .UpRecvHeader)
    (hcl : h2.cleaned = false) (hur : h2.upReset = false) (hdr : h2.downReset = false)
    (hsr : h2.setupRetry = false) (hpd : h2.procDone = false) (hrs : h2.rs = none)
    (hresp : h2.resp = some ⟨false, false⟩) (hrq : h2.reqSent = true) (hsv : h2.statusVar = some code) :
    (work c h2).cleaned = true ∧ (work c h2).running = false ∧
    (work c h2).trace = (h2.trace ++ [Ev.dh code true]) ++ [Ev.log h2.respCode h2.flags] := by
  unfold work
  rw [if_neg (by simp [hrun]), if_neg (by simp [bodyWait, hp])]
  split
  all_goals first
    | (rename_i hh; rw [hp] at hh; exact absurd hh (by decide))
    | skip
  rw [hresp]
  simp only
  rw [if_neg (by simp [processDone, hpd, hdr, hur, hsr])]
  -- the body: headers with end of stream
  have e1 : onUpstreamHeaders c h2 (!false && !false) = cleanBody c
      { (cleanUp c { h2 with respStarted := true }) with
        procDone := true, trace := h2.trace ++ [Ev.dh code true], downLive := false } := by
    unfold onUpstreamHeaders
    rw [if_neg (by simp [hrs])]
    unfold onUpstreamHeadersFinish dsAppendHeaders emit endStream cleanStream onUpstreamResponseRecvFinished
    simp [hrq, hcl, hsv]
  rw [e1, finishPhase_eq, processError_spec]
  rw [if_pos (by simp)]
  simp only [finishOf]
  rw [reenter_end]
  refine ⟨cleanBody_cleaned c _, rfl, ?_⟩
  show (cleanBody c _).trace = _
  rw [cleanBody_trace_done c _ rfl]
  simp

/-- from a parked worker the global timer's firing is enabled and three worker steps complete the request with the
timeout reply (code and response flag from the regenerated tables) -/
theorem timeout_run (c : Cfg) (ar aq : Nat) (s : S) (h : Inv c ar aq s) (hb : blocked s = true) :
    (work c (work c (work c (globalFire c s)))).cleaned = true ∧
    (work c (work c (work c (globalFire c s)))).running = false ∧
    (work c (work c (work c (globalFire c s)))).trace =
      ((globalFire c s).trace ++ [Ev.dh (reasonToCode .UpstreamGlobalTimeout) true]) ++
        [Ev.log (reasonToCode .UpstreamGlobalTimeout) (s.flags ||| reasonToFlag .UpstreamGlobalTimeout)] := by
  obtain ⟨hcl, how, hg, hurr, hur, hdr, hge, hrq, hrst, hrs, hup⟩ := blocked_facts c ar aq s h hb
  simp only [blocked, Bool.and_eq_true, Bool.not_eq_true', beq_iff_eq] at hb
  obtain ⟨⟨hrun, hp⟩, hn⟩ := hb
  have hsr := (h.k7 hcl).1
  have hdir : s.direct = false := not_direct_of_quiet h.k7 hcl hn
  have hpd : s.procDone = false := by
    cases hh : s.procDone with
    | false => rfl
    | true => have := h.k5 hh; rw [hcl] at this; cases this
  have hps := h.k25 hcl how hrs
  have hrec : globalCallbackRecordsExpiry = true := by decide
  -- the callback wins the CAS and records an upstream reset
  have eg : globalFire c s = upOnResetStream (resetUpstream c { s with global := false, globalExpired := true, urr := true })
      .UpstreamGlobalTimeout := by
    unfold globalFire
    rw [if_neg (by simp [hg])]
    simp only
    rw [if_neg (by simp [hcl])]
    simp only [hrec, if_true]
    rw [if_neg (by simp [hurr])]
    rw [if_pos (by simpa using hup)]
  generalize hgdef : globalFire c s = g at eg ⊢
  have fg : g.running = true ∧ g.phase = .WaitNotify ∧ g.notify = true ∧ g.cleaned = false ∧ g.upReset = true ∧
      g.resetReason = .UpstreamGlobalTimeout ∧ g.downReset = false ∧ g.respStarted = false ∧ g.pass = 0 ∧
      g.setupRetry = false ∧ g.direct = false ∧ g.procDone = false ∧ g.up.isSome = true ∧ g.reqSent = true ∧
      g.flags = s.flags := by
    subst eg
    simp [upOnResetStream, hrun, hp, hcl, hsr, hur, hdr, hrst, hps, hdir, hpd, hup, hrq]
  obtain ⟨g1, g2, g3, g4, g5, g6, g7, g8, g9, g10, g11, g12, g13, g14, g15⟩ := fg
  rw [timeout_step1 c g g1 g2 g3 g4 g5 g6 how g7 g8 g9 g10]
  generalize hh1 : hijackState c { g with notify := false } .UpstreamGlobalTimeout = h1
  have f1 : h1.running = true ∧ h1.phase = .UpFilter ∧ h1.cleaned = false ∧ h1.upReset = false ∧ h1.downReset = false ∧
      h1.direct = false ∧ h1.setupRetry = false ∧ h1.procDone = false ∧ h1.up.isSome = true ∧ h1.rs = none ∧
      h1.resp = some ⟨false, false⟩ ∧ h1.reqSent = true ∧ h1.statusVar = some (reasonToCode .UpstreamGlobalTimeout) ∧
      h1.respCode = reasonToCode .UpstreamGlobalTimeout ∧ h1.flags = s.flags ||| reasonToFlag .UpstreamGlobalTimeout ∧
      h1.trace = g.trace := by
    subst hh1
    simp [hijackState, sendHijack, orFlag, g1, g4, g7, g10, g12, g13, g14, g15]
  obtain ⟨a1, a2, a3, a4, a5, a6, a7, a8, a9, a10, a11, a12, a13, a14, a15, a16⟩ := f1
  rw [timeout_step2 c h1 a1 a2 a3 a4 a5 a6 a7 a8 a9]
  have := timeout_step3 c { h1 with phase := .UpRecvHeader } (reasonToCode .UpstreamGlobalTimeout) a1 rfl a3 a4 a5 a7 a8 a10 a11 a12 a13
  refine ⟨this.1, this.2.1, ?_⟩
  rw [this.2.2]
  simp only [a14, a15, a16]

/-- first worker step after an accepted `TerminateStream`: the pending local reply is taken, the retry state is dropped
(its slot given back) and the worker re-enters at `UpFilter` -/
theorem terminate_step1 (c : Cfg) (g : S) (hrun : g.running = true) (hp : g.phase = .WaitNotify) (hn : g.notify = true)
    (hcl : g.cleaned = false) (hur : g.upReset = false) (hdr : g.downReset = false) (hdir : g.direct = true)
    (how : c.oneway = false) (hps : g.pass = 0) (hsr : g.setupRetry = false) :
    work c g = { g with direct := false, rs := none, retries := (rsReset c g).retries, pass := 1, phase := .UpFilter,
                        notify := false } := by
  unfold work
  rw [if_neg (by simp [hrun]), if_neg (by simp [bodyWait, hp])]
  split
  all_goals first
    | (rename_i hh; rw [hp] at hh; exact absurd hh (by decide))
    | skip
  rw [if_pos hn]
  rw [finishPhase_eq, processError_spec]
  rw [if_neg (by simp [hcl]), if_neg (by simp [hur])]
  unfold peTail
  rw [if_neg (by simp [hdr]), if_pos (by simp [hdir])]
  simp only []
  rw [abandonRetry_id (by simp [hsr])]
  rw [if_neg (by simp [how]), if_pos (by simp [hp])]
  simp only [finishOf, reenter]
  simp [hps, loopBudget, rsReset]

/-- an accepted asynchronous `TerminateStream` on a parked worker completes the exchange in three worker steps -/
theorem terminate_run (c : Cfg) (ar aq : Nat) (s : S) (code : Nat) (h : Inv c ar aq s) (hb : blocked s = true)
    (hnr : s.resp.isSome = false) :
    (work c (work c (work c (terminateL c s code)))).cleaned = true ∧
    (work c (work c (work c (terminateL c s code)))).running = false ∧
    (work c (work c (work c (terminateL c s code)))).trace =
      ((terminateL c s code).trace ++ [Ev.dh code true]) ++ [Ev.log code (s.flags ||| DownStreamTerminate)] := by
  obtain ⟨hcl, how, hg, hurr, hur, hdr, hge, hrq, hrst, hrs, hup⟩ := blocked_facts c ar aq s h hb
  have hb' := hb
  simp only [blocked, Bool.and_eq_true, Bool.not_eq_true', beq_iff_eq] at hb
  obtain ⟨⟨hrun, hp⟩, hn⟩ := hb
  have hsr := (h.k7 hcl).1
  have hpd : s.procDone = false := by
    cases hh : s.procDone with
    | false => rfl
    | true => have := h.k5 hh; rw [hcl] at this; cases this
  have hps := h.k25 hcl how hrs
  have et : terminateL c s code =
      { resetUpstream c s with
        urr := true, perTry := false, global := false, flags := s.flags ||| DownStreamTerminate,
        respCode := code, statusVar := some code, resp := some ⟨false, false⟩, direct := true, notify := true,
        hTok := .loc, dTok := .none, tTok := .none } := by
    rw [terminateL_eq]
    unfold terminateAcc
    rw [if_neg (by simp [asleep, parked, hrun, hp, hn]), if_neg (by simp [hnr]), if_neg (by simp [hcl]), if_neg (by simp [hurr])]
  generalize hgdef : terminateL c s code = g at et ⊢
  have fg : g.running = true ∧ g.phase = .WaitNotify ∧ g.notify = true ∧ g.cleaned = false ∧ g.upReset = false ∧
      g.downReset = false ∧ g.direct = true ∧ g.pass = 0 ∧ g.setupRetry = false ∧ g.procDone = false ∧
      g.up.isSome = true ∧ g.reqSent = true ∧ g.flags = s.flags ||| DownStreamTerminate ∧ g.respCode = code ∧
      g.statusVar = some code ∧ g.resp = some ⟨false, false⟩ := by
    subst et
    simp [hrun, hp, hcl, hsr, hur, hdr, hps, hpd, hup, hrq]
  obtain ⟨g1, g2, g3, g4, g5, g6, g7, g8, g9, g10, g11, g12, g13, g14, g15, g16⟩ := fg
  rw [terminate_step1 c g g1 g2 g3 g4 g5 g6 g7 how g8 g9]
  generalize hh1 : ({ g with
    direct := false, rs := none, retries := (rsReset c g).retries, pass := 1, phase := .UpFilter, notify := false } : S) = h1
  have f1 : h1.running = true ∧ h1.phase = .UpFilter ∧ h1.cleaned = false ∧ h1.upReset = false ∧ h1.downReset = false ∧
      h1.direct = false ∧ h1.setupRetry = false ∧ h1.procDone = false ∧ h1.up.isSome = true ∧ h1.rs = none ∧
      h1.resp = some ⟨false, false⟩ ∧ h1.reqSent = true ∧ h1.statusVar = some code ∧
      h1.respCode = code ∧ h1.flags = s.flags ||| DownStreamTerminate ∧ h1.trace = g.trace := by
    subst hh1
    simp [g1, g4, g5, g6, g9, g10, g11, g12, g13, g14, g15, g16]
  obtain ⟨a1, a2, a3, a4, a5, a6, a7, a8, a9, a10, a11, a12, a13, a14, a15, a16⟩ := f1
  rw [timeout_step2 c h1 a1 a2 a3 a4 a5 a6 a7 a8 a9]
  have := timeout_step3 c { h1 with phase := .UpRecvHeader } code a1 rfl a3 a4 a5 a7 a8 a10 a11 a12 a13
  refine ⟨this.1, this.2.1, ?_⟩
  rw [this.2.2]
  simp only [a14, a15, a16]

end MosnVerif.Model.Downstream
