import MosnVerif.Model.Updates
/-! Helper lemmas for property C12 (core Lean only). -/
namespace MosnVerif.Model.Updates
open MosnVerif

/-! ## finite maps -/
@[simp] theorem FMap.set_same {α} (m : FMap α) (k : String) (v : α) : (m.set k v) k = some v := by simp [FMap.set]
theorem FMap.set_other {α} (m : FMap α) {k k' : String} (v : α) (h : k' ≠ k) : (m.set k v) k' = m k' := by simp [FMap.set, h]
@[simp] theorem FMap.del_same {α} (m : FMap α) (k : String) : (m.del k) k = none := by simp [FMap.del]
theorem FMap.del_other {α} (m : FMap α) {k k' : String} (h : k' ≠ k) : (m.del k) k' = m k' := by simp [FMap.del, h]

/-! ## regenerated facts (break ⇒ the dependent proofs stop checking) -/
theorem gen_recordsAddOrUpdate : recordsAddOrUpdate = true := by decide
theorem gen_addRoute : Gen.Updates.addRoute_recordsRouter = true := by decide
theorem gen_removeAll : Gen.Updates.removeAllRoutes_recordsRouter = true := by decide
theorem gen_updCfg : Gen.Updates.updateCluster_recordsClusterConfig = true := by decide
theorem gen_updRefresh : Gen.Updates.updateCluster_refreshesHosts = true := by decide
theorem gen_hostsRefresh : Gen.Updates.updateHosts_refreshesHosts = true := by decide
theorem gen_remove : Gen.Updates.removePrimaryCluster_removesClusterConfig = true := by decide
theorem gen_setHosts : Gen.Updates.refreshHostsConfig_setsHosts = true := by decide
theorem gen_inside : Gen.Updates.endpointUpdatesInsideLocalityLoop = 0 := by decide
theorem gen_after : Gen.Updates.endpointUpdatesAfterLocalityLoop = 1 := by decide
theorem gen_acc : Gen.Updates.localityLoopAccumulates = true := by decide

/-! ## modifyAt -/
theorem modifyAt_length {α} (f : α → α) (l : List α) (i : Nat) : (modifyAt f l i).length = l.length := by
  induction l generalizing i with
  | nil => simp [modifyAt]
  | cons x r ih => cases i <;> simp [modifyAt, ih]

theorem modifyAt_map {α β} (f : α → α) (g : β → β) (p : α → β) (hp : ∀ x, p (f x) = g (p x)) (l : List α) (i : Nat) :
    (modifyAt f l i).map p = modifyAt g (l.map p) i := by
  induction l generalizing i with
  | nil => simp [modifyAt]
  | cons x r ih => cases i <;> simp [modifyAt, ih, hp]

theorem modifyAt_map_id {α β} (f : α → α) (p : α → β) (hp : ∀ x, p (f x) = p x) (l : List α) (i : Nat) :
    (modifyAt f l i).map p = l.map p := by
  induction l generalizing i with
  | nil => simp [modifyAt]
  | cons x r ih => cases i <;> simp [modifyAt, ih, hp]

theorem modifyAt_all {α} (f : α → α) (q : α → Bool) (l : List α) (i : Nat) (hq : ∀ x, q x = true → q (f x) = true)
    (hl : l.all q = true) : (modifyAt f l i).all q = true := by
  induction l generalizing i with
  | nil => simp [modifyAt]
  | cons x r ih =>
    simp only [List.all_cons, Bool.and_eq_true] at hl
    cases i with
    | zero => simp only [modifyAt, List.all_cons, Bool.and_eq_true]; exact ⟨hq x hl.1, hl.2⟩
    | succ j => simp only [modifyAt, List.all_cons, Bool.and_eq_true]; exact ⟨hl.1, ih j hl.2⟩

theorem modifyAt_getElem? {α} (f : α → α) (l : List α) (i j : Nat) :
    (modifyAt f l i)[j]? = if j = i then l[j]?.map f else l[j]? := by
  induction l generalizing i j with
  | nil => simp [modifyAt]
  | cons x r ih =>
    cases i with
    | zero => cases j <;> simp [modifyAt]
    | succ i' =>
      cases j with
      | zero => simp [modifyAt]
      | succ j' => simp [modifyAt, ih]

/-! ## NewRouters -/

theorem build_eq_some {o : Oracle} {cfg : RouterCfg} {t : Table} (h : build o cfg = some t) :
    cfg.vhosts.isEmpty = false ∧ cfg.vhosts.any (fun vh => vh.routes.any (fun r => !r.valid)) = false ∧
    o.domainsOk (cfg.vhosts.map (·.domains)) = true ∧
    t = ⟨cfg.vhosts.map (·.domains), cfg.vhosts.map (fun vh => ⟨vh.name, vh.routes⟩)⟩ := by
  unfold build at h
  split at h
  · cases h
  · split at h
    · cases h
    · split at h
      · cases h
      · rename_i h1 h2 h3
        refine ⟨by simpa using h1, by simpa using h2, by simpa using h3, ?_⟩
        cases h; rfl

theorem build_some_of {o : Oracle} {cfg : RouterCfg} (h1 : cfg.vhosts.isEmpty = false)
    (h2 : cfg.vhosts.any (fun vh => vh.routes.any (fun r => !r.valid)) = false)
    (h3 : o.domainsOk (cfg.vhosts.map (·.domains)) = true) :
    build o cfg = some ⟨cfg.vhosts.map (·.domains), cfg.vhosts.map (fun vh => ⟨vh.name, vh.routes⟩)⟩ := by
  unfold build
  simp [h1, h2, h3]

/-- the validity test of `build` as an `all` -/
theorem any_invalid_false_iff (l : List VHost) :
    l.any (fun vh => vh.routes.any (fun r => !r.valid)) = false ↔ l.all (fun vh => vh.routes.all (fun r => r.valid)) = true := by
  induction l with
  | nil => simp
  | cons x r ih =>
    simp only [List.any_cons, List.all_cons, Bool.or_eq_false_iff, Bool.and_eq_true, ih]
    constructor
    · rintro ⟨h1, h2⟩
      refine ⟨?_, h2⟩
      simpa using h1
    · rintro ⟨h1, h2⟩
      refine ⟨?_, h2⟩
      simpa using h1

/-- a successful `AddRoute` on a table built from `cfg` yields the table built from `cfg` with the route appended at the
same index. -/
theorem build_addRoute {o : Oracle} {cfg : RouterCfg} {t t' : Table} {d : String} {r : Route} {i : Nat}
    (hb : build o cfg = some t) (ha : t.addRoute o d r = some (i, t')) :
    build o { cfg with vhosts := modifyAt (fun vh => { vh with routes := vh.routes ++ [r] }) cfg.vhosts i } = some t' := by
  obtain ⟨h1, h2, h3, rfl⟩ := build_eq_some hb
  unfold Table.addRoute at ha
  split at ha
  · cases ha
  · rename_i j hj
    split at ha
    · split at ha
      · rename_i hlt hv
        simp only [Option.some.injEq, Prod.mk.injEq] at ha
        obtain ⟨rfl, rfl⟩ := ha
        have e1 : ∀ (l : List VHost), (modifyAt (fun vh : VHost => { vh with routes := vh.routes ++ [r] }) l j).map (·.domains)
            = l.map (·.domains) := by
          intro l; apply modifyAt_map_id; intro x; rfl
        rw [build_some_of]
        · simp only [e1]
          congr 1
          simp only [Table.mk.injEq, true_and]
          exact modifyAt_map _ (fun vh : LiveVH => { vh with routes := vh.routes ++ [r] }) _ (fun _ => rfl) _ _
        · cases hc : cfg.vhosts with
          | nil => simp [hc] at h1
          | cons x rest => cases j <;> simp [modifyAt]
        · rw [any_invalid_false_iff] at h2 ⊢
          apply modifyAt_all _ _ _ _ _ h2
          intro x hx
          simp only [List.all_append, hx, List.all_cons, hv, List.all_nil, Bool.and_self]
        · simp only [e1]; exact h3
      · cases ha
    · cases ha

theorem build_removeAll {o : Oracle} {cfg : RouterCfg} {t t' : Table} {d : String} {i : Nat}
    (hb : build o cfg = some t) (ha : t.removeAll o d = some (i, t')) :
    build o { cfg with vhosts := modifyAt (fun vh => { vh with routes := [] }) cfg.vhosts i } = some t' := by
  obtain ⟨h1, h2, h3, rfl⟩ := build_eq_some hb
  unfold Table.removeAll at ha
  split at ha
  · cases ha
  · rename_i j hj
    split at ha
    · simp only [Option.some.injEq, Prod.mk.injEq] at ha
      obtain ⟨rfl, rfl⟩ := ha
      have e1 : ∀ (l : List VHost), (modifyAt (fun vh : VHost => { vh with routes := [] }) l j).map (·.domains)
          = l.map (·.domains) := by
        intro l; apply modifyAt_map_id; intro x; rfl
      rw [build_some_of]
      · simp only [e1]
        congr 1
        simp only [Table.mk.injEq, true_and]
        exact modifyAt_map _ (fun vh : LiveVH => { vh with routes := [] }) _ (fun _ => rfl) _ _
      · cases hc : cfg.vhosts with
        | nil => simp [hc] at h1
        | cons x rest => cases j <;> simp [modifyAt]
      · rw [any_invalid_false_iff] at h2 ⊢
        apply modifyAt_all _ _ _ _ _ h2
        intro x _
        simp
      · simp only [e1]; exact h3
    · cases ha

/-! ## NewHostSet: distinct by address -/

theorem dedupAux_spec (seen : List String) (l : List Host) :
    ((dedupAux seen l).map (·.addr)).Nodup ∧ ∀ a ∈ (dedupAux seen l).map (·.addr), a ∉ seen := by
  induction l generalizing seen with
  | nil => simp [dedupAux]
  | cons h t ih =>
    unfold dedupAux
    split
    · exact ih seen
    · rename_i hns
      obtain ⟨h1, h2⟩ := ih (h.addr :: seen)
      refine ⟨?_, ?_⟩
      · simp only [List.map_cons, List.nodup_cons]
        refine ⟨fun hm => ?_, h1⟩
        exact (h2 _ hm) (by simp)
      · intro a ha
        simp only [List.map_cons, List.mem_cons] at ha
        rcases ha with rfl | ha
        · exact hns
        · intro hs; exact (h2 a ha) (by simp [hs])

theorem dedup_nodup (l : List Host) : ((dedup l).map (·.addr)).Nodup := (dedupAux_spec [] l).1

theorem dedupAux_id (seen : List String) (l : List Host) (hnd : (l.map (·.addr)).Nodup)
    (hs : ∀ a ∈ l.map (·.addr), a ∉ seen) : dedupAux seen l = l := by
  induction l generalizing seen with
  | nil => simp [dedupAux]
  | cons h t ih =>
    simp only [List.map_cons, List.nodup_cons] at hnd
    unfold dedupAux
    have : h.addr ∉ seen := hs _ (by simp)
    simp only [this, if_false]
    congr 1
    apply ih _ hnd.2
    intro a ha hm
    simp only [List.mem_cons] at hm
    rcases hm with rfl | hm
    · exact hnd.1 ha
    · exact hs a (by simp [ha]) hm

/-- `NewHostSet` of an address-distinct list is that list. -/
theorem dedup_id (l : List Host) (hnd : (l.map (·.addr)).Nodup) : dedup l = l :=
  dedupAux_id [] l hnd (by simp)

theorem mem_dedupAux {seen : List String} {l : List Host} {h : Host} (hm : h ∈ dedupAux seen l) : h ∈ l := by
  induction l generalizing seen with
  | nil => simp [dedupAux] at hm
  | cons x t ih =>
    unfold dedupAux at hm
    split at hm
    · exact List.mem_cons_of_mem _ (ih hm)
    · simp only [List.mem_cons] at hm ⊢
      rcases hm with rfl | hm
      · left; rfl
      · right; exact ih hm

theorem mem_dedup {l : List Host} {h : Host} (hm : h ∈ dedup l) : h ∈ l := mem_dedupAux hm

theorem addr_mem_dedupAux {seen : List String} {l : List Host} {a : String} (hm : a ∈ l.map (·.addr)) (hs : a ∉ seen) :
    a ∈ (dedupAux seen l).map (·.addr) := by
  induction l generalizing seen with
  | nil => simp at hm
  | cons x t ih =>
    simp only [List.map_cons, List.mem_cons] at hm
    unfold dedupAux
    split
    · rename_i hx
      rcases hm with rfl | hm
      · exact absurd hx hs
      · exact ih hm hs
    · simp only [List.map_cons, List.mem_cons]
      by_cases hax : a = x.addr
      · left; exact hax
      · right
        rcases hm with rfl | hm
        · exact absurd rfl hax
        · apply ih hm
          simp only [List.mem_cons, not_or]
          exact ⟨hax, hs⟩

/-- every address of the input survives `NewHostSet`. -/
theorem addr_mem_dedup {l : List Host} {a : String} (hm : a ∈ l.map (·.addr)) : a ∈ (dedup l).map (·.addr) :=
  addr_mem_dedupAux hm (by simp)

@[simp] theorem clampHost_addr (h : Host) : (clampHost h).addr = h.addr := rfl

theorem map_clamp_addr (l : List Host) : (l.map clampHost).map (·.addr) = l.map (·.addr) := by
  simp [List.map_map, Function.comp_def]

/-! ## sorted removal -/

/-- strictly ascending by address -/
def StrictSorted (l : List Host) : Prop := l.Pairwise (fun a b => a.addr < b.addr)

theorem removeSorted_eq_filter (l : List Host) (a : String) (hs : StrictSorted l) :
    removeSorted l a = l.filter (fun h => !decide (h.addr = a)) := by
  induction l with
  | nil => simp [removeSorted]
  | cons h t ih =>
    unfold StrictSorted at hs
    rw [List.pairwise_cons] at hs
    obtain ⟨hh, ht⟩ := hs
    unfold removeSorted
    by_cases hle : a ≤ h.addr
    · simp only [hle, if_true]
      have htail : t.filter (fun x => !decide (x.addr = a)) = t := by
        rw [List.filter_eq_self]
        intro x hx
        have h1 : h.addr < x.addr := hh x hx
        have : x.addr ≠ a := by
          intro e; subst e
          exact (String.not_lt.mpr hle) h1
        simp [this]
      by_cases he : h.addr = a
      · rw [List.filter_cons]; simp only [he, decide_true, Bool.not_true, if_true]
        simp only [Bool.false_eq_true, if_false]; exact htail.symm
      · rw [List.filter_cons]; simp only [he, decide_false, Bool.not_false, if_true, if_false]
        rw [htail]
    · simp only [hle, if_false]
      have hne : h.addr ≠ a := by
        intro e; subst e; exact hle (String.le_refl _)
      rw [List.filter_cons]; simp only [hne, decide_false, Bool.not_false, if_true]
      congr 1
      exact ih ht

theorem strictSorted_filter (l : List Host) (p : Host → Bool) (hs : StrictSorted l) : StrictSorted (l.filter p) :=
  List.Pairwise.sublist List.filter_sublist hs

theorem foldl_removeSorted_eq_filter (addrs : List String) (l : List Host) (hs : StrictSorted l) :
    addrs.foldl removeSorted l = l.filter (fun h => !decide (h.addr ∈ addrs)) := by
  induction addrs generalizing l with
  | nil =>
    simp only [List.foldl_nil, List.not_mem_nil, decide_false, Bool.not_false]
    exact (List.filter_eq_self.mpr (fun _ _ => rfl)).symm
  | cons a r ih =>
    simp only [List.foldl_cons]
    rw [removeSorted_eq_filter l a hs, ih _ (strictSorted_filter l _ hs), List.filter_filter]
    congr 1
    funext h
    by_cases h1 : h.addr = a <;> by_cases h2 : h.addr ∈ r <;> simp [h1, h2]

theorem sortByAddr_perm (l : List Host) : (sortByAddr l).Perm l := List.mergeSort_perm _ _

theorem sortByAddr_strict (l : List Host) (hnd : (l.map (·.addr)).Nodup) : StrictSorted (sortByAddr l) := by
  have hsorted : (sortByAddr l).Pairwise (fun a b => decide (a.addr ≤ b.addr) = true) := by
    apply List.pairwise_mergeSort
    · intro a b c h1 h2
      simp only [decide_eq_true_eq] at h1 h2 ⊢
      exact String.le_trans h1 h2
    · intro a b
      simp only [Bool.or_eq_true, decide_eq_true_eq]
      exact String.le_total _ _
  have hnd' : ((sortByAddr l).map (·.addr)).Nodup := ((sortByAddr_perm l).map _).nodup_iff.mpr hnd
  unfold StrictSorted
  generalize sortByAddr l = s at hsorted hnd'
  induction s with
  | nil => exact List.Pairwise.nil
  | cons x t ih =>
    rw [List.pairwise_cons] at hsorted ⊢
    simp only [List.map_cons, List.nodup_cons] at hnd'
    refine ⟨?_, ih hsorted.2 hnd'.2⟩
    intro y hy
    have hle : x.addr ≤ y.addr := by simpa using hsorted.1 y hy
    have hne : x.addr ≠ y.addr := fun e => hnd'.1 (by rw [e]; exact List.mem_map_of_mem hy)
    rcases Std.le_iff_lt_or_eq.mp hle with h | h
    · exact h
    · exact absurd h hne

/-- the host set after `RemoveClusterHosts`: exactly the hosts whose address is not listed (sorted by address). -/
theorem removeHosts_eq (addrs : List String) (old : List Host) (hnd : (old.map (·.addr)).Nodup) :
    removeHosts addrs old = (sortByAddr old).filter (fun h => !decide (h.addr ∈ addrs)) := by
  unfold removeHosts
  rw [foldl_removeSorted_eq_filter _ _ (sortByAddr_strict old hnd)]
  apply dedup_id
  have hnd' : ((sortByAddr old).map (·.addr)).Nodup := ((sortByAddr_perm old).map _).nodup_iff.mpr hnd
  exact List.Nodup.sublist (List.Sublist.map _ List.filter_sublist) hnd'

/-! ## the invariant tying the live side to the stored side -/

structure Inv (o : Oracle) (s : State) : Prop where
  r_some : ∀ n w, s.wrappers n = some w → w.cfg.name = n ∧ s.rstore n = some w.cfg ∧ w.routers = build o w.cfg
  r_none : ∀ n, s.wrappers n = none → s.rstore n = none
  c_some : ∀ n lc, s.clusters n = some lc → s.cstore n = some ⟨lc.tag, lc.hosts⟩ ∧ (lc.hosts.map (·.addr)).Nodup
  c_none : ∀ n, s.clusters n = none → s.cstore n = none

theorem inv_init (o : Oracle) : Inv o init := by
  constructor <;> intros <;> simp_all [init, FMap.empty]

/-- installing a wrapper whose tables are those built from its configuration, and recording that configuration -/
theorem inv_setRouter {o : Oracle} {s : State} (hI : Inv o s) (cfg : RouterCfg) (t : Option Table) (ht : t = build o cfg) :
    Inv o (recordRouter true { s with wrappers := s.wrappers.set cfg.name ⟨t, cfg⟩ } cfg) := by
  simp only [recordRouter, if_true]
  constructor
  · intro n w hw
    by_cases hn : n = cfg.name
    · subst hn
      simp only [FMap.set_same, Option.some.injEq] at hw
      subst hw
      exact ⟨rfl, by simp, ht⟩
    · simp only [FMap.set_other _ _ hn] at hw ⊢
      exact hI.r_some n w hw
  · intro n hw
    by_cases hn : n = cfg.name
    · subst hn; simp at hw
    · simp only [FMap.set_other _ _ hn] at hw ⊢
      exact hI.r_none n hw
  · exact hI.c_some
  · exact hI.c_none

theorem refreshHosts_some (s : State) (name : String) (hosts : List Host) (c : StoredCluster) (hc : s.cstore name = some c) :
    refreshHosts true s name hosts = { s with cstore := s.cstore.set name { c with hosts := hosts } } := by
  simp [refreshHosts, gen_setHosts, hc]

theorem refreshHosts_none (s : State) (name : String) (hosts : List Host) (hc : s.cstore name = none) :
    refreshHosts true s name hosts = s := by
  simp [refreshHosts, gen_setHosts, hc]

theorem inv_updateCluster {o : Oracle} {s : State} (hI : Inv o s) (name : String) (tag : Nat) (cfgHosts : List Host)
    (handler : Option LiveCluster → List Host) (hN : ((handler (s.clusters name)).map (·.addr)).Nodup) :
    Inv o (updateCluster s name tag cfgHosts handler).1 := by
  simp only [updateCluster, gen_updCfg, gen_updRefresh, if_true]
  rw [refreshHosts_some _ _ _ ⟨tag, cfgHosts⟩ (by simp)]
  constructor
  · exact hI.r_some
  · exact hI.r_none
  · intro n lc hl
    by_cases hn : n = name
    · subst hn
      simp only [FMap.set_same, Option.some.injEq] at hl ⊢
      subst hl
      exact ⟨rfl, hN⟩
    · simp only [FMap.set_other _ _ hn] at hl ⊢
      exact hI.c_some n lc hl
  · intro n hl
    by_cases hn : n = name
    · subst hn; simp at hl
    · simp only [FMap.set_other _ _ hn] at hl ⊢
      exact hI.c_none n hl

theorem inv_updateHosts {o : Oracle} {s : State} (hI : Inv o s) (name : String) (f : List Host → List Host)
    (hf : ∀ l, ((f l).map (·.addr)).Nodup) : Inv o (updateHosts s name f).1 := by
  unfold updateHosts
  split
  · exact hI
  · rename_i lc hlc
    have hst := (hI.c_some name lc hlc).1
    simp only [gen_hostsRefresh]
    rw [refreshHosts_some _ _ _ ⟨lc.tag, lc.hosts⟩ (by simpa using hst)]
    constructor
    · exact hI.r_some
    · exact hI.r_none
    · intro n lc' hl
      by_cases hn : n = name
      · subst hn
        simp only [FMap.set_same, Option.some.injEq] at hl ⊢
        subst hl
        exact ⟨rfl, hf _⟩
      · simp only [FMap.set_other _ _ hn] at hl ⊢
        exact hI.c_some n lc' hl
    · intro n hl
      by_cases hn : n = name
      · subst hn; simp at hl
      · simp only [FMap.set_other _ _ hn] at hl ⊢
        exact hI.c_none n hl

theorem inv_removeCluster {o : Oracle} {s : State} (hI : Inv o s) (name : String) : Inv o (removeCluster s name) := by
  unfold removeCluster
  split
  · exact hI
  · simp only [gen_remove, if_true]
    constructor
    · exact hI.r_some
    · exact hI.r_none
    · intro n lc hl
      by_cases hn : n = name
      · subst hn; simp at hl
      · simp only [FMap.del_other _ hn] at hl ⊢
        exact hI.c_some n lc hl
    · intro n hl
      by_cases hn : n = name
      · subst hn; simp
      · simp only [FMap.del_other _ hn] at hl ⊢
        exact hI.c_none n hl

theorem inv_foldl_removeCluster {o : Oracle} (names : List String) {s : State} (hI : Inv o s) :
    Inv o (names.foldl removeCluster s) := by
  induction names generalizing s with
  | nil => exact hI
  | cons n r ih => exact ih (inv_removeCluster hI n)

theorem replaceHosts_nodup (hs old : List Host) : ((replaceHosts hs old).map (·.addr)).Nodup := dedup_nodup _
theorem appendHosts_nodup (hs old : List Host) : ((appendHosts hs old).map (·.addr)).Nodup := dedup_nodup _
theorem removeHosts_nodup (addrs : List String) (old : List Host) : ((removeHosts addrs old).map (·.addr)).Nodup := dedup_nodup _

theorem inv_xdsAssign {o : Oracle} {s : State} (hI : Inv o s) (cname : String) (locs : List (List XHost)) :
    Inv o (xdsAssign s cname locs).1 := by
  unfold xdsAssign
  split
  · exact inv_updateHosts hI _ _ (replaceHosts_nodup _)
  · simp only [gen_inside, gen_after, Nat.lt_irrefl, if_false, Nat.zero_lt_one, if_true]
    exact inv_updateHosts hI _ _ (replaceHosts_nodup _)

theorem inv_foldl_xds {o : Oracle} (as : List (String × List (List XHost))) {acc : State × Bool} (hI : Inv o acc.1) :
    Inv o (as.foldl (fun (acc : State × Bool) a =>
      let r := xdsAssign acc.1 a.1 a.2
      (r.1, acc.2 && r.2)) acc).1 := by
  induction as generalizing acc with
  | nil => exact hI
  | cons a r ih => exact ih (inv_xdsAssign hI a.1 a.2)

/-- every operation preserves the invariant (successful, failed, repeated or no-op alike). -/
theorem inv_step {o : Oracle} {s : State} (hI : Inv o s) (op : Op) : Inv o (step o s op).1 := by
  cases op with
  | routersNil => exact hI
  | addOrUpdateRouters cfg =>
    simp only [step]
    split
    · split
      · exact hI
      · rename_i t ht
        rw [gen_recordsAddOrUpdate]
        exact inv_setRouter hI cfg (some t) ht.symm
    · rw [gen_recordsAddOrUpdate]
      exact inv_setRouter hI cfg _ rfl
  | addRoute rname domain r =>
    simp only [step]
    split
    · exact hI
    · rename_i w hw
      obtain ⟨hname, _, hb⟩ := hI.r_some rname w hw
      split
      · exact hI
      · rename_i t ht
        split
        · exact hI
        · rename_i i t' ha
          rw [gen_addRoute]
          rw [ht] at hb
          have hb' := build_addRoute hb.symm ha
          have := inv_setRouter hI
            { w.cfg with vhosts := modifyAt (fun vh => { vh with routes := vh.routes ++ [r] }) w.cfg.vhosts i } (some t') hb'.symm
          simpa only [hname] using this
  | removeAllRoutes rname domain =>
    simp only [step]
    split
    · exact hI
    · rename_i w hw
      obtain ⟨hname, _, hb⟩ := hI.r_some rname w hw
      split
      · exact hI
      · rename_i t ht
        split
        · exact hI
        · rename_i i t' ha
          rw [gen_removeAll]
          rw [ht] at hb
          have hb' := build_removeAll hb.symm ha
          have := inv_setRouter hI
            { w.cfg with vhosts := modifyAt (fun vh => { vh with routes := [] }) w.cfg.vhosts i } (some t') hb'.symm
          simpa only [hname] using this
  | addOrUpdateCluster name tag cfgHosts =>
    simp only [step]
    apply inv_updateCluster hI
    cases hc : s.clusters name with
    | none => simp
    | some oc => exact (hI.c_some name oc hc).2
  | addOrUpdateClusterAndHost name tag cfgHosts hosts =>
    simp only [step]
    exact inv_updateCluster hI _ _ _ _ (replaceHosts_nodup _ _)
  | addClusterNil name => exact hI
  | updateHosts name hosts => exact inv_updateHosts hI _ _ (replaceHosts_nodup _)
  | appendHosts name hosts => exact inv_updateHosts hI _ _ (appendHosts_nodup _)
  | removeHosts name addrs => exact inv_updateHosts hI _ _ (removeHosts_nodup _)
  | removeClusters names =>
    simp only [step]
    split
    · exact inv_foldl_removeCluster names hI
    · exact hI
  | xdsEndpoints assignments =>
    simp only [step]
    exact inv_foldl_xds assignments hI

theorem inv_runFrom {o : Oracle} (ops : List Op) {s : State} (hI : Inv o s) : Inv o (runFrom o s ops) := by
  induction ops generalizing s with
  | nil => exact hI
  | cons op r ih => exact ih (inv_step hI op)

theorem inv_run (o : Oracle) (ops : List Op) : Inv o (run o ops) := inv_runFrom ops (inv_init o)

theorem run_append (o : Oracle) (ops : List Op) (op : Op) : run o (ops ++ [op]) = (step o (run o ops) op).1 := by
  simp [run, List.foldl_append]

end MosnVerif.Model.Updates
